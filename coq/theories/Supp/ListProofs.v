(* List-level and logger-level theorems: which messages are forwarded, how the
   matched/checked flags evolve, when the exit code is raised. Unbounded in the
   number of suppressions and messages. *)
From CV Require Import Base.Bytes Base.Glob Base.GlobProofs Supp.Defs Supp.Proofs.
Local Open Scope N_scope.

Section WithPathMatch.
  Variable pm : str -> str -> bool.

  (* a suppression with its bookkeeping flags erased *)
  Definition static (s : supp) : supp :=
    mkSupp (s_id s) (s_file s) (s_line s) (s_begin s) (s_end s) (s_type s) (s_symbol s)
           (s_macro s) (s_hash s) (s_next s) (s_inline s) false false.

  (* is this suppression consulted for message e (global flag g)? *)
  Definition applicable (g : bool) (e : emsg) (s : supp) : bool :=
    negb ((negb g && negb (is_local s))
          || (str_eqb (e_id e) UNMATCHED && negb (str_eqb (s_id s) (e_id e)))).

  Definition hides (g : bool) (e : emsg) (s : supp) : bool :=
    applicable g e s && matches_doc pm s e.

  Lemma static_set_flags s m c : static (set_flags s m c) = static s.
  Proof. reflexivity. Qed.
  Lemma matches_doc_static s e : matches_doc pm (static s) e = matches_doc pm s e.
  Proof. reflexivity. Qed.
  Lemma applicable_static g e s : applicable g e (static s) = applicable g e s.
  Proof. reflexivity. Qed.
  Lemma hides_static g e s : hides g e (static s) = hides g e s.
  Proof. reflexivity. Qed.

  Lemma existsb_hides_static g e l l' :
    map static l' = map static l -> existsb (hides g e) l' = existsb (hides g e) l.
  Proof.
    revert l'. induction l as [|s l IH]; intros [|s' l'] H; try discriminate; [reflexivity|].
    cbn [map] in H.
    assert (Hs : static s' = static s) by (apply (f_equal (hd (static s))) in H; exact H).
    assert (Hl : map static l' = map static l) by (apply (f_equal (@tl _)) in H; exact H).
    cbn [existsb].
    rewrite (IH _ Hl). rewrite <- (hides_static g e s'), Hs, hides_static. reflexivity.
  Qed.

  Lemma is_match_spec s e s' b : is_match pm s e = Some (s', b) ->
    b = matches_doc pm s e /\ static s' = static s
    /\ s_matched s' = (s_matched s || matches_doc pm s e)
    /\ (s_checked s = true -> s_checked s' = true)
    /\ (matches_doc pm s e = true -> s_checked s' = true).
  Proof.
    unfold is_match. destruct (is_suppressed pm s e) as [r|] eqn:Hr; [|discriminate].
    apply is_suppressed_matches_doc in Hr. destruct Hr as [H1 H2].
    destruct (matches_doc pm s e) eqn:Hm.
    - rewrite (H2 eq_refl). intros H; injection H as <- <-. cbn.
      rewrite !orb_true_r. repeat split; auto.
    - destruct r; [| |specialize (H1 eq_refl); discriminate];
        intros H; injection H as <- <-; cbn; rewrite ?orb_false_r;
        repeat split; auto; try discriminate; try (intros ->; reflexivity).
  Qed.

  (* the flags after a query: what the list remembers *)
  Definition flags_after (g : bool) (e : emsg) (s s' : supp) : Prop :=
    static s' = static s
    /\ s_matched s' = (s_matched s || hides g e s)
    /\ (s_checked s = true -> s_checked s' = true)
    /\ (hides g e s = true -> s_checked s' = true).

  Lemma list_is_suppressed_spec g e l : forall l' b,
    list_is_suppressed pm l e g = Some (l', b) ->
    b = existsb (hides g e) l /\ Forall2 (flags_after g e) l l'.
  Proof.
    induction l as [|s l IH]; intros l' b H; cbn [list_is_suppressed] in H.
    - injection H as <- <-. split; [reflexivity|constructor].
    - cbn [existsb]. unfold hides at 1. unfold applicable at 1.
      destruct ((negb g && negb (is_local s))
                || (str_eqb (e_id e) UNMATCHED && negb (str_eqb (s_id s) (e_id e)))) eqn:Hskip.
      + destruct (list_is_suppressed pm l e g) as [[r' b2]|]; [|discriminate].
        injection H as <- <-. destruct (IH _ _ eq_refl) as [-> HF]. cbn [negb andb orb].
        split; [reflexivity|]. constructor; [|exact HF].
        unfold flags_after, hides, applicable. rewrite Hskip. cbn [negb andb].
        rewrite orb_false_r. repeat split; auto. discriminate.
      + destruct (is_match pm s e) as [[s' b1]|] eqn:Hm; [|discriminate].
        destruct (list_is_suppressed pm l e g) as [[r' b2]|]; [|discriminate].
        injection H as <- <-. destruct (IH _ _ eq_refl) as [-> HF].
        apply is_match_spec in Hm. destruct Hm as (-> & Hst & Hma & Hc1 & Hc2).
        cbn [negb andb]. split; [reflexivity|]. constructor; [|exact HF].
        unfold flags_after, hides, applicable. rewrite Hskip. cbn [negb andb]. auto.
  Qed.

  Lemma flags_after_static g e l l' : Forall2 (flags_after g e) l l' -> map static l' = map static l.
  Proof. induction 1 as [|s s' l l' H _ IH]; cbn; [reflexivity|]. destruct H as [-> _]. rewrite IH. reflexivity. Qed.

  (* ---------- the logger ---------- *)
  Variable use_global : bool.

  (* forwarded messages, by the documented rule only: first occurrence of a
     non-empty rendered text, not hidden by any applicable nomsg suppression.
     nofail suppressions and all bookkeeping flags play no role. *)
  Fixpoint spec_forward (nomsg : list supp) (seen : list str) (ms : list (emsg * str)) : list bool :=
    match ms with
    | [] => []
    | (e, text) :: r =>
        let fresh := negb (is_nil text) && negb (mem_str text seen) in
        (fresh && negb (existsb (hides use_global e) nomsg))
          :: spec_forward nomsg (if fresh then text :: seen else seen) r
    end.

  (* exit code: raised iff some forwarded message is matched neither by nofail
     nor by nomsg (queried with global suppressions) *)
  Fixpoint spec_exit (nomsg nofail : list supp) (seen : list str) (ms : list (emsg * str)) : bool :=
    match ms with
    | [] => false
    | (e, text) :: r =>
        let fresh := negb (is_nil text) && negb (mem_str text seen) in
        (fresh && negb (existsb (hides use_global e) nomsg)
           && negb (existsb (hides true e) nofail) && negb (existsb (hides true e) nomsg))
        || spec_exit nomsg nofail (if fresh then text :: seen else seen) r
    end.

  Lemma spec_forward_static n n' seen ms :
    map static n' = map static n -> spec_forward n' seen ms = spec_forward n seen ms.
  Proof.
    intros H. revert seen. induction ms as [|[e t] ms IH]; intros seen; cbn [spec_forward]; [reflexivity|].
    rewrite (existsb_hides_static _ _ _ _ H), IH. reflexivity.
  Qed.

  Lemma spec_exit_static n n' f f' seen ms :
    map static n' = map static n -> map static f' = map static f ->
    spec_exit n' f' seen ms = spec_exit n f seen ms.
  Proof.
    intros H H2. revert seen. induction ms as [|[e t] ms IH]; intros seen; cbn [spec_exit]; [reflexivity|].
    rewrite !(existsb_hides_static _ _ _ _ H), (existsb_hides_static _ _ _ _ H2), IH. reflexivity.
  Qed.

  Lemma logger_step_spec st e text st' b :
    logger_step pm use_global st (e, text) = Some (st', b) ->
    let fresh := negb (is_nil text) && negb (mem_str text (l_seen st)) in
    b = (fresh && negb (existsb (hides use_global e) (l_nomsg st)))
    /\ map static (l_nomsg st') = map static (l_nomsg st)
    /\ map static (l_nofail st') = map static (l_nofail st)
    /\ l_seen st' = (if fresh then text :: l_seen st else l_seen st)
    /\ l_exit st' = (l_exit st
                     || (b && negb (existsb (hides true e) (l_nofail st))
                           && negb (existsb (hides true e) (l_nomsg st)))).
  Proof.
    cbn [logger_step]. 
    destruct (list_is_suppressed pm (l_nomsg st) e use_global) as [[n0 sup]|] eqn:H1; [|discriminate].
    apply list_is_suppressed_spec in H1. destruct H1 as [-> F0]. apply flags_after_static in F0.
    destruct (if existsb (hides use_global e) (l_nomsg st) && negb use_global
              then list_is_suppressed pm n0 e true else Some (n0, false)) as [[n1 b0]|] eqn:H0; [|discriminate].
    assert (F1 : map static n1 = map static (l_nomsg st)).
    { destruct (existsb (hides use_global e) (l_nomsg st) && negb use_global).
      - apply list_is_suppressed_spec in H0. destruct H0 as [_ F]. apply flags_after_static in F. congruence.
      - injection H0 as <- _. exact F0. }
    clear H0 F0.
    destruct (is_nil text) eqn:Hn; cbn [negb andb].
    { intros H; injection H as <- <-. cbn. rewrite orb_false_r. auto. }
    destruct (mem_str text (l_seen st)) eqn:Hs; cbn [negb andb].
    { destruct (if negb (existsb (hides use_global e) (l_nomsg st)) && negb use_global
                then list_is_suppressed pm n1 e true else Some (n1, false)) as [[n1d bd]|] eqn:Hd; [|discriminate].
      assert (Fd : map static n1d = map static (l_nomsg st)).
      { destruct (negb (existsb (hides use_global e) (l_nomsg st)) && negb use_global).
        - apply list_is_suppressed_spec in Hd. destruct Hd as [_ F]. apply flags_after_static in F. congruence.
        - injection Hd as <- _. exact F1. }
      intros H; injection H as <- <-. cbn. rewrite orb_false_r. auto. }
    destruct (existsb (hides use_global e) (l_nomsg st)) eqn:Hh; cbn [negb andb].
    { intros H; injection H as <- <-. cbn. rewrite orb_false_r. auto. }
    destruct (list_is_suppressed pm (l_nofail st) e true) as [[f1 nf]|] eqn:H2; [|discriminate].
    apply list_is_suppressed_spec in H2. destruct H2 as [-> F2]. apply flags_after_static in F2.
    destruct (existsb (hides true e) (l_nofail st)) eqn:Hf; cbn [negb andb].
    { intros H; injection H as <- <-. cbn. rewrite orb_false_r. auto. }
    destruct (list_is_suppressed pm n1 e true) as [[n2 nm]|] eqn:H3; [|discriminate].
    apply list_is_suppressed_spec in H3. destruct H3 as [-> F3]. apply flags_after_static in F3.
    rewrite (existsb_hides_static _ _ _ _ F1).
    intros H; injection H as <- <-. cbn. rewrite F3, F1. auto.
  Qed.

  Theorem logger_run_spec ms : forall st st' outs,
    logger_run pm use_global st ms = Some (st', outs) ->
    outs = spec_forward (l_nomsg st) (l_seen st) ms
    /\ l_exit st' = (l_exit st || spec_exit (l_nomsg st) (l_nofail st) (l_seen st) ms)
    /\ map static (l_nomsg st') = map static (l_nomsg st)
    /\ map static (l_nofail st') = map static (l_nofail st).
  Proof.
    induction ms as [|[e text] ms IH]; intros st st' outs H; cbn [logger_run] in H.
    - injection H as <- <-. cbn. rewrite orb_false_r. auto.
    - destruct (logger_step pm use_global st (e, text)) as [[st1 b]|] eqn:Hs; [|discriminate].
      destruct (logger_run pm use_global st1 ms) as [[st2 bs]|] eqn:Hr; [|discriminate].
      injection H as <- <-. apply logger_step_spec in Hs. cbv zeta in Hs.
      destruct Hs as (Hb & Hn & Hf & Hseen & Hexit).
      apply IH in Hr. destruct Hr as (-> & Hexit2 & Hn2 & Hf2).
      rewrite Hexit2, Hexit.
      rewrite (spec_forward_static _ _ _ _ Hn), (spec_exit_static _ _ _ _ _ _ Hn Hf).
      cbn [spec_forward spec_exit]. rewrite <- Hseen, <- Hb.
      repeat split.
      + rewrite <- orb_assoc. reflexivity.
      + congruence.
      + congruence.
  Qed.
End WithPathMatch.
