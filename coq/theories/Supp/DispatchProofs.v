(* Proofs about the inline-comment dispatcher (Supp/DispatchDefs.v). *)
From CV Require Import Base.Bytes Base.Glob Supp.Defs Supp.ParseDefs Supp.ParseProofs Supp.DispatchDefs.
Require Import Lia ZifyBool.
Local Open Scope N_scope.

(* the type a keyword stands for *)
Definition kw_type (kw : str) : stype :=
  match type_of_suffix (skipn 17 kw) with Some t => t | None => TUnique end.

Lemma drop_spaces_word w rest : nosp w = true -> w <> [] -> drop_spaces (32 :: w ++ rest) = w ++ rest.
Proof.
  intros Hs Hn. destruct w as [|c w']; [congruence|]. cbn [drop_spaces app N.eqb].
  change (32 =? 32) with true. cbn [drop_spaces].
  cbn [nosp forallb] in Hs. apply andb_prop in Hs. destruct Hs as [Hc _].
  assert (Hc32 : (c =? 32) = false) by (unfold is_sp in Hc; lia).
  cbn [app drop_spaces]. rewrite Hc32. reflexivity.
Qed.

(* anything whose text (after '/', '*', blanks) does not start with cppcheck-suppress is no suppression *)
Theorem dispatch_not_keyword c : starts_with CS (drop_lead c) = false -> dispatch c = DNot.
Proof. intros H. unfold dispatch. rewrite H. cbn [negb]. destruct (_ <? 17); reflexivity. Qed.

(* the documented single forms: the keyword decides the type, the comment gives exactly id and symbol *)
Theorem dispatch_spec kw id sym :
  In kw KW -> wordlike id -> has_char LBR id = false -> (sym = [] \/ wordlike sym) ->
  dispatch (47 :: 47 :: 32 :: kw ++ 32 :: id ++ (if is_nil sym then [] else 32 :: SYMBOLNAME_EQ ++ sym))
  = DOk (kw_type kw) [(id, sym)] false.
Proof.
  intros Hkw Hid Hlb Hsym.
  pose proof (parse_comment_spec kw id sym Hkw Hid Hsym) as Hpc.
  destruct Hid as (Hin & Hisp & _ & _).
  set (tail := if is_nil sym then [] else 32 :: SYMBOLNAME_EQ ++ sym) in *.
  assert (Hds : drop_spaces (32 :: id ++ tail) = id ++ tail) by (apply drop_spaces_word; assumption).
  destruct id as [|ic id'] eqn:Hide; [congruence|].
  assert (Hic : (ic =? LBR) = false).
  { rewrite has_char_cons in Hlb. apply orb_false_elim in Hlb. exact (proj1 Hlb). }
  cbn [app] in Hds. cbn in Hkw.
  destruct Hkw as [<-|[<-|[<-|[<-|[<-|[]]]]]]; unfold dispatch; rewrite Hpc;
    (match goal with |- context [N.of_nat (length ?l) <? 17] =>
       assert (Hlen : (N.of_nat (length l) <? 17) = false) by (apply N.ltb_ge; cbn [app length]; lia); rewrite Hlen end);
    cbn [drop_lead app N.eqb orb starts_with CS negb skipn to_delim LBR Pos.eqb andb];
    rewrite Hds; rewrite Hic; reflexivity.
Qed.
