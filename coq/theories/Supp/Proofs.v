From CV Require Import Base.Bytes Base.Glob Base.GlobProofs Supp.Defs.
Local Open Scope N_scope.

(* boolean reading of the documented matching rules, on the glob *language* *)
Definition globb (p n : str) : bool := glob_spec (cstr p) (cstr n).

Lemma oglob_spec p n b : oglob p n = Some b -> b = globb p n.
Proof. unfold oglob, matchglob. apply matchglob_fuel_spec. Qed.

Lemma any_glob_spec p l b : any_glob p l = Some b -> b = existsb (globb p) l.
Proof.
  revert b. induction l as [|x l IH]; intros b H; cbn [any_glob existsb] in *.
  - congruence.
  - destruct (oglob p x) as [[|]|] eqn:Hx; try discriminate.
    + apply oglob_spec in Hx. rewrite <- Hx. injection H as <-. reflexivity.
    + apply oglob_spec in Hx. rewrite <- Hx. cbn [orb]. auto.
Qed.

Section WithPathMatch.
  Variable pm : str -> str -> bool.

  Definition symbol_okb (s : supp) (e : emsg) : bool :=
    is_nil (s_symbol s) || existsb (globb (s_symbol s)) (symbol_list (e_symbols e)).

  Definition line_okb (s : supp) (e : emsg) : bool :=
    negb (stype_eqb (s_type s) TUnique) || (s_line s =? NO_LINE)%Z || (s_line s =? e_line e)%Z
    || (s_next s && (s_line s + 1 =? e_line e)%Z).

  Definition file_okb (s : supp) (e : emsg) : bool :=
    is_nil (s_file s) || pm (s_file s) (e_file e).

  Definition hash_okb (s : supp) (e : emsg) : bool :=
    (s_hash s =? 0) || (s_hash s =? e_hash e).

  Definition block_okb (s : supp) (e : emsg) : bool :=
    negb (stype_eqb (s_type s) TBlock) || ((s_begin s <=? e_line e)%Z && (e_line e <=? s_end s)%Z).

  (* The documented rule: a suppression hides a finding iff every criterion
     it specifies (line, file, hash, id glob, block range, symbol glob; for a
     macro suppression: the macro is expanded at the location) is met. *)
  Definition matches_doc (s : supp) (e : emsg) : bool :=
    if stype_eqb (s_type s) TMacro then
        mem_str (s_macro s) (e_macros e) && hash_okb s e
        && (is_nil (s_id s) || globb (s_id s) (e_id e)) && symbol_okb s e
    else
        line_okb s e && file_okb s e && hash_okb s e
        && (is_nil (s_id s) || (negb (is_nil (e_id e)) && globb (s_id s) (e_id e)))
        && block_okb s e && symbol_okb s e.

  Lemma symbol_part_spec s e r : symbol_part s e = Some r ->
    (r = RMatched /\ symbol_okb s e = true) \/ (r = RChecked /\ symbol_okb s e = false).
  Proof.
    unfold symbol_part, symbol_okb. destruct (is_nil (s_symbol s)).
    - intros H; injection H as <-. left; auto.
    - cbn [orb]. destruct (any_glob _ _) as [[|]|] eqn:Ha; try discriminate;
        apply any_glob_spec in Ha; rewrite <- Ha; intros H; injection H as <-; auto.
  Qed.

  Lemma hash_cond s e : ((0 <? s_hash s) && negb (s_hash s =? e_hash e)) = negb (hash_okb s e).
  Proof.
    unfold hash_okb. destruct (N.eqb_spec (s_hash s) 0) as [->|Hn]; [reflexivity|].
    destruct (N.ltb_spec 0 (s_hash s)); [|lia]. cbn. reflexivity.
  Qed.

  Lemma line_cond s e :
    (stype_eqb (s_type s) TUnique && negb (s_line s =? NO_LINE)%Z && negb (s_line s =? e_line e)%Z
       && negb (s_next s && (s_line s + 1 =? e_line e)%Z)) = negb (line_okb s e).
  Proof.
    unfold line_okb. destruct (stype_eqb _ _), (s_line s =? NO_LINE)%Z, (s_line s =? e_line e)%Z,
      (s_next s && (s_line s + 1 =? e_line e)%Z); reflexivity.
  Qed.

  Lemma block_cond s e :
    (stype_eqb (s_type s) TBlock && ((e_line e <? s_begin s)%Z || (s_end s <? e_line e)%Z)) = negb (block_okb s e).
  Proof.
    unfold block_okb. destruct (stype_eqb _ _); [|reflexivity]. cbn.
    rewrite negb_andb, !Z.leb_antisym, !negb_involutive. reflexivity.
  Qed.

  Ltac fin := let H := fresh in intros H; injection H as <-; split; discriminate.
  Ltac sym := let H := fresh in
    intros H; apply symbol_part_spec in H; destruct H as [[-> ->]|[-> ->]]; split; congruence.

  (* is_suppressed answers Matched exactly on the documented rule; when it
     answers at all (fuel), there is no other way to be Matched. *)
  Theorem is_suppressed_matches_doc s e r :
    is_suppressed pm s e = Some r -> (r = RMatched <-> matches_doc s e = true).
  Proof.
    unfold is_suppressed, matches_doc. destruct (stype_eqb (s_type s) TMacro).
    - unfold is_suppressed_macro.
      destruct (mem_str (s_macro s) (e_macros e)); cbn [negb andb]; [|fin].
      rewrite hash_cond. destruct (hash_okb s e); cbn [negb andb]; [|fin].
      destruct (is_nil (s_id s)); cbn [orb andb]; [sym|].
      destruct (oglob (s_id s) (e_id e)) as [[|]|] eqn:Hg; try discriminate;
        apply oglob_spec in Hg; rewrite <- Hg; cbn [andb]; [sym|fin].
    - unfold is_suppressed_other.
      rewrite line_cond. destruct (line_okb s e); cbn [negb andb]; [|fin].
      unfold file_okb. destruct (is_nil (s_file s)); cbn [negb andb orb].
      + rewrite hash_cond. destruct (hash_okb s e); cbn [negb andb]; [|fin].
        rewrite block_cond.
        destruct (is_nil (s_id s)); cbn [orb andb].
        * destruct (block_okb s e); cbn [negb andb]; [sym|fin].
        * destruct (is_nil (e_id e)); cbn [negb andb]; [fin|].
          destruct (oglob (s_id s) (e_id e)) as [[|]|] eqn:Hg; try discriminate;
            apply oglob_spec in Hg; rewrite <- Hg; cbn [andb]; [|fin].
          destruct (block_okb s e); cbn [negb andb]; [sym|fin].
      + destruct (pm (s_file s) (e_file e)); cbn [negb andb]; [|fin].
        rewrite hash_cond. destruct (hash_okb s e); cbn [negb andb]; [|fin].
        rewrite block_cond.
        destruct (is_nil (s_id s)); cbn [orb andb].
        * destruct (block_okb s e); cbn [negb andb]; [sym|fin].
        * destruct (is_nil (e_id e)); cbn [negb andb]; [fin|].
          destruct (oglob (s_id s) (e_id e)) as [[|]|] eqn:Hg; try discriminate;
            apply oglob_spec in Hg; rewrite <- Hg; cbn [andb]; [|fin].
          destruct (block_okb s e); cbn [negb andb]; [sym|fin].
  Qed.
End WithPathMatch.
