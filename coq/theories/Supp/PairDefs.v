(* Begin/end pairing of inline block suppressions: the blockBegin / blockEnd part of
   addInlineSuppressions (lib/preprocessor.cpp). Executable definitions only. *)
From CV Require Import Base.Bytes Base.Glob Supp.Defs.
Local Open Scope N_scope.

(* one parsed comment entry, in source order: begin or end, id, symbol name, line of the comment *)
Record bev := mkBE { be_end : bool; be_id : str; be_sym : str; be_line : Z }.

(* a block suppression that results: id and symbol (of both entries), lines of begin and end *)
Record block := mkBlk { bk_id : str; bk_sym : str; bk_begin : Z; bk_end : Z }.

Fixpoint last_line (bs : list bev) : option Z :=
  match bs with
  | [] => None
  | [b] => Some (be_line b)
  | _ :: r => last_line r
  end.

(* first pending begin on line `ll` whose id and symbol are those of the end entry (ids compared
   since fix ec62462) and whose line is smaller: it is taken out of the pending list *)
Fixpoint take_begin (ll : Z) (e : bev) (bs : list bev) : option (bev * list bev) :=
  match bs with
  | [] => None
  | b :: r =>
      if (be_line b =? ll)%Z && str_eqb (be_id e) (be_id b) && str_eqb (be_sym e) (be_sym b) && (be_line b <? be_line e)%Z
      then Some (b, r)
      else match take_begin ll e r with
           | Some (x, r') => Some (x, b :: r')
           | None => None
           end
  end.

Record pstate := mkPS { ps_pending : list bev; ps_blocks : list block; ps_bad : N }.

Definition pair_step (st : pstate) (e : bev) : pstate :=
  if be_end e then
    match last_line (ps_pending st) with
    | None => mkPS (ps_pending st) (ps_blocks st) (ps_bad st + 1)          (* Suppress End: No matching begin *)
    | Some ll =>
        match take_begin ll e (ps_pending st) with
        | Some (b, rest) => mkPS rest (ps_blocks st ++ [mkBlk (be_id e) (be_sym e) (be_line b) (be_line e)]) (ps_bad st)
        | None => mkPS (ps_pending st) (ps_blocks st) (ps_bad st + 1)
        end
    end
  else mkPS (ps_pending st ++ [e]) (ps_blocks st) (ps_bad st).

(* all entries of a file; pending begins at the end: Suppress Begin: No matching end *)
Definition pair_blocks (es : list bev) : list block * N :=
  let st := fold_left pair_step es (mkPS [] [] 0) in
  (ps_blocks st, ps_bad st + N.of_nat (length (ps_pending st))).
