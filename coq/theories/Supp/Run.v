(* Entry point for the extracted executable: decodes cases, runs the model. *)
From CV Require Import Base.Bytes Base.Glob Supp.Defs Supp.ParseDefs Supp.PairDefs Supp.DispatchDefs Supp.InlineDefs.
From CV Require Path.Defs.
Local Open Scope N_scope.

(* PathMatch::match(pattern, path) with the default base path: C31's model (Path/Defs.v),
   proved equal to the documented rules there *)
Definition pm_run (pattern path : str) : bool := CV.Path.Defs.pm_model pattern path.

(* SuppressionList::ErrorMessage::setFileName / FileWithDetails::spath: Path::simplifyPath *)
Definition simp (p : str) : str := CV.Path.Defs.simplify_path p.

Definition stype_of (s : str) : stype :=
  match N_of_dec s with
  | Some 1 => TFile | Some 2 => TBlock | Some 3 => TBlockBegin | Some 4 => TBlockEnd | Some 5 => TMacro
  | _ => TUnique
  end.

Definition zd (s : str) : Z := match Z_of_dec s with Some z => z | None => 0%Z end.
Definition nd (s : str) : N := match N_of_dec s with Some z => z | None => 0 end.

Definition take_supp (l : list str) : option (supp * list str) :=
  match l with
  | id :: file :: line :: bg :: en :: ty :: sym :: mac :: hash :: nxt :: inln :: mat :: chk :: r =>
      Some (mkSupp id file (zd line) (zd bg) (zd en) (stype_of ty) sym mac (nd hash)
                   (bool_of_str nxt) (bool_of_str inln) (bool_of_str mat) (bool_of_str chk), r)
  | _ => None
  end.

Fixpoint take_n {A} (f : list str -> option (A * list str)) (n : nat) (l : list str) : option (list A * list str) :=
  match n with
  | O => Some ([], l)
  | S n' => match f l with
            | None => None
            | Some (a, r) => match take_n f n' r with
                             | None => None
                             | Some (as_, r') => Some (a :: as_, r')
                             end
            end
  end.

Definition take_list {A} (f : list str -> option (A * list str)) (l : list str) : option (list A * list str) :=
  match l with
  | cnt :: r => take_n f (N.to_nat (nd cnt)) r
  | [] => None
  end.

Definition take_str (l : list str) : option (str * list str) :=
  match l with x :: r => Some (x, r) | [] => None end.

Definition take_emsg (l : list str) : option (emsg * list str) :=
  match l with
  | hash :: id :: file :: line :: syms :: r =>
      match take_list take_str r with
      | Some (macros, r') => Some (mkEmsg (nd hash) id (simp file) (zd line) syms macros, r')
      | None => None
      end
  | _ => None
  end.

(* message for list_run: emsg + global flag *)
Definition take_emsg_g (l : list str) : option ((emsg * bool) * list str) :=
  match take_emsg l with
  | Some (e, g :: r) => Some ((e, bool_of_str g), r)
  | _ => None
  end.

(* message for logger_run: emsg + rendered text *)
Definition take_emsg_t (l : list str) : option ((emsg * str) * list str) :=
  match take_emsg l with
  | Some (e, t :: r) => Some ((e, t), r)
  | _ => None
  end.

Definition flags_out (l : list supp) : list str :=
  flat_map (fun s => [str_of_bool (s_matched s); str_of_bool (s_checked s)]) l.

Definition FUEL : list str := [[70]].   (* "F" *)
Definition BAD : list str := [[66]].    (* "B": malformed case *)

Definition ob (o : option bool) : list str :=
  match o with Some b => [str_of_bool b] | None => FUEL end.

Definition res_out (r : option result) : list str :=
  match r with
  | None => FUEL
  | Some RNone => [[78]] | Some RChecked => [[67]] | Some RMatched => [[77]]
  end.

Definition tag_is (t : str) (name : str) : bool := str_eqb t name.

(* tags: "glob" "globspec" "issup" "list" "logger" "unmatched" *)
Definition run (fields : list str) : list str :=
  match fields with
  | [] => BAD
  | tag :: args =>
      if tag_is tag [103;108;111;98] then
        match args with [p; n] => ob (matchglob p n) | _ => BAD end
      else if tag_is tag [103;108;111;98;115;112;101;99] then
        match args with [p; n] => [str_of_bool (glob_spec (cstr p) (cstr n))] | _ => BAD end
      else if tag_is tag [105;115;115;117;112] then
        match take_supp args with
        | Some (s, r) => match take_emsg r with
                         | Some (e, _) => res_out (is_suppressed pm_run s e)
                         | None => BAD
                         end
        | None => BAD
        end
      else if tag_is tag [108;105;115;116] then
        match take_list take_supp args with
        | Some (l, r) =>
            match take_list take_emsg_g r with
            | Some (es, _) =>
                match list_run pm_run l es with
                | Some (l', bs) => map str_of_bool bs ++ flags_out l'
                | None => FUEL
                end
            | None => BAD
            end
        | None => BAD
        end
      else if tag_is tag [108;111;103;103;101;114] then
        match args with
        | g :: r0 =>
            match take_list take_supp r0 with
            | Some (nomsg, r1) =>
                match take_list take_supp r1 with
                | Some (nofail, r2) =>
                    match take_list take_emsg_t r2 with
                    | Some (ms, _) =>
                        match logger_run pm_run (bool_of_str g) (mkL nomsg nofail [] false) ms with
                        | Some (st, bs) =>
                            map str_of_bool bs ++ [str_of_bool (l_exit st)]
                                ++ flags_out (l_nomsg st) ++ flags_out (l_nofail st)
                        | None => FUEL
                        end
                    | None => BAD
                    end
                | None => BAD
                end
            | None => BAD
            end
        | [] => BAD
        end
      else if tag_is tag [117;110;109;97;116;99;104;101;100] then
        (* file, supp -> local global inline *)
        match args with
        | file :: r => match take_supp r with
                       | Some (s, _) => [str_of_bool (unmatched_local pm_run (simp file) s);
                                         str_of_bool (unmatched_global s);
                                         str_of_bool (unmatched_inline s)]
                       | None => BAD
                       end
        | [] => BAD
        end
      else if tag_is tag [112;108;105;110;101] then            (* "pline" *)
        match args with
        | [l] => match parse_line simp l with
                 | inl p => [[111;107]; pl_id p; pl_file p; dec_of_Z (pl_line p); pl_symbol p; str_of_bool (pl_poly p)]
                 | inr EFileMissing => [[69]; [102;105;108;101;110;97;109;101;32;105;115;32]]
                 | inr EBadLine => [[69]; [105;110;118;97;108;105;100;32;108;105;110;101]]
                 | inr EExtra => [[69]; [117;110;101;120;112;101;99;116;101;100;32;101]]
                 end
        | _ => BAD
        end
      else if tag_is tag [112;102;105;108;101] then            (* "pfile" *)
        match args with
        | [d] => let '(l, ok) := parse_file simp d in
                 str_of_bool ok :: flat_map (fun p => [pl_id p; pl_file p; dec_of_Z (pl_line p); pl_symbol p]) l
        | _ => BAD
        end
      else if tag_is tag [112;99;111;109;109;101;110;116] then (* "pcomment" *)
        match args with
        | [c] => match parse_comment c with
                 | Some pc => [[49]; pc_id pc; pc_symbol pc; pc_extra pc; str_of_bool (pc_attr_ok pc)]
                 | None => [[48]]
                 end
        | _ => BAD
        end
      else if tag_is tag [112;109;117;108;116;105] then        (* "pmulti" *)
        match args with
        | [c] => let '(l, ok) := parse_multi c in
                 str_of_bool ok :: flat_map (fun x => [fst x; snd x]) l
        | _ => BAD
        end
      else if tag_is tag [116;111;115;116;114] then            (* "tostr": id file line symbol *)
        match args with
        | [i; f; ln; sy] => [to_string (mkPL i f (zd ln) sy false)]
        | _ => BAD
        end
      else if tag_is tag [112;97;105;114] then                 (* "pair": n, (isend id sym line)* *)
        let take_ev := fun (l : list str) =>
          match l with
          | e :: i :: sy :: ln :: r => Some (mkBE (bool_of_str e) i sy (zd ln), r)
          | _ => None
          end in
        match take_list take_ev args with
        | Some (es, _) => let '(bl, bad) := pair_blocks es in
                          dec_of_N bad :: flat_map (fun b => [bk_id b; bk_sym b; dec_of_Z (bk_begin b); dec_of_Z (bk_end b)]) bl
        | None => BAD
        end
      else if tag_is tag [100;105;115;112] then                 (* "disp": one comment on its own line, after code, before code *)
        match args with
        | [c] =>
            match dispatch c with
            | DNot => [[48]]
            | DBad => [[49]]
            | DOk t items bad =>
                let nb : N := if bad then 1 else 0 in
                match t with
                | TUnique | TMacro =>
                    (* addSuppression refuses invalid ids and repeated (id, symbol) *)
                    let added := fold_left (fun acc it => let p := mkPL (fst it) [102;46;99] 3 (snd it) false in
                                                          if addable acc p then acc ++ [p] else acc) items [] in
                    dec_of_N nb :: flat_map (fun p => [pl_id p; pl_symbol p;
                                                       match t with TMacro => [53] | _ => [48] end]) added
                | _ => [dec_of_N (nb + N.of_nat (length items))]   (* file not at the top / begin without end / end without begin *)
                end
            end
        | _ => BAD
        end
      else if tag_is tag [105;110;108;105;110;101] then         (* "inline": n, (line iscomment text)* *)
        let take_tok := fun (l : list str) =>
          match l with
          | ln :: c :: tx :: r => Some (mkTok (zd ln) (bool_of_str c) tx, r)
          | _ => None
          end in
        let tcode := fun (t : stype) => match t with TUnique => [48] | TFile => [49] | TBlock => [50]
                                                  | TBlockBegin => [51] | TBlockEnd => [52] | TMacro => [53] end in
        match take_list take_tok args with
        | Some (ts, _) => let '(l, bad) := inline_suppressions ts in
                          dec_of_N bad :: flat_map (fun x => [is_id x; is_sym x; tcode (is_type x); dec_of_Z (is_line x);
                                                              dec_of_Z (is_begin x); dec_of_Z (is_end x); str_of_bool (is_next x)]) l
        | None => BAD
        end
      else BAD
  end.
