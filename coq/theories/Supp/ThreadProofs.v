(* Thread executor: the final flags as a function of the queries it makes
   (workers without global suppressions + the parent's hasToLog), for lists with
   pairwise different parameters (what addSuppression guarantees). *)
From CV Require Import Base.Bytes Base.Glob Base.GlobProofs Supp.Defs Supp.Proofs Supp.ListProofs Supp.ExecDefs Supp.ExecProofs.
Local Open Scope N_scope.

Lemma str_eqb_sym a b : str_eqb a b = str_eqb b a.
Proof.
  destruct (str_eqb a b) eqn:H1, (str_eqb b a) eqn:H2; try reflexivity.
  - apply str_eqb_eq in H1. subst. rewrite (proj2 (str_eqb_eq b b) eq_refl) in H2. discriminate.
  - apply str_eqb_eq in H2. subst. rewrite (proj2 (str_eqb_eq a a) eq_refl) in H1. discriminate.
Qed.

Lemma same_params_sym a b : same_params a b = same_params b a.
Proof.
  unfold same_params.
  rewrite (str_eqb_sym (s_id a)), (str_eqb_sym (s_file a)), (str_eqb_sym (s_symbol a)),
    (Z.eqb_sym (s_line a)), (N.eqb_sym (s_hash a)).
  destruct (s_next a), (s_next b); reflexivity.
Qed.

Lemma forallb_ext' {A} (f g : A -> bool) l : (forall x, f x = g x) -> forallb f l = forallb g l.
Proof. intros H. induction l; cbn; congruence. Qed.

Fixpoint uniq (l : list supp) : bool :=
  match l with
  | [] => true
  | x :: r => forallb (fun y => negb (same_params x y)) r && uniq r
  end.

Lemma set_flags_self s : set_flags s (s_matched s) (s_checked s) = s.
Proof. destruct s. unfold set_flags. cbn. rewrite !orb_diag. reflexivity. Qed.

Lemma update_state_self l : forall s, uniq l = true -> In s l -> fst (update_state l s) = l.
Proof.
  induction l as [|x l IH]; intros s Hu Hs; [destruct Hs|].
  cbn [uniq] in Hu. apply andb_prop in Hu. destruct Hu as [Hx Hu].
  rewrite update_state_cons. destruct Hs as [->|Hs].
  - rewrite same_params_refl, set_flags_self. reflexivity.
  - rewrite forallb_forall in Hx. specialize (Hx s Hs). apply negb_true_iff in Hx.
    rewrite same_params_sym, Hx. rewrite (IH s Hu Hs). reflexivity.
Qed.

Lemma existsb_same_params_in s l : In s l -> existsb (same_params s) l = true.
Proof. intros H. apply existsb_exists. exists s. split; [exact H|apply same_params_refl]. Qed.

(* ThreadData::check transfers the shared list into itself: nothing changes *)
Lemma transfer_thread_self w : forall p, uniq p = true -> incl w p -> transfer_thread p w = p.
Proof.
  unfold transfer_thread. induction w as [|s w IH]; intros p Hu Hi; cbn [fold_left]; [reflexivity|].
  assert (Hs : In s p) by (apply Hi; left; reflexivity).
  assert (Hp : (if s_inline s then add_or_update p s else if negb (is_local s) then fst (update_state p s) else p) = p).
  { destruct (s_inline s).
    - rewrite add_or_update_present by (apply existsb_same_params_in; exact Hs). apply update_state_self; assumption.
    - destruct (negb (is_local s)); [apply update_state_self; assumption|reflexivity]. }
  rewrite Hp. apply IH; [exact Hu|]. intros x Hx. apply Hi. right. exact Hx.
Qed.

Lemma forallb_static_gen (p : supp -> bool) (Hp : forall x, p (static x) = p x) l : forall l',
  map static l' = map static l -> forallb p l' = forallb p l.
Proof.
  induction l as [|s l IH]; intros [|s' l'] H; try discriminate; [reflexivity|].
  cbn [map] in H.
  assert (Hs : static s' = static s) by (apply (f_equal (hd (static s))) in H; exact H).
  assert (Hl : map static l' = map static l) by (apply (f_equal (@tl _)) in H; exact H).
  cbn [forallb]. rewrite (IH _ Hl). rewrite <- (Hp s'), Hs, Hp. reflexivity.
Qed.

Lemma uniq_static l : forall l', map static l' = map static l -> uniq l' = uniq l.
Proof.
  induction l as [|s l IH]; intros [|s' l'] H; try discriminate; [reflexivity|].
  cbn [map] in H.
  assert (Hs : static s' = static s) by (apply (f_equal (hd (static s))) in H; exact H).
  assert (Hl : map static l' = map static l) by (apply (f_equal (@tl _)) in H; exact H).
  cbn [uniq]. rewrite (IH _ Hl).
  rewrite (forallb_static_gen (fun y => negb (same_params s' y)) (fun x => eq_refl) l l' Hl).
  f_equal. apply forallb_ext'. intros y.
  change (same_params s' y) with (same_params (static s') y). rewrite Hs. reflexivity.
Qed.

Section WithPathMatch.
  Variable pm : str -> str -> bool.

  (* Executor::hasToLog: one global query (without macro names) per forwarded finding *)
  Definition log_queries (ms : list (emsg * str)) : list query := map (fun m => (no_macros (fst m), true)) ms.

  Lemma has_to_log_derive ms : forall n seen n2 seen2 bs,
    has_to_log pm n seen ms = Some (n2, seen2, bs) -> n2 = map (derive pm (log_queries ms) []) n.
  Proof.
    induction ms as [|[e t] ms IH]; intros n seen n2 seen2 bs H; cbn [has_to_log] in H.
    - injection H as <- _ _. cbn. rewrite (map_ext _ (fun s => s)), map_id; [reflexivity|]. intros; apply derive_nil.
    - destruct (list_is_suppressed pm n (no_macros e) true) as [[n1 sup]|] eqn:H1; [|discriminate].
      apply list_is_suppressed_eq in H1. destruct H1 as [-> _].
      destruct (has_to_log pm _ _ ms) as [[[n3 seen3] bs3]|] eqn:H2; [|discriminate].
      injection H as <- _ _. apply IH in H2. rewrite H2, map_upd_derive, map_derive_derive. reflexivity.
  Qed.

  Definition thread_file_queries (n f : list supp) (x : finput) : list query :=
    file_queries pm false n f x ++ log_queries (pick (spec_forward pm false n [] (f_msgs x)) (f_msgs x)).

  Definition thread_queries (n f : list supp) (fs : list finput) : list query := flat_map (thread_file_queries n f) fs.

  Lemma thread_queries_static n n' f f' fs :
    map static n' = map static n -> map static f' = map static f -> thread_queries n' f' fs = thread_queries n f fs.
  Proof.
    intros Hn Hf. unfold thread_queries. apply flat_map_ext. intros x. unfold thread_file_queries.
    rewrite (file_queries_static pm false n n' f f' x Hn Hf), (spec_forward_static pm false n n' [] (f_msgs x) Hn).
    reflexivity.
  Qed.

  (* thread executor: the final flags are those of its query set *)
  Theorem thread_files_flags bn bf fs : forall n f seen sr,
    multi_files pm EThread bn bf n f seen fs = Some sr -> uniq n = true -> Forall (inline_present n) fs ->
    sr_nomsg sr = map (derive pm (thread_queries n f fs) (flat_map f_locs fs)) n.
  Proof.
    induction fs as [|x fs IH]; intros n f seen sr H Hu Hin; cbn [multi_files] in H.
    - injection H as <-. cbn. rewrite (map_ext _ (fun s => s)), map_id; [reflexivity|]. intros; apply derive_nil.
    - cbv zeta in H. inversion Hin as [|? ? Hin1 Hin2]; subst.
      destruct (check_file pm false n f x) as [fr|] eqn:Hc; [|discriminate].
      apply check_file_spec in Hc; [|exact Hin1]. destruct Hc as (Hrn & Hrf & Hout & _).
      assert (Hrs : map static (r_nomsg fr) = map static n) by (rewrite Hrn; apply map_static_derive).
      rewrite transfer_thread_self in H; [|rewrite (uniq_static n _ Hrs); exact Hu|apply incl_refl].
      destruct (has_to_log pm (r_nomsg fr) seen (pick (r_out fr) (f_msgs x))) as [[[pn1 seen1] shows]|] eqn:Hh; [|discriminate].
      apply has_to_log_derive in Hh.
      destruct (multi_files pm EThread bn bf pn1 (r_nofail fr) seen1 fs) as [sr1|] eqn:Hm; [|discriminate].
      injection H as <-. cbn [sr_nomsg].
      assert (Hps : map static pn1 = map static n) by (rewrite Hh, map_static_derive; exact Hrs).
      apply IH in Hm.
      2:{ rewrite (uniq_static n _ Hps). exact Hu. }
      2:{ revert Hin2. apply Forall_impl. intros y. apply inline_present_static. exact Hps. }
      rewrite Hm, (thread_queries_static n pn1 f (r_nofail fr) fs Hps Hrf), Hh, Hrn, Hout.
      rewrite !map_derive_derive. unfold thread_queries at 2. cbn [flat_map app]. unfold thread_file_queries at 1.
      rewrite <- !app_assoc. reflexivity.
  Qed.

  (* hence: a suppression reported as unmatched by a thread-executor run was hidden by none
     of the queries that executor makes -- but a finding dropped by a worker is put to the
     local suppressions only (file_queries ... false), which is how C24_executor_independent_refuted arises *)
  Lemma thread_flag_unmatched bn bf fs n f seen sr s0 :
    multi_files pm EThread bn bf n f seen fs = Some sr -> uniq n = true -> Forall (inline_present n) fs ->
    In s0 n -> In (derive pm (thread_queries n f fs) (flat_map f_locs fs) s0) (sr_nomsg sr).
  Proof.
    intros H Hu Hin Hs. rewrite (thread_files_flags bn bf fs n f seen sr H Hu Hin). apply in_map. exact Hs.
  Qed.
End WithPathMatch.
