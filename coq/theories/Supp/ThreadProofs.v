(* Thread executor: the final flags as a function of the queries it makes
   (workers without global suppressions + the parent's hasToLog), for lists with
   pairwise different parameters (what addSuppression guarantees). *)
From CV Require Import Base.Bytes Base.Glob Base.GlobProofs Supp.Defs Supp.Proofs Supp.ListProofs Supp.ExecDefs Supp.ExecProofs.
Local Open Scope N_scope.

Lemma str_eqb_sym a b : str_eqb a b = str_eqb b a.
Proof.
  destruct (str_eqb a b) eqn:H1, (str_eqb b a) eqn:H2; try reflexivity.
  - apply str_eqb_eq in H1. subst. rewrite (proj2 (str_eqb_eq b b) eq_refl) in H2. discriminate.
  - apply str_eqb_eq in H2. subst. rewrite (proj2 (str_eqb_eq a a) eq_refl) in H1. discriminate.
Qed.

Lemma same_params_sym a b : same_params a b = same_params b a.
Proof.
  unfold same_params.
  rewrite (str_eqb_sym (s_id a)), (str_eqb_sym (s_file a)), (str_eqb_sym (s_symbol a)),
    (Z.eqb_sym (s_line a)), (N.eqb_sym (s_hash a)).
  destruct (s_next a), (s_next b); reflexivity.
Qed.

Lemma forallb_ext' {A} (f g : A -> bool) l : (forall x, f x = g x) -> forallb f l = forallb g l.
Proof. intros H. induction l; cbn; congruence. Qed.

Fixpoint uniq (l : list supp) : bool :=
  match l with
  | [] => true
  | x :: r => forallb (fun y => negb (same_params x y)) r && uniq r
  end.

Lemma set_flags_self s : set_flags s (s_matched s) (s_checked s) = s.
Proof. destruct s. unfold set_flags. cbn. rewrite !orb_diag. reflexivity. Qed.

Lemma update_state_self l : forall s, uniq l = true -> In s l -> fst (update_state l s) = l.
Proof.
  induction l as [|x l IH]; intros s Hu Hs; [destruct Hs|].
  cbn [uniq] in Hu. apply andb_prop in Hu. destruct Hu as [Hx Hu].
  rewrite update_state_cons. destruct Hs as [->|Hs].
  - rewrite same_params_refl, set_flags_self. reflexivity.
  - rewrite forallb_forall in Hx. specialize (Hx s Hs). apply negb_true_iff in Hx.
    rewrite same_params_sym, Hx. rewrite (IH s Hu Hs). reflexivity.
Qed.

Lemma existsb_same_params_in s l : In s l -> existsb (same_params s) l = true.
Proof. intros H. apply existsb_exists. exists s. split; [exact H|apply same_params_refl]. Qed.

(* ThreadData::check transfers the shared list into itself: nothing changes *)
Lemma transfer_thread_self w : forall p, uniq p = true -> incl w p -> transfer_thread p w = p.
Proof.
  unfold transfer_thread. induction w as [|s w IH]; intros p Hu Hi; cbn [fold_left]; [reflexivity|].
  assert (Hs : In s p) by (apply Hi; left; reflexivity).
  assert (Hp : (if s_inline s then add_or_update p s else if negb (is_local s) then fst (update_state p s) else p) = p).
  { destruct (s_inline s).
    - rewrite add_or_update_present by (apply existsb_same_params_in; exact Hs). apply update_state_self; assumption.
    - destruct (negb (is_local s)); [apply update_state_self; assumption|reflexivity]. }
  rewrite Hp. apply IH; [exact Hu|]. intros x Hx. apply Hi. right. exact Hx.
Qed.

Lemma forallb_static_gen (p : supp -> bool) (Hp : forall x, p (static x) = p x) l : forall l',
  map static l' = map static l -> forallb p l' = forallb p l.
Proof.
  induction l as [|s l IH]; intros [|s' l'] H; try discriminate; [reflexivity|].
  cbn [map] in H.
  assert (Hs : static s' = static s) by (apply (f_equal (hd (static s))) in H; exact H).
  assert (Hl : map static l' = map static l) by (apply (f_equal (@tl _)) in H; exact H).
  cbn [forallb]. rewrite (IH _ Hl). rewrite <- (Hp s'), Hs, Hp. reflexivity.
Qed.

Lemma uniq_static l : forall l', map static l' = map static l -> uniq l' = uniq l.
Proof.
  induction l as [|s l IH]; intros [|s' l'] H; try discriminate; [reflexivity|].
  cbn [map] in H.
  assert (Hs : static s' = static s) by (apply (f_equal (hd (static s))) in H; exact H).
  assert (Hl : map static l' = map static l) by (apply (f_equal (@tl _)) in H; exact H).
  cbn [uniq]. rewrite (IH _ Hl).
  rewrite (forallb_static_gen (fun y => negb (same_params s' y)) (fun x => eq_refl) l l' Hl).
  f_equal. apply forallb_ext'. intros y.
  change (same_params s' y) with (same_params (static s') y). rewrite Hs. reflexivity.
Qed.

Section WithPathMatch.
  Variable pm : str -> str -> bool.

  (* Executor::hasToLog: one global query (without macro names) per forwarded finding *)
  Definition log_queries (ms : list (emsg * str)) : list query := map (fun m => (no_macros (fst m), true)) ms.

  Lemma has_to_log_derive ms : forall n seen n2 seen2 bs,
    has_to_log pm n seen ms = Some (n2, seen2, bs) -> n2 = map (derive pm (log_queries ms) []) n.
  Proof.
    induction ms as [|[e t] ms IH]; intros n seen n2 seen2 bs H; cbn [has_to_log] in H.
    - injection H as <- _ _. cbn. rewrite (map_ext _ (fun s => s)), map_id; [reflexivity|]. intros; apply derive_nil.
    - destruct (list_is_suppressed pm n (no_macros e) true) as [[n1 sup]|] eqn:H1; [|discriminate].
      apply list_is_suppressed_eq in H1. destruct H1 as [-> _].
      destruct (has_to_log pm _ _ ms) as [[[n3 seen3] bs3]|] eqn:H2; [|discriminate].
      injection H as <- _ _. apply IH in H2. rewrite H2, map_upd_derive, map_derive_derive. reflexivity.
  Qed.

  Definition thread_file_queries (n f : list supp) (x : finput) : list query :=
    file_queries pm false n f x ++ log_queries (pick (spec_forward pm false n [] (f_msgs x)) (f_msgs x)).

  Definition thread_queries (n f : list supp) (fs : list finput) : list query := flat_map (thread_file_queries n f) fs.

  Lemma thread_queries_static n n' f f' fs :
    map static n' = map static n -> map static f' = map static f -> thread_queries n' f' fs = thread_queries n f fs.
  Proof.
    intros Hn Hf. unfold thread_queries. apply flat_map_ext. intros x. unfold thread_file_queries.
    rewrite (file_queries_static pm false n n' f f' x Hn Hf), (spec_forward_static pm false n n' [] (f_msgs x) Hn).
    reflexivity.
  Qed.

  (* thread executor: the final flags are those of its query set *)
  Theorem thread_files_flags bn bf fs : forall n f seen sr,
    multi_files pm EThread bn bf n f seen fs = Some sr -> uniq n = true -> Forall (inline_present n) fs ->
    sr_nomsg sr = map (derive pm (thread_queries n f fs) (flat_map f_locs fs)) n.
  Proof.
    induction fs as [|x fs IH]; intros n f seen sr H Hu Hin; cbn [multi_files] in H.
    - injection H as <-. cbn. rewrite (map_ext _ (fun s => s)), map_id; [reflexivity|]. intros; apply derive_nil.
    - cbv zeta in H. inversion Hin as [|? ? Hin1 Hin2]; subst.
      destruct (check_file pm false n f x) as [fr|] eqn:Hc; [|discriminate].
      apply check_file_spec in Hc; [|exact Hin1]. destruct Hc as (Hrn & Hrf & Hout & _).
      assert (Hrs : map static (r_nomsg fr) = map static n) by (rewrite Hrn; apply map_static_derive).
      rewrite transfer_thread_self in H; [|rewrite (uniq_static n _ Hrs); exact Hu|apply incl_refl].
      destruct (has_to_log pm (r_nomsg fr) seen (pick (r_out fr) (f_msgs x))) as [[[pn1 seen1] shows]|] eqn:Hh; [|discriminate].
      apply has_to_log_derive in Hh.
      destruct (multi_files pm EThread bn bf pn1 (r_nofail fr) seen1 fs) as [sr1|] eqn:Hm; [|discriminate].
      injection H as <-. cbn [sr_nomsg].
      assert (Hps : map static pn1 = map static n) by (rewrite Hh, map_static_derive; exact Hrs).
      apply IH in Hm.
      2:{ rewrite (uniq_static n _ Hps). exact Hu. }
      2:{ revert Hin2. apply Forall_impl. intros y. apply inline_present_static. exact Hps. }
      rewrite Hm, (thread_queries_static n pn1 f (r_nofail fr) fs Hps Hrf), Hh, Hrn, Hout.
      rewrite !map_derive_derive. unfold thread_queries at 2. cbn [flat_map app]. unfold thread_file_queries at 1.
      rewrite <- !app_assoc. reflexivity.
  Qed.

  (* hence: a suppression reported as unmatched by a thread-executor run was hidden by none
     of the queries that executor makes -- but a finding dropped by a worker is put to the
     local suppressions only (file_queries ... false), which is how C24_executor_independent_refuted arises *)
  Lemma thread_flag_unmatched bn bf fs n f seen sr s0 :
    multi_files pm EThread bn bf n f seen fs = Some sr -> uniq n = true -> Forall (inline_present n) fs ->
    In s0 n -> In (derive pm (thread_queries n f fs) (flat_map f_locs fs) s0) (sr_nomsg sr).
  Proof.
    intros H Hu Hin Hs. rewrite (thread_files_flags bn bf fs n f seen sr H Hu Hin). apply in_map. exact Hs.
  Qed.
End WithPathMatch.

(* ------------------------------------------------------------------ *)
(* After fix 524f0f5: the thread executor leaves the same flags as the single
   executor, hence reports the same unmatched suppressions. *)
Section ThreadEqualsSingle.
  Variable pm : str -> str -> bool.

  Definition texts_ok (ms : list (emsg * str)) : Prop :=
    (forall m, In m ms -> is_nil (snd m) = false)
    /\ (forall e1 t1 e2 t2, In (e1, t1) ms -> In (e2, t2) ms -> t1 = t2 -> e1 = e2).

  (* since fix 243c78e (a worker asks the global suppressions about a duplicate it drops) only this
     part of texts_ok is needed: every finding has a rendered text *)
  Definition texts_nonempty (ms : list (emsg * str)) : Prop := forall m, In m ms -> is_nil (snd m) = false.

  Lemma texts_ok_nonempty ms : texts_ok ms -> texts_nonempty ms.
  Proof. intros [H _]. exact H. Qed.

  Definition macro_local (s : supp) : Prop := stype_eqb (s_type s) TMacro = true -> is_local s = true.

  (* the two flag criteria have the shape "consulted, and R" *)
  Variable R : supp -> emsg -> bool.
  Hypothesis R1 : forall s e, R s (no_macros e) = true -> R s e = true.
  Hypothesis R2 : forall s e, stype_eqb (s_type s) TMacro = false -> R s (no_macros e) = R s e.

  Definition P (g : bool) (e : emsg) (s : supp) : bool := applicable g e s && R s e.
  Definition anyP (Q : list query) (s : supp) : bool := existsb (fun q => P (snd q) (fst q) s) Q.

  Lemma applicable_mono e s : applicable false e s = true -> applicable true e s = true.
  Proof. unfold applicable. cbn [negb andb orb]. destruct (is_local s); cbn; [auto|discriminate]. Qed.

  Lemma applicable_local e s : is_local s = true -> applicable false e s = applicable true e s.
  Proof. unfold applicable. intros ->. reflexivity. Qed.

  Lemma P_mono g e s : P g e s = true -> P true e s = true.
  Proof.
    destruct g; [auto|]. unfold P. intros H. apply andb_prop in H. destruct H as [H1 H2].
    rewrite (applicable_mono e s H1), H2. reflexivity.
  Qed.

  Lemma nomsg_queries_hidden n f ms : forall seen e t,
    In (e, t) ms -> existsb (hides pm false e) n = true -> In (e, true) (nomsg_queries pm false n f seen ms).
  Proof.
    induction ms as [|[e0 t0] ms IH]; intros seen e t H Hh; [destruct H|].
    cbn [nomsg_queries]. destruct H as [H|H].
    - injection H as -> ->. rewrite Hh. cbn [negb andb app]. right. left. reflexivity.
    - apply in_or_app. right. eapply IH; eassumption.
  Qed.

  Lemma pick_in {A} (bs : list bool) : forall (xs : list A) x, In x (pick bs xs) -> In x xs.
  Proof.
    induction bs as [|b bs IH]; intros [|y xs] x H; cbn [pick] in H; try (destruct H; fail).
    destruct b; [destruct H as [->|H]; [left; reflexivity|right; auto]|right; auto].
  Qed.

  Lemma mem_str_cons t t0 seen : mem_str t (t0 :: seen) = str_eqb t t0 || mem_str t seen.
  Proof. reflexivity. Qed.

  (* a finding no local suppression hides is forwarded (first occurrence of its text) or, as a
     duplicate, put to the global suppressions by the worker itself (fix 243c78e) *)
  Lemma forwarded_or_asked n f ms : forall seen e t,
    texts_nonempty ms -> In (e, t) ms -> existsb (hides pm false e) n = false ->
    In (e, true) (nomsg_queries pm false n f seen ms) \/ In (e, t) (pick (spec_forward pm false n seen ms) ms).
  Proof.
    induction ms as [|[e0 t0] ms IH]; intros seen e t Hok Hin Hh; [destruct Hin|].
    assert (Hok' : texts_nonempty ms) by (intros m Hm; apply Hok; right; exact Hm).
    assert (Hn0 : is_nil t0 = false) by (apply (Hok (e0, t0)); left; reflexivity).
    cbn [spec_forward pick nomsg_queries]. rewrite Hn0. cbn [negb andb].
    destruct Hin as [Hin|Hin].
    - injection Hin as -> ->. rewrite Hh. cbn [negb andb].
      destruct (mem_str t seen) eqn:Hs; cbn [negb andb app].
      + left. right. left. reflexivity.
      + right. left. reflexivity.
    - destruct (IH (if negb (mem_str t0 seen) then t0 :: seen else seen) e t Hok' Hin Hh) as [H|H].
      + left. apply in_or_app. right. exact H.
      + right. destruct (negb (mem_str t0 seen) && negb (existsb (hides pm false e0) n)); [right; exact H|exact H].
  Qed.

  Lemma bool_eq_of_imp (a b : bool) : (a = true -> b = true) -> (b = true -> a = true) -> a = b.
  Proof. destruct a, b; intros H1 H2; try reflexivity; [symmetry; apply H1; reflexivity|apply H2; reflexivity]. Qed.

  (* per file: the thread executor's queries reach what the single executor's reach *)
  Lemma file_anyP_equal n f x s :
    texts_nonempty (f_msgs x) -> macro_local s ->
    anyP (thread_file_queries pm n f x) s = anyP (file_queries pm true n f x) s.
  Proof.
    intros Hok Hml. apply bool_eq_of_imp; unfold anyP; intros H; apply existsb_exists in H;
      destruct H as [[e g] [Hq Hp]]; cbn [fst snd] in Hp; apply existsb_exists.
    - (* thread -> single *)
      unfold thread_file_queries, file_queries in Hq. apply in_app_or in Hq. destruct Hq as [[Hq|Hq]|Hq].
      + exists (e, g). split; [left; exact Hq|exact Hp].
      + apply nomsg_queries_only in Hq. destruct Hq as [_ [t Ht]].
        exists (e, true). split; [right; eapply nomsg_queries_all; exact Ht|]. cbn [fst snd]. eapply P_mono. exact Hp.
      + unfold log_queries in Hq. apply in_map_iff in Hq. destruct Hq as [[e1 t1] [Heq Hm]]. cbn [fst] in Heq.
        injection Heq as <- <-. apply pick_in in Hm.
        exists (e1, true). split; [right; eapply nomsg_queries_all; exact Hm|]. cbn [fst snd].
        unfold P in *. apply andb_prop in Hp. destruct Hp as [Ha Hr].
        change (applicable true (no_macros e1) s) with (applicable true e1 s) in Ha.
        rewrite Ha, (R1 s e1 Hr). reflexivity.
    - (* single -> thread *)
      unfold file_queries in Hq. destruct Hq as [Hq|Hq].
      + exists (e, g). split; [unfold thread_file_queries, file_queries; apply in_or_app; left; left; exact Hq|exact Hp].
      + apply nomsg_queries_only in Hq. destruct Hq as [Hg [t Ht]]. assert (g = true) by (destruct Hg; auto). subst g.
        destruct (is_local s) eqn:Hloc.
        * exists (e, false). split.
          { unfold thread_file_queries, file_queries. apply in_or_app. left. right. eapply nomsg_queries_all. exact Ht. }
          cbn [fst snd]. unfold P in *. rewrite (applicable_local e s Hloc). exact Hp.
        * destruct (existsb (hides pm false e) n) eqn:Hh.
          { exists (e, true). split; [|exact Hp].
            unfold thread_file_queries, file_queries. apply in_or_app. left. right.
            eapply nomsg_queries_hidden; eassumption. }
          { destruct (forwarded_or_asked n f (f_msgs x) [] e t Hok Ht Hh) as [Hq2|Hfw].
            - exists (e, true). split; [|exact Hp].
              unfold thread_file_queries, file_queries. apply in_or_app. left. right. exact Hq2.
            - exists (no_macros e, true). split.
              + unfold thread_file_queries. apply in_or_app. right. unfold log_queries. apply in_map_iff.
                exists (e, t). split; [reflexivity|exact Hfw].
              + cbn [fst snd]. unfold P in *.
                change (applicable true (no_macros e) s) with (applicable true e s).
                assert (Hnm : stype_eqb (s_type s) TMacro = false).
                { destruct (stype_eqb (s_type s) TMacro) eqn:Hm; [|reflexivity]. rewrite (Hml Hm) in Hloc. discriminate. }
                rewrite (R2 s e Hnm). exact Hp. }
  Qed.

  Lemma existsb_ext_in {A} (f g : A -> bool) l : (forall x, In x l -> f x = g x) -> existsb f l = existsb g l.
  Proof.
    induction l as [|x l IH]; intros H; cbn; [reflexivity|].
    rewrite (H x (or_introl eq_refl)), IH; [reflexivity|]. intros y Hy. apply H. right. exact Hy.
  Qed.

  Lemma all_anyP_equal n f fs s :
    Forall (fun x => texts_nonempty (f_msgs x)) fs -> macro_local s ->
    anyP (thread_queries pm n f fs) s = anyP (single_queries pm n f fs) s.
  Proof.
    intros Hok Hml. unfold anyP, thread_queries, single_queries. rewrite !existsb_flat_map.
    apply existsb_ext_in. intros x Hx. rewrite Forall_forall in Hok.
    apply (file_anyP_equal n f x s (Hok x Hx) Hml).
  Qed.
End ThreadEqualsSingle.

Section ThreadEqualsSingle2.
  Variable pm : str -> str -> bool.

  Lemma matches_doc_nomacro1 s e : matches_doc pm s (no_macros e) = true -> matches_doc pm s e = true.
  Proof. unfold matches_doc. destruct (stype_eqb (s_type s) TMacro); [cbn; discriminate|exact (fun H => H)]. Qed.
  Lemma matches_doc_nomacro2 s e : stype_eqb (s_type s) TMacro = false -> matches_doc pm s (no_macros e) = matches_doc pm s e.
  Proof. unfold matches_doc. intros ->. reflexivity. Qed.
  Lemma located_nomacro1 s e : located pm s (no_macros e) = true -> located pm s e = true.
  Proof. unfold located. destruct (stype_eqb (s_type s) TMacro); [cbn; discriminate|exact (fun H => H)]. Qed.
  Lemma located_nomacro2 s e : stype_eqb (s_type s) TMacro = false -> located pm s (no_macros e) = located pm s e.
  Proof. unfold located. intros ->. reflexivity. Qed.

  Lemma derive_thread_single n f fs wq M s :
    Forall (fun x => texts_nonempty (f_msgs x)) fs -> macro_local s ->
    derive pm (thread_queries pm n f fs ++ wq) M s = derive pm (single_queries pm n f fs ++ wq) M s.
  Proof.
    intros Hok Hml. unfold derive. rewrite !anyhide_app, !anyreach_app.
    pose proof (all_anyP_equal pm (matches_doc pm) (matches_doc_nomacro1) (matches_doc_nomacro2) n f fs s Hok Hml) as H1.
    pose proof (all_anyP_equal pm (located pm) (located_nomacro1) (located_nomacro2) n f fs s Hok Hml) as H2.
    unfold anyP, P in H1, H2. unfold anyhide, anyreach, hides, reach. rewrite H1, H2. reflexivity.
  Qed.

  Lemma whole_run_unmatched_of_nomsg k cfg n f fs wp o :
    whole_run pm k cfg n f fs wp = Some o ->
    (if c_info cfg && negb (is_nil_list (o_nomsg o))
     then report_unmatched pm (c_filters cfg) (c_inline cfg) (o_nomsg o) (map f_path fs) else Some []) = Some (o_unmatched o).
  Proof.
    unfold whole_run. intros H.
    destruct (exec_files pm k n f fs) as [sr|]; [|discriminate].
    destruct (logger_run pm true _ wp) as [[st outs]|]; [|discriminate].
    cbv zeta in H.
    destruct (if c_info cfg && negb (is_nil_list (l_nomsg st)) then _ else _) as [u|] eqn:Hu; [|discriminate].
    destruct (unmatched_fail pm (l_nofail st) u) as [fl|]; [|discriminate].
    injection H as <-. cbn [o_nomsg o_unmatched]. exact Hu.
  Qed.

  Lemma whole_run_thread_nomsg cfg n f fs wp o :
    whole_run pm (Some EThread) cfg n f fs wp = Some o -> uniq n = true -> Forall (inline_present n) fs ->
    o_nomsg o = map (derive pm (thread_queries pm n f fs ++ nomsg_queries pm true n f [] wp) (flat_map f_locs fs)) n.
  Proof.
    unfold whole_run, exec_files. intros H Hu Hin.
    destruct (multi_files pm EThread n f n f [] fs) as [sr|] eqn:Hs; [|discriminate].
    pose proof (multi_files_spec pm EThread n f fs n f [] sr Hs eq_refl eq_refl Hin) as (Hn & Hf & _).
    apply thread_files_flags in Hs; [|exact Hu|exact Hin].
    destruct (logger_run pm true (mkL (sr_nomsg sr) (sr_nofail sr) [] false) wp) as [[st outs]|] eqn:Hr; [|discriminate].
    apply logger_run_nomsg in Hr. cbn [l_nomsg l_nofail l_seen] in Hr.
    rewrite (nomsg_queries_static pm true _ _ _ _ [] wp Hn Hf), Hs, map_derive_derive, app_nil_r in Hr.
    cbv zeta in H.
    destruct (if c_info cfg && negb (is_nil_list (l_nomsg st)) then _ else _) as [u|]; [|discriminate].
    destruct (unmatched_fail pm (l_nofail st) u) as [fl|]; [|discriminate].
    injection H as <-. cbn [o_nomsg]. exact Hr.
  Qed.

  (* the thread executor ends with the flags of the single executor and reports the same
     unmatched suppressions *)
  Theorem thread_equals_single_ne cfg n f fs wp o1 o2 :
    whole_run pm None cfg n f fs wp = Some o1 ->
    whole_run pm (Some EThread) cfg n f fs wp = Some o2 ->
    uniq n = true -> Forall (inline_present n) fs ->
    Forall (fun x => texts_nonempty (f_msgs x)) fs -> Forall macro_local n ->
    o_nomsg o2 = o_nomsg o1 /\ o_unmatched o2 = o_unmatched o1.
  Proof.
    intros H1 H2 Hu Hin Hok Hml.
    assert (Hn : o_nomsg o2 = o_nomsg o1).
    { rewrite (whole_run_thread_nomsg cfg n f fs wp o2 H2 Hu Hin).
      pose proof (whole_run_single_spec pm cfg n f fs wp o1 H1 Hin) as Hs. cbv zeta in Hs. destruct Hs as (-> & _).
      unfold run_queries. apply map_ext_in. intros s Hs. apply derive_thread_single; [exact Hok|].
      rewrite Forall_forall in Hml. apply Hml. exact Hs. }
    split; [exact Hn|].
    apply whole_run_unmatched_of_nomsg in H1. apply whole_run_unmatched_of_nomsg in H2.
    rewrite Hn in H2. rewrite H1 in H2. injection H2 as ->. reflexivity.
  Qed.

  (* the statement with the former, stronger hypothesis *)
  Theorem thread_equals_single cfg n f fs wp o1 o2 :
    whole_run pm None cfg n f fs wp = Some o1 ->
    whole_run pm (Some EThread) cfg n f fs wp = Some o2 ->
    uniq n = true -> Forall (inline_present n) fs ->
    Forall (fun x => texts_ok (f_msgs x)) fs -> Forall macro_local n ->
    o_nomsg o2 = o_nomsg o1 /\ o_unmatched o2 = o_unmatched o1.
  Proof.
    intros H1 H2 Hu Hin Hok Hml. apply (thread_equals_single_ne cfg n f fs wp o1 o2 H1 H2 Hu Hin); [|exact Hml].
    revert Hok. apply Forall_impl. intros x. apply texts_ok_nonempty.
  Qed.
End ThreadEqualsSingle2.
