(* C30 proofs, part 1: strings of the documented grammar -> shapes, tokens. *)
From CV Require Import Base.Bytes Lib.Defs.
Require Import Lia ZifyBool.
Local Open Scope N_scope.

(* ---------- split / join ---------- *)
Lemma split_on_nonempty sep s cur : split_on sep s cur <> [].
Proof.
  revert cur; induction s as [|c s IH]; intros cur; cbn [split_on].
  - discriminate.
  - destruct (c =? sep); [discriminate | apply IH].
Qed.

Lemma join_split_on sep s cur : join [sep] (split_on sep s cur) = rev cur ++ s.
Proof.
  revert cur; induction s as [|c s IH]; intros cur; cbn [split_on].
  - cbn. now rewrite app_nil_r.
  - destruct (c =? sep) eqn:E.
    + apply N.eqb_eq in E; subst c.
      specialize (IH []). cbn [rev app] in IH.
      destruct (split_on sep s []) as [|y l] eqn:S.
      { now apply split_on_nonempty in S. }
      cbn [join]. cbn [join] in IH. rewrite IH. reflexivity.
    + rewrite IH. cbn [rev]. rewrite <- app_assoc. reflexivity.
Qed.

Lemma join_split sep s : join [sep] (split sep s) = s.
Proof. unfold split. now rewrite join_split_on. Qed.

Lemma join_snoc_sep c (l : list str) :
  l <> [] -> join [c] l ++ [c] = flat_map (fun p => p ++ [c]) l.
Proof.
  induction l as [|x l IH]; intros H; [congruence|].
  destruct l as [|y l].
  - cbn. now rewrite app_nil_r.
  - change (join [c] (x :: y :: l)) with (x ++ [c] ++ join [c] (y :: l)).
    change (flat_map (fun p => p ++ [c]) (x :: y :: l)) with ((x ++ [c]) ++ flat_map (fun p => p ++ [c]) (y :: l)).
    rewrite <- IH by discriminate. now rewrite <- !app_assoc.
Qed.

(* ---------- numbers of the grammar ---------- *)
Definition num (n : str) (v : Z) : Prop := parse_num n = Some v.

Lemma is_digit_range c : is_digit c = true <-> 48 <= c <= 57.
Proof. unfold is_digit. lia. Qed.

Lemma canon_all_digits d : canon_digits d = true -> all_digits d = true /\ d <> [].
Proof.
  destruct d as [|c [|c' r]]; cbn; intros H; try discriminate.
  - split; [now rewrite H | discriminate].
  - split; [|discriminate].
    apply andb_prop in H as [H1 H2]. exact H2.
Qed.

Lemma canon_not_oct d : canon_digits d = true -> is_oct d = false.
Proof.
  destruct d as [|c [|c' r]]; intros H; try reflexivity.
  - cbn. destruct c as [|p]; [reflexivity|]. repeat (destruct p as [p|p|]; try reflexivity).
  - cbn [canon_digits] in H. apply andb_prop in H as [H _]. apply andb_prop in H as [_ H].
    apply negb_true_iff, N.eqb_neq in H.
    unfold is_oct. destruct c as [|p]; [reflexivity|].
    repeat (destruct p as [p|p|]; try reflexivity). congruence.
Qed.

Inductive numshape : str -> Z -> Prop :=
| NS_neg d : canon_digits d = true -> numshape (cMINUS :: d) (- Z.of_N (value_base 10 0 d))
| NS_pos d : canon_digits d = true -> numshape d (Z.of_N (value_base 10 0 d)).

Lemma canon_hd_digit d : canon_digits d = true -> exists c r, d = c :: r /\ is_digit c = true.
Proof.
  intros H. destruct (canon_all_digits d H) as [A N0].
  destruct d as [|c r]; [congruence|]. exists c, r. split; [reflexivity|].
  cbn in A. now apply andb_prop in A as [A _].
Qed.

Lemma num_shape n v : num n v -> numshape n v.
Proof.
  unfold num, parse_num. destruct n as [|c d]; [discriminate|].
  destruct (c =? cMINUS) eqn:E.
  - apply N.eqb_eq in E; subst c.
    destruct (canon_digits d) eqn:C; [|discriminate]. intros [= <-]. now constructor.
  - destruct (canon_digits (c :: d)) eqn:C; [|discriminate]. intros [= <-]. now constructor.
Qed.

(* ---------- shapes of the items ---------- *)
Inductive pshape : str -> item -> Prop :=
| PS_val n v : num n v -> pshape n (IVal v)
| PS_range na nb a b : num na a -> num nb b -> pshape (na ++ cCOLON :: nb) (IRange a b)
| PS_from na a : num na a -> pshape (na ++ [cCOLON]) (IFrom a)
| PS_to nb b : num nb b -> pshape (cCOLON :: nb) (ITo b).

Lemma parse_item_shape p it : parse_item p = Some it -> pshape p it.
Proof.
  unfold parse_item. intros H.
  pose proof (join_split cCOLON p) as J.
  destruct (split cCOLON p) as [|x [|y [|w l]]]; try discriminate.
  - cbn in J. subst x. destruct (parse_num p) eqn:P; [|discriminate].
    cbn in H. injection H as <-. now constructor.
  - cbn [join] in J. subst p.
    destruct x as [|cx x], y as [|cy y]; try discriminate.
    + destruct (parse_num (cy :: y)) eqn:P; [|discriminate]. cbn in H. injection H as <-.
      cbn. now constructor.
    + destruct (parse_num (cx :: x)) eqn:P; [|discriminate]. cbn in H. injection H as <-.
      now constructor.
    + destruct (parse_num (cx :: x)) eqn:P1; [|discriminate].
      destruct (parse_num (cy :: y)) eqn:P2; [|discriminate]. injection H as <-.
      change ([cCOLON] ++ cy :: y) with (cCOLON :: cy :: y). now constructor.
Qed.

Lemma parse_items_Forall2 ps e : parse_items ps = Some e -> Forall2 pshape ps e.
Proof.
  revert e; induction ps as [|p ps IH]; intros e; cbn [parse_items].
  - intros [= <-]. constructor.
  - destruct (parse_item p) eqn:P; [|discriminate].
    destruct (parse_items ps) eqn:R; [|discriminate]. intros [= <-].
    constructor; [now apply parse_item_shape | now apply IH].
Qed.

(* ---------- lexing ---------- *)
Lemma flush_app cur l : flush cur l = flush cur [] ++ l.
Proof. destruct cur; reflexivity. Qed.

Lemma lex_go_app u c r cur :
  is_digit c = false ->
  lex_go (u ++ c :: r) cur = lex_go u cur ++ [c] :: lex_go r [].
Proof.
  intros Hc. revert cur; induction u as [|x u IH]; intros cur.
  - cbn [app lex_go]. rewrite Hc. apply flush_app.
  - cbn [app lex_go]. destruct (is_digit x).
    + apply IH.
    + rewrite IH. rewrite (flush_app cur ([x] :: _)), (flush_app cur ([x] :: lex_go u [])).
      now rewrite <- app_assoc.
Qed.

Lemma lex_go_digits d cur : all_digits d = true -> lex_go d cur = flush (rev d ++ cur) [].
Proof.
  revert cur; induction d as [|x d IH]; intros cur H.
  - reflexivity.
  - cbn in H. apply andb_prop in H as [Hx Hd]. cbn [lex_go]. rewrite Hx, IH by assumption.
    cbn [rev]. now rewrite <- app_assoc.
Qed.

Lemma lex_digits d : all_digits d = true -> d <> [] -> lex d = [d].
Proof.
  intros H N0. unfold lex. rewrite lex_go_digits by assumption. rewrite app_nil_r.
  destruct (rev d) eqn:R.
  - apply (f_equal (@rev N)) in R. rewrite rev_involutive in R. now subst.
  - cbn [flush]. rewrite <- R, rev_involutive. reflexivity.
Qed.

(* the tokens of a number string before the merge *)
Definition ntoks (n : str) : list str :=
  match n with
  | c :: d => if c =? cMINUS then [[cMINUS]; d] else [n]
  | [] => []
  end.

Lemma lex_num n v : num n v -> lex n = ntoks n.
Proof.
  intros H. apply num_shape in H. destruct H as [d C|d C].
  - destruct (canon_all_digits d C) as [A N0].
    cbn [ntoks]. rewrite N.eqb_refl. unfold lex. cbn [lex_go].
    change (is_digit cMINUS) with false. cbn [flush].
    fold (lex d). now rewrite lex_digits.
  - destruct (canon_all_digits d C) as [A N0].
    destruct (canon_hd_digit d C) as (c & r & -> & Hc).
    cbn [ntoks]. replace (c =? cMINUS) with false.
    + now apply lex_digits.
    + symmetry. apply N.eqb_neq. apply is_digit_range in Hc. unfold cMINUS. lia.
Qed.

Lemma lex_app_sep u c r : is_digit c = false -> lex (u ++ c :: r) = lex u ++ [c] :: lex r.
Proof. intros. unfold lex. now apply lex_go_app. Qed.

(* ---------- the merge ---------- *)
Lemma merge_neg_minus d r : is_num d = true -> merge_neg ([cMINUS] :: d :: r) = (cMINUS :: d) :: merge_neg r.
Proof. intros H. cbn [merge_neg]. rewrite H. reflexivity. Qed.

Lemma merge_neg_other t r : is_tok cMINUS t = false -> merge_neg (t :: r) = t :: merge_neg r.
Proof. intros H. destruct r; cbn [merge_neg]; [reflexivity|]. now rewrite H. Qed.

Lemma is_num_digits d : all_digits d = true -> d <> [] -> (exists c r, d = c :: r /\ is_digit c = true) -> is_num d = true.
Proof.
  intros A N0 (c & r & -> & Hc). unfold is_num.
  replace (c =? cMINUS) with false; [assumption|].
  symmetry. apply N.eqb_neq. apply is_digit_range in Hc. unfold cMINUS. lia.
Qed.

Lemma canon_is_num d : canon_digits d = true -> is_num d = true.
Proof.
  intros C. destruct (canon_all_digits d C). apply is_num_digits; auto. now apply canon_hd_digit.
Qed.

Lemma num_is_num n v : num n v -> is_num n = true.
Proof.
  intros H. apply num_shape in H. destruct H as [d C|d C].
  - destruct (canon_all_digits d C) as [A N0]. unfold is_num. rewrite N.eqb_refl.
    destruct d; [congruence | assumption].
  - now apply canon_is_num.
Qed.

Lemma digits_not_tok c d : all_digits d = true -> is_digit c = false -> is_tok c d = false.
Proof.
  intros A Hc. unfold is_tok. destruct (str_eqb d [c]) eqn:E; [|reflexivity].
  apply str_eqb_eq in E. subst d. cbn in A. rewrite Hc in A. discriminate.
Qed.

Lemma num_not_tok c n v : num n v -> c <> cMINUS -> is_digit c = false -> is_tok c n = false.
Proof.
  intros H Hm Hc. apply num_shape in H. destruct H as [d C|d C].
  - unfold is_tok. destruct (str_eqb (cMINUS :: d) [c]) eqn:E; [|reflexivity].
    apply str_eqb_eq in E. congruence.
  - destruct (canon_all_digits d C). now apply digits_not_tok.
Qed.

Lemma num_not_minus_tok n v : num n v -> is_tok cMINUS n = false.
Proof.
  intros H. apply num_shape in H. destruct H as [d C|d C].
  - unfold is_tok. destruct (str_eqb (cMINUS :: d) [cMINUS]) eqn:E; [|reflexivity].
    apply str_eqb_eq in E. injection E as ->. discriminate.
  - destruct (canon_all_digits d C). now apply digits_not_tok.
Qed.

Lemma merge_ntoks n v r : num n v -> merge_neg (ntoks n ++ r) = n :: merge_neg r.
Proof.
  intros H. pose proof (num_not_minus_tok n v H) as NM.
  apply num_shape in H. destruct H as [d C|d C].
  - cbn [ntoks]. rewrite N.eqb_refl. cbn [app]. apply merge_neg_minus. now apply canon_is_num.
  - destruct (canon_hd_digit d C) as (c & r' & -> & Hc). cbn [ntoks].
    replace (c =? cMINUS) with false.
    + cbn [app]. now apply merge_neg_other.
    + symmetry. apply N.eqb_neq. apply is_digit_range in Hc. unfold cMINUS. lia.
Qed.

(* the token group of one item, after the merge, including the closing comma *)
Definition gtoks (p : str) (it : item) : list str :=
  match it with
  | IVal _ => [p; [cCOMMA]]
  | IRange _ _ => match split cCOLON p with [a; b] => [a; [cCOLON]; b; [cCOMMA]] | _ => [] end
  | IFrom _ => match split cCOLON p with [a; _] => [a; [cCOLON]; [cCOMMA]] | _ => [] end
  | ITo _ => match split cCOLON p with [_; b] => [[cCOLON]; b; [cCOMMA]] | _ => [] end
  end.

Inductive gshape : item -> list str -> Prop :=
| GS_val n v : num n v -> gshape (IVal v) [n; [cCOMMA]]
| GS_range na nb a b : num na a -> num nb b -> gshape (IRange a b) [na; [cCOLON]; nb; [cCOMMA]]
| GS_from na a : num na a -> gshape (IFrom a) [na; [cCOLON]; [cCOMMA]]
| GS_to nb b : num nb b -> gshape (ITo b) [[cCOLON]; nb; [cCOMMA]].

Lemma tok_colon_not_minus : is_tok cMINUS [cCOLON] = false. Proof. reflexivity. Qed.
Lemma tok_comma_not_minus : is_tok cMINUS [cCOMMA] = false. Proof. reflexivity. Qed.

Lemma piece_tokens p it R :
  pshape p it -> exists g, gshape it g /\ merge_neg (lex (p ++ cCOMMA :: R)) = g ++ merge_neg (lex R).
Proof.
  intros H. destruct H as [n v Hn | na nb a b Ha Hb | na a Ha | nb b Hb].
  - exists [n; [cCOMMA]]. split; [now constructor|].
    rewrite lex_app_sep by reflexivity. rewrite (lex_num n v Hn).
    rewrite (merge_ntoks n v _ Hn). rewrite merge_neg_other by reflexivity. reflexivity.
  - exists [na; [cCOLON]; nb; [cCOMMA]]. split; [now constructor|].
    rewrite <- app_assoc. cbn [app].
    rewrite lex_app_sep by reflexivity.
    change (cCOLON :: nb ++ cCOMMA :: R) with (cCOLON :: (nb ++ cCOMMA :: R)).
    rewrite (lex_app_sep nb) by reflexivity.
    rewrite (lex_num na a Ha), (lex_num nb b Hb).
    rewrite (merge_ntoks na a _ Ha). rewrite merge_neg_other by reflexivity.
    rewrite (merge_ntoks nb b _ Hb). rewrite merge_neg_other by reflexivity. reflexivity.
  - exists [na; [cCOLON]; [cCOMMA]]. split; [now constructor|].
    rewrite <- app_assoc. cbn [app].
    rewrite lex_app_sep by reflexivity.
    rewrite (lex_num na a Ha).
    rewrite (merge_ntoks na a _ Ha).
    assert (L : lex (cCOMMA :: R) = [cCOMMA] :: lex R) by reflexivity.
    rewrite L.
    rewrite merge_neg_other by reflexivity. rewrite merge_neg_other by reflexivity. reflexivity.
  - exists [[cCOLON]; nb; [cCOMMA]]. split; [now constructor|].
    cbn [app].
    assert (L : lex (cCOLON :: nb ++ cCOMMA :: R) = [cCOLON] :: lex (nb ++ cCOMMA :: R)) by reflexivity.
    rewrite L. rewrite (lex_app_sep nb) by reflexivity. rewrite (lex_num nb b Hb).
    rewrite merge_neg_other by reflexivity.
    rewrite (merge_ntoks nb b _ Hb). rewrite merge_neg_other by reflexivity. reflexivity.
Qed.

Lemma tokens_of_pieces ps e :
  Forall2 pshape ps e ->
  exists gs, Forall2 gshape e gs /\
             merge_neg (lex (flat_map (fun p => p ++ [cCOMMA]) ps)) = concat gs.
Proof.
  induction 1 as [|p it ps e Hp _ IH].
  - exists []. split; [constructor | reflexivity].
  - destruct IH as (gs & Hg & E).
    cbn [flat_map]. rewrite <- app_assoc. cbn [app].
    destruct (piece_tokens p it (flat_map (fun p => p ++ [cCOMMA]) ps) Hp) as (g & G & M).
    exists (g :: gs). split; [now constructor|].
    rewrite M, E. reflexivity.
Qed.

Lemma valid_tokens_groups s e :
  parse_valid s = Some e ->
  exists gs, Forall2 gshape e gs /\ valid_tokens s = concat gs.
Proof.
  unfold parse_valid, valid_tokens. intros H.
  apply parse_items_Forall2 in H.
  assert (E : s ++ [cCOMMA] = flat_map (fun p => p ++ [cCOMMA]) (split cCOMMA s)).
  { rewrite <- join_snoc_sep by apply split_on_nonempty. now rewrite join_split. }
  rewrite E. now apply tokens_of_pieces.
Qed.
