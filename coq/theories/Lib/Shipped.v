(* C30: the regenerated table of every <valid> text shipped in cfg/*.cfg. *)
From CV Require Import Base.Bytes Lib.Defs Lib.Proofs Lib.WalkProofs Lib.Gen_Valids.
Local Open Scope N_scope.

(* integer expressions (no '.', 'e', 'E') must be in the documented grammar with
   64-bit, ordered bounds; every expression must be accepted by the loader *)
Definition shipped_ok (s : str) : bool :=
  compliant s &&
  (if int_domain s then match parse_vexpr s with Some e => vexpr_ok e | None => false end else true).

Lemma shipped_table_ok : forallb shipped_ok valids = true.
Proof. vm_compute. reflexivity. Qed.

Lemma shipped_valids_ok s :
  In s valids ->
  compliant s = true /\
  (int_domain s = true ->
   exists e, parse_vexpr s = Some e /\ forall z, int_arg_valid s z = Some (denote_v_b e z)).
Proof.
  intros I. pose proof shipped_table_ok as T. rewrite forallb_forall in T. specialize (T s I).
  unfold shipped_ok in T. apply andb_prop in T as [C P]. split; [exact C|].
  intros D. rewrite D in P. destruct (parse_vexpr s) as [e|] eqn:E; [|discriminate].
  exists e. split; [reflexivity|]. intros z. now apply int_arg_valid_denote_v_b.
Qed.

Definition n_int_valids : N := N.of_nat (length (filter int_domain valids)).
