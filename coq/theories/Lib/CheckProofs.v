(* C30 proofs, part 3: the decision kernels of the checks. *)
From CV Require Import Base.Bytes Lib.Defs Lib.Proofs Lib.WalkProofs.
Local Open Scope N_scope.

Lemma reports_invalid_arg_iff ac e z :
  ac_valid ac <> [] -> parse_vexpr (ac_valid ac) = Some e -> vexpr_ok e = true ->
  (reports_invalid_arg ac z = Some true <-> ~ denote_v e z).
Proof.
  intros N0 P OK. unfold reports_invalid_arg. destruct (ac_valid ac) as [|c v] eqn:V; [congruence|].
  rewrite (int_arg_valid_denote_v_b _ e z P OK). cbn [option_map]. rewrite <- denote_v_b_spec.
  destruct (denote_v_b e z); cbn; split; congruence.
Qed.

Lemma reports_null_bool cs ac isnull isbool :
  load_children cs ac0 = Some ac ->
  (reports_null ac isnull = true <-> In CNotNull cs /\ isnull = true) /\
  (reports_bool ac isbool = true <-> In CNotBool cs /\ isbool = true).
Proof.
  rewrite load_children_spec. destruct (all_valid_ok cs); [|discriminate]. intros [= <-].
  unfold reports_null, reports_bool. cbn [ac_notnull ac_notbool ac0 orb].
  rewrite !andb_true_iff, !existsb_exists. split; split.
  - intros [(c & I & H) B]. destruct c; try discriminate. tauto.
  - intros [I B]. split; [exists CNotNull; tauto | assumption].
  - intros [(c & I & H) B]. destruct c; try discriminate. tauto.
  - intros [I B]. split; [exists CNotBool; tauto | assumption].
Qed.
