(* Entry point for the extracted executable: decodes cases, runs the model. *)
From CV Require Import Base.Bytes Lib.Defs.
Local Open Scope N_scope.

Definition tag_is (t name : str) : bool := str_eqb t name.
Definition zd (s : str) : Z := match Z_of_dec s with Some z => z | None => 0%Z end.

Definition BAD : list str := [[66]].      (* "B": malformed case *)
Definition OUT : list str := [[79]].      (* "O": outside the modelled domain ('.', 'e', 'E') *)
Definition EXC : list str := [[88]].      (* "X": InternalError escapes *)
Definition NOPARSE : list str := [[78]].  (* "N": not in the documented grammar *)
Definition NOTOK : list str := [[75]].    (* "K": parsed, but a bound is not a 64-bit value / reversed range *)
(* "E" "BAD_ATTRIBUTE_VALUE" *)
Definition REFUSED : list str := [[69]; [66;65;68;95;65;84;84;82;73;66;85;84;69;95;86;65;76;85;69]].

Definition ob (o : option bool) : list str :=
  match o with Some b => [str_of_bool b] | None => EXC end.

Definition child_of (f : str) : child :=
  match f with
  | [110] => CNotNull      (* n *)
  | [98] => CNotBool       (* b *)
  | [117] => CNotUninit    (* u *)
  | 118 :: t => CValid t   (* v<text> *)
  | _ => COther
  end.

Definition run (fields : list str) : list str :=
  match fields with
  | [] => BAD
  | tag :: args =>
      (* compliant *)
      if tag_is tag [99;111;109;112;108;105;97;110;116] then
        match args with [s] => [str_of_bool (compliant s)] | [] => [str_of_bool (compliant [])] | _ => BAD end
      (* intvalid <text> <z> <lang> *)
      else if tag_is tag [105;110;116;118;97;108;105;100] then
        match args with
        | s :: z :: _ =>
            if negb (compliant s) then REFUSED
            else if negb (int_domain (cstr s)) then OUT
            else ob (int_arg_valid (cstr s) (zd z))
        | _ => BAD
        end
      (* spec <text> <z> : the documented meaning *)
      else if tag_is tag [115;112;101;99] then
        match args with
        | s :: z :: _ =>
            match parse_vexpr s with
            | None => NOPARSE
            | Some e => if vexpr_ok e then [str_of_bool (denote_v_b e (zd z))] else NOTOK
            end
        | _ => BAD
        end
      (* tokens <text> : the token list after the merge (debugging aid) *)
      else if tag_is tag [116;111;107;101;110;115] then
        match args with [s] => valid_tokens (cstr s) | _ => BAD end
      (* argflags <child>... *)
      else if tag_is tag [97;114;103;102;108;97;103;115] then
        match load_children (map child_of args) ac0 with
        | None => REFUSED
        | Some ac => [str_of_bool (ac_notnull ac); str_of_bool (ac_notbool ac); str_of_bool (ac_notuninit ac); ac_valid ac]
        end
      (* calls <kind> <child>... : kind = i<z> | b | o ; answer = arg argbool null *)
      else if tag_is tag [99;97;108;108] then
        match args with
        | k :: cs =>
            let kind := match k with
                        | 105 :: z => AInt (zd z)
                        | [98] => ABool
                        | _ => AOther
                        end in
            match load_children (map child_of cs) ac0 with
            | None => REFUSED
            | Some ac =>
                if negb (int_domain (ac_valid ac)) then OUT
                else match expected_reports ac kind with
                     | None => EXC
                     | Some r => [str_of_bool (r_arg r); str_of_bool (r_argbool r); str_of_bool (r_null r)]
                     end
            end
        | _ => BAD
        end
      else BAD
  end.
