(* C30  Library <valid> expressions, as lib/library.cpp runs them.

   compliant        = Library::isCompliantValidationExpression (character level, all bytes)
   lex              = simplecpp::TokenList::readfile + combineOperators restricted to the
                      alphabet of compliant expressions without '.', 'e', 'E'
                      (digit runs are one token, each of  : , - + !  is a token of its own;
                      none of combineOperators' merges applies to a compliant string there)
   merge_neg        = the `- %num%` loop of gettokenlistfromvalid
   to_big           = MathLib::toBigNumber on [-]digits (octal when 0[0-7]+, stoull wrap to
                      64 bit two's complement, InternalError from 2^64 on)
   walk             = the token loop of Library::isIntArgValid (`! %num%` first, then the four tests in order,
                      same short circuit, None = the InternalError escapes)
   int_arg_valid    = isIntArgValid for an argument that has this <valid> text
   No proofs here. *)
From CV Require Import Base.Bytes.
Local Open Scope N_scope.

(* ---------- characters ---------- *)
Definition cCOMMA : N := 44.
Definition cCOLON : N := 58.
Definition cMINUS : N := 45.
Definition cPLUS : N := 43.
Definition cDOT : N := 46.
Definition cBANG : N := 33.
Definition cE : N := 69.
Definition ce : N := 101.

(* a C string ends at the first NUL *)
Fixpoint cstr (s : str) : str :=
  match s with
  | [] => []
  | c :: s' => if c =? 0 then [] else c :: cstr s'
  end.

(* *(p+1): the next character, NUL at the end *)
Definition nxt (r : str) : N := match r with [] => 0 | c :: _ => c end.

(* ---------- Library::isCompliantValidationExpression ----------
   `error |= X` followed by `return !error` at the end is the conjunction of all
   the negated X; an unknown character returns false at once. *)
Fixpoint compl_go (s : str) (range has_dot has_E : bool) : bool :=
  match s with
  | [] => true
  | c :: r =>
      let n := nxt r in
      if is_digit c then negb (n =? cMINUS) && compl_go r range has_dot has_E
      else if c =? cCOLON then negb (range || (n =? cDOT)) && compl_go r true false false
      else if (c =? cMINUS) || (c =? cPLUS) then is_digit n && compl_go r range has_dot has_E
      else if c =? cCOMMA then negb (n =? cDOT) && compl_go r false false false
      else if c =? cDOT then negb (has_dot || negb (is_digit n)) && compl_go r range true has_E
      else if (c =? cE) || (c =? ce) then negb has_E && compl_go r range has_dot true
      else if c =? cBANG then ((n =? cMINUS) || (n =? cPLUS) || is_digit n) && compl_go r range has_dot has_E
      else false
  end.

Definition compliant (s0 : str) : bool :=
  let s := cstr s0 in
  match s with
  | [] => false
  | c :: _ => negb (c =? cDOT) && compl_go s false false false
  end.

(* ---------- which path isIntArgValid takes ---------- *)
Definition has_char (c : N) (s : str) : bool := existsb (fun x => x =? c) s.
(* the integer model covers expressions without '.', 'e', 'E' *)
Definition int_domain (s : str) : bool :=
  negb (has_char cDOT s) && negb (has_char cE s) && negb (has_char ce s).

(* ---------- tokens ---------- *)
Definition flush (cur : str) (l : list str) : list str :=
  match cur with [] => l | _ => rev cur :: l end.

Fixpoint lex_go (s : str) (cur : str) : list str :=
  match s with
  | [] => flush cur []
  | c :: r => if is_digit c then lex_go r (c :: cur)
              else flush cur ([c] :: lex_go r [])
  end.
Definition lex (s : str) : list str := lex_go s [].

Definition all_digits (s : str) : bool := forallb is_digit s.
(* Token::isNumber for the tokens that occur here: digits, or '-' digits after the merge *)
Definition is_num (t : str) : bool :=
  match t with
  | [] => false
  | c :: r => if c =? cMINUS then (match r with [] => false | _ => all_digits r end)
              else all_digits t
  end.
Definition is_tok (c : N) (t : str) : bool := str_eqb t [c].

(* gettokenlistfromvalid: for (tok...) if (Token::Match(tok,"- %num%")) { tok->str("-"+next); deleteNext } *)
Fixpoint merge_neg (l : list str) : list str :=
  match l with
  | [] => []
  | t :: r =>
      match r with
      | n :: r' => if is_tok cMINUS t && is_num n then (cMINUS :: n) :: merge_neg r'
                   else t :: merge_neg r
      | [] => [t]
      end
  end.

Definition valid_tokens (s : str) : list str := merge_neg (lex (s ++ [cCOMMA])).

(* ---------- MathLib::toBigNumber on [-]digits ---------- *)
Definition is_octdigit (c : N) : bool := (48 <=? c) && (c <=? 55).
(* MathLib::isOct on [-]digits: 0 followed by one or more octal digits, nothing else *)
Definition is_oct (digits : str) : bool :=
  match digits with
  | 48 :: d :: r => forallb is_octdigit (d :: r)
  | _ => false
  end.
Fixpoint value_base (b : N) (acc : N) (s : str) : N :=
  match s with
  | [] => acc
  | c :: r => value_base b (acc * b + (c - 48)) r
  end.
Definition two64 : Z := 18446744073709551616%Z.
Definition two63 : Z := 9223372036854775808%Z.
Definition wrap64 (x : Z) : Z := ((x + two63) mod two64 - two63)%Z.

(* std::stoull accepts a sign and negates in 64 bit; magnitude >= 2^64 -> out_of_range -> InternalError *)
Definition to_big (t : str) : option Z :=
  let neg := match t with c :: _ => c =? cMINUS | [] => false end in
  let digits := if neg then tl t else t in
  let m := Z.of_N (value_base (if is_oct digits then 8 else 10) 0 digits) in
  if (two64 <=? m)%Z then None
  else Some (wrap64 (if neg then (- m)%Z else m)).

(* ---------- Library::isIntArgValid: the token loop ---------- *)
Definition obind {A B} (o : option A) (f : A -> option B) : option B :=
  match o with Some a => f a | None => None end.

(* tok->isNumber() && argvalue == toBigNumber(tok) *)
Definition t_eq (t : str) (z : Z) : option bool :=
  if is_num t then obind (to_big t) (fun v => Some (z =? v)%Z) else Some false.
(* Match "%num% : %num%" && argvalue >= a && argvalue <= b *)
Definition t_range (t : str) (r : list str) (z : Z) : option bool :=
  match r with
  | c :: t2 :: _ =>
      if is_num t && is_tok cCOLON c && is_num t2 then
        obind (to_big t) (fun a => if (a <=? z)%Z then obind (to_big t2) (fun b => Some (z <=? b)%Z) else Some false)
      else Some false
  | _ => Some false
  end.
(* Match "%num% : ," && argvalue >= a *)
Definition t_from (t : str) (r : list str) (z : Z) : option bool :=
  match r with
  | c :: t2 :: _ =>
      if is_num t && is_tok cCOLON c && is_tok cCOMMA t2 then
        obind (to_big t) (fun a => Some (a <=? z)%Z)
      else Some false
  | _ => Some false
  end.
(* (!tok->previous() || prev == ",") && Match ": %num%" && argvalue <= b *)
Definition t_to (prev : option str) (t : str) (r : list str) (z : Z) : option bool :=
  match r with
  | t2 :: _ =>
      if (match prev with None => true | Some p => is_tok cCOMMA p end) && is_tok cCOLON t && is_num t2 then
        obind (to_big t2) (fun b => Some (z <=? b)%Z)
      else Some false
  | _ => Some false
  end.

Definition orelse (a : option bool) (k : unit -> option bool) : option bool :=
  match a with
  | None => None
  | Some true => Some true
  | Some false => k tt
  end.

(* Match "! %num%"  ->  return argvalue != toBigNumber(next)   (fix b7bc34c) *)
Definition is_bang_num (t : str) (r : list str) : bool :=
  is_tok cBANG t && match r with n :: _ => is_num n | [] => false end.
Definition bang_result (r : list str) (z : Z) : option bool :=
  match r with
  | n :: _ => obind (to_big n) (fun v => Some (negb (z =? v)%Z))
  | [] => Some false
  end.

Fixpoint walk (prev : option str) (l : list str) (z : Z) : option bool :=
  match l with
  | [] => Some false
  | t :: r =>
      if is_bang_num t r then bang_result r z else
      orelse (t_eq t z) (fun _ =>
      orelse (t_range t r z) (fun _ =>
      orelse (t_from t r z) (fun _ =>
      orelse (t_to prev t r z) (fun _ =>
      walk (Some t) r z))))
  end.

(* isIntArgValid for an argument whose <valid> text is s (non-empty, no '.'):
   Some b = returns b, None = InternalError thrown by toBigNumber *)
Definition int_arg_valid (s : str) (z : Z) : option bool := walk None (valid_tokens s) z.

(* ---------- specification: the documented grammar ---------- *)
Inductive item :=
| IVal (v : Z)          (* v     : the value v            *)
| IRange (a b : Z)      (* a:b   : all values between a and b *)
| IFrom (a : Z)         (* a:    : all values >= a        *)
| ITo (b : Z).          (* :b    : all values <= b        *)
Definition range_expr := list item.

Definition denote_item (it : item) (z : Z) : Prop :=
  match it with
  | IVal v => z = v
  | IRange a b => (a <= z <= b)%Z
  | IFrom a => (a <= z)%Z
  | ITo b => (z <= b)%Z
  end.
Definition denote (e : range_expr) (z : Z) : Prop := Exists (fun it => denote_item it z) e.

(* executable twin of denote (for the correspondence run and the table theorem) *)
Definition denote_item_b (it : item) (z : Z) : bool :=
  match it with
  | IVal v => (z =? v)%Z
  | IRange a b => (a <=? z)%Z && (z <=? b)%Z
  | IFrom a => (a <=? z)%Z
  | ITo b => (z <=? b)%Z
  end.
Definition denote_b (e : range_expr) (z : Z) : bool := existsb (fun it => denote_item_b it z) e.

(* numbers: decimal, optional '-', no leading zero except "0" itself *)
Definition canon_digits (d : str) : bool :=
  match d with
  | [] => false
  | [c] => is_digit c
  | c :: _ => is_digit c && negb (c =? 48) && all_digits d
  end.
Definition parse_num (s : str) : option Z :=
  match s with
  | c :: d => if c =? cMINUS then (if canon_digits d then Some (- Z.of_N (value_base 10 0 d))%Z else None)
              else if canon_digits s then Some (Z.of_N (value_base 10 0 s)) else None
  | [] => None
  end.

Definition parse_item (p : str) : option item :=
  match split cCOLON p with
  | [v] => option_map IVal (parse_num v)
  | [a; b] =>
      match a, b with
      | [], [] => None
      | [], _ => option_map ITo (parse_num b)
      | _, [] => option_map IFrom (parse_num a)
      | _, _ => match parse_num a, parse_num b with
                | Some x, Some y => Some (IRange x y)
                | _, _ => None
                end
      end
  | _ => None
  end.

Fixpoint parse_items (ps : list str) : option range_expr :=
  match ps with
  | [] => Some []
  | p :: r => match parse_item p, parse_items r with
              | Some i, Some e => Some (i :: e)
              | _, _ => None
              end
  end.

(* item(,item)*  *)
Definition parse_valid (s : str) : option range_expr := parse_items (split cCOMMA s).

(* the whole documented language:  !v  (all values are accepted, except v)  or  item(,item)*  *)
Inductive vexpr := VNot (v : Z) | VList (e : range_expr).
Definition parse_vexpr (s : str) : option vexpr :=
  match s with
  | 33 :: n => option_map VNot (parse_num n)
  | _ => option_map VList (parse_valid s)
  end.
Definition denote_v (e : vexpr) (z : Z) : Prop :=
  match e with VNot v => z <> v | VList l => denote l z end.
Definition denote_v_b (e : vexpr) (z : Z) : bool :=
  match e with VNot v => negb (z =? v)%Z | VList l => denote_b l z end.

(* side conditions of the main theorem: bounds are 64-bit values, ranges are not reversed *)
Definition in64 (v : Z) : bool := (- two63 <=? v)%Z && (v <? two63)%Z.
Definition item_ok (it : item) : bool :=
  match it with
  | IVal v => in64 v
  | IRange a b => in64 a && in64 b && (a <=? b)%Z
  | IFrom a => in64 a
  | ITo b => in64 b
  end.
Definition expr_ok (e : range_expr) : bool := forallb item_ok e.
Definition vexpr_ok (e : vexpr) : bool := match e with VNot v => in64 v | VList l => expr_ok l end.

(* ---------- <arg> children: not-null / not-bool / not-uninit / valid ---------- *)
Inductive child :=
| CNotNull | CNotBool | CNotUninit | CValid (text : str) | COther.

Record argchecks := mkAC { ac_notnull : bool; ac_notbool : bool; ac_notuninit : bool; ac_valid : str }.
Definition ac0 : argchecks := mkAC false false false [].

(* loadFunction's loop over the children of <arg>: None = BAD_ATTRIBUTE_VALUE *)
Fixpoint load_children (cs : list child) (ac : argchecks) : option argchecks :=
  match cs with
  | [] => Some ac
  | CNotNull :: r => load_children r (mkAC true (ac_notbool ac) (ac_notuninit ac) (ac_valid ac))
  | CNotBool :: r => load_children r (mkAC (ac_notnull ac) true (ac_notuninit ac) (ac_valid ac))
  | CNotUninit :: r => load_children r (mkAC (ac_notnull ac) (ac_notbool ac) true (ac_valid ac))
  | CValid t :: r => if compliant t then load_children r (mkAC (ac_notnull ac) (ac_notbool ac) (ac_notuninit ac) (cstr t)) else None
  | COther :: r => load_children r ac
  end.

(* the decision kernels of the checks for a constant argument *)
(* CheckFunctions::invalidFunctionUsage: known int value z, reported iff isIntArgValid is false *)
Definition reports_invalid_arg (ac : argchecks) (z : Z) : option bool :=
  match ac_valid ac with
  | [] => Some false
  | v => option_map negb (int_arg_valid v z)
  end.
(* CheckNullPointer: a null constant passed where <not-null/> is declared *)
Definition reports_null (ac : argchecks) (arg_is_null : bool) : bool := ac_notnull ac && arg_is_null.
(* invalidFunctionArgBool: a boolean expression passed where <not-bool/> is declared *)
Definition reports_bool (ac : argchecks) (arg_is_bool : bool) : bool := ac_notbool ac && arg_is_bool.

(* ---------- one call f(arg) with a constant argument: which findings are reported ----------
   AInt z : the argument has the known integer value z (a literal, NULL, a folded constant)
   ABool  : the argument is a boolean expression without known value (x == 1, !x)
   AOther : anything else without known value
   CheckFunctions::invalidFunctionUsage: getInvalidValue -> invalidFunctionArg; for a bool
   argument: not-bool -> invalidFunctionArgBool, else "are 0 and 1 valid?" -> invalidFunctionArg.
   CheckNullPointer::nullConstantDereference: known value 0 where <not-null/> -> nullPointer. *)
Inductive argkind := AInt (z : Z) | ABool | AOther.
Record reports := mkRep { r_arg : bool; r_argbool : bool; r_null : bool }.
Definition expected_reports (ac : argchecks) (a : argkind) : option reports :=
  match a with
  | AInt z => option_map (fun b => mkRep b false (reports_null ac (z =? 0)%Z)) (reports_invalid_arg ac z)
  | ABool =>
      if reports_bool ac true then Some (mkRep false true false)
      else match ac_valid ac with
           | [] => Some (mkRep false false false)
           | v => obind (int_arg_valid v 0) (fun v0 =>
                  if v0 then option_map (fun v1 => mkRep (negb v1) false false) (int_arg_valid v 1)
                  else Some (mkRep true false false))
           end
  | AOther => Some (mkRep false false false)
  end.
