(* C30 proofs, part 2: the token loop of isIntArgValid on the token groups of a
   documented expression = the denotation; documented expressions are compliant. *)
From CV Require Import Base.Bytes Lib.Defs Lib.Proofs.
Require Import Lia ZifyBool.
Local Open Scope N_scope.

(* ---------- toBigNumber on the numbers of the grammar ---------- *)
Lemma wrap64_id v : in64 v = true -> wrap64 v = v.
Proof.
  unfold in64, wrap64, two63, two64. intros H.
  rewrite Z.mod_small by lia. lia.
Qed.

Lemma to_big_num n v : num n v -> in64 v = true -> to_big n = Some v.
Proof.
  intros H I. apply num_shape in H. destruct H as [d C|d C].
  - unfold to_big. cbn [tl]. rewrite N.eqb_refl. rewrite (canon_not_oct d C).
    set (m := Z.of_N (value_base 10 0 d)) in *.
    assert (two64 <=? m = false)%Z as ->. { unfold in64, two63, two64 in *. lia. }
    now rewrite wrap64_id.
  - destruct (canon_hd_digit d C) as (c & r & -> & Hc).
    unfold to_big.
    assert (c =? cMINUS = false) as ->. { apply is_digit_range in Hc. unfold cMINUS. lia. }
    rewrite (canon_not_oct _ C).
    set (m := Z.of_N (value_base 10 0 (c :: r))) in *.
    assert (two64 <=? m = false)%Z as ->. { unfold in64, two63, two64 in *. lia. }
    now rewrite wrap64_id.
Qed.

(* ---------- the four tests on the tokens that occur ---------- *)
Lemma t_eq_num n v z : num n v -> in64 v = true -> t_eq n z = Some (z =? v)%Z.
Proof. intros H I. unfold t_eq. now rewrite (num_is_num n v H), (to_big_num n v H I). Qed.
Lemma t_eq_colon z : t_eq [cCOLON] z = Some false. Proof. reflexivity. Qed.
Lemma t_eq_comma z : t_eq [cCOMMA] z = Some false. Proof. reflexivity. Qed.

Lemma t_range_notnum t r z : is_num t = false -> t_range t r z = Some false.
Proof. intros H. destruct r as [|c [|t2 r]]; try reflexivity. unfold t_range. now rewrite H. Qed.
Lemma t_range_notcolon t c r z : is_tok cCOLON c = false -> t_range t (c :: r) z = Some false.
Proof. intros H. destruct r as [|t2 r]; [reflexivity|]. unfold t_range. now rewrite H, andb_false_r. Qed.
Lemma t_range_notnum2 t c t2 r z : is_num t2 = false -> t_range t (c :: t2 :: r) z = Some false.
Proof. intros H. unfold t_range. now rewrite H, andb_false_r. Qed.
Lemma t_range_nums na nb a b r z :
  num na a -> num nb b -> in64 a = true -> in64 b = true ->
  t_range na ([cCOLON] :: nb :: r) z = Some ((a <=? z)%Z && (z <=? b)%Z).
Proof.
  intros Ha Hb Ia Ib. unfold t_range.
  rewrite (num_is_num _ _ Ha), (num_is_num _ _ Hb). change (is_tok cCOLON [cCOLON]) with true.
  cbn [andb]. rewrite (to_big_num _ _ Ha Ia). cbn [obind].
  destruct (a <=? z)%Z; [|reflexivity]. now rewrite (to_big_num _ _ Hb Ib).
Qed.

Lemma t_from_notnum t r z : is_num t = false -> t_from t r z = Some false.
Proof. intros H. destruct r as [|c [|t2 r]]; try reflexivity. unfold t_from. now rewrite H. Qed.
Lemma t_from_notcolon t c r z : is_tok cCOLON c = false -> t_from t (c :: r) z = Some false.
Proof. intros H. destruct r as [|t2 r]; [reflexivity|]. unfold t_from. now rewrite H, andb_false_r. Qed.
Lemma t_from_notcomma t c t2 r z : is_tok cCOMMA t2 = false -> t_from t (c :: t2 :: r) z = Some false.
Proof. intros H. unfold t_from. now rewrite H, andb_false_r. Qed.
Lemma t_from_num na a r z :
  num na a -> in64 a = true -> t_from na ([cCOLON] :: [cCOMMA] :: r) z = Some (a <=? z)%Z.
Proof.
  intros Ha Ia. unfold t_from. rewrite (num_is_num _ _ Ha).
  change (is_tok cCOLON [cCOLON]) with true. change (is_tok cCOMMA [cCOMMA]) with true.
  cbn [andb]. now rewrite (to_big_num _ _ Ha Ia).
Qed.

Lemma t_to_notcolon prev t r z : is_tok cCOLON t = false -> t_to prev t r z = Some false.
Proof. intros H. destruct r as [|t2 r]; [reflexivity|]. unfold t_to. now rewrite H, andb_false_r. Qed.
Lemma t_to_badprev p t r z : is_tok cCOMMA p = false -> t_to (Some p) t r z = Some false.
Proof. intros H. destruct r as [|t2 r]; [reflexivity|]. unfold t_to. now rewrite H. Qed.
Lemma t_to_notnum prev t t2 r z : is_num t2 = false -> t_to prev t (t2 :: r) z = Some false.
Proof. intros H. unfold t_to. now rewrite H, andb_false_r. Qed.

Definition okprev (prev : option str) : Prop := prev = None \/ prev = Some [cCOMMA].

Lemma t_to_num prev nb b r z :
  okprev prev -> num nb b -> in64 b = true ->
  t_to prev [cCOLON] (nb :: r) z = Some (z <=? b)%Z.
Proof.
  intros P Hb Ib. unfold t_to. rewrite (num_is_num _ _ Hb).
  change (is_tok cCOLON [cCOLON]) with true.
  assert ((match prev with None => true | Some p => is_tok cCOMMA p end) = true) as ->.
  { destruct P as [->| ->]; reflexivity. }
  cbn [andb]. now rewrite (to_big_num _ _ Hb Ib).
Qed.

Lemma num_not_colon n v : num n v -> is_tok cCOLON n = false.
Proof. intros H. apply (num_not_tok cCOLON n v H); [discriminate | reflexivity]. Qed.
Lemma num_not_comma n v : num n v -> is_tok cCOMMA n = false.
Proof. intros H. apply (num_not_tok cCOMMA n v H); [discriminate | reflexivity]. Qed.

(* ---------- the `! %num%` test does not fire on the tokens of item lists ---------- *)
Lemma is_bang_num_false t r : is_tok cBANG t = false -> is_bang_num t r = false.
Proof. intros H. unfold is_bang_num. now rewrite H. Qed.
Lemma num_not_bang n v : num n v -> is_tok cBANG n = false.
Proof. intros H. apply (num_not_tok cBANG n v H); [discriminate | reflexivity]. Qed.
Ltac nobang :=
  repeat (rewrite is_bang_num_false by (first [reflexivity | (eapply num_not_bang; eassumption)]));
  cbv beta iota.

(* ---------- one group ---------- *)
Lemma walk_group it g rest prev z :
  gshape it g -> item_ok it = true -> okprev prev ->
  walk prev (g ++ rest) z = if denote_item_b it z then Some true else walk (Some [cCOMMA]) rest z.
Proof.
  intros G OK P. destruct G as [n v Hn | na nb a b Ha Hb | na a Ha | nb b Hb]; cbn [item_ok] in OK.
  - (* v *)
    cbn [app walk denote_item_b]. nobang.
    rewrite (t_eq_num n v z Hn OK).
    destruct (z =? v)%Z; cbn [orelse]; [reflexivity|].
    rewrite t_range_notcolon by reflexivity. cbn [orelse].
    rewrite t_from_notcolon by reflexivity. cbn [orelse].
    rewrite t_to_notcolon by (eapply num_not_colon; eauto). cbn [orelse].
    rewrite t_eq_comma. cbn [orelse].
    rewrite t_range_notnum by reflexivity. cbn [orelse].
    rewrite t_from_notnum by reflexivity. cbn [orelse].
    rewrite t_to_notcolon by reflexivity. cbn [orelse]. reflexivity.
  - (* a:b *)
    apply andb_prop in OK as [OK Hab]. apply andb_prop in OK as [Ia Ib].
    cbn [app walk denote_item_b]. nobang.
    rewrite (t_eq_num na a z Ha Ia).
    destruct (Z.eqb_spec z a) as [->|Nza]; cbn [orelse].
    { replace (a <=? a)%Z with true by lia. replace (a <=? b)%Z with true by lia. reflexivity. }
    rewrite (t_range_nums na nb a b _ z Ha Hb Ia Ib).
    destruct ((a <=? z)%Z && (z <=? b)%Z) eqn:R; cbn [orelse]; [reflexivity|].
    rewrite t_from_notcomma by (eapply num_not_comma; eauto). cbn [orelse].
    rewrite t_to_notcolon by (eapply num_not_colon; eauto). cbn [orelse].
    (* the ':' token: its predecessor is a number *)
    rewrite t_eq_colon. cbn [orelse].
    rewrite t_range_notnum by reflexivity. cbn [orelse].
    rewrite t_from_notnum by reflexivity. cbn [orelse].
    rewrite t_to_badprev by (eapply num_not_comma; eauto). cbn [orelse].
    (* the upper bound token *)
    rewrite (t_eq_num nb b z Hb Ib).
    destruct (Z.eqb_spec z b) as [->|Nzb]; cbn [orelse]. { exfalso. lia. }
    rewrite t_range_notcolon by reflexivity. cbn [orelse].
    rewrite t_from_notcolon by reflexivity. cbn [orelse].
    rewrite t_to_notcolon by (eapply num_not_colon; eauto). cbn [orelse].
    rewrite t_eq_comma. cbn [orelse].
    rewrite t_range_notnum by reflexivity. cbn [orelse].
    rewrite t_from_notnum by reflexivity. cbn [orelse].
    rewrite t_to_notcolon by reflexivity. cbn [orelse]. reflexivity.
  - (* a: *)
    cbn [app walk denote_item_b]. nobang.
    rewrite (t_eq_num na a z Ha OK).
    destruct (Z.eqb_spec z a) as [->|Nza]; cbn [orelse].
    { replace (a <=? a)%Z with true by lia. reflexivity. }
    rewrite t_range_notnum2 by reflexivity. cbn [orelse].
    rewrite (t_from_num na a _ z Ha OK).
    destruct (a <=? z)%Z eqn:R; cbn [orelse]; [reflexivity|].
    rewrite t_to_notcolon by (eapply num_not_colon; eauto). cbn [orelse].
    rewrite t_eq_colon. cbn [orelse].
    rewrite t_range_notnum by reflexivity. cbn [orelse].
    rewrite t_from_notnum by reflexivity. cbn [orelse].
    rewrite t_to_badprev by (eapply num_not_comma; eauto). cbn [orelse].
    rewrite t_eq_comma. cbn [orelse].
    rewrite t_range_notnum by reflexivity. cbn [orelse].
    rewrite t_from_notnum by reflexivity. cbn [orelse].
    rewrite t_to_notcolon by reflexivity. cbn [orelse]. reflexivity.
  - (* :b *)
    cbn [app walk denote_item_b]. nobang.
    rewrite t_eq_colon. cbn [orelse].
    rewrite t_range_notnum by reflexivity. cbn [orelse].
    rewrite t_from_notnum by reflexivity. cbn [orelse].
    rewrite (t_to_num prev nb b _ z P Hb OK).
    destruct (z <=? b)%Z eqn:R; cbn [orelse]; [reflexivity|].
    rewrite (t_eq_num nb b z Hb OK).
    destruct (Z.eqb_spec z b) as [->|Nzb]; cbn [orelse]. { exfalso. lia. }
    rewrite t_range_notcolon by reflexivity. cbn [orelse].
    rewrite t_from_notcolon by reflexivity. cbn [orelse].
    rewrite t_to_notcolon by (eapply num_not_colon; eauto). cbn [orelse].
    rewrite t_eq_comma. cbn [orelse].
    rewrite t_range_notnum by reflexivity. cbn [orelse].
    rewrite t_from_notnum by reflexivity. cbn [orelse].
    rewrite t_to_notcolon by reflexivity. cbn [orelse]. reflexivity.
Qed.

Lemma walk_groups e gs prev z :
  Forall2 gshape e gs -> expr_ok e = true -> okprev prev ->
  walk prev (concat gs) z = Some (denote_b e z).
Proof.
  intros F. revert prev. induction F as [|it g e gs G _ IH]; intros prev OK P.
  - reflexivity.
  - cbn [expr_ok forallb] in OK. apply andb_prop in OK as [O1 O2].
    cbn [concat]. rewrite (walk_group it g _ prev z G O1 P).
    unfold denote_b. cbn [existsb]. destruct (denote_item_b it z); [reflexivity|].
    cbn [orb]. apply IH; [assumption | now right].
Qed.

(* ---------- the main statement ---------- *)
Lemma int_arg_valid_denote_b s e z :
  parse_valid s = Some e -> expr_ok e = true -> int_arg_valid s z = Some (denote_b e z).
Proof.
  intros H OK. destruct (valid_tokens_groups s e H) as (gs & F & E).
  unfold int_arg_valid. rewrite E. apply walk_groups; [assumption | assumption | now left].
Qed.

Lemma denote_item_b_spec it z : denote_item_b it z = true <-> denote_item it z.
Proof. destruct it; cbn; lia. Qed.

Lemma denote_b_spec e z : denote_b e z = true <-> denote e z.
Proof.
  unfold denote_b, denote. rewrite existsb_exists, Exists_exists.
  split; intros (it & I & D); exists it; (split; [assumption|]); now apply denote_item_b_spec.
Qed.

Lemma int_arg_valid_spec s e z :
  parse_valid s = Some e -> expr_ok e = true ->
  (int_arg_valid s z = Some true <-> denote e z) /\ int_arg_valid s z <> None.
Proof.
  intros H OK. rewrite (int_arg_valid_denote_b s e z H OK). split; [|discriminate].
  rewrite <- denote_b_spec. split; [now intros [= ->] | now intros ->].
Qed.

(* ---------- documented expressions are accepted by the loader ---------- *)
Lemma nxt_digits_app d r : d <> [] -> all_digits d = true -> is_digit (nxt (d ++ r)) = true.
Proof. destruct d as [|c d]; [congruence|]. cbn. intros _ H. now apply andb_prop in H as [H _]. Qed.

Lemma compl_digits d r rg hd he :
  all_digits d = true -> d <> [] ->
  compl_go (d ++ r) rg hd he = negb (nxt r =? cMINUS) && compl_go r rg hd he.
Proof.
  induction d as [|c d IH]; [congruence|]. intros A _.
  cbn in A. apply andb_prop in A as [Hc Hd].
  cbn [app compl_go]. rewrite Hc.
  destruct d as [|c' d].
  - reflexivity.
  - rewrite IH by (assumption || discriminate).
    assert (is_digit (nxt ((c' :: d) ++ r)) = true) as D by (apply nxt_digits_app; [discriminate | assumption]).
    assert (nxt ((c' :: d) ++ r) =? cMINUS = false) as ->.
    { apply is_digit_range in D. unfold cMINUS. lia. }
    reflexivity.
Qed.

Lemma compl_num n v r rg hd he :
  num n v -> compl_go (n ++ r) rg hd he = negb (nxt r =? cMINUS) && compl_go r rg hd he.
Proof.
  intros H. apply num_shape in H. destruct H as [d C|d C]; destruct (canon_all_digits d C) as [A N0].
  - cbn [app compl_go]. change (is_digit cMINUS) with false. change (cMINUS =? cCOLON) with false.
    change (cMINUS =? cMINUS) with true. cbn [orb].
    rewrite nxt_digits_app by assumption. cbn [andb]. now apply compl_digits.
  - now apply compl_digits.
Qed.

Lemma num_nxt n v r : num n v -> nxt (n ++ r) <> cDOT /\ nxt (n ++ r) <> 0.
Proof.
  intros H. apply num_shape in H. destruct H as [d C|d C].
  - cbn. split; discriminate.
  - destruct (canon_hd_digit d C) as (c & r' & -> & Hc). cbn. apply is_digit_range in Hc. unfold cDOT. lia.
Qed.

(* after a documented item the scan continues with some `range` flag, the other flags unchanged *)
Lemma compl_piece p it :
  pshape p it ->
  exists rg', forall r, nxt r <> cMINUS -> nxt r <> cDOT ->
                        compl_go (p ++ r) false false false = compl_go r rg' false false.
Proof.
  intros H. destruct H as [n v Hn | na nb a b Ha Hb | na a Ha | nb b Hb].
  - exists false. intros r H1 H2. rewrite (compl_num n v r _ _ _ Hn).
    apply N.eqb_neq in H1. now rewrite H1.
  - exists true. intros r H1 H2. rewrite <- app_assoc. rewrite (compl_num na a _ _ _ _ Ha).
    cbn [app nxt]. change (cCOLON =? cMINUS) with false. cbn [negb andb compl_go].
    change (is_digit cCOLON) with false. change (cCOLON =? cCOLON) with true. cbn [orb].
    destruct (num_nxt nb b r Hb) as [D _]. apply N.eqb_neq in D. rewrite D. cbn [negb andb].
    rewrite (compl_num nb b r _ _ _ Hb). apply N.eqb_neq in H1. now rewrite H1.
  - exists true. intros r H1 H2. rewrite <- app_assoc. rewrite (compl_num na a _ _ _ _ Ha).
    cbn [app nxt]. change (cCOLON =? cMINUS) with false. cbn [negb andb compl_go].
    change (is_digit cCOLON) with false. change (cCOLON =? cCOLON) with true. cbn [orb].
    apply N.eqb_neq in H2. now rewrite H2.
  - exists true. intros r H1 H2. cbn [app compl_go].
    change (is_digit cCOLON) with false. change (cCOLON =? cCOLON) with true. cbn [orb].
    destruct (num_nxt nb b r Hb) as [D _]. apply N.eqb_neq in D. rewrite D. cbn [negb andb].
    rewrite (compl_num nb b r _ _ _ Hb). apply N.eqb_neq in H1. now rewrite H1.
Qed.

Lemma pshape_nxt p it r : pshape p it -> nxt (p ++ r) <> cDOT /\ nxt (p ++ r) <> 0.
Proof.
  intros H. destruct H as [n v Hn | na nb a b Ha Hb | na a Ha | nb b Hb].
  - eapply num_nxt; eauto.
  - rewrite <- app_assoc. eapply num_nxt; eauto.
  - rewrite <- app_assoc. eapply num_nxt; eauto.
  - cbn. split; discriminate.
Qed.

Lemma compl_pieces ps e :
  Forall2 pshape ps e -> ps <> [] -> compl_go (join [cCOMMA] ps) false false false = true.
Proof.
  induction 1 as [|p it ps e Hp F IH]; [congruence|]. intros _.
  destruct (compl_piece p it Hp) as (rg' & K).
  destruct ps as [|q ps].
  - cbn [join]. rewrite <- (app_nil_r p). rewrite K by (cbn; discriminate). reflexivity.
  - change (join [cCOMMA] (p :: q :: ps)) with (p ++ cCOMMA :: join [cCOMMA] (q :: ps)).
    rewrite K by (cbn; discriminate).
    cbn [compl_go]. change (is_digit cCOMMA) with false. change (cCOMMA =? cCOLON) with false.
    change ((cCOMMA =? cMINUS) || (cCOMMA =? cPLUS)) with false. change (cCOMMA =? cCOMMA) with true.
    cbv iota.
    inversion F as [|q' it' ps' e' Hq F']; subst.
    assert (nxt (join [cCOMMA] (q :: ps)) <> cDOT) as D.
    { destruct ps as [|q2 ps].
      - cbn [join]. rewrite <- (app_nil_r q). eapply pshape_nxt; eauto.
      - change (join [cCOMMA] (q :: q2 :: ps)) with (q ++ cCOMMA :: join [cCOMMA] (q2 :: ps)).
        eapply pshape_nxt; eauto. }
    apply N.eqb_neq in D. rewrite D. cbn [negb andb].
    apply IH. discriminate.
Qed.

Lemma compl_go_cstr s rg hd he : compl_go s rg hd he = true -> cstr s = s.
Proof.
  revert rg hd he; induction s as [|c s IH]; intros rg hd he H; [reflexivity|].
  cbn [compl_go] in H. cbn [cstr].
  destruct (c =? 0) eqn:Z0.
  { apply N.eqb_eq in Z0. subst c. discriminate. }
  f_equal.
  destruct (is_digit c). { apply andb_prop in H as [_ H]. eauto. }
  destruct (c =? cCOLON). { apply andb_prop in H as [_ H]. eauto. }
  destruct ((c =? cMINUS) || (c =? cPLUS)). { apply andb_prop in H as [_ H]. eauto. }
  destruct (c =? cCOMMA). { apply andb_prop in H as [_ H]. eauto. }
  destruct (c =? cDOT). { apply andb_prop in H as [_ H]. eauto. }
  destruct ((c =? cE) || (c =? ce)). { apply andb_prop in H as [_ H]. eauto. }
  destruct (c =? cBANG). { apply andb_prop in H as [_ H]. eauto. }
  discriminate.
Qed.

Lemma parses_compliant s e : parse_valid s = Some e -> compliant s = true.
Proof.
  unfold parse_valid. intros H. apply parse_items_Forall2 in H.
  pose proof (compl_pieces _ _ H (split_on_nonempty _ _ _)) as G.
  rewrite join_split in G.
  unfold compliant. rewrite (compl_go_cstr _ _ _ _ G).
  assert (nxt s <> cDOT /\ nxt s <> 0) as [D Z0].
  { rewrite <- (join_split cCOMMA s).
    destruct (split cCOMMA s) as [|p [|q ps]] eqn:S.
    - now apply split_on_nonempty in S.
    - inversion H; subst. cbn [join]. rewrite <- (app_nil_r p). eapply pshape_nxt; eauto.
    - inversion H; subst.
      change (join [cCOMMA] (p :: q :: ps)) with (p ++ cCOMMA :: join [cCOMMA] (q :: ps)).
      eapply pshape_nxt; eauto. }
  destruct s as [|c s]; [cbn in Z0; congruence|].
  cbn [nxt] in D. apply N.eqb_neq in D. rewrite D. exact G.
Qed.

(* ---------- <arg> children ---------- *)
Definition is_notnull (c : child) := match c with CNotNull => true | _ => false end.
Definition is_notbool (c : child) := match c with CNotBool => true | _ => false end.
Definition is_notuninit (c : child) := match c with CNotUninit => true | _ => false end.
Definition valid_text (c : child) : option str := match c with CValid t => Some t | _ => None end.
Definition last_valid (cs : list child) (d : str) : str :=
  fold_left (fun acc c => match c with CValid t => cstr t | _ => acc end) cs d.
Definition all_valid_ok (cs : list child) : bool :=
  forallb (fun c => match c with CValid t => compliant t | _ => true end) cs.

Lemma load_children_spec cs ac :
  load_children cs ac =
  if all_valid_ok cs then
    Some (mkAC (ac_notnull ac || existsb is_notnull cs) (ac_notbool ac || existsb is_notbool cs)
               (ac_notuninit ac || existsb is_notuninit cs) (last_valid cs (ac_valid ac)))
  else None.
Proof.
  revert ac; induction cs as [|c cs IH]; intros ac.
  - cbn. destruct ac; cbn. now rewrite !orb_false_r.
  - destruct c; cbn [load_children all_valid_ok forallb existsb is_notnull is_notbool is_notuninit last_valid fold_left].
    + rewrite IH. fold (all_valid_ok cs). destruct (all_valid_ok cs); [|reflexivity]. cbn. now rewrite orb_true_r.
    + rewrite IH. fold (all_valid_ok cs). destruct (all_valid_ok cs); [|reflexivity]. cbn. now rewrite orb_true_r.
    + rewrite IH. fold (all_valid_ok cs). destruct (all_valid_ok cs); [|reflexivity]. cbn. now rewrite orb_true_r.
    + fold (all_valid_ok cs). destruct (compliant text); [|reflexivity]. rewrite IH. cbn [andb].
      destruct (all_valid_ok cs); reflexivity.
    + rewrite IH. fold (all_valid_ok cs). destruct (all_valid_ok cs); reflexivity.
Qed.

(* ---------- !v : all values are accepted, except v  (fix b7bc34c) ---------- *)
Lemma valid_tokens_bang n v : num n v -> valid_tokens (cBANG :: n) = [[cBANG]; n; [cCOMMA]].
Proof.
  intros H. unfold valid_tokens. cbn [app].
  assert (L : lex (cBANG :: n ++ [cCOMMA]) = [cBANG] :: lex (n ++ [cCOMMA])) by reflexivity.
  rewrite L. rewrite lex_app_sep by reflexivity. rewrite (lex_num n v H).
  rewrite merge_neg_other by reflexivity.
  rewrite (merge_ntoks n v _ H). reflexivity.
Qed.

Lemma int_arg_valid_bang n v z :
  num n v -> in64 v = true -> int_arg_valid (cBANG :: n) z = Some (negb (z =? v)%Z).
Proof.
  intros H I. unfold int_arg_valid. rewrite (valid_tokens_bang n v H). cbn [walk].
  unfold is_bang_num. change (is_tok cBANG [cBANG]) with true. rewrite (num_is_num n v H). cbn [andb].
  unfold bang_result. now rewrite (to_big_num n v H I).
Qed.

Lemma num_nxt_sign_or_digit n v :
  num n v -> (nxt n =? cMINUS) || (nxt n =? cPLUS) || is_digit (nxt n) = true.
Proof.
  intros H. apply num_shape in H. destruct H as [d C|d C].
  - reflexivity.
  - destruct (canon_hd_digit d C) as (c & r & -> & Hc). cbn [nxt]. rewrite Hc. now rewrite orb_true_r.
Qed.

Lemma compliant_bang n v : num n v -> compliant (cBANG :: n) = true.
Proof.
  intros H.
  assert (G : compl_go (cBANG :: n) false false false = true).
  { cbn [compl_go]. change (is_digit cBANG) with false. change (cBANG =? cCOLON) with false.
    change ((cBANG =? cMINUS) || (cBANG =? cPLUS)) with false. change (cBANG =? cCOMMA) with false.
    change (cBANG =? cDOT) with false. change ((cBANG =? cE) || (cBANG =? ce)) with false.
    change (cBANG =? cBANG) with true. cbv iota.
    rewrite (num_nxt_sign_or_digit n v H). cbn [andb].
    rewrite <- (app_nil_r n). now rewrite (compl_num n v [] _ _ _ H). }
  unfold compliant. rewrite (compl_go_cstr _ _ _ _ G). exact G.
Qed.

(* ---------- the whole documented language ---------- *)
Lemma parse_vexpr_cases s e :
  parse_vexpr s = Some e ->
  (exists n v, s = cBANG :: n /\ num n v /\ e = VNot v) \/
  (exists l, parse_valid s = Some l /\ e = VList l).
Proof.
  unfold parse_vexpr. destruct s as [|c s].
  - destruct (parse_valid []) eqn:P; [|discriminate]. intros [= <-]. right. eauto.
  - destruct (N.eq_dec c 33) as [->|Nc].
    + destruct (parse_num s) as [v|] eqn:P; [|discriminate]. intros [= <-]. left. exists s, v. auto.
    + assert ((match c with 33 => option_map VNot (parse_num s) | _ => option_map VList (parse_valid (c :: s)) end)
              = option_map VList (parse_valid (c :: s))) as ->.
      { destruct c as [|p]; [reflexivity|]. repeat (destruct p as [p|p|]; try reflexivity). congruence. }
      destruct (parse_valid (c :: s)) eqn:P; [|discriminate]. intros [= <-]. right. eauto.
Qed.

Lemma int_arg_valid_denote_v_b s e z :
  parse_vexpr s = Some e -> vexpr_ok e = true -> int_arg_valid s z = Some (denote_v_b e z).
Proof.
  intros H OK. destruct (parse_vexpr_cases s e H) as [(n & v & -> & Hn & ->)|(l & P & ->)].
  - now apply int_arg_valid_bang.
  - now apply int_arg_valid_denote_b.
Qed.

Lemma denote_v_b_spec e z : denote_v_b e z = true <-> denote_v e z.
Proof. destruct e as [v|l]; cbn; [lia | apply denote_b_spec]. Qed.

Lemma int_arg_valid_vspec s e z :
  parse_vexpr s = Some e -> vexpr_ok e = true ->
  (int_arg_valid s z = Some true <-> denote_v e z) /\ int_arg_valid s z <> None.
Proof.
  intros H OK. rewrite (int_arg_valid_denote_v_b s e z H OK). split; [|discriminate].
  rewrite <- denote_v_b_spec. split; [now intros [= ->] | now intros ->].
Qed.

Lemma vparses_compliant s e : parse_vexpr s = Some e -> compliant s = true.
Proof.
  intros H. destruct (parse_vexpr_cases s e H) as [(n & v & -> & Hn & ->)|(l & P & ->)].
  - now apply (compliant_bang n v).
  - now apply (parses_compliant s l).
Qed.
