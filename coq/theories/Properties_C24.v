(* C24  Unmatched suppressions are reported exactly. Statements only. *)
From CV Require Import Base.Bytes Base.Glob Supp.Defs Supp.Proofs Supp.ListProofs Supp.ExecDefs.

Theorem C24_selectors_never_select_matched pm file s :
  s_matched s = true ->
  unmatched_local pm file s = false /\ unmatched_global s = false /\ unmatched_inline s = false.
Proof.
  intros H. unfold unmatched_local, unmatched_global, unmatched_inline. rewrite H.
  cbn. rewrite !andb_false_r. cbn. auto.
Qed.
Print Assumptions C24_selectors_never_select_matched.
