(* C24  Unmatched suppressions are reported exactly.
   Statements only; every proof is `exact <lemma>` (Supp/ExecProofs.v). *)
From CV Require Import Base.Bytes Base.Glob Supp.Defs Supp.Proofs Supp.ListProofs Supp.ExecDefs Supp.ExecProofs Supp.ThreadProofs.
Require Import Permutation.
Local Open Scope N_scope.

(* flags_sound: after ANY sequence of SuppressionList::isSuppressed calls every
   suppression carries  matched = initial || some query hides it (documented rule,
   on a query that consults it),  checked = initial || some query reaches its place *)
Theorem C24_flags_sound pm Q l l' bs :
  list_run pm l Q = Some (l', bs) -> l' = map (derive pm Q []) l.
Proof. exact (list_run_derive pm Q l l' bs). Qed.
Print Assumptions C24_flags_sound.

(* a match always sets checked as well *)
Theorem C24_matched_implies_checked pm Q M s :
  (s_matched s = true -> s_checked s = true) ->
  s_matched (derive pm Q M s) = true -> s_checked (derive pm Q M s) = true.
Proof. exact (derive_matched_checked pm Q M s). Qed.
Print Assumptions C24_matched_implies_checked.

(* the flags depend on the set of queries and token lines only, not on their order:
   any interleaving of the same queries (schedules) leaves the same state *)
Theorem C24_flags_order_independent pm Q Q' M M' s :
  Permutation Q Q' -> Permutation M M' -> derive pm Q M s = derive pm Q' M' s.
Proof. exact (derive_perm pm Q Q' M M' s). Qed.
Print Assumptions C24_flags_order_independent.

(* the logger (CppCheckLogger::reportErr over any sequence of findings) is such a
   sequence of queries on the nomsg list *)
Theorem C24_logger_flags pm ug ms st st' outs :
  logger_run pm ug st ms = Some (st', outs) ->
  l_nomsg st' = map (derive pm (nomsg_queries pm ug (l_nomsg st) (l_nofail st) (l_seen st) ms) []) (l_nomsg st).
Proof. exact (logger_run_nomsg pm ug ms st st' outs). Qed.
Print Assumptions C24_logger_flags.

(* markUnmatchedInlineSuppressionsAsChecked only adds checked flags, per token line *)
Theorem C24_mark_checked pm locs l : mark_checked locs l = map (derive pm [] locs) l.
Proof. exact (mark_checked_derive pm locs l). Qed.
Print Assumptions C24_mark_checked.

(* the three getters never select a matched suppression *)
Theorem C24_selectors_never_select_matched pm file s :
  (unmatched_local pm file s = true \/ unmatched_inline s = true \/ unmatched_global s = true) -> s_matched s = false.
Proof. exact (selectors_unmatched pm file s). Qed.
Print Assumptions C24_selectors_never_select_matched.

(* reportUnmatchedSuppressions emits exactly `should_report`: no bail-out entry, and the
   suppression is selected by the per-file / inline / global group, is not covered by a
   selected unmatchedSuppression entry of the same group, and passes the id filters *)
Theorem C24_report_exact pm filters ie l paths r :
  report_unmatched pm filters ie l paths = Some r -> forall s, In s r <-> should_report pm filters ie l paths s.
Proof. exact (report_unmatched_spec pm filters ie l paths r). Qed.
Print Assumptions C24_report_exact.

Theorem C24_reported_never_matched pm filters ie l paths s :
  should_report pm filters ie l paths s -> In s l /\ s_matched s = false.
Proof. exact (reported_never_matched pm filters ie l paths s). Qed.
Print Assumptions C24_reported_never_matched.

(* every executor: an unmatchedSuppression finding is about a suppression whose flag is unset *)
Theorem C24_reported_flag_unmatched pm k cfg nomsg nofail fs wp o s :
  whole_run pm k cfg nomsg nofail fs wp = Some o -> In s (o_unmatched o) -> In s (o_nomsg o) /\ s_matched s = false.
Proof. exact (reported_flag_unmatched pm k cfg nomsg nofail fs wp o s). Qed.
Print Assumptions C24_reported_flag_unmatched.

(* single executor, the whole run: final flags, shown findings, the unmatched report and
   the status as functions of the suppressions and the findings alone *)
Theorem C24_single_run_exact pm cfg nomsg nofail fs wp o :
  whole_run pm None cfg nomsg nofail fs wp = Some o -> Forall (inline_present nomsg) fs ->
  let final := map (derive pm (run_queries pm nomsg nofail fs wp) (flat_map f_locs fs)) nomsg in
  o_nomsg o = final
  /\ o_reported o = flat_map (fun f => pick (spec_forward pm true nomsg [] (f_msgs f)) (f_msgs f)) fs
                    ++ pick (spec_forward pm true nomsg [] wp) wp
  /\ (forall s, In s (o_unmatched o) <->
                c_info cfg = true /\ nomsg <> [] /\ should_report pm (c_filters cfg) (c_inline cfg) final (map f_path fs) s)
  /\ o_status o = if findings_raise pm nomsg nofail fs wp || um_raise pm nofail (o_unmatched o)
                  then c_exitcode cfg else 0.
Proof. exact (whole_run_single_spec pm cfg nomsg nofail fs wp o). Qed.
Print Assumptions C24_single_run_exact.

(* single executor: never an unmatchedSuppression for a suppression that hides a finding
   of the run (shown, suppressed or duplicate; file-level or whole-program) *)
Theorem C24_single_never_for_a_match pm cfg nomsg nofail fs wp o s :
  whole_run pm None cfg nomsg nofail fs wp = Some o -> Forall (inline_present nomsg) fs ->
  In s (o_unmatched o) ->
  exists s0, In s0 nomsg /\ static s = static s0 /\ s_matched s0 = false
             /\ forall e, finding_of fs wp e -> hides pm true e s0 = false.
Proof. exact (single_reported_hides_nothing pm cfg nomsg nofail fs wp o s). Qed.
Print Assumptions C24_single_never_for_a_match.

(* single executor, completeness for global suppressions: one that hides no finding of the
   run IS reported (information on, no unmatchedSuppression entry, no id filter) *)
Theorem C24_single_global_unmatched_reported pm cfg nomsg nofail fs wp o s0 :
  whole_run pm None cfg nomsg nofail fs wp = Some o -> Forall (inline_present nomsg) fs ->
  c_info cfg = true ->
  In s0 nomsg -> s_matched s0 = false -> s_inline s0 = false -> s_file s0 = [] -> s_hash s0 = 0 ->
  is_nil (s_id s0) = false -> str_eqb (s_id s0) CHECKERSREPORT = false ->
  (forall x, In x nomsg -> str_eqb (s_id x) UNMATCHED = false) ->
  filtered_out (c_filters cfg) s0 = false ->
  (forall e, finding_of fs wp e -> hides pm true e s0 = false) ->
  exists s, In s (o_unmatched o) /\ static s = static s0.
Proof. exact (single_global_unmatched_reported pm cfg nomsg nofail fs wp o s0). Qed.
Print Assumptions C24_single_global_unmatched_reported.

(* single executor, completeness for file-local suppressions without a line number *)
Theorem C24_single_local_unmatched_reported pm cfg nomsg nofail fs wp o s0 p :
  whole_run pm None cfg nomsg nofail fs wp = Some o -> Forall (inline_present nomsg) fs ->
  c_info cfg = true ->
  In s0 nomsg -> s_matched s0 = false -> s_inline s0 = false -> is_local s0 = true -> s_line s0 = NO_LINE ->
  stype_eqb (s_type s0) TMacro = false -> s_hash s0 = 0 ->
  is_nil (s_id s0) = false -> str_eqb (s_id s0) CHECKERSREPORT = false ->
  In p (map f_path fs) -> pm (s_file s0) p = true ->
  (forall x, In x nomsg -> str_eqb (s_id x) UNMATCHED = false) ->
  filtered_out (c_filters cfg) s0 = false ->
  (forall e, finding_of fs wp e -> hides pm true e s0 = false) ->
  exists s, In s (o_unmatched o) /\ static s = static s0.
Proof. exact (single_local_unmatched_reported pm cfg nomsg nofail fs wp o s0 p). Qed.
Print Assumptions C24_single_local_unmatched_reported.

(* thread executor: ThreadData::check's transfer of the shared list into itself changes
   nothing (lists with pairwise different parameters, as addSuppression builds them) *)
Theorem C24_thread_transfer_is_identity w p : uniq p = true -> incl w p -> transfer_thread p w = p.
Proof. exact (transfer_thread_self w p). Qed.
Print Assumptions C24_thread_transfer_is_identity.

(* thread executor, any number of files: the final flags are exactly those of the queries
   it makes: per file the dummy query and the worker logger's queries WITHOUT global
   suppressions, plus one global query (no macro names) per finding the worker forwards *)
Theorem C24_thread_run_flags pm bn bf fs n f seen sr :
  multi_files pm EThread bn bf n f seen fs = Some sr -> uniq n = true -> Forall (inline_present n) fs ->
  sr_nomsg sr = map (derive pm (thread_queries pm n f fs) (flat_map f_locs fs)) n.
Proof. exact (thread_files_flags pm bn bf fs n f seen sr). Qed.
Print Assumptions C24_thread_run_flags.

(* worker -> parent state transfer (updateSuppressionState): the records may arrive in any order *)
Theorem C24_state_transfer_order_independent us us' l :
  Permutation us us' -> update_all l us = update_all l us'.
Proof. intros H. exact (update_all_perm us us' H l). Qed.
Print Assumptions C24_state_transfer_order_independent.

(* thread / process executors keep the suppressions of the lists (only flags move) *)
Theorem C24_multi_keeps_suppressions pm k bn bf fs n f seen sr :
  multi_files pm k bn bf n f seen fs = Some sr ->
  map static n = map static bn -> map static f = map static bf -> Forall (inline_present bn) fs ->
  map static (sr_nomsg sr) = map static bn.
Proof. intros H H1 H2 H3. exact (proj1 (multi_files_spec pm k bn bf fs n f seen sr H H1 H2 H3)). Qed.
Print Assumptions C24_multi_keeps_suppressions.

(* executor independence (after fix 524f0f5), thread executor, by proof: for every
   suppression list (pairwise different parameters, macro suppressions file-local as the
   preprocessor creates them), every set of files and findings (a rendered text identifies
   its finding within a file, texts not empty) the thread executor ends with exactly the
   flags of the single executor and emits exactly the same unmatchedSuppression findings.
   (Process executor: by correspondence, see docs/C24.md.) *)
Theorem C24_thread_equals_single pm cfg n f fs wp o1 o2 :
  whole_run pm None cfg n f fs wp = Some o1 ->
  whole_run pm (Some EThread) cfg n f fs wp = Some o2 ->
  uniq n = true -> Forall (inline_present n) fs ->
  Forall (fun x => texts_ok (f_msgs x)) fs -> Forall macro_local n ->
  o_nomsg o2 = o_nomsg o1 /\ o_unmatched o2 = o_unmatched o1.
Proof. exact (thread_equals_single pm cfg n f fs wp o1 o2). Qed.
Print Assumptions C24_thread_equals_single.

(* the input on which the executors disagreed before the fix (--suppress=nullPointer
   --suppress=nullPointer:a.c, one nullPointer finding in a.c): all three agree now *)
Theorem C24_former_witness_agrees :
  exists o1 o2,
    whole_run pm_eq None w24_cfg w24_nomsg [] w24_files [] = Some o1
    /\ whole_run pm_eq (Some EThread) w24_cfg w24_nomsg [] w24_files [] = Some o2
    /\ whole_run pm_eq (Some EProcess) w24_cfg w24_nomsg [] w24_files [] = Some o2
    /\ o_unmatched o1 = [] /\ o_unmatched o2 = [].
Proof. exact witness_executors_agree. Qed.
Print Assumptions C24_former_witness_agrees.

(* premises are inhabited *)
Example C24_ex_inline_present : Forall (inline_present w24_nomsg) w24_files.
Proof. repeat constructor. Qed.
Example C24_ex_run : exists o, whole_run pm_eq None w24_cfg w24_nomsg [] w24_files [] = Some o.
Proof. eexists. vm_compute. reflexivity. Qed.
Example C24_ex_reported : exists o s, whole_run pm_eq None w25_cfg w25_nomsg w25_nofail w25_files [] = Some o /\ In s (o_unmatched o).
Proof. eexists. eexists. vm_compute. split; [reflexivity|left; reflexivity]. Qed.
Example C24_ex_texts_ok : Forall (fun x => texts_ok (f_msgs x)) w24_files.
Proof.
  repeat constructor; cbn.
  - intros m [<-|[]]. reflexivity.
  - intros e1 t1 e2 t2 [H1|[]] [H2|[]] _. congruence.
Qed.
Example C24_ex_macro_local : Forall macro_local w24_nomsg.
Proof. repeat constructor; intros H; discriminate H. Qed.
Example C24_ex_uniq : uniq w24_nomsg = true.
Proof. reflexivity. Qed.
Example C24_ex_thread : exists sr, multi_files pm_eq EThread w24_nomsg [] w24_nomsg [] [] w24_files = Some sr.
Proof. eexists. vm_compute. reflexivity. Qed.
Example C24_ex_local : is_local (mk_plain S_NULLPOINTER S_AC) = true /\ pm_eq S_AC S_AC = true.
Proof. split; reflexivity. Qed.
Example C24_ex_list_run : exists l' bs, list_run pm_eq w24_nomsg [(w24_finding, true)] = Some (l', bs).
Proof. eexists. eexists. vm_compute. reflexivity. Qed.
