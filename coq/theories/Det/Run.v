(* Entry point for the extracted model.  fields = tag :: payload.
   "canon"   item*            -> canonicalised items (same encoding)
   "canoneq" itemA* "|" itemB* -> ["1"] | ["0"; index of first differing canonical item]
   item encoding: 'T' ++ text bytes | 'I' ++ decimal id.  Malformed -> ["E"]. *)
From CV Require Import Base.Bytes Det.Defs.
Local Open Scope N_scope.

Definition tag_canon : str := [99; 97; 110; 111; 110].              (* "canon" *)
Definition tag_canoneq : str := [99; 97; 110; 111; 110; 101; 113].  (* "canoneq" *)
Definition sep_bar : str := [124].                                  (* "|" *)
Definition err : list str := [[69]].                                (* "E" *)

Definition parse_item (f : str) : option item :=
  match f with
  | [] => None
  | c :: s =>
      if c =? 84 then Some (T s)                                    (* 'T' *)
      else if c =? 73 then                                          (* 'I' *)
        match N_of_dec s with Some n => Some (I n) | None => None end
      else None
  end.

(* accumulates in reverse, so that long documents need no deep recursion *)
Fixpoint parse_items_acc (fs : list str) (acc : doc) : option doc :=
  match fs with
  | [] => Some (rev' acc)
  | f :: r => match parse_item f with
              | Some it => parse_items_acc r (it :: acc)
              | None => None
              end
  end.
Definition parse_items (fs : list str) : option doc := parse_items_acc fs [].

Definition enc_item (it : item) : str :=
  match it with
  | T s => 84 :: s
  | I n => 73 :: dec_of_N n
  end.

Fixpoint enc_acc (d : doc) (acc : list str) : list str :=
  match d with
  | [] => rev' acc
  | it :: r => enc_acc r (enc_item it :: acc)
  end.
Definition enc_doc (d : doc) : list str := enc_acc d [].    (* = map enc_item d *)

(* split at the first "|" field *)
Fixpoint split_bar (fs : list str) (acc : list str) : option (list str * list str) :=
  match fs with
  | [] => None
  | f :: r => if str_eqb f sep_bar then Some (rev' acc, r) else split_bar r (f :: acc)
  end.

Definition run_canon (fs : list str) : list str :=
  match parse_items fs with
  | Some d => enc_doc (canon_ids d)
  | None => err
  end.

Definition run_canoneq (fs : list str) : list str :=
  match split_bar fs [] with
  | None => err
  | Some (fa, fb) =>
      match parse_items fa, parse_items fb with
      | Some a, Some b =>
          match first_diff (canon_ids a) (canon_ids b) 0 with
          | None => [str_of_bool true]
          | Some i => [str_of_bool false; dec_of_N i]
          end
      | _, _ => err
      end
  end.

Definition run (fields : list str) : list str :=
  match fields with
  | [] => err
  | tag :: fs =>
      if str_eqb tag tag_canon then run_canon fs
      else if str_eqb tag tag_canoneq then run_canoneq fs
      else err
  end.

Lemma enc_acc_map d : forall acc, enc_acc d acc = rev acc ++ map enc_item d.
Proof.
  induction d as [|it r IH]; intros acc; cbn [enc_acc map].
  - unfold rev'. rewrite <- rev_alt. rewrite app_nil_r. reflexivity.
  - rewrite IH. cbn [rev]. rewrite <- app_assoc. reflexivity.
Qed.

Lemma enc_doc_map d : enc_doc d = map enc_item d.
Proof. unfold enc_doc. rewrite enc_acc_map. reflexivity. Qed.

(* smoke tests *)
Example run_canon_ex :
  run [tag_canon; [84; 97]; [73; 55]; [73; 51]; [73; 55]; [84]; [73; 48]]
  = [[84; 97]; [73; 48]; [73; 49]; [73; 48]; [84]; [73; 50]].
Proof. vm_compute. reflexivity. Qed.

Example run_canoneq_ex1 :
  run [tag_canoneq; [73; 55]; [73; 51]; [73; 55]; sep_bar; [73; 49]; [73; 57]; [73; 49]] = [[49]].
Proof. vm_compute. reflexivity. Qed.

Example run_canoneq_ex2 :
  run [tag_canoneq; [73; 55]; [73; 51]; [73; 55]; sep_bar; [73; 49]; [73; 57]; [73; 57]]
  = [[48]; [50]].
Proof. vm_compute. reflexivity. Qed.

Example run_bad_ex : run [tag_canon; [73]] = [[69]] /\ run [tag_canoneq; [84]] = [[69]].
Proof. vm_compute. split; reflexivity. Qed.
