(* Proofs about Det/Defs.v: canon_ids is a complete invariant for
   "equal up to an injective renaming of element ids". *)
From Coq Require Import FMapPositive Lia.
From CV Require Import Base.Bytes Det.Defs.
Local Open Scope N_scope.

Definition inj_on (l : list N) (rho : N -> N) : Prop :=
  forall a b, In a l -> In b l -> rho a = rho b -> a = b.

(* ------------------------------------------------------------------ *)
(* basic facts about rename / ids                                       *)

Lemma rename_T rho s r : rename rho (T s :: r) = T s :: rename rho r.
Proof. reflexivity. Qed.

Lemma rename_I rho n r : rename rho (I n :: r) = I (rho n) :: rename rho r.
Proof. reflexivity. Qed.

Lemma rename_nil rho : rename rho [] = [].
Proof. reflexivity. Qed.

Lemma ids_rename rho d : ids (rename rho d) = map rho (ids d).
Proof.
  induction d as [|[s|n] r IH].
  - reflexivity.
  - rewrite rename_T. cbn [ids]. exact IH.
  - rewrite rename_I. cbn [ids map]. f_equal. exact IH.
Qed.

Lemma rename_length rho d : length (rename rho d) = length d.
Proof. unfold rename. apply map_length. Qed.

(* ------------------------------------------------------------------ *)
(* reference version: the table is a plain function                     *)

Definition upd (f : N -> option N) (n v : N) : N -> option N :=
  fun m => if m =? n then Some v else f m.

Fixpoint canon_fn (f : N -> option N) (next : N) (d : doc) : doc :=
  match d with
  | [] => []
  | T s :: r => T s :: canon_fn f next r
  | I n :: r =>
      match f n with
      | Some k => I k :: canon_fn f next r
      | None => I next :: canon_fn (upd f n next) (next + 1) r
      end
  end.

Definition canon_ref (d : doc) : doc := canon_fn (fun _ => None) 0 d.

Lemma tbl_key_inj m n : tbl_key m = tbl_key n -> m = n.
Proof.
  unfold tbl_key. intros H. apply (f_equal N.pos) in H.
  rewrite !N.succ_pos_spec in H. lia.
Qed.

(* representation invariant: the positive map agrees with the function *)
Lemma canon_acc_fn : forall d tbl f next acc,
  (forall n, PositiveMap.find (tbl_key n) tbl = f n) ->
  canon_acc tbl next d acc = rev acc ++ canon_fn f next d.
Proof.
  induction d as [|[s|n] r IH]; intros tbl f next acc H; cbn [canon_acc canon_fn].
  - unfold rev'. rewrite <- rev_alt. rewrite app_nil_r. reflexivity.
  - rewrite (IH tbl f next _ H). cbn [rev]. rewrite <- app_assoc. reflexivity.
  - rewrite H. destruct (f n) as [k|].
    + rewrite (IH tbl f next _ H). cbn [rev]. rewrite <- app_assoc. reflexivity.
    + rewrite (IH _ (upd f n next)).
      * cbn [rev]. rewrite <- app_assoc. reflexivity.
      * intros m. unfold upd.
        destruct (N.eqb_spec m n) as [E|E].
        -- subst m. apply PositiveMap.gss.
        -- rewrite PositiveMap.gso.
           ++ apply H.
           ++ intros K. apply E. apply tbl_key_inj. exact K.
Qed.

Lemma canon_ids_ref d : canon_ids d = canon_ref d.
Proof.
  unfold canon_ids, canon_ref.
  rewrite (canon_acc_fn d _ (fun _ => None)).
  - reflexivity.
  - intros n. apply PositiveMap.gempty.
Qed.

(* ------------------------------------------------------------------ *)
(* 1. invariance under renamings injective on the occurring ids         *)

Lemma canon_fn_invariant : forall rho d f g next,
  inj_on (ids d) rho ->
  (forall a, In a (ids d) -> f (rho a) = g a) ->
  canon_fn f next (rename rho d) = canon_fn g next d.
Proof.
  intros rho. induction d as [|[s|n] r IH]; intros f g next Hinj Hfg.
  - reflexivity.
  - rewrite rename_T. cbn [canon_fn]. f_equal. apply IH.
    + exact Hinj.
    + exact Hfg.
  - rewrite rename_I. cbn [canon_fn].
    assert (Hinj' : inj_on (ids r) rho).
    { intros a b Ha Hb. apply Hinj; cbn [ids]; right; assumption. }
    rewrite (Hfg n) by (cbn [ids]; left; reflexivity).
    destruct (g n) as [k|].
    + f_equal. apply IH.
      * exact Hinj'.
      * intros a Ha. apply Hfg. cbn [ids]. right. exact Ha.
    + f_equal. apply IH.
      * exact Hinj'.
      * intros a Ha. unfold upd.
        destruct (N.eqb_spec a n) as [E|E].
        -- subst a. rewrite N.eqb_refl. reflexivity.
        -- destruct (N.eqb_spec (rho a) (rho n)) as [E'|E'].
           ++ exfalso. apply E. apply Hinj.
              ** cbn [ids]. right. exact Ha.
              ** cbn [ids]. left. reflexivity.
              ** exact E'.
           ++ apply Hfg. cbn [ids]. right. exact Ha.
Qed.

Theorem canon_ids_invariant : forall rho d,
  (forall a b, In a (ids d) -> In b (ids d) -> rho a = rho b -> a = b) ->
  canon_ids (rename rho d) = canon_ids d.
Proof.
  intros rho d H. rewrite !canon_ids_ref. unfold canon_ref.
  apply canon_fn_invariant.
  - exact H.
  - reflexivity.
Qed.

Corollary canon_ids_invariant_inj : forall rho d,
  (forall a b, rho a = rho b -> a = b) ->
  canon_ids (rename rho d) = canon_ids d.
Proof.
  intros rho d H. apply canon_ids_invariant. intros a b _ _. apply H.
Qed.

(* ------------------------------------------------------------------ *)
(* 2. the canonical form is itself an injective renaming                *)

Definition tinv (f : N -> option N) (next : N) : Prop :=
  (forall a b k, f a = Some k -> f b = Some k -> a = b) /\
  (forall a k, f a = Some k -> k < next).

Lemma tinv_upd f n next : tinv f next -> f n = None -> tinv (upd f n next) (next + 1).
Proof.
  intros [Hi Hb] En. split.
  - intros a b k. unfold upd.
    destruct (N.eqb_spec a n) as [Ea|Ea]; destruct (N.eqb_spec b n) as [Eb|Eb];
      intros Ha Hb'.
    + congruence.
    + injection Ha as <-. apply Hb in Hb'. lia.
    + injection Hb' as <-. apply Hb in Ha. lia.
    + eapply Hi; eassumption.
  - intros a k. unfold upd. destruct (N.eqb_spec a n) as [Ea|Ea]; intros H.
    + injection H as <-. lia.
    + apply Hb in H. lia.
Qed.

Lemma canon_fn_is_rename : forall d f next,
  tinv f next ->
  exists sigma,
    (forall a k, f a = Some k -> sigma a = k) /\
    (forall a b, (f a <> None \/ In a (ids d)) -> (f b <> None \/ In b (ids d)) ->
                 sigma a = sigma b -> a = b) /\
    canon_fn f next d = rename sigma d.
Proof.
  induction d as [|[s|n] r IH]; intros f next Hinv.
  - exists (fun a => match f a with Some k => k | None => 0 end).
    split; [|split].
    + intros a k H. rewrite H. reflexivity.
    + destruct Hinv as [Hi _].
      intros a b [Ha|[]] [Hb|[]].
      destruct (f a) as [ka|] eqn:Ea; [|congruence].
      destruct (f b) as [kb|] eqn:Eb; [|congruence].
      intros E. subst kb. eapply Hi; eassumption.
    + reflexivity.
  - destruct (IH f next Hinv) as (sigma & H1 & H2 & H3).
    exists sigma. split; [exact H1|split; [exact H2|]].
    rewrite rename_T. cbn [canon_fn]. f_equal. exact H3.
  - cbn [canon_fn]. destruct (f n) as [k|] eqn:En.
    + destruct (IH f next Hinv) as (sigma & H1 & H2 & H3).
      exists sigma. split; [exact H1|split].
      * assert (W : forall a, f a <> None \/ In a (ids (I n :: r)) ->
                              f a <> None \/ In a (ids r)).
        { intros a [H|[H|H]].
          - left; exact H.
          - subst a. left. congruence.
          - right; exact H. }
        intros a b Ha Hb. apply H2; apply W; assumption.
      * rewrite rename_I. rewrite H3. rewrite (H1 n k En). reflexivity.
    + destruct (IH (upd f n next) (next + 1) (tinv_upd f n next Hinv En))
        as (sigma & H1 & H2 & H3).
      exists sigma. split; [|split].
      * intros a k H. apply H1. unfold upd.
        destruct (N.eqb_spec a n) as [E|E]; [congruence|exact H].
      * assert (W : forall a, f a <> None \/ In a (ids (I n :: r)) ->
                              upd f n next a <> None \/ In a (ids r)).
        { intros a [H|[H|H]].
          - left. unfold upd. destruct (a =? n); congruence.
          - subst a. left. unfold upd. rewrite N.eqb_refl. congruence.
          - right; exact H. }
        intros a b Ha Hb. apply H2; apply W; assumption.
      * rewrite rename_I. rewrite H3. rewrite (H1 n next).
        -- reflexivity.
        -- unfold upd. rewrite N.eqb_refl. reflexivity.
Qed.

Lemma canon_ref_is_rename d :
  exists sigma, inj_on (ids d) sigma /\ canon_ref d = rename sigma d.
Proof.
  destruct (canon_fn_is_rename d (fun _ => None) 0) as (sigma & _ & H2 & H3).
  - split; intros; discriminate.
  - exists sigma. split.
    + intros a b Ha Hb. apply H2; right; assumption.
    + exact H3.
Qed.

Theorem canon_ids_is_rename : forall d,
  exists sigma,
    (forall a b, In a (ids d) -> In b (ids d) -> sigma a = sigma b -> a = b) /\
    canon_ids d = rename sigma d.
Proof.
  intros d. destruct (canon_ref_is_rename d) as (sigma & H1 & H2).
  exists sigma. split; [exact H1|]. rewrite canon_ids_ref. exact H2.
Qed.

(* ------------------------------------------------------------------ *)
(* 3. completeness: equal canonical forms => injective renaming         *)

(* some preimage of k under g among l (0 if none) *)
Fixpoint find_pre (g : N -> N) (k : N) (l : list N) : N :=
  match l with
  | [] => 0
  | a :: l' => if g a =? k then a else find_pre g k l'
  end.

Lemma find_pre_spec g k l :
  (exists a, In a l /\ g a = k) ->
  In (find_pre g k l) l /\ g (find_pre g k l) = k.
Proof.
  induction l as [|x l IH]; intros (a & Ha & Ga).
  - destruct Ha.
  - cbn [find_pre]. destruct (N.eqb_spec (g x) k) as [E|E].
    + split; [left; reflexivity|exact E].
    + destruct Ha as [Ha|Ha]; [subst x; contradiction|].
      destruct IH as [I1 I2]; [exists a; split; assumption|].
      split; [right; exact I1|exact I2].
Qed.

Lemma rename_eq_inv sigma sigma' L :
  inj_on L sigma' ->
  forall e e', incl (ids e') L -> rename sigma e = rename sigma' e' ->
  e' = rename (fun a => find_pre sigma' (sigma a) L) e.
Proof.
  intros Hinj. induction e as [|x e IH]; intros [|y e'] Hincl H.
  - reflexivity.
  - discriminate H.
  - discriminate H.
  - destruct x as [s|n]; destruct y as [s'|n'];
      rewrite ?rename_T, ?rename_I in H; try discriminate H.
    + injection H as Hs Hr. subst s'. rewrite rename_T. f_equal.
      apply IH; [exact Hincl|exact Hr].
    + injection H as Hn Hr. rewrite rename_I.
      assert (Hn' : In n' L). { apply Hincl. cbn [ids]. left. reflexivity. }
      assert (Hincl' : incl (ids e') L).
      { intros a Ha. apply Hincl. cbn [ids]. right. exact Ha. }
      destruct (find_pre_spec sigma' (sigma n) L) as [P1 P2].
      { exists n'. split; [exact Hn'|symmetry; exact Hn]. }
      f_equal.
      * f_equal. symmetry. apply Hinj; [exact P1|exact Hn'|congruence].
      * apply IH; [exact Hincl'|exact Hr].
Qed.

Lemma canon_ref_complete d d' :
  canon_ref d = canon_ref d' ->
  exists rho, inj_on (ids d) rho /\ d' = rename rho d.
Proof.
  intros E.
  destruct (canon_ref_is_rename d) as (sigma & S1 & S2).
  destruct (canon_ref_is_rename d') as (sigma' & S1' & S2').
  rewrite S2, S2' in E.
  exists (fun a => find_pre sigma' (sigma a) (ids d')). split.
  - assert (Hm : map sigma (ids d) = map sigma' (ids d')).
    { rewrite <- !ids_rename. f_equal. exact E. }
    assert (P : forall a, In a (ids d) ->
              sigma' (find_pre sigma' (sigma a) (ids d')) = sigma a).
    { intros a Ha.
      assert (K : In (sigma a) (map sigma' (ids d'))).
      { rewrite <- Hm. apply in_map. exact Ha. }
      apply in_map_iff in K. destruct K as (a' & K1 & K2).
      apply find_pre_spec. exists a'. split; assumption. }
    intros a b Ha Hb Hab. apply S1; [exact Ha|exact Hb|].
    rewrite <- (P a Ha), <- (P b Hb). f_equal. exact Hab.
  - apply rename_eq_inv; [exact S1'|apply incl_refl|exact E].
Qed.

Theorem canon_ids_complete : forall d d',
  canon_ids d = canon_ids d' ->
  exists rho,
    (forall a b, In a (ids d) -> In b (ids d) -> rho a = rho b -> a = b) /\
    d' = rename rho d.
Proof.
  intros d d' E. rewrite !canon_ids_ref in E.
  exact (canon_ref_complete d d' E).
Qed.

(* together with 1: canonical forms coincide exactly for docs that are equal
   up to a renaming injective on the occurring ids *)
Corollary canon_ids_eq_iff : forall d d',
  canon_ids d = canon_ids d' <->
  exists rho,
    (forall a b, In a (ids d) -> In b (ids d) -> rho a = rho b -> a = b) /\
    d' = rename rho d.
Proof.
  intros d d'. split.
  - apply canon_ids_complete.
  - intros (rho & H1 & H2). subst d'. symmetry. apply canon_ids_invariant. exact H1.
Qed.

(* ------------------------------------------------------------------ *)
(* 4. idempotence                                                       *)

Theorem canon_ids_idempotent : forall d, canon_ids (canon_ids d) = canon_ids d.
Proof.
  intros d. destruct (canon_ids_is_rename d) as (sigma & H1 & H2).
  rewrite H2 at 1. rewrite canon_ids_invariant by exact H1. reflexivity.
Qed.

(* ------------------------------------------------------------------ *)
(* shape facts                                                          *)

Lemma canon_ids_length d : length (canon_ids d) = length d.
Proof.
  destruct (canon_ids_is_rename d) as (sigma & _ & H). rewrite H.
  apply rename_length.
Qed.

(* ------------------------------------------------------------------ *)
(* boolean equality / first difference                                  *)

Lemma item_eqb_eq a b : item_eqb a b = true <-> a = b.
Proof.
  destruct a as [s|n]; destruct b as [s'|n']; cbn [item_eqb].
  - rewrite str_eqb_eq. split; congruence.
  - split; discriminate.
  - split; discriminate.
  - rewrite N.eqb_eq. split; congruence.
Qed.

Lemma first_diff_none : forall a b i, first_diff a b i = None <-> a = b.
Proof.
  induction a as [|x a IH]; intros [|y b] i; cbn [first_diff].
  - split; reflexivity.
  - split; discriminate.
  - split; discriminate.
  - destruct (item_eqb x y) eqn:E.
    + apply item_eqb_eq in E. subst y. rewrite IH. split; congruence.
    + split; [discriminate|]. intros H. injection H as Hx _. subst y.
      assert (K : item_eqb x x = true) by (apply item_eqb_eq; reflexivity).
      congruence.
Qed.

Lemma doc_eqb_eq a b : doc_eqb a b = true <-> a = b.
Proof.
  unfold doc_eqb. rewrite <- (first_diff_none a b 0).
  destruct (first_diff a b 0); split; congruence.
Qed.

Lemma first_diff_some : forall a b i j,
  first_diff a b i = Some j ->
  exists k : nat, j = i + N.of_nat k /\ firstn k a = firstn k b /\
                  nth_error a k <> nth_error b k.
Proof.
  induction a as [|x a IH]; intros [|y b] i j H; cbn [first_diff] in H.
  - discriminate H.
  - injection H as <-. exists 0%nat. split; [lia|split; [reflexivity|]].
    cbn [nth_error]. discriminate.
  - injection H as <-. exists 0%nat. split; [lia|split; [reflexivity|]].
    cbn [nth_error]. discriminate.
  - destruct (item_eqb x y) eqn:E.
    + apply item_eqb_eq in E. subst y.
      apply IH in H. destruct H as (k & K1 & K2 & K3).
      exists (S k). split; [lia|split].
      * cbn [firstn]. f_equal. exact K2.
      * cbn [nth_error]. exact K3.
    + injection H as <-. exists 0%nat. split; [lia|split; [reflexivity|]].
      cbn [nth_error]. intros K. injection K as K. subst y.
      assert (K' : item_eqb x x = true) by (apply item_eqb_eq; reflexivity).
      congruence.
Qed.

Print Assumptions canon_ids_invariant.
Print Assumptions canon_ids_is_rename.
Print Assumptions canon_ids_complete.
Print Assumptions canon_ids_idempotent.
