(* Determinism support: canonical renaming of element ids in a document.
   A document is a sequence of text chunks and element ids; two documents
   are "the same up to ids" iff one is an injective renaming of the other.
   canon_ids renames ids by order of first occurrence (k-th distinct id -> k).
   Definitions only; proofs are in Det/Proofs.v. *)
From Coq Require Import FMapPositive.
From CV Require Import Base.Bytes.
Local Open Scope N_scope.

Inductive item := T (s : str) | I (n : N).      (* text chunk | element id *)
Definition doc := list item.

Definition rename (rho : N -> N) (d : doc) : doc :=
  map (fun it => match it with T s => T s | I n => I (rho n) end) d.

(* ids in order of occurrence, with repetitions *)
Fixpoint ids (d : doc) : list N :=
  match d with
  | [] => []
  | T _ :: r => ids r
  | I n :: r => n :: ids r
  end.

(* table: id n is stored under key N.succ_pos n (log-time positive trie);
   next = number of distinct ids seen so far *)
Definition tbl_key (n : N) : positive := N.succ_pos n.

(* tail recursive (documents have ~200k items): output accumulated in reverse *)
Fixpoint canon_acc (tbl : PositiveMap.t N) (next : N) (d : doc) (acc : doc) : doc :=
  match d with
  | [] => rev' acc
  | T s :: r => canon_acc tbl next r (T s :: acc)
  | I n :: r =>
      match PositiveMap.find (tbl_key n) tbl with
      | Some k => canon_acc tbl next r (I k :: acc)
      | None => canon_acc (PositiveMap.add (tbl_key n) next tbl) (next + 1) r (I next :: acc)
      end
  end.

Definition canon_ids (d : doc) : doc := canon_acc (PositiveMap.empty N) 0 d [].

(* --- boolean equality on items / docs, first differing index --- *)
Definition item_eqb (a b : item) : bool :=
  match a, b with
  | T s, T s' => str_eqb s s'
  | I n, I n' => n =? n'
  | _, _ => false
  end.

(* index (counted from i) of the first position where a and b differ;
   if one is a proper prefix of the other: the length of the shorter one *)
Fixpoint first_diff (a b : doc) (i : N) : option N :=
  match a, b with
  | [], [] => None
  | x :: a', y :: b' => if item_eqb x y then first_diff a' b' (i + 1) else Some i
  | _, _ => Some i
  end.

Definition doc_eqb (a b : doc) : bool :=
  match first_diff a b 0 with None => true | Some _ => false end.
