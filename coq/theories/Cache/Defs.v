(* Model of the --cppcheck-build-dir cache (C18, C19, C20).  No proofs here.

   What is modelled, with the code it stands for:
   - lib/preprocessor.cpp  Preprocessor::calculateHash : hashdata
   - lib/cppcheck.cpp      CppCheck::calculateHash     : toolinfo (field list = Gen_KeyFields.key_fields)
   - lib/analyzerinfo.cpp  getFilename/getFilesTxt     : files_txt
                           getAnalyzerInfoFileFromFilesTxt + getAnalyzerInfoFile : lookup_af
                           analyzeFile/skipAnalysis     : the hit test in run_file
                           processFilesTxt              : summaries
   - lib/cppcheck.cpp checkInternal (cache-hit path)   : run_file
   - cli/cppcheckexecutor.cpp check_internal            : run (files.txt first, files, whole program)
   The lexer, include resolution and every checker are Section variables
   (view, analyze, wp); std::hash is the Section variable H. *)
From CV Require Import Base.Bytes.
Local Open Scope N_scope.

(* ------------------------------------------------------------------ key *)
(* a non-comment token: text, line, column (full unsigned values) *)
Definition tok := (str * N * N)%type.

(* how a location enters the hash data.
   LocChar: hashData += static_cast<char>(line); hashData += static_cast<char>(col);
   LocDec : hashData += ' '; += std::to_string(line); += ':'; += std::to_string(col); += '\n'; *)
Inductive locenc := LocChar | LocDec.

Definition enc_loc (e : locenc) (line col : N) : str :=
  match e with
  | LocChar => [line mod 256; col mod 256]
  | LocDec => 32 :: dec_of_N line ++ 58 :: dec_of_N col ++ [10]
  end.

Definition enc_tok (e : locenc) (t : tok) : str :=
  match t with (s, l, c) => s ++ enc_loc e l c end.

Definition enc_toks (e : locenc) (ts : list tok) : str := concat (map (enc_tok e) ts).

(* what the analysis of one translation unit can see: the path it was given,
   its token stream, and the loaded headers (mFileCache order) with their paths *)
Record ustate := mkU { u_path : str; u_toks : list tok; u_hdrs : list (str * list tok) }.

(* hp: the header loop also appends the header's file name (not in the current source) *)
Definition hashdata (e : locenc) (hp : bool) (toolinfo : str) (u : ustate) : str :=
  toolinfo ++ enc_toks e (u_toks u) ++
  concat (map (fun h => (if hp then fst h else []) ++ enc_toks e (snd h)) (u_hdrs u)).

(* ------------------------------------------------------------------ options *)
(* Settings members (and the nomsg suppression dump) that CppCheck::calculateHash
   may stream into toolinfo, plus the ones the property C19 lists. *)
Inductive field :=
| F_product | F_sev_warning | F_sev_style | F_sev_performance | F_sev_portability | F_sev_information
| F_userDefines | F_checkConfiguration | F_force | F_maxConfigsOption | F_checkLevel
| F_addonInfos | F_premiumArgs | F_suppressions
| F_certainty_inconclusive | F_checks_unusedFunction | F_checks_missingInclude
| F_userUndefs | F_includePaths | F_standards | F_enforcedLang | F_platform | F_libraries
| F_filePath
| F_getMaxConfigs.   (* pseudo member: the value of Settings::getMaxConfigs(), a function of force, maxConfigsOption, userDefines *)

Definition field_eqb (a b : field) : bool :=
  match a, b with
  | F_product, F_product | F_sev_warning, F_sev_warning | F_sev_style, F_sev_style
  | F_sev_performance, F_sev_performance | F_sev_portability, F_sev_portability
  | F_sev_information, F_sev_information | F_userDefines, F_userDefines
  | F_checkConfiguration, F_checkConfiguration | F_force, F_force
  | F_maxConfigsOption, F_maxConfigsOption | F_checkLevel, F_checkLevel
  | F_addonInfos, F_addonInfos | F_premiumArgs, F_premiumArgs | F_suppressions, F_suppressions
  | F_certainty_inconclusive, F_certainty_inconclusive
  | F_checks_unusedFunction, F_checks_unusedFunction | F_checks_missingInclude, F_checks_missingInclude
  | F_userUndefs, F_userUndefs | F_includePaths, F_includePaths | F_standards, F_standards
  | F_enforcedLang, F_enforcedLang | F_platform, F_platform | F_libraries, F_libraries
  | F_filePath, F_filePath | F_getMaxConfigs, F_getMaxConfigs => true
  | _, _ => false
  end.

Definition all_fields : list field :=
  [F_product; F_sev_warning; F_sev_style; F_sev_performance; F_sev_portability; F_sev_information;
   F_userDefines; F_checkConfiguration; F_force; F_maxConfigsOption; F_checkLevel;
   F_addonInfos; F_premiumArgs; F_suppressions;
   F_certainty_inconclusive; F_checks_unusedFunction; F_checks_missingInclude;
   F_userUndefs; F_includePaths; F_standards; F_enforcedLang; F_platform; F_libraries; F_filePath; F_getMaxConfigs].

Definition mem_field (f : field) (l : list field) : bool := existsb (field_eqb f) l.

(* the options of one run: every member rendered the way the code streams it *)
Definition options := field -> str.

(* toolinfo as composed by CppCheck::calculateHash: the listed members, in
   source order, concatenated without separators *)
Definition toolinfo (kf : list field) (o : options) : str := concat (map o kf).

(* the fixed list from the statement of C19, mapped to Settings members:
   enabled severities and checks, --inconclusive, -D, -U, -I, --std, --language,
   --platform, --library, suppressions, --max-configs, --check-level, --force *)
Definition c19_options : list field :=
  [F_sev_warning; F_sev_style; F_sev_performance; F_sev_portability; F_sev_information;
   F_checks_unusedFunction; F_checks_missingInclude; F_certainty_inconclusive;
   F_userDefines; F_userUndefs; F_includePaths; F_standards; F_enforcedLang; F_platform;
   F_libraries; F_suppressions; F_maxConfigsOption; F_checkLevel; F_force].

Definition key_covers (kf : list field) (want : list field) : bool :=
  forallb (fun f => mem_field f kf) want.

Definition missing_fields (kf : list field) (want : list field) : list field :=
  filter (fun f => negb (mem_field f kf)) want.

(* two option sets that agree everywhere except on f *)
Definition flip_field (f : field) (v : str) (o : options) : options :=
  fun g => if field_eqb g f then v else o g.

(* ------------------------------------------------------------------ files.txt *)
Definition slash := 47.
Definition bslash := 92.
Definition dot := 46.
Definition colon := 58.

(* index just after the last '/' or '\\' (0 if none), by one pass *)
Fixpoint after_last_sep (s : str) (cur : str) : str :=
  match s with
  | [] => cur
  | c :: s' => if (c =? slash) || (c =? bslash) then after_last_sep s' s' else after_last_sep s' cur
  end.
Definition basename_any (s : str) : str := after_last_sep s s.

(* strip from the last '.' on, if there is one *)
Fixpoint cut_last_dot (s : str) : option str :=
  match s with
  | [] => None
  | c :: s' => match cut_last_dot s' with
               | Some r => Some (c :: r)
               | None => if c =? dot then Some [] else None
               end
  end.

(* analyzerinfo.cpp getFilename *)
Definition get_filename (full : str) : str :=
  let b := basename_any full in
  match cut_last_dot b with Some r => r | None => b end.

Fixpoint cnt_get (m : list (str * N)) (k : str) : N :=
  match m with
  | [] => 0
  | (k', n) :: m' => if str_eqb k k' then n else cnt_get m' k
  end.

Definition afile_name (base : str) (n : N) : str := base ++ [dot; 97] ++ dec_of_N n.

(* getFilesTxt for plain source files (cfg and fsFileId empty): (afile, source) per line *)
Fixpoint files_txt_go (m : list (str * N)) (files : list str) : list (str * str) :=
  match files with
  | [] => []
  | f :: r => let b := get_filename f in
              let n := cnt_get m b + 1 in
              (afile_name b n, f) :: files_txt_go ((b, n) :: m) r
  end.
Definition files_txt (files : list str) : list (str * str) := files_txt_go [] files.

(* the text written to files.txt *)
Definition files_txt_text (files : list str) : str :=
  concat (map (fun l => fst l ++ [colon; colon; colon] ++ snd l ++ [10]) (files_txt files)).

(* getAnalyzerInfoFileFromFilesTxt.
   SuffixFirst     : first line whose source is a suffix of the file (endsWith) - the current source
   ExactThenSuffix : a line with exactly this source wins, else as before *)
Inductive lookup_mode := SuffixFirst | ExactThenSuffix.

Fixpoint lookup_suffix (ftxt : list (str * str)) (src : str) : option str :=
  match ftxt with
  | [] => None
  | (af, sf) :: r => if ends_with sf src then Some af else lookup_suffix r src
  end.
Fixpoint lookup_exact (ftxt : list (str * str)) (src : str) : option str :=
  match ftxt with
  | [] => None
  | (af, sf) :: r => if str_eqb sf src then Some af else lookup_exact r src
  end.
Definition lookup_txt (lm : lookup_mode) (ftxt : list (str * str)) (src : str) : option str :=
  match lm with
  | SuffixFirst => lookup_suffix ftxt src
  | ExactThenSuffix => match lookup_exact ftxt src with Some af => Some af | None => lookup_suffix ftxt src end
  end.

(* after the last '/' only (getAnalyzerInfoFile fallback) *)
Fixpoint after_last_slash (s : str) (cur : str) : str :=
  match s with
  | [] => cur
  | c :: s' => if c =? slash then after_last_slash s' s' else after_last_slash s' cur
  end.

Definition analyzerinfo_suffix : str := [46;97;110;97;108;121;122;101;114;105;110;102;111].

(* getAnalyzerInfoFile, relative to the build dir *)
Definition lookup_af (lm : lookup_mode) (ftxt : list (str * str)) (src : str) : str :=
  match lookup_txt lm ftxt src with
  | Some af => if match af with [] => true | _ => false end
               then after_last_slash src src ++ analyzerinfo_suffix else af
  | None => after_last_slash src src ++ analyzerinfo_suffix
  end.

Fixpoint nodup_strb (l : list str) : bool :=
  match l with
  | [] => true
  | x :: r => negb (existsb (str_eqb x) r) && nodup_strb r
  end.

Fixpoint list_str_eqb (a b : list str) : bool :=
  match a, b with
  | [], [] => true
  | x :: a', y :: b' => str_eqb x y && list_str_eqb a' b'
  | _, _ => false
  end.

(* every file finds the line written for it, and no two files share a cache file *)
Definition lookup_okb (lm : lookup_mode) (files : list str) : bool :=
  let ft := files_txt files in
  list_str_eqb (map (lookup_af lm ft) files) (map fst ft) && nodup_strb (map fst ft).

(* ------------------------------------------------------------------ runs *)
Section Cache.
  Variables (opts msg summ content : Type).
  Variable lm : lookup_mode.
  Variable H : str -> N.                               (* std::hash<std::string> *)
  Variable keydata : opts -> ustate -> str.           (* what is hashed *)
  Variable analyze : opts -> ustate -> list msg * summ. (* all checkers on one unit *)
  Variable is_internal : msg -> bool.                  (* internalError-class ids *)
  Variable wp : opts -> list (str * summ) -> list msg. (* whole-program analysis *)

  Definition fsys := list (str * content).
  Variable view : opts -> fsys -> str -> ustate.       (* lexer + include resolution *)

  Definition entry := (N * list msg * summ)%type.
  Definition bdir := list (str * entry).

  Fixpoint bd_get (bd : bdir) (af : str) : option entry :=
    match bd with
    | [] => None
    | (a, e) :: r => if str_eqb af a then Some e else bd_get r af
    end.
  Definition bd_set (bd : bdir) (af : str) (e : entry) : bdir := (af, e) :: bd.

  (* analyzeFile + skipAnalysis *)
  Definition usable (k : N) (e : entry) : bool :=
    match e with (k', ms, _) => (k' =? k) && forallb (fun m => negb (is_internal m)) ms end.

  (* checkInternal for one file *)
  Definition run_file (o : opts) (fs : fsys) (ftxt : list (str * str)) (st : bdir * list msg) (p : str)
    : bdir * list msg :=
    let (bd, rep) := st in
    let u := view o fs p in
    let k := H (keydata o u) in
    let af := lookup_af lm ftxt p in
    let miss := let (ms, ss) := analyze o u in (bd_set bd af (k, ms, ss), rep ++ ms) in
    match bd_get bd af with
    | Some e => if usable k e then (bd, rep ++ snd (fst e)) else miss
    | None => miss
    end.

  (* processFilesTxt: the summaries of every listed cache file that exists *)
  Definition summaries (bd : bdir) (ftxt : list (str * str)) : list (str * summ) :=
    flat_map (fun l => match bd_get bd (fst l) with
                       | Some e => [(snd l, snd e)]
                       | None => []
                       end) ftxt.

  Definition run (o : opts) (fs : fsys) (files : list str) (bd : bdir) : bdir * list msg :=
    let ftxt := files_txt files in
    let (bd', rep) := fold_left (run_file o fs ftxt) files (bd, []) in
    (bd', rep ++ wp o (summaries bd' ftxt)).

  (* the same options and files without a build directory *)
  Definition fresh (o : opts) (fs : fsys) (files : list str) : list msg :=
    flat_map (fun p => fst (analyze o (view o fs p))) files ++
    wp o (map (fun p => (p, snd (analyze o (view o fs p)))) files).

  (* ---- edit histories *)
  Inductive edit :=
  | EAdd (p : str) (c : content)
  | ERemove (p : str)
  | ERename (p q : str)
  | ETouch (p : str)
  | EModify (p : str) (c : content).

  Fixpoint fs_remove (fs : fsys) (p : str) : fsys :=
    match fs with
    | [] => []
    | (q, c) :: r => if str_eqb p q then fs_remove r p else (q, c) :: fs_remove r p
    end.
  Fixpoint fs_get (fs : fsys) (p : str) : option content :=
    match fs with
    | [] => None
    | (q, c) :: r => if str_eqb p q then Some c else fs_get r p
    end.

  Definition apply_edit (fs : fsys) (e : edit) : fsys :=
    match e with
    | EAdd p c => (p, c) :: fs_remove fs p
    | ERemove p => fs_remove fs p
    | ERename p q => match fs_get fs p with
                     | Some c => (q, c) :: fs_remove (fs_remove fs p) q
                     | None => fs
                     end
    | ETouch p => fs
    | EModify p c => match fs_get fs p with
                     | Some _ => (p, c) :: fs_remove fs p
                     | None => fs
                     end
    end.

  Inductive step :=
  | SEdit (e : edit)
  | SRun (o : opts) (files : list str).

  (* reports of the runs of a history sharing one build dir *)
  Fixpoint exec (h : list step) (fs : fsys) (bd : bdir) : list (list msg) :=
    match h with
    | [] => []
    | SEdit e :: r => exec r (apply_edit fs e) bd
    | SRun o files :: r => let (bd', rep) := run o fs files bd in rep :: exec r fs bd'
    end.

  (* what runs without a build dir report at the same points *)
  Fixpoint exec_fresh (h : list step) (fs : fsys) : list (list msg) :=
    match h with
    | [] => []
    | SEdit e :: r => exec_fresh r (apply_edit fs e)
    | SRun o files :: r => fresh o fs files :: exec_fresh r fs
    end.

  (* the key data met by the runs of a history *)
  Fixpoint keys_of (h : list step) (fs : fsys) : list str :=
    match h with
    | [] => []
    | SEdit e :: r => keys_of r (apply_edit fs e)
    | SRun o files :: r => map (fun p => keydata o (view o fs p)) files ++ keys_of r fs
    end.

  Fixpoint runs_ok (h : list step) : bool :=
    match h with
    | [] => true
    | SEdit _ :: r => runs_ok r
    | SRun _ files :: r => lookup_okb lm files && runs_ok r
    end.
End Cache.

Arguments EAdd {content}. Arguments ERemove {content}. Arguments ERename {content}.
Arguments ETouch {content}. Arguments EModify {content}.
Arguments SEdit {opts content}. Arguments SRun {opts content}.
