(* C18/C19: a shared build dir is transparent over every history of edits and
   runs, provided the key data determines what the analysis depends on and the
   final hash does not collide on the key data that occur. *)
From CV Require Import Base.Bytes Cache.Defs.
Require Import Lia.
Local Open Scope N_scope.

(* ---------------------------------------------------------------- helpers *)
Lemma nodup_strb_NoDup l : nodup_strb l = true -> NoDup l.
Proof.
  induction l as [|x r IH]; cbn [nodup_strb]; intros Hn; [constructor|].
  apply andb_true_iff in Hn as [Hx Hr]. constructor; [|auto].
  intros Hin. apply negb_true_iff in Hx.
  assert (existsb (str_eqb x) r = true) as E.
  { apply existsb_exists. exists x. split; [assumption|]. apply str_eqb_eq. reflexivity. }
  congruence.
Qed.

Lemma list_str_eqb_eq a : forall b, list_str_eqb a b = true -> a = b.
Proof.
  induction a as [|x a IH]; intros [|y b]; cbn [list_str_eqb]; intros E; try discriminate; [reflexivity|].
  apply andb_true_iff in E as [E1 E2]. apply str_eqb_eq in E1. subst. f_equal. auto.
Qed.

Lemma files_txt_go_snd files : forall m, map snd (files_txt_go m files) = files.
Proof. induction files as [|f r IH]; intros m; cbn [files_txt_go map snd]; [reflexivity|]. now rewrite IH. Qed.

Lemma files_txt_snd files : map snd (files_txt files) = files.
Proof. apply files_txt_go_snd. Qed.

Lemma combine_fst_snd {A B} (l : list (A * B)) : combine (map fst l) (map snd l) = l.
Proof. induction l as [|[a b] l IH]; cbn; [reflexivity|]. now rewrite IH. Qed.

Section CacheProofs.
  Variables (opts msg summ content : Type).
  Variable lm : lookup_mode.
  Variable H : str -> N.
  Variable keydata : opts -> ustate -> str.
  Variable analyze : opts -> ustate -> list msg * summ.
  Variable is_internal : msg -> bool.
  Variable wp : opts -> list (str * summ) -> list msg.
  Variable view : opts -> fsys content -> str -> ustate.

  Notation bdir := (bdir msg summ).
  Notation run_file := (run_file opts msg summ content lm H keydata analyze is_internal view).
  Notation run := (run opts msg summ content lm H keydata analyze is_internal wp view).
  Notation fresh := (fresh opts msg summ content analyze wp view).
  Notation exec := (exec opts msg summ content lm H keydata analyze is_internal wp view).
  Notation exec_fresh := (exec_fresh opts msg summ content analyze wp view).
  Notation keys_of := (keys_of opts content keydata view).
  Notation bd_get := (bd_get msg summ).

  (* the key data on which the hash is assumed collision-free *)
  Variable D : str -> Prop.
  Hypothesis H_collision_free : forall a b, D a -> D b -> H a = H b -> a = b.
  (* the key data determines everything the analysis depends on *)
  Hypothesis faithful_key : forall o u o' u', keydata o u = keydata o' u' -> analyze o u = analyze o' u'.

  (* every cache entry is the analysis of some state with that key *)
  Definition Inv (bd : bdir) : Prop :=
    forall af k ms ss, bd_get bd af = Some (k, ms, ss) ->
      exists o u, D (keydata o u) /\ k = H (keydata o u) /\ analyze o u = (ms, ss).

  Lemma Inv_nil : Inv [].
  Proof. intros af k ms ss E. discriminate. Qed.

  Lemma bd_get_set_same bd af e : bd_get (bd_set msg summ bd af e) af = Some e.
  Proof.
    unfold bd_set. cbn [Defs.bd_get].
    destruct (str_eqb af af) eqn:E; [reflexivity|].
    assert (str_eqb af af = true) by (apply str_eqb_eq; reflexivity). congruence.
  Qed.

  Lemma bd_get_set_other bd af af' e : af' <> af -> bd_get (bd_set msg summ bd af e) af' = bd_get bd af'.
  Proof.
    intros N. unfold bd_set. cbn [Defs.bd_get].
    destruct (str_eqb af' af) eqn:E; [|reflexivity]. apply str_eqb_eq in E. congruence.
  Qed.

  Lemma run_file_spec o fs ftxt bd rep p bd' rep' :
    Inv bd -> D (keydata o (view o fs p)) ->
    run_file o fs ftxt (bd, rep) p = (bd', rep') ->
    rep' = rep ++ fst (analyze o (view o fs p)) /\ Inv bd' /\
    (exists k, bd_get bd' (lookup_af lm ftxt p) =
               Some (k, fst (analyze o (view o fs p)), snd (analyze o (view o fs p)))) /\
    (forall af', af' <> lookup_af lm ftxt p -> bd_get bd' af' = bd_get bd af').
  Proof.
    intros HI HD. unfold Defs.run_file.
    set (u := view o fs p). set (af := lookup_af lm ftxt p). set (k := H (keydata o u)).
    assert (Hmiss : (let (ms, ss) := analyze o u in
                     (bd_set msg summ bd af (k, ms, ss), rep ++ ms)) = (bd', rep') ->
            rep' = rep ++ fst (analyze o u) /\ Inv bd' /\
            (exists k0, bd_get bd' af = Some (k0, fst (analyze o u), snd (analyze o u))) /\
            (forall af', af' <> af -> bd_get bd' af' = bd_get bd af')).
    { destruct (analyze o u) as [ms ss] eqn:EA. intros E. inversion E; subst bd' rep'. clear E.
      cbn [fst snd]. split; [reflexivity|]. split.
      - intros af' k' ms' ss' G.
        destruct (list_eq_dec N.eq_dec af' af) as [->|Nq].
        + rewrite bd_get_set_same in G. inversion G; subst. exists o, u. auto.
        + rewrite bd_get_set_other in G by assumption. eapply HI; eauto.
      - split; [exists k; apply bd_get_set_same|]. intros af' Nq. apply bd_get_set_other; assumption. }
    destruct (bd_get bd af) as [[[k' ms] ss]|] eqn:G; [|exact Hmiss].
    destruct (usable msg summ is_internal k (k', ms, ss)) eqn:U; [|exact Hmiss].
    intros E. inversion E; subst bd' rep'. clear E Hmiss. cbn [fst snd].
    unfold usable in U. apply andb_true_iff in U as [Uk _]. apply N.eqb_eq in Uk. subst k'.
    destruct (HI _ _ _ _ G) as (o0 & u0 & HD0 & Hk & HA).
    assert (keydata o0 u0 = keydata o u) as KE by (apply H_collision_free; auto).
    rewrite (faithful_key _ _ _ _ KE) in HA. rewrite HA. cbn [fst snd].
    split; [reflexivity|]. split; [assumption|]. split; [exists k; assumption|]. reflexivity.
  Qed.

  Lemma fold_run_file_spec o fs ftxt : forall ps bd rep bd' rep',
    Inv bd -> Forall (fun p => D (keydata o (view o fs p))) ps ->
    NoDup (map (lookup_af lm ftxt) ps) ->
    fold_left (run_file o fs ftxt) ps (bd, rep) = (bd', rep') ->
    rep' = rep ++ flat_map (fun p => fst (analyze o (view o fs p))) ps /\ Inv bd' /\
    (forall p, In p ps -> exists k, bd_get bd' (lookup_af lm ftxt p) =
               Some (k, fst (analyze o (view o fs p)), snd (analyze o (view o fs p)))) /\
    (forall af', ~ In af' (map (lookup_af lm ftxt) ps) -> bd_get bd' af' = bd_get bd af').
  Proof.
    induction ps as [|p ps IH]; intros bd rep bd' rep' HI HD ND E.
    - cbn in E. inversion E; subst. cbn. rewrite app_nil_r. repeat split; auto. intros p [].
    - cbn [fold_left] in E.
      destruct (run_file o fs ftxt (bd, rep) p) as [bd1 rep1] eqn:E1.
      inversion HD as [|? ? HDp HDr]; subst. inversion ND as [|? ? Nin NDr]; subst.
      destruct (run_file_spec _ _ _ _ _ _ _ _ HI HDp E1) as (R1 & I1 & (k1 & G1) & O1).
      destruct (IH _ _ _ _ I1 HDr NDr E) as (R2 & I2 & G2 & O2).
      split. { rewrite R2, R1. cbn [flat_map]. now rewrite app_assoc. }
      split; [assumption|]. split.
      + intros q [->|Hq]; [|auto]. exists k1. rewrite O2 by assumption. assumption.
      + intros af' Nin'. cbn [map] in Nin'. rewrite O2 by (intro; apply Nin'; now right).
        apply O1. intro; apply Nin'; now left.
  Qed.

  Lemma summaries_spec o fs (bd : bdir) (af : str -> str) : forall l,
    (forall p, In p l -> exists k, bd_get bd (af p) =
               Some (k, fst (analyze o (view o fs p)), snd (analyze o (view o fs p)))) ->
    summaries msg summ bd (combine (map af l) l) =
    map (fun p => (p, snd (analyze o (view o fs p)))) l.
  Proof.
    induction l as [|p l IH]; intros G; [reflexivity|].
    cbn [map combine summaries flat_map fst snd].
    destruct (G p (or_introl eq_refl)) as (k & Gp). rewrite Gp. cbn [snd app].
    f_equal. apply IH. intros q Hq. apply G. now right.
  Qed.

  (* one run on a build dir that satisfies the invariant *)
  Lemma run_transparent o fs files bd bd' rep :
    Inv bd -> Forall (fun p => D (keydata o (view o fs p))) files ->
    lookup_okb lm files = true ->
    run o fs files bd = (bd', rep) ->
    rep = fresh o fs files /\ Inv bd'.
  Proof.
    intros HI HD OK. unfold Defs.run.
    destruct (fold_left (run_file o fs (files_txt files)) files (bd, [])) as [bd1 rep1] eqn:E.
    intros E2. inversion E2; subst bd' rep. clear E2.
    unfold lookup_okb in OK. apply andb_true_iff in OK as [OK1 OK2].
    apply list_str_eqb_eq in OK1. apply nodup_strb_NoDup in OK2. rewrite <- OK1 in OK2.
    destruct (fold_run_file_spec _ _ _ _ _ _ _ _ HI HD OK2 E) as (R & I & G & _).
    split; [|assumption]. unfold Defs.fresh. rewrite R. cbn [app]. f_equal. f_equal.
    rewrite <- (combine_fst_snd (files_txt files)) at 1.
    rewrite files_txt_snd, <- OK1.
    apply summaries_spec. exact G.
  Qed.


  (* ---- C20: an interrupted run *)
  (* whatever part of a build dir survives (entries can only disappear) keeps the invariant *)
  Lemma Inv_drop bd bdc :
    Inv bd -> (forall af, bd_get bdc af = None \/ bd_get bdc af = bd_get bd af) -> Inv bdc.
  Proof.
    intros HI Hs af k ms ss G. destruct (Hs af) as [E|E]; rewrite E in G; [discriminate|]. eapply HI; eauto.
  Qed.

  (* the files an interrupted run got through, in any order and any number *)
  Lemma fold_run_file_Inv o fs ftxt : forall ps bd rep,
    Inv bd -> Forall (fun p => D (keydata o (view o fs p))) ps ->
    Inv (fst (fold_left (run_file o fs ftxt) ps (bd, rep))).
  Proof.
    induction ps as [|p ps IH]; intros bd rep HI HD; [exact HI|].
    cbn [fold_left]. destruct (run_file o fs ftxt (bd, rep) p) as [bd1 rep1] eqn:E1.
    inversion HD as [|? ? HDp HDr]; subst.
    destruct (run_file_spec _ _ _ _ _ _ _ _ HI HDp E1) as (_ & I1 & _). apply IH; assumption.
  Qed.

  (* A run is killed after it has been through the files `done` (any subset, any order:
     several jobs) with files.txt `ftxt`; of the resulting cache files an arbitrary part
     survives as loadable (the others are truncated: XmlProofs.proper_prefix_rejected,
     or missing).  The next complete run reports what a run without a build dir reports. *)
  Theorem crash_then_complete o1 fs1 ftxt1 done bd bdc o fs files bd' rep :
    Inv bd -> Forall (fun p => D (keydata o1 (view o1 fs1 p))) done ->
    (forall af, bd_get bdc af = None \/
                bd_get bdc af = bd_get (fst (fold_left (run_file o1 fs1 ftxt1) done (bd, []))) af) ->
    Forall (fun p => D (keydata o (view o fs p))) files -> lookup_okb lm files = true ->
    run o fs files bdc = (bd', rep) ->
    rep = fresh o fs files /\ Inv bd'.
  Proof.
    intros HI HD1 Hs HD OK E.
    assert (Inv bdc) as HIc.
    { eapply Inv_drop; [|exact Hs]. apply fold_run_file_Inv; assumption. }
    exact (run_transparent o fs files bdc bd' rep HIc HD OK E).
  Qed.

  Definition keys_in_D (h : list (step opts content)) (fs : fsys content) : Prop :=
    Forall D (keys_of h fs).

  (* C18/C19: every history of edits and runs *)
  Theorem cache_transparent_under_faithful_key : forall h fs bd,
    Inv bd -> keys_in_D h fs -> runs_ok opts content lm h = true ->
    exec h fs bd = exec_fresh h fs.
  Proof.
    induction h as [|s h IH]; intros fs bd HI HK OK; [reflexivity|].
    destruct s as [e|o files].
    - cbn [Defs.exec Defs.exec_fresh]. apply IH; assumption.
    - cbn [Defs.exec Defs.exec_fresh].
      cbn [runs_ok] in OK. apply andb_true_iff in OK as [OK1 OK2].
      unfold keys_in_D in HK. cbn [Defs.keys_of] in HK. apply Forall_app in HK as [HK1 HK2].
      destruct (run o fs files bd) as [bd' rep] eqn:E.
      assert (HD : Forall (fun p => D (keydata o (view o fs p))) files).
      { apply Forall_forall. intros p Hp. rewrite Forall_forall in HK1. apply HK1.
        apply in_map_iff. exists p. auto. }
      destruct (run_transparent _ _ _ _ _ _ HI HD OK1 E) as [-> I'].
      f_equal. apply IH; assumption.
  Qed.

  Corollary cache_transparent_from_empty h fs :
    keys_in_D h fs -> runs_ok opts content lm h = true -> exec h fs [] = exec_fresh h fs.
  Proof. intros. apply cache_transparent_under_faithful_key; auto using Inv_nil. Qed.
End CacheProofs.

(* ---------------------------------------------------------------- the key as the code composes it *)

(* LocChar: a shift by 256 lines is invisible *)
Lemma enc_loc_char_mod l c : enc_loc LocChar (l + 256) c = enc_loc LocChar l c.
Proof.
  unfold enc_loc. f_equal.
  replace (l + 256) with (l + 1 * 256) by lia. apply N.mod_add. discriminate.
Qed.

Definition shift_tok (d : N) (t : tok) : tok := match t with (s, l, c) => (s, l + d, c) end.
Definition shift_cols (d : N) (t : tok) : tok := match t with (s, l, c) => (s, l, c + d) end.

Lemma enc_toks_char_shift256 ts : enc_toks LocChar (map (shift_tok 256) ts) = enc_toks LocChar ts.
Proof.
  unfold enc_toks. induction ts as [|[[s l] c] ts IH]; [reflexivity|].
  cbn [map concat shift_tok enc_tok]. rewrite enc_loc_char_mod. now rewrite IH.
Qed.

Lemma enc_toks_char_shiftcol256 ts : enc_toks LocChar (map (shift_cols 256) ts) = enc_toks LocChar ts.
Proof.
  unfold enc_toks. induction ts as [|[[s l] c] ts IH]; [reflexivity|].
  cbn [map concat shift_cols enc_tok]. rewrite IH. f_equal. f_equal. unfold enc_loc. f_equal. f_equal.
  replace (c + 256) with (c + 1 * 256) by lia. apply N.mod_add. discriminate.
Qed.

(* for every unit without headers: moving the whole file down by 256 lines keeps the hash data *)
Lemma hashdata_char_shift256 hp ti p ts :
  hashdata LocChar hp ti (mkU p (map (shift_tok 256) ts) []) = hashdata LocChar hp ti (mkU p ts []).
Proof. unfold hashdata. cbn [u_toks u_hdrs]. now rewrite enc_toks_char_shift256. Qed.

(* the source path is not part of the hash data (unless toolinfo carries it) *)
Lemma hashdata_path_blind e hp ti p q ts hs :
  hashdata e hp ti (mkU p ts hs) = hashdata e hp ti (mkU q ts hs).
Proof. reflexivity. Qed.

(* header paths are not part of the hash data *)
Lemma hashdata_hdrpath_blind e ti p ts hp hq hts hs :
  hashdata e false ti (mkU p ts ((hp, hts) :: hs)) = hashdata e false ti (mkU p ts ((hq, hts) :: hs)).
Proof. reflexivity. Qed.

(* ---------------------------------------------------------------- options *)
Lemma mem_field_In f l : mem_field f l = true <-> In f l.
Proof.
  unfold mem_field. rewrite existsb_exists. split.
  - intros (g & Hg & E). destruct f, g; try discriminate; assumption.
  - intros Hin. exists f. split; [assumption|]. destruct f; reflexivity.
Qed.

Lemma field_eqb_eq a b : field_eqb a b = true <-> a = b.
Proof. split; [destruct a, b; try discriminate; reflexivity | intros ->; destruct b; reflexivity]. Qed.

(* a member that is not streamed into toolinfo cannot influence it *)
Lemma omitted_field_invisible kf f v o :
  mem_field f kf = false -> toolinfo kf (flip_field f v o) = toolinfo kf o.
Proof.
  unfold toolinfo. induction kf as [|g kf IH]; intros Hm; [reflexivity|].
  unfold mem_field in Hm. cbn [existsb] in Hm. apply orb_false_iff in Hm as [Hg Hr].
  cbn [map concat]. rewrite IH by exact Hr. f_equal.
  unfold flip_field. destruct (field_eqb g f) eqn:E; [|reflexivity].
  apply field_eqb_eq in E. subst. rewrite (proj2 (field_eqb_eq f f) eq_refl) in Hg. discriminate.
Qed.

Lemma missing_fields_spec kf want f :
  In f (missing_fields kf want) <-> In f want /\ mem_field f kf = false.
Proof. unfold missing_fields. rewrite filter_In, negb_true_iff. reflexivity. Qed.

Lemma key_covers_no_missing kf want : key_covers kf want = true <-> missing_fields kf want = [].
Proof.
  unfold key_covers, missing_fields. induction want as [|f r IH]; cbn [forallb filter]; [tauto|].
  destruct (mem_field f kf); cbn [negb andb]; [exact IH|]. split; discriminate.
Qed.
