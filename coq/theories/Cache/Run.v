(* Entry point of the extracted model for C18/C19/C20: decode a case, run the model. *)
From CV Require Import Base.Bytes Cache.Defs Cache.Gen_KeyFields Cache.Xml.
Local Open Scope N_scope.

Definition nd (s : str) : N := match N_of_dec s with Some z => z | None => 0 end.

Definition s_ (l : list N) : str := l.

Definition field_name (f : field) : str :=
  match f with
  | F_product => s_[112;114;111;100;117;99;116]
  | F_sev_warning => s_[119;97;114;110;105;110;103]
  | F_sev_style => s_[115;116;121;108;101]
  | F_sev_performance => s_[112;101;114;102;111;114;109;97;110;99;101]
  | F_sev_portability => s_[112;111;114;116;97;98;105;108;105;116;121]
  | F_sev_information => s_[105;110;102;111;114;109;97;116;105;111;110]
  | F_userDefines => s_[117;115;101;114;68;101;102;105;110;101;115]
  | F_checkConfiguration => s_[99;104;101;99;107;67;111;110;102;105;103;117;114;97;116;105;111;110]
  | F_force => s_[102;111;114;99;101]
  | F_maxConfigsOption => s_[109;97;120;67;111;110;102;105;103;115]
  | F_checkLevel => s_[99;104;101;99;107;76;101;118;101;108]
  | F_addonInfos => s_[97;100;100;111;110;73;110;102;111;115]
  | F_premiumArgs => s_[112;114;101;109;105;117;109;65;114;103;115]
  | F_suppressions => s_[115;117;112;112;114;101;115;115;105;111;110;115]
  | F_certainty_inconclusive => s_[105;110;99;111;110;99;108;117;115;105;118;101]
  | F_checks_unusedFunction => s_[117;110;117;115;101;100;70;117;110;99;116;105;111;110]
  | F_checks_missingInclude => s_[109;105;115;115;105;110;103;73;110;99;108;117;100;101]
  | F_userUndefs => s_[117;115;101;114;85;110;100;101;102;115]
  | F_includePaths => s_[105;110;99;108;117;100;101;80;97;116;104;115]
  | F_standards => s_[115;116;97;110;100;97;114;100;115]
  | F_enforcedLang => s_[101;110;102;111;114;99;101;100;76;97;110;103]
  | F_platform => s_[112;108;97;116;102;111;114;109]
  | F_libraries => s_[108;105;98;114;97;114;105;101;115]
  | F_filePath => s_[102;105;108;101;80;97;116;104]
  | F_getMaxConfigs => s_[103;101;116;77;97;120;67;111;110;102;105;103;115]
  end.

(* options from the renderings of all_fields, in that order *)
Fixpoint opts_of (fs : list field) (vals : list str) : options :=
  match fs, vals with
  | f :: fs', v :: vals' => flip_field f v (opts_of fs' vals')
  | _, _ => fun _ => []
  end.

Fixpoint take_toks (n : nat) (l : list str) : list tok * list str :=
  match n, l with
  | S n', s :: ln :: cl :: r => let (ts, r') := take_toks n' r in ((s, nd ln, nd cl) :: ts, r')
  | _, _ => ([], l)
  end.

Fixpoint take_hdrs (n : nat) (l : list str) : list (str * list tok) :=
  match n, l with
  | S n', hp :: cnt :: r => let (ts, r') := take_toks (N.to_nat (nd cnt)) r in (hp, ts) :: take_hdrs n' r'
  | _, _ => []
  end.

Definition tag_is (t : str) (name : list N) : bool := str_eqb t name.

Definition run (fields : list str) : list str :=
  match fields with
  | tag :: rest =>
      (* hashdata toolinfo path ntoks (s l c)* nhdrs (hpath ntoks (s l c)* )* *)
      if tag_is tag [104;97;115;104;100;97;116;97] then
        match rest with
        | ti :: p :: cnt :: r =>
            let (ts, r') := take_toks (N.to_nat (nd cnt)) r in
            match r' with
            | hc :: r'' => [hashdata loc_enc hdr_path_in_key ti (mkU p ts (take_hdrs (N.to_nat (nd hc)) r''))]
            | [] => [hashdata loc_enc hdr_path_in_key ti (mkU p ts [])]
            end
        | _ => [[63]]
        end
      (* toolinfo <renderings of all_fields> *)
      else if tag_is tag [116;111;111;108;105;110;102;111] then
        [toolinfo key_fields (opts_of all_fields rest)]
      (* filestxt files* *)
      else if tag_is tag [102;105;108;101;115;116;120;116] then [files_txt_text rest]
      (* lookup src files* *)
      else if tag_is tag [108;111;111;107;117;112] then
        match rest with src :: files => [lookup_af lookup_mode_ (files_txt files) src] | [] => [[63]] end
      (* lookupok files* *)
      else if tag_is tag [108;111;111;107;117;112;111;107] then [str_of_bool (lookup_okb lookup_mode_ rest)]
      (* missing : the C19 options that are not streamed into toolinfo *)
      else if tag_is tag [109;105;115;115;105;110;103] then
        map field_name (missing_fields key_fields (F_filePath :: c19_options))
      (* keyfields *)
      else if tag_is tag [107;101;121;102;105;101;108;100;115] then
        (match loc_enc with LocChar => s_[76;111;99;67;104;97;114] | LocDec => s_[76;111;99;68;101;99] end)
          :: str_of_bool hdr_path_in_key
          :: (match lookup_mode_ with SuffixFirst => s_[83;117;102;102;105;120;70;105;114;115;116] | ExactThenSuffix => s_[69;120;97;99;116;84;104;101;110;83;117;102;102;105;120] end)
          :: map field_name key_fields
      (* writer hash nitems items* : the bytes of a complete cache file *)
      else if tag_is tag [119;114;105;116;101;114] then
        match rest with k :: items => [writer k items] | [] => [[63]] end
      (* accept hash bytes : does the loader use this file for this hash *)
      else if tag_is tag [97;99;99;101;112;116] then
        match rest with
        | k :: b :: _ => [str_of_bool (accept k b)]
        | [k] => [str_of_bool (accept k [])]
        | [] => [[63]]
        end
      (* itemok bytes : is this what may stand between the header and the end tag *)
      else if tag_is tag [105;116;101;109;111;107] then
        match rest with b :: _ => [str_of_bool (item_ok b)] | [] => [str_of_bool (item_ok [])] end
      else [[63]]
  | [] => [[63]]
  end.
