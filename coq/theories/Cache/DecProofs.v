(* Decimal rendering is injective; the LocDec location record can be read back. *)
From CV Require Import Base.Bytes Cache.Defs Cache.Proofs.
Require Import Lia.
Local Open Scope N_scope.

Definition rd (a : N) (s : str) : N := fold_left (fun a c => a * 10 + (c - 48)) s a.

Lemma dec_digits_rd : forall fuel n acc, n < 2 ^ N.of_nat fuel ->
  exists k, forall a, rd a (dec_digits fuel n acc) = rd (a * 10 ^ k + n) acc.
Proof.
  induction fuel as [|f IH]; intros n acc Hn.
  - cbn in Hn. assert (n = 0) by lia. subst. exists 0. intros a. cbn [dec_digits]. f_equal. lia.
  - cbn [dec_digits].
    assert (Hm : n mod 10 < 10) by (apply N.mod_lt; discriminate).
    assert (Hd : n = 10 * (n / 10) + n mod 10) by (apply N.div_mod; discriminate).
    destruct (n / 10 =? 0) eqn:E.
    + apply N.eqb_eq in E. exists 1. intros a. unfold rd. cbn [fold_left].
      f_equal. rewrite E in Hd. rewrite N.pow_1_r. lia.
    + assert (Hq : n / 10 < 2 ^ N.of_nat f).
      { apply N.div_lt_upper_bound; [discriminate|].
        rewrite Nat2N.inj_succ, N.pow_succ_r' in Hn. set (P := 2 ^ N.of_nat f) in *. clearbody P.
        apply N.lt_le_trans with (2 * P); [exact Hn|]. apply N.mul_le_mono_r. discriminate. }
      destruct (IH (n / 10) ((48 + n mod 10) :: acc) Hq) as [k Hk].
      exists (k + 1). intros a. rewrite Hk. unfold rd. cbn [fold_left]. f_equal.
      rewrite N.pow_add_r, N.pow_1_r. rewrite N.mul_assoc. set (Q := a * 10 ^ k). clearbody Q. clear - Hd Hm. remember (n / 10) as d. remember (n mod 10) as m. clear Heqd Heqm. lia.
Qed.

Lemma rd_dec_of_N n : rd 0 (dec_of_N n) = n.
Proof.
  unfold dec_of_N.
  assert (Hn : n < 2 ^ N.of_nat (S (N.to_nat (N.size n)))).
  { rewrite Nat2N.inj_succ, N2Nat.id, N.pow_succ_r'. pose proof (N.size_gt n). set (P := 2 ^ N.size n) in *. clearbody P. lia. }
  destruct (dec_digits_rd _ n [] Hn) as [k Hk]. rewrite Hk. cbn. lia.
Qed.

Lemma dec_of_N_inj n m : dec_of_N n = dec_of_N m -> n = m.
Proof. intros E. rewrite <- (rd_dec_of_N n), <- (rd_dec_of_N m), E. reflexivity. Qed.

Lemma dec_digits_digits : forall fuel n acc,
  Forall (fun c => 48 <= c <= 57) acc -> Forall (fun c => 48 <= c <= 57) (dec_digits fuel n acc).
Proof.
  induction fuel as [|f IH]; intros n acc Hacc; cbn [dec_digits]; [assumption|].
  assert (Forall (fun c => 48 <= c <= 57) ((48 + n mod 10) :: acc)) as Hc.
  { constructor; [|assumption]. cbv beta. assert (n mod 10 < 10) as Hm by (apply N.mod_lt; discriminate). remember (n mod 10) as m. clear Heqm. lia. }
  destruct (n / 10 =? 0); auto.
Qed.

Lemma dec_of_N_digits n : Forall (fun c => 48 <= c <= 57) (dec_of_N n).
Proof. apply dec_digits_digits. constructor. Qed.

(* a separator that does not occur before it splits uniquely *)
Lemma split_at_sep (x : N) : forall a a' b b',
  Forall (fun c => c <> x) a -> Forall (fun c => c <> x) a' ->
  a ++ x :: b = a' ++ x :: b' -> a = a' /\ b = b'.
Proof.
  induction a as [|c a IH]; intros a' b b' Ha Ha' E.
  - destruct a' as [|c' a']; cbn in E.
    + inversion E. auto.
    + inversion E; subst c'. inversion Ha'; subst. congruence.
  - destruct a' as [|c' a']; cbn in E.
    + inversion E; subst c. inversion Ha; subst. congruence.
    + inversion E as [[Ec Et]]. subst c'. apply Forall_inv_tail in Ha. apply Forall_inv_tail in Ha'.
      destruct (IH a' b b' Ha Ha' Et) as [-> ->]. auto.
Qed.

Lemma digits_not (x : N) s : (x < 48 \/ 57 < x) -> Forall (fun c => 48 <= c <= 57) s -> Forall (fun c => c <> x) s.
Proof. intros Hx Hs. eapply Forall_impl; [|exact Hs]. cbv beta. intros c Hc. lia. Qed.

(* the location record, followed by anything, determines line, column and the rest *)
Lemma enc_loc_dec_inj l c r l' c' r' :
  enc_loc LocDec l c ++ r = enc_loc LocDec l' c' ++ r' -> l = l' /\ c = c' /\ r = r'.
Proof.
  unfold enc_loc. cbn [app]. intros E. inversion E as [E1]. clear E.
  rewrite <- !app_assoc in E1. cbn [app] in E1.
  apply split_at_sep in E1 as [El E2]; try (apply (digits_not 58); [lia|apply dec_of_N_digits]).
  rewrite <- !app_assoc in E2. cbn [app] in E2.
  apply split_at_sep in E2 as [Ec Er]; try (apply (digits_not 10); [lia|apply dec_of_N_digits]).
  split; [apply dec_of_N_inj; assumption|]. split; [apply dec_of_N_inj; assumption|assumption].
Qed.

Definition text (t : tok) : str := fst (fst t).

(* two token streams with the same texts and the same LocDec hash data are equal:
   no move of tokens (by any number of lines or columns) is invisible *)
Lemma enc_toks_dec_inj : forall ts ts' r r',
  map text ts = map text ts' ->
  enc_toks LocDec ts ++ r = enc_toks LocDec ts' ++ r' -> ts = ts' /\ r = r'.
Proof.
  unfold enc_toks. induction ts as [|[[s l] c] ts IH]; intros [|[[s' l'] c'] ts'] r r' Ht E; try discriminate.
  - cbn in E. auto.
  - cbn [map text fst] in Ht. inversion Ht as [[Hs Ht']]. subst s'.
    cbn [map concat enc_tok] in E. rewrite <- !app_assoc in E. apply app_inv_head in E.
    apply enc_loc_dec_inj in E as (-> & -> & E).
    destruct (IH ts' r r' Ht' E) as [-> ->]. auto.
Qed.

Lemma hashdata_dec_locations hp ti p ts ts' :
  map text ts = map text ts' ->
  hashdata LocDec hp ti (mkU p ts []) = hashdata LocDec hp ti (mkU p ts' []) -> ts = ts'.
Proof.
  unfold hashdata. cbn [u_toks u_hdrs map concat]. intros Ht E. apply app_inv_head in E.
  apply (enc_toks_dec_inj ts ts' [] [] Ht E).
Qed.

(* ---- files.txt: with the exact match first every listed file finds the line written for it *)
Lemma lookup_exact_own : forall ft, NoDup (map snd ft) ->
  forall af sf, In (af, sf) ft -> lookup_exact ft sf = Some af.
Proof.
  induction ft as [|[a s] ft IH]; intros ND af sf Hin; [destruct Hin|].
  cbn [map snd] in ND. inversion ND as [|? ? Nin ND']; subst.
  cbn [lookup_exact]. destruct (str_eqb s sf) eqn:E.
  - apply str_eqb_eq in E. subst s. destruct Hin as [Hh|Ht]; [inversion Hh; reflexivity|].
    exfalso. apply Nin. apply in_map_iff. exists (af, sf). auto.
  - destruct Hin as [Hh|Ht]; [inversion Hh; subst; assert (str_eqb sf sf = true) by (apply str_eqb_eq; reflexivity); congruence|].
    apply IH; assumption.
Qed.

Lemma files_txt_go_nonempty files : forall m, Forall (fun l => fst l <> []) (files_txt_go m files).
Proof.
  induction files as [|f r IH]; intros m; cbn [files_txt_go]; constructor; [|apply IH].
  cbn [fst]. unfold afile_name. intros E. apply app_eq_nil in E as [_ E]. discriminate.
Qed.

Lemma exact_lookup_own_line files :
  NoDup files ->
  map (lookup_af ExactThenSuffix (files_txt files)) files = map fst (files_txt files).
Proof.
  intros ND. unfold files_txt.
  assert (Hs : map snd (files_txt_go [] files) = files) by apply CV.Cache.Proofs.files_txt_go_snd.
  pose proof (files_txt_go_nonempty files []) as Hne.
  set (ft := files_txt_go [] files) in *.
  clearbody ft. rewrite <- Hs. rewrite <- Hs in ND. rewrite map_map.
  apply map_ext_in. intros [af sf] Hin. cbn [snd fst].
  unfold lookup_af, lookup_txt. rewrite (lookup_exact_own ft ND af sf Hin).
  rewrite Forall_forall in Hne. specialize (Hne _ Hin). cbn [fst] in Hne.
  destruct af; [congruence|reflexivity].
Qed.
