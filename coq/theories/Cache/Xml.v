(* C20: the bytes of a cache file and the loader's decision to use it.  No proofs here.

   writer  = AnalyzerInformation::analyzeFile (prolog, root start tag with the hash),
             reportErr / setFileInfo (one item each), close (root end tag, written last)
   accept  = tinyxml2::XMLDocument::LoadFile == XML_SUCCESS  &&  skipAnalysis(doc, hash) == ""
             restricted to what it needs to decide for files produced by `writer`:
             a scanner for tags, quoted attribute values, processing instructions
             and element depth.  That this scanner decides like tinyxml2 on every
             byte prefix of real cache files is the tested part of the trusted base. *)
From CV Require Import Base.Bytes.
Local Open Scope N_scope.

Definition c_lt := 60. Definition c_gt := 62. Definition c_sl := 47.
Definition c_qm := 63. Definition c_ex := 33. Definition c_dq := 34.

Inductive mode := Txt | Lt | Open | OpenSlash | Quote | Close | PI | PIq | Bad.

(* scanner state: lexical mode, open elements, "the root element has been closed" *)
Record sstate := mkS { s_mode : mode; s_depth : N; s_closed : bool }.

Definition is_ws (c : N) : bool := (c =? 32) || (c =? 10) || (c =? 13) || (c =? 9).

Definition step (s : sstate) (c : N) : sstate :=
  match s with
  | mkS m d cl =>
    match m with
    | Bad => s
    | Txt => if c =? c_lt then mkS Lt d cl
             else if (d =? 0) && negb (is_ws c) then mkS Bad d cl else s
    | Lt => if c =? c_sl then (if d =? 0 then mkS Bad d cl else mkS Close d cl)
            else if c =? c_qm then mkS PI d cl
            else if c =? c_ex then mkS Bad d cl
            else if (d =? 0) && cl then mkS Bad d cl
            else mkS Open d cl
    | Open => if c =? c_dq then mkS Quote d cl
              else if c =? c_sl then mkS OpenSlash d cl
              else if c =? c_gt then mkS Txt (d + 1) cl
              else if c =? c_lt then mkS Bad d cl
              else s
    | OpenSlash => if c =? c_gt then mkS Txt d (if d =? 0 then true else cl) else mkS Bad d cl
    | Quote => if c =? c_dq then mkS Open d cl else if c =? c_lt then mkS Bad d cl else s
    | Close => if c =? c_gt then mkS Txt (d - 1) (if d =? 1 then true else cl)
               else if c =? c_lt then mkS Bad d cl else s
    | PI => if c =? c_qm then mkS PIq d cl else s
    | PIq => if c =? c_gt then mkS Txt d cl else if c =? c_qm then s else mkS PI d cl
    end
  end.

Definition scan (s : sstate) (b : str) : sstate := fold_left step b s.

Definition s0 : sstate := mkS Txt 0 false.

(* a complete document: back in text mode, nothing open, the root was closed *)
Definition complete (s : sstate) : bool :=
  match s with mkS Txt 0 true => true | _ => false end.

Definition prolog : str := (* the xml declaration line *)
  [60;63;120;109;108;32;118;101;114;115;105;111;110;61;34;49;46;48;34;63;62;10].
Definition root_open_a : str := (* analyzerinfo start tag up to the opening quote of hash *)
  [60;97;110;97;108;121;122;101;114;105;110;102;111;32;104;97;115;104;61;34].
Definition root_open_b : str := [34;62;10].   (* closing quote, gt, newline *)
Definition root_close : str := (* </analyzerinfo>\n *)
  [60;47;97;110;97;108;121;122;101;114;105;110;102;111;62;10].

Definition header (k : str) : str := prolog ++ root_open_a ++ k ++ root_open_b.

(* everything a complete run writes into one cache file *)
Definition writer (k : str) (items : list str) : str := header k ++ concat items ++ root_close.

(* AnalyzerInformation::reopen + reportErr* + close: footer stripped, more items, footer *)
Definition reopened (k : str) (items more : list str) : str := writer k (items ++ more).

(* the loader uses the file for hash k *)
Definition accept (k : str) (b : str) : bool :=
  starts_with (header k) b && complete (scan s0 b).

(* an item as reportErr/setFileInfo write it: starting directly under the root it
   never closes the root and comes back to the same place *)
Fixpoint stays_inside (s : sstate) (b : str) : bool :=
  match b with
  | [] => true
  | c :: r => let s' := step s c in
              match s_mode s' with Bad => false | _ => (1 <=? s_depth s') && stays_inside s' r end
  end.

Definition s1 : sstate := mkS Txt 1 false.

Definition item_ok (it : str) : bool :=
  stays_inside s1 it &&
  match scan s1 it with mkS Txt 1 false => true | _ => false end.

Definition key_ok (k : str) : bool := forallb is_digit k.
