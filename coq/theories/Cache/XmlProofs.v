(* C20: every proper prefix of a complete cache file is rejected by the loader. *)
From CV Require Import Base.Bytes Cache.Xml.
Require Import Lia.
Local Open Scope N_scope.

Lemma scan_app s a b : scan s (a ++ b) = scan (scan s a) b.
Proof. unfold scan. apply fold_left_app. Qed.

Lemma starts_with_split a : forall b, starts_with a b = true -> exists r, b = a ++ r.
Proof.
  induction a as [|x a IH]; intros b E; [exists b; reflexivity|].
  destruct b as [|y b]; cbn [starts_with] in E; [discriminate|].
  apply andb_true_iff in E as [E1 E2]. apply N.eqb_eq in E1. subst y.
  destruct (IH _ E2) as [r ->]. exists r. reflexivity.
Qed.

Lemma starts_with_app a r : starts_with a (a ++ r) = true.
Proof. induction a as [|x a IH]; [reflexivity|]. cbn [app starts_with]. rewrite N.eqb_refl. exact IH. Qed.

(* ---- the header leaves the scanner directly under the root *)
Lemma scan_quote_digits k : forallb is_digit k = true -> scan (mkS Quote 0 false) k = mkS Quote 0 false.
Proof.
  induction k as [|c k IH]; intros Hk; [reflexivity|].
  cbn [forallb] in Hk. apply andb_true_iff in Hk as [Hc Hr].
  unfold scan in *. cbn [fold_left]. unfold is_digit in Hc. apply andb_true_iff in Hc as [H1 H2].
  apply N.leb_le in H1, H2.
  assert (step (mkS Quote 0 false) c = mkS Quote 0 false) as ->.
  { unfold step, c_dq, c_lt.
    destruct (c =? 34) eqn:E1; [apply N.eqb_eq in E1; lia|].
    destruct (c =? 60) eqn:E2; [apply N.eqb_eq in E2; lia|]. reflexivity. }
  apply IH. exact Hr.
Qed.

Lemma scan_header k : key_ok k = true -> scan s0 (header k) = s1.
Proof.
  intros Hk. unfold header. rewrite !scan_app.
  replace (scan s0 prolog) with (mkS Txt 0 false) by (vm_compute; reflexivity).
  replace (scan (mkS Txt 0 false) root_open_a) with (mkS Quote 0 false) by (vm_compute; reflexivity).
  rewrite (scan_quote_digits k Hk). vm_compute. reflexivity.
Qed.

(* ---- inside an item the scanner never gets above depth 1 *)
Lemma complete_depth s : complete s = true -> s_depth s = 0.
Proof. destruct s as [m d c]. cbn. destruct m; try discriminate. destruct d; [reflexivity|discriminate]. Qed.

Lemma stays_inside_prefix : forall b s q r,
  stays_inside s b = true -> 1 <= s_depth s -> b = q ++ r -> 1 <= s_depth (scan s q).
Proof.
  induction b as [|c b IH]; intros s q r Hs Hd E.
  - destruct q; [exact Hd|discriminate].
  - destruct q as [|c' q]; [exact Hd|].
    cbn [app] in E. inversion E; subst c' b. clear E.
    cbn [stays_inside] in Hs. unfold scan. cbn [fold_left]. fold (scan (step s c) q).
    destruct (s_mode (step s c)) eqn:Em; try discriminate;
      apply andb_true_iff in Hs as [H1 H2]; apply N.leb_le in H1; eapply IH; eauto.
Qed.

Lemma item_ok_scan it : item_ok it = true -> scan s1 it = s1.
Proof.
  unfold item_ok. intros E. apply andb_true_iff in E as [_ E].
  destruct (scan s1 it) as [m d c]. destruct m; try discriminate.
  destruct d as [|p]; [discriminate|]. destruct p; try discriminate. destruct c; [discriminate|]. reflexivity.
Qed.

Lemma item_ok_inside it : item_ok it = true -> stays_inside s1 it = true.
Proof. unfold item_ok. intros E. apply andb_true_iff in E as [E _]. exact E. Qed.

Lemma scan_items items : forallb item_ok items = true -> scan s1 (concat items) = s1.
Proof.
  induction items as [|it items IH]; intros E; [reflexivity|].
  cbn [forallb] in E. apply andb_true_iff in E as [E1 E2].
  cbn [concat]. rewrite scan_app, (item_ok_scan _ E1). auto.
Qed.

(* ---- the end tag: only its last two cut points are complete *)
Lemma firstn_skipn_of_app {A} (q r w : list A) : q ++ r = w -> q = firstn (length q) w /\ r = skipn (length q) w.
Proof.
  intros <-. split.
  - rewrite firstn_app, Nat.sub_diag, firstn_all. cbn. now rewrite app_nil_r.
  - rewrite skipn_app, Nat.sub_diag, skipn_all. reflexivity.
Qed.

Definition close_cut_ok (n : nat) : bool :=
  negb (complete (scan s1 (firstn n root_close))) || (Nat.leb 15 n).

Lemma close_cuts : forallb close_cut_ok (seq 0 17) = true.
Proof. vm_compute. reflexivity. Qed.

Lemma close_prefix q r :
  q ++ r = root_close -> complete (scan s1 q) = true -> r = [] \/ r = [10].
Proof.
  intros E Hc. destruct (firstn_skipn_of_app _ _ _ E) as [Eq Er].
  assert (length q <= 16)%nat as Hl.
  { apply (f_equal (@length N)) in E. rewrite app_length in E. cbn in E. lia. }
  pose proof close_cuts as HC. rewrite forallb_forall in HC.
  specialize (HC (length q)). assert (In (length q) (seq 0 17)) as Hin by (apply in_seq; lia).
  specialize (HC Hin). unfold close_cut_ok in HC. rewrite <- Eq, Hc in HC. cbn [negb orb] in HC.
  apply Nat.leb_le in HC.
  assert (length q = 15 \/ length q = 16)%nat as [L|L] by lia; rewrite L in Er; subst r; [right|left]; reflexivity.
Qed.

Lemma body_prefix : forall items q r,
  forallb item_ok items = true ->
  q ++ r = concat items ++ root_close -> complete (scan s1 q) = true -> r = [] \/ r = [10].
Proof.
  induction items as [|it items IH]; intros q r Hi E Hc.
  - cbn [concat app] in E. eapply close_prefix; eauto.
  - cbn [forallb] in Hi. apply andb_true_iff in Hi as [Hit Hr].
    cbn [concat] in E. rewrite <- app_assoc in E.
    apply app_eq_app in E as [l [[E1 E2]|[E1 E2]]].
    + (* q = it ++ l *)
      subst q. rewrite scan_app, (item_ok_scan _ Hit) in Hc. eapply IH; eauto.
    + (* it = q ++ l: the cut is inside the item *)
      pose proof (stays_inside_prefix it s1 q l (item_ok_inside _ Hit)) as Hd.
      assert (1 <= s_depth (scan s1 q)) as Hd' by (apply Hd; [cbn; lia | exact E1]).
      rewrite (complete_depth _ Hc) in Hd'. lia.
Qed.

Definition prefix_of (p w : str) : Prop := exists r, w = p ++ r.

(* C20: a cut anywhere in a complete cache file, except after its last byte or just
   before its final newline, gives a file the loader does not use - for any hash *)
Theorem proper_prefix_rejected k items p :
  key_ok k = true -> forallb item_ok items = true ->
  prefix_of p (writer k items) -> p <> writer k items -> p ++ [10] <> writer k items ->
  accept k p = false.
Proof.
  intros Hk Hi [r Hp] N1 N2.
  destruct (accept k p) eqn:A; [exfalso|reflexivity].
  unfold accept in A. apply andb_true_iff in A as [A1 A2].
  destruct (starts_with_split _ _ A1) as [q ->].
  rewrite scan_app, (scan_header k Hk) in A2.
  unfold writer in Hp. rewrite <- (app_assoc (header k) q r) in Hp. apply app_inv_head in Hp.
  symmetry in Hp.
  destruct (body_prefix items q r Hi Hp A2) as [-> | ->].
  - apply N1. unfold writer. rewrite <- Hp. now rewrite app_nil_r.
  - apply N2. unfold writer. rewrite <- Hp. now rewrite <- app_assoc.
Qed.

(* for another hash the file is rejected whatever its length (skipAnalysis: hash mismatch) *)
Lemma header_key_inj k k' r r' :
  key_ok k = true -> key_ok k' = true -> header k ++ r = header k' ++ r' -> k = k'.
Proof.
  unfold header. rewrite <- !app_assoc. intros Hk Hk' E.
  apply app_inv_head in E. apply app_inv_head in E.
  revert k' Hk' E. induction k as [|c k IH]; intros k' Hk' E.
  - destruct k' as [|c' k']; [reflexivity|]. cbn in E. inversion E; subst c'.
    cbn in Hk'. discriminate.
  - destruct k' as [|c' k']; cbn in E.
    + inversion E; subst c. cbn in Hk. discriminate.
    + inversion E; subst c'. f_equal. cbn [key_ok forallb] in Hk, Hk'.
      apply andb_true_iff in Hk as [_ Hk]. apply andb_true_iff in Hk' as [_ Hk']. eapply IH; eauto.
Qed.

Theorem other_hash_rejected k k' items p :
  key_ok k = true -> key_ok k' = true -> k <> k' ->
  prefix_of p (writer k items) -> accept k' p = false.
Proof.
  intros Hk Hk' Nk [r Hp].
  destruct (accept k' p) eqn:A; [exfalso|reflexivity].
  unfold accept in A. apply andb_true_iff in A as [A1 _].
  destruct (starts_with_split _ _ A1) as [q ->].
  unfold writer in Hp. rewrite <- (app_assoc (header k') q r) in Hp.
  apply Nk. eapply header_key_inj; eauto.
Qed.

(* the complete file is used (the premises are satisfiable and accept is not constantly false) *)
Theorem complete_file_accepted k items :
  key_ok k = true -> forallb item_ok items = true -> accept k (writer k items) = true.
Proof.
  intros Hk Hi. unfold accept, writer. rewrite starts_with_app. cbn [andb].
  rewrite !scan_app, (scan_header k Hk), (scan_items _ Hi). vm_compute. reflexivity.
Qed.

(* reopen (unmatchedSuppression): the rewritten file is again a writer output *)
Theorem reopen_prefix_rejected k items more p :
  key_ok k = true -> forallb item_ok (items ++ more) = true ->
  prefix_of p (reopened k items more) -> p <> reopened k items more -> p ++ [10] <> reopened k items more ->
  accept k p = false.
Proof. unfold reopened. apply proper_prefix_rejected. Qed.
