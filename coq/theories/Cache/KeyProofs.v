(* Facts about the key exactly as the current source composes it
   (Gen_KeyFields.v is regenerated from lib/cppcheck.cpp and lib/preprocessor.cpp). *)
From CV Require Import Base.Bytes Cache.Defs Cache.Proofs Cache.Gen_KeyFields.
Require Import Lia.
Local Open Scope N_scope.

(* the key data of the code: toolinfo of the streamed members (the file path is
   the unit's own path), then the tokens *)
Definition code_keydata (o : options) (u : ustate) : str :=
  hashdata loc_enc hdr_path_in_key (toolinfo key_fields (flip_field F_filePath (u_path u) o)) u.

(* what holds about locations, for either way the source may encode them *)
Definition loc_status (e : locenc) : Prop :=
  match e with
  | LocChar => forall hp ti p ts,
      hashdata LocChar hp ti (mkU p (map (shift_tok 256) ts) []) = hashdata LocChar hp ti (mkU p ts []) /\
      hashdata LocChar hp ti (mkU p (map (shift_cols 256) ts) []) = hashdata LocChar hp ti (mkU p ts [])
  | LocDec => forall l c l' c', enc_loc LocDec l c = enc_loc LocDec l' c' -> length (dec_of_N l ++ dec_of_N c) = length (dec_of_N l' ++ dec_of_N c')
  end.

Lemma loc_status_all e : loc_status e.
Proof.
  destruct e; cbn [loc_status].
  - intros hp ti p ts. split; [apply hashdata_char_shift256|].
    unfold hashdata. cbn [u_toks u_hdrs]. now rewrite enc_toks_char_shiftcol256.
  - intros l c l' c' E. unfold enc_loc in E. apply (f_equal (@length N)) in E.
    cbn [length] in E. rewrite !app_length in *. cbn [length] in E. rewrite !app_length in E. cbn [length] in E. lia.
Qed.

(* the source path: invisible while toolinfo does not carry it *)
Lemma code_keydata_path_blind o p q ts hs :
  mem_field F_filePath key_fields = false ->
  code_keydata o (mkU p ts hs) = code_keydata o (mkU q ts hs).
Proof.
  intros Hm. unfold code_keydata. cbn [u_path].
  rewrite !(omitted_field_invisible _ _ _ _ Hm). reflexivity.
Qed.

(* an option that is not streamed: invisible *)
Lemma code_keydata_option_blind f v o u :
  mem_field f key_fields = false -> f <> F_filePath ->
  code_keydata (flip_field f v o) u = code_keydata o u.
Proof.
  intros Hm Nf. unfold code_keydata. f_equal.
  unfold toolinfo. f_equal. apply map_ext_in. intros g Hg.
  unfold flip_field.
  destruct (field_eqb g F_filePath) eqn:E1; [reflexivity|].
  destruct (field_eqb g f) eqn:E2; [|reflexivity].
  apply field_eqb_eq in E2. subst g. apply mem_field_In in Hg. congruence.
Qed.
