(* Facts about the key exactly as the current source composes it
   (Gen_KeyFields.v is regenerated from lib/cppcheck.cpp and lib/preprocessor.cpp). *)
From CV Require Import Base.Bytes Cache.Defs Cache.Proofs Cache.DecProofs Cache.Gen_KeyFields.
Require Import Lia.
Local Open Scope N_scope.

(* the key data of the code: toolinfo of the streamed members (the file path is
   the unit's own path), then the tokens *)
Definition code_keydata (o : options) (u : ustate) : str :=
  hashdata loc_enc hdr_path_in_key (toolinfo key_fields (flip_field F_filePath (u_path u) o)) u.

(* what holds about locations, for either way the source may encode them *)
Definition loc_status (e : locenc) : Prop :=
  match e with
  | LocChar => forall hp ti p ts,
      hashdata LocChar hp ti (mkU p (map (shift_tok 256) ts) []) = hashdata LocChar hp ti (mkU p ts []) /\
      hashdata LocChar hp ti (mkU p (map (shift_cols 256) ts) []) = hashdata LocChar hp ti (mkU p ts [])
  | LocDec => forall hp ti p ts ts', map text ts = map text ts' ->
      hashdata LocDec hp ti (mkU p ts []) = hashdata LocDec hp ti (mkU p ts' []) -> ts = ts'
  end.

Lemma loc_status_all e : loc_status e.
Proof.
  destruct e; cbn [loc_status].
  - intros hp ti p ts. split; [apply hashdata_char_shift256|].
    unfold hashdata. cbn [u_toks u_hdrs]. now rewrite enc_toks_char_shiftcol256.
  - intros hp ti p ts ts'. apply hashdata_dec_locations.
Qed.

(* the source path: invisible while toolinfo does not carry it *)
Lemma code_keydata_path_blind o p q ts hs :
  mem_field F_filePath key_fields = false ->
  code_keydata o (mkU p ts hs) = code_keydata o (mkU q ts hs).
Proof.
  intros Hm. unfold code_keydata. cbn [u_path].
  rewrite !(omitted_field_invisible _ _ _ _ Hm). reflexivity.
Qed.

(* an option that is not streamed: invisible *)
Lemma code_keydata_option_blind f v o u :
  mem_field f key_fields = false -> f <> F_filePath ->
  code_keydata (flip_field f v o) u = code_keydata o u.
Proof.
  intros Hm Nf. unfold code_keydata. f_equal.
  unfold toolinfo. f_equal. apply map_ext_in. intros g Hg.
  unfold flip_field.
  destruct (field_eqb g F_filePath) eqn:E1; [reflexivity|].
  destruct (field_eqb g f) eqn:E2; [|reflexivity].
  apply field_eqb_eq in E2. subst g. apply mem_field_In in Hg. congruence.
Qed.

(* ---- C19: which of the listed options reach the key *)
Lemma key_covers_false_witness kf want :
  key_covers kf want = false -> exists f, In f want /\ mem_field f kf = false.
Proof.
  unfold key_covers. induction want as [|f r IH]; cbn [forallb]; [discriminate|].
  destruct (mem_field f kf) eqn:E; cbn [andb].
  - intros Hr. destruct (IH Hr) as (g & Hg & Hm). exists g. split; [now right|assumption].
  - intros _. exists f. split; [now left|assumption].
Qed.

Lemma c19_no_filePath : ~ In F_filePath c19_options.
Proof. cbn. intuition discriminate. Qed.

(* for the key of the current source: either every option of the list is
   streamed into toolinfo, or some listed option can be changed arbitrarily
   without changing the key data of any unit *)
Definition coverage_status (kf : list field) : Prop :=
  if key_covers kf c19_options
  then missing_fields kf c19_options = []
  else exists f, In f c19_options /\ mem_field f kf = false.

Lemma coverage_status_all kf : coverage_status kf.
Proof.
  unfold coverage_status. destruct (key_covers kf c19_options) eqn:E.
  - apply key_covers_no_missing. exact E.
  - apply key_covers_false_witness. exact E.
Qed.

Lemma missing_option_invisible f v o u :
  In f (missing_fields key_fields c19_options) ->
  code_keydata (flip_field f v o) u = code_keydata o u.
Proof.
  intros Hin. apply missing_fields_spec in Hin as [Hw Hm].
  apply code_keydata_option_blind; [exact Hm|]. intros ->. exact (c19_no_filePath Hw).
Qed.

(* ---- paths reach the key (fix 0208336): positive counterparts of the blindness lemmas,
   for the regenerated key_fields / hdr_path_in_key *)
Lemma code_keydata_path_visible o p q ts hs :
  code_keydata o (mkU p ts hs) = code_keydata o (mkU q ts hs) -> p = q.
Proof.
  unfold code_keydata, hashdata, toolinfo. cbn [u_path u_toks u_hdrs key_fields map concat].
  unfold flip_field. cbn [field_eqb]. intros E.
  rewrite <- !app_assoc in E. repeat (apply app_inv_head in E). apply app_inv_tail in E. exact E.
Qed.

Lemma hashdata_hdrpath_visible e ti p ts hp hq hts hs :
  hashdata e true ti (mkU p ts ((hp, hts) :: hs)) = hashdata e true ti (mkU p ts ((hq, hts) :: hs)) -> hp = hq.
Proof.
  unfold hashdata. cbn [u_toks u_hdrs map concat fst snd]. intros E.
  apply app_inv_head in E. apply app_inv_head in E.
  rewrite <- !app_assoc in E. apply app_inv_tail in E. exact E.
Qed.
