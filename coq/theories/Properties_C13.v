(* C13  Any input is handled without crash, memory error or hang -- the part that is logic.

   Nothing here is about the C++ runtime (memory safety of the compiled code, wall-clock
   time): those the model cannot exhibit.  What is proved is the bookkeeping that the rest
   of the analyzer relies on to stay memory-safe after the front end, and the exception
   funnel that turns a problem with the input into a finding:

   - Tokenizer::createLinks (four std::stack objects) never calls top() on an empty stack,
     is the one-stack algorithm, accepts exactly the well-bracketed token sequences, links
     every bracket token of an accepted sequence exactly once with a partner of its own kind
     (tok->link() is then non-null for every bracket, which every later pass dereferences
     unchecked), and otherwise throws unmatchedToken for a token of the list;
   - Tokenizer::validate, run between the simplification passes, accepts only lists whose
     link structure is intact (for tokens carrying arbitrary links);
   - the #if constant folder (simplecpp) reaches no undefined behaviour in its own long long
     arithmetic for * / % + - (refuted, with witnesses replayed on a sanitizer build, for << >>);
   - in CppCheck::checkInternal and CppCheck::checkClang (handler lists regenerated from
     lib/cppcheck.cpp on every run) each documented exception class ends in the promised
     finding, none escapes to std::terminate. *)
From CV Require Import Robust.Validate Robust.ValidateProofs Robust.Compose.
From CV Require Import Robust.PPArith Robust.PPArithProofs.
From CV Require Import Robust.Links Robust.LinksProofs Robust.Funnel Robust.FunnelProofs Robust.Gen_Funnel.

Theorem C13_create_links_never_tops_an_empty_stack :
  forall toks, create_links toks <> UB.
Proof. exact create_links_not_ub. Qed.
Print Assumptions C13_create_links_never_tops_an_empty_stack.

Theorem C13_create_links_is_the_stack_algorithm :
  forall toks, create_links toks = simple_links toks.
Proof. exact create_links_simple. Qed.
Print Assumptions C13_create_links_is_the_stack_algorithm.

Theorem C13_create_links_accepts_exactly_the_well_bracketed :
  forall toks, (exists L, create_links toks = Ok L) <-> bal toks.
Proof. exact create_links_ok_iff_bal. Qed.
Print Assumptions C13_create_links_accepts_exactly_the_well_bracketed.

(* an accepted list: every link joins an opening token to a later closing token of the same
   kind, every bracket token is linked, and no token takes part in two links *)
Theorem C13_accepted_means_every_bracket_linked_once :
  forall toks L, create_links toks = Ok L ->
    (forall o c, In (o, c) L -> o < c /\ c < length toks /\
       exists b, nth_error toks o = Some (TOpen b) /\ nth_error toks c = Some (TClose b)) /\
    (forall k t, nth_error toks k = Some t -> is_bracket t = true ->
       In k (map fst L) \/ In k (map snd L)) /\
    NoDup (map fst L ++ map snd L).
Proof. exact create_links_links. Qed.
Print Assumptions C13_accepted_means_every_bracket_linked_once.

(* a rejected list: the InternalError names a token of the list (unmatchedToken reads tok->str()) *)
Theorem C13_rejected_means_syntax_error_at_a_token :
  forall toks, ~ bal toks -> exists k, create_links toks = Unmatched k /\ k < length toks.
Proof. exact create_links_rejects. Qed.
Print Assumptions C13_rejected_means_syntax_error_at_a_token.

(* the premises are satisfiable and the outcomes non-trivial *)
Example C13_links_example :
  create_links [TOpen Brace; TOther; TOpen Paren; TOpen Brack; TClose Brack; TClose Paren; TClose Brace]
    = Ok [(0, 6); (2, 5); (3, 4)] /\
  create_links [TOpen Paren; TOpen Brace; TClose Paren] = Unmatched 1 /\
  create_links [TOpen Paren; TClose Brack] = Unmatched 1 /\
  create_links [TOpen Brack; TOpen Brace] = Unmatched 1.
Proof. vm_compute. repeat split. Qed.

(* Tokenizer::validate over tokens that carry ANY link (an index or none): a list it accepts has
   an intact link structure -- every opening token is linked to a later closing token that links
   back, every closing token to an earlier opening token that links back, nothing else carries a
   link -- whatever the passes before it did to the list *)
Theorem C13_validate_accepts_only_intact_links :
  forall all, validate all = VOk -> intact all.
Proof. exact validate_sound. Qed.
Print Assumptions C13_validate_accepts_only_intact_links.

Theorem C13_validate_rejects_at_a_token :
  forall all k, validate all = VErr k -> k < length all.
Proof. exact validate_err_range. Qed.
Print Assumptions C13_validate_rejects_at_a_token.

(* the two fit together: a list createLinks accepts, carrying the links it made, passes validate *)
Theorem C13_created_links_pass_validate :
  forall toks L, create_links toks = Ok L -> validate (attach toks L) = VOk.
Proof. exact create_links_then_validate. Qed.
Print Assumptions C13_created_links_pass_validate.

Example C13_validate_example :
  validate [(VOpen, Some 3); (VOpen, Some 2); (VClose, Some 1); (VClose, Some 0); (VLt, None); (VOther, None)] = VOk /\
  validate [(VOpen, Some 2); (VOpen, Some 3); (VClose, Some 0); (VClose, Some 1)] = VErr 2 /\
  validate [(VOpen, Some 1); (VClose, None)] = VErr 1 /\
  validate [(VOther, Some 0)] = VErr 0.
Proof. vm_compute. repeat split. Qed.

(* the #if constant folder's own arithmetic on long long: for * / % + - no operand pair reaches
   undefined behaviour (zero divisor and LLONG_MIN with -1 are thrown as std::overflow_error, which
   ends as a finding; products, sums and differences are computed modulo 2^64), a value it yields is
   a long long, and where the built-in operator is defined the folder computes exactly it *)
Theorem C13_if_folder_guarded_arithmetic_has_no_ub :
  forall o a b, guarded o = true -> in_ll a = true -> in_ll b = true ->
    fold o a b <> AUB /\ (forall r, fold o a b = AVal r -> in_ll r = true).
Proof. exact fold_guarded_no_ub. Qed.
Print Assumptions C13_if_folder_guarded_arithmetic_has_no_ub.

Theorem C13_if_folder_computes_the_builtin_operator :
  forall o a b r, guarded o = true -> cxx o a b = AVal r -> fold o a b = AVal r.
Proof. exact fold_agrees_with_cxx. Qed.
Print Assumptions C13_if_folder_computes_the_builtin_operator.

(* both division guards are needed *)
Theorem C13_if_folder_division_guards_needed :
  cxx ADiv 1 0 = AUB /\ cxx ARem 1 0 = AUB /\ cxx ADiv MINLL (-1) = AUB /\ cxx ARem MINLL (-1) = AUB.
Proof. exact div_guards_needed. Qed.

(* the shifts have no guard: the full statement (no UB for every operator) is false of the code *)
Theorem C13_if_folder_shift_refuted :
  in_ll 1 = true /\ in_ll 64 = true /\ fold AShl 1 64 = AUB /\ fold AShl (-1) 1 = AUB /\ fold AShr 1 70 = AUB.
Proof. exact shift_ub_witness. Qed.

(* the exception funnel, on the handler lists read from the source *)
Theorem C13_documented_exceptions_end_as_findings :
  forall c, documented c = true ->
    (forall hs, In hs config_handlers ->
       nested terminate_base internal_base [hs; file_handlers] c = Handled (promised c)) /\
    nested terminate_base internal_base [file_handlers] c = Handled (promised c) /\
    nested terminate_base internal_base [clang_handlers] c = Handled (promised c).
Proof. exact funnel_documented. Qed.
Print Assumptions C13_documented_exceptions_end_as_findings.

(* the dispatch function is [except.handle]'s rule: the first handler, in order, that matches;
   an exception escapes exactly when no handler matches *)
Theorem C13_dispatch_is_first_match :
  forall tb ib hs c a,
    dispatch tb ib hs c = Handled a <->
    exists pre h post, hs = pre ++ (h, a) :: post /\ matches tb ib h c = true /\
                       forall h' a', In (h', a') pre -> matches tb ib h' c = false.
Proof. exact dispatch_first_match. Qed.
Print Assumptions C13_dispatch_is_first_match.

Theorem C13_escape_iff_no_handler_matches :
  forall tb ib hs c,
    dispatch tb ib hs c = Escapes <-> forall h a, In (h, a) hs -> matches tb ib h c = false.
Proof. exact dispatch_escapes. Qed.
Print Assumptions C13_escape_iff_no_handler_matches.
