(* Concrete instances of the model in which a file's findings depend on the file
   analysed before it.  Both are replayed on the real binary by tools/props/c17.py. *)
From CV Require Import Base.Bytes Base.Glob Supp.Defs Supp.ExecDefs Supp.Run Iso.Defs.
Local Open Scope N_scope.

Definition A_C : str := [97;46;99].      (* "a.c" *)
Definition B_C : str := [98;46;99].      (* "b.c" *)
Definition H_H : str := [104;46;104].    (* "h.h" *)
Definition DIV : str := [68;73;86].      (* "DIV" *)
Definition ZERODIV : str := [122;101;114;111;100;105;118].
Definition TXT_A : str := [116;97].
Definition TXT_B : str := [116;98].
Definition TXT_H : str := [116;104].

(* 1. a.c:  // cppcheck-suppress-macro zerodiv
            #define DIV(x) (1/(x))   ... DIV(z) at line 5
      b.c:  its own #define DIV, DIV(z) at line 4, no suppression *)
Definition macro_supp : supp :=
  mkSupp ZERODIV A_C 2 NO_LINE NO_LINE TMacro [] DIV 0 false true false false.
Definition wa : fileA :=
  mkFA A_C Full [] [] [macro_supp] [] [(Some [((A_C, 5%Z), [DIV])], [mkRaw 0 ZERODIV A_C 5 [] true TXT_A])].
Definition wb : fileA :=
  mkFA B_C Full [] [] [] [] [(Some [((B_C, 4%Z), [DIV])], [mkRaw 0 ZERODIV B_C 4 [] true TXT_B])].

Lemma macro_suppression_leaks :
  exists S1 o1 S2 o2 Sa oa,
    check_file pm_plain true (fresh_state [] []) wa = Some (S1, o1)
    /\ check_file pm_plain true S1 wb = Some (S2, o2)
    /\ check_file pm_plain true (fresh_state [] []) wb = Some (Sa, oa)
    /\ map o_fwd oa = [true] /\ map o_fwd o2 = [false]
    /\ (forall w, In w (raws_of wb) -> w_file w = B_C)
    /\ (forall s, In s (inline_of wa) -> s_file s = A_C)
    /\ A_C <> B_C.
Proof.
  vm_compute. do 6 eexists. repeat split; try reflexivity.
  - intros w [<-|[]]. reflexivity.
  - intros s [<-|[]]. reflexivity.
  - discriminate.
Qed.

(* 2. a.c and b.c include h.h, which has a finding; a.c is up to date in the build
      directory (its cached finding is replayed, checkInternal returns before the final
      mLogger->clear(), the text stays in the list), b.c is analysed: since fix 8cb695c the
      list is emptied at the start of b.c, its copy of the finding is recorded *)
Definition ca : fileA := mkFA A_C Cached [] [] [] [mkRaw 0 ZERODIV H_H 1 [] true TXT_H] [].
Definition cb : fileA := mkFA B_C Full [] [] [] [] [(Some [], [mkRaw 0 ZERODIV H_H 1 [] true TXT_H])].

Lemma cached_return_isolated :
  exists S1 o1 S2 o2 Sa oa,
    check_file pm_plain true (fresh_state [] []) ca = Some (S1, o1)
    /\ check_file pm_plain true S1 cb = Some (S2, o2)
    /\ check_file pm_plain true (fresh_state [] []) cb = Some (Sa, oa)
    /\ l_seen (i_log S1) = [TXT_H]
    /\ map o_rec oa = [true] /\ map o_rec o2 = [true] /\ o2 = oa.
Proof. vm_compute. do 6 eexists. repeat split; reflexivity. Qed.

(* hypotheses of the isolation theorem are satisfiable by non-trivial files *)
Definition ga : fileA :=
  mkFA A_C Full [] [((A_C, 3%Z), TXT_A)]
       [mkSupp ZERODIV A_C 5 NO_LINE NO_LINE TUnique [] [] 0 false true false false] []
       [(Some [((A_C, 5%Z), [DIV])], [mkRaw 0 ZERODIV A_C 5 [] true TXT_A])].
