(* The reset points and exits of CppCheck::check / checkInternal that Iso/Defs.v was
   written against, in source order.  Gen_Resets.v is regenerated from lib/cppcheck.cpp
   on every run; the obligation below is equality of the two sequences. *)
From CV Require Import Iso.Gen_Resets.
Require Import List. Import ListNotations.

(* check(file): the dummy suppression query, then checkFile/checkClang *)
Definition modelled_check : list point := [P_nomsg_isSuppressed; P_ret].

Definition modelled_checkInternal : list point :=
  [ P_resetExitCode;                 (* R1: check_file, st0 *)
    P_clear;                         (*     duplicate list emptied at the start (fix 8cb695c): st0 *)
    P_ret;                           (*     Settings::terminated(): not modelled (no findings) *)
    P_closePlist;                    (*     plist output file: not a finding state *)
    P_ret;                           (* Markup *)
    P_ret; P_ret;                    (* Early: reportOutput / loadFiles *)
    P_setRemarkComments;             (* R2 *)
    P_inlineSuppressions;            (*     add_all nomsg (a_inline f) *)
    P_nomsg_dump;                    (*     read only (dump prolog) *)
    P_ret;                           (* Cached: analyzer info up to date *)
    P_ret;                           (* Cached: --check-config *)
    P_setLocationMacros;             (* R3: per configuration *)
    P_nomsg_markUnmatchedInlineSuppressionsAsChecked;   (* flags only (C24) *)
    P_ret;                           (* TerminateException: run is aborted *)
    P_clear;                         (* R4 (redundant for the next file since 8cb695c) *)
    P_ret ].

(* check(FileSettings): a fresh local copy, then the writes of Iso/Fs.v apply_onto *)
Definition modelled_fs : list fspoint :=
  [ F_copy_local;                    (* Settings tempSettings = mSettings;  -> apply_onto base *)
    F_w_userDefines; F_w_userDefines; F_w_userDefines;    (* ';' separator, fs.defines / fs.cppcheckDefines() *)
    F_w_includePaths;
    F_w_userUndefs;
    F_w_standards; F_w_standards;    (* setCPP / setC, only when the entry names a standard *)
    F_w_platform;                    (* only when the entry names a platform *)
    F_w_includePaths ].              (* clang import: system include paths appended *)

Lemma fs_points_as_modelled : fs_points = modelled_fs.
Proof. reflexivity. Qed.

Lemma reset_points_as_modelled :
  check_points = modelled_check /\ checkInternal_points = modelled_checkInternal.
Proof. split; reflexivity. Qed.
