(* C17 proofs: what a file's findings depend on, and when that is nothing left by
   earlier files.  Unbounded in the number of files, findings, suppressions. *)
From CV Require Import Base.Bytes Base.Glob Supp.Defs Supp.Proofs Supp.ListProofs Supp.ExecDefs Supp.ExecProofs Iso.Defs.
Require Import Lia.
Local Open Scope N_scope.

Lemma existsb_false_all {A} (p : A -> bool) l : (forall x, In x l -> p x = false) -> existsb p l = false.
Proof. induction l as [|a l IH]; intros H; cbn; [reflexivity|]. rewrite (H a (or_introl eq_refl)), IH; auto. intros; apply H; right; assumption. Qed.

Lemma mem_str_app x a b : mem_str x (a ++ b) = mem_str x a || mem_str x b.
Proof. unfold mem_str. apply existsb_app. Qed.

Lemma lookup_no_key {A} k (l : list (loc * A)) : has_key k l = false -> lookup_loc k l = None.
Proof.
  induction l as [|[k' v] l IH]; cbn; [reflexivity|]. intros H. apply orb_false_iff in H. destruct H as [H1 H2].
  cbn in H1. rewrite H1. auto.
Qed.

Section IsoProofs.
  Variable pm : str -> str -> bool.
  Variable ug : bool.

  Notation hid := (hides pm ug).

  (* ---------- the pure reading of the logger on a list of findings ---------- *)
  Fixpoint spec_outs (m : locmap) (r : list remark) (n : list supp) (seen : list str) (ws : list raw) : list out :=
    match ws with
    | [] => []
    | w :: ws' =>
        let fr := fresh seen w in
        let fwd := fr && negb (existsb (hid (emsg_of m w)) n) in
        mkO fr fwd (if fwd then remark_at r w else [])
            :: spec_outs m r n (if fr then w_text w :: seen else seen) ws'
    end.

  Fixpoint spec_seen (seen : list str) (ws : list raw) : list str :=
    match ws with
    | [] => seen
    | w :: ws' => spec_seen (if fresh seen w then w_text w :: seen else seen) ws'
    end.

  Lemma spec_outs_static m r n n' seen ws :
    map static n' = map static n -> spec_outs m r n' seen ws = spec_outs m r n seen ws.
  Proof.
    intros H. revert seen. induction ws as [|w ws IH]; intros seen; cbn [spec_outs]; [reflexivity|].
    rewrite (existsb_hides_static pm _ _ _ _ H), IH. reflexivity.
  Qed.

  Lemma msgs_run_spec m r ws : forall st st' os,
    msgs_run pm ug m r st ws = Some (st', os) ->
    os = spec_outs m r (l_nomsg st) (l_seen st) ws
    /\ l_seen st' = spec_seen (l_seen st) ws
    /\ map static (l_nomsg st') = map static (l_nomsg st)
    /\ l_nofail st' = l_nofail st' /\ True.
  Proof.
    induction ws as [|w ws IH]; intros st st' os H; cbn [msgs_run] in H.
    - injection H as <- <-. cbn. auto.
    - unfold msg_step in H.
      destruct (logger_step pm ug st (emsg_of m w, w_text w)) as [[st1 b]|] eqn:Hs; [|discriminate].
      destruct (msgs_run pm ug m r st1 ws) as [[st2 bs]|] eqn:Hr; [|discriminate].
      injection H as <- <-.
      apply logger_step_spec in Hs. cbv zeta in Hs. destruct Hs as (Hb & Hn & _ & Hseen & _).
      apply IH in Hr. destruct Hr as (-> & Hseen2 & Hn2 & _).
      cbn [spec_outs spec_seen]. unfold fresh at 1 2 3 4.
      rewrite Hseen2, Hseen, (spec_outs_static _ _ _ _ _ _ Hn), Hn2, Hn.
      change (negb (is_nil (w_text w)) && negb (mem_str (w_text w) (l_seen st))) with (fresh (l_seen st) w) in *.
      rewrite <- Hb. auto.
  Qed.

  (* two starting points that differ only in things this list of findings does not look at *)
  Lemma spec_sim m m0 r r0 n n0 X ws : forall seen0,
    (forall w, In w ws -> macros_at m w = macros_at m0 w) ->
    (forall w, In w ws -> remark_at r w = remark_at r0 w) ->
    (forall w, In w ws -> existsb (hid (emsg_of m0 w)) n = existsb (hid (emsg_of m0 w)) n0) ->
    (forall w, In w ws -> mem_str (w_text w) X = false) ->
    spec_outs m r n (seen0 ++ X) ws = spec_outs m0 r0 n0 seen0 ws
    /\ spec_seen (seen0 ++ X) ws = spec_seen seen0 ws ++ X.
  Proof.
    induction ws as [|w ws IH]; intros seen0 Hm Hr Hh Hx; cbn [spec_outs spec_seen]; [auto|].
    assert (Hf : fresh (seen0 ++ X) w = fresh seen0 w).
    { unfold fresh. rewrite mem_str_app, (Hx w (or_introl eq_refl)), orb_false_r. reflexivity. }
    assert (He : emsg_of m w = emsg_of m0 w).
    { unfold emsg_of. rewrite (Hm w (or_introl eq_refl)). reflexivity. }
    rewrite Hf, He, (Hh w (or_introl eq_refl)), (Hr w (or_introl eq_refl)).
    assert (IH' := fun s => IH s (fun w' H => Hm w' (or_intror H)) (fun w' H => Hr w' (or_intror H))
                              (fun w' H => Hh w' (or_intror H)) (fun w' H => Hx w' (or_intror H))).
    destruct (fresh seen0 w).
    - destruct (IH' (w_text w :: seen0)) as [E1 E2]. cbn [app] in E1, E2. rewrite E1, E2. auto.
    - destruct (IH' seen0) as [E1 E2]. rewrite E1, E2. auto.
  Qed.

  (* ---------- the configuration loop ---------- *)
  Definition pick_map (om : option locmap) (m : locmap) : locmap := match om with Some x => x | None => m end.

  Fixpoint spec_cfgs_outs (m : locmap) (r : list remark) (n : list supp) (seen : list str)
           (cs : list (option locmap * list raw)) : list out :=
    match cs with
    | [] => []
    | (om, ws) :: cs' =>
        spec_outs (pick_map om m) r n seen ws ++ spec_cfgs_outs (pick_map om m) r n (spec_seen seen ws) cs'
    end.

  Fixpoint spec_cfgs_seen (seen : list str) (cs : list (option locmap * list raw)) : list str :=
    match cs with
    | [] => seen
    | (_, ws) :: cs' => spec_cfgs_seen (spec_seen seen ws) cs'
    end.

  Fixpoint spec_cfgs_locm (m : locmap) (cs : list (option locmap * list raw)) : locmap :=
    match cs with
    | [] => m
    | (om, _) :: cs' => spec_cfgs_locm (pick_map om m) cs'
    end.

  Lemma spec_cfgs_outs_static m r n n' seen cs :
    map static n' = map static n -> spec_cfgs_outs m r n' seen cs = spec_cfgs_outs m r n seen cs.
  Proof.
    intros H. revert m seen. induction cs as [|[om ws] cs IH]; intros m seen; cbn [spec_cfgs_outs]; [reflexivity|].
    rewrite (spec_outs_static _ _ _ _ _ _ H), IH. reflexivity.
  Qed.

  Lemma cfgs_run_spec r cs : forall m st m' st' os,
    cfgs_run pm ug m r st cs = Some (m', st', os) ->
    os = spec_cfgs_outs m r (l_nomsg st) (l_seen st) cs
    /\ l_seen st' = spec_cfgs_seen (l_seen st) cs
    /\ m' = spec_cfgs_locm m cs
    /\ map static (l_nomsg st') = map static (l_nomsg st).
  Proof.
    induction cs as [|[om ws] cs IH]; intros m st m' st' os H; cbn [cfgs_run] in H.
    - injection H as <- <- <-. cbn. auto.
    - fold (pick_map om m) in H.
      destruct (msgs_run pm ug (pick_map om m) r st ws) as [[st1 o1]|] eqn:H1; [|discriminate].
      destruct (cfgs_run pm ug (pick_map om m) r st1 cs) as [[[m2 st2] o2]|] eqn:H2; [|discriminate].
      injection H as <- <- <-.
      apply msgs_run_spec in H1. destruct H1 as (-> & Hs1 & Hn1 & _).
      apply IH in H2. destruct H2 as (-> & Hs2 & -> & Hn2).
      cbn [spec_cfgs_outs spec_cfgs_seen spec_cfgs_locm].
      rewrite Hs2, Hs1, (spec_cfgs_outs_static _ _ _ _ _ _ Hn1), Hn2, Hn1. auto.
  Qed.

  Lemma spec_cfgs_sim r n n0 X cs : forall m m0 seen0,
    (forall w, In w (stale_cfg_raws cs) -> macros_at m w = macros_at m0 w) ->
    (forall e, In e (cfg_queries m0 cs) -> existsb (hid e) n = existsb (hid e) n0) ->
    (forall w, In w (cfg_raws cs) -> mem_str (w_text w) X = false) ->
    spec_cfgs_outs m r n (seen0 ++ X) cs = spec_cfgs_outs m0 r n0 seen0 cs
    /\ spec_cfgs_seen (seen0 ++ X) cs = spec_cfgs_seen seen0 cs ++ X.
  Proof.
    induction cs as [|[om ws] cs IH]; intros m m0 seen0 Hm Hh Hx; cbn [spec_cfgs_outs spec_cfgs_seen]; [auto|].
    cbn [cfg_queries] in Hh. fold (pick_map om m0) in Hh.
    unfold cfg_raws in Hx. cbn [flat_map snd] in Hx. fold (cfg_raws cs) in Hx.
    assert (Hws : spec_outs (pick_map om m) r n (seen0 ++ X) ws = spec_outs (pick_map om m0) r n0 seen0 ws
                  /\ spec_seen (seen0 ++ X) ws = spec_seen seen0 ws ++ X).
    { apply spec_sim.
      - intros w Hw. destruct om as [x|]; cbn [pick_map]; [reflexivity|]. apply Hm. cbn [stale_cfg_raws]. apply in_or_app; auto.
      - reflexivity.
      - intros w Hw. apply Hh. apply in_or_app. left. apply in_map. exact Hw.
      - intros w Hw. apply Hx. apply in_or_app; auto. }
    destruct Hws as [E1 E2]. rewrite E1, E2.
    destruct (IH (pick_map om m) (pick_map om m0) (spec_seen seen0 ws)) as [E3 E4].
    - intros w Hw. destruct om as [x|]; cbn [pick_map]; [reflexivity|]. apply Hm. cbn [stale_cfg_raws]. apply in_or_app; auto.
    - intros e He. apply Hh. apply in_or_app; auto.
    - intros w Hw. apply Hx. apply in_or_app; auto.
    - rewrite E3, E4. auto.
  Qed.

  Lemma spec_sim0 m m0 r r0 n n0 ws seen :
    (forall w, In w ws -> macros_at m w = macros_at m0 w) ->
    (forall w, In w ws -> remark_at r w = remark_at r0 w) ->
    (forall w, In w ws -> existsb (hid (emsg_of m0 w)) n = existsb (hid (emsg_of m0 w)) n0) ->
    spec_outs m r n seen ws = spec_outs m0 r0 n0 seen ws.
  Proof.
    intros H1 H2 H3. destruct (spec_sim m m0 r r0 n n0 [] ws seen) as [E _]; auto.
    rewrite app_nil_r in E. exact E.
  Qed.

  Lemma spec_cfgs_sim0 r n n0 cs m m0 seen :
    (forall w, In w (stale_cfg_raws cs) -> macros_at m w = macros_at m0 w) ->
    (forall e, In e (cfg_queries m0 cs) -> existsb (hid e) n = existsb (hid e) n0) ->
    spec_cfgs_outs m r n seen cs = spec_cfgs_outs m0 r n0 seen cs.
  Proof.
    intros H1 H2. destruct (spec_cfgs_sim r n n0 [] cs m m0 seen) as [E _]; auto.
    rewrite app_nil_r in E. exact E.
  Qed.

  (* ---------- suppression lists that differ by entries of other files ---------- *)
  (* l holds what l0 holds plus `extra`, as far as any flag-blind test can tell *)
  Definition covers (extra l l0 : list supp) : Prop :=
    forall p : supp -> bool, (forall x, p (static x) = p x) ->
      existsb p l = existsb p l0 || existsb p extra.

  Lemma covers_refl l : covers [] l l.
  Proof. intros p _. cbn. rewrite orb_false_r. reflexivity. Qed.

  Lemma covers_static extra l l' l0 : map static l' = map static l -> covers extra l l0 -> covers extra l' l0.
  Proof. intros H C p Hp. rewrite (existsb_static_gen p Hp _ _ H). apply C. exact Hp. Qed.

  Lemma covers_static0 extra l l0 l0' : map static l0' = map static l0 -> covers extra l l0 -> covers extra l l0'.
  Proof. intros H C p Hp. rewrite (existsb_static_gen p Hp _ _ H). apply C. exact Hp. Qed.

  Lemma same_params_static_r s x : same_params s (static x) = same_params s x.
  Proof. reflexivity. Qed.

  Lemma add_all_static ss : forall l l', map static l' = map static l ->
    map static (add_all l' ss) = map static (add_all l ss).
  Proof.
    unfold add_all. induction ss as [|s ss IH]; intros l l' H; cbn [fold_left]; [exact H|].
    apply IH. unfold add_supp. rewrite (existsb_same_params_static s _ _ H).
    destruct (existsb (same_params s) l); cbn [fst]; [exact H|]. rewrite !map_app, H. reflexivity.
  Qed.

  (* both sides add the same inline suppressions when none of them collides with an extra one *)
  Lemma covers_add_both extra ss : forall l l0,
    covers extra l l0 ->
    (forall s s', In s extra -> In s' ss -> same_params s' s = false) ->
    covers extra (add_all l ss) (add_all l0 ss).
  Proof.
    unfold add_all. induction ss as [|s ss IH]; intros l l0 C Hc; cbn [fold_left]; [exact C|].
    apply IH; [|intros; apply Hc; [assumption|right; assumption]].
    unfold add_supp.
    rewrite (C (same_params s) (same_params_static_r s)).
    rewrite (existsb_false_all (same_params s) extra), orb_false_r
      by (intros x Hx; apply Hc; [exact Hx|left; reflexivity]).
    destruct (existsb (same_params s) l0); cbn [fst]; [exact C|].
    intros p Hp. rewrite !existsb_app, (C p Hp). cbn [existsb].
    destruct (existsb p l0), (existsb p extra), (p s); reflexivity.
  Qed.

  (* an earlier file's inline suppressions only enlarge `extra` *)
  Lemma covers_add_left ss : forall extra l l0,
    covers extra l l0 ->
    exists extra', covers extra' (add_all l ss) l0 /\ (forall s, In s extra' -> In s extra \/ In s ss).
  Proof.
    unfold add_all. induction ss as [|s ss IH]; intros extra l l0 C; cbn [fold_left].
    - exists extra. split; [exact C|auto].
    - unfold add_supp at 2. destruct (existsb (same_params s) l); cbn [fst].
      + destruct (IH extra l l0 C) as (e' & C' & Hin). exists e'. split; [exact C'|].
        intros x Hx. destruct (Hin x Hx); [left|right; right]; assumption.
      + destruct (IH (extra ++ [s]) (l ++ [s]) l0) as (e' & C' & Hin).
        { intros p Hp. rewrite !existsb_app, (C p Hp). cbn [existsb].
          destruct (existsb p l0), (existsb p extra), (p s); reflexivity. }
        exists e'. split; [exact C'|].
        intros x Hx. destruct (Hin x Hx) as [H|H]; [|right; right; exact H].
        apply in_app_or in H. destruct H as [H|[<-|[]]]; [left; exact H|right; left; reflexivity].
  Qed.

  Lemma covers_hides extra l l0 e :
    covers extra l l0 -> (forall s, In s extra -> hid e s = false) ->
    existsb (hid e) l = existsb (hid e) l0.
  Proof.
    intros C H. rewrite (C (hid e) (hides_static pm ug e)), (existsb_false_all _ _ H), orb_false_r. reflexivity.
  Qed.

  (* ---------- one file: outputs and state effect in pure form ---------- *)
  Definition spec_file (n : list supp) (seen : list str) (m : locmap) (r : list remark) (f : fileA) : list out :=
    match a_kind f with
    | Markup => []
    | Early => spec_outs m r n seen (a_pre f)
    | Cached =>
        spec_outs m r n seen (a_pre f)
        ++ spec_outs m (a_remarks f) (add_all n (a_inline f)) (spec_seen seen (a_pre f)) (a_mid f)
    | Full =>
        spec_outs m r n seen (a_pre f)
        ++ spec_outs m (a_remarks f) (add_all n (a_inline f)) (spec_seen seen (a_pre f)) (a_mid f)
        ++ spec_cfgs_outs m (a_remarks f) (add_all n (a_inline f))
                          (spec_seen (spec_seen seen (a_pre f)) (a_mid f)) (a_cfgs f)
    end.

  Definition next_seen (f : fileA) : list str :=
    match a_kind f with
    | Markup => []
    | Early => spec_seen [] (a_pre f)
    | Cached => spec_seen (spec_seen [] (a_pre f)) (a_mid f)
    | Full => []
    end.

  Definition next_locm (m : locmap) (f : fileA) : locmap :=
    match a_kind f with Full => spec_cfgs_locm m (a_cfgs f) | _ => m end.

  Definition next_rem (r : list remark) (f : fileA) : list remark :=
    match a_kind f with Cached | Full => a_remarks f | _ => r end.

  Definition next_nomsg (n : list supp) (f : fileA) : list supp :=
    match a_kind f with Cached | Full => add_all n (a_inline f) | _ => n end.

  Lemma check_file_spec S f S' o :
    check_file pm ug S f = Some (S', o) ->
    o = spec_file (l_nomsg (i_log S)) [] (i_locm S) (i_rem S) f
    /\ l_seen (i_log S') = next_seen f
    /\ i_locm S' = next_locm (i_locm S) f
    /\ i_rem S' = next_rem (i_rem S) f
    /\ map static (l_nomsg (i_log S')) = map static (next_nomsg (l_nomsg (i_log S)) f).
  Proof.
    unfold check_file, spec_file, next_seen, next_locm, next_rem, next_nomsg.
    destruct (list_is_suppressed pm (l_nomsg (i_log S)) (dummy (a_path f)) true) as [[n1 b1]|] eqn:Hd; [|discriminate].
    apply list_is_suppressed_spec in Hd. destruct Hd as [_ Hd]. apply flags_after_static in Hd.
    destruct (a_kind f) eqn:Hk.
    - intros H; injection H as <- <-. cbn. auto.
    - destruct (msgs_run _ _ _ _ _ (a_pre f)) as [[st1 o1]|] eqn:H1; [|discriminate].
      intros H; injection H as <- <-. apply msgs_run_spec in H1. cbn [l_nomsg l_seen] in H1.
      destruct H1 as (-> & Hs1 & Hn1 & _). cbn [i_log i_locm i_rem].
      rewrite (spec_outs_static _ _ _ _ _ _ Hd), Hs1, Hn1, Hd. auto.
    - destruct (msgs_run _ _ _ _ _ (a_pre f)) as [[st1 o1]|] eqn:H1; [|discriminate].
      destruct (msgs_run _ _ _ _ _ (a_mid f)) as [[st2 o2]|] eqn:H2; [|discriminate].
      intros H; injection H as <- <-. apply msgs_run_spec in H1, H2. cbn [l_nomsg l_seen set_nomsg] in H1, H2.
      destruct H1 as (-> & Hs1 & Hn1 & _). destruct H2 as (-> & Hs2 & Hn2 & _). cbn [i_log i_locm i_rem].
      assert (Ha : map static (add_all (l_nomsg st1) (a_inline f)) = map static (add_all (l_nomsg (i_log S)) (a_inline f)))
        by (apply add_all_static; rewrite Hn1; exact Hd).
      rewrite (spec_outs_static _ _ _ _ _ _ Hd), (spec_outs_static _ _ _ _ _ _ Ha), Hs2, Hs1, Hn2, Ha. auto.
    - destruct (msgs_run _ _ _ _ _ (a_pre f)) as [[st1 o1]|] eqn:H1; [|discriminate].
      destruct (msgs_run _ _ _ _ _ (a_mid f)) as [[st2 o2]|] eqn:H2; [|discriminate].
      destruct (cfgs_run _ _ _ _ _ (a_cfgs f)) as [[[m3 st3] o3]|] eqn:H3; [|discriminate].
      intros H; injection H as <- <-. apply msgs_run_spec in H1, H2. apply cfgs_run_spec in H3.
      cbn [l_nomsg l_seen set_nomsg] in H1, H2.
      destruct H1 as (-> & Hs1 & Hn1 & _). destruct H2 as (-> & Hs2 & Hn2 & _). destruct H3 as (-> & Hs3 & -> & Hn3).
      cbn [i_log i_locm i_rem clear_seen l_seen l_nomsg].
      assert (Ha : map static (add_all (l_nomsg st1) (a_inline f)) = map static (add_all (l_nomsg (i_log S)) (a_inline f)))
        by (apply add_all_static; rewrite Hn1; exact Hd).
      rewrite (spec_outs_static _ _ _ _ _ _ Hd), (spec_outs_static _ _ _ _ _ _ Ha).
      rewrite (spec_cfgs_outs_static _ _ _ _ _ _ (eq_trans Hn2 Ha)), Hs2, Hs1, Hn3, Hn2, Ha. auto.
  Qed.

  (* ---------- `clean`: nothing in the state that this file reads ---------- *)
  Inductive clean (n0 : list supp) (S : istate) (f : fileA) : Prop := mkClean
      (cl_extra : list supp)
      (cl_locm : forall w, In w (stale_locm_raws f) -> macros_at (i_locm S) w = [])
      (cl_rem : forall w, In w (stale_rem_raws f) -> remark_at (i_rem S) w = [])
      (cl_cov : covers cl_extra (l_nomsg (i_log S)) n0)
      (cl_hide : forall s e, In s cl_extra -> In e (queries_of f) -> hid e s = false)
      (cl_same : forall s s', In s cl_extra -> In s' (inline_of f) -> same_params s' s = false).


  Lemma macros_nil w : macros_at [] w = [].
  Proof. unfold macros_at. destruct (w_stack w); reflexivity. Qed.
  Lemma remark_nil w : remark_at [] w = [].
  Proof. unfold remark_at. destruct (w_stack w); reflexivity. Qed.

  Lemma spec_file_clean n0 S f :
    clean n0 S f ->
    spec_file (l_nomsg (i_log S)) [] (i_locm S) (i_rem S) f = spec_file n0 [] [] [] f.
  Proof.
    intros [extra Hl Hr C Hh Hs].
    set (n := l_nomsg (i_log S)) in *. set (m := i_locm S) in *. set (r := i_rem S) in *.
    unfold spec_file. unfold stale_locm_raws, stale_rem_raws, queries_of, inline_of in *.
    destruct (a_kind f) eqn:Hk; [reflexivity| | |].
    - (* Early *)
      apply spec_sim0.
      + intros w Hw. rewrite macros_nil. auto.
      + intros w Hw. rewrite remark_nil. auto.
      + intros w Hw. apply (covers_hides extra); [exact C|]. intros s Hs'. apply Hh; [exact Hs'|]. apply in_map. exact Hw.
    - (* Cached *)
      assert (C2 : covers extra (add_all n (a_inline f)) (add_all n0 (a_inline f))) by (apply covers_add_both; auto).
      f_equal.
      + apply spec_sim0.
        * intros w Hw. rewrite macros_nil. apply Hl. apply in_or_app; auto.
        * intros w Hw. rewrite remark_nil. auto.
        * intros w Hw. apply (covers_hides extra); [exact C|]. intros s Hs'. apply Hh; [exact Hs'|]. apply in_map. apply in_or_app; auto.
      + apply spec_sim0.
        * intros w Hw. rewrite macros_nil. apply Hl. apply in_or_app; auto.
        * reflexivity.
        * intros w Hw. apply (covers_hides extra); [exact C2|]. intros s Hs'. apply Hh; [exact Hs'|]. apply in_map. apply in_or_app; auto.
    - (* Full *)
      assert (C2 : covers extra (add_all n (a_inline f)) (add_all n0 (a_inline f))) by (apply covers_add_both; auto).
      f_equal; [|f_equal].
      + apply spec_sim0.
        * intros w Hw. rewrite macros_nil. apply Hl. apply in_or_app; auto.
        * intros w Hw. rewrite remark_nil. auto.
        * intros w Hw. apply (covers_hides extra); [exact C|]. intros s Hs'. apply Hh; [exact Hs'|].
          apply in_or_app. left. apply in_map. apply in_or_app; auto.
      + apply spec_sim0.
        * intros w Hw. rewrite macros_nil. apply Hl. apply in_or_app. right. apply in_or_app; auto.
        * reflexivity.
        * intros w Hw. apply (covers_hides extra); [exact C2|]. intros s Hs'. apply Hh; [exact Hs'|].
          apply in_or_app. left. apply in_map. apply in_or_app; auto.
      + apply spec_cfgs_sim0.
        * intros w Hw. rewrite macros_nil. apply Hl. apply in_or_app. right. apply in_or_app; auto.
        * intros e He. apply (covers_hides extra); [exact C2|]. intros s Hs'. apply Hh; [exact Hs'|]. apply in_or_app; auto.
  Qed.

  (* a clean state gives the findings of a fresh object *)
  Theorem check_file_clean n0 nf0 S f S' o Sa oa :
    clean n0 S f ->
    check_file pm ug S f = Some (S', o) ->
    check_file pm ug (fresh_state n0 nf0) f = Some (Sa, oa) ->
    o = oa.
  Proof.
    intros Hc H1 H2. apply check_file_spec in H1, H2. destruct H1 as [-> _]. destruct H2 as [-> _].
    cbn. apply spec_file_clean. exact Hc.
  Qed.

  (* ---------- independence of a later file f from an earlier file g ---------- *)
  Record indep (g f : fileA) : Prop := mkIndep {
    in_locm : forall w m, In w (stale_locm_raws f) -> w_stack w = true -> In m (locmaps_of g) ->
                          has_key (w_file w, w_line w) m = false;
    in_rem : forall w, In w (stale_rem_raws f) -> w_stack w = true ->
                       has_key (w_file w, w_line w) (remarks_of g) = false;
    in_hide : forall s e, In s (inline_of g) -> In e (queries_of f) -> hid e s = false;
    in_same : forall s s', In s (inline_of g) -> In s' (inline_of f) -> same_params s' s = false
  }.


  (* what the state can contain after the files of l1 *)
  Inductive inv (n0 : list supp) (l1 : list fileA) (S : istate) : Prop := mkInv
      (iv_extra : list supp)
      (iv_locm : i_locm S = [] \/ exists g, In g l1 /\ In (i_locm S) (locmaps_of g))
      (iv_rem : i_rem S = [] \/ exists g, In g l1 /\ i_rem S = remarks_of g)
      (iv_cov : covers iv_extra (l_nomsg (i_log S)) n0)
      (iv_from : forall s, In s iv_extra -> exists g, In g l1 /\ In s (inline_of g)).


  Lemma spec_seen_in seen ws t : In t (spec_seen seen ws) -> In t seen \/ In t (map w_text ws).
  Proof.
    revert seen. induction ws as [|w ws IH]; intros seen H; cbn [spec_seen] in H; [auto|].
    apply IH in H. cbn [map]. destruct H as [H|H]; [|right; right; exact H].
    destruct (fresh seen w); [|auto]. destruct H as [<-|H]; [right; left; reflexivity|auto].
  Qed.

  Lemma spec_cfgs_locm_in m cs :
    spec_cfgs_locm m cs = m \/ In (spec_cfgs_locm m cs) (flat_map (fun c => match fst c with Some x => [x] | None => [] end) cs).
  Proof.
    revert m. induction cs as [|[om ws] cs IH]; intros m; cbn [spec_cfgs_locm flat_map fst]; [auto|].
    destruct om as [x|]; cbn [pick_map].
    - right. destruct (IH x) as [->|H]; [left; reflexivity|right; exact H].
    - destruct (IH m) as [H|H]; [left; exact H|right; exact H].
  Qed.

  Lemma inv_fresh n0 nf0 : inv n0 [] (fresh_state n0 nf0).
  Proof.
    apply (mkInv n0 [] (fresh_state n0 nf0) []); cbn; try tauto.
    apply covers_refl.
  Qed.

  Lemma inv_step n0 l1 S g S' o :
    inv n0 l1 S -> check_file pm ug S g = Some (S', o) -> inv n0 (l1 ++ [g]) S'.
  Proof.
    intros [extra Hlocm Hrem C Hfrom] H.
    apply check_file_spec in H. destruct H as (_ & Es & El & Er & En).
    assert (Hold : forall x, In x l1 -> In x (l1 ++ [g])) by (intros; apply in_or_app; auto).
    assert (Hg : In g (l1 ++ [g])) by (apply in_or_app; right; left; reflexivity).
    assert (Cn : exists extra', covers extra' (l_nomsg (i_log S')) n0
                 /\ forall s, In s extra' -> In s extra \/ In s (inline_of g)).
    { unfold next_nomsg in En. unfold inline_of. destruct (a_kind g);
        try (exists extra; split; [apply (covers_static extra _ _ _ En); exact C|auto]);
        destruct (covers_add_left (a_inline g) extra _ _ C) as (e' & C' & Hin);
        exists e'; (split; [apply (covers_static e' _ _ _ En); exact C'|exact Hin]). }
    destruct Cn as (extra' & C' & Hin).
    apply (mkInv n0 (l1 ++ [g]) S' extra').
    - rewrite El. unfold next_locm.
      assert (Hkeep : i_locm S = [] \/ exists g0, In g0 (l1 ++ [g]) /\ In (i_locm S) (locmaps_of g0)).
      { destruct Hlocm as [H0|(g0 & G1 & G2)]; [auto|right; exists g0; auto]. }
      destruct (a_kind g) eqn:Hk; auto.
      destruct (spec_cfgs_locm_in (i_locm S) (a_cfgs g)) as [->|H0]; [exact Hkeep|].
      right. exists g. split; [exact Hg|]. unfold locmaps_of. rewrite Hk. exact H0.
    - rewrite Er. unfold next_rem.
      assert (Hkeep : i_rem S = [] \/ exists g0, In g0 (l1 ++ [g]) /\ i_rem S = remarks_of g0).
      { destruct Hrem as [H0|(g0 & G1 & G2)]; [auto|right; exists g0; auto]. }
      destruct (a_kind g) eqn:Hk; auto; right; exists g; (split; [exact Hg|]); unfold remarks_of; rewrite Hk; reflexivity.
    - exact C'.
    - intros s Hs. destruct (Hin s Hs) as [H0|H0].
      + destruct (Hfrom s H0) as (g0 & G1 & G2). exists g0. auto.
      + exists g. auto.
  Qed.

  Lemma inv_run n0 fs : forall l0 S S' os,
    inv n0 l0 S -> run_files pm ug S fs = Some (S', os) -> inv n0 (l0 ++ fs) S'.
  Proof.
    induction fs as [|g fs IH]; intros l0 S S' os Hi H; cbn [run_files] in H.
    - injection H as <- <-. rewrite app_nil_r. exact Hi.
    - destruct (check_file pm ug S g) as [[S1 o]|] eqn:Hc; [|discriminate].
      destruct (run_files pm ug S1 fs) as [[S2 os2]|] eqn:Hr; [|discriminate].
      injection H as <- <-.
      replace (l0 ++ g :: fs) with ((l0 ++ [g]) ++ fs) by (rewrite <- app_assoc; reflexivity).
      eapply IH; [|exact Hr]. eapply inv_step; eassumption.
  Qed.

  Lemma inv_clean n0 l1 S f :
    inv n0 l1 S -> (forall g, In g l1 -> indep g f) -> clean n0 S f.
  Proof.
    intros [extra Hlocm Hrem C Hfrom] Hind.
    apply (mkClean n0 S f extra).
    - intros w Hw. unfold macros_at. destruct (w_stack w) eqn:Hst; [|reflexivity].
      destruct Hlocm as [->|(g & G1 & G2)]; [reflexivity|].
      rewrite (lookup_no_key _ _ (in_locm g f (Hind g G1) w _ Hw Hst G2)). reflexivity.
    - intros w Hw. unfold remark_at. destruct (w_stack w) eqn:Hst; [|reflexivity].
      destruct Hrem as [->|(g & G1 & ->)]; [reflexivity|].
      rewrite (lookup_no_key _ _ (in_rem g f (Hind g G1) w Hw Hst)). reflexivity.
    - exact C.
    - intros s e Hs He. destruct (Hfrom s Hs) as (g & G1 & G2). apply (in_hide g f (Hind g G1)); assumption.
    - intros s s' Hs Hs'. destruct (Hfrom s Hs) as (g & G1 & G2). apply (in_same g f (Hind g G1)); assumption.
  Qed.

  (* INV: clean holds before every file of every sequence whose earlier files are
     independent of it; hence the findings are those of the file analysed alone *)
  Theorem clean_before_every_file n0 nf0 l1 S os f :
    run_files pm ug (fresh_state n0 nf0) l1 = Some (S, os) ->
    (forall g, In g l1 -> indep g f) ->
    clean n0 S f.
  Proof.
    intros Hr Hind. eapply inv_clean; [|exact Hind].
    apply (inv_run n0 l1 [] _ _ _ (inv_fresh n0 nf0) Hr).
  Qed.

  Lemma run_files_app l1 : forall S l2 S2 os,
    run_files pm ug S (l1 ++ l2) = Some (S2, os) ->
    exists S1 o1 o2, run_files pm ug S l1 = Some (S1, o1) /\ run_files pm ug S1 l2 = Some (S2, o2) /\ os = o1 ++ o2.
  Proof.
    induction l1 as [|g l1 IH]; intros S l2 S2 os H; cbn [app run_files] in *.
    - exists S, [], os. auto.
    - destruct (check_file pm ug S g) as [[Sg o]|]; [|discriminate].
      destruct (run_files pm ug Sg (l1 ++ l2)) as [[S3 os3]|] eqn:Hr; [|discriminate].
      injection H as <- <-. destruct (IH _ _ _ _ Hr) as (S1 & o1 & o2 & -> & E2 & ->).
      exists S1, (o :: o1), o2. auto.
  Qed.

  Lemma run_files_length fs : forall S S' os, run_files pm ug S fs = Some (S', os) -> length os = length fs.
  Proof.
    induction fs as [|g fs IH]; intros S S' os H; cbn [run_files] in H.
    - injection H as <- <-. reflexivity.
    - destruct (check_file pm ug S g) as [[S1 o]|]; [|discriminate].
      destruct (run_files pm ug S1 fs) as [[S2 os2]|] eqn:Hr; [|discriminate].
      injection H as <- <-. cbn. f_equal. eapply IH. exact Hr.
  Qed.

  Theorem file_isolation n0 nf0 l1 f l2 Sf os Sa oa :
    run_files pm ug (fresh_state n0 nf0) (l1 ++ f :: l2) = Some (Sf, os) ->
    check_file pm ug (fresh_state n0 nf0) f = Some (Sa, oa) ->
    (forall g, In g l1 -> indep g f) ->
    nth_error os (length l1) = Some oa.
  Proof.
    intros Hr Ha Hind.
    destruct (run_files_app _ _ _ _ _ Hr) as (S1 & o1 & o2 & R1 & R2 & ->).
    cbn [run_files] in R2.
    destruct (check_file pm ug S1 f) as [[S2 o]|] eqn:Hc; [|discriminate].
    destruct (run_files pm ug S2 l2) as [[S3 o3]|]; [|discriminate].
    injection R2 as <- <-.
    rewrite nth_error_app2, (run_files_length _ _ _ _ R1) by (rewrite (run_files_length _ _ _ _ R1); lia).
    rewrite PeanoNat.Nat.sub_diag. cbn. f_equal.
    eapply check_file_clean; [|exact Hc|exact Ha].
    eapply clean_before_every_file; eassumption.
  Qed.

  (* R1: the duplicate list is emptied at the start of every file, so whatever an earlier
     file left in it (early exits do not reach R4) has no influence *)
  Theorem duplicate_list_irrelevant S f X S1 o1 S2 o2 :
    check_file pm ug S f = Some (S1, o1) ->
    check_file pm ug (with_seen S X) f = Some (S2, o2) ->
    o1 = o2.
  Proof.
    intros H1 H2. apply check_file_spec in H1, H2. destruct H1 as [-> _]. destruct H2 as [-> _]. reflexivity.
  Qed.

  (* a suppression that names a file can only hide findings of a matching file:
     with disjoint file names the non-macro part of `in_hide` holds by construction *)
  Theorem other_file_cannot_hide s e g :
    stype_eqb (s_type s) TMacro = false -> is_nil (s_file s) = false ->
    pm (s_file s) (e_file e) = false -> hides pm g e s = false.
  Proof.
    intros Ht Hf Hp. unfold hides, matches_doc, file_okb. rewrite Ht, Hf, Hp. cbn [orb].
    rewrite andb_false_r. cbn. apply andb_false_r.
  Qed.
End IsoProofs.
