From CV Require Import Base.Bytes Base.Glob Supp.Defs Supp.Proofs Supp.ListProofs Supp.ExecDefs Supp.ExecProofs Iso.Defs Iso.Proofs Iso.Fs.
Local Open Scope N_scope.

Section FsProofs.
  Variable pm : str -> str -> bool.
  Variable ug : bool.
  Variable base : psettings.
  Variable analyze : psettings -> str -> fileA.

  (* the settings an entry is analysed with are a function of the base settings and the entry *)
  Theorem fs_settings_function_of_entry fss : forall S S' rs,
    run_project pm ug base analyze S fss = Some (S', rs) ->
    map fst rs = map (apply_onto base) fss.
  Proof.
    induction fss as [|fs fss IH]; intros S S' rs H; cbn [run_project] in H.
    - injection H as <- <-. reflexivity.
    - unfold check_file_fs in H.
      destruct (check_file pm ug _ _) as [[T o]|]; [|discriminate].
      destruct (run_project pm ug base analyze _ fss) as [[S2 xs]|] eqn:Hr; [|discriminate].
      injection H as <- <-. cbn [map fst]. f_equal. eapply IH. exact Hr.
  Qed.

  (* an entry's findings are those of a freshly constructed object that shares the suppression list:
     if the suppressions other entries added neither match its findings nor collide with its own,
     they are the findings of the entry analysed alone *)
  Theorem fs_file_isolated n0 nf0 extra S fs S' ts o Sa tsa oa :
    let f := analyze (apply_onto base fs) (fs_file fs) in
    covers extra (l_nomsg (i_log S)) n0 ->
    (forall s e, In s extra -> In e (queries_of f) -> hides pm ug e s = false) ->
    (forall s s', In s extra -> In s' (inline_of f) -> same_params s' s = false) ->
    check_file_fs pm ug base analyze S fs = Some (S', (ts, o)) ->
    check_file_fs pm ug base analyze (fresh_state n0 nf0) fs = Some (Sa, (tsa, oa)) ->
    ts = tsa /\ o = oa.
  Proof.
    intros f C Hh Hs H1 H2. unfold check_file_fs in H1, H2. fold f in H1, H2.
    destruct (check_file pm ug (fresh_state (l_nomsg (i_log S)) (l_nofail (i_log S))) f) as [[T1 o1]|] eqn:E1; [|discriminate].
    destruct (check_file pm ug (fresh_state (l_nomsg (i_log (fresh_state n0 nf0))) (l_nofail (i_log (fresh_state n0 nf0)))) f)
      as [[T2 o2]|] eqn:E2; [|discriminate].
    injection H1 as _ <- <-. injection H2 as _ <- <-. split; [reflexivity|].
    cbn [fresh_state i_log l_nomsg l_nofail] in E2.
    eapply (check_file_clean pm ug n0 nf0); [|exact E1|exact E2].
    apply (mkClean pm ug n0 _ f extra); cbn [fresh_state i_log i_locm i_rem l_nomsg]; auto.
    - intros w _. apply macros_nil.
    - intros w _. apply remark_nil.
  Qed.
End FsProofs.

(* why the copy must be fresh: with one reused object an entry without -std inherits the
   standard (and the platform) of the entry before it *)
Definition CPP03 : str := [99;43;43;48;51].
Definition ex_base : psettings := mkPS [] [] [] [] [] 0.
Definition ex_a : fsentry := mkFS [97] [] [] [] CPP03 (Some 3).
Definition ex_b : fsentry := mkFS [98] [] [] [] [] None.

Lemma reuse_would_leak :
  nth 1 (reuse_settings ex_base [ex_a; ex_b]) ex_base <> apply_onto ex_base ex_b
  /\ ps_stdcpp (nth 1 (reuse_settings ex_base [ex_a; ex_b]) ex_base) = CPP03
  /\ ps_stdcpp (apply_onto ex_base ex_b) = [].
Proof. vm_compute. repeat split; try reflexivity. discriminate. Qed.
