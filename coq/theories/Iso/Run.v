(* Entry point for the extracted executable of C17: a sequence of abstracted files
   through one modelled CppCheck object. *)
From CV Require Import Base.Bytes Base.Glob Supp.Defs Supp.ExecDefs Supp.Run Iso.Defs.
Local Open Scope N_scope.

Definition bind {A B} (o : option (A * list str)) (k : A -> list str -> option (B * list str)) : option (B * list str) :=
  match o with Some (a, r) => k a r | None => None end.

(* hash id file line symbols stack text *)
Definition take_raw (l : list str) : option (raw * list str) :=
  match l with
  | hash :: id :: file :: line :: syms :: stack :: text :: r =>
      Some (mkRaw (nd hash) id file (zd line) syms (bool_of_str stack) text, r)
  | _ => None
  end.

(* file line text *)
Definition take_remark (l : list str) : option (remark * list str) :=
  match l with
  | file :: line :: text :: r => Some (((file, zd line), text), r)
  | _ => None
  end.

(* file line n name* *)
Definition take_locentry (l : list str) : option ((loc * list str) * list str) :=
  match l with
  | file :: line :: r => bind (take_list take_str r) (fun names r' => Some (((file, zd line), names), r'))
  | _ => None
  end.

(* hasmap [n entry*] n raw* *)
Definition take_cfg (l : list str) : option ((option locmap * list raw) * list str) :=
  match l with
  | has :: r =>
      if bool_of_str has then
        bind (take_list take_locentry r) (fun m r1 =>
        bind (take_list take_raw r1) (fun ws r2 => Some ((Some m, ws), r2)))
      else bind (take_list take_raw r) (fun ws r2 => Some ((None, ws), r2))
  | [] => None
  end.

Definition kind_of (s : str) : akind :=
  match N_of_dec s with
  | Some 0 => Markup | Some 1 => Early | Some 2 => Cached | _ => Full
  end.

(* path kind pre* remarks* inline* mid* cfgs* *)
Definition take_file (l : list str) : option (fileA * list str) :=
  match l with
  | path :: kind :: r =>
      bind (take_list take_raw r) (fun pre r1 =>
      bind (take_list take_remark r1) (fun rem r2 =>
      bind (take_list take_supp r2) (fun inl r3 =>
      bind (take_list take_raw r3) (fun mid r4 =>
      bind (take_list take_cfg r4) (fun cfgs r5 =>
      Some (mkFA path (kind_of kind) pre rem inl mid cfgs, r5))))))
  | _ => None
  end.

Definition out_field (o : out) : str :=
  str_of_bool (o_rec o) ++ str_of_bool (o_fwd o) ++ [58] ++ o_remark o.

Definition SEP : str := [124].

(* tag "seq": ug nomsg* nofail* files*  ->  per file: "|" then one field per finding *)
Definition run (fields : list str) : list str :=
  match fields with
  | tag :: g :: args =>
      if tag_is tag [115;101;113] then
        match take_list take_supp args with
        | Some (nomsg, r1) =>
            match take_list take_supp r1 with
            | Some (nofail, r2) =>
                match take_list take_file r2 with
                | Some (fs, _) =>
                    match run_files pm_plain (bool_of_str g) (fresh_state nomsg nofail) fs with
                    | Some (_, os) => flat_map (fun o => SEP :: map out_field o) os
                    | None => FUEL
                    end
                | None => BAD
                end
            | None => BAD
            end
        | None => BAD
        end
      else BAD
  | _ => BAD
  end.
