(* C17: one CppCheck object analysing a sequence of files (cli/singleexecutor.cpp,
   CppCheck::check / checkInternal and CppCheckLogger in lib/cppcheck.cpp).

   What is carried from one file to the next inside the reused object:
     - CppCheckLogger::mErrorList      (rendered texts already seen; cleared by
                                        mLogger->clear() at the START of checkInternal
                                        (fix 8cb695c) and again at its end)
     - CppCheckLogger::mExitCode       (reset by resetExitCode() at the start)
     - CppCheckLogger::mLocationMacros (replaced by setLocationMacros per configuration)
     - CppCheckLogger::mRemarkComments (replaced by setRemarkComments after the
                                        preprocessor's first messages)
     - Suppressions::nomsg             (inline suppressions are appended, never removed)
   The per-file analysis itself (preprocessor, tokenizer, checks) is a parameter
   `analyze`.  The suppression list and the logger gate are the C23 model
   (Supp/Defs.v, Supp/ExecDefs.v).  Executable definitions only. *)
From CV Require Import Base.Bytes Base.Glob Supp.Defs Supp.ExecDefs.
Local Open Scope N_scope.

(* a finding as the checks hand it to the logger: hash, id, file and line of
   callStack.back() (or file0 / no line when the call stack is empty), symbol
   names, rendered text (ErrorMessage::toString with the run's template) *)
Record raw := mkRaw { w_hash : N; w_id : str; w_file : str; w_line : Z; w_symbols : str;
                      w_stack : bool; w_text : str }.

Definition loc := (str * Z)%type.
Definition locmap := list (loc * list str).          (* mLocationMacros *)
Definition remark := (loc * str)%type.               (* RemarkComment: file, line, text *)

Definition loc_eqb (a b : loc) : bool := str_eqb (fst a) (fst b) && (snd a =? snd b)%Z.

Fixpoint lookup_loc {A} (k : loc) (l : list (loc * A)) : option A :=
  match l with
  | [] => None
  | (k', v) :: r => if loc_eqb k k' then Some v else lookup_loc k r
  end.

(* which point of checkInternal the analysis of this file leaves through *)
Inductive akind :=
  | Markup     (* library.markupFile: return EXIT_SUCCESS, the logger is not used *)
  | Early      (* preprocessor.reportOutput / loadFiles failed: return before setRemarkComments *)
  | Cached     (* analyzer information up to date (or --check-config): findings replayed, return *)
  | Full.      (* all configurations analysed; falls through to mLogger->clear() *)

Record fileA := mkFA {
  a_path : str;
  a_kind : akind;
  a_pre : list raw;               (* reported before setRemarkComments (lexer / include errors) *)
  a_remarks : list remark;        (* preprocessor.getRemarkComments() *)
  a_inline : list supp;           (* preprocessor.inlineSuppressions(nomsg) *)
  a_mid : list raw;               (* reported after that, before any setLocationMacros:
                                     invalidSuppression, replayed cached findings *)
  a_cfgs : list (option locmap * list raw)
                                  (* per configuration, in order: Some m = setLocationMacros(m)
                                     was reached, then the findings; None = it was not
                                     (preprocessor error in this configuration; also the
                                     trailing noValidConfiguration / addon findings) *)
}.

(* state of the reused object that checkInternal reads or writes *)
Record istate := mkI { i_log : lstate; i_locm : locmap; i_rem : list remark }.

(* what happens to one finding: recorded = passed the duplicate filter (this is
   what AnalyzerInformation::reportErr stores), forwarded = handed to the
   executor's logger, with the remark text attached *)
Record out := mkO { o_rec : bool; o_fwd : bool; o_remark : str }.

Definition macros_at (m : locmap) (w : raw) : list str :=
  if w_stack w then match lookup_loc (w_file w, w_line w) m with Some l => l | None => [] end else [].

Definition remark_at (r : list remark) (w : raw) : str :=
  if w_stack w then match lookup_loc (w_file w, w_line w) r with Some s => s | None => [] end else [].

Definition emsg_of (m : locmap) (w : raw) : emsg :=
  mkEmsg (w_hash w) (w_id w) (w_file w) (if w_stack w then w_line w else NO_LINE) (w_symbols w) (macros_at m w).

Definition fresh (seen : list str) (w : raw) : bool :=
  negb (is_nil (w_text w)) && negb (mem_str (w_text w) seen).

Section Iso.
  Variable pm : str -> str -> bool.
  Variable ug : bool.                (* mUseGlobalSuppressions *)

  (* CppCheckLogger::reportErr for one finding under the current maps *)
  Definition msg_step (m : locmap) (r : list remark) (st : lstate) (w : raw) : option (lstate * out) :=
    match logger_step pm ug st (emsg_of m w, w_text w) with
    | None => None
    | Some (st', fwd) => Some (st', mkO (fresh (l_seen st) w) fwd (if fwd then remark_at r w else []))
    end.

  Fixpoint msgs_run (m : locmap) (r : list remark) (st : lstate) (ws : list raw) : option (lstate * list out) :=
    match ws with
    | [] => Some (st, [])
    | w :: ws' =>
        match msg_step m r st w with
        | None => None
        | Some (st1, o) =>
            match msgs_run m r st1 ws' with
            | None => None
            | Some (st2, os) => Some (st2, o :: os)
            end
        end
    end.

  (* the configuration loop: setLocationMacros where reached, then the findings *)
  Fixpoint cfgs_run (m : locmap) (r : list remark) (st : lstate) (cs : list (option locmap * list raw))
    : option (locmap * lstate * list out) :=
    match cs with
    | [] => Some (m, st, [])
    | (om, ws) :: cs' =>
        let m1 := match om with Some x => x | None => m end in
        match msgs_run m1 r st ws with
        | None => None
        | Some (st1, o1) =>
            match cfgs_run m1 r st1 cs' with
            | None => None
            | Some (m2, st2, o2) => Some (m2, st2, o1 ++ o2)
            end
        end
    end.

  Definition set_nomsg (st : lstate) (n : list supp) : lstate := mkL n (l_nofail st) (l_seen st) (l_exit st).
  Definition clear_seen (st : lstate) : lstate := mkL (l_nomsg st) (l_nofail st) [] (l_exit st).

  (* CppCheck::check(file) -> checkFile -> checkInternal.  None = the glob
     machine ran out of fuel somewhere (never an answer). *)
  Definition check_file (S : istate) (f : fileA) : option (istate * list out) :=
    let L := i_log S in
    (* CppCheck::check: the dummy query that flags wildcard suppressions as checked *)
    match list_is_suppressed pm (l_nomsg L) (dummy (a_path f)) true with
    | None => None
    | Some (n1, _) =>
        (* R1  mLogger->resetExitCode(); mLogger->clear()  (clear at the start: fix 8cb695c) *)
        let st0 := mkL n1 (l_nofail L) [] false in
        match a_kind f with
        | Markup => Some (mkI st0 (i_locm S) (i_rem S), [])
        | k =>
            (* findings of createTokenList / loadFiles: old remarks, old location macros *)
            match msgs_run (i_locm S) (i_rem S) st0 (a_pre f) with
            | None => None
            | Some (st1, o1) =>
                match k with
                | Early => Some (mkI st1 (i_locm S) (i_rem S), o1)
                | _ =>
                    (* R2  mLogger->setRemarkComments(...);  inlineSuppressions(nomsg) *)
                    let r1 := a_remarks f in
                    let st1' := set_nomsg st1 (add_all (l_nomsg st1) (a_inline f)) in
                    match msgs_run (i_locm S) r1 st1' (a_mid f) with
                    | None => None
                    | Some (st2, o2) =>
                        match k with
                        | Cached => Some (mkI st2 (i_locm S) r1, o1 ++ o2)
                        | _ =>
                            (* R3  mLogger->setLocationMacros(...) per configuration *)
                            match cfgs_run (i_locm S) r1 st2 (a_cfgs f) with
                            | None => None
                            | Some (m3, st3, o3) =>
                                (* R4  mLogger->clear() *)
                                Some (mkI (clear_seen st3) m3 r1, o1 ++ o2 ++ o3)
                            end
                        end
                    end
                end
            end
        end
    end.

  (* SingleExecutor::check: the same object for every file, in order *)
  Fixpoint run_files (S : istate) (fs : list fileA) : option (istate * list (list out)) :=
    match fs with
    | [] => Some (S, [])
    | f :: r =>
        match check_file S f with
        | None => None
        | Some (S1, o) =>
            match run_files S1 r with
            | None => None
            | Some (S2, os) => Some (S2, o :: os)
            end
        end
    end.
End Iso.

(* PathMatch::match on plain file names (no separators, no wildcards) is equality; the general
   matcher is C31's model.  Instance used by the extracted executable and the witnesses. *)
Definition pm_plain (pattern path : str) : bool := str_eqb pattern path.

(* a freshly constructed CppCheck: the run's suppression lists, nothing else *)
Definition fresh_state (nomsg nofail : list supp) : istate := mkI (mkL nomsg nofail [] false) [] [].

(* ---- what file g can leave behind that file f would read (decidable) ---- *)
Fixpoint stale_cfg_raws (cs : list (option locmap * list raw)) : list raw :=
  match cs with
  | (None, ws) :: r => ws ++ stale_cfg_raws r
  | _ => []
  end.

Definition cfg_raws (cs : list (option locmap * list raw)) : list raw := flat_map snd cs.

(* the findings f hands to the logger, by exit point *)
Definition raws_of (f : fileA) : list raw :=
  match a_kind f with
  | Markup => []
  | Early => a_pre f
  | Cached => a_pre f ++ a_mid f
  | Full => a_pre f ++ a_mid f ++ cfg_raws (a_cfgs f)
  end.

(* ... those looked up in the location-macro map of an earlier file *)
Definition stale_locm_raws (f : fileA) : list raw :=
  match a_kind f with
  | Markup => []
  | Early => a_pre f
  | Cached => a_pre f ++ a_mid f
  | Full => a_pre f ++ a_mid f ++ stale_cfg_raws (a_cfgs f)
  end.

(* ... those looked up in the remark comments of an earlier file *)
Definition stale_rem_raws (f : fileA) : list raw :=
  match a_kind f with Markup => [] | _ => a_pre f end.

(* the suppression queries f makes when it starts from a fresh object *)
Fixpoint cfg_queries (m : locmap) (cs : list (option locmap * list raw)) : list emsg :=
  match cs with
  | [] => []
  | (om, ws) :: r => let m1 := match om with Some x => x | None => m end in
                     map (emsg_of m1) ws ++ cfg_queries m1 r
  end.

Definition queries_of (f : fileA) : list emsg :=
  match a_kind f with
  | Markup => []
  | Early => map (emsg_of []) (a_pre f)
  | Cached => map (emsg_of []) (a_pre f ++ a_mid f)
  | Full => map (emsg_of []) (a_pre f ++ a_mid f) ++ cfg_queries [] (a_cfgs f)
  end.

Definition inline_of (f : fileA) : list supp :=
  match a_kind f with Markup | Early => [] | _ => a_inline f end.

Definition remarks_of (f : fileA) : list remark :=
  match a_kind f with Markup | Early => [] | _ => a_remarks f end.

Definition locmaps_of (f : fileA) : list locmap :=
  match a_kind f with
  | Full => flat_map (fun c => match fst c with Some m => [m] | None => [] end) (a_cfgs f)
  | _ => []
  end.

(* the same state with another duplicate list *)
Definition with_seen (S : istate) (X : list str) : istate :=
  mkI (mkL (l_nomsg (i_log S)) (l_nofail (i_log S)) X (l_exit (i_log S))) (i_locm S) (i_rem S).

Definition has_key {A} (k : loc) (l : list (loc * A)) : bool := existsb (fun e => loc_eqb k (fst e)) l.
