(* C17, project path: CppCheck::check(const FileSettings&) (lib/cppcheck.cpp).
   Every entry of a project is analysed by a temporary CppCheck built on a settings object
   that is a COPY of the run's settings with the entry's defines, include paths, undefs,
   standard and platform written into it.  `apply_onto start fs` is the sequence of writes,
   applied to an arbitrary starting object; the code starts from a fresh copy of the base
   settings for every entry.  Executable definitions only. *)
From CV Require Import Base.Bytes Base.Glob Supp.Defs Supp.ExecDefs Iso.Defs.
Local Open Scope N_scope.

(* the fields of Settings that check(FileSettings) writes *)
Record psettings := mkPS { ps_defines : str; ps_includes : list str; ps_undefs : list str;
                           ps_stdc : str; ps_stdcpp : str; ps_platform : N }.

(* one project entry *)
Record fsentry := mkFS { fs_file : str; fs_defines : str; fs_includes : list str; fs_undefs : list str;
                         fs_standard : str; fs_platform : option N }.

Fixpoint has_plusplus (s : str) : bool :=
  match s with
  | 43 :: ((43 :: _) as r) => true
  | _ :: r => has_plusplus r
  | [] => false
  end.

(* std::set<std::string>::insert *)
Definition set_insert (l : list str) (x : str) : list str := if mem_str x l then l else l ++ [x].

Definition apply_onto (start : psettings) (fs : fsentry) : psettings :=
  mkPS
    (* if (!userDefines.empty()) userDefines += ';';  userDefines += fs.cppcheckDefines(); *)
    ((if is_nil (ps_defines start) then [] else ps_defines start ++ [59]) ++ fs_defines fs)
    (* includePaths = fs.includePaths; *)
    (fs_includes fs)
    (* userUndefs.insert(fs.undefs...) *)
    (fold_left set_insert (fs_undefs fs) (ps_undefs start))
    (* if (fs.standard.find("++") != npos) standards.setCPP(..); else if (!fs.standard.empty()) standards.setC(..); *)
    (if has_plusplus (fs_standard fs) then ps_stdc start
     else if is_nil (fs_standard fs) then ps_stdc start else fs_standard fs)
    (if has_plusplus (fs_standard fs) then fs_standard fs else ps_stdcpp start)
    (* if (fs.platformType != Unspecified) platform.set(fs.platformType); *)
    (match fs_platform fs with Some p => p | None => ps_platform start end).

Section FsRun.
  Variable pm : str -> str -> bool.
  Variable ug : bool.
  Variable base : psettings.                          (* mSettings of the run *)
  Variable analyze : psettings -> str -> fileA.       (* the analysis of a file under given settings *)

  (* check(fs):  Settings tempSettings = mSettings;  <writes>;  CppCheck temp(tempSettings, mSuppressions, ...);
     temp.checkFile(fs.file).  The temporary object has its own logger (empty duplicate list, no
     location macros, no remarks) and shares the suppression lists. *)
  Definition check_file_fs (S : istate) (fs : fsentry) : option (istate * (psettings * list out)) :=
    let ts := apply_onto base fs in
    match check_file pm ug (fresh_state (l_nomsg (i_log S)) (l_nofail (i_log S))) (analyze ts (fs_file fs)) with
    | None => None
    | Some (T, o) =>
        Some (mkI (mkL (l_nomsg (i_log T)) (l_nofail (i_log T)) (l_seen (i_log S)) (l_exit (i_log S)))
                  (i_locm S) (i_rem S), (ts, o))
    end.

  Fixpoint run_project (S : istate) (fss : list fsentry) : option (istate * list (psettings * list out)) :=
    match fss with
    | [] => Some (S, [])
    | fs :: r =>
        match check_file_fs S fs with
        | None => None
        | Some (S1, x) =>
            match run_project S1 r with
            | None => None
            | Some (S2, xs) => Some (S2, x :: xs)
            end
        end
    end.
End FsRun.

(* a variant that keeps ONE settings object for the whole project and only re-applies the writes:
   what the code must not do *)
Fixpoint reuse_settings (start : psettings) (fss : list fsentry) : list psettings :=
  match fss with
  | [] => []
  | fs :: r => let ts := apply_onto start fs in ts :: reuse_settings ts r
  end.
