(* C26  Reports are faithful in every output format.
   Statements only; every proof is `exact <lemma>` or a computation on a witness. *)
From Coq Require Import Strings.String.
From CV Require Import Base.Bytes Base.Glob Report.Lit Report.Defs Report.Spec Report.Gen_RngSchema
  Report.XmlProofs Report.TemplateProofs Report.SarifProofs.
Import List ListNotations.
Local Open Scope N_scope.

(* ---- text ---- *)
(* ErrorMessage::toString (sequential findAndReplace, as the code runs it) renders the
   finding exactly as the documented meaning of the template (every field by its own
   value, nothing rescanned), for every template made of brace-free literal text and
   documented fields and every finding with a location, PROVIDED no substituted value
   contains '{'. partial: {inconclusive:...}, {code}, --template-location and findings
   without location are outside this theorem (they are inside the model and the tie). *)
Theorem C26_template_subst_spec_under_clean_fields_partial vb t m :
  clean_template t -> inc_free t -> clean_fields vb m -> m_stack m <> [] ->
  to_string vb (print_template t) [] m = Some (template_spec vb t m).
Proof. exact (template_subst_spec vb t m). Qed.
Print Assumptions C26_template_subst_spec_under_clean_fields_partial.

Definition w_loc : loc := mkLoc (L "x{line}y.c") (L "x{line}y.c") 1 20 [].
Definition w_msg : msg := mkMsg (L "arrayIndexOutOfBounds") [] [] SError 788 0 false (L "m") (L "m") [] (L "x{line}y.c") [] [w_loc].
Definition w_tmpl : list seg := [Fld FFile; Lit (L "|"); Fld FLine].

(* without that proviso the property fails: the file name x{line}y.c is printed as x1y.c *)
Theorem C26_template_rescan_refuted :
  exists vb t m, clean_template t /\ inc_free t /\ m_stack m <> [] /\
                 to_string vb (print_template t) [] m <> Some (template_spec vb t m).
Proof.
  exists false, w_tmpl, w_msg. repeat split.
  - constructor; [cbn; discriminate|]. constructor; [cbn; intros [H|[]]; discriminate H|].
    constructor; [cbn; discriminate|constructor].
  - repeat constructor.
  - discriminate.
  - vm_compute. discriminate.
Qed.
Print Assumptions C26_template_rescan_refuted.

Example C26_template_premises_inhabited :
  clean_template [Fld FFile; Lit (L ":"); Fld FLine; Lit (L ": "); Fld FMessage] /\
  to_string false (L "{file}:{line}: {message}") []
    (mkMsg (L "id") [] [] SError 0 0 false (L "m") (L "m") [] [] [] [mkLoc (L "a.c") (L "a.c") 3 1 []])
  = Some (L "a.c:3: m").
Proof.
  split; [|vm_compute; reflexivity].
  constructor; [cbn; discriminate|]. constructor; [cbn; intros [H|[]]; discriminate H|].
  constructor; [cbn; discriminate|]. constructor; [cbn; intros [H|[H|[]]]; discriminate H|].
  constructor; [cbn; discriminate|constructor].
Qed.

(* ---- XML ---- *)
(* the <error> element printed by ErrorMessage::toXML (after its indentation) is in the
   XML 1.0 element grammar and denotes exactly the tree of the finding: id, severity,
   fixInvalidChars(msg/verbose/remark), cwe, hash, inconclusive, file0, the locations in
   reverse call-stack order with file/line/column/info, the symbols -- provided the names
   that are written unfiltered (id, guideline, classification, file0, file, origfile,
   symbols) contain no byte below 0x20. Bytes >= 0x80: UTF-8 validity is not modelled. *)
Theorem C26_xml_wellformed_carries_under_clean_names m :
  msg_bytes m -> clean_msg m -> element (skipn 8 (to_xml m)) (error_tree m).
Proof. exact (to_xml_denotes m). Qed.
Print Assumptions C26_xml_wellformed_carries_under_clean_names.

(* reading an attribute value back is a function of the bytes: the reader gets the value *)
Theorem C26_xml_attribute_value_unique e d d' : attval e d -> attval e d' -> d = d'.
Proof. exact (attval_fun e d d'). Qed.
Print Assumptions C26_xml_attribute_value_unique.

Theorem C26_xml_attribute_escape v : clean_name v -> attval (esc_attr v) v.
Proof. exact (attval_esc_attr v). Qed.
Print Assumptions C26_xml_attribute_escape.

Definition w_ctl_msg : msg :=
  mkMsg (L "id") [] [] SError 0 0 false (L "m") (L "m") [] [] [] [mkLoc [97; 1; 98; 46; 99] [97; 1; 98; 46; 99] 1 1 []].

(* a control byte in a file name reaches the document: byte 0x01 is no XML Char *)
Theorem C26_xml_control_char_refuted :
  exists m c, msg_bytes m /\ In c (to_xml m) /\ ~ xml_char c.
Proof.
  exists w_ctl_msg, 1. split; [|split].
  - repeat split; repeat constructor.
  - vm_compute. tauto.
  - unfold xml_char. intros [H|[H|[H|H]]]; try discriminate H. vm_compute in H. apply H. reflexivity.
Qed.
Print Assumptions C26_xml_control_char_refuted.

(* every element and attribute emitted is allowed by cppcheck-errors.rng (tables
   regenerated from the file on every run), every required one is present, the severity
   is one of the listed values, children are location* symbol* -- for every finding whose
   severity can reach toXML (not none / internal), with or without guideline,
   classification, remark, origfile, cwe, hash, inconclusive, file0, info *)
Theorem C26_xml_conforms_rng m :
  reportable m -> error_conforms rng_schema_gen (error_tree m) = true.
Proof. exact (xml_conforms_rng m). Qed.
Print Assumptions C26_xml_conforms_rng.

Definition w_full : msg :=
  mkMsg (L "id") (L "1.1") (L "Required") SDebug 563 7 true (L "m") (L "m") (L "r") (L "a.c") (L "x")
        [mkLoc (L "q.c") (L "./q.c") 5 1 (L "i")].

Example C26_reportable_inhabited : reportable w_full /\ error_conforms rng_schema_gen (error_tree w_full) = true.
Proof. split; [split; discriminate | vm_compute; reflexivity]. Qed.

(* fixInvalidChars leaves printable ASCII only *)
Theorem C26_fix_invalid_chars_printable s : bytes s -> Forall (fun x => is_print x = true) (fix_invalid_chars s).
Proof. exact (fix_invalid_chars_print s). Qed.
Print Assumptions C26_fix_invalid_chars_printable.

(* ---- SARIF ---- *)
(* picojson's string serialisation is in the JSON string grammar and denotes the bytes;
   decoding is unique *)
Theorem C26_sarif_valid_json_strings s : bytes s -> jstring (flat_map json_esc_char s) s.
Proof. exact (json_string_denotes s). Qed.
Print Assumptions C26_sarif_valid_json_strings.

Theorem C26_sarif_string_value_unique e d d' : jstring e d -> jstring e d' -> d = d'.
Proof. exact (jstring_fun e d d'). Qed.
Print Assumptions C26_sarif_string_value_unique.

(* the results array has exactly one entry per finding with a location, in order, with
   ruleId, level, message text and all locations (line/column clamped to >= 1) *)
Theorem C26_sarif_carries_findings crit ver ms :
  map read_result (read_results (sarif_doc_tree crit ver ms)) = map (result_view crit) (reported ms).
Proof. exact (sarif_carries crit ver ms). Qed.
Print Assumptions C26_sarif_carries_findings.

(* ---- StdLogger::reportErr ---- *)
(* among the rendered texts each distinct one is forwarded exactly once *)
Theorem C26_dedup_once texts seen :
  NoDup (forwarded texts (dedup seen texts)) /\
  (forall t, In t (forwarded texts (dedup seen texts)) <-> In t texts /\ ~ In t seen).
Proof. exact (dedup_spec texts seen). Qed.
Print Assumptions C26_dedup_once.
