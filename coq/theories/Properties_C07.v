(* C07  Expression trees follow the C/C++ operator grammar: property statements only. *)
From Coq Require Import List NArith Bool.
From CV Require Import Ast.Defs Ast.Main1.
Import ListNotations.
Local Open Scope N_scope.

(* PARTIAL (stage 1 of the precedence-climbing proof).  Fragment [frag1]: identifiers, numbers, explicit
   parentheses and all binary operators of the 11 left-associative levels
   ( * / %   + -   << >>   <=>   < <= > >=   == !=   &   ^   |   &&   || ).
   For every such expression, in C and in C++ mode, the model of prepareTernaryOpForAST + createAst's ladder,
   run on the minimally parenthesised rendering, consumes all tokens and leaves exactly the tree that the
   ISO operator table assigns.  [decl_like] excludes the declaration-like token patterns of compileTerm
   (skipDecl; "X ) ( name ) =") - with them the statement is false, see C07_parse_render_refuted.
   Missing for the full language [expr]: assignment, ?:, comma, prefix and postfix operators, calls,
   subscripts, member access (modelled and exercised by the correspondence run, not yet proved). *)
Theorem C07_parse_render_partial :
  forall (cpp : bool) (e : expr),
    frag1 e = true -> decl_like (render e) = false ->
    parse cpp (render e) = Some (tree_of e).
Proof. exact parse_render_stage1. Qed.
Print Assumptions C07_parse_render_partial.

(* the premises are inhabited:  a + b * ( c - 1 ) << d *)
Example C07_partial_premises :
  let e := canon (EBin 0 BShl (EBin 0 BAdd (EId 0 0) (EBin 0 BMul (EId 0 1) (EPar 0 (EBin 0 BSub (EId 0 2) (ENum 0 1)))))
                    (EId 0 3)) in
  frag1 e = true /\ decl_like (render e) = false /\ wf e = true /\
  parse true (render e) = Some (tree_of e).
Proof. vm_compute. repeat split; reflexivity. Qed.

(* r = d + ( a * f ( b , c ) )   with every identifier a declared variable (f: a function pointer) *)
Definition skipdecl_witness : expr :=
  canon (EAsg 0 AEq (EId 0 14)
           (EBin 0 BAdd (EId 0 3)
              (EPar 0 (EBin 0 BMul (EId 0 0) (ECall 0 (EId 0 8) (EComma 0 (EId 0 1) (EId 0 2))))))).

(* The faithful model of createAst does NOT give the grammar's tree on this well-formed expression:
   compileTerm's skipDecl jumps from the name after '(' to a later variable that is followed by '(' ,
   dropping  "a *".  Replayed on the real binary (docs/C07.md, known finding skipDecl). *)
Theorem C07_parse_render_refuted :
  exists e, wf e = true /\ labels_ok e = true /\
            parse false (render e) <> Some (tree_of e) /\ parse true (render e) <> Some (tree_of e).
Proof.
  exists skipdecl_witness. vm_compute. repeat split; try reflexivity; intro H; discriminate H.
Qed.
Print Assumptions C07_parse_render_refuted.

(* ... and the pattern is exactly what [decl_like] detects *)
Example C07_witness_is_decl_like : decl_like (render skipdecl_witness) = true.
Proof. vm_compute. reflexivity. Qed.
