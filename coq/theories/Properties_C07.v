(* C07  Expression trees follow the C/C++ operator grammar: property statements only. *)
From Coq Require Import List NArith Bool.
From CV Require Import Ast.Defs Ast.Frag Ast.Main1 Ast.Main2 Ast.NoDecl Ast.Main3 Ast.Main4 Ast.Labels Ast.Prep Ast.Final Ast.MainP.
Import ListNotations.
Local Open Scope N_scope.

(* PARTIAL (stage 1 of the precedence-climbing proof).  Fragment [frag1]: identifiers, numbers, explicit
   parentheses and all binary operators of the 11 left-associative levels
   ( * / %   + -   << >>   <=>   < <= > >=   == !=   &   ^   |   &&   || ).
   For every such expression, in C and in C++ mode, the model of prepareTernaryOpForAST + createAst's ladder,
   run on the minimally parenthesised rendering, consumes all tokens and leaves exactly the tree that the
   ISO operator table assigns.  No side condition (since fix 7d6f057 skipDecl ignores expressions that
   start with a variable; the "X ) ( name ) =" heuristic needs an '=' token).
   Missing for the full language [expr]: assignment, ?:, comma, prefix and postfix operators, calls,
   subscripts, member access (modelled and exercised by the correspondence run, not yet proved). *)
Theorem C07_parse_render_partial :
  forall (cpp : bool) (e : expr),
    frag1 e = true -> parse cpp (render e) = Some (tree_of e).
Proof. exact parse_render_stage1. Qed.
Print Assumptions C07_parse_render_partial.

(* the premises are inhabited:  a + b * ( c - 1 ) << d *)
Example C07_partial_premises :
  let e := canon (EBin 0 BShl (EBin 0 BAdd (EId 0 0) (EBin 0 BMul (EId 0 1) (EPar 0 (EBin 0 BSub (EId 0 2) (ENum 0 1)))))
                    (EId 0 3)) in
  frag1 e = true /\ wf e = true /\
  parse true (render e) = Some (tree_of e).
Proof. vm_compute. repeat split; reflexivity. Qed.

(* PARTIAL (stage 2a).  Fragment [frag2] = stage 1 + the 11 assignment operators (right-associative, parsed
   through compileAssignTernary's recursion and its assign counter) + the comma operator.  No side condition:
   the token pattern  X ) ( name ) =  that compileTerm takes for a function pointer declaration needs a '('
   directly after a ')' , which these renderings never contain (Ast/NoDecl.v).
   Missing for the full language: ?: (with prepareTernaryOpForAST), prefix and postfix operators, calls,
   subscripts, member access. *)
Theorem C07_parse_render_stage2_partial :
  forall (cpp : bool) (e : expr),
    frag2 e = true -> parse cpp (render e) = Some (tree_of e).
Proof. exact parse_render_stage2_full. Qed.
Print Assumptions C07_parse_render_stage2_partial.

(* the premises are inhabited:  a = b += c * ( d , 1 ) , a |= 2 *)
Example C07_stage2_premises :
  let e := canon (EComma 0 (EAsg 0 AEq (EId 0 0) (EAsg 0 AAdd (EId 0 1)
                                (EBin 0 BMul (EId 0 2) (EComma 0 (EId 0 3) (ENum 0 1)))))
                    (EAsg 0 AOr (EId 0 0) (ENum 0 2))) in
  frag2 e = true /\ wf e = true /\
  parse false (render e) = Some (tree_of e).
Proof. vm_compute. repeat split; reflexivity. Qed.

(* PARTIAL (stage 3).  Fragment [frag3] = stage 2 + the prefix operators + - ! ~ * & ++ -- , i.e. expressions
   built from identifiers, numbers, parentheses, the 11 binary levels, assignments, comma and prefix unary
   operators, with the unary/binary disambiguation of isPrefixUnary (previous token) and the look-aheads of the
   * & && levels (isQualifier, "* [*,)]", "& &").  Premises: [wf e] (prefix ++/-- is not applied directly to
   a prefix + - ! ~ & expression - never an lvalue; there isPrefixUnary would not see a prefix operator) and
   [labels_ok e] (the token labels of a prefix operator and of its operand's root are ordered as in the token
   list - compileUnaryOp's `precedes` test; the position labelling [canon] satisfies it).
   Missing for the full language: ?: , postfix ++ --, calls, subscripts, member access, casts. *)
Theorem C07_parse_render_stage3_partial :
  forall (cpp : bool) (e : expr),
    frag3 e = true -> wf e = true -> labels_ok e = true ->
    parse cpp (render e) = Some (tree_of e).
Proof. exact parse_render_stage3. Qed.
Print Assumptions C07_parse_render_stage3_partial.

(* the premises are inhabited:  - * p + ~ ++ * q * & a , ! b -= - - c & & d && & a *)
Example C07_stage3_premises :
  let e := canon (EComma 0
                    (EBin 0 BAdd (EPre 0 PMinus (EPre 0 PDeref (EId 0 4)))
                       (EBin 0 BMul (EPre 0 PTilde (EPre 0 PInc (EPre 0 PDeref (EId 0 5)))) (EPre 0 PAddr (EId 0 0))))
                    (EAsg 0 ASub (EPre 0 PNot (EId 0 1))
                       (EBin 0 BLAnd (EBin 0 BAnd (EPre 0 PMinus (EPre 0 PMinus (EId 0 2))) (EPre 0 PAddr (EId 0 3)))
                          (EPre 0 PAddr (EId 0 0))))) in
  frag3 e = true /\ wf e = true /\ labels_ok e = true /\
  parse false (render e) = Some (tree_of e) /\ parse true (render e) = Some (tree_of e).
Proof. vm_compute. repeat split; reflexivity. Qed.

(* PARTIAL (stage 4).  Fragment [frag4] = every constructor of [expr] except ?: and casts: stage 3 + postfix
   ++ --, calls f ( ) / f ( args ), subscripts and member access (compilePrecedence2's loop: call vs grouping
   parenthesis from the previous token, jump to the link of '(' and '[', '.' with compileScope).
   Premises: [wf e] (additionally: postfix ++/-- not directly on a postfix ++/--, the callee is not a number
   or a postfix ++/-- expression - constraint violations in C and C++) and [labels_ok e].  (With calls a ')' can
   be followed by '(' ; the function-pointer-declaration heuristic  X ) ( name ) =  of compileTerm still cannot
   fire: it needs an empty operand stack, and inside call parentheses the callee is on the stack.)
   Missing for the full language: ?: (prepareTernaryOpForAST) and casts (iscast is not modelled). *)
Theorem C07_parse_render_stage4_partial :
  forall (cpp : bool) (e : expr),
    frag4 e = true -> wf e = true -> labels_ok e = true ->
    parse cpp (render e) = Some (tree_of e).
Proof. exact parse_render_stage4. Qed.
Print Assumptions C07_parse_render_stage4_partial.

(* the premises are inhabited:
   r = f ( a , - b ) [ 1 ] . x ++ + ( g ) ( c ) . y -- * ++ * p [ a , 2 ] , ( * f ) ( ) ( ! s . n ) *)
Example C07_stage4_premises :
  let e := canon
    (EComma 0
       (EAsg 0 AEq (EId 0 14)
          (EBin 0 BAdd
             (EPost 0 QInc (EMem 0 0 (EIdx 0 (ECall 0 (EId 0 8) (EComma 0 (EId 0 0) (EPre 0 PMinus (EId 0 1)))) (ENum 0 1)) 11))
             (EBin 0 BMul (EPost 0 QDec (EMem 0 0 (ECall 0 (EPar 0 (EId 0 9)) (EId 0 2)) 12))
                (EPre 0 PInc (EPre 0 PDeref (EIdx 0 (EId 0 4) (EComma 0 (EId 0 0) (ENum 0 2))))))))
       (ECall 0 (ECall0 0 (EPar 0 (EPre 0 PDeref (EId 0 8)))) (EPre 0 PNot (EMem 0 0 (EId 0 6) 13)))) in
  frag4 e = true /\ wf e = true /\ labels_ok e = true /\
  parse false (render e) = Some (tree_of e) /\ parse true (render e) = Some (tree_of e).
Proof. vm_compute. repeat split; reflexivity. Qed.

(* PARTIAL (stage 5).  Fragment [frag5] = every constructor of [expr] except casts, i.e. stage 4 + the
   conditional operator ('?' takes ':' as its second operand; the else branch is parsed by the recursion of ':'
   - the C++ grouping  a ? b : c = d  ->  a ? b : (c = d) ; the assign counter is reset inside '?').
   Additional premises for ?: :
   - [mid_ok e]: the middle operand of every ?: is not a comma expression and, if it is an assignment or
     conditional expression, contains no '?';
   - [plainmid e]: no middle operand has a , < or ? outside brackets, i.e. prepareTernaryOpForAST inserts
     nothing (proved: Ast/Prep.v; where it inserts parentheses see C07_prep_render and the correspondence run).
   Missing for the full language: those middle operands, and casts (iscast is not modelled). *)
Theorem C07_parse_render_stage5_partial :
  forall (cpp : bool) (e : expr),
    frag5 e = true -> wf e = true -> labels_ok e = true -> mid_ok e = true -> plainmid e = true ->
    parse cpp (render e) = Some (tree_of e).
Proof. exact parse_render_stage5_syn. Qed.
Print Assumptions C07_parse_render_stage5_partial.

(* the premises are inhabited:
   r = a ? b + 1 : c ? - d : a = 2 , b = p [ 0 ] ? q = f ( 1 ) : ( a , b ) ? 3 : s . x ++ *)
Example C07_stage5_premises :
  let e := canon
    (EComma 0
       (EAsg 0 AEq (EId 0 14)
          (ECond 0 0 (EId 0 0) (EBin 0 BAdd (EId 0 1) (ENum 0 1))
             (ECond 0 0 (EId 0 2) (EPre 0 PMinus (EId 0 3)) (EAsg 0 AEq (EId 0 0) (ENum 0 2)))))
       (EAsg 0 AEq (EId 0 1)
          (ECond 0 0 (EIdx 0 (EId 0 4) (ENum 0 0)) (EAsg 0 AEq (EId 0 5) (ECall 0 (EId 0 8) (ENum 0 1)))
             (ECond 0 0 (EPar 0 (EComma 0 (EId 0 0) (EId 0 1))) (ENum 0 3) (EPost 0 QInc (EMem 0 0 (EId 0 6) 11)))))) in
  frag5 e = true /\ wf e = true /\ labels_ok e = true /\ mid_ok e = true /\ plainmid e = true /\
  parse false (render e) = Some (tree_of e) /\ parse true (render e) = Some (tree_of e).
Proof. vm_compute. repeat split; reflexivity. Qed.

(* prepareTernaryOpForAST on any rendering (all of [expr], casts included): it yields [renderP e], the rendering
   with parentheses around exactly the middle operands that have a , < or ? outside brackets. *)
Theorem C07_prep_render :
  forall e : expr, prep (2 * length (render e ++ [semi])) (render e ++ [semi]) = renderP e ++ [semi].
Proof. exact prep_render. Qed.
Print Assumptions C07_prep_render.

(* PARTIAL (stage 6): every constructor of [expr] except casts, INCLUDING the middle operands of ?: around which
   prepareTernaryOpForAST inserts parentheses:  parse = createAst's ladder after prepareTernaryOpForAST.
   Premises: only [wf e] (shapes that violate a constraint in C and C++: ++/-- on a prefix + - ! ~ & or on a
   postfix ++/--, a number or a postfix ++/-- called as a function) and [labels_ok e] (no restriction:
   C07_labels_ok_canon).
   Missing for the full language: casts (iscast is not modelled). *)
Theorem C07_parse_render_stage6_partial :
  forall (cpp : bool) (e : expr),
    frag5 e = true -> wf e = true -> labels_ok e = true ->
    parse cpp (render e) = Some (tree_of e).
Proof. exact parse_render_stage6. Qed.
Print Assumptions C07_parse_render_stage6_partial.

(* the premises are inhabited, with middle operands that need parentheses:
   r = a ? b , c : d ? p < q : ( a ? 1 : 2 ) ,  x = b ? c ? 1 : 2 , 3 : y = 0 ? f ( a , b ) : 7 ,
   c ? a = ( b ? 1 : 2 ) : d   (a '?' inside brackets of an assignment in the middle) *)
Example C07_stage6_premises :
  let e := canon
    (EComma 0 (EComma 0
       (EAsg 0 AEq (EId 0 14)
          (ECond 0 0 (EId 0 0) (EComma 0 (EId 0 1) (EId 0 2))
             (ECond 0 0 (EId 0 3) (EBin 0 BLt (EId 0 4) (EId 0 5)) (EPar 0 (ECond 0 0 (EId 0 0) (ENum 0 1) (ENum 0 2))))))
       (EAsg 0 AEq (EId 0 11)
          (ECond 0 0 (EId 0 1) (EComma 0 (ECond 0 0 (EId 0 2) (ENum 0 1) (ENum 0 2)) (ENum 0 3))
             (EAsg 0 AEq (EId 0 12) (ECond 0 0 (ENum 0 0) (ECall 0 (EId 0 8) (EComma 0 (EId 0 0) (EId 0 1))) (ENum 0 7))))))
       (ECond 0 0 (EId 0 2) (EAsg 0 AEq (EId 0 0) (EPar 0 (ECond 0 0 (EId 0 1) (ENum 0 1) (ENum 0 2)))) (EId 0 3))) in
  frag5 e = true /\ wf e = true /\ labels_ok e = true /\ plainmid e = false /\
  parse false (render e) = Some (tree_of e) /\ parse true (render e) = Some (tree_of e).
Proof. vm_compute. repeat split; reflexivity. Qed.

(* [wf] is needed: on these excluded shapes the model does not produce the grammar's tree (the real tokenizer
   rejects them with internalAstError / syntaxError, see the correspondence run):  ++ - a ,  1 ( a ) ,  a ++ ( b ).
   (The fourth exclusion, a ++ ++, is only needed by the proof: the model happens to build the grammar's tree.) *)
Example C07_wf_is_needed :
  let e1 := canon (EPre 0 PInc (EPre 0 PMinus (EId 0 0))) in
  let e3 := canon (ECall 0 (ENum 0 1) (EId 0 0)) in
  let e4 := canon (ECall 0 (EPost 0 QInc (EId 0 0)) (EId 0 1)) in
  (wf e1 || wf e3 || wf e4 = false) /\
  parse false (render e1) <> Some (tree_of e1) /\ parse true (render e1) <> Some (tree_of e1) /\
  parse false (render e3) <> Some (tree_of e3) /\ parse true (render e3) <> Some (tree_of e3) /\
  parse false (render e4) <> Some (tree_of e4) /\ parse true (render e4) <> Some (tree_of e4).
Proof. vm_compute. repeat split; try reflexivity; intro H; discriminate H. Qed.

(* The premise [labels_ok] is no restriction on expressions: labelling every node token with its position in the
   rendering ([canon], what the correspondence run does) satisfies it, for every expression. *)
Theorem C07_labels_ok_canon : forall e : expr, labels_ok (canon e) = true.
Proof. exact labels_ok_canon. Qed.
Print Assumptions C07_labels_ok_canon.

(* hence, for position-labelled expressions (what the correspondence run evaluates): every well-formed
   expression without casts *)
Theorem C07_parse_render_canon_partial :
  forall (cpp : bool) (e0 : expr), let e := canon e0 in
    frag5 e = true -> wf e = true ->
    parse cpp (render e) = Some (tree_of e).
Proof. exact parse_render_canon6. Qed.
Print Assumptions C07_parse_render_canon_partial.

(* r = d + ( a * f ( b , c ) )   with every identifier a declared variable (f: a function pointer).
   Before fix 7d6f057 (skipDecl) this well-formed expression refuted the full statement; with the model
   following the repaired code it is parsed to the grammar's tree in C and C++ mode. *)
Definition former_skipdecl_witness : expr :=
  canon (EAsg 0 AEq (EId 0 14)
           (EBin 0 BAdd (EId 0 3)
              (EPar 0 (EBin 0 BMul (EId 0 0) (ECall 0 (EId 0 8) (EComma 0 (EId 0 1) (EId 0 2))))))).

Example C07_former_witness_now_parsed :
  wf former_skipdecl_witness = true /\ labels_ok former_skipdecl_witness = true /\
  parse false (render former_skipdecl_witness) = Some (tree_of former_skipdecl_witness) /\
  parse true (render former_skipdecl_witness) = Some (tree_of former_skipdecl_witness).
Proof. vm_compute. repeat split; reflexivity. Qed.
