(* Round trips of the summaries through their XML form, for any element names with writer = reader;
   what exactly is lost when nested calls are written under the function-call name. *)
From CV Require Import Base.Bytes Ctu.Defs Ctu.XmlProofs.
Require Import Lia.
Local Open Scope N_scope.

(* ------------------------------------------------------------------ domain of the round trips *)
(* an id / argument name that comes back unchanged whether or not the writer escapes it *)
Definition id_ok (s : str) : bool := raw_plain s && safe_str s.

Definition safe_loc (l : loc) : bool := safe_str (l_file l) && in_i32 (l_line l) && in_i32 (l_col l).
Definition safe_floc (p : floc) : bool :=
  safe_str (fl_file p) && in_i32 (fl_line p) && ((0 <=? fl_col p) && (fl_col p <? 4294967296))%Z && safe_str (fl_info p).
Definition safe_fc (f : fcall) : bool :=
  id_ok (fc_id f) && in_i32 (fc_argnr f) && safe_str (fc_fname f) && safe_loc (fc_loc f) &&
  safe_str (fc_argexpr f) && ((0 <=? fc_vtype f) && (fc_vtype f <? 256))%Z &&
  ((0 <=? fc_ufr f) && (fc_ufr f <=? 255))%Z && forallb safe_floc (fc_path f).
Definition safe_nc (n : ncall) : bool :=
  id_ok (nc_id n) && in_i32 (nc_argnr n) && safe_str (nc_fname n) && safe_loc (nc_loc n) &&
  id_ok (nc_myid n) && in_i32 (nc_myargnr n).
Definition safe_ctu (c : ctu) : bool := forallb safe_fc (c_fcs c) && forallb safe_nc (c_ncs c).
Definition safe_uu (u : uusage) : bool :=
  id_ok (u_myid u) && in_i32 (u_myargnr u) && id_ok (u_argname u) && safe_loc (u_loc u).
Definition safe_nl (n : nameloc) : bool :=
  safe_str (nl_class n) && safe_str (nl_file n) && safe_str (nl_cfg n) && in_i32 (nl_line n) && in_i32 (nl_col n) &&
  ((0 <=? nl_hash n) && (nl_hash n <? 18446744073709551616))%Z.
Definition safe_fd (d : fdecl) : bool :=
  safe_str (fd_file d) && safe_str (fd_name d) && in_i32 (fd_line d) && in_i32 (fd_col d).
Definition safe_ui (u : unused_info) : bool := forallb safe_fd (ui_decls u) && forallb safe_str (ui_calls u).
Definition safe_fsum (s : fsum) : bool :=
  safe_ctu (s_ctu s) && forallb safe_uu (s_null s) && forallb safe_uu (s_uninit s) &&
  forallb safe_uu (s_aidx s) && forallb safe_uu (s_parith s) && forallb safe_nl (s_odr s).

Lemma dec_wr esc s : id_ok s = true -> dec (wr esc s) = s.
Proof.
  unfold id_ok. intro H. apply andb_prop in H as [H1 H2].
  destruct esc; cbn [wr]; [apply dec_toxml_safe|apply dec_raw_plain]; assumption.
Qed.

Lemma wrap32_id z : in_i32 z = true -> wrap32 z = z.
Proof.
  unfold in_i32, wrap32. intro H. apply andb_prop in H as [H1 H2].
  apply Z.leb_le in H1. apply Z.leb_le in H2.
  rewrite Z.mod_small by lia. lia.
Qed.

Lemma wrapu32_id z : ((0 <=? z) && (z <? 4294967296))%Z = true -> wrapu32 z = z.
Proof.
  unfold wrapu32. intro H. apply andb_prop in H as [H1 H2].
  apply Z.leb_le in H1. apply Z.ltb_lt in H2. apply Z.mod_small. lia.
Qed.

(* ------------------------------------------------------------------ the readers on elements of the written shape
   (attribute values abstract: everything is decided by the attribute names) *)
Lemma load_path_generic : forall filer line col infor rest err,
    load_path (Elem E_PATH [(A_FILE, AStr filer); (A_LINE, AInt line); (A_COL, AInt col); (A_INFO, AStr infor)] [] :: rest) err
    = if err then ([], err)
      else let '(ps, e') := load_path rest false in
           (mkFloc (dec filer) (wrap32 line) (wrapu32 col) (dec infor) :: ps, e').
Proof. intros. destruct err; reflexivity. Qed.

Lemma load_fc_generic : forall name idr fnr an filer line col aer vt v ufr (w : bool) cs,
    load_fc (Elem name
                  ([(A_CALL_ID, AStr idr); (A_CALL_FUNCNAME, AStr fnr); (A_CALL_ARGNR, AInt an);
                    (A_FILE, AStr filer); (A_LINE, AInt line); (A_COL, AInt col)] ++
                   [(A_CALL_ARGEXPR, AStr aer); (A_CALL_VTYPE, AInt vt); (A_CALL_VALUE, AInt v); (A_CALL_UFR, AInt ufr)] ++
                   (if w then [(A_WARNING, AStr S_TRUE)] else []))
                  cs)
    = let '(path, err) := load_path cs false in
      if err then None
      else Some (mkFC (dec idr) (wrap32 an) (dec fnr) (mkLoc (dec filer) (wrap32 line) (wrap32 col)) (dec aer)
                      (vt mod 256)%Z v (if ((0 <=? ufr) && (ufr <=? 255))%Z then ufr else 255%Z) w path).
Proof. intros. destruct w; reflexivity. Qed.

(* a nested call handed to the FunctionCall loader is rejected: call-argvalue-ufr is missing *)
Lemma load_fc_of_nested_generic : forall name idr fnr an filer line col myidr myargnr,
    load_fc (Elem name
                  ([(A_CALL_ID, AStr idr); (A_CALL_FUNCNAME, AStr fnr); (A_CALL_ARGNR, AInt an);
                    (A_FILE, AStr filer); (A_LINE, AInt line); (A_COL, AInt col)] ++
                   [(A_MY_ID, AStr myidr); (A_MY_ARGNR, AInt myargnr)])
                  []) = None.
Proof. intros. reflexivity. Qed.

Lemma load_nc_generic : forall name idr fnr an filer line col myidr myargnr,
    load_nc (Elem name
                  ([(A_CALL_ID, AStr idr); (A_CALL_FUNCNAME, AStr fnr); (A_CALL_ARGNR, AInt an);
                    (A_FILE, AStr filer); (A_LINE, AInt line); (A_COL, AInt col)] ++
                   [(A_MY_ID, AStr myidr); (A_MY_ARGNR, AInt myargnr)])
                  [])
    = Some (mkNC (dec idr) (wrap32 an) (dec fnr) (mkLoc (dec filer) (wrap32 line) (wrap32 col)) (dec myidr) (wrap32 myargnr)).
Proof. intros. reflexivity. Qed.

Lemma load_uu_generic : forall name myidr myargnr argr filer line col v,
    load_uu (Elem name [(A_MY_ID, AStr myidr); (A_MY_ARGNR, AInt myargnr); (A_MY_ARGNAME, AStr argr);
                        (A_FILE, AStr filer); (A_LINE, AInt line); (A_COL, AInt col); (A_VALUE, AInt v)] [])
    = Some (mkUU (dec myidr) (wrap32 myargnr) (dec argr) (mkLoc (dec filer) (wrap32 line) (wrap32 col)) v).
Proof. intros. reflexivity. Qed.

Lemma load_nl_generic : forall nr fr cr l c h,
    load_nl (Elem E_CLASS [(A_NAME, AStr nr); (A_FILE, AStr fr); (A_CONFIGURATION, AStr cr);
                           (A_LINE, AInt l); (A_COL, AInt c); (A_HASH, AInt h)] [])
    = Some (mkNL (dec nr) (dec fr) (dec cr) (wrap32 l) (wrap32 c) (h mod 18446744073709551616)%Z).
Proof. intros. reflexivity. Qed.

(* ------------------------------------------------------------------ function calls *)
Lemma safe_loc_rt l : safe_loc l = true ->
  mkLoc (dec (toxml (l_file l))) (wrap32 (l_line l)) (wrap32 (l_col l)) = l.
Proof.
  unfold safe_loc. intro H. apply andb_prop in H as [H H3]. apply andb_prop in H as [H1 H2].
  rewrite dec_toxml_safe, !wrap32_id by assumption. destruct l; reflexivity.
Qed.

Lemma load_path_rt : forall p, forallb safe_floc p = true -> load_path (map path_to_xml p) false = (p, false).
Proof.
  induction p as [|x p IH]; intro H; [reflexivity|].
  cbn [forallb] in H. apply andb_prop in H as [Hx Hp].
  cbn [map]. unfold path_to_xml at 1. rewrite load_path_generic. rewrite (IH Hp).
  unfold safe_floc in Hx.
  apply andb_prop in Hx as [Hx H4]. apply andb_prop in Hx as [Hx H3]. apply andb_prop in Hx as [H1 H2].
  rewrite !dec_toxml_safe, wrap32_id, wrapu32_id by assumption. destruct x; reflexivity.
Qed.

Theorem fc_roundtrip : forall nm f, safe_fc f = true -> load_fc (fc_to_xml nm f) = Some f.
Proof.
  intros nm f H. unfold safe_fc in H.
  apply andb_prop in H as [H H8]. apply andb_prop in H as [H H7]. apply andb_prop in H as [H H6].
  apply andb_prop in H as [H H5]. apply andb_prop in H as [H H4]. apply andb_prop in H as [H H3].
  apply andb_prop in H as [H1 H2].
  unfold fc_to_xml, base_attrs. rewrite load_fc_generic. rewrite (load_path_rt _ H8).
  rewrite H7.
  rewrite (dec_wr _ _ H1), (wrap32_id _ H2), (dec_toxml_safe _ H3), (safe_loc_rt _ H4), (dec_toxml_safe _ H5).
  apply andb_prop in H6 as [H6a H6b]. apply Z.leb_le in H6a. apply Z.ltb_lt in H6b.
  rewrite Z.mod_small by lia. destruct f; reflexivity.
Qed.

Theorem nc_roundtrip : forall nm n, safe_nc n = true -> load_nc (nc_to_xml nm n) = Some n.
Proof.
  intros nm n H. unfold safe_nc in H.
  apply andb_prop in H as [H H6]. apply andb_prop in H as [H H5]. apply andb_prop in H as [H H4].
  apply andb_prop in H as [H H3]. apply andb_prop in H as [H1 H2].
  unfold nc_to_xml, base_attrs. rewrite load_nc_generic.
  rewrite (dec_wr _ _ H1), (wrap32_id _ H2), (dec_toxml_safe _ H3), (safe_loc_rt _ H4), (dec_wr _ _ H5), (wrap32_id _ H6).
  destruct n; reflexivity.
Qed.

Lemma nc_as_fc_rejected : forall nm n, load_fc (nc_to_xml nm n) = None.
Proof. intros. unfold nc_to_xml, base_attrs. apply load_fc_of_nested_generic. Qed.

(* ------------------------------------------------------------------ the CTU file info *)
Definition nm_ok (nm : names) : Prop :=
  n_fc_w nm = n_fc_r nm /\ n_nc_w nm = n_nc_r nm /\ n_fc_r nm <> n_nc_r nm /\ n_uu_w nm = n_uu_r nm.

Lemma nm_okb_ok nm : nm_okb nm = true <-> nm_ok nm.
Proof.
  unfold nm_okb, nm_ok. rewrite !andb_true_iff, negb_true_iff, !str_eqb_eq.
  split.
  - intros [[[A B] C] D]. repeat split; try assumption.
    intro E. apply str_eqb_eq in E. congruence.
  - intros (A & B & C & D). repeat split; try assumption.
    apply not_true_iff_false. intro E. apply str_eqb_eq in E. contradiction.
Qed.

Lemma str_eqb_refl s : str_eqb s s = true.
Proof. apply str_eqb_eq. reflexivity. Qed.

Lemma str_eqb_neq a b : a <> b -> str_eqb a b = false.
Proof. intro H. apply not_true_iff_false. intro E. apply str_eqb_eq in E. contradiction. Qed.

Lemma load_ctu_ncs : forall nm ncs, nm_ok nm -> forallb safe_nc ncs = true ->
    load_ctu nm (map (nc_to_xml nm) ncs) = mkCtu [] ncs.
Proof.
  intros nm ncs (Hf & Hn & Hd & _). induction ncs as [|n ncs IH]; intro H; [reflexivity|].
  cbn [forallb] in H. apply andb_prop in H as [Hx Hr].
  cbn [map load_ctu]. rewrite (IH Hr).
  change (xname (nc_to_xml nm n)) with (n_nc_w nm).
  rewrite Hn. rewrite (str_eqb_neq (n_nc_r nm) (n_fc_r nm)) by congruence.
  rewrite str_eqb_refl. rewrite (nc_roundtrip nm n Hx). reflexivity.
Qed.

Theorem ctu_roundtrip : forall nm c, nm_ok nm -> safe_ctu c = true -> load_ctu nm (ctu_to_xml nm c) = c.
Proof.
  intros nm [fcs ncs] Hok H. unfold safe_ctu in H. cbn [c_fcs c_ncs] in H. apply andb_prop in H as [Hf Hn].
  unfold ctu_to_xml. cbn [c_fcs c_ncs].
  induction fcs as [|f fcs IH].
  - cbn [map app]. apply load_ctu_ncs; assumption.
  - cbn [forallb] in Hf. apply andb_prop in Hf as [Hx Hr].
    cbn [map app load_ctu]. rewrite (IH Hr).
    change (xname (fc_to_xml nm f)) with (n_fc_w nm).
    destruct Hok as (Hfw & _). rewrite Hfw, str_eqb_refl. rewrite (fc_roundtrip nm f Hx). reflexivity.
Qed.

(* names of the unrepaired code: nested calls are written under the name the FunctionCall loader reads *)
Definition nm_nested_as_fc (nm : names) : Prop :=
  n_fc_w nm = n_fc_r nm /\ n_nc_w nm = n_fc_r nm.

Lemma load_ctu_ncs_dropped : forall nm ncs, nm_nested_as_fc nm ->
    load_ctu nm (map (nc_to_xml nm) ncs) = mkCtu [] [].
Proof.
  intros nm ncs (Hf & Hn). induction ncs as [|n ncs IH]; [reflexivity|].
  cbn [map load_ctu]. rewrite IH.
  change (xname (nc_to_xml nm n)) with (n_nc_w nm).
  rewrite Hn, str_eqb_refl. rewrite nc_as_fc_rejected. reflexivity.
Qed.

(* exactly the nested calls are lost, everything else comes back *)
Theorem ctu_roundtrip_drops_nested : forall nm c, nm_nested_as_fc nm -> forallb safe_fc (c_fcs c) = true ->
    load_ctu nm (ctu_to_xml nm c) = mkCtu (c_fcs c) [].
Proof.
  intros nm [fcs ncs] Hok Hf. unfold ctu_to_xml. cbn [c_fcs c_ncs] in *.
  induction fcs as [|f fcs IH].
  - cbn [map app]. apply load_ctu_ncs_dropped; assumption.
  - cbn [forallb] in Hf. apply andb_prop in Hf as [Hx Hr].
    cbn [map app load_ctu]. rewrite (IH Hr).
    change (xname (fc_to_xml nm f)) with (n_fc_w nm).
    destruct Hok as (Hfw & _). rewrite Hfw, str_eqb_refl. rewrite (fc_roundtrip nm f Hx). reflexivity.
Qed.

Lemma names_unfixed_nested_as_fc : nm_nested_as_fc names_unfixed.
Proof. split; reflexivity. Qed.

Lemma names_fixed_ok : nm_ok names_fixed.
Proof. apply nm_okb_ok. reflexivity. Qed.

(* ------------------------------------------------------------------ unsafe usage *)
Theorem uu_roundtrip : forall nm u, safe_uu u = true -> load_uu (uu_to_xml nm u) = Some u.
Proof.
  intros nm u H. unfold safe_uu in H.
  apply andb_prop in H as [H H4]. apply andb_prop in H as [H H3]. apply andb_prop in H as [H1 H2].
  unfold uu_to_xml. rewrite load_uu_generic.
  rewrite (dec_wr _ _ H1), (wrap32_id _ H2), (dec_wr _ _ H3), (safe_loc_rt _ H4).
  destruct u; reflexivity.
Qed.

Theorem uus_roundtrip : forall nm l, n_uu_w nm = n_uu_r nm -> forallb safe_uu l = true ->
    load_uus nm (uus_to_xml nm l) = l.
Proof.
  intros nm l Hn. induction l as [|u l IH]; intro H; [reflexivity|].
  cbn [forallb] in H. apply andb_prop in H as [Hx Hr].
  unfold uus_to_xml in *. cbn [map load_uus].
  change (xname (uu_to_xml nm u)) with (n_uu_w nm).
  rewrite Hn, str_eqb_refl. cbn [negb]. rewrite (uu_roundtrip nm u Hx), (IH Hr). reflexivity.
Qed.

Theorem buf_roundtrip : forall nm a p, n_uu_w nm = n_uu_r nm -> forallb safe_uu a = true -> forallb safe_uu p = true ->
    load_buf nm (buf_to_xml nm a p) = (a, p).
Proof.
  intros nm a p Hn Ha Hp. unfold load_buf, buf_to_xml.
  destruct a as [|a0 a]; destruct p as [|p0 p]; try reflexivity.
  - cbn [app load_buf_acc xname xchildren fst snd]. change (str_eqb E_POINTER_ARITH E_ARRAY_INDEX) with false.
    change (str_eqb E_POINTER_ARITH E_POINTER_ARITH) with true. cbv iota.
    rewrite (uus_roundtrip nm (p0 :: p) Hn Hp). reflexivity.
  - cbn [app load_buf_acc xname xchildren fst snd]. change (str_eqb E_ARRAY_INDEX E_ARRAY_INDEX) with true. cbv iota.
    rewrite (uus_roundtrip nm (a0 :: a) Hn Ha). reflexivity.
  - cbn [app load_buf_acc xname xchildren fst snd]. change (str_eqb E_ARRAY_INDEX E_ARRAY_INDEX) with true. cbv iota.
    change (str_eqb E_POINTER_ARITH E_ARRAY_INDEX) with false.
    change (str_eqb E_POINTER_ARITH E_POINTER_ARITH) with true. cbv iota.
    rewrite (uus_roundtrip nm (a0 :: a) Hn Ha), (uus_roundtrip nm (p0 :: p) Hn Hp). reflexivity.
Qed.

(* ------------------------------------------------------------------ one-definition rule *)
Theorem odr_roundtrip : forall l, forallb safe_nl l = true -> load_odr (map nl_to_xml l) = l.
Proof.
  induction l as [|n l IH]; intro H; [reflexivity|].
  cbn [forallb] in H. apply andb_prop in H as [Hx Hr].
  cbn [map load_odr]. change (xname (nl_to_xml n)) with E_CLASS.
  change (str_eqb E_CLASS E_CLASS) with true. cbn [negb].
  rewrite (IH Hr). unfold nl_to_xml. rewrite load_nl_generic.
  unfold safe_nl in Hx.
  apply andb_prop in Hx as [Hx H6]. apply andb_prop in Hx as [Hx H5]. apply andb_prop in Hx as [Hx H4].
  apply andb_prop in Hx as [Hx H3]. apply andb_prop in Hx as [H1 H2].
  rewrite !dec_toxml_safe, !wrap32_id by assumption.
  apply andb_prop in H6 as [H6a H6b]. apply Z.leb_le in H6a. apply Z.ltb_lt in H6b.
  rewrite Z.mod_small by lia. destruct n; reflexivity.
Qed.

(* ------------------------------------------------------------------ unused functions (build-dir form) *)
Lemma load_unused_decl : forall src d rest,
    load_unused src (fd_to_xml d :: rest) =
    let u := load_unused src rest in
    mkUI (mkFD (dec (toxml (fd_file d))) (dec (toxml (fd_name d))) (wrap32 (fd_line d)) (wrap32 (fd_col d)) :: ui_decls u) (ui_calls u).
Proof. intros. reflexivity. Qed.

Lemma load_unused_call : forall src n rest,
    load_unused src (fcn_to_xml n :: rest) =
    let u := load_unused src rest in mkUI (ui_decls u) (dec (toxml n) :: ui_calls u).
Proof. intros. reflexivity. Qed.

Theorem unused_roundtrip : forall src u, safe_ui u = true -> load_unused src (unused_to_xml u) = u.
Proof.
  intros src [ds cs] H. unfold safe_ui in H. cbn [ui_decls ui_calls] in H. apply andb_prop in H as [Hd Hc].
  unfold unused_to_xml. cbn [ui_decls ui_calls].
  induction ds as [|d ds IH].
  - cbn [map app]. induction cs as [|c cs IHc]; [reflexivity|].
    cbn [forallb] in Hc. apply andb_prop in Hc as [Hx Hr].
    cbn [map]. rewrite load_unused_call. rewrite (IHc Hr). cbn [ui_decls ui_calls].
    rewrite (dec_toxml_safe _ Hx). reflexivity.
  - cbn [forallb] in Hd. apply andb_prop in Hd as [Hx Hr].
    cbn [map app]. rewrite load_unused_decl. rewrite (IH Hr). cbn [ui_decls ui_calls].
    unfold safe_fd in Hx.
    apply andb_prop in Hx as [Hx H4]. apply andb_prop in Hx as [Hx H3]. apply andb_prop in Hx as [H1 H2].
    rewrite !dec_toxml_safe, !wrap32_id by assumption. destruct d; reflexivity.
Qed.

(* ------------------------------------------------------------------ a whole per-file summary *)
Theorem store_load : forall nm s, nm_ok nm -> safe_fsum s = true -> load nm (store nm s) = s.
Proof.
  intros nm s Hok H. unfold safe_fsum in H.
  apply andb_prop in H as [H H6]. apply andb_prop in H as [H H5]. apply andb_prop in H as [H H4].
  apply andb_prop in H as [H H3]. apply andb_prop in H as [H1 H2].
  pose proof Hok as (_ & _ & _ & Hu).
  unfold load, store. cbn [t_file0 t_ctu t_null t_uninit t_buf t_odr].
  rewrite (ctu_roundtrip nm _ Hok H1), (uus_roundtrip nm _ Hu H2), (uus_roundtrip nm _ Hu H3),
    (buf_roundtrip nm _ _ Hu H4 H5), (odr_roundtrip _ H6).
  destruct s; reflexivity.
Qed.

Theorem wp_storage_independent : forall nm depth warn l, nm_ok nm -> forallb safe_fsum l = true ->
    whole_program depth warn (map (fun s => load nm (store nm s)) l) = whole_program depth warn l.
Proof.
  intros nm depth warn l Hok H.
  replace (map (fun s => load nm (store nm s)) l) with l; [reflexivity|].
  induction l as [|s l IH]; [reflexivity|].
  cbn [forallb] in H. apply andb_prop in H as [Hx Hr].
  cbn [map]. rewrite (store_load nm s Hok Hx). f_equal. apply IH. exact Hr.
Qed.

(* ------------------------------------------------------------------ several configurations per file *)
Theorem ctu_blocks_roundtrip : forall nm cs, nm_ok nm -> forallb safe_ctu cs = true ->
    load_ctu_blocks nm (map (ctu_to_xml nm) cs) = ctu_merge cs.
Proof.
  intros nm cs Hok H. unfold load_ctu_blocks. f_equal. rewrite map_map.
  induction cs as [|c cs IH]; [reflexivity|].
  cbn [forallb] in H. apply andb_prop in H as [Hx Hr].
  cbn [map]. rewrite (ctu_roundtrip nm c Hok Hx), (IH Hr). reflexivity.
Qed.

Theorem file_roundtrip : forall nm cfgs, nm_ok nm -> forallb safe_fsum cfgs = true ->
    load_file nm (store_file nm cfgs) = cfgs.
Proof.
  intros nm cfgs Hok H. unfold load_file, store_file. rewrite map_map.
  induction cfgs as [|s l IH]; [reflexivity|].
  cbn [forallb] in H. apply andb_prop in H as [Hx Hr].
  cbn [map]. rewrite (store_load nm s Hok Hx), (IH Hr). reflexivity.
Qed.

(* files = per-file lists of per-configuration summaries; in memory the whole-program analysis sees their concatenation *)
Theorem wp_storage_independent_multicfg : forall nm depth warn (files : list (list fsum)), nm_ok nm ->
    forallb (forallb safe_fsum) files = true ->
    whole_program depth warn (concat (map (fun cfgs => load_file nm (store_file nm cfgs)) files))
    = whole_program depth warn (concat files).
Proof.
  intros nm depth warn files Hok H. f_equal. f_equal.
  induction files as [|f files IH]; [reflexivity|].
  cbn [forallb] in H. apply andb_prop in H as [Hx Hr].
  cbn [map]. rewrite (file_roundtrip nm f Hok Hx), (IH Hr). reflexivity.
Qed.
