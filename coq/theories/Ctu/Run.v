(* Entry point of the extracted executable for C22: decodes a case, runs the model, encodes the result.
   The element names are those regenerated from lib/ctu.cpp (Gen_Names.gen_names). *)
From CV Require Import Base.Bytes Ctu.Defs Ctu.Gen_Names.
Local Open Scope N_scope.

Definition zd (s : str) : Z := match Z_of_dec s with Some z => z | None => 0%Z end.
Definition nd (s : str) : N := match N_of_dec s with Some z => z | None => 0 end.

Definition BAD : list str := [[66]].        (* "B": malformed case *)
Definition UNMODELLED : list str := [[85]]. (* "U": outside the modelled fragment; counted, not compared *)

Fixpoint take_n {A} (f : list str -> option (A * list str)) (n : nat) (l : list str) : option (list A * list str) :=
  match n with
  | O => Some ([], l)
  | S n' => match f l with
            | None => None
            | Some (a, r) => match take_n f n' r with
                             | None => None
                             | Some (as_, r') => Some (a :: as_, r')
                             end
            end
  end.

Definition take_list {A} (f : list str -> option (A * list str)) (l : list str) : option (list A * list str) :=
  match l with
  | cnt :: r => take_n f (N.to_nat (nd cnt)) r
  | [] => None
  end.

Definition take_floc (l : list str) : option (floc * list str) :=
  match l with
  | file :: line :: col :: info :: r => Some (mkFloc file (zd line) (zd col) info, r)
  | _ => None
  end.

Definition take_fc (l : list str) : option (fcall * list str) :=
  match l with
  | id :: argnr :: fname :: file :: line :: col :: ae :: vt :: v :: ufr :: w :: r =>
      match take_list take_floc r with
      | Some (p, r') => Some (mkFC id (zd argnr) fname (mkLoc file (zd line) (zd col)) ae (zd vt) (zd v) (zd ufr) (bool_of_str w) p, r')
      | None => None
      end
  | _ => None
  end.

Definition take_nc (l : list str) : option (ncall * list str) :=
  match l with
  | id :: argnr :: fname :: file :: line :: col :: myid :: myargnr :: r =>
      Some (mkNC id (zd argnr) fname (mkLoc file (zd line) (zd col)) myid (zd myargnr), r)
  | _ => None
  end.

Definition take_uu (l : list str) : option (uusage * list str) :=
  match l with
  | myid :: myargnr :: argname :: file :: line :: col :: v :: r =>
      Some (mkUU myid (zd myargnr) argname (mkLoc file (zd line) (zd col)) (zd v), r)
  | _ => None
  end.

Definition take_ctu (l : list str) : option (ctu * list str) :=
  match take_list take_fc l with
  | Some (fcs, r) => match take_list take_nc r with
                     | Some (ncs, r') => Some (mkCtu fcs ncs, r')
                     | None => None
                     end
  | None => None
  end.

Definition cnt {A} (l : list A) : str := dec_of_N (N.of_nat (length l)).

Definition floc_out (p : floc) : list str := [fl_file p; dec_of_Z (fl_line p); dec_of_Z (fl_col p); fl_info p].
Definition fc_out (f : fcall) : list str :=
  [fc_id f; dec_of_Z (fc_argnr f); fc_fname f; l_file (fc_loc f); dec_of_Z (l_line (fc_loc f)); dec_of_Z (l_col (fc_loc f));
   fc_argexpr f; dec_of_Z (fc_vtype f); dec_of_Z (fc_value f); dec_of_Z (fc_ufr f); str_of_bool (fc_warning f);
   cnt (fc_path f)] ++ flat_map floc_out (fc_path f).
Definition nc_out (n : ncall) : list str :=
  [nc_id n; dec_of_Z (nc_argnr n); nc_fname n; l_file (nc_loc n); dec_of_Z (l_line (nc_loc n)); dec_of_Z (l_col (nc_loc n));
   nc_myid n; dec_of_Z (nc_myargnr n)].
Definition uu_out (u : uusage) : list str :=
  [u_myid u; dec_of_Z (u_myargnr u); u_argname u; l_file (u_loc u); dec_of_Z (l_line (u_loc u)); dec_of_Z (l_col (u_loc u));
   dec_of_Z (u_value u)].
Definition ctu_out (c : ctu) : list str :=
  cnt (c_fcs c) :: flat_map fc_out (c_fcs c) ++ cnt (c_ncs c) :: flat_map nc_out (c_ncs c).
Definition finding_out (f : finding) : list str :=
  [f_id f; dec_of_N (f_sev f); f_msg f; f_file0 f; cnt (f_locs f)] ++ flat_map floc_out (f_locs f).
Definition findings_out (l : list finding) : list str := cnt l :: flat_map finding_out l.

Definition tag_is (t : str) (name : str) : bool := str_eqb t name.

Definition T_TOXML : str := [116;111;120;109;108].          (* "toxml" *)
Definition T_RAWATTR : str := [114;97;119;97;116;116;114].  (* "rawattr" *)
Definition T_CTU : str := [99;116;117].                     (* "ctu" *)
Definition T_UU : str := [117;117].                         (* "uu" *)
Definition T_WP : str := [119;112].                         (* "wp" *)
Definition T_CTUCFGS : str := [99;116;117;99;102;103;115]. (* "ctucfgs" *)
Definition T_NAMESOK : str := [110;97;109;101;115;111;107]. (* "namesok" *)

Definition run (fields : list str) : list str :=
  let nm := gen_names in
  match fields with
  | [] => BAD
  | tag :: args =>
      if tag_is tag T_TOXML then
        match args with [s] => [toxml s; dec (toxml s)] | _ => BAD end
      else if tag_is tag T_RAWATTR then
        match args with [s] => if raw_ok s then [dec s] else UNMODELLED | _ => BAD end
      else if tag_is tag T_CTU then
        match take_ctu args with
        | Some (c, _) =>
            let x := ctu_to_xml nm c in
            if forallb xml_ok x then ctu_out (load_ctu nm x) else UNMODELLED
        | None => BAD
        end
      else if tag_is tag T_CTUCFGS then
        (* ncfg ctu*: one <FileInfo check="ctu"> block per configuration in one analyzer-info file, all read back *)
        match take_list take_ctu args with
        | Some (cs, _) =>
            let blocks := map (ctu_to_xml nm) cs in
            if forallb (forallb xml_ok) blocks then ctu_out (load_ctu_blocks nm blocks) else UNMODELLED
        | None => BAD
        end
      else if tag_is tag T_UU then
        match take_list take_uu args with
        | Some (us, _) =>
            let x := uus_to_xml nm us in
            if forallb xml_ok x then cnt (load_uus nm x) :: flat_map uu_out (load_uus nm x) else UNMODELLED
        | None => BAD
        end
      else if tag_is tag T_WP then
        (* kind warn depth mode file0 ctu uus *)
        match args with
        | kind :: warn :: depth :: mode :: file0 :: r =>
            match take_ctu r with
            | Some (c, r') =>
                match take_list take_uu r' with
                | Some (us, _) =>
                    let xc := ctu_to_xml nm c in
                    let xu := uus_to_xml nm us in
                    (* the harness can obtain a check's own FileInfo only by loading it (twice): the unescaped
                       attributes of the unsafe usages must be stable under decoding *)
                    if negb (forallb xml_ok xu) || negb (forallb (fun u => raw_plain (u_myid u) && raw_plain (u_argname u)) us)
                       || (bool_of_str mode && negb (forallb xml_ok xc)) then UNMODELLED
                    else
                      let c' := if bool_of_str mode then load_ctu nm xc else c in
                      let us' := load_uus nm xu in
                      let d := N.to_nat (nd depth) in
                      let k := nd kind in
                      findings_out
                        (if k =? 0 then flat_map (null_finding c' d (bool_of_str warn) file0) us'
                         else if k =? 1 then flat_map (uninit_finding c' d file0) us'
                         else if k =? 2 then flat_map (buf_finding c' d true file0) us'
                         else flat_map (buf_finding c' d false file0) us')
                | None => BAD
                end
            | None => BAD
            end
        | _ => BAD
        end
      else if tag_is tag T_NAMESOK then [str_of_bool (nm_okb nm)]
      else BAD
  end.
