(* The theorems instantiated with the element names regenerated from the current lib/ctu.cpp
   (Gen_Names.gen_names).  `current_names_ok` is an obligation on the source: it fails to check as
   soon as a writer's element name differs from its reader's again. *)
From CV Require Import Base.Bytes Ctu.Defs Ctu.RoundTrip Ctu.Gen_Names.

Lemma current_names_ok : nm_ok gen_names.
Proof. apply nm_okb_ok. vm_compute. reflexivity. Qed.

Lemma current_ctu_roundtrip : forall c, safe_ctu c = true -> load_ctu gen_names (ctu_to_xml gen_names c) = c.
Proof. intros c H. apply ctu_roundtrip; [exact current_names_ok|exact H]. Qed.

Lemma current_store_load : forall s, safe_fsum s = true -> load gen_names (store gen_names s) = s.
Proof. intros s H. apply store_load; [exact current_names_ok|exact H]. Qed.

Lemma current_wp_storage_independent : forall depth warn l, forallb safe_fsum l = true ->
    whole_program depth warn (map (fun s => load gen_names (store gen_names s)) l) = whole_program depth warn l.
Proof. intros. apply wp_storage_independent; [exact current_names_ok|assumption]. Qed.
