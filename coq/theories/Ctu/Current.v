(* The theorems instantiated with the element names regenerated from the current lib/ctu.cpp
   (Gen_Names.gen_names).  `current_names_ok` is an obligation on the source: it fails to check as
   soon as a writer's element name differs from its reader's again. *)
From CV Require Import Base.Bytes Ctu.Defs Ctu.XmlProofs Ctu.RoundTrip Ctu.Gen_Names.

Lemma current_names_ok : nm_ok gen_names.
Proof. apply nm_okb_ok. vm_compute. reflexivity. Qed.

Lemma current_ctu_roundtrip : forall c, safe_ctu c = true -> load_ctu gen_names (ctu_to_xml gen_names c) = c.
Proof. intros c H. apply ctu_roundtrip; [exact current_names_ok|exact H]. Qed.

Lemma current_store_load : forall s, safe_fsum s = true -> load gen_names (store gen_names s) = s.
Proof. intros s H. apply store_load; [exact current_names_ok|exact H]. Qed.

Lemma current_wp_storage_independent : forall depth warn l, forallb safe_fsum l = true ->
    whole_program depth warn (map (fun s => load gen_names (store gen_names s)) l) = whole_program depth warn l.
Proof. intros. apply wp_storage_independent; [exact current_names_ok|assumption]. Qed.

Lemma current_wp_storage_independent_multicfg : forall depth warn (files : list (list fsum)),
    forallb (forallb safe_fsum) files = true ->
    whole_program depth warn (concat (map (fun cfgs => load_file gen_names (store_file gen_names cfgs)) files))
    = whole_program depth warn (concat files).
Proof. intros. apply wp_storage_independent_multicfg; [exact current_names_ok|assumption]. Qed.

(* ids and argument names are written through ErrorLogger::toxml (fix cf4f724): obligation on the source *)
Definition ids_escb (nm : names) : bool := e_callid nm && e_ncmyid nm && e_uumyid nm && e_uuarg nm.

Lemma current_ids_escaped : ids_escb gen_names = true.
Proof. vm_compute. reflexivity. Qed.

Lemma ids_esc_flags nm : ids_escb nm = true ->
  e_callid nm = true /\ e_ncmyid nm = true /\ e_uumyid nm = true /\ e_uuarg nm = true.
Proof. unfold ids_escb. rewrite !andb_true_iff. tauto. Qed.

(* whatever bytes a file name contains, the written id never breaks the attribute ... *)
Lemma current_id_wellformed : forall s,
    raw_ok (wr (e_callid gen_names) s) = true /\ raw_ok (wr (e_ncmyid gen_names) s) = true /\
    raw_ok (wr (e_uumyid gen_names) s) = true /\ raw_ok (wr (e_uuarg gen_names) s) = true.
Proof.
  intro s. destruct (ids_esc_flags _ current_ids_escaped) as (A & B & C & D).
  rewrite A, B, C, D. cbn [wr]. repeat split; apply toxml_raw_ok.
Qed.

(* ... and comes back unchanged on the whole lossless domain, double quote and ampersand included *)
Lemma current_id_roundtrip : forall s, safe_str s = true ->
    dec (wr (e_callid gen_names) s) = s /\ dec (wr (e_ncmyid gen_names) s) = s /\
    dec (wr (e_uumyid gen_names) s) = s /\ dec (wr (e_uuarg gen_names) s) = s.
Proof.
  intros s H. destruct (ids_esc_flags _ current_ids_escaped) as (A & B & C & D).
  rewrite A, B, C, D. cbn [wr]. repeat split; apply XmlProofs.dec_toxml_safe; exact H.
Qed.
