(* toxml followed by tinyxml2's attribute decoding: what survives (all strings), and when nothing is lost. *)
From CV Require Import Base.Bytes Ctu.Defs.
Require Import Lia.
Local Open Scope N_scope.

Lemma ocons_app c o : ocons c o = option_map (app [c]) o.
Proof. destruct o; reflexivity. Qed.

(* an entity body followed by ';' *)
Lemma decode_entity_acc : forall name acc v rest,
    entity_value (rev acc ++ name) = Some v ->
    (forall c, In c name -> c <> 59) ->
    (length acc + length name <= 8)%nat ->
    decode_st (DEntity acc) (name ++ 59 :: rest) = ocons v (decode_st DNormal rest).
Proof.
  induction name as [|c name IH]; intros acc v rest Hv Hns Hlen.
  - cbn [app decode_st]. rewrite N.eqb_refl. rewrite app_nil_r in Hv. rewrite Hv. reflexivity.
  - cbn [app decode_st].
    assert (c <> 59) by (apply Hns; left; reflexivity).
    destruct (c =? 59) eqn:E; [apply N.eqb_eq in E; contradiction|].
    cbn [length] in Hlen.
    destruct (8 <=? N.of_nat (length acc)) eqn:E8; [apply N.leb_le in E8; lia|].
    apply IH.
    + cbn [rev]. rewrite <- app_assoc. exact Hv.
    + intros c' Hc'. apply Hns. right. exact Hc'.
    + cbn [length]. lia.
Qed.

Lemma decode_entity : forall name v rest,
    entity_value name = Some v ->
    forallb (fun c => negb (c =? 59)) name = true ->
    (length name <=? 8)%nat = true ->
    decode_st DNormal (38 :: name ++ 59 :: rest) = ocons v (decode_st DNormal rest).
Proof.
  intros name v rest Hv Hns Hlen.
  change (decode_st DNormal (38 :: name ++ 59 :: rest)) with (decode_st (DEntity []) (name ++ 59 :: rest)).
  apply decode_entity_acc.
  - exact Hv.
  - intros c Hc. rewrite forallb_forall in Hns. specialize (Hns c Hc).
    intro; subst c. discriminate.
  - apply Nat.leb_le in Hlen. cbn [length]. lia.
Qed.

Lemma decode_plain_char : forall c rest,
    (c =? 0) = false -> (c =? 38) = false -> (c =? 13) = false -> (c =? 10) = false ->
    decode_st DNormal (c :: rest) = ocons c (decode_st DNormal rest).
Proof. intros c rest H0 H38 H13 H10. cbn [decode_st]. rewrite H0, H38, H13, H10. reflexivity. Qed.

Lemma decode_toxml_char : forall c rest,
    decode_st DNormal (toxml_char c ++ rest) = option_map (app (lossy_char c)) (decode_st DNormal rest).
Proof.
  intros c rest. unfold toxml_char, lossy_char.
  destruct (c =? 60) eqn:E60.
  { apply N.eqb_eq in E60; subst c.
    change ([38;108;116;59] ++ rest) with (38 :: [108;116] ++ 59 :: rest).
    rewrite (decode_entity [108;116] 60) by reflexivity. cbn. apply ocons_app. }
  destruct (c =? 62) eqn:E62.
  { apply N.eqb_eq in E62; subst c.
    change ([38;103;116;59] ++ rest) with (38 :: [103;116] ++ 59 :: rest).
    rewrite (decode_entity [103;116] 62) by reflexivity. cbn. apply ocons_app. }
  destruct (c =? 38) eqn:E38.
  { apply N.eqb_eq in E38; subst c.
    change ([38;97;109;112;59] ++ rest) with (38 :: [97;109;112] ++ 59 :: rest).
    rewrite (decode_entity [97;109;112] 38) by reflexivity. cbn. apply ocons_app. }
  destruct (c =? 34) eqn:E34.
  { apply N.eqb_eq in E34; subst c.
    change ([38;113;117;111;116;59] ++ rest) with (38 :: [113;117;111;116] ++ 59 :: rest).
    rewrite (decode_entity [113;117;111;116] 34) by reflexivity. cbn. apply ocons_app. }
  destruct (c =? 39) eqn:E39.
  { apply N.eqb_eq in E39; subst c.
    change ([38;97;112;111;115;59] ++ rest) with (38 :: [97;112;111;115] ++ 59 :: rest).
    rewrite (decode_entity [97;112;111;115] 39) by reflexivity. cbn. apply ocons_app. }
  destruct (c =? 0) eqn:E0.
  { apply N.eqb_eq in E0; subst c. cbn.
    destruct (decode_st DNormal rest); reflexivity. }
  destruct (c =? 10) eqn:E10.
  { apply N.eqb_eq in E10; subst c.
    change ([38;35;49;48;59] ++ rest) with (38 :: [35;49;48] ++ 59 :: rest).
    rewrite (decode_entity [35;49;48] 10) by reflexivity. cbn. apply ocons_app. }
  destruct (c =? 9) eqn:E9.
  { apply N.eqb_eq in E9; subst c.
    change ([38;35;48;57;59] ++ rest) with (38 :: [35;48;57] ++ 59 :: rest).
    rewrite (decode_entity [35;48;57] 9) by reflexivity. cbn. apply ocons_app. }
  destruct (c =? 13) eqn:E13.
  { apply N.eqb_eq in E13; subst c.
    change ([38;35;49;51;59] ++ rest) with (38 :: [35;49;51] ++ 59 :: rest).
    rewrite (decode_entity [35;49;51] 13) by reflexivity. cbn. apply ocons_app. }
  cbn [orb].
  destruct ((32 <=? c) && (c <=? 127)) eqn:Er.
  - cbn [app]. rewrite decode_plain_char by assumption. apply ocons_app.
  - cbn [app]. rewrite decode_plain_char by reflexivity. apply ocons_app.
Qed.

(* for every string: decoding what toxml wrote succeeds and gives `lossy s` *)
Theorem decode_toxml : forall s, decode (toxml s) = Some (lossy s).
Proof.
  unfold decode. induction s as [|c s IH].
  - reflexivity.
  - unfold toxml, lossy in *. cbn [flat_map]. rewrite decode_toxml_char, IH. reflexivity.
Qed.

Lemma lossy_char_safe c : safe_char c = true -> lossy_char c = [c].
Proof.
  unfold safe_char, lossy_char. intro H.
  destruct (c =? 0) eqn:E0.
  - apply N.eqb_eq in E0; subst c. discriminate.
  - rewrite H. reflexivity.
Qed.

Lemma lossy_safe : forall s, safe_str s = true -> lossy s = s.
Proof.
  induction s as [|c s IH]; intro H; [reflexivity|].
  unfold safe_str in H. cbn [forallb] in H. apply andb_prop in H as [Hc Hs].
  unfold lossy. cbn [flat_map]. rewrite lossy_char_safe by exact Hc.
  fold (lossy s). rewrite IH by exact Hs. reflexivity.
Qed.

(* and the other direction: lossy s = s only for safe strings, so `safe_str` is exactly the lossless domain *)
Lemma lossy_char_len1 c : lossy_char c = [c] -> safe_char c = true.
Proof.
  unfold lossy_char, safe_char.
  destruct (c =? 0) eqn:E0; [discriminate|].
  destruct ((c =? 9) || (c =? 10) || (c =? 13) || (32 <=? c) && (c <=? 127)) eqn:E; [reflexivity|].
  intro H. inversion H; subst c. discriminate.
Qed.

Lemma lossy_char_length c : (1 <= length (lossy_char c))%nat.
Proof. unfold lossy_char. repeat match goal with |- context [if ?b then _ else _] => destruct b end; cbn; lia. Qed.

Lemma lossy_length : forall s, (length s <= length (lossy s))%nat.
Proof.
  induction s as [|c s IH]; [cbn; lia|].
  unfold lossy in *. cbn [flat_map]. rewrite app_length. pose proof (lossy_char_length c). cbn [length]. lia.
Qed.

Lemma lossy_fixed_safe : forall s, lossy s = s -> safe_str s = true.
Proof.
  induction s as [|c s IH]; intro H; [reflexivity|].
  unfold lossy in H. cbn [flat_map] in H. fold (lossy s) in H.
  assert (Hl : length (lossy_char c ++ lossy s) = length (c :: s)) by (rewrite H; reflexivity).
  rewrite app_length in Hl. cbn [length] in Hl.
  pose proof (lossy_length s). pose proof (lossy_char_length c).
  assert (Hc1 : length (lossy_char c) = 1%nat) by lia.
  destruct (lossy_char c) as [|x [|y r]] eqn:El; cbn in Hc1; try discriminate.
  cbn [app] in H. injection H as Hx Hs. subst x.
  unfold safe_str. cbn [forallb]. rewrite (lossy_char_len1 c El). cbn [andb]. apply IH. exact Hs.
Qed.

Theorem dec_toxml_safe : forall s, safe_str s = true -> dec (toxml s) = s.
Proof. intros s H. unfold dec. rewrite decode_toxml, lossy_safe by exact H. reflexivity. Qed.

Theorem dec_toxml : forall s, dec (toxml s) = lossy s.
Proof. intros s. unfold dec. rewrite decode_toxml. reflexivity. Qed.

(* unescaped attributes: text without NUL, LF, CR, double quote and ampersand is read back unchanged *)
Lemma decode_raw_plain : forall s, raw_plain s = true -> decode s = Some s.
Proof.
  unfold decode. induction s as [|c s IH]; intro H; [reflexivity|].
  unfold raw_plain in H. cbn [forallb] in H. apply andb_prop in H as [Hc Hs].
  unfold raw_plain_char in Hc. apply negb_true_iff in Hc.
  repeat (apply orb_false_iff in Hc; destruct Hc as [Hc ?]).
  rewrite decode_plain_char by assumption.
  fold (raw_plain s) in Hs. rewrite IH by exact Hs. reflexivity.
Qed.

Lemma dec_raw_plain : forall s, raw_plain s = true -> dec s = s.
Proof. intros s H. unfold dec. rewrite decode_raw_plain by exact H. reflexivity. Qed.

Lemma raw_plain_ok : forall s, raw_plain s = true -> raw_ok s = true.
Proof.
  intros s H. unfold raw_ok. rewrite decode_raw_plain by exact H. rewrite andb_true_r.
  apply negb_true_iff. apply not_true_iff_false. intro E.
  apply existsb_exists in E as [c [Hin Hc]]. apply N.eqb_eq in Hc; subst c.
  unfold raw_plain in H. rewrite forallb_forall in H. specialize (H 34 Hin). discriminate.
Qed.

(* what toxml writes can always stand between double quotes and is inside the decoded fragment *)
Lemma toxml_char_no_quote c : existsb (fun x => x =? 34) (toxml_char c) = false.
Proof.
  unfold toxml_char.
  repeat match goal with |- context [if ?b then _ else _] => destruct b eqn:? end; try reflexivity.
  cbn [existsb]. rewrite orb_false_r. assumption.
Qed.

Lemma toxml_no_quote : forall s, existsb (fun x => x =? 34) (toxml s) = false.
Proof.
  induction s as [|c s IH]; [reflexivity|].
  unfold toxml in *. cbn [flat_map]. rewrite existsb_app, toxml_char_no_quote, IH. reflexivity.
Qed.

Theorem toxml_raw_ok : forall s, raw_ok (toxml s) = true.
Proof. intro s. unfold raw_ok. rewrite toxml_no_quote, decode_toxml. reflexivity. Qed.
