(* The three-file project of the finding, as summaries:
     h.h: void f(int *p); void g(int *q);
     a.c: void caller(void) { f(0); }        -> one function call (null argument) to f = h.h:1:6
     b.c: void f(int *p) { g(p); }           -> one nested call: parameter 1 of f is passed to g = h.h:2:6
     c.c: void g(int *q) { *q = 1; }         -> one unsafe usage (null) of parameter 1 of g            *)
From CV Require Import Base.Bytes Ctu.Defs.
Local Open Scope N_scope.

Definition w_id_f : str := [104;46;104;58;49;58;54].   (* "h.h:1:6" *)
Definition w_id_g : str := [104;46;104;58;50;58;54].   (* "h.h:2:6" *)
Definition w_a : str := [97;46;99].
Definition w_b : str := [98;46;99].
Definition w_c : str := [99;46;99].

Definition w_fc : fcall := mkFC w_id_f 1 [102] (mkLoc w_a 3 6) [48] 0 0 0 false [].
Definition w_nc : ncall := mkNC w_id_g 1 [103] (mkLoc w_b 3 5) w_id_f 1.
Definition w_uu : uusage := mkUU w_id_g 1 [113] (mkLoc w_c 3 6) 0.

Definition w_ctu : ctu := mkCtu [w_fc] [w_nc].

Definition w_files : list fsum :=
  [mkFS w_a (mkCtu [w_fc] []) [] [] [] [] [];
   mkFS w_b (mkCtu [] [w_nc]) [] [] [] [] [];
   mkFS w_c (mkCtu [] []) [w_uu] [] [] [] []].
