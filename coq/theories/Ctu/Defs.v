(* C22 model: whole-program (CTU) summaries, their XML form, and the whole-program analysis.

   Code modelled (lib/ctu.cpp unless stated):
     ErrorLogger::toxml (lib/errorlogger.cpp)                     -> toxml
     tinyxml2 StrPair::GetStr on an attribute value                -> decode  (None = outside the modelled fragment)
     CallBase::toBaseXmlString / FunctionCall::toXmlString /
       NestedCall::toXmlString / FileInfo::toString                -> base_attrs / fc_to_xml / nc_to_xml / ctu_to_xml
     UnsafeUsage::toString / CTU::toString                         -> uu_to_xml / uus_to_xml
     readAttrString / readAttrInt (with their different treatment
       of the error flag) / loadBaseFromXml / FunctionCall::loadFromXml /
       NestedCall::loadFromXml / FileInfo::loadFromXml             -> rd_str / rd_int / load_base / load_fc / load_nc / load_ctu
     loadUnsafeUsageListFromXml                                    -> load_uus
     CheckBufferOverrun MyFileInfo::toString / loadFileInfoFromXml -> buf_to_xml / load_buf
     FileInfo::getCallsMap / findPath / getErrorPath               -> calls_for / find_path / get_error_path
     CheckNullPointer / CheckUninitVar / CheckBufferOverrun
       ::analyseWholeProgram                                       -> null_findings / uninit_findings / buf_findings
     CheckClass MyFileInfo (ODR) toString / loadFileInfoFromXml /
       analyseWholeProgram                                         -> odr_to_xml / load_odr / odr_findings
     CheckUnusedFunctions::analyzerInfo and the reader in
       analyseWholeProgram(settings, logger, buildDir)             -> unused_to_xml / load_unused / unused_findings
     CppCheck::analyseWholeProgram() / (buildDir, ...)             -> whole_program on summaries / on loaded stored summaries

   XML is an abstract tree.  String attributes carry the text as written between the quotes
   (after toxml where the code calls it, raw where it does not); reading one applies `decode`.
   Integer attributes are typed (AInt): operator<< and sscanf("%lld")/strToInt are taken to be
   inverse on the printed range (exercised by the correspondence run, not modelled).
   The element names used by writers and readers are a parameter (`names`), regenerated from
   lib/ctu.cpp by tools/translate/ctu_names.py (Gen_Names.v).  No proofs in this file. *)
From CV Require Import Base.Bytes.
Local Open Scope N_scope.

(* ------------------------------------------------------------------ constants *)
Definition A_CALL_ID : str := [99;97;108;108;45;105;100].  (* "call-id" *)
Definition A_CALL_FUNCNAME : str := [99;97;108;108;45;102;117;110;99;110;97;109;101].  (* "call-funcname" *)
Definition A_CALL_ARGNR : str := [99;97;108;108;45;97;114;103;110;114].  (* "call-argnr" *)
Definition A_CALL_ARGEXPR : str := [99;97;108;108;45;97;114;103;101;120;112;114].  (* "call-argexpr" *)
Definition A_CALL_VTYPE : str := [99;97;108;108;45;97;114;103;118;97;108;117;101;116;121;112;101].  (* "call-argvaluetype" *)
Definition A_CALL_VALUE : str := [99;97;108;108;45;97;114;103;118;97;108;117;101].  (* "call-argvalue" *)
Definition A_CALL_UFR : str := [99;97;108;108;45;97;114;103;118;97;108;117;101;45;117;102;114].  (* "call-argvalue-ufr" *)
Definition A_WARNING : str := [119;97;114;110;105;110;103].  (* "warning" *)
Definition A_FILE : str := [102;105;108;101].  (* "file" *)
Definition A_LINE : str := [108;105;110;101].  (* "line" *)
Definition A_COL : str := [99;111;108].  (* "col" *)
Definition A_INFO : str := [105;110;102;111].  (* "info" *)
Definition A_MY_ID : str := [109;121;45;105;100].  (* "my-id" *)
Definition A_MY_ARGNR : str := [109;121;45;97;114;103;110;114].  (* "my-argnr" *)
Definition A_MY_ARGNAME : str := [109;121;45;97;114;103;110;97;109;101].  (* "my-argname" *)
Definition A_VALUE : str := [118;97;108;117;101].  (* "value" *)
Definition E_PATH : str := [112;97;116;104].  (* "path" *)
Definition E_ARRAY_INDEX : str := [97;114;114;97;121;45;105;110;100;101;120].  (* "array-index" *)
Definition E_POINTER_ARITH : str := [112;111;105;110;116;101;114;45;97;114;105;116;104].  (* "pointer-arith" *)
Definition S_TRUE : str := [116;114;117;101].  (* "true" *)
Definition E_FUNCTION_CALL : str := [102;117;110;99;116;105;111;110;45;99;97;108;108].  (* "function-call" *)
Definition E_NESTED_CALL : str := [110;101;115;116;101;100;45;99;97;108;108].  (* "nested-call" *)
Definition E_UNSAFE_USAGE : str := [117;110;115;97;102;101;45;117;115;97;103;101].  (* "unsafe-usage" *)
Definition E_CLASS : str := [99;108;97;115;115].  (* "class" *)
Definition A_NAME : str := [110;97;109;101].  (* "name" *)
Definition A_CONFIGURATION : str := [99;111;110;102;105;103;117;114;97;116;105;111;110].  (* "configuration" *)
Definition A_HASH : str := [104;97;115;104].  (* "hash" *)
Definition E_FUNCTIONDECL : str := [102;117;110;99;116;105;111;110;100;101;99;108].  (* "functiondecl" *)
Definition E_FUNCTIONCALL : str := [102;117;110;99;116;105;111;110;99;97;108;108].  (* "functioncall" *)
Definition A_FUNCTIONNAME : str := [102;117;110;99;116;105;111;110;78;97;109;101].  (* "functionName" *)
Definition A_LINENUMBER : str := [108;105;110;101;78;117;109;98;101;114].  (* "lineNumber" *)
Definition A_COLUMN : str := [99;111;108;117;109;110].  (* "column" *)
Definition S_CALLING : str := [67;97;108;108;105;110;103;32;102;117;110;99;116;105;111;110;32].  (* "Calling function " *)
Definition S_COMMA : str := [44;32].  (* ", " *)
Definition S_ARG_IS : str := [32;97;114;103;117;109;101;110;116;32;105;115;32].  (* " argument is " *)
Definition S_NULL : str := [110;117;108;108].  (* "null" *)
Definition S_UNINIT : str := [117;110;105;110;105;116;105;97;108;105;122;101;100].  (* "uninitialized" *)
Definition S_OOB : str := [97;99;99;101;115;115;101;100;32;111;117;116;32;111;102;32;98;111;117;110;100;115].  (* "accessed out of bounds" *)
Definition S_ST : str := [115;116].
Definition S_ND : str := [110;100].
Definition S_RD : str := [114;100].
Definition S_TH : str := [116;104].
Definition S_DEREF_PRE : str := [68;101;114;101;102;101;114;101;110;99;105;110;103;32;97;114;103;117;109;101;110;116;32].  (* "Dereferencing argument " *)
Definition S_DEREF_POST : str := [32;116;104;97;116;32;105;115;32;110;117;108;108].  (* " that is null" *)
Definition S_USING_PRE : str := [85;115;105;110;103;32;97;114;103;117;109;101;110;116;32].  (* "Using argument " *)
Definition ID_NULL : str := [99;116;117;110;117;108;108;112;111;105;110;116;101;114].  (* "ctunullpointer" *)
Definition S_OOM : str := [79;117;116;79;102;77;101;109;111;114;121].  (* "OutOfMemory" *)
Definition S_OOR : str := [79;117;116;79;102;82;101;115;111;117;114;99;101;115].  (* "OutOfResources" *)
Definition M_NULL : str := [78;117;108;108;32;112;111;105;110;116;101;114;32;100;101;114;101;102;101;114;101;110;99;101;58;32].  (* "Null pointer dereference: " *)
Definition M_NULL_OOM : str := [73;102;32;109;101;109;111;114;121;32;97;108;108;111;99;97;116;105;111;110;32;102;97;105;108;115;44;32;116;104;101;110;32;116;104;101;114;101;32;105;115;32;97;32;112;111;115;115;105;98;108;101;32;110;117;108;108;32;112;111;105;110;116;101;114;32;100;101;114;101;102;101;114;101;110;99;101;58;32].
Definition M_NULL_OOR : str := [73;102;32;114;101;115;111;117;114;99;101;32;97;108;108;111;99;97;116;105;111;110;32;102;97;105;108;115;44;32;116;104;101;110;32;116;104;101;114;101;32;105;115;32;97;32;112;111;115;115;105;98;108;101;32;110;117;108;108;32;112;111;105;110;116;101;114;32;100;101;114;101;102;101;114;101;110;99;101;58;32].
Definition ID_UNINIT : str := [99;116;117;117;110;105;110;105;116;118;97;114].  (* "ctuuninitvar" *)
Definition M_UNINIT_MID : str := [32;116;104;97;116;32;112;111;105;110;116;115;32;97;116;32;117;110;105;110;105;116;105;97;108;105;122;101;100;32;118;97;114;105;97;98;108;101;32].  (* " that points at uninitialized variable " *)
Definition ID_AIDX : str := [99;116;117;65;114;114;97;121;73;110;100;101;120].  (* "ctuArrayIndex" *)
Definition ID_PARITH : str := [99;116;117;80;111;105;110;116;101;114;65;114;105;116;104].  (* "ctuPointerArith" *)
Definition M_AIDX1_PRE : str := [65;114;114;97;121;32;105;110;100;101;120;32;111;117;116;32;111;102;32;98;111;117;110;100;115;59;32;39].  (* "Array index out of bounds; '" *)
Definition M_BUFSIZE_IS : str := [39;32;98;117;102;102;101;114;32;115;105;122;101;32;105;115;32].  (* "' buffer size is " *)
Definition M_AIDX1_MID : str := [32;97;110;100;32;105;116;32;105;115;32;97;99;99;101;115;115;101;100;32;97;116;32;111;102;102;115;101;116;32].  (* " and it is accessed at offset " *)
Definition S_DOT : str := [46].
Definition M_AIDX2_PRE : str := [65;114;114;97;121;32;105;110;100;101;120;32;111;117;116;32;111;102;32;98;111;117;110;100;115;59;32;98;117;102;102;101;114;32;39].  (* "Array index out of bounds; buffer '" *)
Definition M_AIDX2_MID : str := [39;32;105;115;32;97;99;99;101;115;115;101;100;32;97;116;32;111;102;102;115;101;116;32].  (* "' is accessed at offset " *)
Definition M_PARITH_PRE : str := [80;111;105;110;116;101;114;32;97;114;105;116;104;109;101;116;105;99;32;111;118;101;114;102;108;111;119;59;32;39].  (* "Pointer arithmetic overflow; '" *)
Definition ID_ODR : str := [99;116;117;79;110;101;68;101;102;105;110;105;116;105;111;110;82;117;108;101;86;105;111;108;97;116;105;111;110].  (* "ctuOneDefinitionRuleViolation" *)
Definition M_ODR_PRE : str := [84;104;101;32;111;110;101;32;100;101;102;105;110;105;116;105;111;110;32;114;117;108;101;32;105;115;32;118;105;111;108;97;116;101;100;44;32;100;105;102;102;101;114;101;110;116;32;99;108;97;115;115;101;115;47;115;116;114;117;99;116;115;32;104;97;118;101;32;116;104;101;32;115;97;109;101;32;110;97;109;101;32;39].
Definition S_QUOTE : str := [39].
Definition ID_UNUSED : str := [117;110;117;115;101;100;70;117;110;99;116;105;111;110].  (* "unusedFunction" *)
Definition M_UNUSED_PRE : str := [84;104;101;32;102;117;110;99;116;105;111;110;32;39].  (* "The function '" *)
Definition M_UNUSED_POST : str := [39;32;105;115;32;110;101;118;101;114;32;117;115;101;100;46].  (* "' is never used." *)

(* ------------------------------------------------------------------ ErrorLogger::toxml *)
Definition toxml_char (c : N) : str :=
  if c =? 60 then [38;108;116;59]                    (* &lt; *)
  else if c =? 62 then [38;103;116;59]               (* &gt; *)
  else if c =? 38 then [38;97;109;112;59]            (* &amp; *)
  else if c =? 34 then [38;113;117;111;116;59]       (* &quot; *)
  else if c =? 39 then [38;97;112;111;115;59]        (* &apos; *)
  else if c =? 0 then [92;48]                        (* \0 : two characters *)
  else if c =? 10 then [38;35;49;48;59]              (* &#10; *)
  else if c =? 9 then [38;35;48;57;59]               (* &#09; *)
  else if c =? 13 then [38;35;49;51;59]              (* &#13; *)
  else if (32 <=? c) && (c <=? 127) then [c]
  else [120].                                        (* 'x' *)

Definition toxml (s : str) : str := flat_map toxml_char s.

(* what survives toxml followed by decoding *)
Definition lossy_char (c : N) : str :=
  if c =? 0 then [92;48]
  else if (c =? 9) || (c =? 10) || (c =? 13) || ((32 <=? c) && (c <=? 127)) then [c]
  else [120].
Definition lossy (s : str) : str := flat_map lossy_char s.
Definition safe_char (c : N) : bool :=
  (c =? 9) || (c =? 10) || (c =? 13) || ((32 <=? c) && (c <=? 127)).
Definition safe_str (s : str) : bool := forallb safe_char s.

(* ------------------------------------------------------------------ tinyxml2 attribute value decoding
   StrPair::GetStr with NEEDS_ENTITY_PROCESSING | NEEDS_NEWLINE_NORMALIZATION, one character at a
   time.  None = outside the modelled fragment (NUL, unknown/unterminated entity - where tinyxml2
   leaves a stale byte -, numeric reference outside 1..127 or not decimal). *)
Inductive dstate := DNormal | DAfterCR | DAfterLF | DEntity (acc : str).

Definition entity_value (name : str) : option N :=
  if str_eqb name [113;117;111;116] then Some 34
  else if str_eqb name [97;109;112] then Some 38
  else if str_eqb name [97;112;111;115] then Some 39
  else if str_eqb name [108;116] then Some 60
  else if str_eqb name [103;116] then Some 62
  else match name with
       | 35 :: ds => match N_of_dec ds with
                     | Some v => if (1 <=? v) && (v <=? 127) then Some v else None
                     | None => None
                     end
       | _ => None
       end.

Definition ocons (c : N) (o : option str) : option str :=
  match o with Some s => Some (c :: s) | None => None end.

Fixpoint decode_st (st : dstate) (s : str) : option str :=
  match s with
  | [] => match st with DEntity _ => None | _ => Some [] end
  | c :: r =>
      match st with
      | DEntity acc =>
          if c =? 59 then
            match entity_value (rev acc) with
            | Some v => ocons v (decode_st DNormal r)
            | None => None
            end
          else if (8 <=? N.of_nat (length acc)) then None
          else decode_st (DEntity (c :: acc)) r
      | _ =>
          if c =? 0 then None
          else if c =? 38 then decode_st (DEntity []) r
          else if c =? 13 then
            match st with
            | DAfterLF => decode_st DNormal r
            | _ => ocons 10 (decode_st DAfterCR r)
            end
          else if c =? 10 then
            match st with
            | DAfterCR => decode_st DNormal r
            | _ => ocons 10 (decode_st DAfterLF r)
            end
          else ocons c (decode_st DNormal r)
      end
  end.

Definition decode (s : str) : option str := decode_st DNormal s.
Definition dec (s : str) : str := match decode s with Some x => x | None => [] end.

(* raw text that can stand between the quotes and is inside the modelled fragment *)
Definition raw_ok (s : str) : bool :=
  negb (existsb (fun c => c =? 34) s) && match decode s with Some _ => true | None => false end.
(* raw text that is read back unchanged *)
Definition raw_plain_char (c : N) : bool :=
  negb ((c =? 0) || (c =? 10) || (c =? 13) || (c =? 34) || (c =? 38)).
Definition raw_plain (s : str) : bool := forallb raw_plain_char s.

(* ------------------------------------------------------------------ abstract XML *)
Inductive aval := AStr (raw : str) | AInt (z : Z).
Inductive xml := Elem (name : str) (attrs : list (str * aval)) (children : list xml).

Definition xname (e : xml) : str := match e with Elem n _ _ => n end.
Definition xattrs (e : xml) : list (str * aval) := match e with Elem _ a _ => a end.
Definition xchildren (e : xml) : list xml := match e with Elem _ _ c => c end.

Fixpoint find_attr (a : str) (l : list (str * aval)) : option aval :=
  match l with
  | [] => None
  | (k, v) :: r => if str_eqb k a then Some v else find_attr a r
  end.

Definition aval_str (v : aval) : str :=
  match v with AStr raw => dec raw | AInt z => dec_of_Z z end.

Definition aval_int (v : aval) : option Z :=
  match v with AInt z => Some z | AStr raw => Z_of_dec (dec raw) end.

Definition aval_ok (v : aval) : bool :=
  match v with
  | AStr raw => raw_ok raw
  | AInt z => ((-9223372036854775808 <=? z) && (z <=? 9223372036854775807))%Z
  end.

Fixpoint xml_ok (e : xml) : bool :=
  match e with
  | Elem _ attrs cs =>
      forallb (fun kv => aval_ok (snd kv)) attrs &&
      (fix all (l : list xml) : bool := match l with [] => true | c :: r => xml_ok c && all r end) cs
  end.

(* readAttrString: the error flag is sticky *)
Definition rd_str (e : xml) (a : str) (err : bool) : str * bool :=
  match find_attr a (xattrs e) with
  | Some v => (aval_str v, err)
  | None => ([], true)
  end.

(* readAttrInt: the error flag is OVERWRITTEN (`*error = err`) *)
Definition rd_int (e : xml) (a : str) : Z * bool :=
  match find_attr a (xattrs e) with
  | Some v => match aval_int v with Some z => (z, false) | None => (0%Z, true) end
  | None => (0%Z, true)
  end.

Definition wrap32 (z : Z) : Z := ((z + 2147483648) mod 4294967296 - 2147483648)%Z.
Definition wrapu32 (z : Z) : Z := (z mod 4294967296)%Z.
Definition in_i32 (z : Z) : bool := ((-2147483648 <=? z) && (z <=? 2147483647))%Z.
Definition in_i64 (z : Z) : bool := ((-9223372036854775808 <=? z) && (z <=? 9223372036854775807))%Z.

(* ------------------------------------------------------------------ names *)
Record names := mkNames {
  n_fc_w : str;  (* element written by FunctionCall::toXmlString *)
  n_nc_w : str;  (* element written by NestedCall::toXmlString *)
  n_fc_r : str;  (* element loaded as FunctionCall by FileInfo::loadFromXml *)
  n_nc_r : str;  (* element loaded as NestedCall by FileInfo::loadFromXml *)
  n_uu_w : str;  (* element written by UnsafeUsage::toString *)
  n_uu_r : str;  (* element accepted by loadUnsafeUsageListFromXml *)
  (* is the attribute written through ErrorLogger::toxml? *)
  e_callid : bool;   (* call-id in CallBase::toBaseXmlString *)
  e_ncmyid : bool;   (* my-id in NestedCall::toXmlString *)
  e_uumyid : bool;   (* my-id in UnsafeUsage::toString *)
  e_uuarg : bool     (* my-argname in UnsafeUsage::toString *)
}.

Definition wr (esc : bool) (s : str) : str := if esc then toxml s else s.

Definition names_unfixed : names :=
  mkNames E_FUNCTION_CALL E_FUNCTION_CALL E_FUNCTION_CALL E_NESTED_CALL E_UNSAFE_USAGE E_UNSAFE_USAGE false false false false.
Definition names_fixed : names :=
  mkNames E_FUNCTION_CALL E_NESTED_CALL E_FUNCTION_CALL E_NESTED_CALL E_UNSAFE_USAGE E_UNSAFE_USAGE false false false false.

Definition nm_okb (nm : names) : bool :=
  str_eqb (n_fc_w nm) (n_fc_r nm) && str_eqb (n_nc_w nm) (n_nc_r nm) &&
  negb (str_eqb (n_fc_r nm) (n_nc_r nm)) && str_eqb (n_uu_w nm) (n_uu_r nm).

(* ------------------------------------------------------------------ summaries *)
Record loc := mkLoc { l_file : str; l_line : Z; l_col : Z }.
Record floc := mkFloc { fl_file : str; fl_line : Z; fl_col : Z; fl_info : str }.

Record fcall := mkFC {
  fc_id : str; fc_argnr : Z; fc_fname : str; fc_loc : loc;
  fc_argexpr : str; fc_vtype : Z; fc_value : Z; fc_ufr : Z; fc_warning : bool;
  fc_path : list floc }.

Record ncall := mkNC {
  nc_id : str; nc_argnr : Z; nc_fname : str; nc_loc : loc;
  nc_myid : str; nc_myargnr : Z }.

Record ctu := mkCtu { c_fcs : list fcall; c_ncs : list ncall }.

Record uusage := mkUU { u_myid : str; u_myargnr : Z; u_argname : str; u_loc : loc; u_value : Z }.

(* ------------------------------------------------------------------ writers *)
Definition base_attrs (nm : names) (id : str) (fname : str) (argnr : Z) (l : loc) : list (str * aval) :=
  [(A_CALL_ID, AStr (wr (e_callid nm) id)); (A_CALL_FUNCNAME, AStr (toxml fname)); (A_CALL_ARGNR, AInt argnr);
   (A_FILE, AStr (toxml (l_file l))); (A_LINE, AInt (l_line l)); (A_COL, AInt (l_col l))].

Definition path_to_xml (p : floc) : xml :=
  Elem E_PATH [(A_FILE, AStr (toxml (fl_file p))); (A_LINE, AInt (fl_line p));
               (A_COL, AInt (fl_col p)); (A_INFO, AStr (toxml (fl_info p)))] [].

Definition fc_to_xml (nm : names) (f : fcall) : xml :=
  Elem (n_fc_w nm)
       (base_attrs nm (fc_id f) (fc_fname f) (fc_argnr f) (fc_loc f) ++
        [(A_CALL_ARGEXPR, AStr (toxml (fc_argexpr f))); (A_CALL_VTYPE, AInt (fc_vtype f));
         (A_CALL_VALUE, AInt (fc_value f)); (A_CALL_UFR, AInt (fc_ufr f))] ++
        (if fc_warning f then [(A_WARNING, AStr S_TRUE)] else []))
       (map path_to_xml (fc_path f)).

Definition nc_to_xml (nm : names) (n : ncall) : xml :=
  Elem (n_nc_w nm)
       (base_attrs nm (nc_id n) (nc_fname n) (nc_argnr n) (nc_loc n) ++
        [(A_MY_ID, AStr (wr (e_ncmyid nm) (nc_myid n))); (A_MY_ARGNR, AInt (nc_myargnr n))])
       [].

Definition ctu_to_xml (nm : names) (c : ctu) : list xml :=
  map (fc_to_xml nm) (c_fcs c) ++ map (nc_to_xml nm) (c_ncs c).

Definition uu_to_xml (nm : names) (u : uusage) : xml :=
  Elem (n_uu_w nm)
       [(A_MY_ID, AStr (wr (e_uumyid nm) (u_myid u))); (A_MY_ARGNR, AInt (u_myargnr u)); (A_MY_ARGNAME, AStr (wr (e_uuarg nm) (u_argname u)));
        (A_FILE, AStr (toxml (l_file (u_loc u)))); (A_LINE, AInt (l_line (u_loc u)));
        (A_COL, AInt (l_col (u_loc u))); (A_VALUE, AInt (u_value u))]
       [].

Definition uus_to_xml (nm : names) (l : list uusage) : list xml := map (uu_to_xml nm) l.

Definition buf_to_xml (nm : names) (aidx parith : list uusage) : list xml :=
  (match aidx with [] => [] | _ => [Elem E_ARRAY_INDEX [] (uus_to_xml nm aidx)] end) ++
  (match parith with [] => [] | _ => [Elem E_POINTER_ARITH [] (uus_to_xml nm parith)] end).

(* ------------------------------------------------------------------ readers *)
(* loadBaseFromXml: returns the fields and `!error`; only the last readAttrInt decides *)
Definition load_base (e : xml) : (str * str * Z * loc) * bool :=
  let '(id, e1) := rd_str e A_CALL_ID false in
  let '(fn, e2) := rd_str e A_CALL_FUNCNAME e1 in
  let '(an, e3) := rd_int e A_CALL_ARGNR in
  let '(file, e4) := rd_str e A_FILE e3 in
  let '(line, e5) := rd_int e A_LINE in
  let '(col, e6) := rd_int e A_COL in
  ((id, fn, wrap32 an, mkLoc file (wrap32 line) (wrap32 col)), negb e6).

(* the <path> loop of FunctionCall::loadFromXml: `for (...; !error && e2; ...)` *)
Fixpoint load_path (cs : list xml) (err : bool) : list floc * bool :=
  match cs with
  | [] => ([], err)
  | c :: r =>
      if err then ([], err)
      else if negb (str_eqb (xname c) E_PATH) then load_path r err
      else
        let '(file, e1) := rd_str c A_FILE err in
        let '(info, e2) := rd_str c A_INFO e1 in
        let '(line, e3) := rd_int c A_LINE in
        let '(col, e4) := rd_int c A_COL in
        let '(ps, e') := load_path r e4 in
        (mkFloc file (wrap32 line) (wrapu32 col) info :: ps, e')
  end.

Definition load_fc (e : xml) : option fcall :=
  let '((id, fn, an, l), ok) := load_base e in
  if negb ok then None
  else
    let '(ae, r1) := rd_str e A_CALL_ARGEXPR false in
    let '(vt, r2) := rd_int e A_CALL_VTYPE in
    let '(v, r3) := rd_int e A_CALL_VALUE in
    let '(ufr, r4) := rd_int e A_CALL_UFR in
    let ufr' := if ((0 <=? ufr) && (ufr <=? 255))%Z then ufr else 255%Z in
    let w := match find_attr A_WARNING (xattrs e) with
             | Some x => str_eqb (aval_str x) S_TRUE
             | None => false
             end in
    let '(path, err) := load_path (xchildren e) r4 in
    if err then None
    else Some (mkFC id an fn l ae (vt mod 256)%Z v ufr' w path).

Definition load_nc (e : xml) : option ncall :=
  let '((id, fn, an, l), ok) := load_base e in
  if negb ok then None
  else
    let '(myid, r1) := rd_str e A_MY_ID false in
    let '(myargnr, r2) := rd_int e A_MY_ARGNR in
    if r2 then None else Some (mkNC id an fn l myid (wrap32 myargnr)).

(* FileInfo::loadFromXml over the children of one <FileInfo check="ctu"> *)
Fixpoint load_ctu (nm : names) (cs : list xml) : ctu :=
  match cs with
  | [] => mkCtu [] []
  | e :: r =>
      let c := load_ctu nm r in
      if str_eqb (xname e) (n_fc_r nm) then
        match load_fc e with Some f => mkCtu (f :: c_fcs c) (c_ncs c) | None => c end
      else if str_eqb (xname e) (n_nc_r nm) then
        match load_nc e with Some n => mkCtu (c_fcs c) (n :: c_ncs c) | None => c end
      else c
  end.

(* loadUnsafeUsageListFromXml: error = result of the last readAttrInt ("value") *)
Definition load_uu (e : xml) : option uusage :=
  let '(myid, e1) := rd_str e A_MY_ID false in
  let '(myargnr, e2) := rd_int e A_MY_ARGNR in
  let '(argname, e3) := rd_str e A_MY_ARGNAME e2 in
  let '(file, e4) := rd_str e A_FILE e3 in
  let '(line, e5) := rd_int e A_LINE in
  let '(col, e6) := rd_int e A_COL in
  let '(v, e7) := rd_int e A_VALUE in
  if e7 then None
  else Some (mkUU myid (wrap32 myargnr) argname (mkLoc file (wrap32 line) (wrap32 col)) v).

Fixpoint load_uus (nm : names) (cs : list xml) : list uusage :=
  match cs with
  | [] => []
  | e :: r =>
      if negb (str_eqb (xname e) (n_uu_r nm)) then load_uus nm r
      else match load_uu e with Some u => u :: load_uus nm r | None => load_uus nm r end
  end.

(* CheckBufferOverrun::loadFileInfoFromXml: assignment, the last matching child wins *)
Fixpoint load_buf_acc (nm : names) (cs : list xml) (acc : list uusage * list uusage) : list uusage * list uusage :=
  match cs with
  | [] => acc
  | e :: r =>
      if str_eqb (xname e) E_ARRAY_INDEX then load_buf_acc nm r (load_uus nm (xchildren e), snd acc)
      else if str_eqb (xname e) E_POINTER_ARITH then load_buf_acc nm r (fst acc, load_uus nm (xchildren e))
      else load_buf_acc nm r acc
  end.
Definition load_buf (nm : names) (cs : list xml) : list uusage * list uusage := load_buf_acc nm cs ([], []).

(* ------------------------------------------------------------------ the path search *)
Inductive ivt := INull | IUninit | IBuf.
Inductive call := CF (f : fcall) | CN (n : ncall).

(* getCallsMap()[id] : nested calls first, then function calls, each in list order *)
Definition calls_for (c : ctu) (id : str) : list call :=
  map CN (filter (fun n => str_eqb (nc_id n) id) (c_ncs c)) ++
  map CF (filter (fun f => str_eqb (fc_id f) id) (c_fcs c)).

Definition fc_accepts (iv : ivt) (warning : bool) (uv : Z) (f : fcall) : bool :=
  if negb warning && fc_warning f then false
  else if negb warning && negb (fc_ufr f =? 0)%Z then false
  else match iv with
       | INull => ((fc_vtype f =? 0) && (fc_value f =? 0))%Z
       | IUninit => (fc_vtype f =? 4)%Z
       | IBuf => (fc_vtype f =? 7)%Z && ((uv <? 0)%Z || ((fc_value f <=? uv)%Z && (0 <=? fc_value f)%Z))
       end.

Fixpoint scan (rec : str -> Z -> option (list call)) (acc : fcall -> bool) (argnr : Z) (l : list call)
  : option (list call) :=
  match l with
  | [] => None
  | CF f :: r =>
      if negb (fc_argnr f =? argnr)%Z then scan rec acc argnr r
      else if acc f then Some [CF f] else scan rec acc argnr r
  | CN n :: r =>
      if negb (nc_argnr n =? argnr)%Z then scan rec acc argnr r
      else match rec (nc_myid n) (nc_myargnr n) with
           | Some p => Some (CN n :: p)
           | None => scan rec acc argnr r
           end
  end.

(* findPath with fuel = maxCtuDepth - index; the result lists path[index], path[index+1], ... *)
Fixpoint find_path (fuel : nat) (c : ctu) (acc : fcall -> bool) (id : str) (argnr : Z) : option (list call) :=
  match fuel with
  | O => None
  | S f => scan (find_path f c acc) acc argnr (calls_for c id)
  end.

Definition ordinal (n : Z) : str :=
  if (n =? 1)%Z then S_ST else if (n =? 2)%Z then S_ND else if (n =? 3)%Z then S_RD else S_TH.

Definition iv_text (iv : ivt) : str :=
  match iv with INull => S_NULL | IUninit => S_UNINIT | IBuf => S_OOB end.

Definition call_fname (c : call) : str := match c with CF f => fc_fname f | CN n => nc_fname n end.
Definition call_argnr (c : call) : Z := match c with CF f => fc_argnr f | CN n => nc_argnr n end.
Definition call_loc (c : call) : loc := match c with CF f => fc_loc f | CN n => nc_loc n end.

Definition call_locs (iv : ivt) (c : call) : list floc :=
  (match c with CF f => fc_path f | CN _ => [] end) ++
  [mkFloc (l_file (call_loc c)) (l_line (call_loc c)) (l_col (call_loc c))
          (S_CALLING ++ call_fname c ++ S_COMMA ++ dec_of_Z (call_argnr c) ++ ordinal (call_argnr c) ++
           S_ARG_IS ++ iv_text iv)].

Fixpoint last_fc (p : list call) : option fcall :=
  match p with
  | [] => None
  | c :: r => match last_fc r with
              | Some f => Some f
              | None => match c with CF f => Some f | CN _ => None end
              end
  end.

Record epath := mkEP { ep_locs : list floc; ep_fc : option fcall; ep_ufr : Z }.

(* getErrorPath: None = empty location list *)
Definition get_error_path (iv : ivt) (u : uusage) (c : ctu) (info_pre info_post : str) (warning : bool) (depth : nat)
  : option epath :=
  match find_path depth c (fc_accepts iv warning (u_value u)) (u_myid u) (u_myargnr u) with
  | None => None
  | Some p =>
      let ufr := match p with CF f :: _ => fc_ufr f | _ => 0%Z end in
      Some (mkEP (flat_map (call_locs iv) (rev p) ++
                  [mkFloc (l_file (u_loc u)) (l_line (u_loc u)) (l_col (u_loc u))
                          (info_pre ++ u_argname u ++ info_post)])
                 (last_fc p) ufr)
  end.

(* ------------------------------------------------------------------ findings *)
Record finding := mkF { f_id : str; f_sev : N (* 0 error, 1 warning, 2 style *); f_msg : str; f_file0 : str; f_locs : list floc }.

Definition null_finding (c : ctu) (depth : nat) (warn_enabled : bool) (file0 : str) (u : uusage) : list finding :=
  let mk (w : bool) (ep : epath) :=
      let '(id, msg) :=
          if (ep_ufr ep =? 1)%Z then (ID_NULL ++ S_OOM, M_NULL_OOM ++ u_argname u)
          else if (ep_ufr ep =? 2)%Z then (ID_NULL ++ S_OOR, M_NULL_OOR ++ u_argname u)
          else (ID_NULL, M_NULL ++ u_argname u) in
      mkF id (if w then 1 else 0) msg file0 (ep_locs ep) in
  match get_error_path INull u c S_DEREF_PRE S_DEREF_POST false depth with
  | Some ep => [mk false ep]
  | None =>
      if warn_enabled then
        match get_error_path INull u c S_DEREF_PRE S_DEREF_POST true depth with
        | Some ep => [mk true ep]
        | None => []
        end
      else []
  end.

Definition uninit_finding (c : ctu) (depth : nat) (file0 : str) (u : uusage) : list finding :=
  match get_error_path IUninit u c S_USING_PRE [] false depth with
  | Some ep =>
      let ae := match ep_fc ep with Some f => fc_argexpr f | None => [] end in
      [mkF ID_UNINIT 0 (S_USING_PRE ++ u_argname u ++ M_UNINIT_MID ++ ae) file0 (ep_locs ep)]
  | None => []
  end.

Definition buf_finding (c : ctu) (depth : nat) (type1 : bool) (file0 : str) (u : uusage) : list finding :=
  match get_error_path IBuf u c S_USING_PRE [] false depth with
  | Some ep =>
      let bv := match ep_fc ep with Some f => fc_value f | None => 0%Z end in
      if type1 then
        let msg := if (0 <? u_value u)%Z
                   then M_AIDX1_PRE ++ u_argname u ++ M_BUFSIZE_IS ++ dec_of_Z bv ++ M_AIDX1_MID ++ dec_of_Z (u_value u) ++ S_DOT
                   else M_AIDX2_PRE ++ u_argname u ++ M_AIDX2_MID ++ dec_of_Z (u_value u) ++ S_DOT in
        [mkF ID_AIDX 0 msg file0 (ep_locs ep)]
      else
        [mkF ID_PARITH 0 (M_PARITH_PRE ++ u_argname u ++ M_BUFSIZE_IS ++ dec_of_Z bv) file0 (ep_locs ep)]
  | None => []
  end.

(* ------------------------------------------------------------------ one-definition rule (lib/checkclass.cpp) *)
Record nameloc := mkNL { nl_class : str; nl_file : str; nl_cfg : str; nl_line : Z; nl_col : Z; nl_hash : Z }.

Definition nl_to_xml (n : nameloc) : xml :=
  Elem E_CLASS [(A_NAME, AStr (toxml (nl_class n))); (A_FILE, AStr (toxml (nl_file n)));
                (A_CONFIGURATION, AStr (toxml (nl_cfg n))); (A_LINE, AInt (nl_line n));
                (A_COL, AInt (nl_col n)); (A_HASH, AInt (nl_hash n))] [].

Definition load_nl (e : xml) : option nameloc :=
  match find_attr A_NAME (xattrs e), find_attr A_FILE (xattrs e), find_attr A_CONFIGURATION (xattrs e),
        find_attr A_LINE (xattrs e), find_attr A_COL (xattrs e), find_attr A_HASH (xattrs e) with
  | Some n, Some f, Some c, Some l, Some co, Some h =>
      match aval_int l, aval_int co, aval_int h with
      | Some l', Some co', Some h' => Some (mkNL (aval_str n) (aval_str f) (aval_str c) (wrap32 l') (wrap32 co') (h' mod 18446744073709551616)%Z)
      | _, _, _ => None   (* strToInt throws: outside the modelled fragment, never produced by nl_to_xml *)
      end
  | _, _, _, _, _, _ => None
  end.

Fixpoint load_odr (cs : list xml) : list nameloc :=
  match cs with
  | [] => []
  | e :: r => if negb (str_eqb (xname e) E_CLASS) then load_odr r
              else match load_nl e with Some n => n :: load_odr r | None => load_odr r end
  end.

(* the `all` map is a first-definition-wins association list *)
Fixpoint odr_lookup (name : str) (all : list nameloc) : option nameloc :=
  match all with
  | [] => None
  | n :: r => if str_eqb (nl_class n) name then Some n else odr_lookup name r
  end.

Fixpoint odr_scan (file0 : str) (defs : list nameloc) (all : list nameloc) : list finding * list nameloc :=
  match defs with
  | [] => ([], all)
  | d :: r =>
      match odr_lookup (nl_class d) all with
      | None => odr_scan file0 r (all ++ [d])
      | Some o =>
          if (nl_hash o =? nl_hash d)%Z then odr_scan file0 r all
          else if str_eqb (nl_file o) (nl_file d) && negb (str_eqb (nl_cfg o) (nl_cfg d)) then odr_scan file0 r all
          else if str_eqb (nl_file o) (nl_file d) && (nl_line o =? nl_line d)%Z && (nl_col o =? nl_col d)%Z then odr_scan file0 r all
          else
            let '(fs, all') := odr_scan file0 r all in
            (mkF ID_ODR 0 (M_ODR_PRE ++ nl_class d ++ S_QUOTE) file0
                 [mkFloc (nl_file d) (nl_line d) (nl_col d) []; mkFloc (nl_file o) (nl_line o) (nl_col o) []] :: fs, all')
      end
  end.

Fixpoint odr_files (files : list (str * list nameloc)) (all : list nameloc) : list finding :=
  match files with
  | [] => []
  | (file0, defs) :: r => let '(fs, all') := odr_scan file0 defs all in fs ++ odr_files r all'
  end.

(* ------------------------------------------------------------------ unused functions, build-dir form *)
Record fdecl := mkFD { fd_file : str; fd_name : str; fd_line : Z; fd_col : Z }.
Record unused_info := mkUI { ui_decls : list fdecl; ui_calls : list str }.

Definition fd_to_xml (d : fdecl) : xml :=
  Elem E_FUNCTIONDECL [(A_FILE, AStr (toxml (fd_file d))); (A_FUNCTIONNAME, AStr (toxml (fd_name d)));
                       (A_LINENUMBER, AInt (fd_line d)); (A_COLUMN, AInt (fd_col d))] [].
Definition fcn_to_xml (n : str) : xml := Elem E_FUNCTIONCALL [(A_FUNCTIONNAME, AStr (toxml n))] [].
Definition unused_to_xml (u : unused_info) : list xml := map fd_to_xml (ui_decls u) ++ map fcn_to_xml (ui_calls u).

(* the reader of CheckUnusedFunctions::analyseWholeProgram(settings, logger, buildDir) for one file *)
Fixpoint load_unused (source : str) (cs : list xml) : unused_info :=
  match cs with
  | [] => mkUI [] []
  | e :: r =>
      let u := load_unused source r in
      match find_attr A_FUNCTIONNAME (xattrs e) with
      | None => u
      | Some fnv =>
          let fname := aval_str fnv in
          if str_eqb (xname e) E_FUNCTIONCALL then mkUI (ui_decls u) (fname :: ui_calls u)
          else if str_eqb (xname e) E_FUNCTIONDECL then
            match find_attr A_LINENUMBER (xattrs e) with
            | None => u
            | Some lv =>
                let file := match find_attr A_FILE (xattrs e) with Some f => aval_str f | None => source end in
                let col := match find_attr A_COLUMN (xattrs e) with Some c => c | None => AInt 0 end in
                match aval_int lv, aval_int col with
                | Some l, Some c => mkUI (mkFD file fname (wrap32 l) (wrap32 c) :: ui_decls u) (ui_calls u)
                | _, _ => u
                end
            end
          else u
      end
  end.

(* ------------------------------------------------------------------ per-file summaries and the whole program *)
Record fsum := mkFS {
  s_file0 : str; s_ctu : ctu;
  s_null : list uusage; s_uninit : list uusage; s_aidx : list uusage; s_parith : list uusage;
  s_odr : list nameloc }.

Record stored := mkST {
  t_file0 : str; t_ctu : list xml; t_null : list xml; t_uninit : list xml; t_buf : list xml; t_odr : list xml }.

Definition store (nm : names) (s : fsum) : stored :=
  mkST (s_file0 s) (ctu_to_xml nm (s_ctu s)) (uus_to_xml nm (s_null s)) (uus_to_xml nm (s_uninit s))
       (buf_to_xml nm (s_aidx s) (s_parith s)) (map nl_to_xml (s_odr s)).

Definition load (nm : names) (t : stored) : fsum :=
  let b := load_buf nm (t_buf t) in
  mkFS (t_file0 t) (load_ctu nm (t_ctu t)) (load_uus nm (t_null t)) (load_uus nm (t_uninit t))
       (fst b) (snd b) (load_odr (t_odr t)).

(* A source analysed under several preprocessor configurations: checkNormalTokens runs once per
   configuration, each run pushes its summaries to mFileInfo (in memory) and calls
   AnalyzerInformation::setFileInfo once per check, i.e. the analyzer-info file holds one
   <FileInfo check="..."> block per configuration; processFilesTxt hands every block to the
   loaders, which append.  Summaries of a file = all its per-configuration summaries, in order. *)
Definition ctu_merge (cs : list ctu) : ctu := mkCtu (flat_map c_fcs cs) (flat_map c_ncs cs).
Definition load_ctu_blocks (nm : names) (blocks : list (list xml)) : ctu :=
  ctu_merge (map (load_ctu nm) blocks).
Definition store_file (nm : names) (cfgs : list fsum) : list stored := map (store nm) cfgs.
Definition load_file (nm : names) (blocks : list stored) : list fsum := map (load nm) blocks.

Definition merged_ctu (l : list fsum) : ctu :=
  mkCtu (flat_map (fun s => c_fcs (s_ctu s)) l) (flat_map (fun s => c_ncs (s_ctu s)) l).

Definition whole_program (depth : nat) (warn_enabled : bool) (l : list fsum) : list finding :=
  let c := merged_ctu l in
  flat_map (fun s => flat_map (buf_finding c depth true (s_file0 s)) (s_aidx s) ++
                     flat_map (buf_finding c depth false (s_file0 s)) (s_parith s)) l ++
  odr_files (map (fun s => (s_file0 s, s_odr s)) l) [] ++
  flat_map (fun s => flat_map (null_finding c depth warn_enabled (s_file0 s)) (s_null s)) l ++
  flat_map (fun s => flat_map (uninit_finding c depth (s_file0 s)) (s_uninit s)) l.
