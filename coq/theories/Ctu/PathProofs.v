(* The CTU path search (getCallsMap + findPath) against a declarative specification:
   bounded reachability in the call summaries; invariance under the order of the summaries. *)
From CV Require Import Base.Bytes Ctu.Defs.
Require Import Lia Permutation.
Local Open Scope N_scope.

(* there is a chain  f(..invalid..) <- nested <- ... <- nested  of at most d calls that ends at parameter `argnr` of `id` *)
Inductive reach (c : ctu) (acc : fcall -> bool) : nat -> str -> Z -> Prop :=
| reach_fc : forall d id argnr f,
    In f (c_fcs c) -> fc_id f = id -> fc_argnr f = argnr -> acc f = true ->
    reach c acc (S d) id argnr
| reach_nc : forall d id argnr n,
    In n (c_ncs c) -> nc_id n = id -> nc_argnr n = argnr ->
    reach c acc d (nc_myid n) (nc_myargnr n) ->
    reach c acc (S d) id argnr.

(* a concrete chain, in the order findPath stores it: path[index], path[index+1], ... *)
Inductive chain (c : ctu) (acc : fcall -> bool) : str -> Z -> list call -> Prop :=
| chain_fc : forall id argnr f,
    In f (c_fcs c) -> fc_id f = id -> fc_argnr f = argnr -> acc f = true ->
    chain c acc id argnr [CF f]
| chain_nc : forall id argnr n p,
    In n (c_ncs c) -> nc_id n = id -> nc_argnr n = argnr ->
    chain c acc (nc_myid n) (nc_myargnr n) p ->
    chain c acc id argnr (CN n :: p).

Lemma in_calls_for_fc c id f : In (CF f) (calls_for c id) <-> In f (c_fcs c) /\ fc_id f = id.
Proof.
  unfold calls_for. rewrite in_app_iff, !in_map_iff. split.
  - intros [[n [E _]]|[f' [E Hin]]]; [discriminate|].
    inversion E; subst f'. apply filter_In in Hin as [Hin He]. apply str_eqb_eq in He. tauto.
  - intros [Hin He]. right. exists f. split; [reflexivity|].
    apply filter_In. split; [exact Hin|]. apply str_eqb_eq. exact He.
Qed.

Lemma in_calls_for_nc c id n : In (CN n) (calls_for c id) <-> In n (c_ncs c) /\ nc_id n = id.
Proof.
  unfold calls_for. rewrite in_app_iff, !in_map_iff. split.
  - intros [[n' [E Hin]]|[f [E _]]]; [|discriminate].
    inversion E; subst n'. apply filter_In in Hin as [Hin He]. apply str_eqb_eq in He. tauto.
  - intros [Hin He]. left. exists n. split; [reflexivity|].
    apply filter_In. split; [exact Hin|]. apply str_eqb_eq. exact He.
Qed.

(* scan = first element of the list that works *)
Lemma scan_some : forall rec acc argnr l p,
    scan rec acc argnr l = Some p ->
    (exists f, In (CF f) l /\ fc_argnr f = argnr /\ acc f = true /\ p = [CF f]) \/
    (exists n q, In (CN n) l /\ nc_argnr n = argnr /\ rec (nc_myid n) (nc_myargnr n) = Some q /\ p = CN n :: q).
Proof.
  intros rec acc argnr. induction l as [|x l IH]; intros p H; [discriminate|].
  cbn [scan] in H. destruct x as [f|n].
  - destruct (fc_argnr f =? argnr)%Z eqn:Ea; cbn [negb] in H.
    + destruct (acc f) eqn:Eacc.
      * inversion H; subst p. left. exists f. apply Z.eqb_eq in Ea. repeat split; try assumption. left; reflexivity.
      * destruct (IH p H) as [(f' & ? & ?)|(n' & q & ? & ?)]; [left; exists f'|right; exists n', q]; (split; [right; assumption|assumption]).
    + destruct (IH p H) as [(f' & ? & ?)|(n' & q & ? & ?)]; [left; exists f'|right; exists n', q]; (split; [right; assumption|assumption]).
  - destruct (nc_argnr n =? argnr)%Z eqn:Ea; cbn [negb] in H.
    + destruct (rec (nc_myid n) (nc_myargnr n)) as [q|] eqn:Er.
      * inversion H; subst p. right. exists n, q. apply Z.eqb_eq in Ea. repeat split; try assumption. left; reflexivity.
      * destruct (IH p H) as [(f' & ? & ?)|(n' & q & ? & ?)]; [left; exists f'|right; exists n', q]; (split; [right; assumption|assumption]).
    + destruct (IH p H) as [(f' & ? & ?)|(n' & q & ? & ?)]; [left; exists f'|right; exists n', q]; (split; [right; assumption|assumption]).
Qed.

Lemma scan_none : forall rec acc argnr l,
    scan rec acc argnr l = None ->
    (forall f, In (CF f) l -> fc_argnr f = argnr -> acc f = false) /\
    (forall n, In (CN n) l -> nc_argnr n = argnr -> rec (nc_myid n) (nc_myargnr n) = None).
Proof.
  intros rec acc argnr. induction l as [|x l IH]; intro H.
  - split; intros ? [].
  - cbn [scan] in H. destruct x as [f|n].
    + destruct (fc_argnr f =? argnr)%Z eqn:Ea; cbn [negb] in H.
      * destruct (acc f) eqn:Eacc; [discriminate|]. destruct (IH H) as [A B]. split.
        -- intros f' [E|Hin] Harg; [inversion E; subst f'; exact Eacc|apply A; assumption].
        -- intros n' [E|Hin] Harg; [discriminate|apply B; assumption].
      * destruct (IH H) as [A B]. split.
        -- intros f' [E|Hin] Harg; [inversion E; subst f'; apply Z.eqb_neq in Ea; contradiction|apply A; assumption].
        -- intros n' [E|Hin] Harg; [discriminate|apply B; assumption].
    + destruct (nc_argnr n =? argnr)%Z eqn:Ea; cbn [negb] in H.
      * destruct (rec (nc_myid n) (nc_myargnr n)) eqn:Er; [discriminate|]. destruct (IH H) as [A B]. split.
        -- intros f' [E|Hin] Harg; [discriminate|apply A; assumption].
        -- intros n' [E|Hin] Harg; [inversion E; subst n'; exact Er|apply B; assumption].
      * destruct (IH H) as [A B]. split.
        -- intros f' [E|Hin] Harg; [discriminate|apply A; assumption].
        -- intros n' [E|Hin] Harg; [inversion E; subst n'; apply Z.eqb_neq in Ea; contradiction|apply B; assumption].
Qed.

(* soundness: what findPath returns is a real chain of the summaries, no longer than the depth limit *)
Theorem find_path_chain : forall d c acc id argnr p,
    find_path d c acc id argnr = Some p -> chain c acc id argnr p /\ (1 <= length p <= d)%nat.
Proof.
  induction d as [|d IH]; intros c acc id argnr p H; [discriminate|].
  cbn [find_path] in H. apply scan_some in H as [(f & Hin & Ha & Hacc & ->)|(n & q & Hin & Ha & Hr & ->)].
  - apply in_calls_for_fc in Hin as [Hin Hid]. split; [apply chain_fc; assumption|cbn; lia].
  - apply in_calls_for_nc in Hin as [Hin Hid]. apply IH in Hr as [Hc Hl].
    split; [apply chain_nc; assumption|cbn [length]; lia].
Qed.

Lemma chain_reach : forall c acc id argnr p, chain c acc id argnr p -> reach c acc (length p) id argnr.
Proof.
  induction 1.
  - cbn. eapply reach_fc; eassumption.
  - cbn [length]. eapply reach_nc; eassumption.
Qed.

Lemma reach_mono : forall c acc d id argnr, reach c acc d id argnr -> forall d', (d <= d')%nat -> reach c acc d' id argnr.
Proof.
  induction 1; intros d' Hd; (destruct d' as [|d']; [lia|]).
  - eapply reach_fc; eassumption.
  - eapply reach_nc; try eassumption. apply IHreach. lia.
Qed.

(* completeness: whenever a chain within the depth limit exists, findPath finds one *)
Theorem find_path_complete : forall d c acc id argnr,
    reach c acc d id argnr -> find_path d c acc id argnr <> None.
Proof.
  induction 1 as [d id argnr f Hin Hid Ha Hacc|d id argnr n Hin Hid Ha Hr IH]; cbn [find_path]; intro E;
    apply scan_none in E as [A B].
  - rewrite (A f) in Hacc; [discriminate| |assumption]. apply in_calls_for_fc. tauto.
  - apply IH. apply (B n); [|assumption]. apply in_calls_for_nc. tauto.
Qed.

Theorem find_path_reach : forall d c acc id argnr,
    find_path d c acc id argnr <> None <-> reach c acc d id argnr.
Proof.
  intros. split.
  - destruct (find_path d c acc id argnr) as [p|] eqn:E; [intros _|intro H; contradiction].
    apply find_path_chain in E as [Hc Hl]. apply chain_reach in Hc. eapply reach_mono; [exact Hc|lia].
  - apply find_path_complete.
Qed.

(* ------------------------------------------------------------------ order of the summaries *)
Lemma reach_same_members : forall c c' acc,
    (forall f, In f (c_fcs c) <-> In f (c_fcs c')) -> (forall n, In n (c_ncs c) <-> In n (c_ncs c')) ->
    forall d id argnr, reach c acc d id argnr -> reach c' acc d id argnr.
Proof.
  intros c c' acc Hf Hn. induction 1.
  - eapply reach_fc; try eassumption. apply Hf. assumption.
  - eapply reach_nc; try eassumption. apply Hn. assumption.
Qed.

Lemma merged_ctu_perm_fcs : forall l l', Permutation l l' -> forall f, In f (c_fcs (merged_ctu l)) <-> In f (c_fcs (merged_ctu l')).
Proof.
  intros l l' HP f. unfold merged_ctu. cbn [c_fcs]. rewrite !in_flat_map.
  split; intros [s [Hs Hin]]; exists s; (split; [|exact Hin]).
  - eapply Permutation_in; eassumption.
  - eapply Permutation_in; [apply Permutation_sym|]; eassumption.
Qed.

Lemma merged_ctu_perm_ncs : forall l l', Permutation l l' -> forall n, In n (c_ncs (merged_ctu l)) <-> In n (c_ncs (merged_ctu l')).
Proof.
  intros l l' HP n. unfold merged_ctu. cbn [c_ncs]. rewrite !in_flat_map.
  split; intros [s [Hs Hin]]; exists s; (split; [|exact Hin]).
  - eapply Permutation_in; eassumption.
  - eapply Permutation_in; [apply Permutation_sym|]; eassumption.
Qed.

(* whether an unsafe usage gets a path (hence a finding) does not depend on the order of the files *)
Theorem find_path_perm : forall l l' d acc id argnr, Permutation l l' ->
    (find_path d (merged_ctu l) acc id argnr <> None <-> find_path d (merged_ctu l') acc id argnr <> None).
Proof.
  intros l l' d acc id argnr HP. rewrite !find_path_reach.
  split; apply reach_same_members; intros x.
  - apply merged_ctu_perm_fcs; assumption.
  - apply merged_ctu_perm_ncs; assumption.
  - symmetry. apply merged_ctu_perm_fcs; assumption.
  - symmetry. apply merged_ctu_perm_ncs; assumption.
Qed.

Theorem get_error_path_perm : forall l l' iv u pre post w d, Permutation l l' ->
    (get_error_path iv u (merged_ctu l) pre post w d <> None <-> get_error_path iv u (merged_ctu l') pre post w d <> None).
Proof.
  intros l l' iv u pre post w d HP. unfold get_error_path.
  pose proof (find_path_perm l l' d (fc_accepts iv w (u_value u)) (u_myid u) (u_myargnr u) HP) as H.
  destruct (find_path d (merged_ctu l)) ; destruct (find_path d (merged_ctu l')); split; intro G; try discriminate; try contradiction.
  - exfalso. apply (proj1 H); [discriminate|reflexivity].
  - exfalso. apply (proj2 H); [discriminate|reflexivity].
Qed.
