(* C01: leaf transfer functions of the value-flow engine, as the code computes
   them on 64-bit MathLib::bigint (lib/calculate.h, lib/vf_common.cpp), and a
   reference semantics of C integer constant expressions (ISO C 6.3.1, 6.5)
   over an arbitrary platform.  Executable definitions only. *)
From CV Require Import Base.Bytes.
Local Open Scope Z_scope.

Definition two63 : Z := 9223372036854775808.
Definition two64 : Z := 18446744073709551616.
Definition wrap64s (z : Z) : Z := (z + two63) mod two64 - two63.
Definition in64 (z : Z) : bool := (- two63 <=? z) && (z <? two63).
Definition b2z (b : bool) : Z := if b then 1 else 0.

(* ---------- calculate<bigint>(op, x, y, &error) ---------- *)
Inductive bop :=
  | Add | Sub | Mul | Div | Mod | BAnd | BOr | BXor | Gt | Lt | Shl | Shr
  | LAnd | LOr | Eq | Ne | Ge | Le | Cmp3.

(* None = *error set *)
Definition calc (o : bop) (x y : Z) : option Z :=
  match o with
  | Add => Some (wrap64s (x + y))
  | Sub => Some (wrap64s (x - y))
  | Mul => Some (wrap64s (x * y))
  | Div => if y <=? 0 then None else Some (Z.quot x y)
  | Mod => if y <=? 0 then None else Some (Z.rem x y)
  | BAnd => Some (Z.land x y)
  | BOr => Some (Z.lor x y)
  | BXor => Some (Z.lxor x y)
  | Gt => Some (b2z (y <? x))
  | Lt => Some (b2z (x <? y))
  | Shl => if (63 <=? y) || (y <? 0) || (x <? 0) then None else Some (wrap64s (x * 2 ^ y))
  | Shr => if (63 <=? y) || (y <? 0) || (x <? 0) then None else Some (Z.shiftr x y)
  | LAnd => Some (b2z (negb (x =? 0) && negb (y =? 0)))
  | LOr => Some (b2z (negb (x =? 0) || negb (y =? 0)))
  | Eq => Some (b2z (x =? y))
  | Ne => Some (b2z (negb (x =? y)))
  | Ge => Some (b2z (y <=? x))
  | Le => Some (b2z (x <=? y))
  | Cmp3 => Some (wrap64s (x - y))
  end.

(* ---------- ValueFlow::castValue (int part), truncateIntValue, getMinMaxValues ---------- *)
Inductive sign := Signed | Unsigned.

(* requires 1 <= bit; bit >= 64: unchanged *)
Definition cast_value (s : sign) (bit : Z) (v : Z) : Z :=
  if bit <? 64 then
    let m := v mod 2 ^ bit in
    match s with
    | Signed => if 2 ^ (bit - 1) <=? m then m - 2 ^ bit else m
    | Unsigned => m
    end
  else v.

(* size in bytes; 0 and 8 leave the (signed 64-bit) value unchanged *)
Definition truncate_int (v : Z) (size : Z) (s : sign) : Z :=
  if (size <=? 0) || (8 <=? size) then v
  else
    let m := v mod 2 ^ (8 * size) in
    match s with
    | Signed => if 2 ^ (8 * size - 1) <=? m then m - 2 ^ (8 * size) else m
    | Unsigned => m
    end.

Definition min_max (bits : Z) (s : sign) : option (Z * Z) :=
  if bits =? 1 then Some (0, 1)
  else if bits <? 62 then
    match s with
    | Unsigned => Some (0, 2 ^ bits - 1)
    | Signed => Some (- 2 ^ (bits - 1), 2 ^ (bits - 1) - 1)
    end
  else if bits =? 64 then
    match s with
    | Unsigned => Some (0, two63 - 1)       (* "todo max unsigned value" in the code *)
    | Signed => Some (- two63, two63 - 1)
    end
  else None.

(* ---------- reference semantics of C integer constant expressions ---------- *)
Inductive base := TBool | TChar | TShort | TInt | TLong | TLLong.
Record ctype := mkT { t_base : base; t_sign : sign }.

Record platform := mkP {
  char_bit : Z; short_bit : Z; int_bit : Z; long_bit : Z; llong_bit : Z;
  char_signed : bool
}.

Definition bits_of (p : platform) (b : base) : Z :=
  match b with
  | TBool => 1 | TChar => char_bit p | TShort => short_bit p
  | TInt => int_bit p | TLong => long_bit p | TLLong => llong_bit p
  end.

Definition tmin (p : platform) (t : ctype) : Z :=
  match t_base t, t_sign t with
  | TBool, _ => 0
  | _, Unsigned => 0
  | b, Signed => - 2 ^ (bits_of p b - 1)
  end.
Definition tmax (p : platform) (t : ctype) : Z :=
  match t_base t, t_sign t with
  | TBool, _ => 1
  | b, Unsigned => 2 ^ bits_of p b - 1
  | b, Signed => 2 ^ (bits_of p b - 1) - 1
  end.
Definition fits (p : platform) (t : ctype) (v : Z) : bool := (tmin p t <=? v) && (v <=? tmax p t).

Definition rank (b : base) : Z :=
  match b with TBool => 0 | TChar => 1 | TShort => 2 | TInt => 3 | TLong => 4 | TLLong => 5 end.

Definition sign_eqb (a b : sign) : bool :=
  match a, b with Signed, Signed | Unsigned, Unsigned => true | _, _ => false end.

Definition tint : ctype := mkT TInt Signed.
Definition tuint : ctype := mkT TInt Unsigned.

(* 6.3.1.1: rank below int -> int if int can represent all values, else unsigned int *)
Definition promote (p : platform) (t : ctype) : ctype :=
  if rank (t_base t) <? rank TInt then
    if (tmin p tint <=? tmin p t) && (tmax p t <=? tmax p tint) then tint else tuint
  else t.

(* 6.3.1.8 on promoted operands *)
Definition usual (p : platform) (a b : ctype) : ctype :=
  let a := promote p a in let b := promote p b in
  if sign_eqb (t_sign a) (t_sign b) then (if rank (t_base a) <? rank (t_base b) then b else a)
  else
    let '(s, u) := match t_sign a with Signed => (a, b) | Unsigned => (b, a) end in
    if rank (t_base s) <=? rank (t_base u) then u
    else if (tmax p u <=? tmax p s) then s
    else mkT (t_base s) Unsigned.

(* conversion to a type (6.3.1.3): modulo for unsigned; implementation-defined
   (two's complement wrap, as gcc/clang) for signed; bool: != 0 *)
Definition convert (p : platform) (t : ctype) (v : Z) : Z :=
  match t_base t with
  | TBool => b2z (negb (v =? 0))
  | b => let n := bits_of p b in
         let m := v mod 2 ^ n in
         match t_sign t with
         | Unsigned => m
         | Signed => if 2 ^ (n - 1) <=? m then m - 2 ^ n else m
         end
  end.

Inductive uop := UNeg | UPlus | UNot | UCompl.

Inductive expr :=
  | ELit (t : ctype) (v : Z)
  | ECast (t : ctype) (e : expr)
  | EUn (o : uop) (e : expr)
  | EBin (o : bop) (e1 e2 : expr)
  | ECond (c e1 e2 : expr).

Inductive res := RVal (t : ctype) (v : Z) | RUB | RBad.

Definition is_cmp (o : bop) : bool :=
  match o with Gt | Lt | Eq | Ne | Ge | Le | LAnd | LOr => true | _ => false end.

(* arithmetic at type t: unsigned wraps, signed overflow is UB *)
Definition arith (p : platform) (t : ctype) (z : Z) : res :=
  match t_sign t with
  | Unsigned => RVal t (convert p t z)
  | Signed => if fits p t z then RVal t z else RUB
  end.

Definition eval_bin (p : platform) (o : bop) (t1 : ctype) (x : Z) (t2 : ctype) (y : Z) : res :=
  match o with
  | LAnd => RVal tint (b2z (negb (x =? 0) && negb (y =? 0)))
  | LOr => RVal tint (b2z (negb (x =? 0) || negb (y =? 0)))
  | Shl | Shr =>
      let t := promote p t1 in
      let x' := convert p t x in
      let y' := convert p (promote p t2) y in
      if (y' <? 0) || (bits_of p (t_base t) <=? y') then RUB
      else match o with
           | Shr => if x' <? 0 then RBad (* implementation-defined *) else RVal t (Z.shiftr x' y')
           | _ => match t_sign t with
                  | Unsigned => RVal t (convert p t (x' * 2 ^ y'))
                  | Signed => if x' <? 0 then RUB
                              else if fits p t (x' * 2 ^ y') then RVal t (x' * 2 ^ y') else RUB
                  end
           end
  | Cmp3 => RBad
  | _ =>
      let t := usual p t1 t2 in
      let x' := convert p t x in
      let y' := convert p t y in
      match o with
      | Add => arith p t (x' + y')
      | Sub => arith p t (x' - y')
      | Mul => arith p t (x' * y')
      | Div => if y' =? 0 then RUB else arith p t (Z.quot x' y')
      | Mod => if y' =? 0 then RUB
               else if negb (fits p t (Z.quot x' y')) then RUB else RVal t (Z.rem x' y')
      | BAnd => RVal t (convert p t (Z.land x' y'))
      | BOr => RVal t (convert p t (Z.lor x' y'))
      | BXor => RVal t (convert p t (Z.lxor x' y'))
      | Gt => RVal tint (b2z (y' <? x'))
      | Lt => RVal tint (b2z (x' <? y'))
      | Eq => RVal tint (b2z (x' =? y'))
      | Ne => RVal tint (b2z (negb (x' =? y')))
      | Ge => RVal tint (b2z (y' <=? x'))
      | Le => RVal tint (b2z (x' <=? y'))
      | _ => RBad
      end
  end.

Definition eval_un (p : platform) (o : uop) (t : ctype) (x : Z) : res :=
  match o with
  | UNot => RVal tint (b2z (x =? 0))
  | UPlus => let t' := promote p t in RVal t' (convert p t' x)
  | UNeg => let t' := promote p t in arith p t' (- convert p t' x)
  | UCompl => let t' := promote p t in RVal t' (convert p t' (Z.lnot (convert p t' x)))
  end.

(* static type of an expression (6.5) *)
Fixpoint type_of_arm (p : platform) (e : expr) : option ctype :=
  match e with
  | ELit t _ => Some t
  | ECast t _ => Some t
  | EUn UNot _ => Some tint
  | EUn _ e1 => option_map (promote p) (type_of_arm p e1)
  | EBin o e1 e2 =>
      if is_cmp o then Some tint
      else match o with
           | Shl | Shr => option_map (promote p) (type_of_arm p e1)
           | Cmp3 => None
           | _ => match type_of_arm p e1, type_of_arm p e2 with
                  | Some a, Some b => Some (usual p a b)
                  | _, _ => None
                  end
           end
  | ECond _ e1 e2 => match type_of_arm p e1, type_of_arm p e2 with
                     | Some a, Some b => Some (usual p a b)
                     | _, _ => None
                     end
  end.

Fixpoint eval (p : platform) (e : expr) : res :=
  match e with
  | ELit t v => if fits p t v then RVal t v else RBad
  | ECast t e1 => match eval p e1 with
                  | RVal _ v => RVal t (convert p t v)
                  | r => r
                  end
  | EUn o e1 => match eval p e1 with
                | RVal t v => eval_un p o t v
                | r => r
                end
  | EBin o e1 e2 =>
      match eval p e1 with
      | RVal t1 x =>
          (* short-circuit: the right operand of && / || is not evaluated *)
          match o with
          | LAnd => if x =? 0 then RVal tint 0 else
                      match eval p e2 with RVal t2 y => eval_bin p o t1 x t2 y | r => r end
          | LOr => if negb (x =? 0) then RVal tint 1 else
                      match eval p e2 with RVal t2 y => eval_bin p o t1 x t2 y | r => r end
          | _ => match eval p e2 with RVal t2 y => eval_bin p o t1 x t2 y | r => r end
          end
      | r => r
      end
  | ECond c e1 e2 =>
      match eval p c with
      | RVal _ cv =>
          (* the type is the usual-arithmetic type of both arms; only one arm is evaluated *)
          match type_of_arm p e1, type_of_arm p e2 with
          | Some t1, Some t2 =>
              let t := usual p t1 t2 in
              match eval p (if cv =? 0 then e2 else e1) with
              | RVal _ v => RVal t (convert p t v)
              | r => r
              end
          | _, _ => RBad
          end
      | r => r
      end
  end.
