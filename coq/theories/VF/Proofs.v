From CV Require Import Base.Bytes VF.Defs.
From Coq Require Import ZifyBool.
Local Open Scope Z_scope.
Ltac Zify.zify_post_hook ::= Z.div_mod_to_equations.

Lemma in64_iff z : in64 z = true <-> - two63 <= z < two63.
Proof. unfold in64. lia. Qed.

Lemma wrap64s_id z : in64 z = true -> wrap64s z = z.
Proof.
  rewrite in64_iff. unfold wrap64s, two63, two64. intros H.
  rewrite Z.mod_small; unfold two63 in *; lia.
Qed.

Lemma wrap64s_range z : in64 (wrap64s z) = true.
Proof.
  rewrite in64_iff. unfold wrap64s.
  assert (0 <= (z + two63) mod two64 < two64) by (apply Z.mod_pos_bound; reflexivity).
  unfold two63, two64 in *. lia.
Qed.

(* the mathematical meaning of the arithmetic operators (no overflow in ℤ) *)
Definition math (o : bop) (x y : Z) : Z :=
  match o with
  | Add => x + y | Sub => x - y | Mul => x * y
  | Div => Z.quot x y | Mod => Z.rem x y
  | BAnd => Z.land x y | BOr => Z.lor x y | BXor => Z.lxor x y
  | Gt => b2z (y <? x) | Lt => b2z (x <? y)
  | Shl => x * 2 ^ y | Shr => Z.shiftr x y
  | LAnd => b2z (negb (x =? 0) && negb (y =? 0))
  | LOr => b2z (negb (x =? 0) || negb (y =? 0))
  | Eq => b2z (x =? y) | Ne => b2z (negb (x =? y))
  | Ge => b2z (y <=? x) | Le => b2z (x <=? y)
  | Cmp3 => x - y
  end.

(* calculate() is exact whenever the mathematical result fits 64 bits *)
Theorem calc_sound o x y r :
  calc o x y = Some r -> in64 (math o x y) = true -> r = math o x y.
Proof.
  destruct o; cbn [calc math]; intros H Hr;
    try (injection H as <-; try reflexivity; apply wrap64s_id; exact Hr).
  - destruct (y <=? 0); [discriminate|]. injection H as <-. reflexivity.
  - destruct (y <=? 0); [discriminate|]. injection H as <-. reflexivity.
  - destruct ((63 <=? y) || (y <? 0) || (x <? 0)); [discriminate|]. injection H as <-. apply wrap64s_id. exact Hr.
  - destruct ((63 <=? y) || (y <? 0) || (x <? 0)); [discriminate|]. injection H as <-. reflexivity.
Qed.

(* exactly the rejected inputs *)
Theorem calc_error_iff o x y :
  calc o x y = None <->
  ((o = Div \/ o = Mod) /\ y <= 0) \/ ((o = Shl \/ o = Shr) /\ (63 <= y \/ y < 0 \/ x < 0)).
Proof.
  destruct o; cbn [calc]; split; intros H;
    try discriminate;
    try (destruct H as [[[H|H] _]|[[H|H] _]]; discriminate).
  all: try (destruct (y <=? 0) eqn:E; [left; split; [auto|lia]|discriminate]).
  all: try (destruct H as [[_ H]|[[H|H] _]]; try discriminate; destruct (y <=? 0) eqn:E; [reflexivity|lia]).
  all: try (destruct ((63 <=? y) || (y <? 0) || (x <? 0)) eqn:E; [right; split; [auto|lia]|discriminate]).
  all: try (destruct H as [[[H|H] _]|[_ H]]; try discriminate;
            destruct ((63 <=? y) || (y <? 0) || (x <? 0)) eqn:E; [reflexivity|lia]).
Qed.

(* ---------- castValue / truncateIntValue ---------- *)
Lemma pow2_pos n : 0 <= n -> 0 < 2 ^ n.
Proof. intros. apply Z.pow_pos_nonneg; lia. Qed.

Lemma pow2_split n : 1 <= n -> 2 ^ n = 2 * 2 ^ (n - 1).
Proof. intros. replace n with (1 + (n - 1)) at 1 by lia. rewrite Z.pow_add_r by lia. reflexivity. Qed.

(* the result is the unique representative of v modulo 2^bit in the range of (sign, bit) *)
Theorem cast_value_spec s bit v : 1 <= bit < 64 ->
  let r := cast_value s bit v in
  (r - v) mod 2 ^ bit = 0 /\
  match s with
  | Signed => - 2 ^ (bit - 1) <= r < 2 ^ (bit - 1)
  | Unsigned => 0 <= r < 2 ^ bit
  end.
Proof.
  intros Hb. unfold cast_value. destruct (bit <? 64) eqn:E; [|lia]. cbv zeta.
  pose proof (pow2_pos bit ltac:(lia)) as Hp. pose proof (pow2_split bit ltac:(lia)) as Hs.
  pose proof (pow2_pos (bit - 1) ltac:(lia)) as Hp1.
  set (P := 2 ^ bit) in *. set (Q := 2 ^ (bit - 1)) in *. clearbody P Q.
  pose proof (Z.mod_pos_bound v P Hp) as Hm.
  assert (Hd : v = P * (v / P) + v mod P) by (apply Z.div_mod; lia).
  destruct s.
  - destruct (Q <=? v mod P) eqn:Hq.
    + split; [|lia].
      replace (v mod P - P - v) with ((- (v / P) - 1) * P) by lia. apply Z.mod_mul. lia.
    + split; [|lia].
      replace (v mod P - v) with ((- (v / P)) * P) by lia. apply Z.mod_mul. lia.
  - split; [|lia].
    replace (v mod P - v) with ((- (v / P)) * P) by lia. apply Z.mod_mul. lia.
Qed.

(* castValue is exactly C's conversion to a type of that width (6.3.1.3) *)
Theorem cast_value_is_convert p t v :
  t_base t <> TBool -> 1 <= bits_of p (t_base t) < 64 ->
  cast_value (t_sign t) (bits_of p (t_base t)) v = convert p t v.
Proof.
  intros Hb Hn. unfold cast_value, convert. destruct (bits_of p (t_base t) <? 64) eqn:E; [|lia].
  destruct (t_base t); try contradiction; reflexivity.
Qed.

Theorem truncate_int_spec v size s : 1 <= size < 8 ->
  let r := truncate_int v size s in
  (r - v) mod 2 ^ (8 * size) = 0 /\
  match s with
  | Signed => - 2 ^ (8 * size - 1) <= r < 2 ^ (8 * size - 1)
  | Unsigned => 0 <= r < 2 ^ (8 * size)
  end.
Proof.
  intros Hs. unfold truncate_int.
  destruct ((size <=? 0) || (8 <=? size)) eqn:E; [lia|]. cbv zeta.
  pose proof (cast_value_spec s (8 * size) v ltac:(lia)) as H. unfold cast_value in H.
  destruct (8 * size <? 64) eqn:E2; [|lia]. exact H.
Qed.

Theorem truncate_int_8_identity v s : truncate_int v 8 s = v /\ truncate_int v 0 s = v.
Proof. split; reflexivity. Qed.

(* getMinMaxValues: exact range below 62 bits; the two documented bail-outs stated as they are *)
Theorem min_max_spec bits s lo hi : 2 <= bits < 62 ->
  min_max bits s = Some (lo, hi) ->
  match s with
  | Signed => lo = - 2 ^ (bits - 1) /\ hi = 2 ^ (bits - 1) - 1
  | Unsigned => lo = 0 /\ hi = 2 ^ bits - 1
  end.
Proof.
  intros Hb. unfold min_max. destruct (bits =? 1) eqn:E1; [lia|]. destruct (bits <? 62) eqn:E2; [|lia].
  destruct s; intros H; injection H as <- <-; auto.
Qed.

Theorem min_max_64 : min_max 64 Signed = Some (- two63, two63 - 1)
                     /\ min_max 64 Unsigned = Some (0, two63 - 1)
                     /\ min_max 62 Signed = None /\ min_max 63 Unsigned = None.
Proof. repeat split. Qed.
