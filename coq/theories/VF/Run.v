(* Entry point of the extracted executable for the value-flow leaf model. *)
From CV Require Import Base.Bytes VF.Defs.
Local Open Scope Z_scope.

Definition zd (s : str) : Z := match Z_of_dec s with Some z => z | None => 0 end.

(* operator spellings as calculate() receives them *)
Definition bop_of (s : str) : option bop :=
  match s with
  | [43%N] => Some Add | [45%N] => Some Sub | [42%N] => Some Mul | [47%N] => Some Div | [37%N] => Some Mod
  | [38%N] => Some BAnd | [124%N] => Some BOr | [94%N] => Some BXor
  | [62%N] => Some Gt | [60%N] => Some Lt
  | [60%N; 60%N] => Some Shl | [62%N; 62%N] => Some Shr
  | [38%N; 38%N] => Some LAnd | [124%N; 124%N] => Some LOr
  | [61%N; 61%N] => Some Eq | [33%N; 61%N] => Some Ne
  | [62%N; 61%N] => Some Ge | [60%N; 61%N] => Some Le
  | [60%N; 61%N; 62%N] => Some Cmp3
  | _ => None
  end.

Definition uop_of (s : str) : option uop :=
  match s with
  | [45%N] => Some UNeg | [43%N] => Some UPlus | [33%N] => Some UNot | [126%N] => Some UCompl
  | _ => None
  end.

Definition sign_of (s : str) : sign := match s with [117%N] => Unsigned | _ => Signed end. (* "u" / "s" *)
Definition sign_str (s : sign) : str := match s with Unsigned => [117%N] | Signed => [115%N] end.

(* base: "b" bool "c" char "h" short "i" int "l" long "q" long long *)
Definition base_of (s : str) : base :=
  match s with
  | [98%N] => TBool | [99%N] => TChar | [104%N] => TShort | [108%N] => TLong | [113%N] => TLLong
  | _ => TInt
  end.
Definition base_str (b : base) : str :=
  match b with
  | TBool => [98%N] | TChar => [99%N] | TShort => [104%N] | TInt => [105%N] | TLong => [108%N] | TLLong => [113%N]
  end.

(* prefix encoding of an expression:
   L base sign value | C base sign e | U op e | B op e1 e2 | Q c e1 e2 *)
Fixpoint parse (fuel : nat) (l : list str) : option (expr * list str) :=
  match fuel with
  | O => None
  | S f =>
      match l with
      | [76%N] :: b :: s :: v :: r => Some (ELit (mkT (base_of b) (sign_of s)) (zd v), r)
      | [67%N] :: b :: s :: r =>
          match parse f r with
          | Some (e, r') => Some (ECast (mkT (base_of b) (sign_of s)) e, r')
          | None => None
          end
      | [85%N] :: o :: r =>
          match uop_of o, parse f r with
          | Some u, Some (e, r') => Some (EUn u e, r')
          | _, _ => None
          end
      | [66%N] :: o :: r =>
          match bop_of o, parse f r with
          | Some b, Some (e1, r1) =>
              match parse f r1 with
              | Some (e2, r2) => Some (EBin b e1 e2, r2)
              | None => None
              end
          | _, _ => None
          end
      | [81%N] :: r =>
          match parse f r with
          | Some (c, r1) =>
              match parse f r1 with
              | Some (e1, r2) =>
                  match parse f r2 with
                  | Some (e2, r3) => Some (ECond c e1 e2, r3)
                  | None => None
                  end
              | None => None
              end
          | None => None
          end
      | _ => None
      end
  end.

Definition take_platform (l : list str) : option (platform * list str) :=
  match l with
  | c :: s :: i :: lo :: ll :: cs :: r => Some (mkP (zd c) (zd s) (zd i) (zd lo) (zd ll) (bool_of_str cs), r)
  | _ => None
  end.

Definition BAD : list str := [[66%N; 65%N; 68%N]].
Definition res_out (r : res) : list str :=
  match r with
  | RVal t v => [[86%N]; base_str (t_base t); sign_str (t_sign t); dec_of_Z v]
  | RUB => [[85%N; 66%N]]
  | RBad => BAD
  end.

Definition oz (o : option Z) : list str := match o with Some z => [dec_of_Z z] | None => [[69%N]] end.

Definition tag_is (t name : str) : bool := str_eqb t name.

(* tags: "calc" op x y | "cast" sign bit v | "trunc" v size sign | "minmax" bits sign
         | "eval" platform expr | "conv" platform exprA exprB (value of A converted to usual(A,B)) *)
Definition run_leaf (fields : list str) : list str :=
  match fields with
  | tag :: args =>
      if tag_is tag [99;97;108;99]%N then
        match args with
        | [o; x; y] => match bop_of o with Some b => oz (calc b (zd x) (zd y)) | None => BAD end
        | _ => BAD
        end
      else if tag_is tag [99;97;115;116]%N then
        match args with [s; b; v] => [dec_of_Z (cast_value (sign_of s) (zd b) (zd v))] | _ => BAD end
      else if tag_is tag [116;114;117;110;99]%N then
        match args with [v; sz; s] => [dec_of_Z (truncate_int (zd v) (zd sz) (sign_of s))] | _ => BAD end
      else if tag_is tag [109;105;110;109;97;120]%N then
        match args with
        | [b; s] => match min_max (zd b) (sign_of s) with
                    | Some (lo, hi) => [dec_of_Z lo; dec_of_Z hi]
                    | None => [[78%N]]
                    end
        | _ => BAD
        end
      else if tag_is tag [101;118;97;108]%N then
        match take_platform args with
        | Some (p, r) => match parse (S (length r)) r with
                         | Some (e, _) => res_out (eval p e)
                         | None => BAD
                         end
        | None => BAD
        end
      else if tag_is tag [116;121;112;101]%N then   (* "type" platform expr: static type *)
        match take_platform args with
        | Some (p, r) => match parse (S (length r)) r with
                         | Some (e, _) => match type_of_arm p e with
                                          | Some t => [[84%N]; base_str (t_base t); sign_str (t_sign t)]
                                          | None => BAD
                                          end
                         | None => BAD
                         end
        | None => BAD
        end
      else if tag_is tag [99;111;110;118]%N then
        match take_platform args with
        | Some (p, r) =>
            match parse (S (length r)) r with
            | Some (a, r') =>
                match parse (S (length r')) r' with
                | Some (b, _) =>
                    match eval p a, type_of_arm p a, type_of_arm p b with
                    | RVal _ v, Some ta, Some tb => let t := usual p ta tb in res_out (RVal t (convert p t v))
                    | r0, _, _ => res_out r0
                    end
                | None => BAD
                end
            | None => BAD
            end
        | None => BAD
        end
      else BAD
  | [] => BAD
  end.
