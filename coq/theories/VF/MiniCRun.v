(* decoding of MiniC cases for the extracted executable *)
From CV Require Import Base.Bytes VF.Defs VF.MiniC VF.Run.
Local Open Scope Z_scope.

Definition natd (s : str) : nat := Z.to_nat (zd s).

Fixpoint vparse (fuel : nat) (l : list str) : option (vexpr * list str) :=
  match fuel with
  | O => None
  | S f =>
      match l with
      | [76%N] :: b :: s :: v :: r => Some (VLit (mkT (base_of b) (sign_of s)) (zd v), r)
      | [86%N] :: x :: r => Some (VVar (natd x), r)
      | [67%N] :: b :: s :: r =>
          match vparse f r with
          | Some (e, r') => Some (VCast (mkT (base_of b) (sign_of s)) e, r')
          | None => None
          end
      | [85%N] :: o :: r =>
          match uop_of o, vparse f r with
          | Some u, Some (e, r') => Some (VUn u e, r')
          | _, _ => None
          end
      | [66%N] :: o :: r =>
          match bop_of o, vparse f r with
          | Some b, Some (e1, r1) =>
              match vparse f r1 with
              | Some (e2, r2) => Some (VBin b e1 e2, r2)
              | None => None
              end
          | _, _ => None
          end
      | [81%N] :: r =>
          match vparse f r with
          | Some (c, r1) =>
              match vparse f r1 with
              | Some (e1, r2) =>
                  match vparse f r2 with
                  | Some (e2, r3) => Some (VCond c e1 e2, r3)
                  | None => None
                  end
              | None => None
              end
          | None => None
          end
      | _ => None
      end
  end.

(* statements: A x e | I e n s.. m s.. | W e n s.. | O site e | R *)
Fixpoint sparse (fuel : nat) (l : list str) : option (stmt * list str) :=
  match fuel with
  | O => None
  | S f =>
      let fix many (n : nat) (l : list str) : option (list stmt * list str) :=
        match n with
        | O => Some ([], l)
        | S n' => match sparse f l with
                  | Some (s, r) => match many n' r with
                                   | Some (ss, r') => Some (s :: ss, r')
                                   | None => None
                                   end
                  | None => None
                  end
        end in
      match l with
      | [65%N] :: x :: r =>
          match vparse (S (length r)) r with
          | Some (e, r') => Some (SAssign (natd x) e, r')
          | None => None
          end
      | [79%N] :: site :: r =>
          match vparse (S (length r)) r with
          | Some (e, r') => Some (SObs (zd site) e, r')
          | None => None
          end
      | [82%N] :: r => Some (SReturn, r)
      | [73%N] :: r =>
          match vparse (S (length r)) r with
          | Some (c, n1 :: r1) =>
              match many (natd n1) r1 with
              | Some (s1, n2 :: r2) =>
                  match many (natd n2) r2 with
                  | Some (s2, r3) => Some (SIf c s1 s2, r3)
                  | None => None
                  end
              | _ => None
              end
          | _ => None
          end
      | [87%N] :: r =>
          match vparse (S (length r)) r with
          | Some (c, n1 :: r1) =>
              match many (natd n1) r1 with
              | Some (s1, r2) => Some (SWhile c s1, r2)
              | None => None
              end
          | _ => None
          end
      | _ => None
      end
  end.

Fixpoint sparse_many (fuel n : nat) (l : list str) : option (list stmt * list str) :=
  match n with
  | O => Some ([], l)
  | S n' => match sparse fuel l with
            | Some (s, r) => match sparse_many fuel n' r with
                             | Some (ss, r') => Some (s :: ss, r')
                             | None => None
                             end
            | None => None
            end
  end.

(* variables: base sign value|"-" *)
Fixpoint take_vars (n : nat) (l : list str) : option (env * list str) :=
  match n with
  | O => Some ([], l)
  | S n' =>
      match l with
      | b :: s :: v :: r =>
          match take_vars n' r with
          | Some (g, r') =>
              Some ((mkT (base_of b) (sign_of s), match v with [] => None | _ => Some (zd v) end) :: g, r')
          | None => None
          end
      | _ => None
      end
  end.

Definition out_letter (o : outcome) : str :=
  match o with
  | ONormal => [78%N] | OReturned => [82%N] | OUB => [85%N] | OFuel => [70%N] | OBad => [66%N]
  end.

(* platform(6) nvars vars.. fuel nstmts stmts.. -> outcome site value site value ... (chronological) *)
Definition run_exec (args : list str) : list str :=
  match take_platform args with
  | Some (p, nv :: r) =>
      match take_vars (natd nv) r with
      | Some (g, fuel :: ns :: r2) =>
          match sparse_many (S (length r2)) (natd ns) r2 with
          | Some (ss, _) =>
              let '(o, _, tr) := exec (natd fuel) p g [] ss in
              out_letter o :: flat_map (fun sv => [dec_of_Z (fst sv); dec_of_Z (snd sv)]) (rev tr)
          | None => BAD
          end
      | _ => BAD
      end
  | _ => BAD
  end.

Definition run (fields : list str) : list str :=
  match fields with
  | [101%N; 120%N; 101%N; 99%N] :: args => run_exec args     (* "exec" *)
  | _ => run_leaf fields
  end.
