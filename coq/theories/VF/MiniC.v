(* C01: MiniC — integer programs with variables, assignments, branches, bounded
   loops and observation points, with undefined behaviour as an explicit outcome.
   The interpreter is the oracle against which every fact the real binary dumps
   at an observation point is checked, execution by execution. *)
From CV Require Import Base.Bytes VF.Defs.
Local Open Scope Z_scope.

Inductive vexpr :=
  | VLit (t : ctype) (v : Z)
  | VVar (x : nat)
  | VCast (t : ctype) (e : vexpr)
  | VUn (o : uop) (e : vexpr)
  | VBin (o : bop) (e1 e2 : vexpr)
  | VCond (c e1 e2 : vexpr).

Inductive stmt :=
  | SAssign (x : nat) (e : vexpr)                 (* x = e;  (converted to x's type) *)
  | SIf (c : vexpr) (s1 s2 : list stmt)
  | SWhile (c : vexpr) (body : list stmt)
  | SObs (site : Z) (e : vexpr)                   (* sink(e);  records (site, value) *)
  | SReturn.

(* variable i has type fst and value snd (None = indeterminate: reading it is UB) *)
Definition env := list (ctype * option Z).

Fixpoint vtype_of (p : platform) (g : env) (e : vexpr) : option ctype :=
  match e with
  | VLit t _ => Some t
  | VVar x => option_map fst (nth_error g x)
  | VCast t _ => Some t
  | VUn UNot _ => Some tint
  | VUn _ e1 => option_map (promote p) (vtype_of p g e1)
  | VBin o e1 e2 =>
      if is_cmp o then Some tint
      else match o with
           | Shl | Shr => option_map (promote p) (vtype_of p g e1)
           | Cmp3 => None
           | _ => match vtype_of p g e1, vtype_of p g e2 with
                  | Some a, Some b => Some (usual p a b)
                  | _, _ => None
                  end
           end
  | VCond _ e1 e2 => match vtype_of p g e1, vtype_of p g e2 with
                     | Some a, Some b => Some (usual p a b)
                     | _, _ => None
                     end
  end.

Fixpoint veval (p : platform) (g : env) (e : vexpr) : res :=
  match e with
  | VLit t v => if fits p t v then RVal t v else RBad
  | VVar x => match nth_error g x with
              | Some (t, Some v) => RVal t v
              | Some (_, None) => RUB
              | None => RBad
              end
  | VCast t e1 => match veval p g e1 with RVal _ v => RVal t (convert p t v) | r => r end
  | VUn o e1 => match veval p g e1 with RVal t v => eval_un p o t v | r => r end
  | VBin o e1 e2 =>
      match veval p g e1 with
      | RVal t1 x =>
          match o with
          | LAnd => if x =? 0 then RVal tint 0 else
                      match veval p g e2 with RVal t2 y => eval_bin p o t1 x t2 y | r => r end
          | LOr => if negb (x =? 0) then RVal tint 1 else
                      match veval p g e2 with RVal t2 y => eval_bin p o t1 x t2 y | r => r end
          | _ => match veval p g e2 with RVal t2 y => eval_bin p o t1 x t2 y | r => r end
          end
      | r => r
      end
  | VCond c e1 e2 =>
      match veval p g c with
      | RVal _ cv =>
          match vtype_of p g e1, vtype_of p g e2 with
          | Some t1, Some t2 =>
              let t := usual p t1 t2 in
              match veval p g (if cv =? 0 then e2 else e1) with
              | RVal _ v => RVal t (convert p t v)
              | r => r
              end
          | _, _ => RBad
          end
      | r => r
      end
  end.

Fixpoint set_nth (g : env) (x : nat) (v : Z) : env :=
  match g, x with
  | [], _ => []
  | (t, _) :: r, O => (t, Some v) :: r
  | a :: r, S x' => a :: set_nth r x' v
  end.

Inductive outcome := ONormal | OReturned | OUB | OFuel | OBad.

Definition trace := list (Z * Z).   (* (site, value), most recent first *)

(* fuel bounds the total number of statements executed *)
Fixpoint exec (fuel : nat) (p : platform) (g : env) (tr : trace) (ss : list stmt)
  : outcome * env * trace :=
  match fuel with
  | O => (OFuel, g, tr)
  | S f =>
      match ss with
      | [] => (ONormal, g, tr)
      | s :: rest =>
          match s with
          | SReturn => (OReturned, g, tr)
          | SObs site e =>
              match veval p g e with
              | RVal _ v => exec f p g ((site, v) :: tr) rest
              | RUB => (OUB, g, tr)
              | RBad => (OBad, g, tr)
              end
          | SAssign x e =>
              match veval p g e, nth_error g x with
              | RVal _ v, Some (t, _) => exec f p (set_nth g x (convert p t v)) tr rest
              | RUB, _ => (OUB, g, tr)
              | _, _ => (OBad, g, tr)
              end
          | SIf c s1 s2 =>
              match veval p g c with
              | RVal _ cv => exec f p g tr ((if cv =? 0 then s2 else s1) ++ rest)
              | RUB => (OUB, g, tr)
              | RBad => (OBad, g, tr)
              end
          | SWhile c body =>
              match veval p g c with
              | RVal _ cv => if cv =? 0 then exec f p g tr rest
                             else exec f p g tr (body ++ SWhile c body :: rest)
              | RUB => (OUB, g, tr)
              | RBad => (OBad, g, tr)
              end
          end
      end
  end.
