From CV Require Import Base.Bytes VF.Defs VF.Proofs VF.MiniC.
From Coq Require Import ZifyBool.
Local Open Scope Z_scope.
Ltac Zify.zify_post_hook ::= Z.div_mod_to_equations.

(* closed MiniC expressions are exactly the constant expressions of VF.Defs *)
Fixpoint embed (e : expr) : vexpr :=
  match e with
  | ELit t v => VLit t v
  | ECast t e1 => VCast t (embed e1)
  | EUn o e1 => VUn o (embed e1)
  | EBin o a b => VBin o (embed a) (embed b)
  | ECond c a b => VCond (embed c) (embed a) (embed b)
  end.

Lemma vtype_of_embed p g e : vtype_of p g (embed e) = type_of_arm p e.
Proof.
  induction e as [t v|t e IH|o e IH|o a IHa b IHb|c IHc a IHa b IHb]; cbn [embed vtype_of type_of_arm]; try reflexivity.
  - destruct o; try reflexivity; rewrite IH; reflexivity.
  - rewrite IHa, IHb. reflexivity.
  - rewrite IHa, IHb. reflexivity.
Qed.

Theorem veval_embed p g e : veval p g (embed e) = eval p e.
Proof.
  induction e as [t v|t e IH|o e IH|o a IHa b IHb|c IHc a IHa b IHb]; cbn [embed veval eval].
  - reflexivity.
  - rewrite IH. reflexivity.
  - rewrite IH. reflexivity.
  - rewrite IHa, IHb. reflexivity.
  - rewrite IHc, !vtype_of_embed.
    destruct (eval p c) as [tc cv| |]; try reflexivity.
    destruct (type_of_arm p a), (type_of_arm p b); try reflexivity.
    destruct (cv =? 0); [rewrite IHb|rewrite IHa]; reflexivity.
Qed.

(* every conversion lands in the range of its target type *)
Definition platform_ok (p : platform) : Prop :=
  1 <= char_bit p /\ 1 <= short_bit p /\ 1 <= int_bit p /\ 1 <= long_bit p /\ 1 <= llong_bit p.

Lemma bits_pos p b : platform_ok p -> 1 <= bits_of p b.
Proof. intros (?&?&?&?&?). destruct b; cbn; lia. Qed.

Lemma conv_range n v : 1 <= n ->
  (- 2 ^ (n - 1) <= (if 2 ^ (n - 1) <=? v mod 2 ^ n then v mod 2 ^ n - 2 ^ n else v mod 2 ^ n) <= 2 ^ (n - 1) - 1)
  /\ (0 <= v mod 2 ^ n <= 2 ^ n - 1).
Proof.
  intros Hn. pose proof (pow2_pos n ltac:(lia)) as Hp2. pose proof (pow2_split n ltac:(lia)) as Hs.
  pose proof (pow2_pos (n - 1) ltac:(lia)) as Hp1. pose proof (Z.mod_pos_bound v (2 ^ n) Hp2) as Hm.
  set (P := 2 ^ n) in *. set (Q := 2 ^ (n - 1)) in *. clearbody P Q.
  destruct (Q <=? v mod P) eqn:E; lia.
Qed.

Theorem convert_fits p t v : platform_ok p -> fits p t (convert p t v) = true.
Proof.
  intros Hp. pose proof (bits_pos p (t_base t) Hp) as Hb.
  unfold fits, convert, tmin, tmax. destruct (t_base t) eqn:Eb.
  1: { destruct (v =? 0); cbn; destruct (t_sign t); reflexivity. }
  all: cbn [bits_of] in *;
    match type of Hb with 1 <= ?n => destruct (conv_range n v Hb) as [Hs Hu] end;
    destruct (t_sign t); lia.
Qed.

(* stored values stay in the range of their variable's type: an invariant of every execution *)
Definition env_ok (p : platform) (g : env) : Prop :=
  Forall (fun tv => match snd tv with Some v => fits p (fst tv) v = true | None => True end) g.

Lemma set_nth_ok p g x t v : env_ok p g -> nth_error g x = Some t -> fits p (fst t) v = true -> env_ok p (set_nth g x v).
Proof.
  revert x. induction g as [|[t0 v0] g IH]; intros x Hg Hn Hf; [constructor|].
  inversion Hg as [|? ? H1 H2]; subst. destruct x as [|x]; cbn [set_nth].
  - cbn in Hn. injection Hn as <-. constructor; [exact Hf|exact H2].
  - constructor; [exact H1|]. apply IH; assumption.
Qed.

Theorem exec_env_ok fuel : forall p g tr ss o g' tr',
  platform_ok p -> env_ok p g -> exec fuel p g tr ss = (o, g', tr') -> env_ok p g'.
Proof.
  induction fuel as [|f IH]; intros p g tr ss o g' tr' Hp Hg H; cbn [exec] in H.
  - injection H as <- <- <-. exact Hg.
  - destruct ss as [|s rest]; [injection H as <- <- <-; exact Hg|].
    destruct s as [x e|c s1 s2|c body|site e|].
    + destruct (veval p g e) as [t v| |] eqn:Ev.
      * destruct (nth_error g x) as [[tx ox]|] eqn:En.
        -- eapply IH; [exact Hp| |exact H]. eapply set_nth_ok; [exact Hg|exact En|]. cbn. apply convert_fits. exact Hp.
        -- injection H as <- <- <-. exact Hg.
      * injection H as <- <- <-. exact Hg.
      * destruct (nth_error g x); injection H as <- <- <-; exact Hg.
    + destruct (veval p g c) as [t v| |]; try (injection H as <- <- <-; exact Hg).
      eapply IH; [exact Hp|exact Hg|exact H].
    + destruct (veval p g c) as [t v| |]; try (injection H as <- <- <-; exact Hg).
      destruct (v =? 0); eapply IH; [exact Hp|exact Hg|exact H|exact Hp|exact Hg|exact H].
    + destruct (veval p g e) as [t v| |]; try (injection H as <- <- <-; exact Hg).
      eapply IH; [exact Hp|exact Hg|exact H].
    + injection H as <- <- <-. exact Hg.
Qed.
