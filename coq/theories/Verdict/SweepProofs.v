(* C03 X2: what the aggregated result of `sweep` means: a truth value reported as seen at a site was observed at
   that site in a terminating, UB-free execution (`exec` of VF/MiniC.v) on some input of the swept product. *)
From CV Require Import Base.Bytes VF.Defs VF.MiniC Verdict.Sweep.
Require Import Lia.
Local Open Scope Z_scope.

Definition count_of (a : acc) (b : bool) : Z := if b then a_n1 a else a_n0 a.
Definition seen (l : list acc) (site : Z) (b : bool) : Prop :=
  exists a, In a l /\ a_site a = site /\ 0 < count_of a b.
Definition nonneg (l : list acc) : Prop := forall a, In a l -> 0 <= a_n0 a /\ 0 <= a_n1 a.

Lemma upd_acc_nonneg l s v args : nonneg l -> nonneg (upd_acc l s v args).
Proof.
  induction l as [|a r IH]; intros N x Hx; cbn in Hx.
  - destruct Hx as [<-|[]]. destruct (v =? 0); cbn; lia.
  - destruct (a_site a =? s) eqn:E.
    + destruct Hx as [<-|Hx]; [|apply N; right; exact Hx].
      destruct (N a (or_introl eq_refl)). destruct (v =? 0); cbn; lia.
    + destruct Hx as [<-|Hx]; [apply N; left; reflexivity|].
      apply IH; [intros y Hy; apply N; right; exact Hy|exact Hx].
Qed.

Lemma upd_acc_seen l s v args site b : nonneg l ->
  seen (upd_acc l s v args) site b -> seen l site b \/ (site = s /\ b = negb (v =? 0)).
Proof.
  induction l as [|a r IH]; intros N [x [Hx [Hs Hc]]]; cbn in Hx.
  - destruct Hx as [<-|[]]. right. destruct (v =? 0) eqn:E; cbn in *; destruct b; cbn in *; try lia; auto.
  - destruct (a_site a =? s) eqn:E.
    + destruct Hx as [<-|Hx].
      * apply Z.eqb_eq in E. destruct (N a (or_introl eq_refl)) as [N0 N1].
        destruct (v =? 0) eqn:Ev; cbn in *; destruct b; cbn in *.
        -- left. exists a. split; [left; reflexivity|]. split; [lia|exact Hc].
        -- destruct (Z.eq_dec (a_n0 a) 0); [right; split; [lia|reflexivity]|left; exists a; cbn; repeat split; auto; lia].
        -- destruct (Z.eq_dec (a_n1 a) 0); [right; split; [lia|reflexivity]|left; exists a; cbn; repeat split; auto; lia].
        -- left. exists a. split; [left; reflexivity|]. split; [lia|exact Hc].
      * left. exists x. split; [right; exact Hx|]. split; assumption.
    + destruct Hx as [<-|Hx].
      * left. exists a. split; [left; reflexivity|]. split; assumption.
      * destruct (IH (fun y Hy => N y (or_intror Hy))) as [[y [Hy Hy']]|R].
        -- exists x. repeat split; assumption.
        -- left. exists y. split; [right; exact Hy|exact Hy'].
        -- right. exact R.
Qed.

Lemma fold_trace_seen tr : forall l args site b, nonneg l ->
  seen (fold_trace l tr args) site b ->
  seen l site b \/ exists v, In (site, v) tr /\ b = negb (v =? 0).
Proof.
  unfold fold_trace. induction tr as [|[s v] r IH]; intros l args site b N H; cbn in H.
  - left. exact H.
  - apply IH in H; [|apply upd_acc_nonneg; exact N].
    destruct H as [H|[v' [Hv Hb]]].
    + apply upd_acc_seen in H; [|exact N]. destruct H as [H|[-> ->]]; [left; exact H|].
      right. exists v. split; [left; reflexivity|reflexivity].
    + right. exists v'. split; [right; exact Hv|exact Hb].
Qed.

Lemma fold_trace_nonneg tr : forall l args, nonneg l -> nonneg (fold_trace l tr args).
Proof.
  unfold fold_trace. induction tr as [|[s v] r IH]; intros l args N; cbn; [exact N|].
  apply IH. apply upd_acc_nonneg. exact N.
Qed.

(* an observation of truth value b at the site in a terminating UB-free run on input args *)
Definition observed (p : platform) (ptypes : list ctype) (locals : env) (fuel : nat) (ss : list stmt)
           (args : list Z) (site : Z) (b : bool) : Prop :=
  let g := map (fun tv => (fst tv, Some (convert p (fst tv) (snd tv)))) (combine ptypes args) ++ locals in
  exists o g' tr v, exec fuel p g [] ss = (o, g', tr) /\ (o = ONormal \/ o = OReturned) /\
                    In (site, v) tr /\ b = negb (v =? 0).

Lemma run_one_seen p ptypes locals fuel ss tot args site b :
  nonneg (t_acc tot) ->
  seen (t_acc (run_one p ptypes locals fuel ss tot args)) site b ->
  seen (t_acc tot) site b \/ observed p ptypes locals fuel ss args site b.
Proof.
  unfold run_one, observed. intros N H.
  destruct (exec fuel p _ [] ss) as [[o g'] tr] eqn:E.
  destruct o; cbn in H; auto;
    (apply fold_trace_seen in H; [|exact N]; destruct H as [H|[v [Hv Hb]]]; [left; exact H|right];
     eexists; exists g', tr, v; split; [reflexivity|]; split; [auto|]; split; assumption).
Qed.

Lemma run_one_nonneg p ptypes locals fuel ss tot args :
  nonneg (t_acc tot) -> nonneg (t_acc (run_one p ptypes locals fuel ss tot args)).
Proof.
  unfold run_one. intros N. destruct (exec fuel p _ [] ss) as [[o g'] tr].
  destruct o; cbn; auto; apply fold_trace_nonneg; exact N.
Qed.

Theorem sweep_seen_sound p ptypes doms locals fuel ss site b :
  seen (t_acc (sweep p ptypes doms locals fuel ss)) site b ->
  exists args, In args (product doms) /\ observed p ptypes locals fuel ss args site b.
Proof.
  unfold sweep.
  assert (G : forall inputs tot, nonneg (t_acc tot) ->
            seen (t_acc (fold_left (run_one p ptypes locals fuel ss) inputs tot)) site b ->
            seen (t_acc tot) site b \/ exists args, In args inputs /\ observed p ptypes locals fuel ss args site b).
  { induction inputs as [|a r IH]; intros tot N H; cbn in H; [left; exact H|].
    apply IH in H; [|apply run_one_nonneg; exact N].
    destruct H as [H|[args [Hi Ho]]].
    - apply run_one_seen in H; [|exact N]. destruct H as [H|H]; [left; exact H|].
      right. exists a. split; [left; reflexivity|exact H].
    - right. exists args. split; [right; exact Hi|exact Ho]. }
  intros H. apply G in H; [|intros a []].
  destruct H as [[a [[] _]]|H]. exact H.
Qed.
