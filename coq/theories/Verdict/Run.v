(* Entry point of the extracted executable for the C03 verdict kernels. *)
From CV Require Import Base.Bytes VF.Defs VF.Run Verdict.Defs Verdict.Sweep.
Local Open Scope Z_scope.

Definition cmp_of (s : str) : option cmp :=
  match s with
  | [61%N; 61%N] => Some CEq | [33%N; 61%N] => Some CNe
  | [60%N] => Some CLt | [60%N; 61%N] => Some CLe
  | [62%N] => Some CGt | [62%N; 61%N] => Some CGe
  | _ => None
  end.

Definition ob (o : option bool) : list str :=
  match o with None => [[78%N]] | Some true => [[84%N]] | Some false => [[70%N]] end.

Definition ctype_of (b s : str) : ctype := mkT (base_of b) (sign_of s).

(* tags:
   "oor"  platform vtb vts ctb cts const_left op c      -> N | T | F   (oor_in_context)
   "ccmp" platform vtb vts ctb cts const_left op x c    -> C value of the comparison (res_out)
   "mask" is_and unsigned1 const_left op c1 c2                     -> N | T | F
   "opp"  is_not op1 c1 op2 c2                          -> 0 | 1
   "optab" is_not op1 op2                               -> 0 | 1 *)
Definition run (fields : list str) : list str :=
  match fields with
  | tag :: args =>
      if tag_is tag [115;119;101;101;112]%N then run_sweep args      (* "sweep": MiniC program over a product of inputs *)
      else if tag_is tag [111;111;114]%N then
        match take_platform args with
        | Some (p, [vb; vs; cb; cs; cl; o; c]) =>
            match cmp_of o with
            | Some o' => ob (oor_in_context p (ctype_of vb vs) (ctype_of cb cs) (bool_of_str cl) o' (zd c))
            | None => BAD
            end
        | _ => BAD
        end
      else if tag_is tag [99;99;109;112]%N then
        match take_platform args with
        | Some (p, [vb; vs; cb; cs; cl; o; x; c]) =>
            match cmp_of o with
            | Some o' => res_out (c_compare p (ctype_of vb vs) (ctype_of cb cs) (bool_of_str cl) o' (zd x) (zd c))
            | None => BAD
            end
        | _ => BAD
        end
      else if tag_is tag [109;97;115;107]%N then
        match args with
        | [ia; u1; cl; o; c1; c2] =>
            match cmp_of o with
            | Some o' => ob (mask_compare (bool_of_str ia) (bool_of_str u1) (bool_of_str cl) o' (zd c1) (zd c2))
            | None => BAD
            end
        | _ => BAD
        end
      else if tag_is tag [111;112;112]%N then
        match args with
        | [n; o1; c1; o2; c2] =>
            match cmp_of o1, cmp_of o2 with
            | Some a, Some b => [str_of_bool (opposite_cond (bool_of_str n) a (zd c1) b (zd c2))]
            | _, _ => BAD
            end
        | _ => BAD
        end
      else if tag_is tag [111;112;116;97;98]%N then
        match args with
        | [n; o1; o2] =>
            match cmp_of o1, cmp_of o2 with
            | Some a, Some b => [str_of_bool (opposite_table (bool_of_str n) a b)]
            | _, _ => BAD
            end
        | _ => BAD
        end
      else BAD
  | [] => BAD
  end.
