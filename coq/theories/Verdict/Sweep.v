(* C03 X2, primary oracle: run a MiniC program (VF/MiniC.v `exec`, UB as an outcome) over a finite
   product of parameter values and aggregate, per observation site, which truth values / values were seen
   in terminating UB-free executions, with a witness input for each.  Executable definitions only. *)
From CV Require Import Base.Bytes VF.Defs VF.MiniC VF.Run VF.MiniCRun.
Local Open Scope Z_scope.

Record acc := mkA { a_site : Z; a_n0 : Z; a_n1 : Z; a_w0 : list Z; a_w1 : list Z; a_min : Z; a_max : Z }.

Fixpoint upd_acc (l : list acc) (site v : Z) (args : list Z) : list acc :=
  match l with
  | [] => [if v =? 0 then mkA site 1 0 args [] v v else mkA site 0 1 [] args v v]
  | a :: r =>
      if a_site a =? site then
        (if v =? 0
         then mkA site (a_n0 a + 1) (a_n1 a) (if a_n0 a =? 0 then args else a_w0 a) (a_w1 a) (Z.min (a_min a) v) (Z.max (a_max a) v)
         else mkA site (a_n0 a) (a_n1 a + 1) (a_w0 a) (if a_n1 a =? 0 then args else a_w1 a) (Z.min (a_min a) v) (Z.max (a_max a) v)) :: r
      else a :: upd_acc r site v args
  end.

Definition fold_trace (l : list acc) (tr : trace) (args : list Z) : list acc :=
  fold_left (fun l' sv => upd_acc l' (fst sv) (snd sv) args) tr l.

Fixpoint product (doms : list (list Z)) : list (list Z) :=
  match doms with
  | [] => [[]]
  | d :: r => let rest := product r in flat_map (fun v => map (fun t => v :: t) rest) d
  end.

Record totals := mkTot { t_ok : Z; t_ub : Z; t_fuel : Z; t_bad : Z; t_acc : list acc }.

(* parameters are the first variables of the environment; locals follow (indeterminate until assigned) *)
Definition run_one (p : platform) (ptypes : list ctype) (locals : env) (fuel : nat) (ss : list stmt)
           (tot : totals) (args : list Z) : totals :=
  let g := map (fun tv => (fst tv, Some (convert p (fst tv) (snd tv)))) (combine ptypes args) ++ locals in
  let '(o, _, tr) := exec fuel p g [] ss in
  match o with
  | ONormal | OReturned => mkTot (t_ok tot + 1) (t_ub tot) (t_fuel tot) (t_bad tot) (fold_trace (t_acc tot) tr args)
  | OUB => mkTot (t_ok tot) (t_ub tot + 1) (t_fuel tot) (t_bad tot) (t_acc tot)
  | OFuel => mkTot (t_ok tot) (t_ub tot) (t_fuel tot + 1) (t_bad tot) (t_acc tot)
  | OBad => mkTot (t_ok tot) (t_ub tot) (t_fuel tot) (t_bad tot + 1) (t_acc tot)
  end.

Definition sweep (p : platform) (ptypes : list ctype) (doms : list (list Z)) (locals : env) (fuel : nat)
           (ss : list stmt) : totals :=
  fold_left (run_one p ptypes locals fuel ss) (product doms) (mkTot 0 0 0 0 []).

(* ---------- decoding ---------- *)
Fixpoint take_n (n : nat) (l : list str) : option (list Z * list str) :=
  match n with
  | O => Some ([], l)
  | S n' => match l with
            | v :: r => match take_n n' r with Some (vs, r') => Some (zd v :: vs, r') | None => None end
            | [] => None
            end
  end.

(* params: base sign ndom v1..vn *)
Fixpoint take_params (n : nat) (l : list str) : option (list ctype * list (list Z) * list str) :=
  match n with
  | O => Some ([], [], l)
  | S n' =>
      match l with
      | b :: s :: nd :: r =>
          match take_n (natd nd) r with
          | Some (dom, r1) =>
              match take_params n' r1 with
              | Some (ts, ds, r2) => Some (mkT (base_of b) (sign_of s) :: ts, dom :: ds, r2)
              | None => None
              end
          | None => None
          end
      | _ => None
      end
  end.

Definition comma (l : list Z) : str :=
  match l with [] => [45%N] | _ => join [44%N] (map dec_of_Z l) end.

Definition acc_out (a : acc) : list str :=
  [dec_of_Z (a_site a); dec_of_Z (a_n0 a); dec_of_Z (a_n1 a); comma (a_w0 a); comma (a_w1 a); dec_of_Z (a_min a); dec_of_Z (a_max a)].

(* platform(6) nparams params.. nlocals locals.. fuel nstmts stmts..
   -> ok ub fuel bad  then per site: site n0 n1 w0 w1 min max *)
Definition run_sweep (args : list str) : list str :=
  match take_platform args with
  | Some (p, np :: r) =>
      match take_params (natd np) r with
      | Some (ts, ds, nl :: r1) =>
          match take_vars (natd nl) r1 with
          | Some (locals, fuel :: ns :: r2) =>
              match sparse_many (S (length r2)) (natd ns) r2 with
              | Some (ss, _) =>
                  let t := sweep p ts ds locals (natd fuel) ss in
                  [dec_of_Z (t_ok t); dec_of_Z (t_ub t); dec_of_Z (t_fuel t); dec_of_Z (t_bad t)] ++ flat_map acc_out (t_acc t)
              | None => BAD
              end
          | _ => BAD
          end
      | _ => BAD
      end
  | _ => BAD
  end.
