(* C03: soundness of the verdict kernels. *)
From CV Require Import Base.Bytes VF.Defs Verdict.Defs.
Require Import Lia ZifyBool.
Local Open Scope Z_scope.

(* ---------- out_of_type_range ---------- *)
Lemma pow2_half bits : 0 < bits -> 2 ^ bits = 2 * 2 ^ (bits - 1) /\ 0 < 2 ^ (bits - 1).
Proof.
  intros H. split.
  - replace bits with (Z.succ (bits - 1)) at 1 by lia. rewrite Z.pow_succ_r by lia. reflexivity.
  - apply Z.pow_pos_nonneg; lia.
Qed.

(* the range the checker reasons with contains the value range of the type *)
Lemma vrange_in_checker_range ib bits ts cs x : 0 < bits ->
  vrange bits ts x -> oor_type_min bits ts <= x <= oor_type_max ib bits ts cs.
Proof.
  intros Hb Hr. destruct (pow2_half bits Hb) as [E P].
  unfold oor_type_min, oor_type_max, vrange in *.
  destruct ts.
  - rewrite E. replace (2 * 2 ^ (bits - 1) - 1) with (1 + 2 * (2 ^ (bits - 1) - 1)) by lia.
    assert (Q : Z.quot (1 + 2 * (2 ^ (bits - 1) - 1)) 2 = 2 ^ (bits - 1) - 1).
    { rewrite Z.quot_div_nonneg by lia. rewrite Z.add_comm, Z.mul_comm, Z.div_add_l by lia. 
      change (1 / 2) with 0. lia. }
    rewrite Q. destruct ((ib <=? bits) && negb cs); lia.
  - lia.
  - lia.
Qed.

Theorem out_of_type_range_sound ib bits ts cs cl o kiv b :
  out_of_type_range ib bits ts cs cl o kiv = Some b ->
  forall x, oor_type_min bits ts <= x <= oor_type_max ib bits ts cs ->
  cond_value cl o x kiv = b.
Proof.
  unfold out_of_type_range. intros H x Hx.
  destruct ((kiv <? 0) && negb cs); [discriminate|].
  destruct ((bits <=? 0) || (63 <=? bits)) eqn:Eb; [discriminate|].
  set (tmin := oor_type_min bits ts) in *. set (tmax := oor_type_max ib bits ts cs) in *.
  destruct (kiv =? 0) eqn:E0; [discriminate|].
  assert (Hmin : tmin <= 0).
  { unfold tmin, oor_type_min. destruct ts; try lia;
    assert (0 < 2 ^ (bits - 1)) by (apply Z.pow_pos_nonneg; lia); lia. }
  assert (Hmax : 0 <= tmax).
  { unfold tmax, oor_type_max.
    assert (0 < 2 ^ bits) by (apply Z.pow_pos_nonneg; lia).
    destruct ts; try lia. destruct ((ib <=? bits) && negb cs); try lia.
    apply Z.quot_pos; lia. }
  destruct ((kiv <? tmin) || (tmax <? kiv)) eqn:Eout.
  - unfold cond_value, cmp_eval.
    destruct o, cl; cbn [starts_gt] in H; inversion H; subst b; lia.
  - destruct cl.
    + destruct (kiv =? tmin) eqn:Em.
      * destruct o; cbn [cmp_eqb starts_gt] in H; try discriminate; inversion H; subst b;
          unfold cond_value, cmp_eval; lia.
      * destruct ((kiv =? tmax) && (cmp_eqb o CGe || cmp_eqb o CLt)) eqn:Ex; [|discriminate].
        destruct o; cbn [cmp_eqb starts_gt orb andb] in *; try lia; inversion H; subst b;
          unfold cond_value, cmp_eval; lia.
    + destruct (kiv =? tmin) eqn:Em.
      * destruct o; cbn [cmp_eqb starts_gt] in H; try discriminate; inversion H; subst b;
          unfold cond_value, cmp_eval; lia.
      * destruct ((kiv =? tmax) && (cmp_eqb o CLe || cmp_eqb o CGt)) eqn:Ex; [|discriminate].
        destruct o; cbn [cmp_eqb starts_gt orb andb] in *; try lia; inversion H; subst b;
          unfold cond_value, cmp_eval; lia.
Qed.

Corollary out_of_type_range_sound_vrange ib bits ts cs cl o kiv b :
  out_of_type_range ib bits ts cs cl o kiv = Some b ->
  forall x, vrange bits ts x -> cond_value cl o x kiv = b.
Proof.
  intros H x Hx. apply (out_of_type_range_sound ib bits ts cs cl o kiv b H).
  apply vrange_in_checker_range; [|exact Hx].
  unfold out_of_type_range in H.
  destruct ((kiv <? 0) && negb cs); [discriminate|].
  destruct ((bits <=? 0) || (63 <=? bits)) eqn:Eb; [discriminate|]. lia.
Qed.

(* ---------- mask_compare ---------- *)
Lemma land_le_mask x c : 0 <= c -> 0 <= Z.land x c <= c.
Proof.
  intros Hc. split.
  - apply Z.land_nonneg. right. exact Hc.
  - assert (E : Z.ldiff (Z.land x c) c = 0).
    { apply Z.bits_inj'. intros n Hn. rewrite Z.ldiff_spec, Z.land_spec, Z.bits_0.
      destruct (Z.testbit x n), (Z.testbit c n); reflexivity. }
    apply Z.sub_nocarry_ldiff in E.
    assert (0 <= Z.ldiff c (Z.land x c)) by (apply Z.ldiff_nonneg; left; exact Hc). lia.
Qed.

Lemma lor_ge_mask x c : 0 <= x -> 0 <= c -> c <= Z.lor x c.
Proof.
  intros Hx Hc.
  assert (E : Z.ldiff c (Z.lor x c) = 0).
  { apply Z.bits_inj'. intros n Hn. rewrite Z.ldiff_spec, Z.lor_spec, Z.bits_0.
    destruct (Z.testbit x n), (Z.testbit c n); reflexivity. }
  apply Z.sub_nocarry_ldiff in E.
  assert (0 <= Z.ldiff (Z.lor x c) c).
  { apply Z.ldiff_nonneg. left. apply Z.lor_nonneg. split; assumption. }
  lia.
Qed.

Lemma land_eq_mask x c1 c2 : Z.land x c1 = c2 -> Z.land c1 c2 = c2.
Proof.
  intros H. subst c2. apply Z.bits_inj'. intros n Hn. rewrite !Z.land_spec.
  destruct (Z.testbit x n), (Z.testbit c1 n); reflexivity.
Qed.

Lemma lor_eq_mask x c1 c2 : Z.lor x c1 = c2 -> Z.lor c1 c2 = c2.
Proof.
  intros H. subst c2. apply Z.bits_inj'. intros n Hn. rewrite !Z.lor_spec.
  destruct (Z.testbit x n), (Z.testbit c1 n); reflexivity.
Qed.

(* "(X & c1) o c2" / "(X | c1) o c2" has the reported value for every X (for "|" with a relational
   operator the code requires an unsigned left operand: X >= 0) *)
Theorem mask_table_sound is_and u1 o c1 c2 b :
  mask_table is_and u1 o c1 c2 = Some b ->
  forall x, (is_and = false -> u1 = true -> 0 <= x) ->
  cmp_eval o (bit_value is_and x c1) c2 = b.
Proof.
  unfold mask_table. intros H x Hx.
  destruct (c2 <? 0) eqn:E2; [discriminate|].
  destruct (c1 <? 0) eqn:E1; [discriminate|].
  assert (H1 : 0 <= c1) by lia. assert (H2 : 0 <= c2) by lia.
  pose proof (land_le_mask x c1 H1) as La.
  unfold bit_value, cmp_eval.
  destruct is_and.
  - destruct o; cbn [cmp_eqb orb andb negb] in H.
    + destruct (negb (Z.land c1 c2 =? c2)) eqn:E; [|discriminate]. inversion H; subst b.
      destruct (Z.land x c1 =? c2) eqn:E'; [|reflexivity].
      apply Z.eqb_eq in E'. apply land_eq_mask in E'. lia.
    + destruct (negb (Z.land c1 c2 =? c2)) eqn:E; [|discriminate]. inversion H; subst b.
      destruct (Z.land x c1 =? c2) eqn:E'; [|reflexivity].
      apply Z.eqb_eq in E'. apply land_eq_mask in E'. lia.
    + destruct (c1 <? c2) eqn:E; [|discriminate]. inversion H; subst b. lia.
    + destruct (c1 <=? c2) eqn:E; [|discriminate]. inversion H; subst b. lia.
    + destruct (c1 <=? c2) eqn:E; [|discriminate]. inversion H; subst b. lia.
    + destruct (c1 <? c2) eqn:E; [|discriminate]. inversion H; subst b. lia.
  - destruct o; cbn [cmp_eqb orb andb negb] in H.
    + destruct (negb (Z.lor c1 c2 =? c2)) eqn:E; [|discriminate]. inversion H; subst b.
      destruct (Z.lor x c1 =? c2) eqn:E'; [|reflexivity].
      apply Z.eqb_eq in E'. apply lor_eq_mask in E'. lia.
    + destruct (negb (Z.lor c1 c2 =? c2)) eqn:E; [|discriminate]. inversion H; subst b.
      destruct (Z.lor x c1 =? c2) eqn:E'; [|reflexivity].
      apply Z.eqb_eq in E'. apply lor_eq_mask in E'. lia.
    + destruct u1; [|discriminate]. pose proof (lor_ge_mask x c1 (Hx eq_refl eq_refl) H1).
      destruct (c2 <=? c1) eqn:E; [|discriminate]. inversion H; subst b. lia.
    + destruct u1; [|discriminate]. pose proof (lor_ge_mask x c1 (Hx eq_refl eq_refl) H1).
      destruct (c2 <? c1) eqn:E; [|discriminate]. inversion H; subst b. lia.
    + destruct u1; [|discriminate]. pose proof (lor_ge_mask x c1 (Hx eq_refl eq_refl) H1).
      destruct (c2 <? c1) eqn:E; [|discriminate]. inversion H; subst b. lia.
    + destruct u1; [|discriminate]. pose proof (lor_ge_mask x c1 (Hx eq_refl eq_refl) H1).
      destruct (c2 <=? c1) eqn:E; [|discriminate]. inversion H; subst b. lia.
Qed.

Lemma cmp_eval_mirror o x c : cmp_eval (mirror o) x c = cmp_eval o c x.
Proof. destruct o; cbn; try reflexivity; rewrite Z.eqb_sym; reflexivity. Qed.

(* the comparison as written -- constant on either side -- has the reported value for every X *)
Theorem mask_compare_sound is_and u1 cl o c1 c2 b :
  mask_compare is_and u1 cl o c1 c2 = Some b ->
  forall x, (is_and = false -> u1 = true -> 0 <= x) ->
  cond_value cl o (bit_value is_and x c1) c2 = b.
Proof.
  unfold mask_compare, cond_value. intros H x Hx. destruct cl.
  - rewrite <- cmp_eval_mirror. eapply mask_table_sound; eauto.
  - eapply mask_table_sound; eauto.
Qed.

(* ---------- opposite_cond ---------- *)
Theorem opposite_cond_sound o1 c1 o2 c2 :
  opposite_cond false o1 c1 o2 c2 = true ->
  forall x, cmp_eval o1 x c1 = true -> cmp_eval o2 x c2 = false.
Proof.
  unfold opposite_cond, cmp_eval. intros H x.
  destruct o1, o2; cbn [andb] in H; try discriminate; lia.
Qed.

Theorem opposite_table_sound is_not o1 o2 :
  opposite_table is_not o1 o2 = true ->
  forall x c, cmp_eval o1 x c = true -> cmp_eval o2 x c = false.
Proof.
  unfold opposite_table, cmp_eval. intros H x c.
  destruct o1, o2, is_not; cbn [negb] in H; try discriminate; lia.
Qed.

(* with isNot the table is an exact negation *)
Theorem opposite_table_not_exact o1 o2 :
  opposite_table true o1 o2 = true ->
  forall x c, cmp_eval o2 x c = negb (cmp_eval o1 x c).
Proof.
  unfold opposite_table, cmp_eval. intros H x c.
  destruct o1, o2; cbn [negb] in H; try discriminate; lia.
Qed.

Theorem opposite_cond_is_not : forall o1 c1 o2 c2, opposite_cond true o1 c1 o2 c2 = false.
Proof. reflexivity. Qed.

(* ---------- the range kernel in its C context ---------- *)
Lemma fits_vrange p vt x : 0 < bits_of p (t_base vt) -> fits p vt x = true ->
  vrange (bits_of p (t_base vt)) (vsign_of vt) x.
Proof.
  unfold fits, tmin, tmax, vrange, vsign_of. intros Hb H.
  destruct vt as [bs sg]; cbn [t_base t_sign] in *.
  destruct bs, sg; cbn [bits_of] in *; try lia.
Qed.

Lemma eval_bin_cmp p o t1 x t2 y :
  eval_bin p (cmp_bop o) t1 x t2 y =
  RVal tint (b2z (cmp_eval o (convert p (usual p t1 t2) x) (convert p (usual p t1 t2) y))).
Proof. destruct o; reflexivity. Qed.

(* If the usual arithmetic conversions leave the variable's value unchanged and turn the constant
   into the value the checker works with (its token's Known value), the reported verdict is the
   value ISO C gives the comparison, for every value of the variable's type. *)
Theorem oor_in_context_sound p vt ct cl o c b :
  oor_in_context p vt ct cl o c = Some b ->
  forall x, fits p vt x = true ->
  let t := if cl then usual p ct vt else usual p vt ct in
  convert p t x = x ->
  convert p t c = (if cl then implicit_conv p ct vt c else implicit_conv p vt ct c) ->
  c_compare p vt ct cl o x c = RVal tint (b2z b).
Proof.
  unfold oor_in_context, c_compare. intros H x Hf. cbv zeta. intros Hx Hc.
  destruct (signed_to_unsigned_skip p vt ct); [discriminate|].
  assert (Hb : 0 < bits_of p (t_base vt)).
  { unfold out_of_type_range in H.
    destruct ((_ <? 0) && negb _); [discriminate|].
    destruct ((bits_of p (t_base vt) <=? 0) || (63 <=? bits_of p (t_base vt))) eqn:E; [discriminate|]. lia. }
  pose proof (out_of_type_range_sound_vrange _ _ _ _ _ _ _ _ H x (fits_vrange p vt x Hb Hf)) as S.
  destruct cl; rewrite eval_bin_cmp, Hx, Hc; unfold cond_value in S; rewrite S; reflexivity.
Qed.

Definition unix64 : platform := mkP 8 16 32 64 64 true.

Definition unix32 : platform := mkP 8 16 32 32 64 true.

(* since fix 6eefeb1 the former witness `short x; x < 40000U` is no longer flagged ... *)
Theorem signed_to_unsigned_skipped p vt ct cl o c :
  vsign_of vt = VSigned -> t_sign ct = Unsigned ->
  Z.max (int_bit p) (bits_of p (t_base vt)) <= bits_of p (t_base ct) ->
  oor_in_context p vt ct cl o c = None.
Proof.
  intros H1 H2 H3. unfold oor_in_context, signed_to_unsigned_skip. rewrite H1, H2.
  destruct (Z.max (int_bit p) (bits_of p (t_base vt)) <=? bits_of p (t_base ct)) eqn:E; [reflexivity|lia].
Qed.

(* ... but without the conversion hypothesis the verdict can still be wrong: `unsigned long x; -1 <= x`
   with a 32-bit long is reported always true, but -1 is converted to 4294967295
   (the token's Known value keeps the left operand's sign: C01's vf-equal-size-different-rank) *)
Theorem oor_in_context_refuted :
  exists p vt ct cl o c x b,
    fits p vt x = true /\ fits p ct c = true /\
    oor_in_context p vt ct cl o c = Some b /\
    c_compare p vt ct cl o x c = RVal tint (b2z (negb b)).
Proof.
  exists unix32, (mkT TLong Unsigned), (mkT TInt Signed), true, CLe, (-1), 0, true.
  vm_compute. split; [reflexivity|]. split; [reflexivity|]. split; reflexivity.
Qed.
