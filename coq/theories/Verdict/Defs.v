(* C03: decision kernels of the "condition is always true/false" checkers,
   as the code computes them (lib/checkcondition.cpp, lib/astutils.cpp).
   Executable definitions only; the C semantics they are judged against is
   VF/Defs.v (`eval_bin`, `convert`, `usual`, `promote`). *)
From CV Require Import Base.Bytes VF.Defs.
Local Open Scope Z_scope.

(* ---------- comparison operators ---------- *)
Inductive cmp := CEq | CNe | CLt | CLe | CGt | CGe.

Definition cmp_eval (o : cmp) (x y : Z) : bool :=
  match o with
  | CEq => x =? y | CNe => negb (x =? y)
  | CLt => x <? y | CLe => x <=? y
  | CGt => y <? x | CGe => y <=? x
  end.

Definition cmp_bop (o : cmp) : bop :=
  match o with CEq => Eq | CNe => Ne | CLt => Lt | CLe => Le | CGt => Gt | CGe => Ge end.

(* the comparison as written: the constant is the left or the right operand *)
Definition cond_value (const_left : bool) (o : cmp) (x c : Z) : bool :=
  if const_left then cmp_eval o c x else cmp_eval o x c.

Definition cmp_eqb (a b : cmp) : bool :=
  match a, b with
  | CEq, CEq | CNe, CNe | CLt, CLt | CLe, CLe | CGt, CGt | CGe, CGe => true
  | _, _ => false
  end.

(* tok->str()[0] == '>' / '<' *)
Definition starts_gt (o : cmp) : bool := match o with CGt | CGe => true | _ => false end.
Definition starts_lt (o : cmp) : bool := match o with CLt | CLe => true | _ => false end.

(* ValueType::Sign *)
Inductive vsign := VSigned | VUnsigned | VUnknown.

(* ---------- CheckCondition::checkCompareValueOutOfTypeRange, one (valueTok, typeTok) pair ----------
   int_bit   : settings.platform.int_bit
   bits      : width of typeTok's type (0 when the switch falls to default)
   tsign     : typeTok->valueType()->sign
   csigned   : valueTok->valueType() && sign == SIGNED
   const_left: i == 0 ("num cmp var")
   kiv       : valueTok->getKnownIntValue()
   Result: None = no finding, Some b = "Condition is always b". *)
Definition oor_type_min (bits : Z) (tsign : vsign) : Z :=
  match tsign with VUnsigned => 0 | _ => - 2 ^ (bits - 1) end.

Definition oor_type_max (int_bit bits : Z) (tsign : vsign) (csigned : bool) : Z :=
  let umax := 2 ^ bits - 1 in
  match tsign with
  | VSigned => if (int_bit <=? bits) && negb csigned then umax else Z.quot umax 2
  | _ => umax
  end.

Definition out_of_type_range (int_bit bits : Z) (tsign : vsign) (csigned const_left : bool)
           (o : cmp) (kiv : Z) : option bool :=
  if (kiv <? 0) && negb csigned then None
  else if (bits <=? 0) || (63 <=? bits) then None
  else
    let tmin := oor_type_min bits tsign in
    let tmax := oor_type_max int_bit bits tsign csigned in
    if kiv =? 0 then None
    else
      let result :=
        match o with
        | CEq => false
        | CNe => true
        | _ => if starts_gt o then (if const_left then 0 <? kiv else kiv <? 0)
               else (if const_left then kiv <? 0 else 0 <? kiv)
        end in
      if (kiv <? tmin) || (tmax <? kiv) then Some result
      else if const_left then
        if kiv =? tmin then
          (if cmp_eqb o CLe then Some true else if cmp_eqb o CGt then Some result else None)
        else if (kiv =? tmax) && (cmp_eqb o CGe || cmp_eqb o CLt) then Some result else None
      else
        if kiv =? tmin then
          (if cmp_eqb o CGe then Some true else if cmp_eqb o CLt then Some result else None)
        else if (kiv =? tmax) && (cmp_eqb o CLe || cmp_eqb o CGt) then Some result else None.

(* the value range of a type of that width and sign (unknown sign: either) *)
Definition vrange (bits : Z) (tsign : vsign) (x : Z) : Prop :=
  match tsign with
  | VSigned => - 2 ^ (bits - 1) <= x <= 2 ^ (bits - 1) - 1
  | VUnsigned => 0 <= x <= 2 ^ bits - 1
  | VUnknown => - 2 ^ (bits - 1) <= x <= 2 ^ bits - 1
  end.

(* ---------- the kernel in its C context ----------
   The constant the checker sees is the token's Known value, which setTokenValue has already
   passed through truncateImplicitConversion w.r.t. the sibling (lib/vf_settokenvalue.cpp). *)
Definition vsign_of (t : ctype) : vsign :=
  match t_base t with
  | TBool => VUnknown            (* parsedecl leaves bool without a sign *)
  | _ => match t_sign t with Signed => VSigned | Unsigned => VUnsigned end
  end.

(* truncateImplicitConversion for a comparison parent, in bits (getSizeOf * 8) *)
Definition implicit_conv (p : platform) (t1 t2 : ctype) (v : Z) : Z :=
  let prom (t : ctype) :=
    let n := bits_of p (t_base t) in
    if n <? int_bit p then (int_bit p, Signed, TInt) else (n, t_sign t, t_base t) in
  let '(n1, s1, b1) := prom t1 in
  let '(n2, s2, b2) := prom t2 in
  if sign_eqb s1 s2 then v
  else
    let s := if n1 <? n2 then s2
             else if (n2 <? n1) || negb (rank b1 =? rank b2) then s1 else Unsigned in
    cast_value s (Z.max n1 n2) v.

(* verdict for `x o c` / `c o x` with x : vt, c : ct (a constant that fits ct) *)
(* fix 6eefeb1: a signed operand that the usual arithmetic conversions turn into an unsigned type
   (the constant is unsigned and at least as wide as int and as the operand) is skipped *)
Definition signed_to_unsigned_skip (p : platform) (vt ct : ctype) : bool :=
  match vsign_of vt, t_sign ct with
  | VSigned, Unsigned => Z.max (int_bit p) (bits_of p (t_base vt)) <=? bits_of p (t_base ct)
  | _, _ => false
  end.

Definition oor_in_context (p : platform) (vt ct : ctype) (const_left : bool) (o : cmp) (c : Z) : option bool :=
  if signed_to_unsigned_skip p vt ct then None else
  let kiv := if const_left then implicit_conv p ct vt c else implicit_conv p vt ct c in
  out_of_type_range (int_bit p) (bits_of p (t_base vt)) (vsign_of vt)
                    (match t_sign ct with Signed => true | Unsigned => false end)
                    const_left o kiv.

(* the value C gives the comparison (ISO C 6.5.8/6.5.9 after the usual arithmetic conversions) *)
Definition c_compare (p : platform) (vt ct : ctype) (const_left : bool) (o : cmp) (x c : Z) : res :=
  if const_left then eval_bin p (cmp_bop o) ct c vt x else eval_bin p (cmp_bop o) vt x ct c.

(* ---------- CheckCondition::comparison: (X & c1) o c2, (X | c1) o c2 ----------
   is_and    : expr1->str() == "&"   (else "|")
   unsigned1 : expr1->astOperand1()'s type is UNSIGNED (only consulted for "|")
   The code swaps the operands when the constant is on the left and mirrors the operator. *)
Definition mirror (o : cmp) : cmp :=
  match o with CLt => CGt | CLe => CGe | CGt => CLt | CGe => CLe | o' => o' end.

(* the verdict table for "(X bitop c1) o c2" *)
Definition mask_table (is_and unsigned1 : bool) (o : cmp) (c1 c2 : Z) : option bool :=
  if c2 <? 0 then None
  else if c1 <? 0 then None
  else
    match o with
    | CEq | CNe =>
        if (if is_and then negb (Z.land c1 c2 =? c2) else negb (Z.lor c1 c2 =? c2))
        then Some (negb (cmp_eqb o CEq)) else None
    | _ =>
        let or_equal := match o with CGe | CLe => true | _ => false end in
        if is_and then
          if (cmp_eqb o CGe || cmp_eqb o CLt) && (c1 <? c2) then Some (negb or_equal)
          else if (cmp_eqb o CLe || cmp_eqb o CGt) && (c1 <=? c2) then Some or_equal
          else None
        else if unsigned1 then
          if (cmp_eqb o CGe || cmp_eqb o CLt) && (c2 <=? c1) then Some or_equal
          else if (cmp_eqb o CLe || cmp_eqb o CGt) && (c2 <? c1) then Some (negb or_equal)
          else None
        else None
    end.

(* fix 16eb134: the operator is mirrored when the constant is the left operand *)
Definition mask_compare (is_and unsigned1 const_left : bool) (o : cmp) (c1 c2 : Z) : option bool :=
  mask_table is_and unsigned1 (if const_left then mirror o else o) c1 c2.

Definition bit_value (is_and : bool) (x c1 : Z) : Z := if is_and then Z.land x c1 else Z.lor x c1.

(* ---------- numeric core of isOppositeCond (lib/astutils.cpp) ----------
   Two comparisons of the same expression X; both already oriented "X op c"
   (the code mirrors op when the known value is the left operand).
   same_rhs: the right operands are the same expression (isSameExpression), then the operator
   table at the end of the function decides; otherwise both must be Known constants. *)
Definition opposite_table (is_not : bool) (o1 o2 : cmp) : bool :=
  match o1, o2 with
  | CEq, CNe | CNe, CEq | CLt, CGe | CLe, CGt | CGt, CLe | CGe, CLt => true
  | CLt, CGt | CGt, CLt | CEq, CGt | CEq, CLt | CGt, CEq | CLt, CEq => negb is_not
  | _, _ => false
  end.

Definition opposite_cond (is_not : bool) (o1 : cmp) (c1 : Z) (o2 : cmp) (c2 : Z) : bool :=
  if is_not then false
  else
    match o1, o2 with
    | CEq, CEq => negb (c1 =? c2)        (* isDifferentKnownValues *)
    | _, _ =>
        match o1 with
        | CLt | CLe => (match o2 with CEq | CGt | CGe => true | _ => false end) && (c1 <? c2)
        | CGe | CGt => (match o2 with CEq | CLt | CLe => true | _ => false end) && (c2 <? c1)
        | _ => false
        end
    end.
