(* C08 -- what can be said about Scope::findFunction's ranking against C++ overload resolution. *)
From Coq Require Import List NArith Bool PeanoNat Lia.
From CV Require Import Names.FindDefs.
Import ListNotations.

Lemma match_same_rank a p : match_param a p = Same <-> conv_rank a p = 0.
Proof.
  unfold match_param, conv_rank, ty_eqb.
  destruct a as [ba ua], p as [bp up]; cbn [base uns].
  destruct ba, bp, ua, up; cbn; split; intros H; try discriminate; try reflexivity.
Qed.

Lemma counts_bound ps : forall args s f1 f2, counts ps args = (s, f1, f2) -> s <= length args.
Proof.
  induction ps as [|p ps IH]; intros [|a args] s f1 f2 H; cbn [counts] in H; try (injection H as <- <- <-; cbn; lia).
  destruct (counts ps args) as [[s' f1'] f2'] eqn:E. specialize (IH _ _ _ _ E).
  destruct (match_param a p); injection H as <- <- <-; cbn [length]; lia.
Qed.

Lemma exact_iff ps : forall args s f1 f2, length args <= length ps -> counts ps args = (s, f1, f2) ->
  (s = length args <-> ranks ps args = repeat 0 (length args)).
Proof.
  induction ps as [|p ps IH]; intros [|a args] s f1 f2 Hl H; cbn [counts ranks length repeat] in *.
  - injection H as <- <- <-. tauto.
  - lia.
  - injection H as <- <- <-. tauto.
  - destruct (counts ps args) as [[s' f1'] f2'] eqn:E.
    pose proof (counts_bound _ _ _ _ _ E) as Hb.
    assert (Hl' : length args <= length ps) by lia.
    specialize (IH _ _ _ _ Hl' E).
    destruct (match_param a p) eqn:M; injection H as <- <- <-.
    + apply match_same_rank in M. rewrite M. split; intros H.
      * f_equal. apply IH. lia.
      * injection H as H. apply IH in H. lia.
    + split; intros H; [lia|]. injection H as H0 _. apply match_same_rank in H0. congruence.
    + split; intros H; [lia|]. injection H as H0 _. apply match_same_rank in H0. congruence.
Qed.

Lemma ranks_length ps : forall args, length args <= length ps -> length (ranks ps args) = length args.
Proof.
  induction ps as [|p ps IH]; intros [|a args] H; cbn [ranks length] in *; try lia. rewrite IH; lia.
Qed.

Lemma all_le_zero n : forall r, all_le (repeat 0 n) r = true.
Proof. induction n; intros [|x r]; cbn; auto. Qed.

Lemma some_lt_zero n : forall r, length r = n -> r <> repeat 0 n -> some_lt (repeat 0 n) r = true.
Proof.
  induction n; intros [|x r] Hl Hne; cbn [repeat some_lt length] in *; try discriminate; try congruence.
  destruct x; cbn.
  - apply IHn; [lia|]. intros E. apply Hne. rewrite E. reflexivity.
  - reflexivity.
Qed.

Lemma cands_in fs : forall n k i f, In (i, f) (cands fs n k) -> k <= i /\ nth_error fs (i - k) = Some f /\ arity_ok f n = true.
Proof.
  induction fs as [|g fs IH]; intros n k i f H; cbn [cands] in H; [contradiction|].
  destruct (arity_ok g n) eqn:E.
  - destruct H as [H|H].
    + injection H as <- <-. rewrite Nat.sub_diag. auto.
    + destruct (IH _ _ _ _ H) as (H1 & H2 & H3). repeat split; [lia | | exact H3].
      replace (i - k) with (S (i - S k)) by lia. exact H2.
  - destruct (IH _ _ _ _ H) as (H1 & H2 & H3). repeat split; [lia | | exact H3].
    replace (i - k) with (S (i - S k)) by lia. exact H2.
Qed.

Lemma arity_len f (args : list aty) : arity_ok f (length args) = true -> length args <= length (params f).
Proof.
  unfold arity_ok. intros H. apply orb_true_iff in H. destruct H as [H|H].
  - apply Nat.eqb_eq in H. lia.
  - apply andb_true_iff in H. destruct H as [H _]. apply Nat.ltb_lt in H. lia.
Qed.

Definition is_exact (f : fsig) (args : list aty) : bool :=
  match classify f args with CExact => true | _ => false end.

Lemma exact_ranks f args : arity_ok f (length args) = true ->
  (is_exact f args = true <-> ranks (params f) args = repeat 0 (length args)).
Proof.
  intros Ha. pose proof (arity_len f args Ha) as Hl. unfold is_exact, classify.
  destruct (counts (params f) args) as [[s f1] f2] eqn:E.
  pose proof (exact_iff _ _ _ _ _ Hl E) as Hi.
  destruct (Nat.eqb s (length args)) eqn:Es.
  - apply Nat.eqb_eq in Es. tauto.
  - apply Nat.eqb_neq in Es. destruct (Nat.eqb (s + f1) (length args)); split; intros H; try discriminate; tauto.
Qed.

Lemma find_first {A} (p : A -> bool) l : (exists e, In e l /\ p e = true) -> exists e, find p l = Some e /\ In e l /\ p e = true.
Proof.
  induction l as [|x l IH]; intros (e & Hin & Hp); [contradiction|].
  cbn [find]. destruct (p x) eqn:E.
  - exists x. repeat split; auto. left; reflexivity.
  - destruct Hin as [->|Hin]; [congruence|].
    destruct (IH (ex_intro _ e (conj Hin Hp))) as (e' & H1 & H2 & H3). exists e'. repeat split; auto. right; exact H2.
Qed.

(* an all-exact candidate, when it is the only one, is what findFunction returns, and it is the best viable function *)
Theorem find_function_exact_sound fs args i f :
  In (i, f) (cands fs (length args) 0) ->
  is_exact f args = true ->
  (forall j g, In (j, g) (cands fs (length args) 0) -> j <> i -> is_exact g args = false) ->
  find_function fs args = Some i /\ is_best fs args i = true.
Proof.
  intros Hin Hex Huniq. split.
  - unfold find_function.
    destruct (find_first (fun c => match classify (snd c) args with CExact => true | _ => false end)
                         (cands fs (length args) 0)) as ([j g] & Hf & Hj & Hp).
    { exists (i, f). split; [exact Hin | exact Hex]. }
    rewrite Hf. f_equal. destruct (Nat.eq_dec j i) as [E|E]; [exact E|].
    specialize (Huniq _ _ Hj E). unfold is_exact in Huniq. cbn [snd] in Hp. rewrite Hp in Huniq. discriminate.
  - unfold is_best. apply andb_true_iff. split.
    + apply existsb_exists. exists (i, f). split; [exact Hin | apply Nat.eqb_refl].
    + apply forallb_forall. intros [j g] Hj. cbn [fst snd].
      destruct (Nat.eqb j i) eqn:E; [reflexivity|]. apply Nat.eqb_neq in E. cbn [orb].
      destruct (cands_in _ _ _ _ _ Hin) as (_ & Hn & Ha). rewrite Nat.sub_0_r in Hn. rewrite Hn.
      destruct (cands_in _ _ _ _ _ Hj) as (_ & _ & Hag).
      unfold better. rewrite (proj1 (exact_ranks f args Ha) Hex).
      rewrite all_le_zero. cbn [andb]. apply some_lt_zero.
      * apply ranks_length. apply arity_len. exact Hag.
      * intros Hr. apply (exact_ranks g args Hag) in Hr. rewrite (Huniq _ _ Hj E) in Hr. discriminate.
Qed.

(* a single viable candidate is returned, whatever its conversions *)
Theorem find_function_single fs args i f :
  cands fs (length args) 0 = [(i, f)] -> find_function fs args = Some i /\ is_best fs args i = true.
Proof.
  intros Hc. split.
  - unfold find_function. rewrite Hc. cbn [find snd fst flat_map].
    destruct (classify f args); cbn; reflexivity.
  - unfold is_best. rewrite Hc. cbn. rewrite Nat.eqb_refl. reflexivity.
Qed.

(* beyond that the fallback ranking is NOT C++'s: two machine-checked witnesses *)
Definition sS := mkTy TShort false. Definition sI := mkTy TInt false. Definition sL := mkTy TLong false.
Definition sD := mkTy TDouble false.

(* void f(int); void f(long); void f(double);  f(short)  -- C++: f(int) (promotion); two FALLBACK1 candidates tie, the
   single FALLBACK2 candidate f(double) is returned *)
Definition w1_fs := [mkSig [sI] 0; mkSig [sL] 0; mkSig [sD] 0].
(* void f(long, long); void f(double, int);  f(int, short)  -- C++: f(double, int); the FALLBACK1 candidate is returned *)
Definition w2_fs := [mkSig [sL; sL] 0; mkSig [sD; sI] 0].

Lemma find_function_fallback_refuted :
  (find_function w1_fs [sS] = Some 2 /\ best_viable w1_fs [sS] = Some 0) /\
  (find_function w2_fs [sI; sS] = Some 0 /\ best_viable w2_fs [sI; sS] = Some 1).
Proof. vm_compute. repeat split; reflexivity. Qed.
