(* C08 / C05 -- VariableMap refines lexical scoping; identity is independent of spelling. *)
From Coq Require Import List NArith Bool Lia Sorted.
From CV Require Import Base.Bytes Names.Defs.
Import ListNotations.
Local Open Scope N_scope.

(* ------------------------------------------------------------------ maps *)
Lemma str_eqb_refl a : str_eqb a a = true.
Proof. apply str_eqb_eq; reflexivity. Qed.

Lemma str_eqb_neq a b : str_eqb a b = false <-> a <> b.
Proof.
  split; intros H.
  - intros E. apply str_eqb_eq in E. congruence.
  - destruct (str_eqb a b) eqn:E; [apply str_eqb_eq in E; contradiction | reflexivity].
Qed.

Lemma str_eqb_sym a b : str_eqb a b = str_eqb b a.
Proof.
  destruct (str_eqb a b) eqn:E.
  - apply str_eqb_eq in E. subst. symmetry. apply str_eqb_refl.
  - apply str_eqb_neq in E. symmetry. apply str_eqb_neq. congruence.
Qed.

Lemma afind_aerase k k' m : afind k (aerase k' m) = if str_eqb k k' then None else afind k m.
Proof.
  induction m as [|[k0 v0] m IH]; cbn [aerase afind].
  - destruct (str_eqb k k'); reflexivity.
  - destruct (str_eqb k' k0) eqn:E1.
    + rewrite IH. destruct (str_eqb k k') eqn:E2; [reflexivity|].
      apply str_eqb_eq in E1. subst k0. rewrite E2. reflexivity.
    + cbn [afind]. rewrite IH. destruct (str_eqb k k0) eqn:E3; [|reflexivity].
      apply str_eqb_eq in E3. subst k0. rewrite str_eqb_sym, E1. reflexivity.
Qed.

Lemma afind_aset k k' v m : afind k (aset k' v m) = if str_eqb k k' then Some v else afind k m.
Proof.
  unfold aset. cbn [afind]. destruct (str_eqb k k') eqn:E; [reflexivity|].
  rewrite afind_aerase, E. reflexivity.
Qed.

Definition vw (m : amap) (k : str) : option N := option_map vid (afind k m).

Lemma vw_aset k k' v m : vw (aset k' v m) k = if str_eqb k k' then Some (vid v) else vw m k.
Proof. unfold vw. rewrite afind_aset. destruct (str_eqb k k'); reflexivity. Qed.

Lemma afind_none_notin k (l : amap) : afind k l = None -> ~ In k (map fst l).
Proof.
  induction l as [|[k0 v0] l IH]; cbn [afind map fst In]; [tauto|].
  destruct (str_eqb k k0) eqn:E; [discriminate|].
  intros H [H1|H1]; [apply str_eqb_neq in E; congruence | exact (IH H H1)].
Qed.

Lemma notin_afind_none k (l : amap) : ~ In k (map fst l) -> afind k l = None.
Proof.
  induction l as [|[k0 v0] l IH]; cbn [afind map fst In]; [reflexivity|].
  intros H. destruct (str_eqb k k0) eqn:E.
  - apply str_eqb_eq in E. subst. tauto.
  - apply IH. tauto.
Qed.

Lemma afind_some_in k v (l : amap) : afind k l = Some v -> In (k, v) l.
Proof.
  induction l as [|[k0 v0] l IH]; cbn [afind In]; [discriminate|].
  destruct (str_eqb k k0) eqn:E.
  - apply str_eqb_eq in E. subst. intros H. injection H as ->. left; reflexivity.
  - intros H. right. exact (IH H).
Qed.

Lemma fold_restore_find l : forall m k,
  afind k (fold_right (fun e m => restore m e) m l) =
  match afind k l with
  | Some v => if vid v =? 0 then None else Some v
  | None => afind k m
  end.
Proof.
  induction l as [|[k0 v0] l IH]; intros m k; cbn [fold_right afind]; [reflexivity|].
  unfold restore at 1. cbn [fst snd]. destruct (str_eqb k k0) eqn:E.
  - apply str_eqb_eq in E. subst k0. destruct (vid v0 =? 0).
    + rewrite afind_aerase, str_eqb_refl. reflexivity.
    + rewrite afind_aset, str_eqb_refl. reflexivity.
  - destruct (vid v0 =? 0).
    + rewrite afind_aerase, E. apply IH.
    + rewrite afind_aset, E. apply IH.
Qed.

Lemma afind_snoc k l n v : afind k (l ++ [(n, v)]) =
  match afind k l with Some x => Some x | None => if str_eqb k n then Some v else None end.
Proof.
  induction l as [|[k0 v0] l IH]; cbn [app afind]; [destruct (str_eqb k n); reflexivity|].
  destruct (str_eqb k k0); [reflexivity | exact IH].
Qed.

Lemma NoDup_app_snoc {A} (l : list A) x : NoDup l -> ~ In x l -> NoDup (l ++ [x]).
Proof.
  induction l as [|a l IH]; cbn; intros ND Hx.
  - constructor; [tauto | constructor].
  - inversion ND; subst. constructor.
    + rewrite in_app_iff. cbn. intros [H|[H|[]]]; [contradiction | subst; tauto].
    + apply IH; tauto.
Qed.

(* ------------------------------------------------------------------ spec facts *)
Definition fpos (f : frame) : Prop := forall k i, ffind k f = Some i -> i <> 0.

Lemma slookup_pos k fs g i : Forall fpos fs -> fpos g -> slookup k fs g = Some i -> i <> 0.
Proof.
  induction fs as [|f fs IH]; cbn [slookup]; intros HF Hg H.
  - exact (Hg _ _ H).
  - inversion HF; subst. destruct (ffind k f) eqn:E.
    + injection H as <-. eauto.
    + eauto.
Qed.

Lemma slookup_none_global k fs g : slookup k fs g = None -> ffind k g = None.
Proof.
  induction fs as [|f fs IH]; cbn [slookup]; [tauto|].
  destruct (ffind k f); [discriminate | exact IH].
Qed.

(* ------------------------------------------------------------------ the refinement relation *)
Fixpoint LR (lg : list (list (str * vinfo))) (fs : list frame) (g : frame) : Prop :=
  match lg, fs with
  | [], [] => True
  | l :: lr, f :: fr =>
      (forall k, afind k l <> None <-> ffind k f <> None) /\
      (forall k v, afind k l = Some v -> slookup k fr g = (if vid v =? 0 then None else Some (vid v))) /\
      LR lr fr g
  | _, _ => False
  end.

Record R (s : vm) (t : sp) : Prop := mkR {
  R_next : next s = snext t;
  R_view : forall k, vw (cur s) k = slookup k (sframes t) (sglobal t);
  R_posf : Forall fpos (sframes t);
  R_posg : fpos (sglobal t);
  R_log  : LR (log s) (sframes t) (sglobal t)
}.

Lemma R0 : R vm0 sp0.
Proof.
  constructor; cbn; auto.
  intros k i H; discriminate.
Qed.

Lemma fpos_cons n i f : i <> 0 -> fpos f -> fpos ((n, i) :: f).
Proof.
  intros Hi Hf k j. cbn [ffind]. destruct (str_eqb k n); [intros H; injection H as <-; exact Hi | apply Hf].
Qed.

Lemma fpos_nil : fpos [].
Proof. intros k i H; discriminate. Qed.

Lemma step_R s t o :
  R s t ->
  R (fst (vm_step s o)) (fst (sp_step t o)) /\ out_ok o (snd (vm_step s o)) (snd (sp_step t o)).
Proof.
  intros [Hn Hv Hpf Hpg Hl].
  destruct s as [c gl lg nx]; destruct t as [fs g sn]; cbn [next cur glob log sframes sglobal snext] in *.
  subst sn.
  destruct o as [| |n gf|n gf ctx|n gf|].
  - (* Enter *)
    cbn. split; [|reflexivity]. constructor; cbn [next cur glob log sframes sglobal snext]; auto.
    + constructor; [exact fpos_nil | exact Hpf].
    + cbn [LR]. repeat split; cbn; try tauto; try discriminate.
  - (* Leave *)
    destruct lg as [|l lr]; destruct fs as [|f fr]; cbn [LR] in Hl; try contradiction.
    + cbn. split; [|reflexivity]. constructor; cbn; auto.
    + destruct Hl as (Hk & Hs & Hl').
      cbn [vm_step sp_step log sframes fst snd]. split; [|reflexivity].
      inversion Hpf; subst.
      constructor; cbn [next cur glob log sframes sglobal snext]; auto.
      intros k. unfold vw. rewrite (fold_restore_find l).
      destruct (afind k l) as [v|] eqn:E.
      * rewrite (Hs _ _ E). destruct (vid v =? 0); reflexivity.
      * specialize (Hv k). cbn [slookup] in Hv.
        destruct (ffind k f) eqn:Ef.
        -- exfalso. assert (afind k l <> None) by (apply Hk; congruence). congruence.
        -- exact Hv.
  - (* Add *)
    destruct lg as [|l lr]; destruct fs as [|f fr]; cbn [LR] in Hl; try contradiction.
    + (* no open frame *)
      cbn [vm_step sp_step log sframes next snext fst snd cur glob sglobal]. split; [|reflexivity].
      constructor; cbn [next cur glob log sframes sglobal snext]; auto.
      * intros k. rewrite vw_aset. cbn [slookup ffind].
        destruct (str_eqb k n); [|exact (Hv k)].
        destruct (afind n c); reflexivity.
      * apply fpos_cons; [lia | exact Hpg].
    + destruct Hl as (Hk & Hs & Hl').
      inversion Hpf as [|? ? Hpf1 Hpf2]; subst.
      (* the entry appended to the undo log is the first one for n only if the frame does not bind n yet *)
      assert (Hlog : forall old, (afind n l = None -> vw c n = (if vid old =? 0 then None else Some (vid old))) ->
                 LR ((l ++ [(n, old)]) :: lr) (((n, nx + 1) :: f) :: fr) g).
      { intros old Hold. cbn [LR]. repeat split.
        - rewrite afind_snoc. cbn [ffind]. destruct (str_eqb k n) eqn:E; [congruence|].
          intros H. apply Hk. destruct (afind k l); congruence.
        - rewrite afind_snoc. cbn [ffind]. destruct (str_eqb k n) eqn:E.
          + intros _. destruct (afind k l); congruence.
          + intros H. apply Hk in H. destruct (afind k l); congruence.
        - intros k v. rewrite afind_snoc. destruct (afind k l) as [x|] eqn:E.
          + intros H. injection H as <-. exact (Hs _ _ E).
          + destruct (str_eqb k n) eqn:E2; [|discriminate].
            apply str_eqb_eq in E2. subst k. intros H. injection H as <-.
            rewrite <- (Hold E). specialize (Hv n). cbn [slookup] in Hv.
            destruct (ffind n f) eqn:Ef; [|exact (eq_sym Hv)].
            exfalso. assert (afind n l <> None) by (apply Hk; congruence). congruence.
        - exact Hl'. }
      cbn [vm_step sp_step log sframes next snext cur glob sglobal].
      destruct (afind n c) as [old|] eqn:Ec; cbn [fst snd]; (split; [|reflexivity]).
      * constructor; cbn [next cur glob log sframes sglobal snext]; auto.
        -- intros k. rewrite vw_aset. cbn [slookup ffind vid].
           destruct (str_eqb k n); [reflexivity | exact (Hv k)].
        -- constructor; [apply fpos_cons; [lia|exact Hpf1] | exact Hpf2].
        -- apply Hlog. intros _. unfold vw. rewrite Ec. cbn [option_map].
           assert (vid old <> 0).
           { apply (slookup_pos n (f :: fr) g); auto. rewrite <- (Hv n). unfold vw. rewrite Ec. reflexivity. }
           destruct (vid old =? 0) eqn:E0; [apply N.eqb_eq in E0; contradiction | reflexivity].
      * constructor; cbn [next cur glob log sframes sglobal snext]; auto.
        -- intros k. rewrite vw_aset. cbn [slookup ffind vid].
           destruct (str_eqb k n); [reflexivity | exact (Hv k)].
        -- constructor; [apply fpos_cons; [lia|exact Hpf1] | exact Hpf2].
        -- apply Hlog. intros _. unfold vw. rewrite Ec. reflexivity.
  - (* Use *)
    destruct gf; cbn [vm_step sp_step cur glob log next sframes sglobal snext].
    + (* global map: R does not constrain it *)
      destruct (afind n gl) as [v|]; [destruct (vassigned v && ctx)|]; cbn [fst snd out_ok];
        (split; [constructor; cbn [next cur glob log sframes sglobal snext]; auto | exact I]).
    + specialize (Hv n) as Hvn. unfold vw in Hvn. cbn [sframes sglobal].
      destruct (afind n c) as [v|] eqn:Ec; cbn [option_map] in Hvn.
      * destruct (vassigned v && ctx) eqn:Ea; cbn [fst snd].
        -- split; [constructor; cbn [next cur glob log sframes sglobal snext]; auto|].
           apply andb_true_iff in Ea. destruct Ea as [_ ->]. right; reflexivity.
        -- split.
           ++ constructor; cbn [next cur glob log sframes sglobal snext]; auto.
              intros k. rewrite vw_aset. cbn [vid]. destruct (str_eqb k n) eqn:E; [|exact (Hv k)].
              apply str_eqb_eq in E. subst. exact Hvn.
           ++ rewrite <- Hvn. cbn [oid]. destruct ctx; [left|]; reflexivity.
      * cbn [fst snd]. split; [constructor; cbn [next cur glob log sframes sglobal snext]; auto|].
        rewrite <- Hvn. cbn [oid]. destruct ctx; [left|]; reflexivity.
  - (* Find *)
    destruct gf; cbn [vm_step sp_step cur glob log next sframes sglobal snext].
    + destruct (afind n gl); cbn [fst snd out_ok]; (split; [constructor; auto | exact I]).
    + specialize (Hv n) as Hvn. unfold vw in Hvn. cbn [sframes sglobal].
      destruct (afind n c) as [v|] eqn:Ec; cbn [option_map] in Hvn; cbn [fst snd out_ok];
        (split; [constructor; auto | rewrite <- Hvn; reflexivity]).
  - (* Fresh *)
    cbn. split; [|reflexivity]. constructor; cbn [next cur glob log sframes sglobal snext]; auto.
Qed.

(* ------------------------------------------------------------------ runs *)
Lemma run_R ops : forall s t,
  R s t ->
  R (fst (vm_run s ops)) (fst (sp_run t ops)) /\
  outs_ok out_ok ops (snd (vm_run s ops)) (snd (sp_run t ops)).
Proof.
  induction ops as [|o r IH]; intros s t HR; cbn [vm_run sp_run] in *.
  - cbn. auto.
  - destruct (step_R s t o HR) as [HR' Ho].
    destruct (vm_step s o) as [s1 a] eqn:Ev. destruct (sp_step t o) as [t1 b] eqn:Es.
    cbn [fst snd] in *.
    specialize (IH s1 t1 HR').
    destruct (vm_run s1 r) as [s2 l]. destruct (sp_run t1 r) as [t2 l'].
    cbn [fst snd outs_ok] in *. tauto.
Qed.

Theorem vm_refines_scopes ops : outs_ok out_ok ops (run_vm ops) (run_sp ops).
Proof. exact (proj2 (run_R ops vm0 sp0 R0)). Qed.

(* a name declared twice inside one frame: the undo log (replayed in reverse since f35544d) restores the outer binding *)
Definition redecl_witness : list op := [Enter; Add [120] false; Add [120] false; Leave; Use [120] false false].

Lemma vm_same_scope_redecl_restored :
  redecl_free redecl_witness = false /\ run_vm redecl_witness = run_sp redecl_witness /\ nth 4 (run_vm redecl_witness) 9 = 0.
Proof. vm_compute. repeat split; reflexivity. Qed.

(* ------------------------------------------------------------------ the global map *)
Definition RG (s : vm) (t : sp) : Prop := forall k i, ffind k (sglobal t) = Some i -> vw (glob s) k = Some i.

Lemma step_RG s t o :
  R s t -> RG s t -> glob_flag_step t o = true ->
  RG (fst (vm_step s o)) (fst (sp_step t o)) /\ out_ok_glob o (snd (vm_step s o)) (snd (sp_step t o)).
Proof.
  intros HR HG Hgf. destruct HR as [Hn Hv Hpf Hpg Hl].
  destruct s as [c gl lg nx]; destruct t as [fs g sn]; unfold RG in *;
    cbn [next cur glob log sframes sglobal snext] in *.
  destruct o as [| |n gf|n gf ctx|n gf|].
  - cbn. auto.
  - destruct lg; destruct fs; cbn [LR] in Hl; try contradiction; cbn; auto.
  - destruct lg as [|l lr]; destruct fs as [|f fr]; cbn [LR] in Hl; try contradiction.
    + cbn [glob_flag_step sframes] in Hgf. subst gf.
      cbn [vm_step sp_step log sframes next snext fst snd cur glob sglobal]. split; [|exact I].
      intros k i. rewrite vw_aset. cbn [ffind].
      destruct (str_eqb k n); [|apply HG].
      intros H. injection H as <-. rewrite Hn. destruct (afind n c); reflexivity.
    + cbn [vm_step sp_step log sframes next snext cur glob sglobal].
      destruct (afind n c) as [old|] eqn:Ec; cbn [fst snd glob sglobal]; (split; [|exact I]); [exact HG|].
      destruct gf; [|exact HG].
      intros k i Hk. rewrite vw_aset. destruct (str_eqb k n) eqn:E; [|exact (HG _ _ Hk)].
      apply str_eqb_eq in E. subst k. exfalso.
      specialize (Hv n). unfold vw in Hv. rewrite Ec in Hv. cbn [option_map] in Hv.
      symmetry in Hv. apply slookup_none_global in Hv. congruence.
  - destruct gf; cbn [vm_step sp_step cur glob log next sframes sglobal snext].
    + pose proof (HG n) as Hgn. unfold vw in Hgn.
      destruct (afind n gl) as [v|] eqn:Eg; cbn [option_map] in Hgn.
      * destruct (vassigned v && ctx) eqn:Ea; cbn [fst snd glob sglobal].
        -- split; [exact HG|]. apply andb_true_iff in Ea. destruct Ea as [_ ->].
           cbn [out_ok_glob]. intros _. right; reflexivity.
        -- split.
           ++ intros k i Hk. rewrite vw_aset. cbn [vid]. destruct (str_eqb k n) eqn:E; [|exact (HG _ _ Hk)].
              apply str_eqb_eq in E. subst k. unfold vw in HG. specialize (HG _ _ Hk). rewrite Eg in HG. exact HG.
           ++ destruct (ffind n g) as [i|] eqn:Ef; cbn [oid].
              ** specialize (Hgn _ eq_refl). injection Hgn as ->.
                 destruct ctx; cbn [out_ok_glob]; intros _; [left|]; reflexivity.
              ** destruct ctx; cbn [out_ok_glob]; intros H; congruence.
      * cbn [fst snd]. split; [exact HG|].
        destruct (ffind n g) as [i|] eqn:Ef; [specialize (Hgn _ eq_refl); discriminate|].
        cbn [oid]. destruct ctx; cbn [out_ok_glob]; intros H; congruence.
    + destruct (afind n c) as [v|]; [destruct (vassigned v && ctx)|]; cbn [fst snd glob sglobal out_ok_glob]; auto.
  - destruct gf; cbn [vm_step sp_step cur glob log next sframes sglobal snext].
    + pose proof (HG n) as Hgn. unfold vw in Hgn.
      destruct (afind n gl) as [v|] eqn:Eg; cbn [option_map] in Hgn; cbn [fst snd]; (split; [exact HG|]);
        cbn [out_ok_glob]; (destruct (ffind n g) as [i|] eqn:Ef; cbn [oid]; [|congruence]); specialize (Hgn _ eq_refl).
      * injection Hgn as ->. reflexivity.
      * discriminate.
    + destruct (afind n c); cbn [fst snd out_ok_glob]; auto.
  - cbn. auto.
Qed.

Lemma run_RG ops : forall s t,
  R s t -> RG s t -> all_steps glob_flag_step t ops = true ->
  outs_ok out_ok_glob ops (snd (vm_run s ops)) (snd (sp_run t ops)).
Proof.
  induction ops as [|o r IH]; intros s t HR HG Hgf; cbn [vm_run sp_run all_steps] in *.
  - cbn. auto.
  - apply andb_true_iff in Hgf. destruct Hgf as [G1 G2].
    destruct (step_R s t o HR) as [HR' _].
    destruct (step_RG s t o HR HG G1) as [HG' Ho].
    destruct (vm_step s o) as [s1 a] eqn:Ev. destruct (sp_step t o) as [t1 b] eqn:Es.
    cbn [fst snd] in *.
    specialize (IH s1 t1 HR' HG' G2).
    destruct (vm_run s1 r) as [s2 l]. destruct (sp_run t1 r) as [t2 l'].
    cbn [fst snd outs_ok] in *. tauto.
Qed.

Theorem vm_global_lookup ops :
  glob_flag_ok ops = true -> outs_ok out_ok_glob ops (run_vm ops) (run_sp ops).
Proof.
  intros H2. apply (run_RG ops vm0 sp0 R0); auto.
  intros k i H; discriminate.
Qed.

(* a parameter of a top-level function is flagged globalNamespace by the caller (scopeStack.size() <= 1
   while a VariableMap scope is open); `::q` then finds it although no global q exists *)
Definition glob_witness : list op := [Enter; Add [113] true; Leave; Find [113] true].

Lemma vm_global_pollution_refuted :
  exists ops, run_sp ops <> run_vm ops /\
              nth 3 (run_sp ops) 9 = 0 /\ nth 3 (run_vm ops) 9 = 1.
Proof. exists glob_witness. vm_compute. repeat split; congruence. Qed.

(* ------------------------------------------------------------------ fresh ids are fresh *)
Lemma vm_step_next s o : next s <= next (fst (vm_step s o)).
Proof.
  destruct s as [c gl lg nx]. destruct o as [| |n gf|n gf ctx|n gf|]; cbn [vm_step next log cur glob].
  - cbn; lia.
  - destruct lg; cbn; lia.
  - destruct lg; [|destruct (afind n c)]; cbn; lia.
  - destruct (afind n (if gf then gl else c)) as [v|]; [destruct (vassigned v && ctx); [|destruct gf]|]; cbn; lia.
  - destruct (afind n (if gf then gl else c)); cbn; lia.
  - cbn; lia.
Qed.

Lemma vm_step_new s o :
  match o with
  | Add _ _ | Fresh => snd (vm_step s o) = next s + 1 /\ next (fst (vm_step s o)) = next s + 1
  | _ => True
  end.
Proof.
  destruct s as [c gl lg nx]. destruct o as [| |n gf|n gf ctx|n gf|]; cbn [vm_step next log cur glob]; auto.
  destruct lg; [|destruct (afind n c)]; cbn; auto.
Qed.

Lemma run_new_ids ops : forall s,
  StronglySorted N.lt (new_ids ops (snd (vm_run s ops))) /\
  Forall (fun i => next s < i) (new_ids ops (snd (vm_run s ops))).
Proof.
  induction ops as [|o r IH]; intros s; cbn [vm_run new_ids].
  - cbn. split; constructor.
  - pose proof (vm_step_next s o) as Hle. pose proof (vm_step_new s o) as Hnew.
    destruct (vm_step s o) as [s1 a] eqn:Ev. cbn [fst snd] in *.
    destruct (IH s1) as [IH1 IH2].
    destruct (vm_run s1 r) as [s2 l]. cbn [fst snd] in *.
    assert (Hmono : Forall (fun i => next s < i) (new_ids r l)).
    { eapply Forall_impl; [|exact IH2]. cbn. intros; lia. }
    destruct o; cbn [new_ids]; auto.
    + destruct Hnew as [-> Hn1]. split.
      * constructor; [exact IH1|]. eapply Forall_impl; [|exact IH2]. cbn. intros; lia.
      * constructor; [lia | exact Hmono].
    + destruct Hnew as [-> Hn1]. split.
      * constructor; [exact IH1|]. eapply Forall_impl; [|exact IH2]. cbn. intros; lia.
      * constructor; [lia | exact Hmono].
Qed.

Lemma sorted_lt_nodup l : StronglySorted N.lt l -> NoDup l.
Proof.
  induction 1 as [|a l HS IH HF]; constructor; auto.
  intros Hin. rewrite Forall_forall in HF. specialize (HF _ Hin). lia.
Qed.

Theorem vm_ids_distinct ops :
  StronglySorted N.lt (new_ids ops (run_vm ops)) /\ NoDup (new_ids ops (run_vm ops)) /\
  Forall (fun i => i <> 0) (new_ids ops (run_vm ops)).
Proof.
  destruct (run_new_ids ops vm0) as [H1 H2]. unfold run_vm. repeat split; auto.
  - apply sorted_lt_nodup; exact H1.
  - eapply Forall_impl; [|exact H2]. cbn. intros; lia.
Qed.

(* ------------------------------------------------------------------ Leave restores the outer bindings *)
Lemma vm_run_app a : forall b s,
  vm_run s (a ++ b) = let '(s1, l1) := vm_run s a in let '(s2, l2) := vm_run s1 b in (s2, l1 ++ l2).
Proof.
  induction a as [|o a IH]; intros b s; cbn [app vm_run].
  - destruct (vm_run s b); reflexivity.
  - destruct (vm_step s o) as [s1 x]. rewrite IH.
    destruct (vm_run s1 a) as [s2 l1]. destruct (vm_run s2 b) as [s3 l2]. reflexivity.
Qed.

Lemma sp_run_app a : forall b s,
  sp_run s (a ++ b) = let '(s1, l1) := sp_run s a in let '(s2, l2) := sp_run s1 b in (s2, l1 ++ l2).
Proof.
  induction a as [|o a IH]; intros b s; cbn [app sp_run].
  - destruct (sp_run s b); reflexivity.
  - destruct (sp_step s o) as [s1 x]. rewrite IH.
    destruct (sp_run s1 a) as [s2 l1]. destruct (sp_run s2 b) as [s3 l2]. reflexivity.
Qed.

Lemma all_steps_app p a : forall b s,
  all_steps p s (a ++ b) = all_steps p s a && all_steps p (fst (sp_run s a)) b.
Proof.
  induction a as [|o a IH]; intros b s; cbn [app all_steps sp_run].
  - reflexivity.
  - rewrite IH. destruct (sp_step s o) as [s1 x]. cbn [fst].
    destruct (sp_run s1 a) as [s2 l]. cbn [fst]. rewrite andb_assoc. reflexivity.
Qed.

Lemma sp_bal body : forall d top rest g n,
  length top = S d -> bal d body = true ->
  exists f', sframes (fst (sp_run (mkSp (top ++ rest) g n) body)) = f' :: rest /\
             sglobal (fst (sp_run (mkSp (top ++ rest) g n) body)) = g.
Proof.
  induction body as [|o r IH]; intros d top rest g n Hlen Hb; cbn [bal sp_run] in *.
  - destruct d; [|discriminate]. destruct top as [|f [|? ?]]; try discriminate. exists f. cbn. auto.
  - destruct top as [|f top']; [discriminate|]. cbn [length] in Hlen. injection Hlen as Hlen.
    destruct o as [| |m gf|m gf ctx|m gf|]; cbn [sp_step sframes sglobal snext app].
    + specialize (IH (S d) ([] :: f :: top') rest g n).
      cbn [app length] in IH. destruct (sp_run _ r) as [t2 l] eqn:E. cbn [fst] in *.
      apply IH; [congruence | exact Hb].
    + destruct d as [|d']; [discriminate|].
      specialize (IH d' top' rest g n Hlen Hb).
      destruct (sp_run _ r) as [t2 l] eqn:E. cbn [fst] in *. exact IH.
    + specialize (IH d (((m, n + 1) :: f) :: top') rest g (n + 1)).
      cbn [app length] in IH. destruct (sp_run _ r) as [t2 l] eqn:E. cbn [fst] in *.
      apply IH; [congruence | exact Hb].
    + specialize (IH d (f :: top') rest g n). cbn [app length] in IH.
      destruct (sp_run _ r) as [t2 l] eqn:E. cbn [fst] in *. apply IH; [congruence | exact Hb].
    + specialize (IH d (f :: top') rest g n). cbn [app length] in IH.
      destruct (sp_run _ r) as [t2 l] eqn:E. cbn [fst] in *. apply IH; [congruence | exact Hb].
    + specialize (IH d (f :: top') rest g (n + 1)). cbn [app length] in IH.
      destruct (sp_run _ r) as [t2 l] eqn:E. cbn [fst] in *. apply IH; [congruence | exact Hb].
Qed.

Lemma vm_view_vw s k : vm_view s k = oid (vw (cur s) k).
Proof. unfold vm_view, vw. destruct (afind k (cur s)); reflexivity. Qed.

Theorem vm_leave_restores pre body :
  bal 0 body = true ->
  forall k, vm_view (fst (vm_run vm0 (pre ++ Enter :: body ++ [Leave]))) k = vm_view (fst (vm_run vm0 pre)) k.
Proof.
  intros Hb k.
  pose proof (run_R (pre ++ Enter :: body ++ [Leave]) vm0 sp0 R0) as [HR3 _].
  pose proof (run_R pre vm0 sp0 R0) as [HR1 _].
  rewrite !vm_view_vw. rewrite (R_view _ _ HR3), (R_view _ _ HR1). f_equal.
  rewrite sp_run_app. destruct (sp_run sp0 pre) as [t1 l1]. cbn [fst].
  change (Enter :: body ++ [Leave]) with ([Enter] ++ body ++ [Leave]).
  rewrite sp_run_app. cbn [sp_run sp_step]. rewrite sp_run_app.
  destruct t1 as [fs g n]. cbn [sframes sglobal snext].
  destruct (sp_bal body 0 [[]] fs g n eq_refl Hb) as (f' & Hf & Hg).
  cbn [app] in Hf, Hg.
  destruct (sp_run {| sframes := [] :: fs; sglobal := g; snext := n |} body) as [t2 l2] eqn:E2.
  change (sframes (fst (sp_run {| sframes := [] :: fs; sglobal := g; snext := n |} body)) = f' :: fs) in Hf.
  change (sglobal (fst (sp_run {| sframes := [] :: fs; sglobal := g; snext := n |} body)) = g) in Hg.
  rewrite E2 in Hf, Hg. cbn [fst] in *.
  destruct t2 as [fs2 g2 n2]. cbn [sframes sglobal] in *. subst fs2 g2.
  cbn [sp_run sp_step sframes sglobal snext fst]. reflexivity.
Qed.

(* ------------------------------------------------------------------ identity is independent of spelling *)
Section Rename.
  Variable rho : str -> str.
  Hypothesis rho_inj : forall a b, rho a = rho b -> a = b.

  Definition ren_amap (m : amap) : amap := map (fun e => (rho (fst e), snd e)) m.
  Definition ren_vm (s : vm) : vm := mkVm (ren_amap (cur s)) (ren_amap (glob s)) (map ren_amap (log s)) (next s).

  Lemma rho_eqb a b : str_eqb (rho a) (rho b) = str_eqb a b.
  Proof.
    destruct (str_eqb a b) eqn:E.
    - apply str_eqb_eq in E. subst. apply str_eqb_refl.
    - apply str_eqb_neq. apply str_eqb_neq in E. intros H. apply E. exact (rho_inj _ _ H).
  Qed.

  Lemma afind_ren k m : afind (rho k) (ren_amap m) = afind k m.
  Proof.
    induction m as [|[k0 v0] m IH]; cbn [ren_amap map afind fst snd]; [reflexivity|].
    rewrite rho_eqb. destruct (str_eqb k k0); [reflexivity | exact IH].
  Qed.

  Lemma aerase_ren k m : aerase (rho k) (ren_amap m) = ren_amap (aerase k m).
  Proof.
    induction m as [|[k0 v0] m IH]; cbn [ren_amap map aerase fst snd]; [reflexivity|].
    rewrite rho_eqb. destruct (str_eqb k k0); [exact IH|].
    cbn [map fst snd]. f_equal. exact IH.
  Qed.

  Lemma aset_ren k v m : aset (rho k) v (ren_amap m) = ren_amap (aset k v m).
  Proof. unfold aset. rewrite aerase_ren. reflexivity. Qed.

  Lemma restore_ren l : forall m, fold_right (fun e m => restore m e) (ren_amap m) (ren_amap l) =
                                  ren_amap (fold_right (fun e m => restore m e) m l).
  Proof.
    induction l as [|[k0 v0] l IH]; intros m; cbn [ren_amap map fold_right fst snd]; [reflexivity|].
    fold (ren_amap l). rewrite IH. unfold restore. cbn [fst snd].
    destruct (vid v0 =? 0); [apply aerase_ren | apply aset_ren].
  Qed.

  Lemma ren_amap_snoc l k v : ren_amap (l ++ [(k, v)]) = ren_amap l ++ [(rho k, v)].
  Proof. unfold ren_amap. rewrite map_app. reflexivity. Qed.

  Lemma step_ren s o : vm_step (ren_vm s) (rename_op rho o) = (ren_vm (fst (vm_step s o)), snd (vm_step s o)).
  Proof.
    destruct s as [c gl lg nx].
    destruct o as [| |n gf|n gf ctx|n gf|]; unfold ren_vm; cbn [rename_op vm_step cur glob log next map].
    - reflexivity.
    - destruct lg as [|l lr]; cbn [map fst snd cur glob log next]; [reflexivity|].
      rewrite restore_ren. reflexivity.
    - rewrite afind_ren. destruct lg as [|l lr]; cbn [map].
      + destruct (afind n c); cbn [fst snd cur glob log next map]; rewrite aset_ren;
          destruct gf; try rewrite aset_ren; reflexivity.
      + destruct (afind n c); cbn [fst snd cur glob log next map]; rewrite aset_ren;
          rewrite ren_amap_snoc;
          destruct gf; try rewrite aset_ren; reflexivity.
    - destruct gf; rewrite afind_ren.
      + destruct (afind n gl) as [v|]; [destruct (vassigned v && ctx)|]; cbn [fst snd cur glob log next];
          try rewrite aset_ren; reflexivity.
      + destruct (afind n c) as [v|]; [destruct (vassigned v && ctx)|]; cbn [fst snd cur glob log next];
          try rewrite aset_ren; reflexivity.
    - destruct gf; rewrite afind_ren.
      + destruct (afind n gl); reflexivity.
      + destruct (afind n c); reflexivity.
    - reflexivity.
  Qed.

  Lemma run_ren ops : forall s,
    vm_run (ren_vm s) (map (rename_op rho) ops) = (ren_vm (fst (vm_run s ops)), snd (vm_run s ops)).
  Proof.
    induction ops as [|o r IH]; intros s; cbn [map vm_run]; [reflexivity|].
    rewrite step_ren. destruct (vm_step s o) as [s1 a]. cbn [fst snd].
    rewrite IH. destruct (vm_run s1 r) as [s2 l]. reflexivity.
  Qed.

  Theorem rename_invariant ops : run_vm (map (rename_op rho) ops) = run_vm ops.
  Proof.
    unfold run_vm. change vm0 with (ren_vm vm0) at 1. rewrite run_ren. reflexivity.
  Qed.
End Rename.
