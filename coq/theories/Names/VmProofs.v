(* C08 / C05 -- VariableMap refines lexical scoping; identity is independent of spelling. *)
From Coq Require Import List NArith Bool Lia Sorted.
From CV Require Import Base.Bytes Names.Defs.
Import ListNotations.
Local Open Scope N_scope.

(* ------------------------------------------------------------------ maps *)
Lemma str_eqb_refl a : str_eqb a a = true.
Proof. apply str_eqb_eq; reflexivity. Qed.

Lemma str_eqb_neq a b : str_eqb a b = false <-> a <> b.
Proof.
  split; intros H.
  - intros E. apply str_eqb_eq in E. congruence.
  - destruct (str_eqb a b) eqn:E; [apply str_eqb_eq in E; contradiction | reflexivity].
Qed.

Lemma str_eqb_sym a b : str_eqb a b = str_eqb b a.
Proof.
  destruct (str_eqb a b) eqn:E.
  - apply str_eqb_eq in E. subst. symmetry. apply str_eqb_refl.
  - apply str_eqb_neq in E. symmetry. apply str_eqb_neq. congruence.
Qed.

Lemma afind_aerase k k' m : afind k (aerase k' m) = if str_eqb k k' then None else afind k m.
Proof.
  induction m as [|[k0 v0] m IH]; cbn [aerase afind].
  - destruct (str_eqb k k'); reflexivity.
  - destruct (str_eqb k' k0) eqn:E1.
    + rewrite IH. destruct (str_eqb k k') eqn:E2; [reflexivity|].
      apply str_eqb_eq in E1. subst k0. rewrite E2. reflexivity.
    + cbn [afind]. rewrite IH. destruct (str_eqb k k0) eqn:E3; [|reflexivity].
      apply str_eqb_eq in E3. subst k0. rewrite str_eqb_sym, E1. reflexivity.
Qed.

Lemma afind_aset k k' v m : afind k (aset k' v m) = if str_eqb k k' then Some v else afind k m.
Proof.
  unfold aset. cbn [afind]. destruct (str_eqb k k') eqn:E; [reflexivity|].
  rewrite afind_aerase, E. reflexivity.
Qed.

Definition vw (m : amap) (k : str) : option N := option_map vid (afind k m).

Lemma vw_aset k k' v m : vw (aset k' v m) k = if str_eqb k k' then Some (vid v) else vw m k.
Proof. unfold vw. rewrite afind_aset. destruct (str_eqb k k'); reflexivity. Qed.

Lemma afind_none_notin k (l : amap) : afind k l = None -> ~ In k (map fst l).
Proof.
  induction l as [|[k0 v0] l IH]; cbn [afind map fst In]; [tauto|].
  destruct (str_eqb k k0) eqn:E; [discriminate|].
  intros H [H1|H1]; [apply str_eqb_neq in E; congruence | exact (IH H H1)].
Qed.

Lemma notin_afind_none k (l : amap) : ~ In k (map fst l) -> afind k l = None.
Proof.
  induction l as [|[k0 v0] l IH]; cbn [afind map fst In]; [reflexivity|].
  intros H. destruct (str_eqb k k0) eqn:E.
  - apply str_eqb_eq in E. subst. tauto.
  - apply IH. tauto.
Qed.

Lemma afind_some_in k v (l : amap) : afind k l = Some v -> In (k, v) l.
Proof.
  induction l as [|[k0 v0] l IH]; cbn [afind In]; [discriminate|].
  destruct (str_eqb k k0) eqn:E.
  - apply str_eqb_eq in E. subst. intros H. injection H as ->. left; reflexivity.
  - intros H. right. exact (IH H).
Qed.

Lemma fold_restore_find l : NoDup (map fst l) -> forall m k,
  afind k (fold_left restore l m) =
  match afind k l with
  | Some v => if vid v =? 0 then None else Some v
  | None => afind k m
  end.
Proof.
  induction l as [|[k0 v0] l IH]; intros ND m k; cbn [fold_left afind]; [reflexivity|].
  cbn [map fst] in ND. inversion ND as [|? ? Hn ND']; subst.
  rewrite (IH ND'). destruct (str_eqb k k0) eqn:E.
  - apply str_eqb_eq in E. subst k0. rewrite (notin_afind_none _ _ Hn).
    unfold restore. cbn [fst snd]. destruct (vid v0 =? 0).
    + rewrite afind_aerase, str_eqb_refl. reflexivity.
    + rewrite afind_aset, str_eqb_refl. reflexivity.
  - destruct (afind k l); [reflexivity|].
    unfold restore. cbn [fst snd]. destruct (vid v0 =? 0).
    + rewrite afind_aerase, E. reflexivity.
    + rewrite afind_aset, E. reflexivity.
Qed.

Lemma NoDup_app_snoc {A} (l : list A) x : NoDup l -> ~ In x l -> NoDup (l ++ [x]).
Proof.
  induction l as [|a l IH]; cbn; intros ND Hx.
  - constructor; [tauto | constructor].
  - inversion ND; subst. constructor.
    + rewrite in_app_iff. cbn. intros [H|[H|[]]]; [contradiction | subst; tauto].
    + apply IH; tauto.
Qed.

(* ------------------------------------------------------------------ spec facts *)
Definition fpos (f : frame) : Prop := forall k i, ffind k f = Some i -> i <> 0.

Lemma slookup_pos k fs g i : Forall fpos fs -> fpos g -> slookup k fs g = Some i -> i <> 0.
Proof.
  induction fs as [|f fs IH]; cbn [slookup]; intros HF Hg H.
  - exact (Hg _ _ H).
  - inversion HF; subst. destruct (ffind k f) eqn:E.
    + injection H as <-. eauto.
    + eauto.
Qed.

Lemma slookup_none_global k fs g : slookup k fs g = None -> ffind k g = None.
Proof.
  induction fs as [|f fs IH]; cbn [slookup]; [tauto|].
  destruct (ffind k f); [discriminate | exact IH].
Qed.

(* ------------------------------------------------------------------ the refinement relation *)
Fixpoint LR (lg : list (list (str * vinfo))) (fs : list frame) (g : frame) : Prop :=
  match lg, fs with
  | [], [] => True
  | l :: lr, f :: fr =>
      NoDup (map fst l) /\
      (forall k, In k (map fst l) <-> ffind k f <> None) /\
      (forall k v, In (k, v) l -> slookup k fr g = (if vid v =? 0 then None else Some (vid v))) /\
      LR lr fr g
  | _, _ => False
  end.

Record R (s : vm) (t : sp) : Prop := mkR {
  R_next : next s = snext t;
  R_view : forall k, vw (cur s) k = slookup k (sframes t) (sglobal t);
  R_posf : Forall fpos (sframes t);
  R_posg : fpos (sglobal t);
  R_log  : LR (log s) (sframes t) (sglobal t)
}.

Lemma R0 : R vm0 sp0.
Proof.
  constructor; cbn; auto.
  intros k i H; discriminate.
Qed.

Lemma fpos_cons n i f : i <> 0 -> fpos f -> fpos ((n, i) :: f).
Proof.
  intros Hi Hf k j. cbn [ffind]. destruct (str_eqb k n); [intros H; injection H as <-; exact Hi | apply Hf].
Qed.

Lemma fpos_nil : fpos [].
Proof. intros k i H; discriminate. Qed.

Lemma step_R s t o :
  R s t -> redecl_free_step t o = true ->
  R (fst (vm_step s o)) (fst (sp_step t o)) /\ out_ok o (snd (vm_step s o)) (snd (sp_step t o)).
Proof.
  intros [Hn Hv Hpf Hpg Hl] Hwf.
  destruct s as [c gl lg nx]; destruct t as [fs g sn]; cbn [next cur glob log sframes sglobal snext] in *.
  subst sn.
  destruct o as [| |n gf|n gf ctx|n gf|].
  - (* Enter *)
    cbn. split; [|reflexivity]. constructor; cbn [next cur glob log sframes sglobal snext]; auto.
    + constructor; [exact fpos_nil | exact Hpf].
    + cbn [LR]. repeat split; try constructor; cbn; try tauto.
  - (* Leave *)
    destruct lg as [|l lr]; destruct fs as [|f fr]; cbn [LR] in Hl; try contradiction.
    + cbn. split; [|reflexivity]. constructor; cbn; auto.
    + destruct Hl as (ND & Hk & Hs & Hl').
      cbn [vm_step sp_step log sframes fst snd]. split; [|reflexivity].
      inversion Hpf; subst.
      constructor; cbn [next cur glob log sframes sglobal snext]; auto.
      intros k. unfold vw. rewrite (fold_restore_find l ND).
      destruct (afind k l) as [v|] eqn:E.
      * apply afind_some_in in E. rewrite (Hs _ _ E). destruct (vid v =? 0); reflexivity.
      * apply afind_none_notin in E.
        specialize (Hv k). cbn [slookup] in Hv.
        destruct (ffind k f) eqn:Ef.
        -- exfalso. apply E. apply Hk. congruence.
        -- exact Hv.
  - (* Add *)
    destruct lg as [|l lr]; destruct fs as [|f fr]; cbn [LR] in Hl; try contradiction.
    + (* no open frame *)
      cbn [vm_step sp_step log sframes next snext fst snd cur glob sglobal]. split; [|reflexivity].
      constructor; cbn [next cur glob log sframes sglobal snext]; auto.
      * intros k. rewrite vw_aset. cbn [slookup ffind].
        destruct (str_eqb k n); [|exact (Hv k)].
        destruct (afind n c); reflexivity.
      * apply fpos_cons; [lia | exact Hpg].
    + destruct Hl as (ND & Hk & Hs & Hl').
      cbn [redecl_free_step sframes] in Hwf.
      destruct (ffind n f) eqn:Ef; [discriminate|].
      assert (Hnl : ~ In n (map fst l)) by (intros H; apply Hk in H; congruence).
      assert (Hvn : vw c n = slookup n fr g) by (rewrite (Hv n); cbn [slookup]; rewrite Ef; reflexivity).
      inversion Hpf as [|? ? Hpf1 Hpf2]; subst.
      assert (Hlog : forall old, vw c n = (if vid old =? 0 then None else Some (vid old)) ->
                 LR ((l ++ [(n, old)]) :: lr) (((n, nx + 1) :: f) :: fr) g).
      { intros old Hold. cbn [LR]. repeat split.
        - rewrite map_app. cbn [map fst]. apply NoDup_app_snoc; assumption.
        - rewrite map_app, in_app_iff. cbn [map fst In ffind].
          destruct (str_eqb k n) eqn:E; [congruence|].
          intros [H|[H|[]]]; [apply Hk; exact H | subst; rewrite str_eqb_refl in E; discriminate].
        - rewrite map_app, in_app_iff. cbn [map fst In ffind].
          destruct (str_eqb k n) eqn:E.
          + apply str_eqb_eq in E. subst. tauto.
          + intros H. left. apply Hk. exact H.
        - intros k v Hin. apply in_app_iff in Hin. destruct Hin as [Hin|[Hin|[]]].
          + exact (Hs _ _ Hin).
          + injection Hin as <- <-. rewrite <- Hvn. exact Hold.
        - exact Hl'. }
      cbn [vm_step sp_step log sframes next snext cur glob sglobal].
      destruct (afind n c) as [old|] eqn:Ec; cbn [fst snd]; (split; [|reflexivity]).
      * constructor; cbn [next cur glob log sframes sglobal snext]; auto.
        -- intros k. rewrite vw_aset. cbn [slookup ffind vid].
           destruct (str_eqb k n); [reflexivity | exact (Hv k)].
        -- constructor; [apply fpos_cons; [lia|exact Hpf1] | exact Hpf2].
        -- apply Hlog. unfold vw. rewrite Ec. cbn [option_map].
           assert (vid old <> 0).
           { apply (slookup_pos n fr g); auto. rewrite <- Hvn. unfold vw. rewrite Ec. reflexivity. }
           destruct (vid old =? 0) eqn:E0; [apply N.eqb_eq in E0; contradiction | reflexivity].
      * constructor; cbn [next cur glob log sframes sglobal snext]; auto.
        -- intros k. rewrite vw_aset. cbn [slookup ffind vid].
           destruct (str_eqb k n); [reflexivity | exact (Hv k)].
        -- constructor; [apply fpos_cons; [lia|exact Hpf1] | exact Hpf2].
        -- apply Hlog. unfold vw. rewrite Ec. reflexivity.
  - (* Use *)
    cbn [vm_step sp_step]. destruct gf.
    + (* global map: R does not constrain it *)
      destruct (afind n gl) as [v|]; [destruct (vassigned v && ctx)|]; cbn [fst snd out_ok];
        (split; [constructor; cbn [next cur glob log sframes sglobal snext]; auto | exact I]).
    + specialize (Hv n) as Hvn. unfold vw in Hvn. cbn [sframes sglobal].
      destruct (afind n c) as [v|] eqn:Ec; cbn [option_map] in Hvn.
      * destruct (vassigned v && ctx) eqn:Ea; cbn [fst snd].
        -- split; [constructor; cbn [next cur glob log sframes sglobal snext]; auto|].
           apply andb_true_iff in Ea. destruct Ea as [_ ->]. right; reflexivity.
        -- split.
           ++ constructor; cbn [next cur glob log sframes sglobal snext]; auto.
              intros k. rewrite vw_aset. cbn [vid]. destruct (str_eqb k n) eqn:E; [|exact (Hv k)].
              apply str_eqb_eq in E. subst. exact Hvn.
           ++ rewrite <- Hvn. cbn [oid]. destruct ctx; [left|]; reflexivity.
      * cbn [fst snd]. split; [constructor; cbn [next cur glob log sframes sglobal snext]; auto|].
        rewrite <- Hvn. cbn [oid]. destruct ctx; [left|]; reflexivity.
  - (* Find *)
    cbn [vm_step sp_step]. destruct gf.
    + destruct (afind n gl); cbn [fst snd out_ok]; (split; [constructor; auto | exact I]).
    + specialize (Hv n) as Hvn. unfold vw in Hvn. cbn [sframes sglobal].
      destruct (afind n c) as [v|] eqn:Ec; cbn [option_map] in Hvn; cbn [fst snd out_ok];
        (split; [constructor; auto | rewrite <- Hvn; reflexivity]).
  - (* Fresh *)
    cbn. split; [|reflexivity]. constructor; cbn [next cur glob log sframes sglobal snext]; auto.
Qed.
