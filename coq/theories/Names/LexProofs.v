(* C05 -- phase 1 of the raw lexer recovers every token list of the fragment from every rendering whose
   separators are blanks (space, tab, FF, VT, LF, other control characters; CR excluded), and puts each
   token where the rewrite's location map says. *)
From Coq Require Import List NArith Bool Lia ZifyBool.
From CV Require Import Base.Bytes Names.LexDefs.
Import ListNotations.
Local Open Scope N_scope.

Ltac unf := unfold is_blank, op_ok, is_name_char, is_alnum, is_alpha, is_upper, is_lower, is_digit, one_of, NL in *;
            cbn [existsb] in *.

Lemma blank_facts c : is_blank c = true ->
  is_name_char c = false /\ c <> 39 /\ c <> 47 /\ c <> 42 /\ c <> 13 /\ (128 <=? c) = false /\ (c <=? 32) = true /\
  c <> 34 /\ c <> 35 /\ c <> 92.
Proof. unf. intros. repeat split; lia. Qed.

Lemma op_facts c : op_ok c = true ->
  is_name_char c = false /\ c <> 39 /\ c <> 13 /\ (128 <=? c) = false /\ (c <=? 32) = false /\ c <> 10 /\
  c <> 34 /\ c <> 35 /\ c <> 92.
Proof. unf. intros. repeat split; lia. Qed.

Lemma name_facts c : is_name_char c = true ->
  c <> 39 /\ c <> 47 /\ c <> 42 /\ c <> 13 /\ (128 <=? c) = false /\ (c <=? 32) = false /\ c <> 10.
Proof. unf. intros. repeat split; lia. Qed.

(* ------------------------------------------------------------------ CR-free text is delivered as it is *)
Lemma norm_cr_id s : ~ In 13 s -> norm_cr s = s.
Proof.
  induction s as [|c r IH]; intros H; [reflexivity|].
  assert (c <> 13) by (intros E; apply H; left; congruence).
  assert (~ In 13 r) by (intros E; apply H; right; exact E).
  cbn [norm_cr].
  destruct c as [|p]; [f_equal; auto|].
  do 4 (destruct p as [p|p|]; try (f_equal; auto; fail)); congruence.
Qed.

(* ------------------------------------------------------------------ blanks *)
Lemma lx_blanks w : forallb is_blank w = true -> forall s line col,
  lx MCode (w ++ s) line col 0 = (let '(l, c) := adjust w line col in lx MCode s l c 0).
Proof.
  induction w as [|ch w IH]; intros Hb s line col; cbn [app adjust]; [reflexivity|].
  cbn [forallb] in Hb. apply andb_true_iff in Hb. destruct Hb as [Hc Hw].
  destruct (blank_facts ch Hc) as (_ & _ & _ & _ & _ & H128 & H32 & _).
  cbn [lx]. rewrite H128. unfold NL. destruct (ch =? 10) eqn:E.
  - cbn [N.eqb]. rewrite (IH Hw). reflexivity.
  - rewrite H32. rewrite (IH Hw). reflexivity.
Qed.

(* ------------------------------------------------------------------ names *)
Lemma lx_name_scan w : forallb is_name_char w = true -> forall acc l c s line col ml,
  lx (MName acc l c) (w ++ s) line col ml = lx (MName (rev w ++ acc) l c) s line col ml.
Proof.
  induction w as [|ch w IH]; intros Hn acc l c s line col ml; cbn [app rev]; [reflexivity|].
  cbn [forallb] in Hn. apply andb_true_iff in Hn. destruct Hn as [Hc Hw].
  cbn [lx]. rewrite Hc. rewrite (IH Hw). rewrite <- app_assoc. reflexivity.
Qed.

Definition stops_name (s : str) : Prop :=
  match s with [] => True | ch :: _ => is_name_char ch = false /\ ch <> 39 end.

Lemma lx_name_flush acc l c s line col ml : stops_name s ->
  lx (MName acc l c) s line col ml = mkTok (rev acc) l c false :: lx MCode s line (col + len acc) ml.
Proof.
  destruct s as [|ch r]; intros H; [reflexivity|].
  destruct H as [Hn H39]. cbn [lx]. rewrite Hn.
  assert (E39 : (ch =? 39) = false) by lia. rewrite E39. rewrite orb_false_r. reflexivity.
Qed.

Lemma len_rev (s : str) : len (rev s) = len s.
Proof. unfold len. rewrite rev_length. reflexivity. Qed.

Lemma lx_name w : w <> [] -> forallb is_name_char w = true -> forall s line col,
  stops_name s ->
  lx MCode (w ++ s) line col 0 = mkTok w line col false :: lx MCode s line (col + len w) 0.
Proof.
  intros Hne Hn s line col Hs. destruct w as [|ch w]; [congruence|].
  cbn [forallb] in Hn. apply andb_true_iff in Hn. destruct Hn as [Hc Hw].
  destruct (name_facts ch Hc) as (_ & _ & _ & _ & H128 & H32 & H10).
  cbn [app lx]. rewrite H128. unfold NL. assert (E : (ch =? 10) = false) by lia. rewrite E, H32, Hc.
  rewrite (lx_name_scan w Hw). rewrite (lx_name_flush _ _ _ _ _ _ _ Hs).
  rewrite rev_app_distr, rev_involutive. cbn [rev app].
  f_equal. f_equal. unfold len. rewrite app_length, rev_length. cbn [length]. f_equal. lia.
Qed.

(* ------------------------------------------------------------------ punctuators *)
Definition no_comment_start (s : str) : Prop :=
  match s with 47 :: _ => False | 42 :: _ => False | _ => True end.

Lemma lx_op c : op_ok c = true -> forall s line col,
  (c = 47 -> no_comment_start s) ->
  lx MCode (c :: s) line col 0 = mkTok [c] line col false :: lx MCode s line (col + 1) 0.
Proof.
  intros Hc s line col Hs.
  destruct (op_facts c Hc) as (Hn & H39 & _ & H128 & H32 & H10 & H34 & H35 & H92).
  cbn [lx]. rewrite H128. unfold NL.
  assert (E10 : (c =? 10) = false) by lia. rewrite E10, H32, Hn.
  assert (E : ((c =? 34) || (c =? 35) || (c =? 39)) = false) by lia. rewrite E.
  assert (E92 : (c =? 92) = false) by lia. rewrite E92.
  destruct (c =? 47) eqn:E47; [|reflexivity].
  apply N.eqb_eq in E47. specialize (Hs E47). subst c.
  destruct s as [|d r]; [reflexivity|].
  cbn [no_comment_start] in Hs.
  destruct d as [|p]; [reflexivity|].
  do 6 (destruct p as [p|p|]; try reflexivity); contradiction.
Qed.

(* ------------------------------------------------------------------ the rendering *)
Fixpoint expect (ws : list str) (toks : list stok) (line col : N) : list tokp :=
  match ws, toks with
  | w :: ws', t :: r =>
      let '(l1, c1) := adjust w line col in
      mkTok (stok_str t) l1 c1 false :: expect ws' r l1 (c1 + len (stok_str t))
  | _, _ => []
  end.

(* what may follow token a in a rendering *)
Definition follows_ok (a : stok) (s : str) : Prop :=
  match a with
  | SName _ => stops_name s
  | SOp c => c = 47 -> no_comment_start s
  end.

Lemma follows_blank a c s : is_blank c = true -> follows_ok a (c :: s).
Proof.
  intros Hb. destruct (blank_facts c Hb) as (Hn & H39 & H47 & H42 & _).
  destruct a as [w|o]; cbn [follows_ok stops_name].
  - auto.
  - intros _. cbn [no_comment_start].
    destruct c as [|p]; [exact I|].
    do 6 (destruct p as [p|p|]; try exact I); congruence.
Qed.

Lemma follows_tok a b s : stok_ok b = true -> fuses a b = false -> follows_ok a (stok_str b ++ s).
Proof.
  intros Hb Hf. destruct b as [w|c]; cbn [stok_str stok_ok] in *.
  - destruct w as [|ch w]; [discriminate|].
    cbn [forallb] in Hb. apply andb_true_iff in Hb. destruct Hb as [Hc _].
    destruct (name_facts ch Hc) as (H39 & H47 & H42 & _).
    destruct a as [w'|o]; cbn [fuses] in Hf; [discriminate|].
    cbn [follows_ok app]. intros _. cbn [no_comment_start].
    destruct ch as [|p]; [exact I|].
    do 6 (destruct p as [p|p|]; try exact I); congruence.
  - destruct (op_facts c Hb) as (Hn & H39 & _).
    destruct a as [w'|o]; cbn [follows_ok app stops_name].
    + auto.
    + intros ->. cbn [fuses] in Hf. cbn [no_comment_start].
      destruct c as [|p]; [exact I|].
      do 6 (destruct p as [p|p|]; try exact I); discriminate.
Qed.

Lemma lx_tok t s line col : stok_ok t = true -> follows_ok t s ->
  lx MCode (stok_str t ++ s) line col 0 =
  mkTok (stok_str t) line col false :: lx MCode s line (col + len (stok_str t)) 0.
Proof.
  intros Ht Hf. destruct t as [w|c]; cbn [stok_str stok_ok follows_ok] in *.
  - destruct w as [|ch w]; [discriminate|].
    apply lx_name; [congruence | exact Ht | exact Hf].
  - cbn [app]. rewrite (lx_op c Ht s line col Hf). reflexivity.
Qed.

Lemma lex_render_gen toks : forall ws line col,
  length ws = S (length toks) ->
  Forall (fun w => forallb is_blank w = true) ws ->
  forallb stok_ok toks = true ->
  sep_ok ws toks = true ->
  lx MCode (render ws toks) line col 0 = expect ws toks line col.
Proof.
  induction toks as [|t r IH]; intros ws line col Hlen Hws Hok Hsep.
  - destruct ws as [|w [|? ?]]; try discriminate. cbn [render expect].
    inversion Hws; subst. rewrite <- (app_nil_r w). rewrite (lx_blanks w H1).
    destruct (adjust w line col). reflexivity.
  - destruct ws as [|w ws']; [discriminate|]. cbn [length] in Hlen. injection Hlen as Hlen.
    inversion Hws as [|? ? Hw Hws']; subst.
    cbn [forallb] in Hok. apply andb_true_iff in Hok. destruct Hok as [Ht Hr].
    cbn [render expect]. rewrite (lx_blanks w Hw).
    destruct (adjust w line col) as [l1 c1].
    assert (Hfol : follows_ok t (render ws' r)).
    { destruct ws' as [|w1 ws'']; [discriminate|].
      destruct r as [|b r'].
      - cbn [render]. destruct w1 as [|c w1]; [destruct t; cbn; auto|].
        inversion Hws'; subst. cbn [forallb] in H1. apply andb_true_iff in H1. destruct H1 as [Hc _].
        apply follows_blank. exact Hc.
      - cbn [render]. cbn [sep_ok] in Hsep. apply andb_true_iff in Hsep. destruct Hsep as [Hs _].
        destruct w1 as [|c w1].
        + cbn [app]. apply orb_true_iff in Hs. destruct Hs as [Hs|Hs]; [|discriminate].
          apply negb_true_iff in Hs.
          cbn [forallb] in Hr. apply andb_true_iff in Hr. destruct Hr as [Hb _].
          apply follows_tok; assumption.
        + inversion Hws'; subst. cbn [forallb] in H1. apply andb_true_iff in H1. destruct H1 as [Hc _].
          cbn [app]. apply follows_blank. exact Hc. }
    rewrite (lx_tok t _ l1 c1 Ht Hfol). f_equal.
    apply IH; auto.
    destruct ws' as [|w1 ws'']; [discriminate|].
    destruct r as [|b r']; [destruct ws''; reflexivity|].
    cbn [sep_ok] in Hsep. apply andb_true_iff in Hsep. tauto.
Qed.

Lemma render_no_cr toks : forall ws,
  Forall (fun w => forallb is_blank w = true) ws -> forallb stok_ok toks = true -> ~ In 13 (render ws toks).
Proof.
  assert (Hbl : forall w, forallb is_blank w = true -> ~ In 13 w).
  { induction w as [|c w IH]; cbn [forallb In]; [tauto|].
    intros H. apply andb_true_iff in H. destruct H as [Hc Hw].
    destruct (blank_facts c Hc) as (_ & _ & _ & _ & H13 & _). intros [E|E]; [congruence | exact (IH Hw E)]. }
  induction toks as [|t r IH]; intros ws Hws Hok.
  - destruct ws as [|w ws']; cbn [render]; [tauto|]. inversion Hws; subst. auto.
  - destruct ws as [|w ws']; cbn [render]; [tauto|]. inversion Hws as [|? ? Hw Hws']; subst.
    cbn [forallb] in Hok. apply andb_true_iff in Hok. destruct Hok as [Ht Hr].
    rewrite !in_app_iff. intros [E|[E|E]].
    + exact (Hbl w Hw E).
    + destruct t as [n|c]; cbn [stok_str stok_ok] in *.
      * destruct n as [|ch n]; [discriminate|].
        rewrite forallb_forall in Ht. specialize (Ht _ E).
        destruct (name_facts 13 Ht) as (_ & _ & _ & H & _). congruence.
      * destruct E as [E|[]]. subst c. destruct (op_facts 13 Ht) as (_ & _ & H & _). congruence.
    + exact (IH ws' Hws' Hr E).
Qed.

Theorem lex_render_partial toks ws :
  length ws = S (length toks) ->
  Forall (fun w => forallb is_blank w = true) ws ->
  forallb stok_ok toks = true ->
  sep_ok ws toks = true ->
  lex1 (render ws toks) = expect ws toks 1 1.
Proof.
  intros. unfold lex1. rewrite norm_cr_id by (apply render_no_cr; assumption).
  apply lex_render_gen; assumption.
Qed.

Lemma expect_strs toks : forall ws line col, length ws = S (length toks) ->
  map tstr (expect ws toks line col) = map stok_str toks.
Proof.
  induction toks as [|t r IH]; intros ws line col Hlen.
  - destruct ws; reflexivity.
  - destruct ws as [|w ws']; [discriminate|]. cbn [length] in Hlen. injection Hlen as Hlen.
    cbn [expect]. destruct (adjust w line col) as [l1 c1]. cbn [map tstr]. f_equal. apply IH. exact Hlen.
Qed.

Lemma expect_positions toks : forall ws line col, length ws = S (length toks) ->
  map (fun t => (tline t, tcol t)) (expect ws toks line col) = positions ws toks line col.
Proof.
  induction toks as [|t r IH]; intros ws line col Hlen.
  - destruct ws; reflexivity.
  - destruct ws as [|w ws']; [discriminate|]. cbn [length] in Hlen. injection Hlen as Hlen.
    cbn [expect positions]. destruct (adjust w line col) as [l1 c1]. cbn [map tline tcol]. f_equal. apply IH. exact Hlen.
Qed.

Lemma expect_nocomment toks : forall ws line col, forallb (fun t => negb (tcomment t)) (expect ws toks line col) = true.
Proof.
  induction toks as [|t r IH]; intros ws line col; destruct ws as [|w ws']; try reflexivity.
  cbn [expect]. destruct (adjust w line col). cbn [forallb tcomment negb andb]. apply IH.
Qed.

(* the separator condition is needed: without a separator two names fuse *)
Lemma lex_render_needs_sep :
  exists toks ws, length ws = S (length toks) /\ forallb stok_ok toks = true /\ sep_ok ws toks = false /\
                  map tstr (lex1 (render ws toks)) <> map stok_str toks.
Proof.
  exists [SName [97]; SName [98]], [[]; []; []]. vm_compute. repeat split; congruence.
Qed.
