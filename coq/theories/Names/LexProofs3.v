(* C05 stage 3 -- separators may contain comments: the full raw lexer returns the tokens (and the comments as comment
   tokens) from every rendering whose separators are blanks, block comments and line comments. *)
From Coq Require Import List NArith Bool Lia ZifyBool.
From CV Require Import Base.Bytes Names.LexDefs Names.LexProofs Names.LexProofs2.
Import ListNotations.
Local Open Scope N_scope.

(* ------------------------------------------------------------------ adjust *)
Lemma adjust_app a : forall b l c, adjust (a ++ b) l c = (let '(l1, c1) := adjust a l c in adjust b l1 c1).
Proof.
  induction a as [|x a IH]; intros b l c; cbn [app adjust]; [reflexivity|].
  destruct (x =? NL); apply IH.
Qed.

Lemma adjust_no_nl t : has_nl t = false -> forall l c, adjust t l c = (l, c + len t).
Proof.
  induction t as [|x t IH]; intros H l c; cbn [adjust].
  - unfold len. cbn [length]. f_equal. lia.
  - unfold has_nl in *. cbn [existsb] in H. apply orb_false_iff in H. destruct H as [Hx Ht].
    rewrite Hx. rewrite (IH Ht). unfold len. cbn [length]. f_equal. lia.
Qed.

Lemma advance0 t l c : advance 0 t l c = adjust t l c.
Proof.
  unfold advance. cbn [N.eqb]. destruct (has_nl t) eqn:E; [reflexivity|]. symmetry. apply adjust_no_nl. exact E.
Qed.

(* ------------------------------------------------------------------ phase 1 over one separator item *)
Definition ctok (i : sitem) (l c : N) : list tokp :=
  match i with
  | SBlank _ => []
  | SBlock b => [mkTok (47 :: 42 :: b ++ [42; 47]) l c true]
  | SLine b => [mkTok (47 :: 47 :: b) l c true]
  end.

Fixpoint ctoks (s : list sitem) (l c : N) : list tokp :=
  match s with
  | [] => []
  | i :: r => ctok i l c ++ (let '(l1, c1) := adjust (sitem_str i) l c in ctoks r l1 c1)
  end.

Lemma block_scan body : forall acc l c s line col,
  forallb (fun c => negb (one_of c [42; 47; 92; 13])) body = true ->
  (2 <= length acc)%nat ->
  lx (MBlockC acc l c) (body ++ 42 :: 47 :: s) line col 0 =
  (let t := rev (47 :: 42 :: rev body ++ acc) in
   mkTok t l c true :: (let '(l1, c1) := adjust t line col in lx MCode s l1 c1 0)).
Proof.
  induction body as [|ch body IH]; intros acc l c s line col Hb Hacc.
  - cbn [app rev]. cbn [lx]. cbn [N.eqb Pos.eqb].
    assert (E : ends_block (42 :: acc) = false) by reflexivity. rewrite E.
    cbn [N.eqb Pos.eqb].
    assert (E2 : ends_block (47 :: 42 :: acc) = true) by (destruct acc as [|x [|y acc]]; cbn [length] in Hacc; try lia; reflexivity).
    rewrite E2. cbn [N.eqb]. rewrite advance0. cbn [rev app].
    destruct (adjust ((rev acc ++ [42]) ++ [47]) line col). reflexivity.
  - cbn [forallb] in Hb. apply andb_true_iff in Hb. destruct Hb as [Hc Hb].
    assert (H92 : (ch =? 92) = false) by (revert Hc; unfold one_of; cbn [existsb]; lia).
    assert (H47 : ch <> 47) by (revert Hc; unfold one_of; cbn [existsb]; lia).
    cbn [app lx]. rewrite H92.
    assert (E : ends_block (ch :: acc) = false).
    { unfold ends_block. destruct ch as [|p]; [reflexivity|]. do 6 (destruct p as [p|p|]; try reflexivity). congruence. }
    rewrite E. rewrite (IH (ch :: acc) l c s line col Hb) by (cbn [length]; lia).
    cbn [rev]. rewrite <- !app_assoc. reflexivity.
Qed.

Lemma has_nl_rev t : has_nl (rev t) = has_nl t.
Proof.
  unfold has_nl. induction t as [|x t IH]; [reflexivity|]. cbn [rev existsb]. rewrite existsb_app, IH. cbn [existsb].
  rewrite orb_false_r. apply orb_comm.
Qed.

Lemma line_scan body : forall acc l c s line col,
  forallb (fun c => negb (one_of c [10; 92; 13])) body = true ->
  has_nl acc = false ->
  lx (MLineC acc l c) (body ++ 10 :: s) line col 0 =
  mkTok (rev (rev body ++ acc)) l c true :: lx MCode s (line + 1) 1 0.
Proof.
  induction body as [|ch body IH]; intros acc l c s line col Hb Hacc.
  - cbn [app rev lx]. unfold NL. cbn [N.eqb Pos.eqb]. rewrite advance0.
    rewrite (adjust_no_nl (rev acc)) by (rewrite has_nl_rev; exact Hacc). cbn [N.eqb]. reflexivity.
  - cbn [forallb] in Hb. apply andb_true_iff in Hb. destruct Hb as [Hc Hb].
    assert (H10 : (ch =? 10) = false) by (revert Hc; unfold one_of; cbn [existsb]; lia).
    assert (H92 : (ch =? 92) = false) by (revert Hc; unfold one_of; cbn [existsb]; lia).
    cbn [app lx]. unfold NL. rewrite H10, H92.
    rewrite (IH (ch :: acc) l c s line col Hb).
    + cbn [rev]. rewrite <- !app_assoc. reflexivity.
    + unfold has_nl in *. cbn [existsb]. unfold NL. rewrite H10. exact Hacc.
Qed.

Lemma lx_slash_star s line col : lx MCode (47 :: 42 :: s) line col 0 = lx (MBlockC [42; 47] line col) s line col 0.
Proof. reflexivity. Qed.

Lemma lx_slash_slash s line col : lx MCode (47 :: 47 :: s) line col 0 = lx (MLineC [47; 47] line col) s line col 0.
Proof. reflexivity. Qed.

Lemma line_body_no_nl b : forallb (fun c => negb (one_of c [10; 92; 13])) b = true -> has_nl b = false.
Proof.
  induction b as [|x b IH]; [reflexivity|]. cbn [forallb]. intros H. apply andb_true_iff in H. destruct H as [Hx Hb].
  unfold has_nl in *. cbn [existsb]. rewrite (IH Hb). unfold NL.
  assert (E : (x =? 10) = false) by (revert Hx; unfold one_of; cbn [existsb]; lia). rewrite E. reflexivity.
Qed.

Lemma lx_item i s line col : sitem_ok i = true ->
  lx MCode (sitem_str i ++ s) line col 0 =
  ctok i line col ++ (let '(l1, c1) := adjust (sitem_str i) line col in lx MCode s l1 c1 0).
Proof.
  intros Hi. destruct i as [c|b|b]; cbn [sitem_str sitem_ok ctok] in *.
  - cbn [app]. change (c :: s) with ([c] ++ s). rewrite (lx_blanks [c]); [reflexivity|]. cbn [forallb]. rewrite Hi. reflexivity.
  - cbn [app]. rewrite <- app_assoc. cbn [app]. rewrite lx_slash_star.
    rewrite (block_scan b [42; 47] line col s line col Hi) by (cbn; lia).
    assert (E : rev (47 :: 42 :: rev b ++ [42; 47]) = 47 :: 42 :: b ++ [42; 47]).
    { cbn [rev]. rewrite rev_app_distr, rev_involutive. cbn [rev app]. rewrite <- !app_assoc. reflexivity. }
    rewrite E. reflexivity.
  - cbn [app]. rewrite <- app_assoc. cbn [app]. rewrite lx_slash_slash.
    rewrite (line_scan b [47; 47] line col s line col Hi) by reflexivity.
    assert (E : rev (rev b ++ [47; 47]) = 47 :: 47 :: b) by (rewrite rev_app_distr, rev_involutive; reflexivity).
    rewrite E. cbn [app]. f_equal.
    change (47 :: 47 :: b ++ [10]) with ((47 :: 47 :: b) ++ [10]). rewrite adjust_app.
    rewrite (adjust_no_nl (47 :: 47 :: b)).
    + cbn [adjust]. unfold NL. cbn [N.eqb Pos.eqb]. reflexivity.
    + unfold has_nl. cbn [existsb]. apply (line_body_no_nl b Hi).
Qed.

Lemma lx_sep w : forallb sitem_ok w = true -> forall s line col,
  lx MCode (sep_str w ++ s) line col 0 =
  ctoks w line col ++ (let '(l1, c1) := adjust (sep_str w) line col in lx MCode s l1 c1 0).
Proof.
  induction w as [|i w IH]; intros Hw s line col; cbn [sep_str flat_map ctoks app adjust]; [reflexivity|].
  cbn [forallb] in Hw. apply andb_true_iff in Hw. destruct Hw as [Hi Hw].
  rewrite <- app_assoc. rewrite (lx_item i _ line col Hi). rewrite <- app_assoc. f_equal.
  rewrite adjust_app. destruct (adjust (sitem_str i) line col) as [l1 c1].
  fold (sep_str w). rewrite (IH Hw). reflexivity.
Qed.

(* ------------------------------------------------------------------ phase 1 on the rendering *)
Fixpoint p3 (ws : list (list sitem)) (toks : list stok2) (line col : N) : list tokp :=
  match ws, toks with
  | w :: ws', t :: r =>
      let '(l1, c1) := adjust (sep_str w) line col in
      ctoks w line col ++ toks_of t l1 c1 ++ p3 ws' r l1 (c1 + len (stok2_str t))
  | w :: _, [] => ctoks w line col
  | [], _ => []
  end.

Fixpoint merged3 (ws : list (list sitem)) (toks : list stok2) (line col : N) : list tokp :=
  match ws, toks with
  | w :: ws', t :: r =>
      let '(l1, c1) := adjust (sep_str w) line col in
      mkTok (stok2_str t) l1 c1 false :: merged3 ws' r l1 (c1 + len (stok2_str t))
  | _, _ => []
  end.

Lemma sep_head w : forallb sitem_ok w = true ->
  match sep_str w with
  | [] => w = []
  | ch :: _ => (is_blank ch = true /\ starts_comment w = false) \/ (ch = 47 /\ starts_comment w = true)
  end.
Proof.
  destruct w as [|i w]; [reflexivity|]. cbn [forallb]. intros H. apply andb_true_iff in H. destruct H as [Hi _].
  destruct i as [c|b|b]; cbn [sep_str flat_map sitem_str app starts_comment sitem_ok] in *; auto.
Qed.

Lemma follows3 t w s : stok2_ok t = true -> forallb sitem_ok w = true -> w <> [] ->
  (is_slash t = true -> starts_comment w = false) -> follows2_ok t (sep_str w ++ s).
Proof.
  intros Ht Hw Hne Hsl. pose proof (sep_head w Hw) as Hh.
  destruct (sep_str w) as [|ch r] eqn:E; [congruence|]. cbn [app].
  destruct Hh as [[Hb _]|[-> Hc]]; [apply follows2_blank; exact Hb|].
  destruct t as [n|x|a b|a b d]; cbn [follows2_ok stops_name is_slash] in *.
  - split; [reflexivity | discriminate].
  - intros ->. specialize (Hsl eq_refl). congruence.
  - exact I.
  - exact I.
Qed.

Lemma lex1_render3_gen toks : forall ws line col,
  length ws = S (length toks) ->
  Forall (fun w => forallb sitem_ok w = true) ws ->
  forallb stok2_ok toks = true ->
  sep3_ok ws toks = true ->
  lx MCode (render3 ws toks) line col 0 = p3 ws toks line col.
Proof.
  induction toks as [|t r IH]; intros ws line col Hlen Hws Hok Hsep.
  - destruct ws as [|w [|? ?]]; try discriminate. cbn [render3 p3].
    inversion Hws; subst. rewrite <- (app_nil_r (sep_str w)). rewrite (lx_sep w H1).
    destruct (adjust (sep_str w) line col). cbn [lx]. apply app_nil_r.
  - destruct ws as [|w ws']; [discriminate|]. cbn [length] in Hlen. injection Hlen as Hlen.
    inversion Hws as [|? ? Hw Hws']; subst.
    cbn [forallb] in Hok. apply andb_true_iff in Hok. destruct Hok as [Ht Hr].
    cbn [render3 p3]. rewrite (lx_sep w Hw).
    destruct (adjust (sep_str w) line col) as [l1 c1]. f_equal.
    destruct ws' as [|w1 ws'']; [discriminate|].
    cbn [sep3_ok] in Hsep. apply andb_true_iff in Hsep. destruct Hsep as [Hsep Hsep'].
    apply andb_true_iff in Hsep. destruct Hsep as [Hslash Hneed].
    inversion Hws' as [|? ? Hw1 _]; subst.
    assert (Hfol : follows2_ok t (render3 (w1 :: ws'') r)).
    { destruct w1 as [|i1 w1'].
      - destruct r as [|b r'].
        + cbn [render3 sep_str flat_map]. destruct t; cbn; auto.
        + cbn [render3 sep_str flat_map app]. apply orb_true_iff in Hneed. destruct Hneed as [Hn|Hn]; [|discriminate].
          apply negb_true_iff in Hn. cbn [forallb] in Hr. apply andb_true_iff in Hr. destruct Hr as [Hb _].
          apply follows2_tok; assumption.
      - assert (Hs : is_slash t = true -> starts_comment (i1 :: w1') = false).
        { intros E. rewrite E in Hslash. cbn [negb orb] in Hslash. apply negb_true_iff in Hslash. exact Hslash. }
        destruct r as [|b r']; cbn [render3].
        + rewrite <- (app_nil_r (sep_str (i1 :: w1'))). apply follows3; auto. discriminate.
        + apply follows3; auto. discriminate. }
    rewrite (lx_tok2 t _ l1 c1 Ht Hfol). f_equal.
    apply IH; auto.
Qed.

Lemma sep_no_cr w : forallb sitem_ok w = true -> ~ In 13 (sep_str w).
Proof.
  induction w as [|i w IH]; cbn [sep_str flat_map forallb]; [tauto|].
  intros H. apply andb_true_iff in H. destruct H as [Hi Hw]. rewrite in_app_iff. intros [E|E]; [|exact (IH Hw E)].
  destruct i as [c|b|b]; cbn [sitem_str sitem_ok] in *.
  - destruct E as [E|[]]. subst. destruct (blank_facts 13 Hi) as (_ & _ & _ & _ & H & _). congruence.
  - destruct E as [E|[E|E]]; try discriminate. apply in_app_iff in E. destruct E as [E|[E|[E|[]]]]; try discriminate.
    rewrite forallb_forall in Hi. specialize (Hi _ E). revert Hi. unfold one_of. cbn [existsb]. lia.
  - destruct E as [E|[E|E]]; try discriminate. apply in_app_iff in E. destruct E as [E|[E|[]]]; try discriminate.
    rewrite forallb_forall in Hi. specialize (Hi _ E). revert Hi. unfold one_of. cbn [existsb]. lia.
Qed.

Lemma tok_no_cr t : stok2_ok t = true -> ~ In 13 (stok2_str t).
Proof.
  intros Ht E. destruct t as [n|c|a b|a b d]; cbn [stok2_str stok2_ok] in *.
  - destruct n as [|ch n]; [discriminate|]. rewrite forallb_forall in Ht. specialize (Ht _ E).
    destruct (name_facts 13 Ht) as (_ & _ & _ & H & _). congruence.
  - apply andb_true_iff in Ht. destruct Ht as [Ht _]. destruct E as [E|[]]. subst c.
    destruct (op_facts 13 Ht) as (_ & _ & H & _). congruence.
  - destruct (S2_facts a b (S2_in a b Ht)) as (Ha & Hb & _). destruct E as [E|[E|[]]]; subst.
    + destruct (op_facts 13 Ha) as (_ & _ & H & _). congruence.
    + destruct (op_facts 13 Hb) as (_ & _ & H & _). congruence.
  - destruct (S3_facts a b d (S3_in a b d Ht)) as (Ha & Hb & Hd & _). destruct E as [E|[E|[E|[]]]]; subst.
    + destruct (op_facts 13 Ha) as (_ & _ & H & _). congruence.
    + destruct (op_facts 13 Hb) as (_ & _ & H & _). congruence.
    + destruct (op_facts 13 Hd) as (_ & _ & H & _). congruence.
Qed.

Lemma render3_no_cr toks : forall ws,
  Forall (fun w => forallb sitem_ok w = true) ws -> forallb stok2_ok toks = true -> ~ In 13 (render3 ws toks).
Proof.
  induction toks as [|t r IH]; intros ws Hws Hok.
  - destruct ws as [|w ws']; cbn [render3]; [tauto|]. inversion Hws; subst. apply sep_no_cr. assumption.
  - destruct ws as [|w ws']; cbn [render3]; [tauto|]. inversion Hws as [|? ? Hw Hws']; subst.
    cbn [forallb] in Hok. apply andb_true_iff in Hok. destruct Hok as [Ht Hr].
    rewrite !in_app_iff. intros [E|[E|E]].
    + exact (sep_no_cr w Hw E).
    + exact (tok_no_cr t Ht E).
    + exact (IH ws' Hws' Hr E).
Qed.

(* ------------------------------------------------------------------ phase 2 with comment tokens in the list *)
Definition nc (t : tokp) : bool := negb (tcomment t).

Lemma op_of_comment n : tcomment n = true -> op_of n = 0.
Proof. intros H. unfold op_of. destruct (tstr n) as [|c [|? ?]]; try reflexivity. rewrite H, orb_true_r. reflexivity. Qed.

Lemma number_comment n : tcomment n = true -> tok_is_number n = false.
Proof. intros H. unfold tok_is_number. rewrite H. reflexivity. Qed.

Lemma decide_comment pn C r : tcomment C = true -> decide pn C r = AKeep.
Proof.
  intros H. apply decide_keep.
  - rewrite (op_of_comment C H). discriminate.
  - rewrite (number_comment C H). reflexivity.
  - destruct r; [exact I|]. rewrite (op_of_comment C H). reflexivity.
Qed.

Lemma ctoks_comment w : forall l c, Forall (fun t => tcomment t = true) (ctoks w l c).
Proof.
  induction w as [|i w IH]; intros l c; cbn [ctoks]; [constructor|].
  apply Forall_app. split.
  - destruct i; cbn [ctok]; repeat constructor.
  - destruct (adjust (sitem_str i) l c). apply IH.
Qed.

Lemma combine_comments cs : Forall (fun t => tcomment t = true) cs -> forall prev rest,
  exists prev', combine prev (cs ++ rest) = cs ++ combine prev' rest /\
                (prev_num prev' = true -> prev_num prev = true) /\ (cs = [] -> prev' = prev).
Proof.
  induction 1 as [|C cs HC Hcs IH]; intros prev rest.
  - exists prev. cbn [app]. auto.
  - cbn [app combine]. rewrite (decide_comment _ C _ HC).
    destruct (IH (Some C) rest) as (p' & H1 & H2 & H3). exists p'. rewrite H1. repeat split.
    + intros E. specialize (H2 E). cbn [prev_num] in H2. rewrite (number_comment C HC) in H2. discriminate.
    + discriminate.
Qed.

Lemma filter_comments cs : Forall (fun t => tcomment t = true) cs -> filter nc cs = [].
Proof. induction 1 as [|C cs HC _ IH]; [reflexivity|]. cbn [filter]. unfold nc at 1. rewrite HC. exact IH. Qed.

Lemma ctx_mono toks p p' : ctx_ok p toks = true -> (p' = true -> p = true) -> ctx_ok p' toks = true.
Proof.
  destruct toks as [|t r]; [reflexivity|]. cbn [ctx_ok]. intros H Hp.
  destruct p'; [rewrite (Hp eq_refl) in H; exact H|].
  destruct p; [|exact H].
  apply andb_true_iff in H. destruct H as [H H3]. apply andb_true_iff in H. destruct H as [H1 H2].
  apply andb_true_iff in H2. destruct H2 as [H2 H5]. apply andb_true_iff in H2. destruct H2 as [H2 H4].
  rewrite H1, H3, H4. cbn [negb andb]. rewrite !andb_true_r. rewrite orb_true_r, andb_true_r.
  apply orb_true_iff in H2. destruct H2 as [H2|H2]; [rewrite H2; reflexivity|].
  cbn [negb andb] in H2. discriminate.
Qed.

(* the phase-1 token that follows a token's last character token *)
Lemma p3_next w1 ws'' r l c : forallb stok2_ok r = true ->
  match p3 (w1 :: ws'') r l c with
  | [] => True
  | n :: _ => tcomment n = true \/
              (exists b r', r = b :: r' /\ op_of n = head_op b /\ tok_is_number n = is_num_tok b /\
                            tline n = fst (adjust (sep_str w1) l c) /\ tcol n = snd (adjust (sep_str w1) l c))
  end.
Proof.
  intros Hr. pose proof (ctoks_comment w1 l c) as Hc.
  destruct r as [|b r']; cbn [p3].
  - destruct (ctoks w1 l c) as [|n cs]; [exact I|]. inversion Hc; subst. left; assumption.
  - destruct (adjust (sep_str w1) l c) as [l1 c1] eqn:E.
    destruct (ctoks w1 l c) as [|n cs]; [|inversion Hc; subst; left; assumption].
    cbn [app forallb] in *. apply andb_true_iff in Hr. destruct Hr as [Hb _].
    destruct b as [m|x|x y|x y z]; cbn [toks_of app stok2_ok] in *; right; eexists; exists r'; (split; [reflexivity|]);
      cbn [head_op is_num_tok fst snd tline tcol].
    + repeat split. apply op_of_name; [destruct m; [discriminate|congruence] | destruct m; [discriminate|exact Hb]].
    + apply andb_true_iff in Hb. destruct Hb as [Hb _]. repeat split; [apply op_of_op; exact Hb | apply number_op; exact Hb].
    + destruct (S2_facts x y (S2_in x y Hb)) as (Hx & _). repeat split; [apply op_of_op; exact Hx | apply number_op; exact Hx].
    + destruct (S3_facts x y z (S3_in x y z Hb)) as (Hx & _). repeat split; [apply op_of_op; exact Hx | apply number_op; exact Hx].
Qed.

Lemma sep_str_nonempty w : w <> [] -> sep_str w <> [].
Proof. destruct w as [|i w]; [congruence|]. intros _. destruct i; cbn [sep_str flat_map sitem_str app]; discriminate. Qed.

(* t is an operator token and so is the next token *)
Definition is_opkind2 (t : stok2) (r : list stok2) : bool :=
  match r with b :: _ => needs_sep2 t b | [] => false end.

Lemma combine_p3 toks : forall ws line col prev,
  length ws = S (length toks) ->
  Forall (fun w => forallb sitem_ok w = true) ws ->
  forallb stok2_ok toks = true ->
  sep3_ok ws toks = true ->
  no_exp toks = true ->
  ctx_ok (prev_num prev) toks = true ->
  filter nc (combine prev (p3 ws toks line col)) = merged3 ws toks line col.
Proof.
  induction toks as [|t r IH]; intros ws line col prev Hlen Hws Hok Hsep Hexp Hctx.
  - destruct ws as [|w [|? ?]]; try discriminate. cbn [p3 merged3].
    destruct (combine_comments _ (ctoks_comment w line col) prev []) as (p' & H1 & _).
    rewrite app_nil_r in H1. rewrite H1. cbn [combine]. rewrite app_nil_r. apply filter_comments. apply ctoks_comment.
  - destruct ws as [|w ws']; [discriminate|]. cbn [length] in Hlen. injection Hlen as Hlen.
    inversion Hws as [|? ? Hw Hws']; subst.
    cbn [forallb] in Hok. apply andb_true_iff in Hok. destruct Hok as [Ht Hr].
    cbn [p3 merged3]. destruct (adjust (sep_str w) line col) as [l1 c1].
    set (REST0 := p3 ws' r l1 (c1 + len (stok2_str t))). set (M0 := merged3 ws' r l1 (c1 + len (stok2_str t))).
    destruct (combine_comments _ (ctoks_comment w line col) prev (toks_of t l1 c1 ++ REST0)) as (p' & H1 & Hp' & _).
    rewrite H1, filter_app, (filter_comments _ (ctoks_comment w line col)). cbn [app].
    clear H1. destruct ws' as [|w1 ws'']; [discriminate|]. unfold REST0, M0. clear REST0 M0.
    cbn [sep3_ok] in Hsep. apply andb_true_iff in Hsep. destruct Hsep as [Hsep Hsep'].
    apply andb_true_iff in Hsep. destruct Hsep as [_ Hneed].
    pose proof (ctx_mono _ _ _ Hctx Hp') as Hctx1. clear Hctx Hp' prev.
    assert (Hexp' : no_exp r = true).
    { destruct t; cbn [no_exp] in Hexp; auto. destruct r; [reflexivity|]. apply andb_true_iff in Hexp. tauto. }
    cbn [ctx_ok] in Hctx1. apply andb_true_iff in Hctx1. destruct Hctx1 as [Hc12 Hctx'].
    apply andb_true_iff in Hc12. destruct Hc12 as [Hshift Hctx3].
    apply andb_true_iff in Hctx3. destruct Hctx3 as [Hctx3 Hell].
    apply andb_true_iff in Hctx3. destruct Hctx3 as [Hincdec Hsha].
    pose proof (fun pv (E : prev_num pv = is_num_tok t) =>
                  IH (w1 :: ws'') l1 (c1 + len (stok2_str t)) pv Hlen Hws' Hr Hsep' Hexp'
                     (eq_ind_r (fun b => ctx_ok b r = true) Hctx' E)) as IH'.
    pose proof (p3_next w1 ws'' r l1 (c1 + len (stok2_str t)) Hr) as Hnext.
    set (REST := p3 (w1 :: ws'') r l1 (c1 + len (stok2_str t))) in *.
    (* if the next phase-1 token is not a comment and both tokens are operators, it is not adjacent *)
    assert (Hadj : forall T n rest', REST = n :: rest' -> tcomment n = false -> is_opkind2 t r = true ->
                   tline T = l1 -> tcol T + 1 = c1 + len (stok2_str t) -> adjacent T n = false).
    { intros T n rest' HR Hn Hk HlT HcT. rewrite HR in Hnext. destruct Hnext as [Hn'|(b & r' & -> & _ & _ & Hl & Hc)]; [congruence|].
      unfold is_opkind2 in Hk. apply orb_true_iff in Hneed. destruct Hneed as [Hneed|Hneed].
      - apply negb_true_iff in Hneed. congruence.
      - apply (not_adjacent T n (sep_str w1) l1 (c1 + len (stok2_str t))); auto.
        apply sep_str_nonempty. destruct w1; [discriminate|congruence]. }
    destruct t as [n|x|a b|a b d]; cbn [toks_of app stok2_str] in *.
    + (* name *)
      assert (Hne : n <> []) by (destruct n; [discriminate|congruence]).
      assert (Hnc : forallb is_name_char n = true) by (destruct n; [discriminate|exact Ht]).
      cbn [combine]. rewrite decide_keep.
      * cbn [filter]. unfold nc at 1. cbn [tcomment negb]. rewrite IH'; reflexivity.
      * rewrite (op_of_name n l1 c1 Hne Hnc). discriminate.
      * destruct REST as [|nx rest'] eqn:ER; [apply andb_false_r|].
        destruct Hnext as [Hn'|(b & r' & -> & Hop & _)]; [rewrite (op_of_comment nx Hn'); apply andb_false_r|].
        rewrite Hop. cbn [no_exp] in Hexp. apply andb_true_iff in Hexp. destruct Hexp as [Hx _].
        apply negb_true_iff in Hx. unfold exp_end in Hx. unfold tok_is_number. cbn [tstr tcomment negb andb].
        destruct b as [m|y|y z|y z u]; cbn [head_op starts_pm] in *; [apply andb_false_r | exact Hx | exact Hx | exact Hx].
      * destruct REST; [exact I|]. rewrite (op_of_name n l1 c1 Hne Hnc). reflexivity.
    + (* one-character operator *)
      apply andb_true_iff in Ht. destruct Ht as [Hx H46]. apply negb_true_iff in H46.
      cbn [combine]. rewrite decide_keep.
      * cbn [filter]. unfold nc at 1. cbn [tcomment negb]. rewrite IH'; [reflexivity | exact (number_op x l1 c1 Hx)].
      * rewrite (op_of_op x l1 c1 Hx). clear - H46. lia.
      * rewrite (number_op x l1 c1 Hx). reflexivity.
      * destruct REST as [|nx rest'] eqn:ER; [exact I|].
        destruct (tcomment nx) eqn:Ecm; [rewrite (op_of_comment nx Ecm), orb_true_r; reflexivity|].
        destruct Hnext as [Hn'|(b & r' & Hrb & Hop & _)]; [congruence|].
        destruct b as [m|y|y z|y z u]; cbn [head_op] in Hop.
        -- rewrite Hop, N.eqb_refl, orb_true_r. reflexivity.
        -- rewrite (Hadj (mkTok [x] l1 c1 false) nx rest' eq_refl Ecm); [rewrite orb_true_r; reflexivity | | reflexivity | reflexivity].
           unfold is_opkind2. rewrite Hrb. reflexivity.
        -- rewrite (Hadj (mkTok [x] l1 c1 false) nx rest' eq_refl Ecm); [rewrite orb_true_r; reflexivity | | reflexivity | reflexivity].
           unfold is_opkind2. rewrite Hrb. reflexivity.
        -- rewrite (Hadj (mkTok [x] l1 c1 false) nx rest' eq_refl Ecm); [rewrite orb_true_r; reflexivity | | reflexivity | reflexivity].
           unfold is_opkind2. rewrite Hrb. reflexivity.
    + (* two-character operator *)
      pose proof (S2_in a b Ht) as Hin.
      destruct (S2_facts a b Hin) as (Ha & Hb' & _).
      cbn [combine]. rewrite (decide_merge _ a b l1 c1 _ Hin).
      * cbn [setstr tline tcol tcomment filter]. unfold nc at 1. cbn [tcomment negb].
        rewrite IH'; [reflexivity | exact (number_op2 a b l1 c1 Ha)].
      * intros Hs. rewrite Hs in Hshift. cbn [negb orb] in Hshift.
        destruct REST as [|nx rest'] eqn:ER; [exact I|].
        destruct Hnext as [Hn'|(b2 & r' & -> & Hop & _)]; [rewrite (op_of_comment nx Hn'); discriminate|].
        rewrite Hop. clear - Hshift. lia.
      * intros Hi. rewrite Hi in Hincdec. cbn [negb orb] in Hincdec.
        apply andb_true_iff in Hincdec. destruct Hincdec as [Hp Hnx]. apply negb_true_iff in Hp. split; [exact Hp|].
        destruct REST as [|nx rest'] eqn:ER; [exact I|].
        destruct Hnext as [Hn'|(b2 & r' & -> & _ & Hnum & _)]; [exact (number_comment nx Hn')|].
        rewrite Hnum. apply negb_true_iff. exact Hnx.
    + (* three-character operator *)
      pose proof (S3_in a b d Ht) as Hin.
      destruct (S3_facts a b d Hin) as (Ha & _).
      assert (IHn : forall T, tstr T = [a; b; d] -> tcomment T = false ->
                    filter nc (T :: combine (Some T) REST) = T :: merged3 (w1 :: ws'') r l1 (c1 + len [a; b; d])).
      { intros T HT HcT. cbn [filter]. unfold nc at 1. rewrite HcT. cbn [negb]. f_equal. apply IH'.
        cbn [prev_num is_num_tok]. unfold tok_is_number. rewrite HcT, HT. cbn [negb andb].
        unfold is_number. destruct (op_facts a Ha) as (Hn & _). clear - Hn. revert Hn. unf. lia. }
      cbn [S3 In] in Hin. destruct Hin as [Hin|[Hin|[Hin|[]]]]; injection Hin as <- <- <-.
      * cbn [is_shassign N.eqb Pos.eqb negb orb] in Hsha.
        assert (HX : match REST with e :: _ => op_of e <> 61 | [] => False end).
        { destruct r as [|b2 r']; [discriminate|]. destruct REST as [|nx rest'] eqn:ER.
          - unfold REST in ER. cbn [p3] in ER. destruct (adjust (sep_str w1) l1 (c1 + len [60; 60; 61])).
            destruct b2; cbn [toks_of] in ER; destruct (ctoks w1 l1 (c1 + len [60; 60; 61])); discriminate.
          - destruct Hnext as [Hn'|(b3 & r3 & Er & Hop & _)]; [rewrite (op_of_comment nx Hn'); discriminate|].
            injection Er as <- <-. rewrite Hop. clear - Hsha. lia. }
        cbn [combine]. replace (c1 + 1 + 1) with (c1 + 2) by (clear; lia).
        rewrite (decide_shassign _ 60 l1 c1 REST (or_introl eq_refl) HX).
        cbn [setstr tline tcol tcomment]. apply IHn; reflexivity.
      * cbn [is_shassign N.eqb Pos.eqb negb orb] in Hsha.
        assert (HX : match REST with e :: _ => op_of e <> 61 | [] => False end).
        { destruct r as [|b2 r']; [discriminate|]. destruct REST as [|nx rest'] eqn:ER.
          - unfold REST in ER. cbn [p3] in ER. destruct (adjust (sep_str w1) l1 (c1 + len [62; 62; 61])).
            destruct b2; cbn [toks_of] in ER; destruct (ctoks w1 l1 (c1 + len [62; 62; 61])); discriminate.
          - destruct Hnext as [Hn'|(b3 & r3 & Er & Hop & _)]; [rewrite (op_of_comment nx Hn'); discriminate|].
            injection Er as <- <-. rewrite Hop. clear - Hsha. lia. }
        cbn [combine]. replace (c1 + 1 + 1) with (c1 + 2) by (clear; lia).
        rewrite (decide_shassign _ 62 l1 c1 REST (or_intror eq_refl) HX).
        cbn [setstr tline tcol tcomment]. apply IHn; reflexivity.
      * cbn [is_ellipsis N.eqb Pos.eqb negb orb] in Hell. apply negb_true_iff in Hell.
        cbn [combine]. replace (c1 + 1 + 1) with (c1 + 2) by (clear; lia). unfold prev_num in Hell. rewrite Hell. rewrite decide_ellipsis.
        cbn [setstr tline tcol tcomment]. apply IHn; reflexivity.
Qed.

Lemma ctoks_lines w : forall l c, 0 < l -> existsb is_marker (ctoks w l c) = false.
Proof.
  induction w as [|i w IH]; intros l c Hl; cbn [ctoks]; [reflexivity|].
  rewrite existsb_app. apply orb_false_iff. split.
  - destruct i; cbn [ctok existsb]; rewrite ?marker_line by (cbn [tline]; lia); reflexivity.
  - destruct (adjust_spec (sitem_str i) l c) as [Hge _]. destruct (adjust (sitem_str i) l c). cbn [fst] in Hge. apply IH. lia.
Qed.

Lemma p3_lines toks : forall ws line col, 0 < line -> existsb is_marker (p3 ws toks line col) = false.
Proof.
  induction toks as [|t r IH]; intros ws line col Hl; destruct ws as [|w ws']; try reflexivity; cbn [p3].
  - apply ctoks_lines. exact Hl.
  - destruct (adjust_spec (sep_str w) line col) as [Hge _]. destruct (adjust (sep_str w) line col) as [l1 c1]. cbn [fst] in Hge.
    rewrite !existsb_app. rewrite (ctoks_lines w line col Hl). cbn [orb].
    apply orb_false_iff. split; [|apply IH; lia].
    destruct t as [n|c|a b|a b d]; cbn [toks_of existsb]; rewrite ?marker_line by (cbn [tline]; lia); reflexivity.
Qed.

Theorem lex_render_comments toks ws :
  length ws = S (length toks) ->
  Forall (fun w => forallb sitem_ok w = true) ws ->
  forallb stok2_ok toks = true ->
  sep3_ok ws toks = true ->
  no_exp toks = true ->
  ctx_ok false toks = true ->
  filter nc (lex (render3 ws toks)) = merged3 ws toks 1 1.
Proof.
  intros H1 H2 H3 H4 H5 H6. unfold lex, lex1.
  rewrite norm_cr_id by (apply render3_no_cr; assumption).
  rewrite (lex1_render3_gen toks ws 1 1 H1 H2 H3 H4).
  rewrite p3_lines by lia.
  apply combine_p3; assumption.
Qed.

Lemma merged3_strs toks : forall ws line col, length ws = S (length toks) ->
  map tstr (merged3 ws toks line col) = map stok2_str toks.
Proof.
  induction toks as [|t r IH]; intros ws line col Hlen.
  - destruct ws; reflexivity.
  - destruct ws as [|w ws']; [discriminate|]. cbn [length] in Hlen. injection Hlen as Hlen.
    cbn [merged3]. destruct (adjust (sep_str w) line col) as [l1 c1]. cbn [map tstr]. f_equal. apply IH. exact Hlen.
Qed.

Lemma merged3_positions toks : forall ws line col, length ws = S (length toks) ->
  map (fun t => (tline t, tcol t)) (merged3 ws toks line col) = positions3 ws toks line col.
Proof.
  induction toks as [|t r IH]; intros ws line col Hlen.
  - destruct ws; reflexivity.
  - destruct ws as [|w ws']; [discriminate|]. cbn [length] in Hlen. injection Hlen as Hlen.
    cbn [merged3 positions3]. destruct (adjust (sep_str w) line col) as [l1 c1]. cbn [map tline tcol]. f_equal. apply IH. exact Hlen.
Qed.

(* a comment directly after the operator slash is not a separator: slash, then a block comment reads as a line comment *)
Lemma lex_comment_after_slash :
  exists toks ws, length ws = S (length toks) /\ forallb stok2_ok toks = true /\ sep3_ok ws toks = false /\
                  map tstr (filter nc (lex (render3 ws toks))) <> map stok2_str toks.
Proof.
  exists [TName [97]; TOp 47; TName [98]], [[]; []; [SBlock [120]]; []]. vm_compute. repeat split; congruence.
Qed.
