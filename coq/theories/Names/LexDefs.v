(* C05 -- model of the raw lexer externals/simplecpp/simplecpp.cpp TokenList::readfile (phase 1: characters ->
   tokens with line/column) and TokenList::combineOperators (phase 2) for the fragment: names / numbers,
   single-character punctuators, white space, LF / CR / CRLF, backslash-newline, slash-slash and slash-star star-slash comments,
   multi-character operators built from adjacent single-character tokens.
   Outside the fragment the model answers with the marker token UNSUPPORTED (never a normal-looking
   result): string / character literals, hash, digit separators, a backslash inside a comment, `&` directly
   followed by `=`, dot next to a number token, a number ending in e/E/p/P followed by + or -.
   No proofs here. *)
From Coq Require Import List NArith Bool.
From CV Require Import Base.Bytes.
Import ListNotations.
Local Open Scope N_scope.

Record tokp := mkTok { tstr : str; tline : N; tcol : N; tcomment : bool }.

Definition NL : N := 10.
Definition is_name_char (c : N) : bool := is_alnum c || (c =? 95) || (c =? 36).   (* isalnum, _, $ *)

(* Stream::readChar: CR and CRLF are delivered as LF (the code does exactly this since /repo 5b5c259: peek-based look-ahead);
   the block-comment newline erasure applies under multiline only, the directive-line case (9966aa3) needs a hash and is outside the fragment *)
Fixpoint norm_cr (s : str) : str :=
  match s with
  | [] => []
  | 13 :: ((10 :: r) as t) => 10 :: match t with _ :: r' => norm_cr r' | [] => [] end
  | 13 :: r => 10 :: norm_cr r
  | c :: r => c :: norm_cr r
  end.

Definition marker (k : N) : tokp := mkTok [33; k] 0 0 false.   (* dquote!Udquote unsupported, dquote!Cdquote cleared *)
Definition UNSUP := marker 85.
Definition CLEARED := marker 67.

(* Location::adjust for a token text in which CR no longer occurs *)
Fixpoint adjust (s : str) (line col : N) : N * N :=
  match s with
  | [] => (line, col)
  | c :: r => if c =? NL then adjust r (line + 1) 1 else adjust r line (col + 1)
  end.

Definition has_nl (s : str) : bool := existsb (fun c => c =? NL) s.
Definition count_nl (s : str) : N := N.of_nat (length (filter (fun c => c =? NL) s)).
Definition strip_nl (s : str) : str := filter (fun c => negb (c =? NL)) s.
Definition len (s : str) : N := N.of_nat (length s).

(* advance the location over a pushed token:  if (multiline) col += size; else adjust(token) *)
Definition advance (ml : N) (s : str) (line col : N) : N * N :=
  if ml =? 0 then (if has_nl s then adjust s line col else (line, col + len s)) else (line, col + len s).

Inductive mode :=
| MCode
| MName (acc : str) (l c : N)            (* inside a name/number that started at (l, c); acc reversed *)
| MBs (l c : N)                          (* the last token is the operator backslash at (l, c), nothing but blanks since *)
| MLineC (acc : str) (l c : N)           (* inside a slash-slash comment; acc reversed *)
| MBlockC (acc : str) (l c : N).         (* inside a slash-star comment; acc reversed *)

Definition ends_block (racc : str) : bool :=
  match racc with
  | 47 :: 42 :: _ :: _ :: _ => true      (* size >= 4 and ends with dquotestar-slashdquote *)
  | _ => false
  end.

(* One structural pass. `ml` = multiline counter. The pending backslash of MBs is dropped when a newline follows. *)
Fixpoint lx (m : mode) (s : str) (line col ml : N) : list tokp :=
  match m, s with
  (* ---- end of input *)
  | MCode, [] => []
  | MName acc l c, [] => [mkTok (rev acc) l c false]
  | MBs l c, [] => [mkTok [92] l c false]
  | MLineC acc l c, [] => [mkTok (rev acc) l c true]
  | MBlockC acc l c, [] => [mkTok (if ml =? 0 then rev acc else strip_nl (rev acc)) l c true]   (* unterminated: pushed; the multiline erasure still applies *)
  (* ---- inside a name / number *)
  | MName acc l c, ch :: r =>
      if is_name_char ch then lx (MName (ch :: acc) l c) r line col ml
      else if ch =? 39 then [UNSUP]                        (* digit separator or character literal *)
      else mkTok (rev acc) l c false ::
           (let col' := col + len acc in
            (* re-dispatch ch in code mode (duplicated below because the recursion is structural in s) *)
            if 128 <=? ch then [CLEARED]
            else if ch =? NL then
              (if ml =? 0 then lx MCode r (line + 1) 1 0 else lx MCode r (line + ml + 1) 1 0)
            else if ch <=? 32 then lx MCode r line (col' + 1) ml
            else if (ch =? 34) || (ch =? 35) then [UNSUP]
            else if ch =? 92 then lx (MBs line col') r line (col' + 1) ml
            else if ch =? 47 then
              match r with
              | 47 :: _ => lx (MLineC [47] line col') r line col' ml
              | 42 :: r2 => lx (MBlockC [42; 47] line col') r2 line col' ml
              | _ => mkTok [ch] line col' false :: lx MCode r line (col' + 1) ml
              end
            else mkTok [ch] line col' false :: lx MCode r line (col' + 1) ml)
  (* ---- pending backslash *)
  | MBs l c, ch :: r =>
      if ch =? NL then lx MCode r line col (ml + 1)        (* splice: token deleted, ++multiline, col kept *)
      else if ch <=? 32 then lx (MBs l c) r line (col + 1) ml
      else mkTok [92] l c false ::
           (if 128 <=? ch then [CLEARED]
            else if is_name_char ch then lx (MName [ch] line col) r line col ml
            else if (ch =? 34) || (ch =? 35) || (ch =? 39) then [UNSUP]
            else if ch =? 92 then lx (MBs line col) r line (col + 1) ml
            else if ch =? 47 then
              match r with
              | 47 :: _ => lx (MLineC [47] line col) r line col ml
              | 42 :: r2 => lx (MBlockC [42; 47] line col) r2 line col ml
              | _ => mkTok [ch] line col false :: lx MCode r line (col + 1) ml
              end
            else mkTok [ch] line col false :: lx MCode r line (col + 1) ml)
  (* ---- slash-slash comment: up to, not including, the newline *)
  | MLineC acc l c, ch :: r =>
      if ch =? NL then
        let t := rev acc in
        let '(line', col') := advance ml t line col in
        mkTok t l c true ::
          (if ml =? 0 then lx MCode r (line' + 1) 1 0 else lx MCode r (line' + ml + 1) 1 0)
      else if ch =? 92 then [UNSUP]
      else lx (MLineC (ch :: acc) l c) r line col ml
  (* ---- block comment *)
  | MBlockC acc l c, ch :: r =>
      if ch =? 92 then [UNSUP]
      else
        let acc' := ch :: acc in
        if ends_block acc' then
          let t := rev acc' in
          (* if (multiline) newlines are erased from the text and counted *)
          let t' := if ml =? 0 then t else strip_nl t in
          let ml' := if ml =? 0 then 0 else ml + count_nl t in
          let '(line', col') := advance ml' t' line col in
          mkTok t' l c true :: lx MCode r line' col' ml'
        else lx (MBlockC acc' l c) r line col ml
  (* ---- code *)
  | MCode, ch :: r =>
      if 128 <=? ch then [CLEARED]
      else if ch =? NL then
        (if ml =? 0 then lx MCode r (line + 1) 1 0 else lx MCode r (line + ml + 1) 1 0)
      else if ch <=? 32 then lx MCode r line (col + 1) ml
      else if is_name_char ch then lx (MName [ch] line col) r line col ml
      else if (ch =? 34) || (ch =? 35) || (ch =? 39) then [UNSUP]
      else if ch =? 92 then lx (MBs line col) r line (col + 1) ml
      else if ch =? 47 then
        match r with
        | 47 :: _ => lx (MLineC [47] line col) r line col ml
        | 42 :: r2 => lx (MBlockC [42; 47] line col) r2 line col ml
        | _ => mkTok [ch] line col false :: lx MCode r line (col + 1) ml
        end
      else mkTok [ch] line col false :: lx MCode r line (col + 1) ml
  end.

Definition is_marker (t : tokp) : bool := match tstr t with 33 :: _ => (tline t =? 0) | _ => false end.

Definition lex1 (s : str) : list tokp := lx MCode (norm_cr s) 1 1 0.

(* ------------------------------------------------------------------ phase 2: combineOperators *)
Definition is_number (s : str) : bool := match s with c :: _ => is_digit c | [] => false end.
Definition op_of (t : tokp) : N :=                       (* Token::op: the character of a one-character non-name token *)
  match tstr t with
  | [c] => if is_name_char c || tcomment t then 0 else c
  | _ => 0
  end.
Definition tok_is_number (t : tokp) : bool := negb (tcomment t) && is_number (tstr t).
Definition one_of (c : N) (l : list N) : bool := existsb (fun x => x =? c) l.
Definition adjacent (a b : tokp) : bool := (tline a =? tline b) && (tcol a + 1 =? tcol b).
Definition setstr (t : tokp) (s : str) : tokp := mkTok s (tline t) (tcol t) (tcomment t).
Definition last_char (s : str) : N := last s 0.

(* what combineOperators does at token t (r = the tokens after it); non-recursive *)
Inductive act := AUnsup | AKeep | AMerge2 (s : str) | AMerge3 (s : str) | AEllipsis.

Definition decide (prev_num : bool) (t : tokp) (r : list tokp) : act :=
  let o := op_of t in
  let next_num := match r with n :: _ => tok_is_number n | [] => false end in
  if (o =? 46) && (prev_num || next_num) then AUnsup                          (* float literal assembly *)
  else if tok_is_number t && one_of (last_char (tstr t)) [69; 101; 80; 112] &&
          match r with n :: _ => one_of (op_of n) [43; 45] | [] => false end then AUnsup
  else
  match r with
  | [] => AKeep
  | n :: r2 =>
      let o2 := op_of n in
      if (o =? 46) && (o2 =? 46) && (tcol n =? tcol t + 1) &&
         match r2 with n2 :: _ => (op_of n2 =? 46) && (tcol n2 =? tcol t + 2) | [] => false end
      then AEllipsis
      else if (o =? 0) || (o2 =? 0) || negb (adjacent t n) then AKeep
      else if (o2 =? 61) && one_of o [61; 33; 60; 62; 43; 45; 42; 47; 37; 38; 124; 94] then
        if o =? 38 then AUnsup                                                 (* and-assign: context heuristic *)
        else AMerge2 [o; 61]
      else if ((o =? 124) || (o =? 38)) && (o =? o2) then AMerge2 [o; o]
      else if (o =? 58) && (o2 =? 58) then AMerge2 [58; 58]
      else if (o =? 45) && (o2 =? 62) then AMerge2 [45; 62]
      else if ((o =? 60) || (o =? 62)) && (o =? o2) then
        (* shift, and if followed by a lone = (no adjacency test in the code) shift-assign *)
        match r2 with
        | e :: e2 :: _ => if (op_of e =? 61) && negb (op_of e2 =? 61) then AMerge3 [o; o; 61] else AMerge2 [o; o]
        | _ => AMerge2 [o; o]
        end
      else if ((o =? 43) || (o =? 45)) && (o =? o2) then
        if prev_num then AKeep
        else if match r2 with n2 :: _ => tok_is_number n2 | [] => false end then AKeep
        else AMerge2 [o; o]
      else AKeep
  end.

(* prev = the previous token of the (already processed) output *)
Fixpoint combine (prev : option tokp) (l : list tokp) : list tokp :=
  match l with
  | [] => []
  | t :: r =>
      let prev_num := match prev with Some p => tok_is_number p | None => false end in
      match decide prev_num t r with
      | AUnsup => [UNSUP]
      | AKeep => t :: combine (Some t) r
      | AMerge2 s => match r with
                     | _ :: r2 => let t' := setstr t s in t' :: combine (Some t') r2
                     | [] => []
                     end
      | AMerge3 s => match r with
                     | _ :: _ :: r3 => let t' := setstr t s in t' :: combine (Some t') r3
                     | _ => []
                     end
      | AEllipsis => match r with
                     | _ :: _ :: r3 => let t' := setstr t [46; 46; 46] in t' :: combine (Some t') r3
                     | _ => []
                     end
      end
  end.

Definition lex (s : str) : list tokp :=
  let l := lex1 s in
  if existsb is_marker l then filter is_marker l else combine None l.

(* ------------------------------------------------------------------ rendering (for the theorems) *)
(* a source token of the fragment: a name/number (non-empty word of name characters) or one punctuator *)
Inductive stok := SName (w : str) | SOp (c : N).

Definition stok_str (t : stok) : str := match t with SName w => w | SOp c => [c] end.

Definition is_blank (c : N) : bool := (c <=? 32) && negb (c =? 13).     (* what readfile skips; CR is LF *)

Definition op_ok (c : N) : bool :=
  (32 <? c) && (c <? 127) && negb (is_name_char c) &&
  negb (one_of c [34; 35; 39; 92]).                                     (* dquote #  \ are outside the fragment *)

Definition stok_ok (t : stok) : bool :=
  match t with
  | SName w => match w with [] => false | _ => forallb is_name_char w end
  | SOp c => op_ok c
  end.

(* a separator is needed where two adjacent tokens would otherwise fuse in phase 1 *)
Definition fuses (a b : stok) : bool :=
  match a, b with
  | SName _, SName _ => true
  | SOp 47, SOp 47 => true            (* slash-slash *)
  | SOp 47, SOp 42 => true            (* slash-star *)
  | _, _ => false
  end.

Fixpoint sep_ok (ws : list str) (toks : list stok) : bool :=
  match toks, ws with
  | a :: ((b :: _) as r), _ :: ((w :: _) as ws') =>
      (negb (fuses a b) || match w with [] => false | _ => true end) && sep_ok ws' r
  | _, _ => true
  end.

(* ws_0 tok_0 ws_1 tok_1 ... ws_{n-1} tok_{n-1} ws_n *)
Fixpoint render (ws : list str) (toks : list stok) : str :=
  match ws, toks with
  | w :: ws', t :: r => w ++ stok_str t ++ render ws' r
  | w :: _, [] => w
  | [], _ => []
  end.

(* the location map of the rewrite: where token i lands (no line splices: blanks only) *)
Fixpoint positions (ws : list str) (toks : list stok) (line col : N) : list (N * N) :=
  match ws, toks with
  | w :: ws', t :: r =>
      let '(l1, c1) := adjust w line col in
      (l1, c1) :: positions ws' r l1 (c1 + len (stok_str t))
  | _, _ => []
  end.

(* ------------------------------------------------------------------ stage 2: two-character operators *)
Inductive stok2 := TName (w : str) | TOp (c : N) | TOp2 (a b : N) | TOp3 (a b c : N).

(* the two-character operators of combineOperators:
   == != <= >= += -= *= /= %= |= ^=  || && :: ->  shifts  ++ --   (shift-assign, and-assign, ellipsis: not in this theorem) *)
Definition S2 : list (N * N) :=
  [(61, 61); (33, 61); (60, 61); (62, 61); (43, 61); (45, 61); (42, 61); (47, 61); (37, 61); (124, 61); (94, 61);
   (124, 124); (38, 38); (58, 58); (45, 62);
   (60, 60); (62, 62); (43, 43); (45, 45)].               (* shifts and ++ --: with the context conditions of ctx_ok *)
Definition op2_ok (a b : N) : bool := existsb (fun p => (fst p =? a) && (snd p =? b)) S2.

(* three-character operators: shift-assign (both) and the ellipsis *)
Definition S3 : list (N * N * N) := [(60, 60, 61); (62, 62, 61); (46, 46, 46)].
Definition op3_ok (a b c : N) : bool := existsb (fun p => (fst (fst p) =? a) && (snd (fst p) =? b) && (snd p =? c)) S3.

Definition stok2_str (t : stok2) : str :=
  match t with TName w => w | TOp c => [c] | TOp2 a b => [a; b] | TOp3 a b c => [a; b; c] end.
Definition stok2_ok (t : stok2) : bool :=
  match t with
  | TName w => match w with [] => false | _ => forallb is_name_char w end
  | TOp c => op_ok c && negb (c =? 46)
  | TOp2 a b => op2_ok a b
  | TOp3 a b c => op3_ok a b c
  end.

(* a separator is needed between two names and between two operators (they could combine) *)
Definition needs_sep2 (a b : stok2) : bool :=
  match a, b with
  | TName _, TName _ => true
  | TName _, _ => false
  | _, TName _ => false
  | _, _ => true
  end.

Fixpoint sep2_ok (ws : list str) (toks : list stok2) : bool :=
  match toks, ws with
  | a :: ((b :: _) as r), _ :: ((w :: _) as ws') =>
      (negb (needs_sep2 a b) || match w with [] => false | _ => true end) && sep2_ok ws' r
  | _, _ => true
  end.

(* 1e + 5 is assembled into one token whatever separates the parts: keep that out *)
Definition exp_end (w : str) : bool := is_number w && one_of (last_char w) [69; 101; 80; 112].
Definition starts_pm (t : stok2) : bool :=
  match t with TOp c => one_of c [43; 45] | TOp2 a _ => one_of a [43; 45] | TOp3 a _ _ => one_of a [43; 45] | TName _ => false end.
Fixpoint no_exp (toks : list stok2) : bool :=
  match toks with
  | TName w :: ((b :: _) as r) => negb (exp_end w && starts_pm b) && no_exp r
  | _ :: r => no_exp r
  | [] => true
  end.

Fixpoint render2 (ws : list str) (toks : list stok2) : str :=
  match ws, toks with
  | w :: ws', t :: r => w ++ stok2_str t ++ render2 ws' r
  | w :: _, [] => w
  | [], _ => []
  end.

Fixpoint positions2 (ws : list str) (toks : list stok2) (line col : N) : list (N * N) :=
  match ws, toks with
  | w :: ws', t :: r =>
      let '(l1, c1) := adjust w line col in
      (l1, c1) :: positions2 ws' r l1 (c1 + len (stok2_str t))
  | _, _ => []
  end.

(* context conditions of combineOperators for shifts and ++ --:
   a shift directly followed (whatever separates them) by a lone = is read as shift-assign;
   ++ / -- is not built next to a number token (1 ++ 2 stays + +) *)
Definition head_op (t : stok2) : N := match t with TName _ => 0 | TOp c => c | TOp2 a _ => a | TOp3 a _ _ => a end.
Definition is_num_tok (t : stok2) : bool := match t with TName w => is_number w | _ => false end.
Definition is_shift (t : stok2) : bool :=
  match t with TOp2 a b => ((a =? 60) && (b =? 60)) || ((a =? 62) && (b =? 62)) | _ => false end.
Definition is_incdec (t : stok2) : bool :=
  match t with TOp2 a b => ((a =? 43) && (b =? 43)) || ((a =? 45) && (b =? 45)) | _ => false end.
(* shift-assign is only built when a further token follows that is not a lone = ; the ellipsis not after a number *)
Definition is_shassign (t : stok2) : bool := match t with TOp3 _ _ c => c =? 61 | _ => false end.
Definition is_ellipsis (t : stok2) : bool := match t with TOp3 _ _ c => c =? 46 | _ => false end.
Fixpoint ctx_ok (prevnum : bool) (toks : list stok2) : bool :=
  match toks with
  | [] => true
  | t :: r =>
      (negb (is_shift t) || match r with b :: _ => negb (head_op b =? 61) | [] => true end) &&
      ((negb (is_incdec t) || (negb prevnum && match r with b :: _ => negb (is_num_tok b) | [] => true end)) &&
       (negb (is_shassign t) || match r with b :: _ => negb (head_op b =? 61) | [] => false end) &&
       (negb (is_ellipsis t) || negb prevnum)) &&
      ctx_ok (is_num_tok t) r
  end.

(* ------------------------------------------------------------------ stage 3: comments inside separators *)
Inductive sitem := SBlank (c : N) | SBlock (body : str) | SLine (body : str).

Definition sitem_str (i : sitem) : str :=
  match i with
  | SBlank c => [c]
  | SBlock b => 47 :: 42 :: b ++ [42; 47]
  | SLine b => 47 :: 47 :: b ++ [10]
  end.

(* comment bodies of the theorem: no star, slash, backslash, CR inside a block comment; no LF, backslash, CR in a line comment *)
Definition sitem_ok (i : sitem) : bool :=
  match i with
  | SBlank c => is_blank c
  | SBlock b => forallb (fun c => negb (one_of c [42; 47; 92; 13])) b
  | SLine b => forallb (fun c => negb (one_of c [10; 92; 13])) b
  end.

Definition sep_str (s : list sitem) : str := flat_map sitem_str s.
Definition starts_comment (s : list sitem) : bool := match s with (SBlock _ | SLine _) :: _ => true | _ => false end.
Definition is_slash (t : stok2) : bool := match t with TOp c => c =? 47 | _ => false end.

(* separators: non-empty between two names and between two operators; a comment never directly after the operator slash *)
Fixpoint sep3_ok (ws : list (list sitem)) (toks : list stok2) : bool :=
  match toks, ws with
  | a :: r, _ :: ((w :: _) as ws') =>
      (negb (is_slash a) || negb (starts_comment w)) &&
      match r with
      | b :: _ => negb (needs_sep2 a b) || match w with [] => false | _ => true end
      | [] => true
      end && sep3_ok ws' r
  | _, _ => true
  end.

Fixpoint render3 (ws : list (list sitem)) (toks : list stok2) : str :=
  match ws, toks with
  | w :: ws', t :: r => sep_str w ++ stok2_str t ++ render3 ws' r
  | w :: _, [] => sep_str w
  | [], _ => []
  end.

Fixpoint positions3 (ws : list (list sitem)) (toks : list stok2) (line col : N) : list (N * N) :=
  match ws, toks with
  | w :: ws', t :: r =>
      let '(l1, c1) := adjust (sep_str w) line col in
      (l1, c1) :: positions3 ws' r l1 (c1 + len (stok2_str t))
  | _, _ => []
  end.

(* ------------------------------------------------------------------ line splices inside separators *)
Inductive bitem := BBlank (c : N) | BSplice (blanks : str).      (* backslash, blanks, newline *)
Definition bitem_str (i : bitem) : str := match i with BBlank c => [c] | BSplice b => 92 :: b ++ [10] end.
Definition bitem_ok (i : bitem) : bool :=
  match i with BBlank c => is_blank c | BSplice b => forallb (fun c => is_blank c && negb (c =? 10)) b end.
Definition bsep_str (w : list bitem) : str := flat_map bitem_str w.

(* readfile's location bookkeeping over a separator: (line, column, multiline).
   a splice keeps the line and the running column and counts in `multiline`; the next real newline adds multiline + 1 lines *)
Definition step_blank (c : N) (st : N * N * N) : N * N * N :=
  let '(l, col, ml) := st in
  if c =? 10 then (if ml =? 0 then (l + 1, 1, 0) else (l + ml + 1, 1, 0)) else (l, col + 1, ml).
Definition step_item (i : bitem) (st : N * N * N) : N * N * N :=
  match i with
  | BBlank c => step_blank c st
  | BSplice b => let '(l, col, ml) := st in (l, col + 1 + len b, ml + 1)
  end.
Definition adjust_items (w : list bitem) (st : N * N * N) : N * N * N := fold_left (fun s i => step_item i s) w st.

Fixpoint sepb_ok (ws : list (list bitem)) (toks : list stok) : bool :=
  match toks, ws with
  | a :: ((b :: _) as r), _ :: ((w :: _) as ws') =>
      (negb (fuses a b) || match w with [] => false | _ => true end) && sepb_ok ws' r
  | _, _ => true
  end.

Fixpoint renderb (ws : list (list bitem)) (toks : list stok) : str :=
  match ws, toks with
  | w :: ws', t :: r => bsep_str w ++ stok_str t ++ renderb ws' r
  | w :: _, [] => bsep_str w
  | [], _ => []
  end.

(* where token i lands, and on which `line` the implementation reports it *)
Fixpoint positionsb (ws : list (list bitem)) (toks : list stok) (st : N * N * N) : list (N * N) :=
  match ws, toks with
  | w :: ws', t :: r =>
      let '(l1, c1, m1) := adjust_items w st in
      (l1, c1) :: positionsb ws' r (l1, c1 + len (stok_str t), m1)
  | _, _ => []
  end.
