(* C05 stage 2 -- the full raw lexer (readfile + combineOperators) recovers token lists that also contain the
   two-character operators of S2 (maximal munch: rendered as two adjacent characters, read back as one token),
   from every blank-separated rendering in which two names and two operators are kept apart. *)
From Coq Require Import List NArith Bool Lia ZifyBool.
From CV Require Import Base.Bytes Names.LexDefs Names.LexProofs.
Import ListNotations.
Local Open Scope N_scope.

(* ------------------------------------------------------------------ phase 1 on the rendering *)
Definition toks_of (t : stok2) (l c : N) : list tokp :=
  match t with
  | TName w => [mkTok w l c false]
  | TOp x => [mkTok [x] l c false]
  | TOp2 a b => [mkTok [a] l c false; mkTok [b] l (c + 1) false]
  | TOp3 a b d => [mkTok [a] l c false; mkTok [b] l (c + 1) false; mkTok [d] l (c + 2) false]
  end.

Fixpoint p1 (ws : list str) (toks : list stok2) (line col : N) : list tokp :=
  match ws, toks with
  | w :: ws', t :: r =>
      let '(l1, c1) := adjust w line col in
      toks_of t l1 c1 ++ p1 ws' r l1 (c1 + len (stok2_str t))
  | _, _ => []
  end.

Fixpoint merged (ws : list str) (toks : list stok2) (line col : N) : list tokp :=
  match ws, toks with
  | w :: ws', t :: r =>
      let '(l1, c1) := adjust w line col in
      mkTok (stok2_str t) l1 c1 false :: merged ws' r l1 (c1 + len (stok2_str t))
  | _, _ => []
  end.

Lemma S2_in a b : op2_ok a b = true -> In (a, b) S2.
Proof.
  unfold op2_ok. intros H. apply existsb_exists in H. destruct H as ([x y] & Hin & H).
  cbn [fst snd] in H. apply andb_true_iff in H. destruct H as [H1 H2].
  apply N.eqb_eq in H1. apply N.eqb_eq in H2. subst. exact Hin.
Qed.

Lemma S2_facts a b : In (a, b) S2 -> op_ok a = true /\ op_ok b = true /\ b <> 47 /\ (a = 47 -> b = 61) /\ a <> 46.
Proof.
  intros H. cbn [S2 In] in H.
  repeat (destruct H as [H|H]; [injection H as <- <-; vm_compute; repeat split; congruence|]).
  contradiction.
Qed.

Lemma S3_in a b c : op3_ok a b c = true -> In (a, b, c) S3.
Proof.
  unfold op3_ok. intros H. apply existsb_exists in H. destruct H as ([[x y] z] & Hin & H).
  cbn [fst snd] in H. apply andb_true_iff in H. destruct H as [H H3]. apply andb_true_iff in H. destruct H as [H1 H2].
  apply N.eqb_eq in H1. apply N.eqb_eq in H2. apply N.eqb_eq in H3. subst. exact Hin.
Qed.

Lemma S3_facts a b c : In (a, b, c) S3 ->
  op_ok a = true /\ op_ok b = true /\ op_ok c = true /\ a <> 47 /\ b <> 47 /\ c <> 47.
Proof.
  intros H. cbn [S3 In] in H.
  repeat (destruct H as [H|H]; [injection H as <- <- <-; vm_compute; repeat split; congruence|]).
  contradiction.
Qed.

(* what may follow token a in the rendering *)
Definition follows2_ok (a : stok2) (s : str) : Prop :=
  match a with
  | TName _ => stops_name s
  | TOp c => c = 47 -> no_comment_start s
  | TOp2 _ _ | TOp3 _ _ _ => True
  end.

Lemma lx_tok2 t s line col : stok2_ok t = true -> follows2_ok t s ->
  lx MCode (stok2_str t ++ s) line col 0 = toks_of t line col ++ lx MCode s line (col + len (stok2_str t)) 0.
Proof.
  intros Ht Hf. destruct t as [w|c|a b|a b d]; cbn [stok2_str stok2_ok follows2_ok toks_of] in *.
  - destruct w as [|ch w]; [discriminate|].
    rewrite (lx_name (ch :: w)); [reflexivity | congruence | exact Ht | exact Hf].
  - apply andb_true_iff in Ht. destruct Ht as [Ht _]. cbn [app]. rewrite (lx_op c Ht s line col Hf). reflexivity.
  - destruct (S2_facts a b (S2_in a b Ht)) as (Ha & Hb & Hb47 & Ha47 & _).
    cbn [app]. rewrite (lx_op a Ha).
    + rewrite (lx_op b Hb); [|congruence]. cbn [app]. do 3 f_equal. unfold len. cbn [length]. lia.
    + intros E. rewrite (Ha47 E). exact I.
  - destruct (S3_facts a b d (S3_in a b d Ht)) as (Ha & Hb & Hd & Ha47 & Hb47 & Hd47).
    cbn [app]. rewrite (lx_op a Ha) by congruence. rewrite (lx_op b Hb) by congruence. rewrite (lx_op d Hd) by congruence.
    cbn [app]. unfold len. cbn [length].
    replace (col + 1 + 1) with (col + 2) by lia. replace (col + 2 + 1) with (col + N.of_nat 3) by lia. reflexivity.
Qed.

Lemma follows2_blank a c s : is_blank c = true -> follows2_ok a (c :: s).
Proof.
  intros Hb. destruct (blank_facts c Hb) as (Hn & H39 & H47 & H42 & _).
  destruct a as [w|o|x y|x y z]; cbn [follows2_ok stops_name]; auto.
  intros _. cbn [no_comment_start].
  destruct c as [|p]; [exact I|].
  do 6 (destruct p as [p|p|]; try exact I); congruence.
Qed.

Lemma first_char t : stok2_ok t = true ->
  exists ch r, stok2_str t = ch :: r /\
    match t with TName _ => is_name_char ch = true | _ => op_ok ch = true end.
Proof.
  destruct t as [w|c|a b|a b d]; cbn [stok2_ok stok2_str]; intros H.
  - destruct w as [|ch w]; [discriminate|]. cbn [forallb] in H. apply andb_true_iff in H.
    exists ch, w. tauto.
  - apply andb_true_iff in H. exists c, []. tauto.
  - destruct (S2_facts a b (S2_in a b H)) as (Ha & _). exists a, [b]. tauto.
  - destruct (S3_facts a b d (S3_in a b d H)) as (Ha & _). exists a, [b; d]. tauto.
Qed.

Lemma follows2_tok a b s : stok2_ok b = true -> needs_sep2 a b = false -> follows2_ok a (stok2_str b ++ s).
Proof.
  intros Hb Hf. destruct (first_char b Hb) as (ch & r & -> & Hch). cbn [app].
  destruct a as [w|o|x y|x y z]; cbn [follows2_ok]; auto.
  - destruct b; cbn [needs_sep2] in Hf; try discriminate;
      destruct (op_facts ch Hch) as (Hn & H39 & _); cbn [stops_name]; auto.
  - destruct b; cbn [needs_sep2] in Hf; try discriminate.
    intros _. destruct (name_facts ch Hch) as (H39 & H47 & H42 & _). cbn [no_comment_start].
    destruct ch as [|p]; [exact I|].
    do 6 (destruct p as [p|p|]; try exact I); congruence.
Qed.

Lemma lex1_render2_gen toks : forall ws line col,
  length ws = S (length toks) ->
  Forall (fun w => forallb is_blank w = true) ws ->
  forallb stok2_ok toks = true ->
  sep2_ok ws toks = true ->
  lx MCode (render2 ws toks) line col 0 = p1 ws toks line col.
Proof.
  induction toks as [|t r IH]; intros ws line col Hlen Hws Hok Hsep.
  - destruct ws as [|w [|? ?]]; try discriminate. cbn [render2 p1].
    inversion Hws; subst. rewrite <- (app_nil_r w). rewrite (lx_blanks w H1).
    destruct (adjust w line col). reflexivity.
  - destruct ws as [|w ws']; [discriminate|]. cbn [length] in Hlen. injection Hlen as Hlen.
    inversion Hws as [|? ? Hw Hws']; subst.
    cbn [forallb] in Hok. apply andb_true_iff in Hok. destruct Hok as [Ht Hr].
    cbn [render2 p1]. rewrite (lx_blanks w Hw).
    destruct (adjust w line col) as [l1 c1].
    assert (Hfol : follows2_ok t (render2 ws' r)).
    { destruct ws' as [|w1 ws'']; [discriminate|].
      destruct r as [|b r'].
      - cbn [render2]. destruct w1 as [|c w1]; [destruct t; cbn; auto|].
        inversion Hws'; subst. cbn [forallb] in H1. apply andb_true_iff in H1. destruct H1 as [Hc _].
        apply follows2_blank. exact Hc.
      - cbn [render2]. cbn [sep2_ok] in Hsep. apply andb_true_iff in Hsep. destruct Hsep as [Hs _].
        destruct w1 as [|c w1].
        + cbn [app]. apply orb_true_iff in Hs. destruct Hs as [Hs|Hs]; [|discriminate].
          apply negb_true_iff in Hs.
          cbn [forallb] in Hr. apply andb_true_iff in Hr. destruct Hr as [Hb _].
          apply follows2_tok; assumption.
        + inversion Hws'; subst. cbn [forallb] in H1. apply andb_true_iff in H1. destruct H1 as [Hc _].
          cbn [app]. apply follows2_blank. exact Hc. }
    rewrite (lx_tok2 t _ l1 c1 Ht Hfol). f_equal.
    apply IH; auto.
    destruct ws' as [|w1 ws'']; [discriminate|].
    destruct r as [|b r']; [destruct ws''; reflexivity|].
    cbn [sep2_ok] in Hsep. apply andb_true_iff in Hsep. tauto.
Qed.

Lemma render2_no_cr toks : forall ws,
  Forall (fun w => forallb is_blank w = true) ws -> forallb stok2_ok toks = true -> ~ In 13 (render2 ws toks).
Proof.
  assert (Hbl : forall w, forallb is_blank w = true -> ~ In 13 w).
  { induction w as [|c w IH]; cbn [forallb In]; [tauto|].
    intros H. apply andb_true_iff in H. destruct H as [Hc Hw].
    destruct (blank_facts c Hc) as (_ & _ & _ & _ & H13 & _). intros [E|E]; [congruence | exact (IH Hw E)]. }
  induction toks as [|t r IH]; intros ws Hws Hok.
  - destruct ws as [|w ws']; cbn [render2]; [tauto|]. inversion Hws; subst. auto.
  - destruct ws as [|w ws']; cbn [render2]; [tauto|]. inversion Hws as [|? ? Hw Hws']; subst.
    cbn [forallb] in Hok. apply andb_true_iff in Hok. destruct Hok as [Ht Hr].
    rewrite !in_app_iff. intros [E|[E|E]].
    + exact (Hbl w Hw E).
    + destruct t as [n|c|a b|a b d]; cbn [stok2_str stok2_ok] in *.
      * destruct n as [|ch n]; [discriminate|].
        rewrite forallb_forall in Ht. specialize (Ht _ E).
        destruct (name_facts 13 Ht) as (_ & _ & _ & H & _). congruence.
      * apply andb_true_iff in Ht. destruct Ht as [Ht _].
        destruct E as [E|[]]. subst c. destruct (op_facts 13 Ht) as (_ & _ & H & _). congruence.
      * destruct (S2_facts a b (S2_in a b Ht)) as (Ha & Hb & _).
        destruct E as [E|[E|[]]]; subst.
        -- destruct (op_facts 13 Ha) as (_ & _ & H & _). congruence.
        -- destruct (op_facts 13 Hb) as (_ & _ & H & _). congruence.
      * destruct (S3_facts a b d (S3_in a b d Ht)) as (Ha & Hb & Hd & _).
        destruct E as [E|[E|[E|[]]]]; subst.
        -- destruct (op_facts 13 Ha) as (_ & _ & H & _). congruence.
        -- destruct (op_facts 13 Hb) as (_ & _ & H & _). congruence.
        -- destruct (op_facts 13 Hd) as (_ & _ & H & _). congruence.
    + exact (IH ws' Hws' Hr E).
Qed.

(* ------------------------------------------------------------------ positions *)
Lemma adjust_spec w : forall l c, l <= fst (adjust w l c) /\ (fst (adjust w l c) = l -> snd (adjust w l c) = c + len w).
Proof.
  induction w as [|ch w IH]; intros l c; cbn [adjust].
  - cbn [fst snd]. unfold len. cbn [length]. lia.
  - unfold len. cbn [length]. destruct (ch =? NL).
    + destruct (IH (l + 1) 1) as [H1 H2]. split; [lia|]. intros E. lia.
    + destruct (IH l (c + 1)) as [H1 H2]. split; [exact H1|]. intros E. rewrite (H2 E). unfold len. lia.
Qed.

Lemma marker_line t : tline t <> 0 -> is_marker t = false.
Proof.
  intros H. unfold is_marker. destruct (tstr t) as [|c r]; [reflexivity|].
  assert (E : (tline t =? 0) = false) by lia. rewrite E.
  destruct c as [|p]; [reflexivity|].
  do 6 (destruct p as [p|p|]; try reflexivity).
Qed.

Lemma p1_lines toks : forall ws line col, 0 < line -> existsb is_marker (p1 ws toks line col) = false.
Proof.
  induction toks as [|t r IH]; intros ws line col Hl; destruct ws as [|w ws']; try reflexivity.
  cbn [p1]. destruct (adjust_spec w line col) as [Hge _]. destruct (adjust w line col) as [l1 c1]. cbn [fst] in Hge.
  rewrite existsb_app. apply orb_false_iff. split; [|apply IH; lia].
  destruct t as [n|c|a b|a b d]; cbn [toks_of existsb]; rewrite ?marker_line by (cbn [tline]; lia); reflexivity.
Qed.

(* ------------------------------------------------------------------ phase 2 *)
Lemma op_of_name w l c : w <> [] -> forallb is_name_char w = true -> op_of (mkTok w l c false) = 0.
Proof.
  intros Hne H. destruct w as [|ch [|? ?]]; [congruence | | reflexivity].
  cbn [forallb] in H. apply andb_true_iff in H. destruct H as [H _].
  unfold op_of. cbn [tstr tcomment]. rewrite H. reflexivity.
Qed.

Lemma op_of_op x l c : op_ok x = true -> op_of (mkTok [x] l c false) = x.
Proof.
  intros H. destruct (op_facts x H) as (Hn & _). unfold op_of. cbn [tstr tcomment]. rewrite Hn. reflexivity.
Qed.

Lemma number_op x l c : op_ok x = true -> tok_is_number (mkTok [x] l c false) = false.
Proof.
  intros H. unfold tok_is_number, is_number. cbn [tstr tcomment negb andb].
  destruct (op_facts x H) as (Hn & _). revert Hn. unf. lia.
Qed.

Lemma number_op2 x y l c : op_ok x = true -> tok_is_number (mkTok [x; y] l c false) = false.
Proof.
  intros H. unfold tok_is_number, is_number. cbn [tstr tcomment negb andb].
  destruct (op_facts x H) as (Hn & _). revert Hn. unf. lia.
Qed.

(* a token that is a name, or whose successor is a name or is not adjacent, is kept *)
Lemma decide_keep pn t r :
  op_of t <> 46 ->
  (tok_is_number t && one_of (last_char (tstr t)) [69; 101; 80; 112] &&
     match r with n :: _ => one_of (op_of n) [43; 45] | [] => false end) = false ->
  match r with [] => True | n :: _ => ((op_of t =? 0) || (op_of n =? 0) || negb (adjacent t n)) = true end ->
  decide pn t r = AKeep.
Proof.
  intros H46 H2 H3. unfold decide.
  assert (E : (op_of t =? 46) = false) by lia. rewrite E. cbn [andb]. rewrite H2.
  destruct r as [|n r2]; [reflexivity|]. cbn [andb]. rewrite H3. reflexivity.
Qed.

Definition prev_num (prev : option tokp) : bool := match prev with Some p => tok_is_number p | None => false end.

Lemma decide_merge pn a b l c rest : In (a, b) S2 ->
  (is_shift (TOp2 a b) = true -> match rest with e :: _ => op_of e <> 61 | [] => True end) ->
  (is_incdec (TOp2 a b) = true -> pn = false /\ match rest with n2 :: _ => tok_is_number n2 = false | [] => True end) ->
  decide pn (mkTok [a] l c false) (mkTok [b] l (c + 1) false :: rest) = AMerge2 [a; b].
Proof.
  intros H Hsh Hid. cbn [S2 In] in H.
  do 15 (destruct H as [H|H];
          [injection H as <- <-; unfold decide, adjacent; cbn [tline tcol]; rewrite !N.eqb_refl; reflexivity|]).
  destruct H as [H|[H|[H|[H|[]]]]]; injection H as <- <-.
  - specialize (Hsh eq_refl). unfold decide, adjacent; cbn [tline tcol]; rewrite !N.eqb_refl. cbn.
    destruct rest as [|e [|e2 r]]; try reflexivity.
    assert (E : (op_of e =? 61) = false) by lia. rewrite E. reflexivity.
  - specialize (Hsh eq_refl). unfold decide, adjacent; cbn [tline tcol]; rewrite !N.eqb_refl. cbn.
    destruct rest as [|e [|e2 r]]; try reflexivity.
    assert (E : (op_of e =? 61) = false) by lia. rewrite E. reflexivity.
  - destruct (Hid eq_refl) as [-> Hn]. unfold decide, adjacent; cbn [tline tcol]; rewrite !N.eqb_refl. cbn.
    destruct rest as [|n2 r]; [reflexivity|]. rewrite Hn. reflexivity.
  - destruct (Hid eq_refl) as [-> Hn]. unfold decide, adjacent; cbn [tline tcol]; rewrite !N.eqb_refl. cbn.
    destruct rest as [|n2 r]; [reflexivity|]. rewrite Hn. reflexivity.
Qed.

Lemma number_op3 x y z l c : op_ok x = true -> tok_is_number (mkTok [x; y; z] l c false) = false.
Proof.
  intros H. unfold tok_is_number, is_number. cbn [tstr tcomment negb andb].
  destruct (op_facts x H) as (Hn & _). revert Hn. unf. lia.
Qed.

(* shift-assign: a further token must follow and must not be a lone = ; ellipsis: not after a number *)
Lemma decide_shassign pn a l c X : (a = 60 \/ a = 62) -> match X with e :: _ => op_of e <> 61 | [] => False end ->
  decide pn (mkTok [a] l c false) (mkTok [a] l (c + 1) false :: mkTok [61] l (c + 2) false :: X) = AMerge3 [a; a; 61].
Proof.
  intros Ha He. destruct X as [|e rest]; [contradiction|].
  destruct Ha as [->| ->]; unfold decide, adjacent; cbn [tline tcol]; rewrite !N.eqb_refl; cbn;
    (assert (E : (op_of e =? 61) = false) by lia); rewrite E; reflexivity.
Qed.

Lemma decide_ellipsis l c rest :
  decide false (mkTok [46] l c false) (mkTok [46] l (c + 1) false :: mkTok [46] l (c + 2) false :: rest) = AEllipsis.
Proof. unfold decide. cbn [tline tcol]. cbn. rewrite !N.eqb_refl. reflexivity. Qed.

Lemma not_adjacent T nx w l c : w <> [] -> tline T = l -> tcol T + 1 = c ->
  tline nx = fst (adjust w l c) -> tcol nx = snd (adjust w l c) -> adjacent T nx = false.
Proof.
  intros Hw HlT HcT Hl Hc. destruct (adjust_spec w l c) as [Hge Heq].
  assert (0 < len w) by (destruct w; [congruence | unfold len; cbn [length]; lia]).
  unfold adjacent. rewrite HlT, Hl, Hc.
  destruct (l =? fst (adjust w l c)) eqn:E1; [|reflexivity].
  apply N.eqb_eq in E1. symmetry in E1. specialize (Heq E1). cbn [andb]. lia.
Qed.

Lemma p1_head ws b r l c : stok2_ok b = true ->
  match p1 ws (b :: r) l c with
  | [] => ws = []
  | n :: _ => exists w ws', ws = w :: ws' /\ op_of n = head_op b /\ tline n = fst (adjust w l c) /\ tcol n = snd (adjust w l c) /\
                            tok_is_number n = is_num_tok b
  end.
Proof.
  intros Hb. destruct ws as [|w ws']; [reflexivity|]. cbn [p1].
  destruct (adjust w l c) as [l1 c1] eqn:E.
  destruct b as [n|x|x y|x y z]; cbn [toks_of app head_op stok2_ok] in *; exists w, ws'; rewrite ?E; cbn [fst snd tline tcol].
  - repeat split. apply op_of_name; [destruct n; [discriminate|congruence] | destruct n; [discriminate|exact Hb]].
  - apply andb_true_iff in Hb. destruct Hb as [Hb _]. repeat split; [apply op_of_op; exact Hb | apply number_op; exact Hb].
  - destruct (S2_facts x y (S2_in x y Hb)) as (Hx & _). repeat split; [apply op_of_op; exact Hx | apply number_op; exact Hx].
  - destruct (S3_facts x y z (S3_in x y z Hb)) as (Hx & _). repeat split; [apply op_of_op; exact Hx | apply number_op; exact Hx].
Qed.

Lemma combine_p1 toks : forall ws line col prev,
  length ws = S (length toks) ->
  Forall (fun w => forallb is_blank w = true) ws ->
  forallb stok2_ok toks = true ->
  sep2_ok ws toks = true ->
  no_exp toks = true ->
  ctx_ok (prev_num prev) toks = true ->
  combine prev (p1 ws toks line col) = merged ws toks line col.
Proof.
  induction toks as [|t r IH]; intros ws line col prev Hlen Hws Hok Hsep Hexp Hctx.
  - destruct ws as [|w ws']; reflexivity.
  - destruct ws as [|w ws']; [discriminate|]. cbn [length] in Hlen. injection Hlen as Hlen.
    inversion Hws as [|? ? Hw Hws']; subst.
    cbn [forallb] in Hok. apply andb_true_iff in Hok. destruct Hok as [Ht Hr].
    cbn [p1 merged]. destruct (adjust w line col) as [l1 c1].
    assert (Hsep' : sep2_ok ws' r = true).
    { destruct ws' as [|w1 ws'']; [discriminate|]. destruct r as [|b r']; [destruct ws''; reflexivity|].
      cbn [sep2_ok] in Hsep. apply andb_true_iff in Hsep. tauto. }
    assert (Hexp' : no_exp r = true).
    { destruct t; cbn [no_exp] in Hexp; auto. destruct r; [reflexivity|]. apply andb_true_iff in Hexp. tauto. }
    cbn [ctx_ok] in Hctx. apply andb_true_iff in Hctx. destruct Hctx as [Hctx Hctx'].
    apply andb_true_iff in Hctx. destruct Hctx as [Hshift Hctx3].
    apply andb_true_iff in Hctx3. destruct Hctx3 as [Hctx3 Hell].
    apply andb_true_iff in Hctx3. destruct Hctx3 as [Hincdec Hsha].
    pose proof (fun pv (E : prev_num pv = is_num_tok t) =>
                  IH ws' l1 (c1 + len (stok2_str t)) pv Hlen Hws' Hr Hsep' Hexp'
                     (eq_ind_r (fun b => ctx_ok b r = true) Hctx' E)) as IH'.
    destruct t as [n|x|a b|a b d]; cbn [toks_of app stok2_str].
    + (* name *)
      assert (Hne : n <> []) by (destruct n; [discriminate|congruence]).
      assert (Hnc : forallb is_name_char n = true) by (destruct n; [discriminate|exact Ht]).
      cbn [combine]. rewrite decide_keep.
      * rewrite IH'; reflexivity.
      * rewrite (op_of_name n l1 c1 Hne Hnc). discriminate.
      * destruct r as [|b r']; [destruct ws'; cbn [p1]; apply andb_false_r|].
        cbn [forallb] in Hr. apply andb_true_iff in Hr. destruct Hr as [Hb _].
        pose proof (p1_head ws' b r' l1 (c1 + len n) Hb) as Hh.
        destruct (p1 ws' (b :: r') l1 (c1 + len n)) as [|nx rest]; [apply andb_false_r|].
        destruct Hh as (w1 & ws'' & _ & Hop & _). rewrite Hop.
        cbn [no_exp] in Hexp. apply andb_true_iff in Hexp. destruct Hexp as [Hx _].
        apply negb_true_iff in Hx. unfold exp_end in Hx.
        unfold tok_is_number. cbn [tstr tcomment negb andb].
        destruct b as [m|y|y z|y z u]; cbn [head_op starts_pm] in *; [apply andb_false_r | exact Hx | exact Hx | exact Hx].
      * destruct (p1 ws' r l1 (c1 + len n)); [exact I|].
        rewrite (op_of_name n l1 c1 Hne Hnc). reflexivity.
    + (* one-character operator *)
      apply andb_true_iff in Ht. destruct Ht as [Hx H46]. apply negb_true_iff in H46.
      cbn [combine]. rewrite decide_keep.
      * rewrite IH'; [reflexivity | exact (number_op x l1 c1 Hx)].
      * rewrite (op_of_op x l1 c1 Hx). clear - H46. lia.
      * rewrite (number_op x l1 c1 Hx). reflexivity.
      * destruct r as [|b r']; [destruct ws'; exact I|].
        cbn [forallb] in Hr. apply andb_true_iff in Hr. destruct Hr as [Hb _].
        pose proof (p1_head ws' b r' l1 (c1 + len [x]) Hb) as Hh.
        destruct (p1 ws' (b :: r') l1 (c1 + len [x])) as [|nx rest]; [exact I|].
        destruct Hh as (w1 & ws'' & -> & Hop & Hl & Hc & _).
        destruct b as [m|y|y z|y z u]; cbn [head_op] in Hop.
        -- rewrite Hop, N.eqb_refl, orb_true_r. reflexivity.
        -- cbn [sep2_ok needs_sep2 negb orb] in Hsep. apply andb_true_iff in Hsep. destruct Hsep as [Hs _].
           rewrite (not_adjacent (mkTok [x] l1 c1 false) nx w1 l1 (c1 + len [x]));
             [rewrite orb_true_r; reflexivity | destruct w1; [discriminate|congruence] | reflexivity | reflexivity | exact Hl | exact Hc].
        -- cbn [sep2_ok needs_sep2 negb orb] in Hsep. apply andb_true_iff in Hsep. destruct Hsep as [Hs _].
           rewrite (not_adjacent (mkTok [x] l1 c1 false) nx w1 l1 (c1 + len [x]));
             [rewrite orb_true_r; reflexivity | destruct w1; [discriminate|congruence] | reflexivity | reflexivity | exact Hl | exact Hc].
        -- cbn [sep2_ok needs_sep2 negb orb] in Hsep. apply andb_true_iff in Hsep. destruct Hsep as [Hs _].
           rewrite (not_adjacent (mkTok [x] l1 c1 false) nx w1 l1 (c1 + len [x]));
             [rewrite orb_true_r; reflexivity | destruct w1; [discriminate|congruence] | reflexivity | reflexivity | exact Hl | exact Hc].
    + (* two-character operator: merged (the merged token is not looked at again) *)
      pose proof (S2_in a b Ht) as Hin.
      destruct (S2_facts a b Hin) as (Ha & Hb' & _).
      cbn [combine]. rewrite (decide_merge _ a b l1 c1 _ Hin).
      * cbn [setstr tline tcol tcomment]. rewrite IH'; [reflexivity|].
        exact (number_op2 a b l1 c1 Ha).
      * intros Hs. rewrite Hs in Hshift. cbn [negb orb] in Hshift.
        destruct r as [|b2 r']; [destruct ws'; exact I|].
        cbn [forallb] in Hr. apply andb_true_iff in Hr. destruct Hr as [Hb2 _].
        pose proof (p1_head ws' b2 r' l1 (c1 + len [a; b]) Hb2) as Hh.
        destruct (p1 ws' (b2 :: r') l1 (c1 + len [a; b])) as [|nx rest]; [exact I|].
        destruct Hh as (w1 & ws'' & _ & Hop & _). rewrite Hop. clear - Hshift. lia.
      * intros Hi. rewrite Hi in Hincdec. cbn [negb orb] in Hincdec.
        apply andb_true_iff in Hincdec. destruct Hincdec as [Hp Hnx]. apply negb_true_iff in Hp. split; [exact Hp|].
        destruct r as [|b2 r']; [destruct ws'; exact I|].
        cbn [forallb] in Hr. apply andb_true_iff in Hr. destruct Hr as [Hb2 _].
        pose proof (p1_head ws' b2 r' l1 (c1 + len [a; b]) Hb2) as Hh.
        destruct (p1 ws' (b2 :: r') l1 (c1 + len [a; b])) as [|nx rest]; [exact I|].
        destruct Hh as (w1 & ws'' & _ & _ & _ & _ & Hnum). rewrite Hnum. apply negb_true_iff. exact Hnx.
    + (* three-character operator *)
      pose proof (S3_in a b d Ht) as Hin.
      destruct (S3_facts a b d Hin) as (Ha & _).
      assert (IHn : forall T, tstr T = [a; b; d] -> tline T = l1 -> tcol T = c1 -> tcomment T = false ->
                    combine (Some T) (p1 ws' r l1 (c1 + len [a; b; d])) = merged ws' r l1 (c1 + len [a; b; d])).
      { intros T HT _ _ HcT. apply IH'. cbn [prev_num is_num_tok]. unfold tok_is_number. rewrite HcT, HT. cbn [negb andb].
        unfold is_number. destruct (op_facts a Ha) as (Hn & _). clear - Hn. revert Hn. unf. lia. }
      cbn [S3 In] in Hin. destruct Hin as [Hin|[Hin|[Hin|[]]]]; injection Hin as <- <- <-.
      * (* <<= *)
        cbn [is_shassign N.eqb Pos.eqb negb orb] in Hsha.
        destruct r as [|b2 r']; [discriminate|].
        cbn [forallb] in Hr. apply andb_true_iff in Hr. destruct Hr as [Hb2 _].
        pose proof (p1_head ws' b2 r' l1 (c1 + len [60; 60; 61]) Hb2) as Hh.
        set (PR := p1 ws' (b2 :: r') l1 (c1 + len [60; 60; 61])) in *.
        assert (HX : match PR with e :: _ => op_of e <> 61 | [] => False end).
        { destruct PR as [|nx rest]; [destruct ws'; [discriminate|congruence]|].
          destruct Hh as (w1 & ws'' & _ & Hop & _). rewrite Hop. clear - Hsha. lia. }
        cbn [combine]. replace (c1 + 1 + 1) with (c1 + 2) by (clear; lia).
        rewrite (decide_shassign _ 60 l1 c1 PR (or_introl eq_refl) HX).
        cbn [setstr tline tcol tcomment]. f_equal. apply IHn; reflexivity.
      * (* >>= *)
        cbn [is_shassign N.eqb Pos.eqb negb orb] in Hsha.
        destruct r as [|b2 r']; [discriminate|].
        cbn [forallb] in Hr. apply andb_true_iff in Hr. destruct Hr as [Hb2 _].
        pose proof (p1_head ws' b2 r' l1 (c1 + len [62; 62; 61]) Hb2) as Hh.
        set (PR := p1 ws' (b2 :: r') l1 (c1 + len [62; 62; 61])) in *.
        assert (HX : match PR with e :: _ => op_of e <> 61 | [] => False end).
        { destruct PR as [|nx rest]; [destruct ws'; [discriminate|congruence]|].
          destruct Hh as (w1 & ws'' & _ & Hop & _). rewrite Hop. clear - Hsha. lia. }
        cbn [combine]. replace (c1 + 1 + 1) with (c1 + 2) by (clear; lia).
        rewrite (decide_shassign _ 62 l1 c1 PR (or_intror eq_refl) HX).
        cbn [setstr tline tcol tcomment]. f_equal. apply IHn; reflexivity.
      * (* ... *)
        cbn [is_ellipsis N.eqb Pos.eqb negb orb] in Hell. apply negb_true_iff in Hell.
        cbn [combine]. replace (c1 + 1 + 1) with (c1 + 2) by (clear; lia). unfold prev_num in Hell. rewrite Hell. rewrite decide_ellipsis.
        cbn [setstr tline tcol tcomment]. f_equal. apply IHn; reflexivity.
Qed.

(* ------------------------------------------------------------------ the theorem *)
Theorem lex_render_munch toks ws :
  length ws = S (length toks) ->
  Forall (fun w => forallb is_blank w = true) ws ->
  forallb stok2_ok toks = true ->
  sep2_ok ws toks = true ->
  no_exp toks = true ->
  ctx_ok false toks = true ->
  lex (render2 ws toks) = merged ws toks 1 1.
Proof.
  intros H1 H2 H3 H4 H5 H6. unfold lex, lex1.
  rewrite norm_cr_id by (apply render2_no_cr; assumption).
  rewrite (lex1_render2_gen toks ws 1 1 H1 H2 H3 H4).
  rewrite p1_lines by lia.
  apply combine_p1; assumption.
Qed.

Lemma merged_strs toks : forall ws line col, length ws = S (length toks) ->
  map tstr (merged ws toks line col) = map stok2_str toks.
Proof.
  induction toks as [|t r IH]; intros ws line col Hlen.
  - destruct ws; reflexivity.
  - destruct ws as [|w ws']; [discriminate|]. cbn [length] in Hlen. injection Hlen as Hlen.
    cbn [merged]. destruct (adjust w line col) as [l1 c1]. cbn [map tstr]. f_equal. apply IH. exact Hlen.
Qed.

Lemma merged_positions toks : forall ws line col, length ws = S (length toks) ->
  map (fun t => (tline t, tcol t)) (merged ws toks line col) = positions2 ws toks line col.
Proof.
  induction toks as [|t r IH]; intros ws line col Hlen.
  - destruct ws; reflexivity.
  - destruct ws as [|w ws']; [discriminate|]. cbn [length] in Hlen. injection Hlen as Hlen.
    cbn [merged positions2]. destruct (adjust w line col) as [l1 c1]. cbn [map tline tcol]. f_equal. apply IH. exact Hlen.
Qed.

(* without the separator `<` `<=` reads as `<<` `=` *)
Lemma lex_munch_needs_sep :
  exists toks ws, length ws = S (length toks) /\ forallb stok2_ok toks = true /\ sep2_ok ws toks = false /\
                  map tstr (lex (render2 ws toks)) <> map stok2_str toks.
Proof.
  exists [TOp 60; TOp2 60 61], [[]; []; []]. vm_compute. repeat split; congruence.
Qed.
