(* C08 -- model of lib/symboldatabase.cpp Scope::findFunction + ValueType::matchParameter for the fragment:
   free functions of one scope, non-variadic, value parameters of builtin arithmetic type
   (short/int/long/long long, signed or unsigned; float/double/long double), default arguments, a call whose
   arguments are variables of those types. And the C++ rule (best viable function) as specification.
   No proofs here. *)
From Coq Require Import List NArith Bool PeanoNat.
Import ListNotations.

Inductive bty := TShort | TInt | TLong | TLLong | TFloat | TDouble | TLDouble.
Record aty := mkTy { base : bty; uns : bool }.          (* uns is meaningless for floating types (kept false) *)

(* ValueType::Type order: ... SHORT < WCHAR_T < INT < LONG < LONGLONG < UNKNOWN_INT < FLOAT < DOUBLE < LONGDOUBLE *)
Definition trank (b : bty) : nat :=
  match b with TShort => 2 | TInt => 4 | TLong => 5 | TLLong => 6 | TFloat => 8 | TDouble => 9 | TLDouble => 10 end.
Definition is_float (b : bty) : bool := match b with TFloat | TDouble | TLDouble => true | _ => false end.
Definition bty_eqb (a b : bty) : bool := Nat.eqb (trank a) (trank b).

Inductive mres := Same | FB1 | FB2.

(* ValueType::matchParameter(call, func) with pointer = 0 on both sides, no typeScope / container *)
Definition match_param (call func : aty) : mres :=
  if negb (bty_eqb (base call) (base func)) then
    if negb (is_float (base call)) && negb (is_float (base func)) then
      (if Nat.ltb (trank (base call)) (trank (base func)) then FB1 else FB2)
    else if is_float (base call) && is_float (base func) then FB1
    else FB2
  else if negb (is_float (base call)) && negb (Bool.eqb (uns call) (uns func)) then FB1
  else Same.

Record fsig := mkSig { params : list aty; ndefault : nat }.

(* args == argCount || (args < argCount && args >= minArgCount) *)
Definition arity_ok (f : fsig) (n : nat) : bool :=
  Nat.eqb n (length (params f)) || (Nat.ltb n (length (params f)) && Nat.leb (length (params f) - ndefault f) n).

(* (same, fallback1, fallback2) over the passed arguments *)
Fixpoint counts (ps args : list aty) : nat * nat * nat :=
  match ps, args with
  | p :: ps', a :: args' =>
      let '(s, f1, f2) := counts ps' args' in
      match match_param a p with Same => (S s, f1, f2) | FB1 => (s, S f1, f2) | FB2 => (s, f1, S f2) end
  | _, _ => (0, 0, 0)
  end.

Inductive cls := CExact | CFb1 (same : nat) | CFb2 (same : nat).
Definition classify (f : fsig) (args : list aty) : cls :=
  let '(s, f1, f2) := counts (params f) args in
  if Nat.eqb s (length args) then CExact
  else if Nat.eqb (s + f1) (length args) then CFb1 s
  else CFb2 s.                                      (* nothing is NOMATCH in this fragment *)

(* candidates in declaration order with their index *)
Fixpoint cands (fs : list fsig) (n : nat) (i : nat) : list (nat * fsig) :=
  match fs with
  | [] => []
  | f :: r => if arity_ok f n then (i, f) :: cands r n (S i) else cands r n (S i)
  end.

(* a fallback list: one entry -> it; several -> the one with strictly most exact arguments, if any *)
Fixpoint max_same (l : list (nat * nat)) : nat := match l with [] => 0 | (_, s) :: r => Nat.max s (max_same r) end.
Definition pick (l : list (nat * nat)) : option nat :=
  match l with
  | [] => None
  | [(i, _)] => Some i
  | _ => let m := max_same l in
         match filter (fun p => Nat.eqb (snd p) m) l with
         | [(i, _)] => Some i
         | _ => None
         end
  end.

Definition find_function (fs : list fsig) (args : list aty) : option nat :=
  let cs := cands fs (length args) 0 in
  match find (fun c => match classify (snd c) args with CExact => true | _ => false end) cs with
  | Some (i, _) => Some i                                                  (* `return func` at the first exact match *)
  | None =>
      let fb1 := flat_map (fun c => match classify (snd c) args with CFb1 s => [(fst c, s)] | _ => [] end) cs in
      let fb2 := flat_map (fun c => match classify (snd c) args with CFb2 s => [(fst c, s)] | _ => [] end) cs in
      match pick fb1 with
      | Some i => Some i
      | None => match pick fb2 with
                | Some i => Some i
                | None => match cs with [(i, _)] => Some i | _ => None end
                end
      end
  end.

(* ------------------------------------------------------------------ specification: C++ overload resolution *)
(* implicit conversion rank of one argument: 0 exact, 1 promotion, 2 conversion  [over.ics.scs] *)
Definition ty_eqb (a b : aty) : bool := bty_eqb (base a) (base b) && (is_float (base a) || Bool.eqb (uns a) (uns b)).
Definition conv_rank (call func : aty) : nat :=
  if ty_eqb call func then 0
  else if (bty_eqb (base call) TShort && bty_eqb (base func) TInt && negb (uns func))      (* integral promotion *)
          || (bty_eqb (base call) TFloat && bty_eqb (base func) TDouble) then 1            (* floating promotion *)
  else 2.

Fixpoint ranks (ps args : list aty) : list nat :=
  match ps, args with p :: ps', a :: args' => conv_rank a p :: ranks ps' args' | _, _ => [] end.

Fixpoint all_le (a b : list nat) : bool :=
  match a, b with x :: a', y :: b' => Nat.leb x y && all_le a' b' | _, _ => true end.
Fixpoint some_lt (a b : list nat) : bool :=
  match a, b with x :: a', y :: b' => Nat.ltb x y || some_lt a' b' | _, _ => false end.
Definition better (f g : fsig) (args : list aty) : bool :=
  let rf := ranks (params f) args in let rg := ranks (params g) args in all_le rf rg && some_lt rf rg.

(* i is THE best viable function: viable, and better than every other viable one *)
Definition is_best (fs : list fsig) (args : list aty) (i : nat) : bool :=
  let cs := cands fs (length args) 0 in
  existsb (fun c => Nat.eqb (fst c) i) cs &&
  forallb (fun c => Nat.eqb (fst c) i ||
                    match nth_error fs i with Some f => better f (snd c) args | None => false end) cs.

Definition best_viable (fs : list fsig) (args : list aty) : option nat :=
  find (fun i => is_best fs args i) (seq 0 (length fs)).
