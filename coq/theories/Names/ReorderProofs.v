(* C05 -- inserting an independent top-level definition before a definition only renumbers that definition's own ids. *)
From Coq Require Import List NArith Bool Lia ZifyBool.
From CV Require Import Base.Bytes Names.Defs Names.VmProofs.
Import ListNotations.
Local Open Scope N_scope.

Section Shift.
  Variables n0 k : N.
  Notation sh := (shift n0 k).
  Definition shp (e : str * N) : str * N := (fst e, sh (snd e)).

  Lemma ffind_shift nm f : ffind nm (map shp f) = option_map sh (ffind nm f).
  Proof.
    induction f as [|[m i] f IH]; cbn [map ffind shp fst snd]; [reflexivity|].
    destruct (str_eqb nm m); [reflexivity | exact IH].
  Qed.

  Variable D2 : list str.

  Record Rel (t t' : sp) : Prop := mkRel {
    rel_next : snext t' = snext t + k;
    rel_ge : n0 <= snext t;
    rel_frames : sframes t' = map (map shp) (sframes t);
    rel_glob : forall nm, ~ In nm D2 -> ffind nm (sglobal t') = option_map sh (ffind nm (sglobal t))
  }.

  Lemma slookup_shift nm fs g g' :
    ffind nm g' = option_map sh (ffind nm g) ->
    slookup nm (map (map shp) fs) g' = option_map sh (slookup nm fs g).
  Proof.
    intros Hg. induction fs as [|f fs IH]; cbn [map slookup]; [exact Hg|].
    rewrite ffind_shift. destruct (ffind nm f); [reflexivity | exact IH].
  Qed.

  Lemma sh_oid o : oid (option_map sh o) = sh (oid o).
  Proof. destruct o; cbn; [reflexivity|]. unfold shift. destruct (0 <=? n0) eqn:E; [reflexivity | lia]. Qed.

  Lemma sh_new n : n0 <= n -> sh (n + 1) = n + k + 1.
  Proof. intros H. unfold shift. destruct (n + 1 <=? n0) eqn:E; lia. Qed.

  Definition avoids (o : op) : Prop := match op_name o with Some m => ~ In m D2 | None => True end.

  Lemma step_Rel t t' o : Rel t t' -> avoids o ->
    Rel (fst (sp_step t o)) (fst (sp_step t' o)) /\ snd (sp_step t' o) = shift_out n0 k o (snd (sp_step t o)).
  Proof.
    intros [Hn Hge Hf Hg] Ha. destruct t as [fs g n], t' as [fs' g' n']; cbn [snext sframes sglobal] in *. subst n' fs'.
    destruct o as [| |nm gf|nm gf ctx|nm gf|]; cbn [sp_step sframes sglobal snext shift_out avoids op_name] in *.
    - split; [constructor; cbn; auto | reflexivity].
    - destruct fs as [|f fs]; cbn [map fst snd]; (split; [constructor; cbn; auto | reflexivity]).
    - destruct fs as [|f fs]; cbn [map fst snd].
      + split; [|rewrite sh_new by exact Hge; reflexivity].
        constructor; cbn [snext sframes sglobal]; [lia | lia | reflexivity |].
        intros m Hm. cbn [ffind]. destruct (str_eqb m nm); [cbn; rewrite sh_new by exact Hge; reflexivity | exact (Hg m Hm)].
      + split; [|rewrite sh_new by exact Hge; reflexivity].
        constructor; cbn [snext sframes sglobal]; [lia | lia | | exact Hg].
        cbn [map]. change (shp (nm, n + 1)) with (nm, sh (n + 1)). rewrite sh_new by exact Hge. reflexivity.
    - cbn [fst snd]. split; [constructor; cbn; auto|].
      destruct gf.
      + rewrite (Hg nm Ha). apply sh_oid.
      + rewrite (slookup_shift nm fs g g' (Hg nm Ha)). apply sh_oid.
    - cbn [fst snd]. split; [constructor; cbn; auto|].
      destruct gf.
      + rewrite (Hg nm Ha). apply sh_oid.
      + rewrite (slookup_shift nm fs g g' (Hg nm Ha)). apply sh_oid.
    - cbn [fst snd]. split; [|rewrite sh_new by exact Hge; reflexivity].
      constructor; cbn [snext sframes sglobal]; auto; lia.
  Qed.

  Lemma run_Rel d : forall t t', Rel t t' -> Forall avoids d ->
    snd (sp_run t' d) = shift_outs n0 k d (snd (sp_run t d)).
  Proof.
    induction d as [|o r IH]; intros t t' HR Ha; cbn [sp_run shift_outs]; [reflexivity|].
    inversion Ha as [|? ? Ho Hr]; subst.
    destruct (step_Rel t t' o HR Ho) as [HR' Hout].
    destruct (sp_step t o) as [t1 a], (sp_step t' o) as [t1' a']. cbn [fst snd] in *.
    specialize (IH t1 t1' HR' Hr).
    destruct (sp_run t1 r) as [t2 l], (sp_run t1' r) as [t2' l']. cbn [snd shift_outs] in *. subst. reflexivity.
  Qed.
End Shift.

(* ------------------------------------------------------------------ a balanced block run from depth 0 *)
Lemma bal_run ops : forall d fs g n, length fs = d -> bal d ops = true ->
  let t := fst (sp_run (mkSp fs g n) ops) in
  sframes t = [] /\ snext t = n + count_new ops /\
  (forall nm, ~ In nm (top_adds d ops) -> ffind nm (sglobal t) = ffind nm g).
Proof.
  induction ops as [|o r IH]; intros d fs g n Hl Hb; cbn [bal sp_run top_adds count_new] in *.
  - apply Nat.eqb_eq in Hb. subst d. destruct fs; [|discriminate]. cbn. repeat split; auto; lia.
  - destruct o as [| |nm gf|nm gf ctx|nm gf|]; cbn [sp_step sframes sglobal snext].
    + specialize (IH (S d) ([] :: fs) g n). cbn [length] in IH.
      destruct (sp_run _ r) as [t2 l]. cbn [fst] in *. apply IH; [congruence | exact Hb].
    + destruct d as [|d']; [discriminate|]. destruct fs as [|f fs']; [discriminate|]. cbn [length] in Hl.
      specialize (IH d' fs' g n). destruct (sp_run _ r) as [t2 l]. cbn [fst pred] in *. apply IH; [congruence | exact Hb].
    + destruct fs as [|f fs'].
      * cbn [length] in Hl. subst d.
        specialize (IH 0%nat [] ((nm, n + 1) :: g) (n + 1) eq_refl Hb).
        destruct (sp_run _ r) as [t2 l]. cbn [fst] in *. destruct IH as (H1 & H2 & H3).
        repeat split; [exact H1 | lia |].
        intros m Hm. cbn [In] in Hm. rewrite H3 by tauto. cbn [ffind].
        destruct (str_eqb m nm) eqn:E; [|reflexivity]. apply str_eqb_eq in E. subst. tauto.
      * destruct d as [|d']; [discriminate|].
        specialize (IH (S d') (((nm, n + 1) :: f) :: fs') g (n + 1) Hl Hb).
        destruct (sp_run _ r) as [t2 l]. cbn [fst] in *. destruct IH as (H1 & H2 & H3). repeat split; auto; lia.
    + specialize (IH d fs g n Hl Hb). destruct (sp_run _ r) as [t2 l]. cbn [fst] in *. exact IH.
    + specialize (IH d fs g n Hl Hb). destruct (sp_run _ r) as [t2 l]. cbn [fst] in *. exact IH.
    + specialize (IH d fs g (n + 1) Hl Hb). destruct (sp_run _ r) as [t2 l]. cbn [fst] in *.
      destruct IH as (H1 & H2 & H3). repeat split; auto; lia.
Qed.

(* ids in the global frame never exceed the counter *)
Definition gle (t : sp) : Prop := forall nm i, ffind nm (sglobal t) = Some i -> i <= snext t.

Lemma step_gle t o : gle t -> gle (fst (sp_step t o)).
Proof.
  intros H. destruct t as [fs g n]. unfold gle in *. cbn [sglobal snext] in *.
  destruct o as [| |nm gf|nm gf ctx|nm gf|]; cbn [sp_step sframes sglobal snext fst]; auto.
  - destruct fs; cbn; auto.
  - destruct fs as [|f fs]; cbn [fst sglobal snext].
    + intros m i. cbn [ffind]. destruct (str_eqb m nm); [intros E; injection E as <-; lia|].
      intros E. specialize (H _ _ E). lia.
    + intros m i E. specialize (H _ _ E). lia.
  - intros m i E. specialize (H _ _ E). cbn. lia.
Qed.

Lemma run_gle ops : forall t, gle t -> gle (fst (sp_run t ops)).
Proof.
  induction ops as [|o r IH]; intros t H; cbn [sp_run]; [exact H|].
  pose proof (step_gle t o H) as H1. destruct (sp_step t o) as [t1 a]. cbn [fst] in *.
  specialize (IH t1 H1). destruct (sp_run t1 r) as [t2 l]. exact IH.
Qed.

(* outputs of simple ops: the machine answers exactly what the specification answers *)
Lemma outs_simple d : forall a b, forallb simple_op d = true -> outs_ok out_ok d a b -> a = b.
Proof.
  induction d as [|o r IH]; intros [|x a] [|y b] Hs H; cbn [outs_ok] in H; try contradiction; [reflexivity|].
  cbn [forallb] in Hs. apply andb_true_iff in Hs. destruct Hs as [Ho Hr]. destruct H as [H1 H2].
  f_equal; [|exact (IH _ _ Hr H2)].
  destruct o as [| |nm gf|nm gf ctx|nm gf|]; cbn [out_ok simple_op] in *; auto.
  - destruct gf, ctx; cbn in Ho; try discriminate. exact H1.
  - destruct gf; cbn in Ho; try discriminate. exact H1.
Qed.

Lemma avoids_of_indep ins d : indep ins d = true -> Forall (avoids (top_adds 0 ins)) d.
Proof.
  unfold indep. intros H. rewrite forallb_forall in H. apply Forall_forall. intros o Ho.
  unfold avoids. destruct (op_name o) as [m|] eqn:E; [|exact I].
  intros Hin. specialize (H _ Hin). apply negb_true_iff in H.
  unfold mentions in H. assert (existsb (fun o0 => match op_name o0 with Some m0 => str_eqb m0 m | None => false end) d = true).
  { apply existsb_exists. exists o. split; [exact Ho|]. rewrite E. apply str_eqb_refl. }
  congruence.
Qed.

Theorem reorder_invariant pre ins d :
  bal 0 pre = true -> bal 0 ins = true -> indep ins d = true -> forallb simple_op d = true ->
  let s1 := fst (vm_run vm0 pre) in
  let s2 := fst (vm_run vm0 (pre ++ ins)) in
  snd (vm_run s2 d) = shift_outs (next s1) (count_new ins) d (snd (vm_run s1 d)).
Proof.
  intros Hpre Hins Hind Hsimple s1 s2.
  pose proof (run_R pre vm0 sp0 R0) as [HR1 _].
  pose proof (run_R (pre ++ ins) vm0 sp0 R0) as [HR2 _].
  fold s1 in HR1. fold s2 in HR2.
  set (t1 := fst (sp_run sp0 pre)) in *. set (t2 := fst (sp_run sp0 (pre ++ ins))) in *.
  pose proof (run_R d s1 t1 HR1) as [_ Ho1]. pose proof (run_R d s2 t2 HR2) as [_ Ho2].
  rewrite (outs_simple d _ _ Hsimple Ho1), (outs_simple d _ _ Hsimple Ho2).
  rewrite (R_next _ _ HR1).
  (* the specification state after pre, and after pre ++ ins *)
  destruct (bal_run pre 0%nat [] [] 0 eq_refl Hpre) as (Hf1 & Hn1 & _). fold sp0 in Hf1, Hn1. fold t1 in Hf1, Hn1.
  assert (Ht2 : t2 = fst (sp_run t1 ins)).
  { unfold t2, t1. rewrite sp_run_app. destruct (sp_run sp0 pre) as [a l1]. cbn [fst].
    destruct (sp_run a ins) as [b l2]. reflexivity. }
  assert (Hgle : gle t1) by (apply run_gle; intros nm i H; discriminate).
  destruct t1 as [fs1 g1 n1] eqn:Et1. cbn [sframes snext] in Hf1, Hn1. subst fs1.
  destruct (bal_run ins 0%nat [] g1 n1 eq_refl Hins) as (Hf2 & Hn2 & Hg2). rewrite <- Ht2 in Hf2, Hn2, Hg2.
  apply (run_Rel n1 (count_new ins) (top_adds 0 ins)); [|apply avoids_of_indep; exact Hind].
  constructor; cbn [snext sframes sglobal].
  - exact Hn2.
  - lia.
  - rewrite Hf2. reflexivity.
  - intros nm Hnm. rewrite (Hg2 nm Hnm).
    destruct (ffind nm g1) as [i|] eqn:E; [|reflexivity]. cbn [option_map]. f_equal.
    specialize (Hgle _ _ E). cbn [snext] in Hgle. unfold shift. destruct (i <=? n1) eqn:E2; [reflexivity | lia].
Qed.
