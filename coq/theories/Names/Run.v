(* Entry point for the extracted executable (C05 and C08): decodes cases, runs the model. *)
From Coq Require Import List NArith Bool.
From CV Require Import Base.Bytes Names.Defs Names.LexDefs Names.FindDefs.
Import ListNotations.
Local Open Scope N_scope.

(* one op per field: "E" | "L" | "N" | "A" g name | "U" g ctx name | "F" g name   (g, ctx: '0'/'1') *)
Definition bit (c : N) : bool := c =? 49.

Definition op_of (f : str) : option op :=
  match f with
  | [69] => Some Enter
  | [76] => Some Leave
  | [78] => Some Fresh
  | 65 :: g :: n => Some (Add n (bit g))
  | 85 :: g :: c :: n => Some (Use n (bit g) (bit c))
  | 70 :: g :: n => Some (Find n (bit g))
  | _ => None
  end.

Fixpoint ops_of (l : list str) : option (list op) :=
  match l with
  | [] => Some []
  | f :: r => match op_of f, ops_of r with
              | Some o, Some os => Some (o :: os)
              | _, _ => None
              end
  end.

(* lexer cases: one field = the source bytes; result: str line col comment(0/1) per token; "U" = outside the
   modelled fragment; a cleared token list prints as no field at all *)
Definition enc_tok (t : tokp) : list str :=
  [tstr t; dec_of_N (tline t); dec_of_N (tcol t); str_of_bool (tcomment t)].

Definition run_lex (phase1 : bool) (s : str) : list str :=
  let l := if phase1 then (let l1 := lex1 s in if existsb is_marker l1 then filter is_marker l1 else l1) else lex s in
  if existsb (fun t => str_eqb (tstr t) [33; 85]) l then [[85]]
  else if existsb is_marker l then []
  else flat_map enc_tok l.

(* overload cases: nf, then per function np nd t1..tnp, then the argument types; types are codes 0..10 =
   short ushort int uint long ulong llong ullong float double ldouble. result: model index | "-", C++ best index | "-" *)
Definition nat_of (s : str) : nat := match N_of_dec s with Some n => N.to_nat n | None => 0 end.
Definition ty_of (s : str) : aty :=
  nth (nat_of s) [mkTy TShort false; mkTy TShort true; mkTy TInt false; mkTy TInt true; mkTy TLong false; mkTy TLong true;
                  mkTy TLLong false; mkTy TLLong true; mkTy TFloat false; mkTy TDouble false] (mkTy TLDouble false).
Fixpoint take_sigs (n : nat) (l : list str) : list fsig * list str :=
  match n with
  | O => ([], l)
  | S n' => match l with
            | np :: nd :: r =>
                let k := nat_of np in
                let '(fs, r') := take_sigs n' (skipn k r) in
                (mkSig (map ty_of (firstn k r)) (nat_of nd) :: fs, r')
            | _ => ([], [])
            end
  end.
Definition show_opt (o : option nat) : str := match o with Some i => dec_of_N (N.of_nat i) | None => [45] end.
Definition run_ff (l : list str) : list str :=
  match l with
  | nf :: r => let '(fs, args) := take_sigs (nat_of nf) r in
               let a := map ty_of args in
               [show_opt (find_function fs a); show_opt (best_viable fs a)]
  | [] => [[63]]
  end.

Definition run (fields : list str) : list str :=
  match fields with
  | [102; 102] :: r => run_ff r                       (* ff *)
  | [[108; 101; 120]; s] => run_lex false s          (* lex *)
  | [[108; 101; 120]] => run_lex false []
  | [[108; 101; 120; 49]; s] => run_lex true s       (* lex1 *)
  | [[108; 101; 120; 49]] => run_lex true []
  | tag :: r =>
      match ops_of r with
      | None => [[33]]
      | Some ops =>
          if str_eqb tag [118; 109] (* vm *) then map dec_of_N (run_vm ops)
          else if str_eqb tag [115; 112] (* sp *) then map dec_of_N (run_sp ops)
          else if str_eqb tag [119; 102] (* wf *) then [str_of_bool (redecl_free ops); str_of_bool (glob_flag_ok ops)]
          else [[63]]
      end
  | [] => [[63]]
  end.
