(* C05 / C08 -- model of lib/tokenize.cpp `class VariableMap` (the name -> varid map with an undo
   log per scope that Tokenizer::setVarIdPass1 drives) and the lexical-scoping specification.
   No proofs here. *)
From Coq Require Import List NArith Bool.
From CV Require Import Base.Bytes.
Import ListNotations.
Local Open Scope N_scope.

(* struct VarInfo { nonneg int id{}; bool assigned{}; } *)
Record vinfo := mkInfo { vid : N; vassigned : bool }.

(* std::unordered_map<std::string, VarInfo>: association list with at most one entry per key *)
Definition amap := list (str * vinfo).

Fixpoint afind (k : str) (m : amap) : option vinfo :=
  match m with
  | [] => None
  | (k', v) :: r => if str_eqb k k' then Some v else afind k r
  end.

Fixpoint aerase (k : str) (m : amap) : amap :=
  match m with
  | [] => []
  | (k', v) :: r => if str_eqb k k' then aerase k r else (k', v) :: aerase k r
  end.

Definition aset (k : str) (v : vinfo) (m : amap) : amap := (k, v) :: aerase k m.

(* mVariableId, mVariableId_global, mScopeInfo (top of the stack first; each vector in insertion
   order), mVarId *)
Record vm := mkVm { cur : amap; glob : amap; log : list (list (str * vinfo)); next : N }.

Definition vm0 : vm := mkVm [] [] [] 0.

Inductive op :=
| Enter                                   (* enterScope() *)
| Leave                                   (* leaveScope() *)
| Add (n : str) (g : bool)                (* addVariable(n, globalNamespace) *)
| Use (n : str) (g ctx : bool)            (* the use site of setVarIdPass1: map(g).find(n), `assigned` rule;
                                             ctx = Match(prev,"%type% %name% (") && !prev->isKeyword() *)
| Find (n : str) (g : bool)               (* plain map(g).find(n) (class declarations, template arguments, decltype) *)
| Fresh.                                  (* ++getVarId() (setVarIdStructMembers) *)

(* one output per op: Enter -> 0; Leave -> 1/0 (returned bool); Add/Fresh -> the new id;
   Use/Find -> the id given to the token, 0 = none (cppcheck's own convention) *)

(* leaveScope(): for (it = top.crbegin(); it != top.crend(); ++it) if (it->id != 0) map[name] = *it; else map.erase(name);
   (reverse order since /repo f35544d) *)
Definition restore (m : amap) (e : str * vinfo) : amap :=
  if vid (snd e) =? 0 then aerase (fst e) m else aset (fst e) (snd e) m.

Definition vm_step (s : vm) (o : op) : vm * N :=
  match o with
  | Enter => (mkVm (cur s) (glob s) ([] :: log s) (next s), 0)
  | Leave =>
      match log s with
      | [] => (s, 0)
      | fr :: rest => (mkVm (fold_right (fun e m => restore m e) (cur s) fr) (glob s) rest (next s), 1)
      end
  | Add n g =>
      let id := next s + 1 in
      match log s with
      | [] =>
          (* mVariableId[varname].id = ++mVarId  (an existing entry keeps its `assigned` flag) *)
          let v := match afind n (cur s) with Some old => mkInfo id (vassigned old) | None => mkInfo id false end in
          (mkVm (aset n v (cur s)) (if g then aset n v (glob s) else glob s) [] id, id)
      | fr :: rest =>
          match afind n (cur s) with
          | None =>
              let v := mkInfo id false in
              (mkVm (aset n v (cur s)) (if g then aset n v (glob s) else glob s)
                    ((fr ++ [(n, mkInfo 0 false)]) :: rest) id, id)
          | Some old =>
              (mkVm (aset n (mkInfo id false) (cur s)) (glob s) ((fr ++ [(n, old)]) :: rest) id, id)
          end
      end
  | Use n g ctx =>
      let m := if g then glob s else cur s in
      match afind n m with
      | None => (s, 0)
      | Some v =>
          if vassigned v && ctx then (s, 0)
          else
            let m' := aset n (mkInfo (vid v) true) m in
            (if g then mkVm (cur s) m' (log s) (next s) else mkVm m' (glob s) (log s) (next s), vid v)
      end
  | Find n g =>
      match afind n (if g then glob s else cur s) with
      | None => (s, 0)
      | Some v => (s, vid v)
      end
  | Fresh => (mkVm (cur s) (glob s) (log s) (next s + 1), next s + 1)
  end.

Fixpoint vm_run (s : vm) (ops : list op) : vm * list N :=
  match ops with
  | [] => (s, [])
  | o :: r => let '(s1, a) := vm_step s o in let '(s2, l) := vm_run s1 r in (s2, a :: l)
  end.

Definition run_vm (ops : list op) : list N := snd (vm_run vm0 ops).

(* ------------------------------------------------------------------ specification *)
(* Lexical scoping: a stack of frames (innermost first) over a global frame; a name denotes the
   binding of the innermost frame that binds it; `::name` denotes the global frame's binding. *)
Definition frame := list (str * N).

Fixpoint ffind (k : str) (f : frame) : option N :=
  match f with
  | [] => None
  | (k', i) :: r => if str_eqb k k' then Some i else ffind k r
  end.

Fixpoint slookup (k : str) (frames : list frame) (global : frame) : option N :=
  match frames with
  | [] => ffind k global
  | f :: r => match ffind k f with Some i => Some i | None => slookup k r global end
  end.

Record sp := mkSp { sframes : list frame; sglobal : frame; snext : N }.
Definition sp0 : sp := mkSp [] [] 0.

Definition oid (o : option N) : N := match o with Some i => i | None => 0 end.

Definition sp_step (s : sp) (o : op) : sp * N :=
  match o with
  | Enter => (mkSp ([] :: sframes s) (sglobal s) (snext s), 0)
  | Leave => match sframes s with
             | [] => (s, 0)
             | _ :: r => (mkSp r (sglobal s) (snext s), 1)
             end
  | Add n _ =>
      let id := snext s + 1 in
      match sframes s with
      | [] => (mkSp [] ((n, id) :: sglobal s) id, id)
      | f :: r => (mkSp (((n, id) :: f) :: r) (sglobal s) id, id)
      end
  | Use n g _ | Find n g =>
      (s, oid (if g then ffind n (sglobal s) else slookup n (sframes s) (sglobal s)))
  | Fresh => (mkSp (sframes s) (sglobal s) (snext s + 1), snext s + 1)
  end.

Fixpoint sp_run (s : sp) (ops : list op) : sp * list N :=
  match ops with
  | [] => (s, [])
  | o :: r => let '(s1, a) := sp_step s o in let '(s2, l) := sp_run s1 r in (s2, a :: l)
  end.

Definition run_sp (ops : list op) : list N := snd (sp_run sp0 ops).

(* side conditions evaluated along the specification's own run *)
(* (1) no name is declared twice inside one open frame (needed by the refinement only before /repo f35544d; still measured) *)
Definition redecl_free_step (s : sp) (o : op) : bool :=
  match o, sframes s with
  | Add n _, f :: _ => match ffind n f with None => true | Some _ => false end
  | _, _ => true
  end.

(* (2) a declaration made while no frame is open is flagged globalNamespace *)
Definition glob_flag_step (s : sp) (o : op) : bool :=
  match o, sframes s with
  | Add _ g, [] => g
  | _, _ => true
  end.

Fixpoint all_steps (p : sp -> op -> bool) (s : sp) (ops : list op) : bool :=
  match ops with
  | [] => true
  | o :: r => p s o && all_steps p (fst (sp_step s o)) r
  end.

Definition redecl_free (ops : list op) : bool := all_steps redecl_free_step sp0 ops.
Definition glob_flag_ok (ops : list op) : bool := all_steps glob_flag_step sp0 ops.

(* which outputs the refinement relates, and how *)
Definition out_ok (o : op) (impl spec : N) : Prop :=
  match o with
  | Use _ false false | Find _ false => impl = spec
  | Use _ false true => impl = spec \/ impl = 0      (* the `assigned` heuristic may only drop a link *)
  | Use _ true _ | Find _ true => True                (* see C08_vm_global_lookup *)
  | _ => impl = spec
  end.

Definition out_ok_glob (o : op) (impl spec : N) : Prop :=
  match o with
  | Find _ true | Use _ true false => spec <> 0 -> impl = spec
  | Use _ true true => spec <> 0 -> impl = spec \/ impl = 0
  | _ => True
  end.

Fixpoint outs_ok (P : op -> N -> N -> Prop) (ops : list op) (a b : list N) : Prop :=
  match ops, a, b with
  | [], [], [] => True
  | o :: r, x :: a', y :: b' => P o x y /\ outs_ok P r a' b'
  | _, _, _ => False
  end.

(* renaming *)
Definition rename_op (rho : str -> str) (o : op) : op :=
  match o with
  | Add n g => Add (rho n) g
  | Use n g c => Use (rho n) g c
  | Find n g => Find (rho n) g
  | o => o
  end.

(* ids handed out by Add / Fresh, in order *)
Fixpoint new_ids (ops : list op) (outs : list N) : list N :=
  match ops, outs with
  | (Add _ _ | Fresh) :: r, x :: l => x :: new_ids r l
  | _ :: r, _ :: l => new_ids r l
  | _, _ => []
  end.

(* a balanced block body: every Leave closes an Enter of the body itself *)
Fixpoint bal (d : nat) (ops : list op) : bool :=
  match ops with
  | [] => Nat.eqb d 0
  | Enter :: r => bal (S d) r
  | Leave :: r => match d with O => false | S d' => bal d' r end
  | _ :: r => bal d r
  end.

(* the name -> id binding the machine currently answers (0 = none) *)
Definition vm_view (s : vm) (k : str) : N := match afind k (cur s) with Some v => vid v | None => 0 end.

(* ------------------------------------------------------------------ reordering of independent top-level definitions *)
Definition simple_op (o : op) : bool :=
  match o with Use _ g c => negb g && negb c | Find _ g => negb g | _ => true end.

Fixpoint top_adds (d : nat) (ops : list op) : list str :=
  match ops with
  | [] => []
  | Enter :: r => top_adds (S d) r
  | Leave :: r => top_adds (pred d) r
  | Add n _ :: r => match d with O => n :: top_adds d r | _ => top_adds d r end
  | _ :: r => top_adds d r
  end.

Definition op_name (o : op) : option str :=
  match o with Add n _ | Use n _ _ | Find n _ => Some n | _ => None end.
Definition mentions (ops : list op) (name : str) : bool :=
  existsb (fun o => match op_name o with Some m => str_eqb m name | None => false end) ops.
(* no name that `ins` declares at top level is mentioned by `d` *)
Definition indep (ins d : list op) : bool := forallb (fun nm => negb (mentions d nm)) (top_adds 0 ins).

Fixpoint count_new (ops : list op) : N :=
  match ops with [] => 0 | (Add _ _ | Fresh) :: r => 1 + count_new r | _ :: r => count_new r end.

(* the bijection of ids: ids that existed before the two definitions stay, the definition's own ids move by k *)
Definition shift (n0 k i : N) : N := if i <=? n0 then i else i + k.
Definition shift_out (n0 k : N) (o : op) (out : N) : N :=
  match o with Enter | Leave => out | _ => shift n0 k out end.
Fixpoint shift_outs (n0 k : N) (ops : list op) (outs : list N) : list N :=
  match ops, outs with
  | o :: r, x :: l => shift_out n0 k o x :: shift_outs n0 k r l
  | _, _ => []
  end.
