(* C05 -- line splices: a backslash-newline (with blanks in between) inside a separator is a separator; the tokens come
   back, at the positions readfile's multiline bookkeeping gives them (phase 1, names / numbers / one-character punctuators). *)
From Coq Require Import List NArith Bool Lia ZifyBool.
From CV Require Import Base.Bytes Names.LexDefs Names.LexProofs.
Import ListNotations.
Local Open Scope N_scope.

Lemma lx_blank_ml c s l col ml : is_blank c = true ->
  lx MCode (c :: s) l col ml = (let '(l1, c1, m1) := step_blank c (l, col, ml) in lx MCode s l1 c1 m1).
Proof.
  intros Hc. destruct (blank_facts c Hc) as (_ & _ & _ & _ & _ & H128 & H32 & _).
  cbn [lx step_blank]. rewrite H128. unfold NL. destruct (c =? 10); [destruct (ml =? 0); reflexivity|].
  rewrite H32. reflexivity.
Qed.

Lemma lx_bs_blanks b : forallb (fun c => is_blank c && negb (c =? 10)) b = true -> forall l0 c0 s l col ml,
  lx (MBs l0 c0) (b ++ 10 :: s) l col ml = lx MCode s l (col + len b) (ml + 1).
Proof.
  induction b as [|ch b IH]; intros Hb l0 c0 s l col ml; cbn [app].
  - cbn [lx]. unfold NL. cbn [N.eqb Pos.eqb]. unfold len. cbn [length]. f_equal. lia.
  - cbn [forallb] in Hb. apply andb_true_iff in Hb. destruct Hb as [Hc Hb]. apply andb_true_iff in Hc. destruct Hc as [Hbl Hnl].
    destruct (blank_facts ch Hbl) as (_ & _ & _ & _ & _ & _ & H32 & _).
    cbn [lx]. unfold NL. apply negb_true_iff in Hnl. rewrite Hnl, H32. rewrite (IH Hb).
    unfold len. cbn [length]. f_equal. lia.
Qed.

Lemma lx_splice b s l col ml : forallb (fun c => is_blank c && negb (c =? 10)) b = true ->
  lx MCode (92 :: b ++ 10 :: s) l col ml = lx MCode s l (col + 1 + len b) (ml + 1).
Proof.
  intros Hb. change (lx MCode (92 :: b ++ 10 :: s) l col ml) with (lx (MBs l col) (b ++ 10 :: s) l (col + 1) ml).
  apply lx_bs_blanks. exact Hb.
Qed.

Lemma lx_item_b i s l col ml : bitem_ok i = true ->
  lx MCode (bitem_str i ++ s) l col ml = (let '(l1, c1, m1) := step_item i (l, col, ml) in lx MCode s l1 c1 m1).
Proof.
  intros Hi. destruct i as [c|b]; cbn [bitem_str bitem_ok step_item app] in *.
  - apply lx_blank_ml. exact Hi.
  - rewrite <- app_assoc. cbn [app]. apply lx_splice. exact Hi.
Qed.

Lemma lx_sep_b w : forallb bitem_ok w = true -> forall s l col ml,
  lx MCode (bsep_str w ++ s) l col ml = (let '(l1, c1, m1) := adjust_items w (l, col, ml) in lx MCode s l1 c1 m1).
Proof.
  induction w as [|i w IH]; intros Hw s l col ml; cbn [bsep_str flat_map adjust_items fold_left app]; [reflexivity|].
  cbn [forallb] in Hw. apply andb_true_iff in Hw. destruct Hw as [Hi Hw].
  rewrite <- app_assoc. rewrite (lx_item_b i _ l col ml Hi).
  destruct (step_item i (l, col, ml)) as [[l1 c1] m1]. fold (bsep_str w). rewrite (IH Hw). reflexivity.
Qed.

(* names and punctuators under any multiline counter *)
Lemma lx_name_ml w : w <> [] -> forallb is_name_char w = true -> forall s line col ml,
  stops_name s ->
  lx MCode (w ++ s) line col ml = mkTok w line col false :: lx MCode s line (col + len w) ml.
Proof.
  intros Hne Hn s line col ml Hs. destruct w as [|ch w]; [congruence|].
  cbn [forallb] in Hn. apply andb_true_iff in Hn. destruct Hn as [Hc Hw].
  destruct (name_facts ch Hc) as (_ & _ & _ & _ & H128 & H32 & H10).
  cbn [app lx]. rewrite H128. unfold NL. assert (E : (ch =? 10) = false) by lia. rewrite E, H32, Hc.
  rewrite (lx_name_scan w Hw). rewrite (lx_name_flush _ _ _ _ _ _ _ Hs).
  rewrite rev_app_distr, rev_involutive. cbn [rev app].
  f_equal. f_equal. unfold len. rewrite app_length, rev_length. cbn [length]. f_equal. lia.
Qed.

Lemma lx_op_ml c : op_ok c = true -> forall s line col ml,
  (c = 47 -> no_comment_start s) ->
  lx MCode (c :: s) line col ml = mkTok [c] line col false :: lx MCode s line (col + 1) ml.
Proof.
  intros Hc s line col ml Hs.
  destruct (op_facts c Hc) as (Hn & H39 & _ & H128 & H32 & H10 & H34 & H35 & H92).
  cbn [lx]. rewrite H128. unfold NL.
  assert (E10 : (c =? 10) = false) by lia. rewrite E10, H32, Hn.
  assert (E : ((c =? 34) || (c =? 35) || (c =? 39)) = false) by lia. rewrite E.
  assert (E92 : (c =? 92) = false) by lia. rewrite E92.
  destruct (c =? 47) eqn:E47; [|reflexivity].
  apply N.eqb_eq in E47. specialize (Hs E47). subst c.
  destruct s as [|d r]; [reflexivity|].
  cbn [no_comment_start] in Hs.
  destruct d as [|p]; [reflexivity|].
  do 6 (destruct p as [p|p|]; try reflexivity); contradiction.
Qed.

Lemma lx_tok_ml t s line col ml : stok_ok t = true -> follows_ok t s ->
  lx MCode (stok_str t ++ s) line col ml =
  mkTok (stok_str t) line col false :: lx MCode s line (col + len (stok_str t)) ml.
Proof.
  intros Ht Hf. destruct t as [w|c]; cbn [stok_str stok_ok follows_ok] in *.
  - destruct w as [|ch w]; [discriminate|]. apply lx_name_ml; [congruence | exact Ht | exact Hf].
  - cbn [app]. rewrite (lx_op_ml c Ht s line col ml Hf). reflexivity.
Qed.

Fixpoint expectb (ws : list (list bitem)) (toks : list stok) (st : N * N * N) : list tokp :=
  match ws, toks with
  | w :: ws', t :: r =>
      let '(l1, c1, m1) := adjust_items w st in
      mkTok (stok_str t) l1 c1 false :: expectb ws' r (l1, c1 + len (stok_str t), m1)
  | _, _ => []
  end.

Lemma bsep_head w : forallb bitem_ok w = true ->
  match bsep_str w with [] => w = [] | ch :: _ => is_blank ch = true \/ ch = 92 end.
Proof.
  destruct w as [|i w]; [reflexivity|]. cbn [forallb]. intros H. apply andb_true_iff in H. destruct H as [Hi _].
  destruct i as [c|b]; cbn [bsep_str flat_map bitem_str app bitem_ok] in *; auto.
Qed.

Lemma follows_b a w s : forallb bitem_ok w = true -> w <> [] -> follows_ok a (bsep_str w ++ s).
Proof.
  intros Hw Hne. pose proof (bsep_head w Hw) as Hh. destruct (bsep_str w) as [|ch r]; [congruence|]. cbn [app].
  destruct Hh as [Hb| ->]; [apply follows_blank; exact Hb|].
  destruct a as [n|o]; cbn [follows_ok stops_name no_comment_start]; [split; [reflexivity|discriminate] | intros _; exact I].
Qed.

Lemma lex_render_splice_gen toks : forall ws l col ml,
  length ws = S (length toks) ->
  Forall (fun w => forallb bitem_ok w = true) ws ->
  forallb stok_ok toks = true ->
  sepb_ok ws toks = true ->
  lx MCode (renderb ws toks) l col ml = expectb ws toks (l, col, ml).
Proof.
  induction toks as [|t r IH]; intros ws l col ml Hlen Hws Hok Hsep.
  - destruct ws as [|w [|? ?]]; try discriminate. cbn [renderb expectb].
    inversion Hws; subst. rewrite <- (app_nil_r (bsep_str w)). rewrite (lx_sep_b w H1).
    destruct (adjust_items w (l, col, ml)) as [[l1 c1] m1]. reflexivity.
  - destruct ws as [|w ws']; [discriminate|]. cbn [length] in Hlen. injection Hlen as Hlen.
    inversion Hws as [|? ? Hw Hws']; subst.
    cbn [forallb] in Hok. apply andb_true_iff in Hok. destruct Hok as [Ht Hr].
    cbn [renderb expectb]. rewrite (lx_sep_b w Hw).
    destruct (adjust_items w (l, col, ml)) as [[l1 c1] m1].
    destruct ws' as [|w1 ws'']; [discriminate|]. inversion Hws' as [|? ? Hw1 _]; subst.
    assert (Hfol : follows_ok t (renderb (w1 :: ws'') r)).
    { destruct w1 as [|i1 w1'].
      - destruct r as [|b r']; cbn [renderb bsep_str flat_map app].
        + destruct t; cbn; auto.
        + cbn [sepb_ok] in Hsep. apply andb_true_iff in Hsep. destruct Hsep as [Hs _].
          apply orb_true_iff in Hs. destruct Hs as [Hs|Hs]; [|discriminate]. apply negb_true_iff in Hs.
          cbn [forallb] in Hr. apply andb_true_iff in Hr. destruct Hr as [Hb _]. apply follows_tok; assumption.
      - destruct r as [|b r']; cbn [renderb].
        + rewrite <- (app_nil_r (bsep_str (i1 :: w1'))). apply follows_b; [exact Hw1 | discriminate].
        + apply follows_b; [exact Hw1 | discriminate]. }
    rewrite (lx_tok_ml t _ l1 c1 m1 Ht Hfol). f_equal.
    apply IH; auto.
    destruct r as [|b r']; [destruct ws''; reflexivity|].
    cbn [sepb_ok] in Hsep. apply andb_true_iff in Hsep. tauto.
Qed.

Lemma bsep_no_cr w : forallb bitem_ok w = true -> ~ In 13 (bsep_str w).
Proof.
  induction w as [|i w IH]; cbn [bsep_str flat_map forallb]; [tauto|].
  intros H. apply andb_true_iff in H. destruct H as [Hi Hw]. rewrite in_app_iff. intros [E|E]; [|exact (IH Hw E)].
  destruct i as [c|b]; cbn [bitem_str bitem_ok] in *.
  - destruct E as [E|[]]. subst. destruct (blank_facts 13 Hi) as (_ & _ & _ & _ & H & _). congruence.
  - destruct E as [E|E]; [discriminate|]. apply in_app_iff in E. destruct E as [E|[E|[]]]; [|discriminate].
    rewrite forallb_forall in Hi. specialize (Hi _ E). apply andb_true_iff in Hi. destruct Hi as [Hi _].
    destruct (blank_facts 13 Hi) as (_ & _ & _ & _ & H & _). congruence.
Qed.

Lemma renderb_no_cr toks : forall ws,
  Forall (fun w => forallb bitem_ok w = true) ws -> forallb stok_ok toks = true -> ~ In 13 (renderb ws toks).
Proof.
  induction toks as [|t r IH]; intros ws Hws Hok.
  - destruct ws as [|w ws']; cbn [renderb]; [tauto|]. inversion Hws; subst. apply bsep_no_cr. assumption.
  - destruct ws as [|w ws']; cbn [renderb]; [tauto|]. inversion Hws as [|? ? Hw Hws']; subst.
    cbn [forallb] in Hok. apply andb_true_iff in Hok. destruct Hok as [Ht Hr].
    rewrite !in_app_iff. intros [E|[E|E]].
    + exact (bsep_no_cr w Hw E).
    + destruct t as [n|c]; cbn [stok_str stok_ok] in *.
      * destruct n as [|ch n]; [discriminate|]. rewrite forallb_forall in Ht. specialize (Ht _ E).
        destruct (name_facts 13 Ht) as (_ & _ & _ & H & _). congruence.
      * destruct E as [E|[]]. subst c. destruct (op_facts 13 Ht) as (_ & _ & H & _). congruence.
    + exact (IH ws' Hws' Hr E).
Qed.

Theorem lex_render_splice toks ws :
  length ws = S (length toks) ->
  Forall (fun w => forallb bitem_ok w = true) ws ->
  forallb stok_ok toks = true ->
  sepb_ok ws toks = true ->
  lex1 (renderb ws toks) = expectb ws toks (1, 1, 0).
Proof.
  intros. unfold lex1. rewrite norm_cr_id by (apply renderb_no_cr; assumption).
  apply lex_render_splice_gen; assumption.
Qed.

Lemma expectb_strs toks : forall ws st, length ws = S (length toks) -> map tstr (expectb ws toks st) = map stok_str toks.
Proof.
  induction toks as [|t r IH]; intros ws st Hlen.
  - destruct ws; reflexivity.
  - destruct ws as [|w ws']; [discriminate|]. cbn [length] in Hlen. injection Hlen as Hlen.
    cbn [expectb]. destruct (adjust_items w st) as [[l1 c1] m1]. cbn [map tstr]. f_equal. apply IH. exact Hlen.
Qed.

Lemma expectb_positions toks : forall ws st, length ws = S (length toks) ->
  map (fun t => (tline t, tcol t)) (expectb ws toks st) = positionsb ws toks st.
Proof.
  induction toks as [|t r IH]; intros ws st Hlen.
  - destruct ws; reflexivity.
  - destruct ws as [|w ws']; [discriminate|]. cbn [length] in Hlen. injection Hlen as Hlen.
    cbn [expectb positionsb]. destruct (adjust_items w st) as [[l1 c1] m1]. cbn [map tline tcol]. f_equal. apply IH. exact Hlen.
Qed.
