(* C28  Every built-in finding id is discoverable through --errorlist.
   Statements only; every proof is `exact <lemma>`.
   emitted / errorlist / known_missing / message_id_sites are regenerated on every run from /repo's
   source and from `cppcheck --errorlist` of the binary built from it (Ids/Gen_Ids.v). *)
From CV Require Import Base.Bytes Ids.Defs Ids.Lemmas Ids.Gen_Ids Ids.Proofs.

(* finite, regenerated domain: every (id, site) the scanned source can report is listed by
   --errorlist, or is one of the recorded known findings *)
Theorem C28_errorlist_complete :
  forall id site, In (id, site) emitted -> In id errorlist \/ In id known_missing.
Proof. exact errorlist_complete. Qed.
Print Assumptions C28_errorlist_complete.

(* ids computed by Check::getMessageId: all variants of every base id used are in the table
   (and therefore covered by the theorem above) *)
Theorem C28_message_ids_closed :
  forall base site cond safe, In (base, site) message_id_sites ->
  In (get_message_id cond safe base, site) emitted.
Proof. exact message_ids_listed. Qed.
Print Assumptions C28_message_ids_closed.

(* unbounded: the shapes getMessageId can produce, for every base id *)
Theorem C28_get_message_id_cases cond safe id :
  get_message_id cond safe id = id \/
  get_message_id cond safe id = id ++ sCond \/
  get_message_id cond safe id = sSafe ++ capitalise id.
Proof. exact (get_message_id_cases cond safe id). Qed.
Print Assumptions C28_get_message_id_cases.

(* unbounded: the finite check decides the declarative statement for any tables (so a `false`
   computed by the extracted model is a genuine counterexample, and `true` a proof) *)
Theorem C28_check_decides emitted errorlist known :
  all_covered emitted errorlist known = true <->
  (forall id site, In (id, site) emitted -> In id errorlist \/ In id known).
Proof. exact (conj (all_covered_sound emitted errorlist known) (all_covered_complete emitted errorlist known)). Qed.
Print Assumptions C28_check_decides.

Theorem C28_uncovered_spec emitted errorlist known e :
  In e (uncovered emitted errorlist known) <->
  In e emitted /\ ~ (In (fst e) errorlist \/ In (fst e) known).
Proof. exact (uncovered_spec emitted errorlist known e). Qed.
Print Assumptions C28_uncovered_spec.

(* non-vacuity: the tables are inhabited *)
Example C28_emitted_nonempty : emitted <> [].
Proof. vm_compute. discriminate. Qed.
Example C28_message_id_sites_nonempty : message_id_sites <> [].
Proof. vm_compute. discriminate. Qed.
