(* C16  The thread executor is free of data races.
   Statements only; every proof is `exact <lemma>`.
   Calculus: Conc/Defs.v (threads = lists of Lock/Unlock/Rd/Wr/ARd/AWr events; interleaving
   semantics with mutex exclusion; race = two threads whose next events are conflicting accesses). *)
From CV Require Import Base.Bytes Conc.Defs Conc.Proofs.

(* the lockset discipline: if every thread, taken alone, accesses each plain variable only while
   holding the mutex that `kind` assigns to it (check_thread, decidable, per thread), then no
   reachable state of any interleaving of any number of such threads has a race *)
Theorem C16_lockset_drf kind (ts : list (list ev)) :
  Forall (fun t => check_thread kind t = true) ts ->
  forall s, reachable ts s -> ~ race s.
Proof. exact (lockset_drf kind ts). Qed.
Print Assumptions C16_lockset_drf.

(* the invariant behind it: at most one thread holds a mutex *)
Theorem C16_mutex_exclusion kind (ts : list (list ev)) :
  Forall (fun t => check_thread kind t = true) ts ->
  forall s, reachable ts s ->
  forall i j hi ri hj rj m, i <> j ->
    nth_error s i = Some (hi, ri) -> nth_error s j = Some (hj, rj) -> In m hi -> ~ In m hj.
Proof. exact (lockset_mutex_exclusion kind ts). Qed.
Print Assumptions C16_mutex_exclusion.

(* the diagnostic the extracted executable prints agrees with check_thread *)
Theorem C16_first_bad_none_iff kind held t i :
  first_bad kind held t i = None <-> check_events kind held t = true.
Proof. exact (first_bad_none_iff kind held t i). Qed.
Print Assumptions C16_first_bad_none_iff.

(* the hypothesis matters: two unguarded writers race; it is satisfiable: a guarded pair does not *)
Example C16_unguarded_races : exists ts s, reachable ts s /\ race s.
Proof. exact unguarded_races. Qed.
Example C16_guarded_ok : Forall (fun t => check_thread (lookup_kind ex_tbl) t = true) ex_threads.
Proof. exact guarded_ok. Qed.
Example C16_guarded_ok_drf : forall s, reachable ex_threads s -> ~ race s.
Proof. exact guarded_ok_drf. Qed.
