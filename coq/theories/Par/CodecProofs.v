(* Round trip of the process executor's message codec:
   deserialize (serialize m) = Ok (normalise m) under wire_ok, and what follows. *)
From CV Require Import Base.Bytes Base.Glob Supp.Defs Par.Gen_Severity Par.Defs Par.DecProofs.
Require Import Lia ZifyBool.
Local Open Scope N_scope.

(* ---------- lists ---------- *)
Lemma firstn_len_app {A} (s r : list A) : firstn (length s) (s ++ r) = s.
Proof. induction s as [|x s IH]; cbn [length firstn app]; [destruct r; reflexivity|rewrite IH; reflexivity]. Qed.

Lemma skipn_len_app {A} (s r : list A) : skipn (length s) (s ++ r) = r.
Proof. induction s as [|x s IH]; cbn [length skipn app]; [reflexivity|exact IH]. Qed.

Lemma len_of_app {A} (a b : list A) : len_of (a ++ b) = len_of a + len_of b.
Proof. unfold len_of. rewrite app_length. lia. Qed.

Lemma len_of_nil_iff {A} (s : list A) : len_of s = 0 <-> s = [].
Proof. unfold len_of. destruct s; cbn [length]; split; intros H; try reflexivity; try discriminate; lia. Qed.

Lemma to_nat_len_of {A} (s : list A) : N.to_nat (len_of s) = length s.
Proof. unfold len_of. apply Nat2N.id. Qed.

(* ---------- severity tables (regenerated): finite check, bound = sev_count ---------- *)
Fixpoint nrange (n : nat) : list N :=
  match n with O => [] | S k => nrange k ++ [N.of_nat k] end.

Lemma nrange_In n s : s < N.of_nat n -> In s (nrange n).
Proof.
  induction n as [|k IH]; intros H; [lia|].
  cbn [nrange]. apply in_or_app. destruct (N.eq_dec s (N.of_nat k)) as [->|Hne].
  - right. left. reflexivity.
  - left. apply IH. lia.
Qed.

Lemma sev_table_roundtrip :
  forallb (fun s => sev_from_string (sev_to_string s) =? s) (nrange (N.to_nat sev_count)) = true.
Proof. vm_compute. reflexivity. Qed.

Lemma sev_roundtrip s : s < sev_count -> sev_from_string (sev_to_string s) = s.
Proof.
  intros H. pose proof sev_table_roundtrip as T. rewrite forallb_forall in T.
  apply N.eqb_eq. apply T. apply nrange_In. rewrite N2Nat.id. exact H.
Qed.

Lemma sev_names_small :
  forallb (fun s => small (sev_to_string s)) (nrange (N.to_nat sev_count)) = true.
Proof. vm_compute. reflexivity. Qed.

Lemma sev_small s : s < sev_count -> small (sev_to_string s) = true.
Proof.
  intros H. pose proof sev_names_small as T. rewrite forallb_forall in T.
  apply T. apply nrange_In. rewrite N2Nat.id. exact H.
Qed.

(* ---------- one length-prefixed field ---------- *)
Lemma read_field_ser s rest : small s = true -> read_field (ser_str s ++ rest) = Ok (s, rest).
Proof.
  intros Hs. unfold small in Hs. unfold ser_str, read_field. rewrite <- app_assoc. cbn [app].
  rewrite read_uint_dec by (try reflexivity; lia).
  destruct (len_of s =? 0) eqn:H0.
  - apply N.eqb_eq, len_of_nil_iff in H0. subst s. reflexivity.
  - assert (Hl : ltb_len (s ++ rest) (len_of s) = false).
    { unfold ltb_len. rewrite len_of_app. lia. }
    rewrite Hl, to_nat_len_of, firstn_len_app, skipn_len_app. reflexivity.
Qed.

Lemma read_fields_ser fs : forall rest, forallb small fs = true ->
  read_fields (length fs) (flat_map ser_str fs ++ rest) = Ok (fs, rest).
Proof.
  induction fs as [|f fs IH]; intros rest H; cbn [length read_fields flat_map app]; [reflexivity|].
  cbn [forallb] in H. apply andb_true_iff in H. destruct H as [Hf Hfs].
  rewrite <- app_assoc, (read_field_ser _ _ Hf), (IH _ Hfs). reflexivity.
Qed.

(* ---------- frames ---------- *)
Lemma cut_tab_app a : forall b acc, no_tab a = true -> cut_tab (a ++ 9 :: b) acc = Some (rev acc ++ a, b).
Proof.
  induction a as [|c a IH]; intros b acc H; cbn [app cut_tab].
  - cbn [N.eqb Pos.eqb]. rewrite app_nil_r. reflexivity.
  - unfold no_tab in H. cbn [forallb] in H. apply andb_true_iff in H. destruct H as [Hc Ha].
    destruct (c =? 9) eqn:E; [discriminate|].
    rewrite (IH b (c :: acc) Ha). cbn [rev]. rewrite <- app_assoc. reflexivity.
Qed.

Lemma pieces_S k a b : no_tab a = true -> pieces (S k) (a ++ 9 :: b) = a :: pieces k b.
Proof.
  intros H. destruct (a ++ 9 :: b) as [|x l] eqn:E; [destruct a; discriminate|].
  cbn [pieces]. rewrite <- E, (cut_tab_app a b [] H). reflexivity.
Qed.

Lemma no_tab_app a b : no_tab (a ++ b) = no_tab a && no_tab b.
Proof. unfold no_tab. apply forallb_app. Qed.

Lemma Ok_inj {A} (a b : A) : Ok a = Ok b -> a = b.
Proof. intros H. injection H. trivial. Qed.

Section Codec.
  Variable simp : str -> str.

  Lemma loc_ok_inv l : loc_ok simp l = true ->
    (INT_MIN <= l_line l <= INT_MAX)%Z /\ l_col l < U32 /\ no_tab (l_file l) = true
    /\ no_tab (l_orig l) = true /\ simp (l_file l) = l_file l /\ small (frame_str l) = true.
  Proof.
    unfold loc_ok. intros H. repeat (apply andb_true_iff in H; destruct H as [H ?]).
    repeat split; try assumption; try lia. apply str_eqb_eq. assumption.
  Qed.

  Lemma parse_frame_str l : loc_ok simp l = true -> parse_frame simp (frame_str l) = Ok l.
  Proof.
    intros H. apply loc_ok_inv in H. destruct H as (Hline & Hcol & Hf & Ho & Hs & _).
    unfold parse_frame, frame_str.
    rewrite (pieces_S 3 _ _ (no_tab_dec_Z _)), (pieces_S 2 _ _ (no_tab_dec_N _)),
            (pieces_S 1 _ _ Hf), (pieces_S 0 _ _ Ho).
    assert (Hl : str_to_int INT_MIN INT_MAX (dec_of_Z (l_line l)) = Some (l_line l))
      by (apply str_to_int_dec_Z; exact Hline).
    assert (Hc : str_to_uint UINT_MAX (dec_of_N (l_col l)) = Some (l_col l))
      by (apply str_to_uint_dec; unfold UINT_MAX, U32 in *; lia).
    destruct l as [line col file orig info]. cbn [l_line l_col l_file l_orig l_info] in *.
    destruct info as [|i info]; cbn [pieces]; rewrite Hl, Hc, Hs; reflexivity.
  Qed.

  Lemma frame_str_nonnil l : frame_str l <> [].
  Proof.
    unfold frame_str. pose proof (dec_of_Z_nonnil (l_line l)).
    destruct (dec_of_Z (l_line l)); [contradiction|discriminate].
  Qed.

  Definition ser_frame (l : loc) : str := ser_str (frame_str l).

  Lemma read_frames_ser ls : forall fuel rest, ls <> [] -> forallb (loc_ok simp) ls = true ->
    (length ls <= fuel)%nat ->
    read_frames simp fuel (len_of ls) (flat_map ser_frame ls ++ rest) = Ok ls.
  Proof.
    induction ls as [|l ls IH]; intros fuel rest Hne Hok Hfuel; [contradiction|].
    destruct fuel as [|f]; [cbn [length] in Hfuel; lia|].
    cbn [forallb] in Hok. apply andb_true_iff in Hok. destruct Hok as [Hl Hls].
    pose proof (loc_ok_inv l Hl) as (_ & _ & _ & _ & _ & Hsmall). unfold small in Hsmall.
    cbn [read_frames flat_map]. unfold ser_frame at 1. unfold ser_str.
    rewrite <- !app_assoc. cbn [app].
    rewrite read_uint_dec by (try reflexivity; lia).
    assert (H0 : (len_of (frame_str l) =? 0) = false).
    { apply N.eqb_neq. intros E. apply len_of_nil_iff in E. exact (frame_str_nonnil l E). }
    rewrite H0.
    assert (Hlt : ltb_len (frame_str l ++ flat_map ser_frame ls ++ rest) (len_of (frame_str l)) = false).
    { unfold ltb_len. rewrite len_of_app. lia. }
    rewrite Hlt, to_nat_len_of, firstn_len_app, skipn_len_app, (parse_frame_str l Hl).
    destruct ls as [|l2 ls'].
    - reflexivity.
    - assert (Hw : (len_of (l :: l2 :: ls') <=? 1) = false).
      { unfold len_of. cbn [length]. lia. }
      rewrite Hw.
      assert (Hm : len_of (l :: l2 :: ls') - 1 = len_of (l2 :: ls')).
      { unfold len_of. cbn [length]. lia. }
      rewrite Hm. rewrite (IH f rest); [reflexivity|discriminate|exact Hls|cbn [length] in *; lia].
  Qed.

  Lemma flat_map_ser_len ls : (length ls <= length (flat_map ser_frame ls))%nat.
  Proof.
    induction ls as [|l ls IH]; cbn [flat_map length]; [lia|].
    rewrite app_length. unfold ser_frame at 1. unfold ser_str. rewrite app_length. cbn [length]. lia.
  Qed.

  Lemma wire_ok_inv m : wire_ok simp m = true ->
    m_sev m < sev_count /\ m_cwe m <= USHRT_MAX /\ m_hash m <= SIZE_MAX
    /\ small (m_id m) = true /\ small (fix_invalid_chars (m_remark m)) = true /\ small (m_file0 m) = true
    /\ small (fix_invalid_chars (m_short m)) = true /\ small (fix_invalid_chars (m_verbose m)) = true
    /\ small (m_symbols m) = true /\ len_of (m_stack m) < U32 /\ forallb (loc_ok simp) (m_stack m) = true.
  Proof.
    unfold wire_ok. intros H. repeat (apply andb_true_iff in H; destruct H as [H ?]).
    repeat split; try assumption; lia.
  Qed.

  Lemma small_dec n : n <= SIZE_MAX -> small (dec_of_N n) = true.
  Proof.
    intros Hn. unfold small.
    assert (H : forall f k acc, (length (dec_digits f k acc) <= f + length acc)%nat).
    { induction f as [|f IH]; intros k acc; [cbn; lia|].
      rewrite dec_digits_S. destruct (k / 10 =? 0); [cbn [length]; lia|].
      specialize (IH (k / 10) ((48 + k mod 10) :: acc)). cbn [length] in IH. lia. }
    unfold dec_of_N. specialize (H (S (N.to_nat (N.size n))) n []). cbn [length] in H.
    assert (Hs : N.size n <= 64).
    { destruct n as [|p]; [cbn; lia|]. rewrite N.size_log2 by discriminate.
      assert (N.log2 (N.pos p) < 64); [|lia]. apply N.log2_lt_pow2; [lia|].
      unfold SIZE_MAX in Hn. change (2 ^ 64) with 18446744073709551616. lia. }
    unfold len_of, U32. lia.
  Qed.

  Lemma str_of_bool_small b : small (str_of_bool b) = true.
  Proof. destruct b; reflexivity. Qed.

  Lemma serialize_shape m :
    serialize m =
    flat_map ser_str [m_id m; sev_to_string (m_sev m); dec_of_N (m_cwe m); dec_of_N (m_hash m);
                      fix_invalid_chars (m_remark m); m_file0 m; str_of_bool (m_inc m);
                      fix_invalid_chars (m_short m); fix_invalid_chars (m_verbose m); m_symbols m]
    ++ dec_of_N (len_of (m_stack m)) ++ 32 :: flat_map ser_frame (m_stack m).
  Proof. unfold serialize. cbn [flat_map]. rewrite app_nil_r, <- !app_assoc. reflexivity. Qed.

  Theorem deserialize_serialize m : wire_ok simp m = true ->
    deserialize simp (serialize m) = Ok (normalise m).
  Proof.
    intros H. apply wire_ok_inv in H.
    destruct H as (Hsev & Hcwe & Hhash & Hid & Hrem & Hf0 & Hsh & Hvb & Hsym & Hn & Hst).
    rewrite serialize_shape. unfold deserialize.
    match goal with |- context [read_fields 10 (flat_map ser_str ?fs ++ ?rest)] =>
      change 10%nat with (length fs); rewrite (read_fields_ser fs rest) end.
    2:{ cbn [forallb]. rewrite Hid, (sev_small _ Hsev), Hrem, Hf0, Hsh, Hvb, Hsym, str_of_bool_small.
        rewrite (small_dec (m_cwe m)) by (unfold USHRT_MAX, SIZE_MAX in *; lia).
        rewrite (small_dec (m_hash m)) by exact Hhash. reflexivity. }
    assert (Hc1 : is_nil (dec_of_N (m_cwe m)) = false).
    { pose proof (dec_of_N_nonnil (m_cwe m)). destruct (dec_of_N (m_cwe m)); [contradiction|reflexivity]. }
    assert (Hh1 : is_nil (dec_of_N (m_hash m)) = false).
    { pose proof (dec_of_N_nonnil (m_hash m)). destruct (dec_of_N (m_hash m)); [contradiction|reflexivity]. }
    rewrite Hc1, Hh1, (str_to_uint_dec _ _ Hcwe), (str_to_uint_dec _ _ Hhash).
    rewrite read_uint_dec by (try reflexivity; exact Hn).
    rewrite (sev_roundtrip _ Hsev).
    assert (Hinc : str_eqb (str_of_bool (m_inc m)) [49] = m_inc m) by (destruct (m_inc m); reflexivity).
    rewrite Hinc.
    destruct (m_stack m) as [|l ls] eqn:Est.
    - cbn [len_of length N.of_nat N.eqb]. unfold normalise. rewrite Est. reflexivity.
    - assert (H0 : (len_of (l :: ls) =? 0) = false) by (unfold len_of; cbn [length]; lia).
      rewrite H0.
      pose proof (read_frames_ser (l :: ls) (S (length (flat_map ser_frame (l :: ls)))) []) as R.
      rewrite app_nil_r in R. rewrite R.
      + unfold normalise. rewrite Est. reflexivity.
      + discriminate.
      + exact Hst.
      + pose proof (flat_map_ser_len (l :: ls)). lia.
  Qed.

  (* two messages with the same wire image are equal up to fixInvalidChars *)
  Theorem serialize_injective_mod_fix m1 m2 :
    wire_ok simp m1 = true -> wire_ok simp m2 = true ->
    serialize m1 = serialize m2 -> normalise m1 = normalise m2.
  Proof.
    intros H1 H2 E. pose proof (deserialize_serialize m1 H1) as D1.
    rewrite E, (deserialize_serialize m2 H2) in D1. apply Ok_inj in D1. symmetry. exact D1.
  Qed.

  (* when nothing needs escaping the receiver holds exactly the sender's message *)
  Lemma fix_printable s : forallb is_print s = true -> fix_invalid_chars s = s.
  Proof.
    induction s as [|c s IH]; intros H; [reflexivity|].
    cbn [forallb] in H. apply andb_true_iff in H. destruct H as [Hc Hs].
    unfold fix_invalid_chars in *. cbn [flat_map]. unfold fix_char at 1. rewrite Hc, (IH Hs). reflexivity.
  Qed.

  Definition printable_msg (m : msg) : bool :=
    forallb is_print (m_remark m) && forallb is_print (m_short m) && forallb is_print (m_verbose m).

  Theorem roundtrip_exact m : wire_ok simp m = true -> printable_msg m = true ->
    deserialize simp (serialize m) = Ok m.
  Proof.
    intros H P. rewrite (deserialize_serialize m H). unfold printable_msg in P.
    apply andb_true_iff in P. destruct P as [P Pv]. apply andb_true_iff in P. destruct P as [Pr Ps].
    unfold normalise. rewrite (fix_printable _ Pr), (fix_printable _ Ps), (fix_printable _ Pv).
    destruct m; reflexivity.
  Qed.

  Theorem serialize_injective m1 m2 :
    wire_ok simp m1 = true -> wire_ok simp m2 = true -> printable_msg m1 = true -> printable_msg m2 = true ->
    serialize m1 = serialize m2 -> m1 = m2.
  Proof.
    intros H1 H2 P1 P2 E. pose proof (roundtrip_exact m1 H1 P1) as D1.
    rewrite E, (roundtrip_exact m2 H2 P2) in D1. apply Ok_inj in D1. symmetry. exact D1.
  Qed.
End Codec.

(* ---------- where the round trip changes the message (simp = identity) ---------- *)
Definition idf (s : str) : str := s.

Definition m_base : msg :=
  mkMsg [120] 1 0 0 [] [97;46;99] false [109] [109] [] [mkLoc 2 5 [97;46;99] [97;46;99] []].

(* a byte outside 0x20..0x7e in the message text: "caf\xc3\xa9" arrives as "caf\303\251" *)
Definition m_nonprintable : msg :=
  mkMsg [120] 1 0 0 [] [97;46;99] false [99;97;102;195;169] [99;97;102;195;169] []
        [mkLoc 2 5 [97;46;99] [97;46;99] []].

Theorem roundtrip_nonprintable_refuted :
  exists m, wire_ok idf m = true /\ exists m', deserialize idf (serialize m) = Ok m' /\ m' <> m
            /\ m_short m' = [99;97;102;92;51;48;51;92;50;53;49].
Proof.
  exists m_nonprintable. split; [vm_compute; reflexivity|].
  eexists. split; [vm_compute; reflexivity|]. split; [discriminate|reflexivity].
Qed.

(* a tab in a frame's file name "a\tb.c": the receiver holds file "a", origfile "b.c" *)
Definition m_tab : msg :=
  mkMsg [120] 1 0 0 [] [97;9;98;46;99] false [109] [109] []
        [mkLoc 2 5 [97;9;98;46;99] [97;9;98;46;99] [105]].

Theorem roundtrip_tab_in_filename_refuted :
  exists m, printable_msg m = true /\ exists m', deserialize idf (serialize m) = Ok m' /\ m' <> m
            /\ map l_file (m_stack m') = [[97]] /\ map l_orig (m_stack m') = [[98;46;99]].
Proof.
  exists m_tab. split; [reflexivity|].
  eexists. split; [vm_compute; reflexivity|]. split; [discriminate|split; reflexivity].
Qed.

(* serialize is not injective: a control byte and its escape sequence collide *)
Theorem serialize_injective_refuted :
  exists m1 m2, wire_ok idf m1 = true /\ wire_ok idf m2 = true /\ m1 <> m2 /\ serialize m1 = serialize m2.
Proof.
  exists (mkMsg [120] 1 0 0 [] [] false [1] [109] [] []),
         (mkMsg [120] 1 0 0 [] [] false [92;48;48;49] [109] [] []).
  repeat split; try (vm_compute; reflexivity). discriminate.
Qed.

Example wire_ok_inhabited : wire_ok idf m_base = true /\ printable_msg m_base = true.
Proof. split; vm_compute; reflexivity. Qed.
