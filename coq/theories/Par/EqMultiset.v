(* C15: from "the same set of texts reaches the output" to "the same multiset is printed":
   StdLogger::reportErr prints each rendered text once (mShownErrors). *)
From CV Require Import Base.Bytes Base.Glob Supp.Defs Supp.ExecDefs.
Require Import Permutation.

Definition str_dec : forall a b : str, {a = b} + {a <> b} := list_eq_dec N.eq_dec.

(* the texts StdLogger prints for an outcome: first occurrences only *)
Definition printed (o : outcome) : list str := nodup str_dec (map snd (o_reported o)).

Lemma printed_perm o1 o2 :
  (forall t, In t (map snd (o_reported o1)) <-> In t (map snd (o_reported o2))) ->
  Permutation (printed o1) (printed o2).
Proof.
  intros H. unfold printed. apply NoDup_Permutation; try apply NoDup_nodup.
  intros t. rewrite !nodup_In. apply H.
Qed.
