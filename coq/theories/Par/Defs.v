(* C15: the message codec of the process executor (lib/errorlogger.cpp
   ErrorMessage::serialize / deserialize / fixInvalidChars, lib/utils.h strToInt)
   and the duplicate/suppression filter shared by the parallel executors
   (cli/executor.cpp Executor::hasToLog).  Executable definitions only. *)
From CV Require Import Base.Bytes Base.Glob Supp.Defs Par.Gen_Severity.
Local Open Scope N_scope.

(* ------------------------------------------------------------------ *)
(* The message record: every std::string is a byte list.               *)
Record loc := mkLoc {
  l_line : Z;        (* int *)
  l_col : N;         (* unsigned int *)
  l_file : str;      (* mFileName (getfile(false)) *)
  l_orig : str;      (* mOrigFileName *)
  l_info : str
}.

Record msg := mkMsg {
  m_id : str;
  m_sev : N;         (* enumerator index of Severity (Gen_Severity.sev_names) *)
  m_cwe : N;         (* unsigned short *)
  m_hash : N;        (* std::size_t *)
  m_remark : str;
  m_file0 : str;
  m_inc : bool;      (* certainty == inconclusive *)
  m_short : str;
  m_verbose : str;
  m_symbols : str;
  m_stack : list loc
}.

Inductive res (A : Type) := Ok (a : A) | Err (code : N).
Arguments Ok {A} a.
Arguments Err {A} code.

(* ------------------------------------------------------------------ *)
(* severityToString / severityFromString over the regenerated tables   *)
Definition sev_to_string (s : N) : str := nth (N.to_nat s) sev_names [].

Fixpoint chain_lookup (c : list (str * N)) (s : str) : N :=
  match c with
  | [] => sev_from_default
  | (k, v) :: r => if str_eqb s k then v else chain_lookup r s
  end.
Definition sev_from_string (s : str) : N := chain_lookup sev_from_chain s.

(* ------------------------------------------------------------------ *)
(* fixInvalidChars: std::isprint in the "C" locale is 0x20..0x7e; every other
   byte becomes a backslash and three octal digits                           *)
Definition is_print (c : N) : bool := (32 <=? c) && (c <=? 126).
Definition oct3 (c : N) : str := [48 + c / 64; 48 + (c / 8) mod 8; 48 + c mod 8].
Definition fix_char (c : N) : str := if is_print c then [c] else 92 :: oct3 c.
Definition fix_invalid_chars (s : str) : str := flat_map fix_char s.

(* ------------------------------------------------------------------ *)
(* serialize                                                            *)
Definition len_of {A} (s : list A) : N := N.of_nat (length s).
Definition ser_str (s : str) : str := dec_of_N (len_of s) ++ 32 :: s.

Definition frame_str (l : loc) : str :=
  dec_of_Z (l_line l) ++ 9 :: dec_of_N (l_col l) ++ 9 :: l_file l ++ 9 :: l_orig l ++ 9 :: l_info l.

Definition serialize (m : msg) : str :=
  ser_str (m_id m) ++ ser_str (sev_to_string (m_sev m)) ++ ser_str (dec_of_N (m_cwe m))
  ++ ser_str (dec_of_N (m_hash m)) ++ ser_str (fix_invalid_chars (m_remark m))
  ++ ser_str (m_file0 m) ++ ser_str (str_of_bool (m_inc m))
  ++ ser_str (fix_invalid_chars (m_short m)) ++ ser_str (fix_invalid_chars (m_verbose m))
  ++ ser_str (m_symbols m)
  ++ dec_of_N (len_of (m_stack m)) ++ 32 :: flat_map (fun l => ser_str (frame_str l)) (m_stack m).

(* ------------------------------------------------------------------ *)
(* std::istream >> unsigned int (libstdc++ num_get, "C" locale, base 10):
   skip white space, one optional sign, at least one digit; a value above
   UINT_MAX sets failbit; a minus sign negates modulo 2^32.               *)
Definition U32 : N := 4294967296.
Definition is_ws (c : N) : bool := (c =? 32) || ((9 <=? c) && (c <=? 13)).

Fixpoint skip_ws (s : str) : str :=
  match s with
  | c :: r => if is_ws c then skip_ws r else s
  | [] => []
  end.

Fixpoint take_digits (s : str) : str * str :=
  match s with
  | c :: r => if is_digit c then let (d, t) := take_digits r in (c :: d, t) else ([], s)
  | [] => ([], [])
  end.

Definition dec_val (ds : str) : N := fold_left (fun a c => a * 10 + (c - 48)) ds 0.

Definition split_sign (s : str) : bool * str :=
  match s with
  | c :: r => if c =? 45 then (true, r) else if c =? 43 then (false, r) else (false, s)
  | [] => (false, [])
  end.

Definition read_uint (s : str) : option (N * str) :=
  let '(neg, s2) := split_sign (skip_ws s) in
  let '(ds, rest) := take_digits s2 in
  if is_nil ds then None
  else let v := dec_val ds in
       if U32 <=? v then None
       else Some (if neg then (U32 - v) mod U32 else v, rest).

(* strToInt<T>(str, num, err) of lib/utils.h: std::stoll / std::stoull
   must consume the whole string, which must start with a sign or a digit (no
   leading white space), must not be a multi-character string starting with
   '0', and the value must be inside T's range.  Unsigned T rejects a leading
   '-' altogether. *)
Definition all_digits (s : str) : bool := forallb is_digit s.

Definition str_to_int (lo hi : Z) (s : str) : option Z :=
  match s with
  | [] => None
  | c :: r =>
      let '(neg, ds) := if c =? 45 then (true, r) else if c =? 43 then (false, r) else (false, s) in
      if is_nil ds || negb (all_digits ds) then None
      else if (1 <? len_of s) && (c =? 48) then None
      else let v := if neg then (- Z.of_N (dec_val ds))%Z else Z.of_N (dec_val ds) in
           if ((lo <=? v) && (v <=? hi))%Z then Some v else None
  end.

Definition str_to_uint (hi : N) (s : str) : option N :=
  if starts_with [45] s then None
  else match str_to_int 0 (Z.of_N hi) s with
       | Some z => Some (Z.to_N z)
       | None => None
       end.

Definition INT_MIN : Z := (-2147483648)%Z.
Definition INT_MAX : Z := 2147483647%Z.
Definition USHRT_MAX : N := 65535.
Definition UINT_MAX : N := 4294967295.
Definition SIZE_MAX : N := 18446744073709551615.

(* error codes = the distinct throw sites' messages in ErrorMessage::deserialize *)
Definition E_FUEL : N := 0.
Definition E_LEN : N := 1.        (* invalid length *)
Definition E_SEP : N := 2.        (* invalid separator *)
Definition E_EOD : N := 3.        (* premature end of data *)
Definition E_CWE : N := 5.        (* invalid CWE ID *)
Definition E_HASH : N := 6.       (* invalid hash *)
Definition E_STACKSIZE : N := 7.  (* invalid stack size *)
Definition E_LEN_ST : N := 9.     (* invalid length (stack) *)
Definition E_SEP_ST : N := 10.    (* invalid separator (stack) *)
Definition E_EOD_ST : N := 11.    (* premature end of data (stack) *)
Definition E_FRAME : N := 12.     (* "Deserializing of error message failed": fewer than 4 parts *)
Definition E_STRTOINT : N := 13.  (* std::runtime_error from strToInt<int>/<unsigned> (not an InternalError) *)

Definition ltb_len (s : str) (n : N) : bool := len_of s <? n.

(* one length-prefixed field of the header loop *)
Definition read_field (s : str) : res (str * str) :=
  match read_uint s with
  | None => Err E_LEN
  | Some (len, r) =>
      match r with
      | 32 :: r' =>
          if len =? 0 then Ok ([], r')
          else if ltb_len r' len then Err E_EOD
          else Ok (firstn (N.to_nat len) r', skipn (N.to_nat len) r')
      | _ => Err E_SEP
      end
  end.

Fixpoint read_fields (n : nat) (s : str) : res (list str * str) :=
  match n with
  | O => Ok ([], s)
  | S n' => match read_field s with
            | Err e => Err e
            | Ok (f, r) => match read_fields n' r with
                           | Err e => Err e
                           | Ok (fs, r') => Ok (f :: fs, r')
                           end
            end
  end.

(* the frame splitter: at most four tab-separated parts, the fifth part is the
   rest of the string; nothing is pushed once the position reaches the end *)
Fixpoint cut_tab (s : str) (acc : str) : option (str * str) :=
  match s with
  | [] => None
  | c :: r => if c =? 9 then Some (rev acc, r) else cut_tab r (c :: acc)
  end.

Fixpoint pieces (k : nat) (s : str) : list str :=
  match s with
  | [] => []
  | _ => match k with
         | O => [s]
         | S k' => match cut_tab s [] with
                   | None => [s]
                   | Some (a, b) => a :: pieces k' b
                   end
         end
  end.

Section Codec.
  (* Path::simplifyPath (FileLocation::setfile): C31's matter, a parameter here *)
  Variable simp : str -> str.

  Definition parse_frame (t : str) : res loc :=
    let mk a b c d e :=
      match str_to_int INT_MIN INT_MAX a, str_to_uint UINT_MAX b with
      | Some line, Some col => Ok (mkLoc line col (simp c) d e)
      | _, _ => Err E_STRTOINT
      end in
    match pieces 4 t with
    | [a; b; c; d] => mk a b c d []
    | [a; b; c; d; e] => mk a b c d e
    | _ => Err E_FRAME
    end.

  (* the call-stack loop; `want` = stackSize - frames read so far (>= 1).  Every
     iteration consumes input, so fuel = length of the input is never exhausted
     (exhaustion is reported as E_FUEL, never as a normal answer). *)
  Fixpoint read_frames (fuel : nat) (want : N) (s : str) : res (list loc) :=
    match fuel with
    | O => Err E_FUEL
    | S f =>
        match read_uint s with
        | None => Err E_LEN_ST
        | Some (len, r) =>
            match r with
            | 32 :: r' =>
                if len =? 0 then Err E_FRAME
                else if ltb_len r' len then Err E_EOD_ST
                else match parse_frame (firstn (N.to_nat len) r') with
                     | Err e => Err e
                     | Ok l => if want <=? 1 then Ok [l]
                               else match read_frames f (want - 1) (skipn (N.to_nat len) r') with
                                    | Err e => Err e
                                    | Ok ls => Ok (l :: ls)
                                    end
                     end
            | _ => Err E_SEP_ST
            end
        end
    end.

  Definition deserialize (data : str) : res msg :=
    match read_fields 10 data with
    | Err e => Err e
    | Ok (fs, r) =>
        match fs with
        | [f0; f1; f2; f3; f4; f5; f6; f7; f8; f9] =>
            match (if is_nil f2 then Some 0 else str_to_uint USHRT_MAX f2) with
            | None => Err E_CWE
            | Some cwe =>
                match (if is_nil f3 then Some 0 else str_to_uint SIZE_MAX f3) with
                | None => Err E_HASH
                | Some hash =>
                    let mk st := mkMsg f0 (sev_from_string f1) cwe hash f4 f5 (str_eqb f6 [49]) f7 f8 f9 st in
                    match read_uint r with
                    | None => Err E_STACKSIZE
                    | Some (n, r1) =>
                        match r1 with
                        | 32 :: r2 =>
                            if n =? 0 then Ok (mk [])
                            else match read_frames (S (length r2)) n r2 with
                                 | Err e => Err e
                                 | Ok st => Ok (mk st)
                                 end
                        | _ => Err E_SEP
                        end
                    end
                end
            end
        | _ => Err E_FUEL
        end
    end.
End Codec.

(* what the receiving side holds after a fault-free transfer *)
Definition normalise (m : msg) : msg :=
  mkMsg (m_id m) (m_sev m) (m_cwe m) (m_hash m) (fix_invalid_chars (m_remark m)) (m_file0 m) (m_inc m)
        (fix_invalid_chars (m_short m)) (fix_invalid_chars (m_verbose m)) (m_symbols m) (m_stack m).

(* hypotheses of the round trip, as a decidable predicate *)
Definition no_tab (s : str) : bool := forallb (fun c => negb (c =? 9)) s.
Definition small (s : str) : bool := len_of s <? U32.

Definition loc_ok (simp : str -> str) (l : loc) : bool :=
  ((INT_MIN <=? l_line l) && (l_line l <=? INT_MAX))%Z && (l_col l <? U32)
  && no_tab (l_file l) && no_tab (l_orig l) && str_eqb (simp (l_file l)) (l_file l)
  && small (frame_str l).

Definition wire_ok (simp : str -> str) (m : msg) : bool :=
  (m_sev m <? sev_count) && (m_cwe m <=? USHRT_MAX) && (m_hash m <=? SIZE_MAX)
  && small (m_id m) && small (fix_invalid_chars (m_remark m)) && small (m_file0 m)
  && small (fix_invalid_chars (m_short m)) && small (fix_invalid_chars (m_verbose m))
  && small (m_symbols m) && (len_of (m_stack m) <? U32)
  && forallb (loc_ok simp) (m_stack m).

(* ------------------------------------------------------------------ *)
(* Executor::hasToLog.  What it reads of a message: the suppression view
   (SuppressionList::ErrorMessage::fromErrorMessage), the rendered text
   (toString(verbose, templateFormat, templateLocation)) and whether the
   severity is `internal`.  State: the shared nomsg list and mErrorList. *)
Record pmsg := mkP { p_e : emsg; p_text : str; p_internal : bool }.
Record hstate := mkH { h_nomsg : list supp; h_seen : list str }.

Section HasToLog.
  Variable pm : str -> str -> bool.
  Variable emit_duplicates : bool.

  Definition has_to_log (st : hstate) (m : pmsg) : option (hstate * bool) :=
    if p_internal m then Some (st, true)
    else match list_is_suppressed pm (h_nomsg st) (p_e m) true with
         | None => None
         | Some (nomsg1, suppressed) =>
             if suppressed then Some (mkH nomsg1 (h_seen st), false)
             else if is_nil (p_text m) then Some (mkH nomsg1 (h_seen st), false)
             else if emit_duplicates then Some (mkH nomsg1 (h_seen st), true)
             else if mem_str (p_text m) (h_seen st) then Some (mkH nomsg1 (h_seen st), false)
             else Some (mkH nomsg1 (p_text m :: h_seen st), true)
         end.

  (* a whole arrival order through the filter: final state and forwarded messages *)
  Fixpoint log_run (st : hstate) (ms : list pmsg) : option (hstate * list pmsg) :=
    match ms with
    | [] => Some (st, [])
    | m :: r => match has_to_log st m with
                | None => None
                | Some (st1, b) =>
                    match log_run st1 r with
                    | None => None
                    | Some (st2, out) => Some (st2, if b then m :: out else out)
                    end
                end
    end.
End HasToLog.

(* ------------------------------------------------------------------ *)
(* What hasToLog reads of a full message.  The duplicate key is
   msg.toString(verbose, templateFormat, templateLocation): the head line from the
   LAST frame and, when the call stack has at least two frames and the location
   template is not empty, one more line per frame (the note trail).  Rendered here
   for the fixed pair of templates the correspondence harness sets:
     templateFormat   = "{file}:{line}:{column}:{id}:{message}"
     templateLocation = "{file}:{line}:{column}:{info}"
   (field contents without '{': findAndReplace is then plain substitution).
   The suppression view is SuppressionList::ErrorMessage::fromErrorMessage(msg, {}). *)
Definition COLON : N := 58.

Definition render_pos (l : loc) : str :=
  l_file l ++ COLON :: dec_of_Z (l_line l) ++ COLON :: dec_of_N (l_col l).

Definition render_note (short : str) (l : loc) : str :=
  10 :: render_pos l ++ COLON :: (if is_nil (l_info l) then short else l_info l).

Definition NOFILE_POS : str := [110;111;102;105;108;101;58;48;58;48].   (* "nofile:0:0" *)

Definition render (verbose : bool) (m : msg) : str :=
  (match rev (m_stack m) with l :: _ => render_pos l | [] => NOFILE_POS end)
  ++ COLON :: m_id m ++ COLON :: (if verbose then m_verbose m else m_short m)
  ++ (if 2 <=? len_of (m_stack m) then flat_map (render_note (m_short m)) (m_stack m) else []).

Definition emsg_of_msg (m : msg) : emsg :=
  match rev (m_stack m) with
  | l :: _ => mkEmsg (m_hash m) (m_id m) (l_file l) (l_line l) (m_symbols m) []
  | [] => mkEmsg (m_hash m) (m_id m) (m_file0 m) NO_LINE (m_symbols m) []
  end.

Definition pmsg_of_msg (verbose : bool) (m : msg) : pmsg :=
  mkP (emsg_of_msg m) (render verbose m) (m_sev m =? sev_internal).

(* SuppressionList::updateSuppressionState / the parent's merge of a child's
   REPORT_SUPPR record: join the flags into the entry with the same parameters *)
Definition same_params (a b : supp) : bool :=
  str_eqb (s_id a) (s_id b) && str_eqb (s_file a) (s_file b) && (s_line a =? s_line b)%Z
  && str_eqb (s_symbol a) (s_symbol b) && (s_hash a =? s_hash b) && Bool.eqb (s_next a) (s_next b).

Fixpoint update_state (l : list supp) (u : supp) : list supp :=
  match l with
  | [] => []
  | s :: r => if same_params u s
              then set_flags s (s_matched u) (s_checked u) :: r
              else s :: update_state r u
  end.
