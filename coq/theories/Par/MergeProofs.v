(* Order independence of the parallel executors' shared filter (Executor::hasToLog):
   whatever the arrival order of the per-file message streams, the same multiset of
   observations is forwarded and the shared suppression list ends in the same state. *)
From CV Require Import Base.Bytes Base.Glob Supp.Defs Par.Defs.
Require Import Lia ZifyBool Permutation.
Local Open Scope N_scope.

(* ---------- interleavings ---------- *)
Inductive merge2 {A} : list A -> list A -> list A -> Prop :=
| merge2_nil : merge2 [] [] []
| merge2_l x l1 l2 l : merge2 l1 l2 l -> merge2 (x :: l1) l2 (x :: l)
| merge2_r x l1 l2 l : merge2 l1 l2 l -> merge2 l1 (x :: l2) (x :: l).

(* n streams: the next element is the head of any one stream *)
Inductive interleave {A} : list (list A) -> list A -> Prop :=
| il_nil ls : Forall (fun s => s = []) ls -> interleave ls []
| il_cons pre x s post r :
    interleave (pre ++ s :: post) r -> interleave (pre ++ (x :: s) :: post) (x :: r).

Lemma merge2_perm {A} (l1 l2 l : list A) : merge2 l1 l2 l -> Permutation (l1 ++ l2) l.
Proof.
  induction 1 as [|x l1 l2 l _ IH|x l1 l2 l _ IH]; cbn [app].
  - constructor.
  - constructor. exact IH.
  - apply Permutation_sym. apply Permutation_cons_app. apply Permutation_sym. exact IH.
Qed.

Lemma concat_all_nil {A} (ls : list (list A)) : Forall (fun s => s = []) ls -> concat ls = [].
Proof. induction 1 as [|s ls Hs _ IH]; cbn [concat]; [reflexivity|]. rewrite Hs, IH. reflexivity. Qed.

Lemma interleave_perm {A} (ls : list (list A)) r : interleave ls r -> Permutation (concat ls) r.
Proof.
  induction 1 as [ls H|pre x s post r _ IH].
  - rewrite (concat_all_nil ls H). constructor.
  - rewrite concat_app in *. cbn [concat] in *. cbn [app].
    apply Permutation_sym. apply Permutation_cons_app. apply Permutation_sym. exact IH.
Qed.

Lemma merge2_interleave {A} (l1 l2 l : list A) : merge2 l1 l2 l -> interleave [l1; l2] l.
Proof.
  induction 1 as [|x l1 l2 l _ IH|x l1 l2 l _ IH].
  - constructor. repeat constructor.
  - exact (il_cons [] x l1 [l2] l IH).
  - exact (il_cons [l1] x l2 [] l IH).
Qed.

(* ---------- one suppression, one query: the flags are joined in, nothing else changes ---------- *)
Section Merge.
  Variable pm : str -> str -> bool.

  Definition skipc (g : bool) (e : emsg) (s : supp) : bool :=
    (negb g && negb (is_local s)) || (str_eqb (e_id e) UNMATCHED && negb (str_eqb (s_id s) (e_id e))).

  (* (matched, checked, answer) contributed by suppression s for message e *)
  Definition eres (g : bool) (e : emsg) (s : supp) : option (bool * bool * bool) :=
    if skipc g e s then Some (false, false, false)
    else match is_suppressed pm s e with
         | None => None
         | Some RNone => Some (false, false, false)
         | Some RChecked => Some (false, true, false)
         | Some RMatched => Some (true, true, true)
         end.

  Definition estep (g : bool) (e : emsg) (s : supp) : option (supp * bool) :=
    match eres g e s with
    | None => None
    | Some (m, c, b) => Some (set_flags s m c, b)
    end.

  Lemma set_flags_ff s : set_flags s false false = s.
  Proof. destruct s. unfold set_flags. cbn. rewrite !orb_false_r. reflexivity. Qed.

  Lemma set_flags_comm s m1 c1 m2 c2 :
    set_flags (set_flags s m1 c1) m2 c2 = set_flags (set_flags s m2 c2) m1 c1.
  Proof.
    unfold set_flags. cbn. f_equal.
    - rewrite <- !orb_assoc. f_equal. apply orb_comm.
    - rewrite <- !orb_assoc. f_equal. apply orb_comm.
  Qed.

  Lemma eres_set_flags g e s m c : eres g e (set_flags s m c) = eres g e s.
  Proof. reflexivity. Qed.

  Lemma lis_cons g e s r :
    list_is_suppressed pm (s :: r) e g =
    match estep g e s with
    | None => None
    | Some (s', b1) => match list_is_suppressed pm r e g with
                       | None => None
                       | Some (r', b2) => Some (s' :: r', b1 || b2)
                       end
    end.
  Proof.
    cbn [list_is_suppressed]. unfold estep, eres, skipc.
    destruct ((negb g && negb (is_local s))
              || (str_eqb (e_id e) UNMATCHED && negb (str_eqb (s_id s) (e_id e)))) eqn:Hc.
    - rewrite set_flags_ff. destruct (list_is_suppressed pm r e g) as [[r' b]|]; reflexivity.
    - unfold is_match. destruct (is_suppressed pm s e) as [[| |]|]; try reflexivity.
      rewrite set_flags_ff. reflexivity.
  Qed.

  Lemma estep_comm g e1 e2 s s1 b1 s12 b2 :
    estep g e1 s = Some (s1, b1) -> estep g e2 s1 = Some (s12, b2) ->
    exists s2, estep g e2 s = Some (s2, b2) /\ estep g e1 s2 = Some (s12, b1).
  Proof.
    unfold estep. destruct (eres g e1 s) as [[[m1 c1] x1]|] eqn:E1; [|discriminate].
    intros H; injection H as <- <-. rewrite eres_set_flags.
    destruct (eres g e2 s) as [[[m2 c2] x2]|] eqn:E2; [|discriminate].
    intros H; injection H as <- <-.
    exists (set_flags s m2 c2). split; [reflexivity|].
    rewrite eres_set_flags, E1, set_flags_comm. reflexivity.
  Qed.

  Lemma lis_comm g e1 e2 l : forall l1 b1 l12 b2,
    list_is_suppressed pm l e1 g = Some (l1, b1) -> list_is_suppressed pm l1 e2 g = Some (l12, b2) ->
    exists l2, list_is_suppressed pm l e2 g = Some (l2, b2) /\ list_is_suppressed pm l2 e1 g = Some (l12, b1).
  Proof.
    induction l as [|s r IH]; intros l1 b1 l12 b2 H1 H2.
    - cbn in H1. injection H1 as <- <-. cbn in H2. injection H2 as <- <-. exists []. split; reflexivity.
    - rewrite lis_cons in H1.
      destruct (estep g e1 s) as [[s1 x1]|] eqn:Es1; [|discriminate].
      destruct (list_is_suppressed pm r e1 g) as [[r1 y1]|] eqn:Er1; [|discriminate].
      injection H1 as <- <-. rewrite lis_cons in H2.
      destruct (estep g e2 s1) as [[s12 x2]|] eqn:Es2; [|discriminate].
      destruct (list_is_suppressed pm r1 e2 g) as [[r12 y2]|] eqn:Er2; [|discriminate].
      injection H2 as <- <-.
      destruct (estep_comm _ _ _ _ _ _ _ _ Es1 Es2) as (s2 & Ea & Eb).
      destruct (IH _ _ _ _ eq_refl Er2) as (r2 & Ra & Rb).
      exists (s2 :: r2). rewrite !lis_cons, Ea, Ra, Eb, Rb. split; reflexivity.
  Qed.

  (* ---------- the duplicate set ---------- *)
  Variable ed : bool.

  Definition seen_eq (a b : list str) : Prop := forall t, mem_str t a = mem_str t b.
  Definition st_eq (a b : hstate) : Prop := h_nomsg a = h_nomsg b /\ seen_eq (h_seen a) (h_seen b).

  Definition dd (seen : list str) (cand : bool) (text : str) : list str * bool :=
    if cand then
      if ed then (seen, true)
      else if mem_str text seen then (seen, false) else (text :: seen, true)
    else (seen, false).

  Lemma has_to_log_dd st m :
    has_to_log pm ed st m =
    if p_internal m then Some (st, true)
    else match list_is_suppressed pm (h_nomsg st) (p_e m) true with
         | None => None
         | Some (n1, sup) =>
             let r := dd (h_seen st) (negb sup && negb (is_nil (p_text m))) (p_text m) in
             Some (mkH n1 (fst r), snd r)
         end.
  Proof.
    unfold has_to_log, dd. destruct (p_internal m); [reflexivity|].
    destruct (list_is_suppressed pm (h_nomsg st) (p_e m) true) as [[n1 sup]|]; [|reflexivity].
    destruct sup; cbn [negb andb fst snd]; [reflexivity|].
    destruct (is_nil (p_text m)); cbn [negb fst snd]; [reflexivity|].
    destruct ed; cbn [fst snd]; [reflexivity|].
    destruct (mem_str (p_text m) (h_seen st)); reflexivity.
  Qed.

  Lemma mem_str_cons t x l : mem_str t (x :: l) = str_eqb t x || mem_str t l.
  Proof. reflexivity. Qed.

  Lemma str_eqb_refl t : str_eqb t t = true.
  Proof. apply str_eqb_eq. reflexivity. Qed.

  Lemma str_eqb_sym a b : str_eqb a b = str_eqb b a.
  Proof.
    destruct (str_eqb a b) eqn:E1, (str_eqb b a) eqn:E2; try reflexivity.
    - apply str_eqb_eq in E1. subst. rewrite str_eqb_refl in E2. discriminate.
    - apply str_eqb_eq in E2. subst. rewrite str_eqb_refl in E1. discriminate.
  Qed.

  Lemma dd_congr s s' c t : seen_eq s s' ->
    snd (dd s c t) = snd (dd s' c t) /\ seen_eq (fst (dd s c t)) (fst (dd s' c t)).
  Proof.
    intros H. unfold dd. destruct c; [|split; [reflexivity|exact H]].
    destruct ed; [split; [reflexivity|exact H]|].
    rewrite (H t). destruct (mem_str t s'); cbn [fst snd]; split; try reflexivity; try exact H.
    intros u. rewrite !mem_str_cons, (H u). reflexivity.
  Qed.

  (* observation of a forwarded message; determined by the rendered text for
     non-internal messages (in text mode the observation IS the text) *)
  Variable Obs : Type.
  Variable obs : pmsg -> Obs.
  Hypothesis obs_text : forall a b, p_internal a = false -> p_internal b = false ->
                                    p_text a = p_text b -> obs a = obs b.

  Definition sel (b : bool) (m : pmsg) : list Obs := if b then [obs m] else [].

  Lemma dd_swap seen a b ca cb :
    p_internal a = false -> p_internal b = false ->
    let r1 := dd seen ca (p_text a) in
    let r2 := dd (fst r1) cb (p_text b) in
    let q1 := dd seen cb (p_text b) in
    let q2 := dd (fst q1) ca (p_text a) in
    seen_eq (fst r2) (fst q2) /\
    Permutation (sel (snd r1) a ++ sel (snd r2) b) (sel (snd q1) b ++ sel (snd q2) a).
  Proof.
    intros Ia Ib. unfold dd, sel.
    destruct ca, cb; cbn [fst snd app]; try (split; [intros u; reflexivity|apply Permutation_refl]).
    - destruct ed; cbn [fst snd app].
      + split; [intros u; reflexivity|apply perm_swap].
      + destruct (mem_str (p_text a) seen) eqn:Ma, (mem_str (p_text b) seen) eqn:Mb; cbn [fst snd app].
        * rewrite Ma, Mb. cbn [fst snd app]. split; [intros u; reflexivity|apply Permutation_refl].
        * rewrite Mb, mem_str_cons, Ma, orb_true_r. cbn [fst snd app].
          split; [intros u; reflexivity|apply Permutation_refl].
        * rewrite mem_str_cons, Mb, orb_true_r, Ma. cbn [fst snd app].
          split; [intros u; reflexivity|apply Permutation_refl].
        * rewrite !mem_str_cons, Ma, Mb, !orb_false_r. rewrite (str_eqb_sym (p_text a) (p_text b)).
          destruct (str_eqb (p_text b) (p_text a)) eqn:E; cbn [fst snd app].
          -- apply str_eqb_eq in E. rewrite (obs_text b a Ib Ia E). rewrite E.
             split; [intros u; reflexivity|apply Permutation_refl].
          -- split; [|apply perm_swap].
             intros u. rewrite !mem_str_cons.
             destruct (str_eqb u (p_text a)), (str_eqb u (p_text b)); reflexivity.
    - destruct ed; cbn [fst snd app]; [split; [intros u; reflexivity|apply Permutation_refl]|].
      destruct (mem_str (p_text a) seen); cbn [fst snd app];
        (split; [intros u; reflexivity|rewrite ?app_nil_r; apply Permutation_refl]).
    - destruct ed; cbn [fst snd app]; [split; [intros u; reflexivity|apply Permutation_refl]|].
      destruct (mem_str (p_text b) seen); cbn [fst snd app];
        (split; [intros u; reflexivity|rewrite ?app_nil_r; apply Permutation_refl]).
  Qed.

  (* ---------- one step respects state equivalence ---------- *)
  Lemma htl_congr st st' m s1 b : st_eq st st' -> has_to_log pm ed st m = Some (s1, b) ->
    exists s1', has_to_log pm ed st' m = Some (s1', b) /\ st_eq s1 s1'.
  Proof.
    intros [Hn Hs]. rewrite !has_to_log_dd. destruct (p_internal m).
    - intros H; injection H as <- <-. exists st'. split; [reflexivity|split; assumption].
    - rewrite <- Hn. destruct (list_is_suppressed pm (h_nomsg st) (p_e m) true) as [[n1 sup]|]; [|discriminate].
      cbn zeta. intros H; injection H as <- <-.
      destruct (dd_congr _ _ (negb sup && negb (is_nil (p_text m))) (p_text m) Hs) as [E1 E2].
      eexists. split; [rewrite E1; reflexivity|]. split; [reflexivity|exact E2].
  Qed.

  Lemma log_run_congr ms : forall st st' s1 out, st_eq st st' -> log_run pm ed st ms = Some (s1, out) ->
    exists s1', log_run pm ed st' ms = Some (s1', out) /\ st_eq s1 s1'.
  Proof.
    induction ms as [|m r IH]; intros st st' s1 out He H; cbn [log_run] in *.
    - injection H as <- <-. exists st'. split; [reflexivity|exact He].
    - destruct (has_to_log pm ed st m) as [[sa b]|] eqn:Hm; [|discriminate].
      destruct (log_run pm ed sa r) as [[sb o]|] eqn:Hr; [|discriminate].
      injection H as <- <-.
      destruct (htl_congr _ _ _ _ _ He Hm) as (sa' & Hm' & Hea).
      destruct (IH _ _ _ _ Hea Hr) as (sb' & Hr' & Heb).
      exists sb'. rewrite Hm', Hr'. split; [reflexivity|exact Heb].
  Qed.

  (* ---------- two adjacent arrivals can be exchanged ---------- *)
  Lemma htl_swap st a b s1 ba s2 bb :
    has_to_log pm ed st a = Some (s1, ba) -> has_to_log pm ed s1 b = Some (s2, bb) ->
    exists t1 bb' t2 ba',
      has_to_log pm ed st b = Some (t1, bb') /\ has_to_log pm ed t1 a = Some (t2, ba') /\
      st_eq s2 t2 /\ Permutation (sel ba a ++ sel bb b) (sel bb' b ++ sel ba' a).
  Proof.
    rewrite !has_to_log_dd.
    destruct (p_internal a) eqn:Ia, (p_internal b) eqn:Ib.
    - intros H1; injection H1 as <- <-. intros H2; injection H2 as <- <-.
      exists st, true, st, true. rewrite ?has_to_log_dd, ?Ia, ?Ib.
      repeat split; try reflexivity. apply perm_swap.
    - intros H1; injection H1 as <- <-. intros H2.
      exists s2, bb, s2, true. rewrite ?has_to_log_dd, ?Ia, ?Ib.
      split; [exact H2|]. split; [reflexivity|]. split; [split; [reflexivity|intros u; reflexivity]|].
      unfold sel. destruct bb; cbn [app]; [apply perm_swap|apply Permutation_refl].
    - intros H1 H2. injection H2 as <- <-.
      exists st, true, s1, ba. rewrite ?has_to_log_dd, ?Ia, ?Ib.
      split; [reflexivity|]. split; [exact H1|]. split; [split; [reflexivity|intros u; reflexivity]|].
      unfold sel. destruct ba; cbn [app]; [apply perm_swap|apply Permutation_refl].
    - destruct (list_is_suppressed pm (h_nomsg st) (p_e a) true) as [[n1 sa]|] eqn:La; [|discriminate].
      cbn zeta. intros H1; injection H1 as <- <-. cbn [h_nomsg h_seen].
      destruct (list_is_suppressed pm n1 (p_e b) true) as [[n12 sb]|] eqn:Lb; [|discriminate].
      cbn zeta. intros H2; injection H2 as <- <-.
      destruct (lis_comm _ _ _ _ _ _ _ _ La Lb) as (n2 & Lb' & La').
      pose proof (dd_swap (h_seen st) a b (negb sa && negb (is_nil (p_text a)))
                          (negb sb && negb (is_nil (p_text b))) Ia Ib) as [Hs Hp].
      set (ca := negb sa && negb (is_nil (p_text a))) in *.
      set (cb := negb sb && negb (is_nil (p_text b))) in *.
      exists (mkH n2 (fst (dd (h_seen st) cb (p_text b)))), (snd (dd (h_seen st) cb (p_text b))),
             (mkH n12 (fst (dd (fst (dd (h_seen st) cb (p_text b))) ca (p_text a)))),
             (snd (dd (fst (dd (h_seen st) cb (p_text b))) ca (p_text a))).
      rewrite ?has_to_log_dd, ?Ia, ?Ib, ?Lb'. cbn zeta. cbn [h_nomsg h_seen].
      rewrite La'. cbn zeta. fold ca. fold cb.
      split; [reflexivity|]. split; [reflexivity|]. split; [split; [reflexivity|exact Hs]|exact Hp].
  Qed.

  Lemma sel_map (b : bool) (m : pmsg) (out : list pmsg) : map obs (if b then m :: out else out) = sel b m ++ map obs out.
  Proof. destruct b; reflexivity. Qed.

  (* ---------- any reordering ---------- *)
  Theorem log_run_perm ms ms' : Permutation ms ms' ->
    forall st st' s1 out1, st_eq st st' -> log_run pm ed st ms = Some (s1, out1) ->
    exists s2 out2, log_run pm ed st' ms' = Some (s2, out2) /\ st_eq s1 s2
                    /\ Permutation (map obs out1) (map obs out2).
  Proof.
    induction 1 as [|x l l' _ IH|x y l|l l' l'' _ IH1 _ IH2]; intros st st' s1 out1 He H.
    - cbn [log_run] in *. injection H as <- <-. exists st', []. repeat split; try apply He. constructor.
    - cbn [log_run] in *.
      destruct (has_to_log pm ed st x) as [[sa b]|] eqn:Hx; [|discriminate].
      destruct (log_run pm ed sa l) as [[sb o]|] eqn:Hr; [|discriminate].
      injection H as <- <-.
      destruct (htl_congr _ _ _ _ _ He Hx) as (sa' & Hx' & Hea).
      destruct (IH _ _ _ _ Hea Hr) as (s2 & o2 & Hr' & He2 & Hp).
      exists s2, (if b then x :: o2 else o2). rewrite Hx', Hr'. split; [reflexivity|].
      split; [exact He2|]. rewrite !sel_map. apply Permutation_app_head. exact Hp.
    - (* ms = y :: x :: l, ms' = x :: y :: l *)
      cbn [log_run] in H.
      destruct (has_to_log pm ed st y) as [[sa by_]|] eqn:Hy; [|discriminate].
      destruct (has_to_log pm ed sa x) as [[sb bx]|] eqn:Hx; [|discriminate].
      destruct (log_run pm ed sb l) as [[sc o]|] eqn:Hr; [|discriminate].
      injection H as <- <-.
      destruct (htl_swap _ _ _ _ _ _ _ Hy Hx) as (t1 & bx' & t2 & by' & Hx1 & Hy1 & Het & Hp).
      destruct (htl_congr _ _ _ _ _ He Hx1) as (u1 & Hx2 & Heu1).
      destruct (htl_congr _ _ _ _ _ Heu1 Hy1) as (u2 & Hy2 & Heu2).
      assert (Hsb : st_eq sb u2).
      { destruct Het as [A B], Heu2 as [C D]. split; [congruence|]. intros t. rewrite (B t). apply D. }
      destruct (log_run_congr _ _ _ _ _ Hsb Hr) as (sc' & Hr' & Hec).
      exists sc', (if bx' then x :: (if by' then y :: o else o) else (if by' then y :: o else o)).
      cbn [log_run]. rewrite Hx2, Hy2, Hr'. split; [reflexivity|]. split; [exact Hec|].
      rewrite !sel_map. rewrite !app_assoc. apply Permutation_app_tail. exact Hp.
    - destruct (IH1 _ st _ _ (conj eq_refl (fun t => eq_refl)) H) as (sm & om & Hm & Hem & Hpm).
      destruct (IH2 _ _ _ _ He Hm) as (s2 & o2 & H2 & He2 & Hp2).
      exists s2, o2. split; [exact H2|]. split.
      + destruct Hem as [A B], He2 as [C D]. split; [congruence|]. intros t. rewrite (B t). apply D.
      + eapply Permutation_trans; eassumption.
  Qed.

  (* the statement for worker streams: any two interleavings of the same streams *)
  Theorem merge_order_independent (streams : list (list pmsg)) r1 r2 st s1 out1 :
    interleave streams r1 -> interleave streams r2 ->
    log_run pm ed st r1 = Some (s1, out1) ->
    exists s2 out2, log_run pm ed st r2 = Some (s2, out2)
                    /\ h_nomsg s1 = h_nomsg s2
                    /\ (forall t, mem_str t (h_seen s1) = mem_str t (h_seen s2))
                    /\ Permutation (map obs out1) (map obs out2).
  Proof.
    intros I1 I2 H.
    assert (P : Permutation r1 r2).
    { eapply Permutation_trans; [apply Permutation_sym; apply interleave_perm; exact I1|].
      apply interleave_perm. exact I2. }
    destruct (log_run_perm _ _ P st st s1 out1 (conj eq_refl (fun t => eq_refl)) H) as (s2 & o2 & H2 & [A B] & Hp).
    exists s2, o2. repeat split; assumption.
  Qed.

  Corollary merge2_order_independent (l1 l2 r1 r2 : list pmsg) st s1 out1 :
    merge2 l1 l2 r1 -> merge2 l1 l2 r2 ->
    log_run pm ed st r1 = Some (s1, out1) ->
    exists s2 out2, log_run pm ed st r2 = Some (s2, out2)
                    /\ h_nomsg s1 = h_nomsg s2 /\ Permutation (map obs out1) (map obs out2).
  Proof.
    intros M1 M2 H.
    destruct (merge_order_independent [l1; l2] r1 r2 st s1 out1 (merge2_interleave _ _ _ M1)
                                      (merge2_interleave _ _ _ M2) H) as (s2 & o2 & A & B & _ & D).
    exists s2, o2. repeat split; assumption.
  Qed.
End Merge.

(* text output: the observation is the rendered text itself *)
Lemma merge_texts pm ed (streams : list (list pmsg)) r1 r2 st s1 out1 :
  interleave streams r1 -> interleave streams r2 ->
  log_run pm ed st r1 = Some (s1, out1) ->
  exists s2 out2, log_run pm ed st r2 = Some (s2, out2) /\ h_nomsg s1 = h_nomsg s2
                  /\ Permutation (map (fun m => (p_internal m, p_text m)) (filter (fun m => negb (p_internal m)) out1))
                                 (map (fun m => (p_internal m, p_text m)) (filter (fun m => negb (p_internal m)) out2)).
Proof.
  intros I1 I2 H.
  destruct (merge_order_independent pm ed (option str)
              (fun m => if p_internal m then None else Some (p_text m))
              (fun a b Ia Ib E => ltac:(cbv beta; rewrite Ia, Ib, E; reflexivity)) streams r1 r2 st s1 out1 I1 I2 H)
    as (s2 & o2 & A & B & _ & P).
  exists s2, o2. split; [exact A|]. split; [exact B|].
  assert (F : forall l, map (fun m => (p_internal m, p_text m)) (filter (fun m => negb (p_internal m)) l)
                        = flat_map (fun o => match o with Some t => [(false, t)] | None => [] end)
                                   (map (fun m => if p_internal m then None else Some (p_text m)) l)).
  { induction l as [|x l IH]; [reflexivity|]. cbn [filter map flat_map].
    destruct (p_internal x) eqn:E; cbn [negb map app]; rewrite ?E, IH; reflexivity. }
  rewrite !F. clear F. induction P; cbn [flat_map].
  - constructor.
  - apply Permutation_app_head. assumption.
  - rewrite !app_assoc. apply Permutation_app_tail. apply Permutation_app_comm.
  - eapply Permutation_trans; eassumption.
Qed.

(* the same for streams of full messages (multi-frame call stacks): the key is the full
   rendered text, head line and note trail *)
Lemma interleave_map {A B} (f : A -> B) (ls : list (list A)) r :
  interleave ls r -> interleave (map (map f) ls) (map f r).
Proof.
  induction 1 as [ls H|pre x s post r _ IH].
  - constructor. induction H as [|s l Hs _ IHl]; cbn [map]; constructor; [rewrite Hs; reflexivity|exact IHl].
  - rewrite map_app in *. cbn [map] in *. apply il_cons. exact IH.
Qed.

Lemma merge_msgs_texts pm ed vb (streams : list (list msg)) r1 r2 st s1 out1 :
  interleave streams r1 -> interleave streams r2 ->
  log_run pm ed st (map (pmsg_of_msg vb) r1) = Some (s1, out1) ->
  exists s2 out2, log_run pm ed st (map (pmsg_of_msg vb) r2) = Some (s2, out2) /\ h_nomsg s1 = h_nomsg s2
                  /\ Permutation (map (fun m => (p_internal m, p_text m)) (filter (fun m => negb (p_internal m)) out1))
                                 (map (fun m => (p_internal m, p_text m)) (filter (fun m => negb (p_internal m)) out2)).
Proof.
  intros I1 I2 H.
  exact (merge_texts pm ed (map (map (pmsg_of_msg vb)) streams) _ _ st s1 out1
                     (interleave_map _ _ _ I1) (interleave_map _ _ _ I2) H).
Qed.

(* two findings with the same head line and different note trails are different keys *)
Definition trail_a : msg :=
  mkMsg [122] 1 0 0 [] [97;46;99] false [109] [109] []
        [mkLoc 6 12 [97;46;99] [97;46;99] [110]; mkLoc 7 18 [104;46;104] [104;46;104] []].
Definition trail_b : msg :=
  mkMsg [122] 1 0 0 [] [98;46;99] false [109] [109] []
        [mkLoc 6 12 [98;46;99] [98;46;99] [110]; mkLoc 7 18 [104;46;104] [104;46;104] []].

Lemma trails_both_forwarded :
  exists s o, log_run (fun a b => str_eqb a b) false (mkH [] []) (map (pmsg_of_msg false) [trail_a; trail_b]) = Some (s, o)
              /\ length o = 2%nat
              /\ firstn 10 (render false trail_a) = firstn 10 (render false trail_b)
              /\ render false trail_a <> render false trail_b.
Proof. do 2 eexists. split; [vm_compute; reflexivity|]. split; [reflexivity|]. split; [reflexivity|discriminate]. Qed.

(* the observation is needed: with an observation finer than the rendered text
   (e.g. the XML rendering, which shows file0 while the default template does
   not) the forwarded message of a duplicate pair depends on the arrival order *)
Definition pm_eq (a b : str) : bool := str_eqb a b.
Definition dup_a : pmsg := mkP (mkEmsg 0 [120] [104] 1 [] []) [116] false.
Definition dup_b : pmsg := mkP (mkEmsg 0 [120] [104] 1 [] [[1]]) [116] false.

Theorem merge_full_message_refuted :
  exists l1 l2 r1 r2 o1 o2 s1 s2,
    merge2 l1 l2 r1 /\ merge2 l1 l2 r2 /\
    log_run pm_eq false (mkH [] []) r1 = Some (s1, o1) /\
    log_run pm_eq false (mkH [] []) r2 = Some (s2, o2) /\ o1 <> o2 /\ length o1 = 1%nat /\ length o2 = 1%nat.
Proof.
  exists [dup_a], [dup_b], [dup_a; dup_b], [dup_b; dup_a], [dup_a], [dup_b].
  do 2 eexists. repeat split; try (vm_compute; reflexivity).
  - apply merge2_l. apply merge2_r. constructor.
  - apply merge2_r. apply merge2_l. constructor.
  - discriminate.
Qed.

(* ---------- the parent's merge of the children's suppression states ---------- *)
Lemma same_params_set_flags u s m c : same_params u (set_flags s m c) = same_params u s.
Proof. reflexivity. Qed.

Lemma update_state_comm l : forall u1 u2,
  update_state (update_state l u1) u2 = update_state (update_state l u2) u1.
Proof.
  induction l as [|s r IH]; intros u1 u2; [reflexivity|].
  cbn [update_state].
  destruct (same_params u1 s) eqn:E1, (same_params u2 s) eqn:E2; cbn [update_state];
    rewrite ?same_params_set_flags, ?E1, ?E2; try reflexivity.
  - rewrite set_flags_comm. reflexivity.
  - rewrite IH. reflexivity.
Qed.

Theorem update_state_order_independent us us' : Permutation us us' ->
  forall l, fold_left update_state us l = fold_left update_state us' l.
Proof.
  induction 1 as [|x a b _ IH|x y a|a b c _ IH1 _ IH2]; intros l; cbn [fold_left].
  - reflexivity.
  - apply IH.
  - rewrite update_state_comm. reflexivity.
  - rewrite IH1. apply IH2.
Qed.
