(* C15 parallel_eq_single: witnesses for its hypotheses. *)
From CV Require Import Base.Bytes Base.Glob Supp.Defs Supp.ExecDefs Supp.ExecProofs Supp.ThreadProofs.
Local Open Scope N_scope.

Definition S_ZERODIV : str := [122;101;114;111;100;105;118].
Definition S_NULLP : str := [110;117;108;108;80;111;105;110;116;101;114].
Definition F_A : str := [97;46;99].
Definition T_SAME : str := [97;46;99;58;52].            (* "a.c:4": --template={file}:{line} *)

(* --suppress=zerodiv; a.c line 4 holds a nullPointer and a zerodiv finding whose rendered
   texts are equal (a template without id and message) *)
Definition wq_supp : supp := mkSupp S_ZERODIV [] NO_LINE NO_LINE NO_LINE TUnique [] [] 0 false false false false.
Definition wq_file : finput :=
  mkF F_A [] [(F_A, 4%Z)] [(mkEmsg 0 S_NULLP F_A 4 [] [], T_SAME); (mkEmsg 0 S_ZERODIV F_A 4 [] [], T_SAME)].
Definition wq_cfg : config := mkC 1 true false [].

(* before fix 243c78e (/repo) -j1 consulted the suppression for the second finding (before the
   duplicate test) while a worker dropped the duplicate without asking the global suppressions:
   the parallel executors reported the suppression as unmatched.  With the fix all three agree. *)
Theorem former_texts_witness_agrees :
  exists o1 o2 o3,
    whole_run pm_eq None wq_cfg [wq_supp] [] [wq_file] [] = Some o1
    /\ whole_run pm_eq (Some EThread) wq_cfg [wq_supp] [] [wq_file] [] = Some o2
    /\ whole_run pm_eq (Some EProcess) wq_cfg [wq_supp] [] [wq_file] [] = Some o3
    /\ o_unmatched o1 = [] /\ o_unmatched o2 = [] /\ o_unmatched o3 = []
    /\ map snd (o_reported o1) = map snd (o_reported o2) /\ map snd (o_reported o1) = map snd (o_reported o3)
    /\ o_status o1 = o_status o2 /\ o_status o1 = o_status o3.
Proof.
  do 3 eexists. split; [vm_compute; reflexivity|]. split; [vm_compute; reflexivity|]. split; [vm_compute; reflexivity|].
  repeat split; reflexivity.
Qed.

(* what is left of the hypothesis: a finding without any rendered text (not producible: the output
   templates are never empty) is dropped by a worker before the global suppressions see it *)
Definition we_file : finput := mkF F_A [] [(F_A, 4%Z)] [(mkEmsg 0 S_ZERODIV F_A 4 [] [], [])].
Theorem texts_nonempty_necessary_refuted :
  exists o1 o2,
    whole_run pm_eq None wq_cfg [wq_supp] [] [we_file] [] = Some o1
    /\ whole_run pm_eq (Some EProcess) wq_cfg [wq_supp] [] [we_file] [] = Some o2
    /\ o_unmatched o1 = [] /\ length (o_unmatched o2) = 1%nat.
Proof. do 2 eexists. split; [vm_compute; reflexivity|]. split; [vm_compute; reflexivity|]. split; reflexivity. Qed.

(* a macro suppression that is not file-local (not producible by the front ends: macro
   suppressions only come from inline comments, which carry their file): -j1 hides the
   finding, the parallel executors show it *)
Definition M_NAME : str := [77].
Definition wm_supp : supp := mkSupp S_ZERODIV [] NO_LINE NO_LINE NO_LINE TMacro [] M_NAME 0 false false false false.
Definition wm_file : finput := mkF F_A [] [(F_A, 4%Z)] [(mkEmsg 0 S_ZERODIV F_A 4 [] [M_NAME], T_SAME)].

Theorem macro_local_necessary_refuted :
  exists o1 o2,
    whole_run pm_eq None wq_cfg [wm_supp] [] [wm_file] [] = Some o1
    /\ whole_run pm_eq (Some EProcess) wq_cfg [wm_supp] [] [wm_file] [] = Some o2
    /\ o_reported o1 = [] /\ map snd (o_reported o2) = [T_SAME].
Proof. do 2 eexists. split; [vm_compute; reflexivity|]. split; [vm_compute; reflexivity|]. split; reflexivity. Qed.

(* the premises of thread_eq_single / process_eq_single are inhabited *)
Definition wi_file : finput := mkF F_A [] [(F_A, 4%Z)] [(mkEmsg 0 S_ZERODIV F_A 4 [] [], T_SAME)].
Lemma eq_single_premises_inhabited :
  (exists o1 o2 o3, whole_run pm_eq None wq_cfg [wq_supp] [] [wi_file] [] = Some o1
                    /\ whole_run pm_eq (Some EThread) wq_cfg [wq_supp] [] [wi_file] [] = Some o2
                    /\ whole_run pm_eq (Some EProcess) wq_cfg [wq_supp] [] [wi_file] [] = Some o3)
  /\ uniq [wq_supp] = true /\ Forall (inline_present [wq_supp]) [wi_file]
  /\ Forall (fun x => texts_nonempty (f_msgs x)) [wi_file] /\ Forall macro_local [wq_supp].
Proof.
  split; [do 3 eexists; split; [vm_compute; reflexivity|split; vm_compute; reflexivity]|].
  split; [reflexivity|]. split; [repeat constructor|]. split.
  - constructor; [|constructor]. intros m [<-|[]]. reflexivity.
  - constructor; [intros H; discriminate|constructor].
Qed.
