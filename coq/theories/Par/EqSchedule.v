(* C15 parallel_eq_single over every schedule: whatever the order in which the workers'
   forwarded findings reach the parent's filter (any interleaving of the per-file
   streams), the set of texts it lets through is the single executor's. *)
From CV Require Import Base.Bytes Base.Glob Supp.Defs Supp.Proofs Supp.ListProofs
                       Supp.ExecDefs Supp.ExecProofs Supp.ThreadProofs Par.EqSingle Par.EqProcess.
From CV Require Par.Defs Par.MergeProofs.
Require Import Lia Permutation.
Local Open Scope N_scope.

Section EqSchedule.
  Variable pm : str -> str -> bool.

  (* what the parent's hasToLog reads of a finding forwarded by a worker *)
  Definition to_p (m : emsg * str) : Par.Defs.pmsg := Par.Defs.mkP (no_macros (fst m)) (snd m) false.

  Definition pcand (n : list supp) (t : str) (m : Par.Defs.pmsg) : bool :=
    str_eqb t (Par.Defs.p_text m) && negb (is_nil (Par.Defs.p_text m))
    && negb (existsb (hides pm true (Par.Defs.p_e m)) n).

  Lemma pcand_static n n' t m : map static n' = map static n -> pcand n' t m = pcand n t m.
  Proof. intros H. unfold pcand. rewrite (existsb_hides_static pm _ _ _ _ H). reflexivity. Qed.

  Lemma pcand_to_p n t m : pcand n t (to_p m) = cand pm n t m.
  Proof. reflexivity. Qed.

  (* the filter on an arbitrary arrival order of non-internal findings, duplicates filtered *)
  Lemma log_run_texts ms : forall st s out,
    (forall m, In m ms -> Par.Defs.p_internal m = false) ->
    Par.Defs.log_run pm false st ms = Some (s, out) ->
    forall t, In t (map Par.Defs.p_text out) <->
              mem_str t (Par.Defs.h_seen st) = false /\ existsb (pcand (Par.Defs.h_nomsg st) t) ms = true.
  Proof.
    induction ms as [|m ms IH]; intros st s out Hni H t; cbn [Par.Defs.log_run] in H.
    - injection H as _ <-. cbn. split; [tauto|intros [_ X]; discriminate].
    - assert (Hm : Par.Defs.p_internal m = false) by (apply Hni; left; reflexivity).
      unfold Par.Defs.has_to_log in H. rewrite Hm in H.
      destruct (list_is_suppressed pm (Par.Defs.h_nomsg st) (Par.Defs.p_e m) true) as [[n1 sup]|] eqn:H1; [|discriminate].
      apply list_is_suppressed_eq in H1. destruct H1 as [-> ->].
      assert (Hst : map static (map (upd pm true (Par.Defs.p_e m)) (Par.Defs.h_nomsg st)) = map static (Par.Defs.h_nomsg st))
        by (rewrite map_upd_derive; apply map_static_derive).
      assert (Hc : forall t, existsb (pcand (map (upd pm true (Par.Defs.p_e m)) (Par.Defs.h_nomsg st)) t) ms
                             = existsb (pcand (Par.Defs.h_nomsg st) t) ms).
      { intros u. apply existsb_ext'. intros x. apply pcand_static. exact Hst. }
      assert (Hni' : forall x, In x ms -> Par.Defs.p_internal x = false) by (intros x Hx; apply Hni; right; exact Hx).
      cbn [existsb]. unfold pcand at 1.
      set (HID := existsb (hides pm true (Par.Defs.p_e m)) (Par.Defs.h_nomsg st)) in *.
      set (T := Par.Defs.p_text m) in *.
      destruct HID; cbn [negb andb orb] in *.
      + destruct (Par.Defs.log_run pm false _ ms) as [[s2 o2]|] eqn:Hr; [|discriminate].
        injection H as _ <-. rewrite (IH _ _ _ Hni' Hr t). cbn [Par.Defs.h_seen Par.Defs.h_nomsg].
        rewrite Hc, andb_false_r. cbn [orb]. reflexivity.
      + destruct (is_nil T) eqn:En; cbn [negb andb orb] in *.
        * destruct (Par.Defs.log_run pm false _ ms) as [[s2 o2]|] eqn:Hr; [|discriminate].
          injection H as _ <-. rewrite (IH _ _ _ Hni' Hr t). cbn [Par.Defs.h_seen Par.Defs.h_nomsg].
          rewrite Hc, andb_false_r. cbn [orb]. reflexivity.
        * destruct (mem_str T (Par.Defs.h_seen st)) eqn:Em.
          -- destruct (Par.Defs.log_run pm false _ ms) as [[s2 o2]|] eqn:Hr; [|discriminate].
             injection H as _ <-. rewrite (IH _ _ _ Hni' Hr t). cbn [Par.Defs.h_seen Par.Defs.h_nomsg].
             rewrite Hc, !andb_true_r.
             destruct (str_eqb t T) eqn:Et; cbn [orb]; [|reflexivity].
             apply str_eqb_true_eq in Et. subst t. split; [intros [X _]; congruence|intros [X _]; congruence].
          -- destruct (Par.Defs.log_run pm false _ ms) as [[s2 o2]|] eqn:Hr; [|discriminate].
             injection H as _ <-. cbn [map In]. fold T. rewrite (IH _ _ _ Hni' Hr t).
             cbn [Par.Defs.h_seen Par.Defs.h_nomsg mem_str existsb]. fold (mem_str t (Par.Defs.h_seen st)).
             rewrite Hc, !andb_true_r.
             destruct (str_eqb t T) eqn:Et; cbn [orb].
             ++ apply str_eqb_true_eq in Et. subst t. split; [intros _; split; [exact Em|reflexivity]|intros _; left; reflexivity].
             ++ split.
                ** intros [X|[X Y]]; [subst t; rewrite str_eqb_refl in Et; discriminate|split; assumption].
                ** intros [X Y]. right. split; assumption.
  Qed.

  Lemma existsb_perm {A} (p : A -> bool) l1 l2 : Permutation l1 l2 -> existsb p l1 = existsb p l2.
  Proof.
    intros P. apply existsb_same_elems; intros x Hx; [exact (Permutation_in x P Hx)|exact (Permutation_in x (Permutation_sym P) Hx)].
  Qed.

  Lemma existsb_concat_map {A B} (p : B -> bool) (g : A -> list B) l :
    existsb p (concat (map g l)) = existsb (fun x => existsb p (g x)) l.
  Proof. induction l as [|x l IH]; cbn [map concat existsb]; [reflexivity|]. rewrite existsb_app, IH. reflexivity. Qed.

  Lemma existsb_map {A B} (p : B -> bool) (g : A -> B) l : existsb p (map g l) = existsb (fun x => p (g x)) l.
  Proof. induction l as [|x l IH]; cbn [map existsb]; [reflexivity|]. rewrite IH. reflexivity. Qed.

  (* the workers' forwarded streams, one per file *)
  Definition worker_streams (n : list supp) (fs : list finput) : list (list Par.Defs.pmsg) :=
    map (fun x => map to_p (fwd pm n x)) fs.

  (* every arrival order at the parent: the texts let through are the single executor's *)
  Theorem any_schedule_reported_eq_single n fs r s out :
    Par.MergeProofs.interleave (worker_streams n fs) r ->
    Par.Defs.log_run pm false (Par.Defs.mkH n []) r = Some (s, out) ->
    Forall macro_local n ->
    forall t, In t (map Par.Defs.p_text out) <->
              In t (map snd (flat_map (fun x => pick (spec_forward pm true n [] (f_msgs x)) (f_msgs x)) fs)).
  Proof.
    intros I H Hml t.
    pose proof (Par.MergeProofs.interleave_perm _ _ I) as P.
    assert (Hni : forall m, In m r -> Par.Defs.p_internal m = false).
    { intros m Hm. apply (Permutation_in m (Permutation_sym P)) in Hm. unfold worker_streams in Hm.
      apply in_concat in Hm. destruct Hm as (l & Hl & Hm). apply in_map_iff in Hl. destruct Hl as (x & <- & _).
      apply in_map_iff in Hm. destruct Hm as (y & <- & _). reflexivity. }
    rewrite (log_run_texts r _ _ _ Hni H t). cbn [Par.Defs.h_seen Par.Defs.h_nomsg mem_str existsb].
    rewrite <- (existsb_perm _ _ _ P). unfold worker_streams. rewrite existsb_concat_map.
    rewrite (single_reported_texts pm n fs t Hml).
    assert (E : existsb (fun x => existsb (pcand n t) (map to_p (fwd pm n x))) fs
                = existsb (fun x => existsb (cand pm n t) (fwd pm n x)) fs).
    { apply existsb_ext'. intros x. rewrite existsb_map. apply existsb_ext'. intros m. apply pcand_to_p. }
    rewrite E. tauto.
  Qed.
End EqSchedule.
