(* Decimal printing (Base.Bytes.dec_of_N / dec_of_Z = std::to_string) read back by
   the three parsers of the codec: istream >> unsigned (read_uint), strToInt
   (str_to_int / str_to_uint) and the digit scanner. *)
From CV Require Import Base.Bytes Base.Glob Par.Defs.
Require Import Lia ZifyBool.
Local Open Scope N_scope.

Definition digit (c : N) : Prop := 48 <= c <= 57.

Lemma is_digit_iff c : is_digit c = true <-> digit c.
Proof. unfold is_digit, digit. lia. Qed.

Definition step (a c : N) : N := a * 10 + (c - 48).

Lemma dec_val_app a ds : fold_left step ds a = a * 10 ^ N.of_nat (length ds) + fold_left step ds 0.
Proof.
  revert a. induction ds as [|d ds IH]; intros a; cbn [fold_left length].
  - cbn. lia.
  - rewrite IH. rewrite (IH (step 0 d)). rewrite Nat2N.inj_succ, N.pow_succ_r'. unfold step. lia.
Qed.

(* no leading zero except for "0" itself *)
Definition lead_ok (ds : str) : Prop :=
  match ds with d :: _ :: _ => d <> 48 | _ => True end.

Lemma dec_digits_S f n acc :
  dec_digits (S f) n acc =
  if n / 10 =? 0 then (48 + n mod 10) :: acc else dec_digits f (n / 10) ((48 + n mod 10) :: acc).
Proof. reflexivity. Qed.

Lemma dec_digits_spec f : forall n acc, n < 10 ^ N.of_nat (S f) ->
  exists d ds, dec_digits (S f) n acc = (d :: ds) ++ acc /\ Forall digit (d :: ds)
            /\ fold_left step (d :: ds) 0 = n /\ (n <> 0 -> d <> 48) /\ (n = 0 -> ds = []).
Proof.
  induction f as [|f IH]; intros n acc Hn.
  - rewrite dec_digits_S. change (10 ^ N.of_nat 1) with 10 in Hn.
    assert (Hd : n / 10 = 0) by (apply N.div_small; exact Hn).
    rewrite Hd. cbn [N.eqb]. rewrite (N.mod_small n 10 Hn).
    exists (48 + n), []. repeat split.
    + constructor; [unfold digit; lia|constructor].
    + cbn [fold_left]. unfold step. lia.
    + lia.
  - rewrite dec_digits_S.
    destruct (n / 10 =? 0) eqn:Hd.
    + apply N.eqb_eq in Hd. assert (n < 10) by (apply N.div_small_iff in Hd; lia).
      rewrite (N.mod_small n 10) by assumption.
      exists (48 + n), []. repeat split.
      * constructor; [unfold digit; lia|constructor].
      * cbn [fold_left]. unfold step. lia.
      * lia.
    + apply N.eqb_neq in Hd.
      assert (Hq : n / 10 < 10 ^ N.of_nat (S f)).
      { apply N.div_lt_upper_bound; [lia|]. rewrite <- N.pow_succ_r'. rewrite <- Nat2N.inj_succ. exact Hn. }
      destruct (IH (n / 10) ((48 + n mod 10) :: acc) Hq) as (d & ds & He & Hf & Hv & Hz & _).
      exists d, (ds ++ [48 + n mod 10]). repeat split.
      * rewrite He. cbn [app]. rewrite <- app_assoc. reflexivity.
      * change (d :: ds ++ [48 + n mod 10]) with ((d :: ds) ++ [48 + n mod 10]).
        apply Forall_app. split; [exact Hf|].
        constructor; [|constructor]. unfold digit. assert (n mod 10 < 10) by (apply N.mod_upper_bound; lia). revert H. generalize (n mod 10). intros; lia.
      * change (d :: ds ++ [48 + n mod 10]) with ((d :: ds) ++ [48 + n mod 10]).
        rewrite fold_left_app. rewrite Hv. cbn [fold_left]. unfold step.
        pose proof (N.div_mod' n 10) as Hdm. revert Hdm. generalize (n mod 10) (n / 10). intros; lia.
      * intros _. apply Hz. exact Hd.
      * intros ->. exfalso. apply Hd. reflexivity.
Qed.

Lemma size_bound n : n < 10 ^ N.of_nat (S (N.to_nat (N.size n))).
Proof.
  rewrite Nat2N.inj_succ, N2Nat.id.
  destruct n as [|p]; [cbn; lia|].
  assert (H1 : N.pos p < 2 ^ N.size (N.pos p)) by (apply N.size_gt).
  assert (H2 : 2 ^ N.size (N.pos p) <= 10 ^ N.size (N.pos p)) by (apply N.pow_le_mono_l; lia).
  assert (H3 : 10 ^ N.size (N.pos p) <= 10 ^ N.succ (N.size (N.pos p))) by (apply N.pow_le_mono_r; lia).
  lia.
Qed.

Lemma dec_of_N_spec n :
  exists d ds, dec_of_N n = d :: ds /\ Forall digit (d :: ds)
            /\ fold_left step (d :: ds) 0 = n /\ (n <> 0 -> d <> 48) /\ (n = 0 -> ds = []).
Proof.
  unfold dec_of_N.
  destruct (dec_digits_spec (N.to_nat (N.size n)) n [] (size_bound n)) as (d & ds & He & H).
  exists d, ds. rewrite He, app_nil_r. split; [reflexivity|exact H].
Qed.

(* ---------- the digit scanner ---------- *)
Lemma take_digits_app ds c rest :
  Forall digit ds -> is_digit c = false -> take_digits (ds ++ c :: rest) = (ds, c :: rest).
Proof.
  intros Hd Hc. induction Hd as [|d ds Hdd _ IH]; cbn [app take_digits].
  - rewrite Hc. reflexivity.
  - apply is_digit_iff in Hdd. rewrite Hdd, IH. reflexivity.
Qed.

Lemma take_digits_all ds : Forall digit ds -> take_digits ds = (ds, []).
Proof.
  intros Hd. induction Hd as [|d ds Hdd _ IH]; cbn [take_digits]; [reflexivity|].
  apply is_digit_iff in Hdd. rewrite Hdd, IH. reflexivity.
Qed.

Lemma all_digits_iff ds : Forall digit ds -> all_digits ds = true.
Proof.
  intros Hd. unfold all_digits. apply forallb_forall. intros x Hx.
  rewrite Forall_forall in Hd. apply is_digit_iff. auto.
Qed.

(* ---------- istream >> unsigned int ---------- *)
Lemma read_uint_dec n c rest : n < U32 -> is_digit c = false ->
  read_uint (dec_of_N n ++ c :: rest) = Some (n, c :: rest).
Proof.
  intros Hn Hc. destruct (dec_of_N_spec n) as (d & ds & He & Hf & Hv & _).
  rewrite He. unfold read_uint.
  assert (Hd : digit d) by (inversion Hf; assumption).
  cbn [app skip_ws].
  assert (Hws : is_ws d = false) by (unfold is_ws, digit in *; lia).
  rewrite Hws. unfold split_sign.
  assert (H45 : (d =? 45) = false) by (unfold digit in Hd; lia).
  assert (H43 : (d =? 43) = false) by (unfold digit in Hd; lia).
  rewrite H45, H43.
  change (d :: ds ++ c :: rest) with ((d :: ds) ++ c :: rest).
  rewrite (take_digits_app _ _ _ Hf Hc). cbn [is_nil].
  unfold dec_val. change (fun a c0 : N => a * 10 + (c0 - 48)) with step. rewrite Hv.
  assert (Hlt : (U32 <=? n) = false) by lia. rewrite Hlt. reflexivity.
Qed.

(* ---------- strToInt ---------- *)
Lemma len_of_cons {A} (x : A) l : len_of (x :: l) = N.succ (len_of l).
Proof. unfold len_of. cbn [length]. rewrite Nat2N.inj_succ. reflexivity. Qed.

Lemma str_to_int_dec_N lo hi n : (lo <= Z.of_N n <= hi)%Z ->
  str_to_int lo hi (dec_of_N n) = Some (Z.of_N n).
Proof.
  intros Hr. destruct (dec_of_N_spec n) as (d & ds & He & Hf & Hv & Hnz & Hz).
  rewrite He. unfold str_to_int.
  assert (Hd : digit d) by (inversion Hf; assumption).
  assert (H45 : (d =? 45) = false) by (unfold digit in Hd; lia).
  assert (H43 : (d =? 43) = false) by (unfold digit in Hd; lia).
  rewrite H45, H43. cbn [is_nil orb]. rewrite (all_digits_iff _ Hf). cbn [negb].
  assert (Hlead : ((1 <? len_of (d :: ds)) && (d =? 48)) = false).
  { destruct (N.eq_dec n 0) as [H0|H0].
    - rewrite (Hz H0). cbn. reflexivity.
    - specialize (Hnz H0). apply andb_false_iff. right. lia. }
  rewrite Hlead. unfold dec_val. change (fun a c0 : N => a * 10 + (c0 - 48)) with step. rewrite Hv.
  assert (Hin : ((lo <=? Z.of_N n) && (Z.of_N n <=? hi))%Z = true) by lia.
  rewrite Hin. reflexivity.
Qed.

Lemma str_to_uint_dec hi n : n <= hi -> str_to_uint hi (dec_of_N n) = Some n.
Proof.
  intros Hr. unfold str_to_uint.
  destruct (dec_of_N_spec n) as (d & ds & He & Hf & _).
  assert (Hd : digit d) by (inversion Hf; assumption).
  assert (Hs : starts_with [45] (dec_of_N n) = false).
  { rewrite He. cbn [starts_with]. unfold digit in Hd. apply andb_false_iff. left. lia. }
  rewrite Hs. rewrite str_to_int_dec_N by lia. rewrite N2Z.id. reflexivity.
Qed.

Lemma str_to_int_dec_Z lo hi z : (lo <= z <= hi)%Z -> str_to_int lo hi (dec_of_Z z) = Some z.
Proof.
  intros Hr. destruct z as [|p|p].
  - change (dec_of_Z 0) with (dec_of_N 0). apply (str_to_int_dec_N lo hi 0). exact Hr.
  - change (dec_of_Z (Z.pos p)) with (dec_of_N (N.pos p)).
    change (Z.pos p) with (Z.of_N (N.pos p)). apply str_to_int_dec_N. exact Hr.
  - cbn [dec_of_Z]. unfold str_to_int. cbn [N.eqb Pos.eqb].
    destruct (dec_of_N_spec (N.pos p)) as (d & ds & He & Hf & Hv & _).
    rewrite He. cbn [is_nil orb]. rewrite (all_digits_iff _ Hf). cbn [negb].
    rewrite andb_false_r.
    unfold dec_val. change (fun a c0 : N => a * 10 + (c0 - 48)) with step. rewrite Hv.
    change (- Z.of_N (N.pos p))%Z with (Z.neg p).
    assert (Hin : ((lo <=? Z.neg p) && (Z.neg p <=? hi))%Z = true) by lia.
    rewrite Hin. reflexivity.
Qed.

(* the printed numbers contain no tab *)
Lemma no_tab_digits ds : Forall digit ds -> no_tab ds = true.
Proof.
  intros Hd. unfold no_tab. apply forallb_forall. intros x Hx.
  rewrite Forall_forall in Hd. specialize (Hd x Hx). unfold digit in Hd. lia.
Qed.

Lemma no_tab_dec_N n : no_tab (dec_of_N n) = true.
Proof. destruct (dec_of_N_spec n) as (d & ds & He & Hf & _). rewrite He. apply no_tab_digits. exact Hf. Qed.

Lemma no_tab_dec_Z z : no_tab (dec_of_Z z) = true.
Proof.
  destruct z as [|p|p]; [apply (no_tab_dec_N 0)|apply (no_tab_dec_N (N.pos p))|].
  cbn [dec_of_Z]. unfold no_tab. cbn [forallb]. apply andb_true_iff. split; [reflexivity|apply (no_tab_dec_N (N.pos p))].
Qed.

Lemma dec_of_N_nonnil n : dec_of_N n <> [].
Proof. destruct (dec_of_N_spec n) as (d & ds & He & _). rewrite He. discriminate. Qed.

Lemma dec_of_Z_nonnil z : dec_of_Z z <> [].
Proof. destruct z; try apply dec_of_N_nonnil. cbn [dec_of_Z]. discriminate. Qed.
