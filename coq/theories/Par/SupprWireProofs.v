(* Round trip of the suppression-state records of the process executor:
   suppr_of_wire (suppr_to_wire w) = Ok w under ws_ok, and what the record does not carry. *)
From CV Require Import Base.Bytes Base.Glob Supp.Defs Par.Gen_Severity Par.Defs Par.DecProofs Par.SupprWire.
Require Import Lia ZifyBool.
Local Open Scope N_scope.

(* ---------- splitting and joining ---------- *)
Lemma split_on_app c a : forall b cur, no_byte c a = true ->
  split_on c (a ++ c :: b) cur = (rev cur ++ a) :: split_on c b [].
Proof.
  induction a as [|x a IH]; intros b cur H; cbn [app split_on].
  - rewrite N.eqb_refl, app_nil_r. reflexivity.
  - unfold no_byte in H. cbn [forallb] in H. apply andb_true_iff in H. destruct H as [Hx Ha].
    destruct (x =? c) eqn:E; [discriminate|]. rewrite (IH b (x :: cur) Ha). cbn [rev]. rewrite <- app_assoc. reflexivity.
Qed.

Lemma split_on_nosep c a : forall cur, no_byte c a = true -> split_on c a cur = [rev cur ++ a].
Proof.
  induction a as [|x a IH]; intros cur H; cbn [split_on].
  - rewrite app_nil_r. reflexivity.
  - unfold no_byte in H. cbn [forallb] in H. apply andb_true_iff in H. destruct H as [Hx Ha].
    destruct (x =? c) eqn:E; [discriminate|]. rewrite (IH (x :: cur) Ha). cbn [rev]. rewrite <- app_assoc. reflexivity.
Qed.

Lemma split_app c a b : no_byte c a = true -> split c (a ++ c :: b) = a :: split c b.
Proof. intros H. unfold split. rewrite (split_on_app c a b [] H). reflexivity. Qed.

Lemma split_nosep c a : no_byte c a = true -> split c a = [a].
Proof. intros H. unfold split. rewrite (split_on_nosep c a [] H). reflexivity. Qed.

Lemma split_on_nonnil c s cur : split_on c s cur <> [].
Proof. revert cur. induction s as [|x s IH]; intros cur; cbn [split_on]; [discriminate|]. destruct (x =? c); [discriminate|apply IH]. Qed.

Lemma join_cons2 sep x y (l : list str) : join sep (x :: y :: l) = x ++ sep ++ join sep (y :: l).
Proof. reflexivity. Qed.

Lemma join_split_on c s : forall cur, join [c] (split_on c s cur) = rev cur ++ s.
Proof.
  induction s as [|x s IH]; intros cur; cbn [split_on].
  - cbn [join]. rewrite app_nil_r. reflexivity.
  - destruct (x =? c) eqn:E.
    + apply N.eqb_eq in E. subst x. pose proof (split_on_nonnil c s []) as Hn.
      destruct (split_on c s []) as [|y l] eqn:Es; [contradiction|].
      rewrite join_cons2, <- Es, (IH []). reflexivity.
    + rewrite (IH (x :: cur)). cbn [rev]. rewrite <- app_assoc. reflexivity.
Qed.

Lemma join_split c s : join [c] (split c s) = s.
Proof. unfold split. apply (join_split_on c s []). Qed.

(* ---------- find / rfind ---------- *)
Lemma cut_first_app c a b : no_byte c a = true -> cut_first c (a ++ c :: b) = Some (a, b).
Proof.
  induction a as [|x a IH]; intros H; cbn [app cut_first].
  - rewrite N.eqb_refl. reflexivity.
  - unfold no_byte in H. cbn [forallb] in H. apply andb_true_iff in H. destruct H as [Hx Ha].
    destruct (x =? c) eqn:E; [discriminate|]. rewrite (IH Ha). reflexivity.
Qed.

Lemma cut_first_none c s : no_byte c s = true -> cut_first c s = None.
Proof.
  induction s as [|x s IH]; intros H; cbn [cut_first]; [reflexivity|].
  unfold no_byte in H. cbn [forallb] in H. apply andb_true_iff in H. destruct H as [Hx Hs].
  destruct (x =? c) eqn:E; [discriminate|]. rewrite (IH Hs). reflexivity.
Qed.

Lemma cut_last_none c s : no_byte c s = true -> cut_last c s = None.
Proof.
  induction s as [|x s IH]; intros H; cbn [cut_last]; [reflexivity|].
  unfold no_byte in H. cbn [forallb] in H. apply andb_true_iff in H. destruct H as [Hx Hs].
  rewrite (IH Hs). destruct (x =? c) eqn:E; [discriminate|reflexivity].
Qed.

Lemma cut_last_app c a b : no_byte c b = true -> cut_last c (a ++ c :: b) = Some (a, b).
Proof.
  intros H. induction a as [|x a IH]; cbn [app cut_last].
  - rewrite (cut_last_none c b H), N.eqb_refl. reflexivity.
  - rewrite IH. reflexivity.
Qed.

Lemma no_byte_app c a b : no_byte c (a ++ b) = no_byte c a && no_byte c b.
Proof. unfold no_byte. apply forallb_app. Qed.

(* printed numbers hold digits and '-' only *)
Lemma no_byte_dec_Z c z : c <> 45 -> ~ digit c -> no_byte c (dec_of_Z z) = true.
Proof.
  intros H45 Hd.
  assert (HN : forall n, no_byte c (dec_of_N n) = true).
  { intros n. destruct (dec_of_N_spec n) as (d & ds & He & Hf & _). rewrite He. unfold no_byte.
    apply forallb_forall. intros x Hx. rewrite Forall_forall in Hf. specialize (Hf x Hx).
    destruct (x =? c) eqn:E; [|reflexivity]. apply N.eqb_eq in E. subst x. contradiction. }
  destruct z as [|p|p]; [apply (HN 0)|apply (HN (N.pos p))|].
  cbn [dec_of_Z]. unfold no_byte. cbn [forallb]. apply andb_true_iff. split; [|apply (HN (N.pos p))].
  destruct (45 =? c) eqn:E; [apply N.eqb_eq in E; congruence|reflexivity].
Qed.

Lemma starts_with_app p s : starts_with p (p ++ s) = true.
Proof. induction p as [|x p IH]; cbn [app starts_with]; [reflexivity|]. rewrite N.eqb_refl, IH. reflexivity. Qed.

(* ---------- the round trip ---------- *)
Section RoundTrip.
  Variable simp : str -> str.

  Definition ws_head (w : wsupp) : str :=
    ws_id w ++ (if is_nil (ws_file w) then []
                else COLON :: ws_file w ++ (if (ws_line w =? NO_LINE)%Z then [] else COLON :: dec_of_Z (ws_line w))).

  Definition ws_extras (w : wsupp) : str :=
    (if is_nil (ws_symbol w) then [] else NL :: SYMBOL_EQ ++ ws_symbol w) ++ (if ws_poly w then NL :: POLYSPACE_1 else []).

  Lemma ws_to_string_split w : ws_to_string w = ws_head w ++ ws_extras w.
  Proof. unfold ws_to_string, ws_head, ws_extras. rewrite <- !app_assoc. reflexivity. Qed.

  Lemma ws_ok_inv w : ws_ok simp w = true ->
    has_comment (ws_to_string w) = false /\ no_byte SEMI (ws_to_string w) = true
    /\ no_byte COLON (ws_id w) = true /\ no_byte NL (ws_id w) = true /\ no_byte NL (ws_file w) = true
    /\ no_byte NL (ws_symbol w) = true /\ file_line_ok w = true /\ simp (ws_file w) = ws_file w
    /\ in_int (ws_col w) = true.
  Proof.
    unfold ws_ok. intros H. repeat (apply andb_true_iff in H; destruct H as [H ?]).
    repeat split; try assumption.
    - destruct (has_comment (ws_to_string w)); [discriminate|reflexivity].
    - apply str_eqb_eq. assumption.
  Qed.

  Lemma in_int_inv z : in_int z = true -> (INT_MIN <= z <= INT_MAX)%Z.
  Proof. unfold in_int. lia. Qed.

  Lemma parse_head_ok w : ws_ok simp w = true -> parse_head simp (ws_head w) = Ok (ws_id w, ws_file w, ws_line w).
  Proof.
    intros H. apply ws_ok_inv in H. destruct H as (_ & _ & Hidc & _ & _ & _ & Hfl & Hs & _).
    unfold parse_head, ws_head, file_line_ok in *.
    destruct (ws_file w) as [|f0 fr] eqn:Ef; cbn [is_nil] in *.
    - rewrite app_nil_r, (cut_first_none _ _ Hidc). apply Z.eqb_eq in Hfl. rewrite Hfl. reflexivity.
    - rewrite (cut_first_app COLON (ws_id w) _ Hidc).
      destruct (ws_line w =? NO_LINE)%Z eqn:El.
      + apply Z.eqb_eq in El. rewrite El, app_nil_r. cbn [is_nil].
        destruct (cut_last COLON (f0 :: fr)) as [[a b]|]; [|rewrite Hs; reflexivity].
        destruct (no_byte DOT b); [discriminate|]. rewrite Hs. reflexivity.
      + assert (Hnn : is_nil ((f0 :: fr) ++ COLON :: dec_of_Z (ws_line w)) = false) by reflexivity.
        rewrite Hnn.
        rewrite (cut_last_app COLON (f0 :: fr) (dec_of_Z (ws_line w)))
          by (apply no_byte_dec_Z; [discriminate|unfold digit, COLON; lia]).
        rewrite (no_byte_dec_Z DOT (ws_line w)) by (try discriminate; unfold digit, DOT; lia).
        cbn [is_nil]. rewrite (str_to_int_dec_Z _ _ _ (in_int_inv _ Hfl)), Hs. reflexivity.
  Qed.

  Lemma no_nl_head w : ws_ok simp w = true -> no_byte NL (ws_head w) = true.
  Proof.
    intros H. apply ws_ok_inv in H. destruct H as (_ & _ & _ & Hid & Hf & _).
    unfold ws_head. rewrite no_byte_app, Hid. cbn [andb].
    destruct (is_nil (ws_file w)); [reflexivity|].
    change (COLON :: ws_file w ++ _) with ([COLON] ++ ws_file w ++ (if (ws_line w =? NO_LINE)%Z then [] else COLON :: dec_of_Z (ws_line w))).
    rewrite !no_byte_app, Hf. cbn [andb]. destruct (ws_line w =? NO_LINE)%Z; [reflexivity|].
    change (COLON :: dec_of_Z (ws_line w)) with ([COLON] ++ dec_of_Z (ws_line w)). rewrite no_byte_app.
    rewrite (no_byte_dec_Z NL (ws_line w)) by (try discriminate; unfold digit, NL; lia). reflexivity.
  Qed.

  Lemma parse_line_ok w : ws_ok simp w = true ->
    parse_line simp (ws_to_string w) = Ok (ws_id w, ws_file w, ws_line w, ws_symbol w, ws_poly w).
  Proof.
    intros H. pose proof (ws_ok_inv w H) as (Hc & _ & _ & _ & _ & Hsym & _).
    unfold parse_line, strip_comment. rewrite Hc, ws_to_string_split.
    pose proof (no_nl_head w H) as Hh. pose proof (parse_head_ok w H) as Hp.
    assert (Hps : no_byte NL (SYMBOL_EQ ++ ws_symbol w) = true) by (rewrite no_byte_app, Hsym; reflexivity).
    assert (Hpp : no_byte NL POLYSPACE_1 = true) by reflexivity.
    assert (Hsw : starts_with SYMBOL_EQ (SYMBOL_EQ ++ ws_symbol w) = true) by apply starts_with_app.
    assert (Hsk : skipn 7 (SYMBOL_EQ ++ ws_symbol w) = ws_symbol w) by reflexivity.
    unfold ws_extras.
    destruct (ws_symbol w) as [|s0 sr] eqn:Es, (ws_poly w); cbn [is_nil app].
    - rewrite (split_app NL _ _ Hh), (split_nosep NL _ Hpp), Hp. reflexivity.
    - rewrite app_nil_r, (split_nosep NL _ Hh), Hp. reflexivity.
    - change (ws_head w ++ NL :: SYMBOL_EQ ++ (s0 :: sr) ++ NL :: POLYSPACE_1)
        with (ws_head w ++ NL :: (SYMBOL_EQ ++ s0 :: sr) ++ NL :: POLYSPACE_1).
      rewrite (split_app NL _ _ Hh), (split_app NL _ _ Hps), (split_nosep NL _ Hpp), Hp.
      cbn [parse_extras]. rewrite Hsw, Hsk. reflexivity.
    - rewrite app_nil_r. rewrite (split_app NL _ _ Hh), (split_nosep NL _ Hps), Hp.
      cbn [parse_extras]. rewrite Hsw, Hsk. reflexivity.
  Qed.

  Theorem suppr_wire_roundtrip w : ws_ok simp w = true -> suppr_of_wire simp (suppr_to_wire w) = Ok w.
  Proof.
    intros H. pose proof (ws_ok_inv w H) as (_ & Hsemi & _ & _ & _ & _ & _ & _ & Hcol).
    unfold suppr_of_wire, suppr_to_wire.
    rewrite (split_app SEMI _ _ Hsemi).
    rewrite (split_app SEMI (dec_of_Z (ws_col w))) by (apply no_byte_dec_Z; [discriminate|unfold digit, SEMI; lia]).
    rewrite (split_app SEMI (str_of_bool (ws_checked w))) by (destruct (ws_checked w); reflexivity).
    rewrite (split_app SEMI (str_of_bool (ws_matched w))) by (destruct (ws_matched w); reflexivity).
    pose proof (split_on_nonnil SEMI (ws_comment w) []) as Hn. pose proof (join_split SEMI (ws_comment w)) as Hj.
    unfold split in *. destruct (split_on SEMI (ws_comment w) []) as [|p4 rest]; [contradiction|].
    rewrite (parse_line_ok w H), (str_to_int_dec_Z _ _ _ (in_int_inv _ Hcol)), Hj.
    assert (Hb : forall b, str_eqb (str_of_bool b) [49] = b) by (intros []; reflexivity).
    rewrite !Hb. destruct w; reflexivity.
  Qed.
End RoundTrip.

(* ---------- what the record does not carry ---------- *)
(* two suppressions that SuppressionList treats as different entries (isSameParameters compares
   hash and thisAndNextLine) have the same record: the parent cannot tell them apart *)
Definition wl_a : supp := mkSupp [120] [97;46;99] 3 NO_LINE NO_LINE TUnique [] [] 0 false true true true.
Definition wl_b : supp := mkSupp [120] [97;46;99] 3 NO_LINE NO_LINE TUnique [] [] 0 true true true true.

Theorem suppr_wire_loses_fields_refuted :
  exists a b, suppr_to_wire (ws_of_supp a) = suppr_to_wire (ws_of_supp b)
              /\ same_params a b = false /\ ws_ok (fun x => x) (ws_of_supp a) = true.
Proof. exists wl_a, wl_b. repeat split; vm_compute; reflexivity. Qed.

(* the colon / dot rule of parseLine: a file name whose part after its last colon has no dot is read
   back as "file:line" (or rejected) *)
Definition wc_colon : wsupp := mkWS [120] [100;105;114;58;49] NO_LINE [] false 0 false false [].   (* file "dir:1" *)
Theorem suppr_wire_colon_refuted :
  exists w w', ws_ok (fun x => x) w = false /\ suppr_of_wire (fun x => x) (suppr_to_wire w) = Ok w' /\ w' <> w
               /\ ws_file w' = [100;105;114] /\ ws_line w' = 1%Z.
Proof. exists wc_colon. eexists. split; [reflexivity|]. split; [vm_compute; reflexivity|]. split; [discriminate|split; reflexivity]. Qed.

Example ws_ok_inhabited :
  ws_ok (fun x => x) (mkWS [120] [97;46;99] 3 [102] true 7 true false [97;59;98]) = true.
Proof. vm_compute. reflexivity. Qed.
