(* C15: the suppression-state records a process-executor worker sends to the parent
   (cli/processexecutor.cpp PipeWriter::suppressionToString:
      Suppression::toString() ; column ; checked ; matched ; extraComment)
   and the parent's reader (ProcessExecutor::handleRead: splitString(buf, ';'), at least 5
   parts, SuppressionList::parseLine(parts[0]), strToInt<int>(parts[1]), parts[2] == "1",
   parts[3] == "1", parts[4..] re-joined with ';').  Executable definitions only. *)
From CV Require Import Base.Bytes Base.Glob Supp.Defs Par.Gen_Severity Par.Defs.
Local Open Scope N_scope.

(* what travels: the fields Suppression::toString() prints, and the four extra ones *)
Record wsupp := mkWS {
  ws_id : str; ws_file : str; ws_line : Z; ws_symbol : str; ws_poly : bool;
  ws_col : Z; ws_checked : bool; ws_matched : bool; ws_comment : str
}.

Definition SYMBOL_EQ : str := [115;121;109;98;111;108;61].                          (* "symbol=" *)
Definition POLYSPACE_1 : str := [112;111;108;121;115;112;97;99;101;61;49].          (* "polyspace=1" *)
Definition SEMI : N := 59.
Definition NL : N := 10.
Definition DOT : N := 46.

(* Suppression::toString *)
Definition ws_to_string (w : wsupp) : str :=
  ws_id w
  ++ (if is_nil (ws_file w) then []
      else COLON :: ws_file w ++ (if (ws_line w =? NO_LINE)%Z then [] else COLON :: dec_of_Z (ws_line w)))
  ++ (if is_nil (ws_symbol w) then [] else NL :: SYMBOL_EQ ++ ws_symbol w)
  ++ (if ws_poly w then NL :: POLYSPACE_1 else []).

(* PipeWriter::suppressionToString *)
Definition suppr_to_wire (w : wsupp) : str :=
  ws_to_string w ++ SEMI :: dec_of_Z (ws_col w) ++ SEMI :: str_of_bool (ws_checked w)
  ++ SEMI :: str_of_bool (ws_matched w) ++ SEMI :: ws_comment w.

(* ---------- SuppressionList::parseLine ---------- *)
Definition no_byte (c : N) (s : str) : bool := forallb (fun x => negb (x =? c)) s.

(* text before the first '#' or "//" ; and whether there is one *)
Fixpoint has_comment (s : str) : bool :=
  match s with
  | [] => false
  | x :: r => (x =? 35) || ((x =? 47) && match r with y :: _ => y =? 47 | [] => false end) || has_comment r
  end.
Fixpoint before_comment (s : str) : str :=
  match s with
  | [] => []
  | x :: r => if (x =? 35) || ((x =? 47) && match r with y :: _ => y =? 47 | [] => false end) then []
              else x :: before_comment r
  end.
Definition rtrim (s : str) : str := rev (skip_ws (rev s)).
Definition strip_comment (s : str) : str := if has_comment s then rtrim (before_comment s) else s.

(* s.find(c): (before, after) ; s.rfind(c): (before, after) *)
Fixpoint cut_first (c : N) (s : str) : option (str * str) :=
  match s with
  | [] => None
  | x :: r => if x =? c then Some ([], r)
              else match cut_first c r with Some (a, b) => Some (x :: a, b) | None => None end
  end.
Fixpoint cut_last (c : N) (s : str) : option (str * str) :=
  match s with
  | [] => None
  | x :: r => match cut_last c r with
              | Some (a, b) => Some (x :: a, b)
              | None => if x =? c then Some ([], r) else None
              end
  end.

(* error codes: 20 = std::exit in handleRead (fewer than 5 parts); 21.. = std::runtime_error thrown by
   parseLine / strToInt (not caught by handleRead) *)
Definition E_PARTS : N := 20.
Definition E_NOFILE : N := 21.      (* "filename is missing" *)
Definition E_LINENO : N := 22.      (* "invalid line number" *)
Definition E_EXTRA : N := 23.       (* "unexpected extra" *)
Definition E_COLUMN : N := 24.      (* strToInt<int>(parts[1]) *)

Section Parse.
  Variable simp : str -> str.       (* Path::simplifyPath *)

  (* the extras after the first line: symbol=..., polyspace=1 *)
  Fixpoint parse_extras (ps : list str) (sym : str) (poly : bool) : res (str * bool) :=
    match ps with
    | [] => Ok (sym, poly)
    | p :: r => if starts_with SYMBOL_EQ p then parse_extras r (skipn 7 p) poly
                else if str_eqb p POLYSPACE_1 then parse_extras r sym true
                else Err E_EXTRA
    end.

  (* id, file, line from the first line *)
  Definition parse_head (l0 : str) : res (str * str * Z) :=
    match cut_first COLON l0 with
    | None => Ok (l0, [], NO_LINE)
    | Some (id, fn) =>
        if is_nil fn then Err E_NOFILE
        else match cut_last COLON fn with
             | Some (a, b) =>
                 if no_byte DOT b then
                   if is_nil a then Err E_NOFILE
                   else match str_to_int INT_MIN INT_MAX b with
                        | Some ln => Ok (id, simp a, ln)
                        | None => Err E_LINENO
                        end
                 else Ok (id, simp fn, NO_LINE)
             | None => Ok (id, simp fn, NO_LINE)
             end
    end.

  Definition parse_line (line : str) : res (str * str * Z * str * bool) :=
    match split NL (strip_comment line) with
    | [] => Err E_EXTRA
    | l0 :: extras =>
        match parse_head l0 with
        | Err e => Err e
        | Ok (id, file, ln) =>
            match parse_extras extras [] false with
            | Err e => Err e
            | Ok (sym, poly) => Ok (id, file, ln, sym, poly)
            end
        end
    end.

  (* handleRead, REPORT_SUPPR / REPORT_SUPPR_INLINE with a non-empty buffer *)
  Definition suppr_of_wire (buf : str) : res wsupp :=
    match split SEMI buf with
    | p0 :: p1 :: p2 :: p3 :: p4 :: rest =>
        match parse_line p0 with
        | Err e => Err e
        | Ok (id, file, ln, sym, poly) =>
            match str_to_int INT_MIN INT_MAX p1 with
            | None => Err E_COLUMN
            | Some col => Ok (mkWS id file ln sym poly col (str_eqb p2 [49]) (str_eqb p3 [49])
                                   (join [SEMI] (p4 :: rest)))
            end
        end
    | _ => Err E_PARTS
    end.
End Parse.

(* hypotheses of the round trip *)
Definition in_int (z : Z) : bool := ((INT_MIN <=? z) && (z <=? INT_MAX))%Z.

Definition file_line_ok (w : wsupp) : bool :=
  if is_nil (ws_file w) then (ws_line w =? NO_LINE)%Z
  else if (ws_line w =? NO_LINE)%Z
       then match cut_last COLON (ws_file w) with
            | None => true
            | Some (_, b) => negb (no_byte DOT b)      (* a dot after the last colon: not read as a line number *)
            end
       else in_int (ws_line w).

Definition ws_ok (simp : str -> str) (w : wsupp) : bool :=
  negb (has_comment (ws_to_string w)) && no_byte SEMI (ws_to_string w)
  && no_byte COLON (ws_id w) && no_byte NL (ws_id w) && no_byte NL (ws_file w) && no_byte NL (ws_symbol w)
  && file_line_ok w && str_eqb (simp (ws_file w)) (ws_file w) && in_int (ws_col w).

(* the projection of a suppression onto what travels (column / comment are not part of supp) *)
Definition ws_of_supp (s : supp) : wsupp :=
  mkWS (s_id s) (s_file s) (s_line s) (s_symbol s) false 0 (s_checked s) (s_matched s) [].
