(* Entry point of the extracted executable for C15. *)
From CV Require Import Base.Bytes Base.Glob Supp.Defs Supp.Run Par.Gen_Severity Par.Defs Par.SupprWire.
Local Open Scope N_scope.

Definition take_loc (l : list str) : option (loc * list str) :=
  match l with
  | line :: col :: file :: orig :: info :: r => Some (mkLoc (zd line) (nd col) file orig info, r)
  | _ => None
  end.

Definition take_msg (l : list str) : option (msg * list str) :=
  match l with
  | id :: sev :: cwe :: hash :: remark :: file0 :: inc :: sh :: vb :: syms :: r =>
      match take_list take_loc r with
      | Some (st, r') => Some (mkMsg id (nd sev) (nd cwe) (nd hash) remark file0 (bool_of_str inc) sh vb syms st, r')
      | None => None
      end
  | _ => None
  end.

Definition loc_out (l : loc) : list str :=
  [dec_of_Z (l_line l); dec_of_N (l_col l); l_file l; l_orig l; l_info l].

Definition msg_out (m : msg) : list str :=
  [m_id m; dec_of_N (m_sev m); dec_of_N (m_cwe m); dec_of_N (m_hash m); m_remark m; m_file0 m;
   str_of_bool (m_inc m); m_short m; m_verbose m; m_symbols m; dec_of_N (len_of (m_stack m))]
  ++ flat_map loc_out (m_stack m).

Definition sid (s : str) : str := s.

Definition res_msg_out (r : res msg) : list str :=
  match r with
  | Ok m => [111; 107] :: msg_out m
  | Err e => if e =? E_FUEL then FUEL else [[69]; dec_of_N e]
  end.

Definition loc_eqb (a b : loc) : bool :=
  (l_line a =? l_line b)%Z && (l_col a =? l_col b) && str_eqb (l_file a) (l_file b)
  && str_eqb (l_orig a) (l_orig b) && str_eqb (l_info a) (l_info b).

Fixpoint locs_eqb (a b : list loc) : bool :=
  match a, b with
  | [], [] => true
  | x :: a', y :: b' => loc_eqb x y && locs_eqb a' b'
  | _, _ => false
  end.

Definition msg_eqb (a b : msg) : bool :=
  str_eqb (m_id a) (m_id b) && (m_sev a =? m_sev b) && (m_cwe a =? m_cwe b) && (m_hash a =? m_hash b)
  && str_eqb (m_remark a) (m_remark b) && str_eqb (m_file0 a) (m_file0 b) && Bool.eqb (m_inc a) (m_inc b)
  && str_eqb (m_short a) (m_short b) && str_eqb (m_verbose a) (m_verbose b)
  && str_eqb (m_symbols a) (m_symbols b) && locs_eqb (m_stack a) (m_stack b).

(* message for has_to_log: emsg, rendered text, internal flag *)
Definition take_pmsg (l : list str) : option (pmsg * list str) :=
  match take_emsg l with
  | Some (e, t :: i :: r) => Some (mkP e t (bool_of_str i), r)
  | _ => None
  end.

Definition T_FIX : str := [102;105;120].                 (* "fix" *)
Definition T_SER : str := [115;101;114].                 (* "ser" *)
Definition T_DESER : str := [100;101;115;101;114].       (* "deser" *)
Definition T_RT : str := [114;116].                      (* "rt" *)
Definition T_HTL : str := [104;116;108].                 (* "htl" *)
Definition T_UPD : str := [117;112;100].                 (* "upd" *)
Definition T_HTLM : str := [104;116;108;109].            (* "htlm" *)
Definition T_RENDER : str := [114;101;110;100;101;114].  (* "render" *)
Definition T_SSTR : str := [115;115;116;114].            (* "sstr" *)
Definition T_SREAD : str := [115;114;101;97;100].        (* "sread" *)
Definition T_SWIRE : str := [115;119;105;114;101].       (* "swire" *)

Definition take_ws (l : list str) : option wsupp :=
  match l with
  | id :: file :: line :: sym :: poly :: col :: chk :: mat :: com :: _ =>
      Some (mkWS id file (zd line) sym (bool_of_str poly) (zd col) (bool_of_str chk) (bool_of_str mat) com)
  | _ => None
  end.

Definition ws_out (w : wsupp) : list str :=
  [ws_id w; ws_file w; dec_of_Z (ws_line w); ws_symbol w; str_of_bool (ws_poly w); dec_of_Z (ws_col w);
   str_of_bool (ws_checked w); str_of_bool (ws_matched w); ws_comment w].
Definition T_INT : str := [105;110;116].                 (* "int" *)

Definition run (fields : list str) : list str :=
  match fields with
  | [] => BAD
  | tag :: args =>
      if tag_is tag T_FIX then
        match args with [s] => [fix_invalid_chars s] | [] => [[]] | _ => BAD end
      else if tag_is tag T_SER then
        match take_msg args with Some (m, _) => [serialize m] | None => BAD end
      else if tag_is tag T_DESER then
        match args with
        | [w] => res_msg_out (deserialize sid w)
        | [] => res_msg_out (deserialize sid [])
        | _ => BAD
        end
      else if tag_is tag T_RT then
        (* the round-trip property itself, evaluated: wire_ok?, deserialize(serialize m) = Ok (normalise m)?, = Ok m? *)
        match take_msg args with
        | Some (m, _) =>
            let r := deserialize sid (serialize m) in
            [str_of_bool (wire_ok sid m);
             str_of_bool (match r with Ok m' => msg_eqb m' (normalise m) | Err _ => false end);
             str_of_bool (match r with Ok m' => msg_eqb m' m | Err _ => false end)]
        | None => BAD
        end
      else if tag_is tag T_HTL then
        match args with
        | ed :: r0 =>
            match take_list take_supp r0 with
            | Some (nomsg, r1) =>
                match take_list take_pmsg r1 with
                | Some (ms, _) =>
                    (* one flag per message, in order *)
                    let fix go (st : hstate) (ms : list pmsg) : option (hstate * list bool) :=
                      match ms with
                      | [] => Some (st, [])
                      | m :: r => match has_to_log pm_run (bool_of_str ed) st m with
                                  | None => None
                                  | Some (st1, b) => match go st1 r with
                                                     | None => None
                                                     | Some (st2, bs) => Some (st2, b :: bs)
                                                     end
                                  end
                      end in
                    match go (mkH nomsg []) ms with
                    | Some (st, bs) => map str_of_bool bs ++ flags_out (h_nomsg st)
                    | None => FUEL
                    end
                | None => BAD
                end
            | None => BAD
            end
        | [] => BAD
        end
      else if tag_is tag T_RENDER then
        match args with
        | vb :: r0 => match take_msg r0 with Some (m, _) => [render (bool_of_str vb) m] | None => BAD end
        | [] => BAD
        end
      else if tag_is tag T_HTLM then
        (* emitDuplicates, nomsg list, full messages (multi-frame call stacks): one flag per message, then the flags *)
        match args with
        | ed :: r0 =>
            match take_list take_supp r0 with
            | Some (nomsg, r1) =>
                match take_list take_msg r1 with
                | Some (ms, _) =>
                    let fix go (st : hstate) (ms : list msg) : option (hstate * list bool) :=
                      match ms with
                      | [] => Some (st, [])
                      | m :: r => match has_to_log pm_run (bool_of_str ed) st (pmsg_of_msg false m) with
                                  | None => None
                                  | Some (st1, b) => match go st1 r with
                                                     | None => None
                                                     | Some (st2, bs) => Some (st2, b :: bs)
                                                     end
                                  end
                      end in
                    match go (mkH nomsg []) ms with
                    | Some (st, bs) => map str_of_bool bs ++ flags_out (h_nomsg st)
                    | None => FUEL
                    end
                | None => BAD
                end
            | None => BAD
            end
        | [] => BAD
        end
      else if tag_is tag T_SSTR then
        match take_ws args with Some w => [ws_to_string w] | None => BAD end
      else if tag_is tag T_SWIRE then
        match take_ws args with
        | Some w => [suppr_to_wire w; str_of_bool (ws_ok Supp.Run.simp w);
                     str_of_bool (match suppr_of_wire Supp.Run.simp (suppr_to_wire w) with Ok _ => true | Err _ => false end)]
        | None => BAD
        end
      else if tag_is tag T_SREAD then
        match args with
        | [buf] => match suppr_of_wire Supp.Run.simp buf with
                   | Ok w => [111; 107] :: ws_out w
                   | Err e => [[69]; dec_of_N e]
                   end
        | _ => BAD
        end
      else if tag_is tag T_UPD then
        match take_list take_supp args with
        | Some (l, r1) =>
            match take_list take_supp r1 with
            | Some (us, _) => flags_out (fold_left update_state us l)
            | None => BAD
            end
        | None => BAD
        end
      else if tag_is tag T_INT then
        (* kind (0 int, 1 unsigned int, 2 unsigned short, 3 size_t), string *)
        match args with
        | k :: rest =>
            let s := match rest with [x] => x | _ => [] end in
            let o := match nd k with
                     | 0 => str_to_int INT_MIN INT_MAX s
                     | 1 => option_map Z.of_N (str_to_uint UINT_MAX s)
                     | 2 => option_map Z.of_N (str_to_uint USHRT_MAX s)
                     | _ => option_map Z.of_N (str_to_uint SIZE_MAX s)
                     end in
            match o with Some z => [dec_of_Z z] | None => [[69]] end
        | [] => BAD
        end
      else BAD
  end.
