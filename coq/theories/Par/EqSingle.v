(* C15 parallel_eq_single: the thread and the process executor (Supp/ExecDefs.v
   whole_run (Some k), C24's whole-run model) against the single executor
   (whole_run None): the same set of reported texts, the same exit status, the
   same unmatched-suppression reports.  Reuses C23/C24's specifications. *)
From CV Require Import Base.Bytes Base.Glob Supp.Defs Supp.Proofs Supp.ListProofs
                       Supp.ExecDefs Supp.ExecProofs Supp.ThreadProofs.
Require Import Lia Permutation.
Local Open Scope N_scope.

Lemma existsb_mono {A} (f g : A -> bool) l :
  (forall x, f x = true -> g x = true) -> existsb f l = true -> existsb g l = true.
Proof.
  intros H E. apply existsb_exists in E. destruct E as (x & Hx & Hf).
  apply existsb_exists. exists x. split; [exact Hx|apply H; exact Hf].
Qed.

Lemma str_eqb_refl t : str_eqb t t = true.
Proof. apply str_eqb_eq. reflexivity. Qed.

Section EqSingle.
  Variable pm : str -> str -> bool.

  Definition HT (n : list supp) (e : emsg) : bool := existsb (hides pm true e) n.
  Definition HF (n : list supp) (e : emsg) : bool := existsb (hides pm false e) n.
  Definition HN (n : list supp) (e : emsg) : bool := existsb (hides pm true (no_macros e)) n.

  Lemma hides_false_true e s : hides pm false e s = true -> hides pm true e s = true.
  Proof.
    unfold hides, applicable. cbn [negb andb orb].
    destruct (is_local s), (str_eqb (e_id e) UNMATCHED && negb (str_eqb (s_id s) (e_id e))), (matches_doc pm s e);
      cbn; congruence.
  Qed.

  Lemma HF_HT n e : HF n e = true -> HT n e = true.
  Proof. apply existsb_mono. intros s. apply hides_false_true. Qed.

  (* the single executor's logger and a worker raise the exit code on the same findings *)
  Lemma spec_exit_ug n f ms : forall seen, spec_exit pm false n f seen ms = spec_exit pm true n f seen ms.
  Proof.
    induction ms as [|[e t] ms IH]; intros seen; cbn [spec_exit]; [reflexivity|].
    rewrite IH. f_equal.
    pose proof (HF_HT n e) as M. unfold HF, HT in M.
    destruct (existsb (hides pm false e) n), (existsb (hides pm true e) n),
             (negb (is_nil t) && negb (mem_str t seen)), (existsb (hides pm true e) f); cbn; try reflexivity.
    specialize (M eq_refl). discriminate.
  Qed.

  (* one suppression: hidden for the single executor = hidden for the worker (local
     suppressions, macro names known) or for the parent (all suppressions, no macro names) *)
  Lemma hides_split e s : macro_local s ->
    hides pm true e s = hides pm false e s || hides pm true (no_macros e) s.
  Proof.
    intros Hm. destruct (stype_eqb (s_type s) TMacro) eqn:Ety.
    - specialize (Hm Ety).
      assert (Ha : applicable false e s = applicable true e s).
      { unfold applicable. rewrite Hm. reflexivity. }
      unfold hides. rewrite Ha.
      change (applicable true (no_macros e) s) with (applicable true e s).
      pose proof (matches_doc_nomacro1 pm s e) as M1.
      destruct (applicable true e s), (matches_doc pm s e), (matches_doc pm s (no_macros e)); cbn; try reflexivity.
      specialize (M1 eq_refl). discriminate.
    - unfold hides at 3. rewrite (matches_doc_nomacro2 pm s e Ety).
      change (applicable true (no_macros e) s) with (applicable true e s).
      fold (hides pm true e s).
      pose proof (hides_false_true e s) as M.
      destruct (hides pm false e s), (hides pm true e s); cbn; try reflexivity.
      specialize (M eq_refl). discriminate.
  Qed.

  Lemma hidden_split n e : Forall macro_local n -> HT n e = HF n e || HN n e.
  Proof.
    unfold HT, HF, HN. induction 1 as [|s l Hs _ IH]; cbn [existsb]; [reflexivity|].
    rewrite IH, (hides_split e s Hs).
    destruct (hides pm false e s), (hides pm true (no_macros e) s), (existsb (hides pm false e) l),
             (existsb (hides pm true (no_macros e)) l); reflexivity.
  Qed.

  (* a forwarded finding has a text *)
  Lemma forwarded_has_text g n ms : forall seen e t,
    In (e, t) (pick (spec_forward pm g n seen ms) ms) -> is_nil t = false.
  Proof.
    induction ms as [|[e0 t0] ms IH]; intros seen e t H; cbn [spec_forward pick] in H; [destruct H|].
    destruct (negb (is_nil t0) && negb (mem_str t0 seen) && negb (existsb (hides pm g e0) n)) eqn:Eb.
    - destruct H as [H|H]; [|exact (IH _ _ _ H)]. injection H as <- <-.
      destruct (is_nil t0); [discriminate|reflexivity].
    - exact (IH _ _ _ H).
  Qed.

  (* per file: the single logger forwards what the worker forwards and the parent does not hide *)
  Lemma forward_single_vs_worker n ms : Forall macro_local n -> forall seen e t,
    In (e, t) (pick (spec_forward pm true n seen ms) ms) <->
    In (e, t) (pick (spec_forward pm false n seen ms) ms) /\ HN n e = false.
  Proof.
    intros Hml. induction ms as [|[e0 t0] ms IH]; intros seen e t; cbn [spec_forward pick]; [cbn [In]; tauto|].
    pose proof (hidden_split n e0 Hml) as Hsp. unfold HT, HF, HN in Hsp.
    set (fresh := negb (is_nil t0) && negb (mem_str t0 seen)) in *.
    specialize (IH (if fresh then t0 :: seen else seen) e t).
    destruct fresh; cbn [andb].
    - destruct (existsb (hides pm true e0) n) eqn:Et, (existsb (hides pm false e0) n) eqn:Ef; cbn [negb].
      + exact IH.
      + cbn [orb] in Hsp. split.
        * intros H. apply IH in H. destruct H as [H1 H2]. split; [right; exact H1|exact H2].
        * intros [[H|H] H2]; [|apply IH; tauto]. injection H as <- <-. unfold HN in H2. congruence.
      + cbn [orb] in Hsp. discriminate.
      + cbn [orb] in Hsp. split.
        * intros [H|H]; [injection H as <- <-; split; [left; reflexivity|unfold HN; congruence]|].
          apply IH in H. destruct H as [H1 H2]. split; [right; exact H1|exact H2].
        * intros [[H|H] H2]; [left; exact H|right; apply IH; tauto].
    - exact IH.
  Qed.

  (* ---------- the parent's filter ---------- *)
  Definition cand (n : list supp) (t : str) (m : emsg * str) : bool :=
    str_eqb t (snd m) && negb (is_nil (snd m)) && negb (HN n (fst m)).

  Lemma cand_static n n' t m : map static n' = map static n -> cand n' t m = cand n t m.
  Proof. intros H. unfold cand, HN. rewrite (existsb_hides_static pm _ _ _ _ H). reflexivity. Qed.

  Lemma str_eqb_true_eq a b : str_eqb a b = true -> a = b.
  Proof. apply str_eqb_eq. Qed.

  Lemma has_to_log_texts ms : forall n seen n2 seen2 bs,
    has_to_log pm n seen ms = Some (n2, seen2, bs) ->
    (forall t, mem_str t seen2 = mem_str t seen || existsb (cand n t) ms)
    /\ (forall t, In t (map snd (pick bs ms)) <-> mem_str t seen = false /\ existsb (cand n t) ms = true).
  Proof.
    induction ms as [|[e0 t0] ms IH]; intros n seen n2 seen2 bs H; cbn [has_to_log] in H.
    - injection H as _ <- <-. split; intros t; cbn; [rewrite orb_false_r; reflexivity|split; [tauto|intros [_ X]; discriminate]].
    - destruct (list_is_suppressed pm n (no_macros e0) true) as [[n1 sup]|] eqn:H1; [|discriminate].
      apply list_is_suppressed_eq in H1. destruct H1 as [-> ->].
      set (show := negb (existsb (hides pm true (no_macros e0)) n) && negb (is_nil t0) && negb (mem_str t0 seen)) in *.
      destruct (has_to_log pm _ _ ms) as [[[n3 seen3] bs3]|] eqn:H2; [|discriminate].
      injection H as _ <- <-.
      assert (Hst : map static (map (upd pm true (no_macros e0)) n) = map static n)
        by (rewrite map_upd_derive; apply map_static_derive).
      destruct (IH _ _ _ _ _ H2) as [IHm IHi].
      assert (Hc : forall t, existsb (cand (map (upd pm true (no_macros e0)) n) t) ms = existsb (cand n t) ms).
      { intros t. apply existsb_ext'. intros m. apply cand_static. exact Hst. }
      assert (Hhead : forall t, cand n t (e0, t0) = str_eqb t t0 && negb (is_nil t0) && negb (existsb (hides pm true (no_macros e0)) n))
        by reflexivity.
      split; intros t; cbn [existsb pick map].
      + rewrite IHm, Hc, Hhead. unfold show.
        destruct (existsb (hides pm true (no_macros e0)) n), (is_nil t0); cbn [negb andb orb];
          rewrite ?andb_false_r; cbn [orb]; try reflexivity.
        destruct (mem_str t0 seen) eqn:Em; cbn [negb].
        * destruct (str_eqb t t0) eqn:Et; cbn [andb orb]; [|reflexivity].
          apply str_eqb_true_eq in Et. subst t. rewrite Em. reflexivity.
        * cbn [mem_str existsb]. rewrite andb_true_r. fold (mem_str t seen).
          destruct (str_eqb t t0), (mem_str t seen); reflexivity.
      + rewrite Hhead. unfold show in *.
        destruct (existsb (hides pm true (no_macros e0)) n) eqn:Eh, (is_nil t0) eqn:En; cbn [negb andb] in *;
          rewrite ?andb_false_r; cbn [orb];
          try (rewrite (IHi t), Hc; reflexivity).
        destruct (mem_str t0 seen) eqn:Em; cbn [negb] in *.
        * rewrite (IHi t), Hc. rewrite andb_true_r.
          destruct (str_eqb t t0) eqn:Et; cbn [orb]; [|reflexivity].
          apply str_eqb_true_eq in Et. subst t. split; [intros [X _]; congruence|intros [X _]; congruence].
        * cbn [map In snd]. rewrite (IHi t), Hc, andb_true_r. cbn [mem_str existsb]. fold (mem_str t seen).
          destruct (str_eqb t t0) eqn:Et; cbn [orb].
          -- apply str_eqb_true_eq in Et. subst t. split; [intros _; split; [exact Em|reflexivity]|intros _; left; reflexivity].
          -- split.
             ++ intros [X|[X Y]]; [subst t; rewrite str_eqb_refl in Et; discriminate|split; assumption].
             ++ intros [X Y]. right. split; assumption.
  Qed.

  Definition fwd (bn : list supp) (x : finput) : list (emsg * str) :=
    pick (spec_forward pm false bn [] (f_msgs x)) (f_msgs x).

  (* the thread / process executor: which texts reach the output *)
  Lemma multi_reported_texts k bn bf fs : forall n f seen sr,
    multi_files pm k bn bf n f seen fs = Some sr ->
    map static n = map static bn -> map static f = map static bf -> Forall (inline_present bn) fs ->
    forall t, In t (map snd (sr_reported sr)) <->
              mem_str t seen = false /\ existsb (fun x => existsb (cand bn t) (fwd bn x)) fs = true.
  Proof.
    induction fs as [|x fs IH]; intros n f seen sr H Hn Hf Hin t; cbn [multi_files] in H.
    - injection H as <-. cbn. split; [tauto|intros [_ X]; discriminate].
    - cbv zeta in H. inversion Hin as [|? ? Hin1 Hin2]; subst.
      set (wn := match k with EThread => n | EProcess => bn end) in *.
      set (wf := match k with EThread => f | EProcess => bf end) in *.
      assert (Hwn : map static wn = map static bn) by (destruct k; [exact Hn|reflexivity]).
      assert (Hwf : map static wf = map static bf) by (destruct k; [exact Hf|reflexivity]).
      destruct (check_file pm false wn wf x) as [fr|] eqn:Hc; [|discriminate].
      apply check_file_spec in Hc; [|apply (inline_present_static bn); [exact Hwn|exact Hin1]].
      destruct Hc as (Hrn & Hrf & Hout & _).
      assert (Hrs : map static (r_nomsg fr) = map static bn) by (rewrite Hrn, map_static_derive; exact Hwn).
      rewrite (spec_forward_static pm false _ _ [] (f_msgs x) Hwn) in Hout.
      set (pn := match k with EThread => transfer_thread (r_nomsg fr) (r_nomsg fr) | EProcess => n end) in *.
      assert (Hpn : map static pn = map static bn).
      { destruct k; [|exact Hn]. unfold pn. rewrite transfer_thread_static; [exact Hrs|].
        intros s Hs. apply (present_of_static (r_nomsg fr)); [reflexivity|exact Hs]. }
      destruct (has_to_log pm pn seen (pick (r_out fr) (f_msgs x))) as [[[pn1 seen1] shows]|] eqn:Hh; [|discriminate].
      pose proof (has_to_log_static pm _ _ _ _ _ _ Hh) as Hhs.
      apply has_to_log_texts in Hh. destruct Hh as [Hmem Hshow].
      set (pn2 := match k with EThread => pn1 | EProcess => transfer_process pn1 (r_nomsg fr) end) in *.
      assert (Hpn2 : map static pn2 = map static bn).
      { destruct k; unfold pn2; [congruence|]. rewrite transfer_process_static; [congruence|].
        intros s Hs. apply (present_of_static (r_nomsg fr)); [congruence|exact Hs]. }
      set (pf := match k with EThread => r_nofail fr | EProcess => f end) in *.
      assert (Hpf : map static pf = map static bf) by (destruct k; unfold pf; congruence).
      destruct (multi_files pm k bn bf pn2 pf seen1 fs) as [sr1|] eqn:Hm; [|discriminate].
      injection H as <-. cbn [sr_reported].
      specialize (IH _ _ _ _ Hm Hpn2 Hpf Hin2 t).
      rewrite map_app, in_app_iff, IH, (Hshow t), (Hmem t). cbn [existsb].
      rewrite Hout. fold (fwd bn x).
      assert (Hcs : existsb (cand pn t) (fwd bn x) = existsb (cand bn t) (fwd bn x))
        by (apply existsb_ext'; intros m; apply cand_static; exact Hpn).
      rewrite Hcs.
      destruct (mem_str t seen), (existsb (cand bn t) (fwd bn x)),
               (existsb (fun x0 => existsb (cand bn t) (fwd bn x0)) fs); cbn; intuition congruence.
  Qed.

  (* the single executor: which texts reach the output *)
  Lemma single_reported_texts n fs t : Forall macro_local n ->
    In t (map snd (flat_map (fun x => pick (spec_forward pm true n [] (f_msgs x)) (f_msgs x)) fs)) <->
    existsb (fun x => existsb (cand n t) (fwd n x)) fs = true.
  Proof.
    intros Hml. rewrite in_map_iff. split.
    - intros ([e t'] & Ht & Hi). cbn in Ht. subst t'. apply in_flat_map in Hi. destruct Hi as (x & Hx & Hi).
      pose proof (forwarded_has_text _ _ _ _ _ _ Hi) as Hnil.
      apply (forward_single_vs_worker n (f_msgs x) Hml) in Hi. destruct Hi as [Hi Hh].
      apply existsb_exists. exists x. split; [exact Hx|]. apply existsb_exists. exists (e, t). split; [exact Hi|].
      unfold cand. cbn [fst snd]. rewrite str_eqb_refl, Hnil, Hh. reflexivity.
    - intros H. apply existsb_exists in H. destruct H as (x & Hx & H). apply existsb_exists in H.
      destruct H as ([e t'] & Hi & Hc). unfold cand in Hc. cbn [fst snd] in Hc.
      apply andb_true_iff in Hc. destruct Hc as [Hc Hh]. apply andb_true_iff in Hc. destruct Hc as [Ht _].
      apply str_eqb_true_eq in Ht. subst t'.
      exists (e, t). split; [reflexivity|]. apply in_flat_map. exists x. split; [exact Hx|].
      apply (forward_single_vs_worker n (f_msgs x) Hml). split; [exact Hi|].
      destruct (HN n e); [discriminate|reflexivity].
  Qed.

  (* ---------- whole runs ---------- *)
  Lemma whole_run_multi_reported k cfg n f fs wp o :
    whole_run pm (Some k) cfg n f fs wp = Some o -> Forall (inline_present n) fs ->
    forall t, In t (map snd (o_reported o)) <->
              existsb (fun x => existsb (cand n t) (fwd n x)) fs = true
              \/ In t (map snd (pick (spec_forward pm true n [] wp) wp)).
  Proof.
    unfold whole_run, exec_files. intros H Hin t.
    destruct (multi_files pm k n f n f [] fs) as [sr|] eqn:Hs; [|discriminate].
    pose proof (multi_files_spec pm k n f fs n f [] sr Hs eq_refl eq_refl Hin) as (Hn & _ & _).
    pose proof (multi_reported_texts k n f fs n f [] sr Hs eq_refl eq_refl Hin t) as Hrep.
    destruct (logger_run pm true (mkL (sr_nomsg sr) (sr_nofail sr) [] false) wp) as [[st outs]|] eqn:Hr; [|discriminate].
    pose proof (logger_run_spec pm true _ _ _ _ Hr) as (Ho & _). cbn [l_nomsg l_seen] in Ho.
    rewrite (spec_forward_static pm true _ _ [] wp Hn) in Ho.
    cbv zeta in H.
    destruct (if c_info cfg && negb (is_nil_list (l_nomsg st)) then _ else _) as [u|]; [|discriminate].
    destruct (unmatched_fail pm (l_nofail st) u) as [fl|]; [|discriminate].
    injection H as <-. cbn [o_reported]. rewrite map_app, in_app_iff, Hrep, Ho. cbn [mem_str existsb]. tauto.
  Qed.

  (* (1) the same set of reported texts, thread and process executor *)
  Theorem parallel_reported_eq_single k cfg n f fs wp o1 o2 :
    whole_run pm None cfg n f fs wp = Some o1 ->
    whole_run pm (Some k) cfg n f fs wp = Some o2 ->
    Forall (inline_present n) fs -> Forall macro_local n ->
    forall t, In t (map snd (o_reported o1)) <-> In t (map snd (o_reported o2)).
  Proof.
    intros H1 H2 Hin Hml t.
    rewrite (whole_run_multi_reported k cfg n f fs wp o2 H2 Hin t).
    pose proof (whole_run_single_spec pm cfg n f fs wp o1 H1 Hin) as Hs. cbv zeta in Hs.
    destruct Hs as (_ & Hr & _). rewrite Hr, map_app, in_app_iff, (single_reported_texts n fs t Hml). tauto.
  Qed.

  (* (2) the same exit status as soon as the same unmatched suppressions are reported *)
  Theorem parallel_status_eq_single k cfg n f fs wp o1 o2 :
    whole_run pm None cfg n f fs wp = Some o1 ->
    whole_run pm (Some k) cfg n f fs wp = Some o2 ->
    Forall (inline_present n) fs -> o_unmatched o2 = o_unmatched o1 ->
    o_status o2 = o_status o1.
  Proof.
    intros H1 H2 Hin Hu.
    rewrite (whole_run_multi_status pm k cfg n f fs wp o2 H2 Hin).
    pose proof (whole_run_single_spec pm cfg n f fs wp o1 H1 Hin) as Hs. cbv zeta in Hs.
    destruct Hs as (_ & _ & _ & ->). unfold findings_raise. rewrite Hu.
    rewrite (existsb_ext' (fun x => spec_exit pm false n f [] (f_msgs x)) (fun x => spec_exit pm true n f [] (f_msgs x)));
      [reflexivity|]. intros x. apply spec_exit_ug.
  Qed.

  (* (3) thread executor: everything, with C24's theorem for the suppression flags *)
  Theorem thread_eq_single cfg n f fs wp o1 o2 :
    whole_run pm None cfg n f fs wp = Some o1 ->
    whole_run pm (Some EThread) cfg n f fs wp = Some o2 ->
    uniq n = true -> Forall (inline_present n) fs ->
    Forall (fun x => texts_nonempty (f_msgs x)) fs -> Forall macro_local n ->
    (forall t, In t (map snd (o_reported o1)) <-> In t (map snd (o_reported o2)))
    /\ o_unmatched o2 = o_unmatched o1 /\ o_status o2 = o_status o1 /\ o_nomsg o2 = o_nomsg o1.
  Proof.
    intros H1 H2 Hu Hin Hok Hml.
    destruct (thread_equals_single_ne pm cfg n f fs wp o1 o2 H1 H2 Hu Hin Hok Hml) as [Hn Hum].
    split; [exact (parallel_reported_eq_single EThread cfg n f fs wp o1 o2 H1 H2 Hin Hml)|].
    split; [exact Hum|]. split; [|exact Hn].
    exact (parallel_status_eq_single EThread cfg n f fs wp o1 o2 H1 H2 Hin Hum).
  Qed.
End EqSingle.
