(* C15 parallel_eq_single, process executor: the parent's suppression list after all
   workers' REPORT_SUPPR records were merged carries the flags of the executor's query
   set, hence those of the single executor (C24's derive_thread_single), hence the same
   unmatched-suppression reports and the same exit status. *)
From CV Require Import Base.Bytes Base.Glob Supp.Defs Supp.Proofs Supp.ListProofs
                       Supp.ExecDefs Supp.ExecProofs Supp.ThreadProofs Par.EqSingle.
Require Import Lia Permutation.
Local Open Scope N_scope.

Lemma existsb_incl {A} (p : A -> bool) l1 l2 : incl l1 l2 -> existsb p l1 = true -> existsb p l2 = true.
Proof.
  intros H E. apply existsb_exists in E. destruct E as (x & Hx & Hp). apply existsb_exists. exists x. auto.
Qed.

Lemma existsb_same_elems {A} (p : A -> bool) l1 l2 : incl l1 l2 -> incl l2 l1 -> existsb p l1 = existsb p l2.
Proof.
  intros H1 H2. destruct (existsb p l1) eqn:E1, (existsb p l2) eqn:E2; try reflexivity.
  - rewrite (existsb_incl p _ _ H1 E1) in E2. discriminate.
  - rewrite (existsb_incl p _ _ H2 E2) in E1. discriminate.
Qed.

Section EqProcess.
  Variable pm : str -> str -> bool.

  Lemma same_params_derive_l Q M x y : same_params (derive pm Q M x) y = same_params x y.
  Proof. reflexivity. Qed.
  Lemma same_params_derive_r Q M x y : same_params x (derive pm Q M y) = same_params x y.
  Proof. reflexivity. Qed.

  (* the step of transfer_process *)
  Definition tp_step (p : list supp) (s : supp) : list supp :=
    if s_inline s || s_checked s then add_or_update p s else p.

  Lemma transfer_process_fold p w : transfer_process p w = fold_left tp_step w p.
  Proof. reflexivity. Qed.

  Lemma tp_step_static p s : existsb (same_params s) p = true -> map static (tp_step p s) = map static p.
  Proof.
    intros H. unfold tp_step. destruct (s_inline s || s_checked s); [|reflexivity].
    rewrite (add_or_update_present p s H). apply update_state_static.
  Qed.

  (* records that do not concern the head entry leave it alone *)
  Lemma tp_cons h w : forall l,
    (forall s, In s w -> same_params s h = false) -> (forall s, In s w -> existsb (same_params s) l = true) ->
    fold_left tp_step w (h :: l) = h :: fold_left tp_step w l.
  Proof.
    induction w as [|s w IH]; intros l Hh Hl; cbn [fold_left]; [reflexivity|].
    assert (Hs : same_params s h = false) by (apply Hh; left; reflexivity).
    assert (Hp : existsb (same_params s) l = true) by (apply Hl; left; reflexivity).
    assert (E : tp_step (h :: l) s = h :: tp_step l s).
    { unfold tp_step. destruct (s_inline s || s_checked s); [|reflexivity].
      rewrite (add_or_update_present l s Hp).
      rewrite add_or_update_present by (cbn [existsb]; rewrite Hs; exact Hp).
      rewrite update_state_cons, Hs. reflexivity. }
    rewrite E. apply IH.
    - intros x Hx. apply Hh. right. exact Hx.
    - intros x Hx. rewrite (existsb_same_params_static x _ _ (tp_step_static l s Hp)). apply Hl. right. exact Hx.
  Qed.

  Lemma hides_reach g e s : hides pm g e s = true -> reach pm g e s = true.
  Proof.
    unfold hides, reach. intros H. apply andb_true_iff in H. destruct H as [A B].
    rewrite A, (matches_doc_located pm s e B). reflexivity.
  Qed.

  Lemma anyhide_anyreach Q s : anyhide pm Q s = true -> anyreach pm Q s = true.
  Proof. unfold anyhide, anyreach. apply existsb_mono. intros q. apply hides_reach. Qed.

  (* merging the worker's copy (flags of its own queries) into the parent's list *)
  Lemma transfer_process_join Q1 M1 Q2 M2 b : uniq b = true ->
    transfer_process (map (derive pm Q1 M1) b) (map (derive pm Q2 M2) b) = map (derive pm (Q1 ++ Q2) (M1 ++ M2)) b.
  Proof.
    rewrite transfer_process_fold. induction b as [|a b IH]; intros Hu; [reflexivity|].
    cbn [uniq] in Hu. apply andb_true_iff in Hu. destruct Hu as [Ha Hub].
    rewrite forallb_forall in Ha.
    cbn [map fold_left].
    set (w0 := derive pm Q2 M2 a). set (p0 := derive pm Q1 M1 a).
    assert (Hhead : tp_step (p0 :: map (derive pm Q1 M1) b) w0 = derive pm (Q1 ++ Q2) (M1 ++ M2) a :: map (derive pm Q1 M1) b).
    { unfold tp_step.
      assert (Hsp : same_params w0 p0 = true).
      { unfold w0, p0. rewrite same_params_derive_l, same_params_derive_r.
        unfold same_params. rewrite !str_eqb_refl, Z.eqb_refl, N.eqb_refl, Bool.eqb_reflx. reflexivity. }
      destruct (s_inline w0 || s_checked w0) eqn:Ec.
      - rewrite add_or_update_present by (cbn [existsb]; rewrite Hsp; reflexivity).
        rewrite update_state_cons, Hsp. f_equal.
        unfold w0, p0, derive, set_flags. cbn.
        rewrite anyhide_app, anyreach_app, anymark_app. f_equal.
        + destruct (s_matched a), (anyhide pm Q1 a), (anyhide pm Q2 a); reflexivity.
        + destruct (s_checked a), (anyreach pm Q1 a), (anymark M1 a), (anyreach pm Q2 a), (anymark M2 a); reflexivity.
      - f_equal. apply orb_false_iff in Ec. destruct Ec as [_ Ec].
        unfold w0, derive, set_flags in Ec. cbn in Ec.
        apply orb_false_iff in Ec. destruct Ec as [Eca Ecq]. apply orb_false_iff in Ecq. destruct Ecq as [Er Em].
        assert (Eh : anyhide pm Q2 a = false).
        { destruct (anyhide pm Q2 a) eqn:X; [|reflexivity]. rewrite (anyhide_anyreach _ _ X) in Er. discriminate. }
        unfold p0, derive, set_flags. cbn.
        rewrite anyhide_app, anyreach_app, anymark_app, Eh, Er, Em, !orb_false_r. reflexivity. }
    rewrite Hhead. rewrite tp_cons.
    - f_equal. apply IH. exact Hub.
    - intros s Hs. apply in_map_iff in Hs. destruct Hs as (x & <- & Hx).
      rewrite same_params_derive_l. unfold derive.
      change (same_params x (set_flags a (anyhide pm (Q1 ++ Q2) a) (anyreach pm (Q1 ++ Q2) a || anymark (M1 ++ M2) a)))
        with (same_params x a).
      specialize (Ha x Hx). rewrite same_params_sym. destruct (same_params a x); [discriminate|reflexivity].
    - intros s Hs. apply (present_of_static (map (derive pm Q2 M2) b)); [|exact Hs].
      rewrite !map_static_derive. reflexivity.
  Qed.

  (* the queries of the process executor for one file: the parent's hasToLog queries and
     the worker's own (the same queries as the thread executor's, in another order) *)
  Definition process_file_queries (n f : list supp) (x : finput) : list query :=
    log_queries (pick (spec_forward pm false n [] (f_msgs x)) (f_msgs x)) ++ file_queries pm false n f x.
  Definition process_queries (n f : list supp) (fs : list finput) : list query :=
    flat_map (process_file_queries n f) fs.

  Lemma process_thread_same n f fs : incl (process_queries n f fs) (thread_queries pm n f fs)
                                     /\ incl (thread_queries pm n f fs) (process_queries n f fs).
  Proof.
    unfold process_queries, thread_queries. split; intros q Hq; apply in_flat_map in Hq; destruct Hq as (x & Hx & Hq);
      apply in_flat_map; exists x; (split; [exact Hx|]);
      unfold process_file_queries, thread_file_queries in *; apply in_app_iff in Hq; apply in_app_iff; tauto.
  Qed.

  Lemma derive_same_elems Q1 Q2 M s : incl Q1 Q2 -> incl Q2 Q1 -> derive pm Q1 M s = derive pm Q2 M s.
  Proof.
    intros H1 H2. unfold derive, anyhide, anyreach.
    rewrite (existsb_same_elems _ Q1 Q2 H1 H2), (existsb_same_elems (fun q => reach pm (snd q) (fst q) s) Q1 Q2 H1 H2).
    reflexivity.
  Qed.

  (* process executor: the final flags are those of its query set *)
  Theorem process_files_flags bn bf fs : forall Qa Ma n f seen sr,
    multi_files pm EProcess bn bf n f seen fs = Some sr -> uniq bn = true -> Forall (inline_present bn) fs ->
    n = map (derive pm Qa Ma) bn ->
    sr_nomsg sr = map (derive pm (Qa ++ process_queries bn bf fs) (Ma ++ flat_map f_locs fs)) bn.
  Proof.
    induction fs as [|x fs IH]; intros Qa Ma n f seen sr H Hu Hin Hn; cbn [multi_files] in H.
    - injection H as <-. cbn [sr_nomsg process_queries flat_map]. rewrite !app_nil_r. exact Hn.
    - cbv zeta in H. inversion Hin as [|? ? Hin1 Hin2]; subst.
      destruct (check_file pm false bn bf x) as [fr|] eqn:Hc; [|discriminate].
      apply check_file_spec in Hc; [|exact Hin1]. destruct Hc as (Hrn & _ & Hout & _).
      destruct (has_to_log pm (map (derive pm Qa Ma) bn) seen (pick (r_out fr) (f_msgs x))) as [[[pn1 seen1] shows]|] eqn:Hh; [|discriminate].
      apply has_to_log_derive in Hh.
      destruct (multi_files pm EProcess bn bf (transfer_process pn1 (r_nomsg fr)) f seen1 fs) as [sr1|] eqn:Hm; [|discriminate].
      injection H as <-. cbn [sr_nomsg].
      rewrite Hh, Hrn, map_derive_derive, (transfer_process_join _ _ _ _ bn Hu) in Hm.
      rewrite (IH _ _ _ _ _ _ Hm Hu Hin2 eq_refl).
      rewrite Hout. unfold process_queries, process_file_queries. cbn [flat_map].
      rewrite <- !app_assoc. cbn [app]. reflexivity.
  Qed.

  Lemma whole_run_process_nomsg cfg n f fs wp o :
    whole_run pm (Some EProcess) cfg n f fs wp = Some o -> uniq n = true -> Forall (inline_present n) fs ->
    o_nomsg o = map (derive pm (process_queries n f fs ++ nomsg_queries pm true n f [] wp) (flat_map f_locs fs)) n.
  Proof.
    unfold whole_run, exec_files. intros H Hu Hin.
    destruct (multi_files pm EProcess n f n f [] fs) as [sr|] eqn:Hs; [|discriminate].
    pose proof (multi_files_spec pm EProcess n f fs n f [] sr Hs eq_refl eq_refl Hin) as (Hn & Hf & _).
    assert (Hn0 : n = map (derive pm [] []) n).
    { rewrite (map_ext _ (fun s => s)), map_id; [reflexivity|]. intros; apply derive_nil. }
    pose proof (process_files_flags n f fs [] [] n f [] sr Hs Hu Hin Hn0) as Hfl. cbn [app] in Hfl.
    destruct (logger_run pm true (mkL (sr_nomsg sr) (sr_nofail sr) [] false) wp) as [[st outs]|] eqn:Hr; [|discriminate].
    apply logger_run_nomsg in Hr. cbn [l_nomsg l_nofail l_seen] in Hr.
    rewrite (nomsg_queries_static pm true _ _ _ _ [] wp Hn Hf), Hfl, map_derive_derive, app_nil_r in Hr.
    cbv zeta in H.
    destruct (if c_info cfg && negb (is_nil_list (l_nomsg st)) then _ else _) as [u|]; [|discriminate].
    destruct (unmatched_fail pm (l_nofail st) u) as [fl|]; [|discriminate].
    injection H as <-. cbn [o_nomsg]. exact Hr.
  Qed.

  (* the process executor ends with the flags of the single executor and reports the
     same unmatched suppressions and findings and returns the same status *)
  Theorem process_eq_single cfg n f fs wp o1 o2 :
    whole_run pm None cfg n f fs wp = Some o1 ->
    whole_run pm (Some EProcess) cfg n f fs wp = Some o2 ->
    uniq n = true -> Forall (inline_present n) fs ->
    Forall (fun x => texts_nonempty (f_msgs x)) fs -> Forall macro_local n ->
    (forall t, In t (map snd (o_reported o1)) <-> In t (map snd (o_reported o2)))
    /\ o_unmatched o2 = o_unmatched o1 /\ o_status o2 = o_status o1 /\ o_nomsg o2 = o_nomsg o1.
  Proof.
    intros H1 H2 Hu Hin Hok Hml.
    assert (Hn : o_nomsg o2 = o_nomsg o1).
    { rewrite (whole_run_process_nomsg cfg n f fs wp o2 H2 Hu Hin).
      pose proof (whole_run_single_spec pm cfg n f fs wp o1 H1 Hin) as Hs. cbv zeta in Hs. destruct Hs as (-> & _).
      unfold run_queries. apply map_ext_in. intros s Hs.
      destruct (process_thread_same n f fs) as [I1 I2].
      rewrite (derive_same_elems (process_queries n f fs ++ nomsg_queries pm true n f [] wp)
                                 (thread_queries pm n f fs ++ nomsg_queries pm true n f [] wp)).
      - apply derive_thread_single; [exact Hok|]. rewrite Forall_forall in Hml. apply Hml. exact Hs.
      - apply incl_app; [apply incl_appl; exact I1|apply incl_appr; apply incl_refl].
      - apply incl_app; [apply incl_appl; exact I2|apply incl_appr; apply incl_refl]. }
    assert (Hum : o_unmatched o2 = o_unmatched o1).
    { apply whole_run_unmatched_of_nomsg in H1. apply whole_run_unmatched_of_nomsg in H2.
      rewrite Hn in H2. rewrite H1 in H2. injection H2 as ->. reflexivity. }
    split; [exact (parallel_reported_eq_single pm EProcess cfg n f fs wp o1 o2 H1 H2 Hin Hml)|].
    split; [exact Hum|]. split; [|exact Hn].
    exact (parallel_status_eq_single pm EProcess cfg n f fs wp o1 o2 H1 H2 Hin Hum).
  Qed.
End EqProcess.
