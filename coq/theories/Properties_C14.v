(* C14  Dump output is well-formed and self-consistent.
   Statements only; every proof is `exact <lemma>`. *)
From CV Require Import Base.Bytes Ctu.Defs Dump.Defs Dump.XmlProofs Dump.LinksProofs Dump.AstProofs Dump.ResolveProofs Dump.ValidatorProofs Dump.Links2Proofs.
Local Open Scope N_scope.

(* Tokenizer::createLinks, for every token sequence: when it does not report an unmatched
   token, every pair is an opening bracket before a closing bracket of the same kind, every
   bracket token is linked, the links are a fixed-point-free involution, and any two pairs are
   disjoint or nested (across the three kinds: the shared `type` stack enforces it) *)
Theorem C14_links_symmetric_nested cs P :
  create_links_chars cs = LOk P ->
  let C := fun p => nth (N.to_nat p) cs 0 in
  let n := N.of_nat (length cs) in
  (forall o c, In (o, c) P -> o < c /\ c < n /\ exists k, C o = bk_open k /\ C c = bk_close k) /\
  (forall p, p < n -> is_bracket_char (C p) = true -> exists q, link_of P p = Some q) /\
  (forall p q, link_of P p = Some q -> In (p, q) P \/ In (q, p) P) /\
  (forall p q, link_of P p = Some q -> link_of P q = Some p /\ p <> q) /\
  pairs_ok P.
Proof. exact (links_symmetric_nested cs P). Qed.
Print Assumptions C14_links_symmetric_nested.

Theorem C14_links_pairwise_nested_or_disjoint cs P :
  create_links_chars cs = LOk P -> ForallOrdPairs nested_or_disjoint P.
Proof. intros H. exact (pairs_ok_pairwise P (proj2 (proj2 (proj2 (proj2 (links_symmetric_nested cs P H)))))). Qed.
Print Assumptions C14_links_pairwise_nested_or_disjoint.

(* type.top() is never taken from an empty stack *)
Theorem C14_create_links_never_stuck cs : create_links_chars cs <> LStuck.
Proof. exact (create_links_never_stuck cs). Qed.
Print Assumptions C14_create_links_never_stuck.

(* Token::astOperand1/astOperand2 (and the astTop cache setter), for every sequence of calls
   that completes without the cyclic-dependency exception, from tokens without AST pointers:
   parent c = p exactly when c is operand 1 or 2 of p, the two operands of a token differ,
   and no parent chain returns to its start (a forest) *)
Theorem C14_ast_forest_inv fuel ops h n :
  run_ops fuel h_empty ops 0 = (h, SOk, n) ->
  (forall c p, h_par h c = Some p <-> (h_op1 h p = Some c \/ h_op2 h p = Some c) /\ True) /\
  (forall p c, h_op1 h p = Some c -> h_op2 h p <> Some c) /\
  (forall x k, up h (S k) x <> Some x).
Proof. exact (ast_forest_inv fuel ops h n). Qed.
Print Assumptions C14_ast_forest_inv.

(* one call preserves the invariant from any consistent heap (so the theorem extends to any
   interleaving with code that keeps AInv) *)
Theorem C14_ast_set_op_preserves w fuel h x tok h' :
  AInv h -> ast_set_op w fuel h x tok = (h', SOk) -> AInv h'.
Proof. exact (set_op_inv w fuel h x tok h'). Qed.
Print Assumptions C14_ast_set_op_preserves.

(* every attribute value written through ErrorLogger::toxml consists of plain printable
   characters (none of lt gt amp quot apos) and complete references only *)
Theorem C14_toxml_attr_safe : forall s, attr_safe (toxml s).
Proof. exact toxml_attr_safe. Qed.
Print Assumptions C14_toxml_attr_safe.

Theorem C14_toxml_bytes_ok : forall s, Forall out_byte_ok (toxml s).
Proof. exact toxml_bytes_ok. Qed.
Print Assumptions C14_toxml_bytes_ok.

(* the reader's id resolution succeeds on every closed document and binds each attribute to an
   element carrying that id; it raises only on a strict attribute that is not closed *)
Theorem C14_resolve_total_on_closed d :
  closed d ->
  exists g, resolve d = Resolved g /\ map fst g = d_refs d /\
            Forall (fun re => match snd re with
                              | None => r_target (fst re) = 0
                              | Some e => In e (d_elems d) /\ e_id e = r_target (fst re)
                              end) g.
Proof. exact (resolve_total_on_closed d). Qed.
Print Assumptions C14_resolve_total_on_closed.

Theorem C14_resolve_dangling_not_closed d r :
  resolve d = Dangling r -> In r (d_refs d) /\ r_strict r = true /\ ~ closed_ref d r.
Proof. exact (resolve_dangling_not_closed d r). Qed.
Print Assumptions C14_resolve_dangling_not_closed.

(* the validator run over real dumps: acceptance implies unique ids and that every id-valued
   attribute is null or names the element of the required kind in the same configuration *)
Theorem C14_check_doc_refs_sound d :
  check_doc d = VOk ->
  NoDup (map e_id (d_elems d)) /\
  forall r, In r (d_refs d) ->
    r_target r = 0 \/ exists e, In e (d_elems d) /\ e_id e = r_target r /\ e_kind e = r_kind r.
Proof. exact (check_doc_refs_sound d). Qed.
Print Assumptions C14_check_doc_refs_sound.

(* the stack core of Tokenizer::createLinks2 (the Token::Match heuristics abstracted as the event the
   loop body performs, so every outcome of them is covered): the '<' '>' pairs it links and the
   bracket pairs it walks over are opening-before-closing, of one kind, and pairwise disjoint or nested *)
Theorem C14_links2_nested es st :
  create_links2 es = S2Cont st ->
  let E := fun p => nth (N.to_nat p) es E2Other in
  (forall o c b, In (o, c, b) (l2_pairs st) ->
     o < c /\ c < N.of_nat (length es) /\
     (if b then E o = E2Lt /\ E c = E2Gt true true else E o = E2Open /\ E c = E2Close)) /\
  pairs_ok (map pr (l2_pairs st)) /\
  ForallOrdPairs nested_or_disjoint (map pr (l2_pairs st)).
Proof. exact (links2_nested es st). Qed.
Print Assumptions C14_links2_nested.

(* the validator run over real dumps, AST and link part: acceptance implies, for every token of the
   document, that its astParent has it as an operand, its operands have it as parent and differ,
   its parent chain ends, and its link is symmetric and not a fixed point (attr_val = the value
   of the attribute in the document) *)
Theorem C14_check_doc_ast_links_sound d :
  check_doc d = VOk ->
  forall x, In x (token_ids d) ->
    (forall p, attr_val d A_PARENT x = Some p -> attr_val d A_OP1 p = Some x \/ attr_val d A_OP2 p = Some x) /\
    (forall c, attr_val d A_OP1 x = Some c -> attr_val d A_PARENT c = Some x /\ attr_val d A_OP2 x <> Some c) /\
    (forall c, attr_val d A_OP2 x = Some c -> attr_val d A_PARENT c = Some x) /\
    (exists k, par_iter d (S k) x = None) /\
    (forall y, attr_val d A_LINK x = Some y -> attr_val d A_LINK y = Some x /\ y <> x).
Proof. exact (check_doc_ast_links_sound d). Qed.
Print Assumptions C14_check_doc_ast_links_sound.

(* non-vacuity *)
Example C14_links2_ok :
  exists st, create_links2 [E2Lt; E2Open; E2Lt; E2Gt true true; E2Close; E2Gt true true] = S2Cont st /\
             l2_pairs st = [(0, 5, true); (1, 4, false); (2, 3, true)].
Proof. eexists. split; vm_compute; reflexivity. Qed.
Example C14_links2_candidate_dropped :   (* a < b ; c > d : the ';' discards the candidate *)
  exists st, create_links2 [E2Other; E2Lt; E2Other; E2Drop; E2Other; E2Gt true true] = S2Cont st /\ l2_pairs st = [].
Proof. eexists. split; vm_compute; reflexivity. Qed.
Example C14_links_ok : create_links_chars [123; 40; 91; 93; 41; 125] = LOk [(0, 5); (1, 4); (2, 3)].
Proof. vm_compute. reflexivity. Qed.
Example C14_links_cross_kind : create_links_chars [40; 91; 41; 93] = LUnmatched 1.   (* ( [ ) ] *)
Proof. vm_compute. reflexivity. Qed.
Example C14_ast_ok :
  exists h n, run_ops 5 h_empty [OSet1 1 (Some 0); OSet2 1 (Some 2); OSet1 3 (Some 0)] 0 = (h, SOk, n) /\
              h_par h 1 = Some 3 /\ h_op1 h 3 = Some 1.
Proof. eexists. eexists. split; [vm_compute; reflexivity|]. split; reflexivity. Qed.
Example C14_ast_cyclic :
  snd (fst (run_ops 5 h_empty [OSet1 1 (Some 0); OSet1 0 (Some 1)] 0)) = SCyclic.
Proof. vm_compute. reflexivity. Qed.
Example C14_closed_doc :
  closed (mkD [mkE KToken 5 [40]; mkE KToken 6 [41]] [mkR 5 A_LINK 6 KToken true; mkR 6 A_LINK 5 KToken true]).
Proof. intros r [<-|[<-|[]]]; right; cbn; eauto. Qed.
Example C14_check_doc_accepts :
  check_doc (mkD [mkE KToken 5 [40]; mkE KToken 6 [41]] [mkR 5 A_LINK 6 KToken true; mkR 6 A_LINK 5 KToken true]) = VOk.
Proof. vm_compute. reflexivity. Qed.
Example C14_check_doc_rejects :
  check_doc (mkD [mkE KToken 5 [40]; mkE KToken 6 [41]] [mkR 5 A_LINK 6 KToken true; mkR 6 A_LINK 7 KToken true]) <> VOk.
Proof. vm_compute. discriminate. Qed.
