(* C14  Dump output is well-formed and self-consistent.
   Statements only; every proof is `exact <lemma>`. *)
From CV Require Import Base.Bytes Ctu.Defs Dump.Defs Dump.XmlProofs.
Local Open Scope N_scope.

(* every attribute value written through ErrorLogger::toxml consists of plain printable
   characters (none of lt gt amp quot apos) and complete references only *)
Theorem C14_toxml_attr_safe : forall s, attr_safe (toxml s).
Proof. exact toxml_attr_safe. Qed.
Print Assumptions C14_toxml_attr_safe.

Theorem C14_toxml_bytes_ok : forall s, Forall out_byte_ok (toxml s).
Proof. exact toxml_bytes_ok. Qed.
Print Assumptions C14_toxml_bytes_ok.
