(* C06  Typedef, alias, macro and template expansion is transparent (partial: the expansion
   the model performs is semantics-preserving; that cppcheck performs it is sampled). *)
From CV Require Import Base.Bytes VF.Defs Expand.Defs Expand.Proofs.

(* The type of every declared entity is the same in the expanded program (which has no alias
   environment at all) and in the original one with aliases resolved by the environment; e is the
   expansion state reached so far (empty for a whole program). Induction over the program with
   the declarator-composition lemma build_plug: `typedef int ( *F)(int); F a[3];` *)
Theorem C06_expand_alias_sem : forall p e,
  prog_specs p = true -> types [] (expand_alias e p) = types (env_of e) p.
Proof. exact expand_alias_sem. Qed.
Print Assumptions C06_expand_alias_sem.

Theorem C06_declarator_composition : forall d0 d t, build (plug d0 d) t = build d (snd (build d0 t)).
Proof. exact build_plug. Qed.
Print Assumptions C06_declarator_composition.

(* the expanded program consists of declarations only and mentions no alias *)
Theorem C06_expand_alias_plain : forall p e,
  xenv_plain e -> prog_closed (map fst e) p = true -> forallb item_plain (expand_alias e p) = true.
Proof. exact expand_alias_plain. Qed.
Print Assumptions C06_expand_alias_plain.

(* macros (call-by-name substitution): expanding nested invocations inside-out or outside-in
   yields the same expression *)
Theorem C06_expand_macro_sem_partial : forall args margs m,
  inst args (msubst margs m) = inst (map (inst args) margs) m.
Proof. exact inst_msubst. Qed.
Print Assumptions C06_expand_macro_sem_partial.

(* premises are inhabited: typedef int ( *F)(int); F a[3];  -  a is an array of 3 pointers to function *)
Definition s_int : str := [105;110;116]%N.
Definition ex_prog : list item :=
  [ITypedef (TBase s_int) (DFun (DPtr (DId [70%N])) [TBase s_int]); IDecl (TName [70%N]) (DArr (DId [97%N]) 3)].
Example C06_ex_wf : prog_specs ex_prog = true /\ prog_closed [] ex_prog = true.
Proof. vm_compute. auto. Qed.
Example C06_ex_types : types [] ex_prog = [([97%N], TArr 3 (TPtr (TFun (TBase s_int) [TBase s_int])))].
Proof. vm_compute. reflexivity. Qed.
Example C06_ex_expand : expand_alias [] ex_prog =
  [IDecl (TBase s_int) (DFun (DPtr (DArr (DId [97%N]) 3)) [TBase s_int])].
Proof. vm_compute. reflexivity. Qed.
Example C06_ex_xenv_plain : xenv_plain [].
Proof. intros n s d H. discriminate. Qed.
