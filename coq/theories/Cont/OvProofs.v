(* C02 proofs, overload dimension: a shape-level decision is sound for every numeric instance. *)
From CV Require Import Base.Bytes Cont.Gen_StdCfg Cont.Defs Cont.Proofs Cont.Overloads.
Require Import Lia ZifyBool.
Local Open Scope Z_scope.

(* L: the length the analyzer obtained for the single argument (0 = unknown), Ls: the real one *)
Lemma sym_okb_sound2 s e L Ls : (L = 0 \/ L = Ls) -> sym_okb s e = true -> sound_step Ls (concretize s L) e.
Proof.
  intros [->| ->] H; [|apply sym_okb_sound; exact H].
  destruct s; try (apply (sym_okb_sound _ e Ls) in H; exact H).
  (* SAppend1 with unknown length: the value is lowered to Possible *)
  intros n n' v v' _ _ _ Hs. cbn in Hs. injection Hs as <-. reflexivity.
Qed.

Lemma shape_ok_inst s a o : shape_okb s a = true -> sym_okb s (conc a o) = true.
Proof.
  destruct a; cbn [shape_okb conc]; intros H; auto;
    try (destruct (src_len (o_src o))); try (destruct (o_lead o));
    destruct s; try discriminate; try reflexivity; auto.
Qed.

Lemma all_lshapes_complete l : In l all_lshapes.
Proof. destruct l; cbn; tauto. Qed.
Lemma all_sshapes_complete s : In s all_sshapes.
Proof. destruct s; cbn; tauto. Qed.

Lemma ocase_in_rows id c m ay k l s var :
  In (m, ay) (c_fns c) -> In k (kinds_of_start (c_start c)) -> In (mkOCase id m k l s var) (orow_cases id c).
Proof.
  intros Hm Hk. unfold orow_cases.
  apply in_flat_map. exists (m, ay). split; auto.
  apply in_flat_map. exists k. split; auto.
  apply in_flat_map. exists l. split; [apply all_lshapes_complete|].
  apply in_flat_map. exists s. split; [apply all_sshapes_complete|].
  cbn [fst]. destruct var; cbn; auto.
Qed.

Theorem size_effect_sound_ov :
  forall tbl id c m k o var L Ls,
    In (id, c) tbl -> In k (kinds_of_start (c_start c)) ->
    ~ In (mkOCase id m k (lshape_of (o_lead o)) (sshape_of (o_src o)) var) (unsound_ov_cases tbl) ->
    (L = 0 \/ L = Ls) ->
    sound_step Ls (analyzer_step (get_action c m) (get_yield c m) (arity o) var L) (std_eff_ov k m o).
Proof.
  intros tbl id c m k o var L Ls Hc Hk Hn HL.
  unfold analyzer_step. apply sym_okb_sound2; [exact HL|].
  unfold std_eff_ov.
  destruct (meth_of_name m meth_names) as [mm|] eqn:Em; [|destruct (analyzer_sym _ _ _ _); reflexivity].
  apply shape_ok_inst.
  unfold get_action, get_yield.
  destruct (lookup_fn m (c_fns c)) as [[a y]|] eqn:El.
  - destruct (lookup_fn_In _ _ _ El) as (n & En & Hin). apply str_eqb_eq in En. subst n.
    pose proof (ocase_in_rows id c m (a, y) k (lshape_of (o_lead o)) (sshape_of (o_src o)) var Hin Hk) as Hr.
    destruct (ocase_okb c (mkOCase id m k (lshape_of (o_lead o)) (sshape_of (o_src o)) var)) eqn:E.
    + unfold ocase_okb, ocase_step, ocase_aeff, get_action, get_yield in E.
      cbn [oc_meth oc_l oc_s oc_var oc_kind] in E. rewrite El, Em in E. exact E.
    + exfalso. apply Hn. unfold unsound_ov_cases. apply in_flat_map. exists (id, c). split; auto.
      cbn [fst snd]. apply filter_In. split; auto. rewrite E. reflexivity.
  - (* unknown member: invalidated *)
    cbn. destruct (ov_shape_eff k mm _ _); reflexivity.
Qed.

(* the standard's (str, pos) overload: appending other.substr(pos) adds size(other) - pos, not pos *)
Example append_str_pos : std_eff_ov KString [97;112;112;101;110;100]%N (mkOv LNone (SStrPos 5 1)) = EDelta 0 4 4.
Proof. vm_compute. reflexivity. Qed.
