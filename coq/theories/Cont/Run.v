(* Entry point of the extracted executable for the container-size model (C02). *)
From CV Require Import Base.Bytes Cont.Gen_StdCfg Cont.Defs Cont.Overloads.
Local Open Scope Z_scope.

Definition zd (s : str) : Z := match Z_of_dec s with Some z => z | None => 0 end.
Definition nd (s : str) : N := match N_of_dec s with Some n => n | None => 0%N end.

Definition tag_E : str := [69%N].
Definition tag_N : str := [78%N].

Definition kind_str (k : vkind) : str := match k with Known => [75%N] | Possible => [80%N] | Impossible => [73%N] end.
Definition kind_of (s : str) : vkind := match s with [75%N] => Known | [73%N] => Impossible | _ => Possible end.
Definition bound_str (b : vbound) : str := match b with Point => [80%N] | Upper => [85%N] | Lower => [76%N] end.
Definition bound_of (s : str) : vbound := match s with [85%N] => Upper | [76%N] => Lower | _ => Point end.
Definition val_fields (v : cval) : list str := [kind_str (v_kind v); bound_str (v_bound v); dec_of_Z (v_int v)].

Definition action_of_idx (i : N) : action :=
  match find (fun a => N.eqb (action_idx a) i) all_actions with Some a => a | None => A_NO_ACTION end.
Definition yield_of_idx (i : N) : yield :=
  match find (fun y => N.eqb (yield_idx y) i) all_yields with Some y => y | None => Y_NO_YIELD end.
Definition ckind_of_idx (i : N) : option ckind := find (fun k => N.eqb (kind_idx k) i) all_kinds.

Definition step_fields (s : step) : list str :=
  match s with
  | Write d => [[87%N]; dec_of_Z d]
  | Weaken => [[80%N]]
  | Invalid => [[73%N]]
  | Keep => [[75%N]]
  end.

Definition eff_fields (e : eff) : list str :=
  match e with
  | ENoSuch => [tag_N]
  | EDelta need lo hi => [[68%N]; dec_of_Z need; dec_of_Z lo; dec_of_Z hi]
  | EAppend => [[65%N]]
  | EConst c => [[67%N]; dec_of_Z c]
  | EAny => [[88%N]]
  end.

Definition case_fields (rc : rcase) : list str :=
  [rc_cont rc; rc_meth rc; dec_of_N (kind_idx (rc_kind rc)); dec_of_N (rc_nargs rc); str_of_bool (rc_var rc)].

(* overloads: lead tag n | i pos | l pos len | t | p dist ; src tag n | c | k | e | s | q | S | P | L | r | I with up to three numbers *)
Definition lead_of (t : str) (a b : Z) : lead :=
  match t with
  | [105%N] => LIdx a | [108%N] => LIdxLen a b | [116%N] => LIter | [112%N] => LIterPair a | _ => LNone
  end.
Definition src_of (t : str) (a b c : Z) : src :=
  match t with
  | [99%N] => SCount a | [107%N] => SCountCh a | [101%N] => SElem | [115%N] => SPtr a | [113%N] => SPtrCount a
  | [83%N] => SStr a | [80%N] => SStrPos a b | [76%N] => SStrPosLen a b c | [114%N] => SRange a | [73%N] => SInit a
  | _ => SNone
  end.
Definition lshape_idx (l : lshape) : N := match l with HNone => 0 | HIdx => 1 | HIdxLen => 2 | HIter => 3 | HIterPair => 4 end%N.
Definition sshape_idx (s : sshape) : N :=
  match s with ZNone => 0 | ZCount => 1 | ZCountCh => 2 | ZElem => 3 | ZPtr => 4 | ZPtrCount => 5 | ZStr => 6 | ZStrPos => 7
  | ZStrPosLen => 8 | ZRange => 9 | ZInit => 10 end%N.
Definition ocase_fields (oc : ocase) : list str :=
  [oc_cont oc; oc_meth oc; dec_of_N (kind_idx (oc_kind oc)); dec_of_N (lshape_idx (oc_l oc)); dec_of_N (sshape_idx (oc_s oc)); str_of_bool (oc_var oc)].

Definition run (fields : list str) : list str :=
  match fields with
  | [101%N; 102%N; 102%N; 111%N; 118%N] :: k :: m :: lt :: l1 :: l2 :: st :: s1 :: s2 :: s3 :: _ =>   (* effov *)
      match ckind_of_idx (nd k) with
      | Some k => let o := mkOv (lead_of lt (zd l1) (zd l2)) (src_of st (zd s1) (zd s2) (zd s3)) in
                  eff_fields (std_eff_ov k m o) ++ [dec_of_N (arity o); str_of_bool (ov_wf o)]
      | None => [tag_E] end
  | [117%N; 110%N; 115%N; 111%N; 117%N; 110%N; 100%N; 111%N; 118%N] :: _ =>                          (* unsoundov *)
      match load std_raw with Some t => flat_map ocase_fields (unsound_ov_cases t) | None => [tag_E] end
  | [111%N; 118%N; 99%N; 97%N; 115%N; 101%N; 115%N] :: _ =>                                          (* ovcases *)
      match load std_raw with Some t => flat_map ocase_fields (existing_ov_cases t) | None => [tag_E] end
  | [99%N; 111%N; 110%N; 116%N; 115%N] :: _ =>                       (* conts *)
      match load std_raw with Some t => map fst t | None => [tag_E] end
  | [102%N; 117%N; 110%N; 99%N; 115%N] :: id :: _ =>                 (* funcs id *)
      match load std_raw with
      | None => [tag_E]
      | Some t =>
        match find_cont id t with
        | None => [tag_N]
        | Some c => str_of_bool (c_string c) :: str_of_bool (c_assoc c) :: c_start c ::
                    flat_map (fun f : str * (action * yield) =>
                      [fst f; dec_of_N (action_idx (fst (snd f))); dec_of_N (yield_idx (snd (snd f)))]) (c_fns c)
        end
      end
  | [115%N; 116%N; 101%N; 112%N] :: a :: y :: na :: var :: L :: _ => (* step *)
      step_fields (analyzer_step (action_of_idx (nd a)) (yield_of_idx (nd y)) (nd na) (bool_of_str var) (zd L))
  | [101%N; 109%N; 112%N; 116%N; 121%N] :: k :: b :: i :: _ =>       (* empty *)
      val_fields (empty_of_size (mkV (kind_of k) (bound_of b) (zd i)))
  | [101%N; 102%N; 102%N] :: k :: m :: na :: _ =>                    (* eff *)
      match ckind_of_idx (nd k) with Some k => eff_fields (std_effect k m (nd na)) | None => [tag_E] end
  | [117%N; 110%N; 115%N; 111%N; 117%N; 110%N; 100%N] :: _ =>        (* unsound *)
      match load std_raw with Some t => flat_map case_fields (unsound_cases t) | None => [tag_E] end
  | [99%N; 111%N; 118%N; 101%N; 114%N; 101%N; 100%N] :: _ =>         (* covered *)
      match load std_raw with
      | Some t => [dec_of_N (N.of_nat (length (covered_cases t)));
                   dec_of_N (N.of_nat (length (flat_map (fun ic : str * cont => row_cases (fst ic) (snd ic)) t)))]
      | None => [tag_E] end
  | [104%N; 111%N; 108%N; 100%N; 115%N] :: n :: k :: b :: i :: _ =>  (* holds *)
      [str_of_bool (holdsb (zd n) (mkV (kind_of k) (bound_of b) (zd i)))]
  | _ => [tag_E]
  end.
