(* C02 model: the container part of the library loader, the size-changing
   step of ContainerExpressionAnalyzer, the SIZE/EMPTY yield mapping of
   setTokenValue, and a reference semantics (what the C++ standard says a
   member call does to size()).  No proofs here.

   Sources transcribed (read 2026-09):
     lib/library.cpp      Library::load, <container> branch  -> load
     lib/library.h        Container::getAction / getYield    -> get_action / get_yield
     lib/vf_analyzers.cpp ContainerExpressionAnalyzer::isWritable / writeValue / isModified,
                          ValueFlowAnalyzer::analyzeMatch    -> analyzer_sym / concretize
     lib/valueflow.cpp    ValueFlow::isContainerSizeChanged  -> size_changed
     lib/vf_settokenvalue.cpp  Yield::SIZE / Yield::EMPTY    -> size_of_size / empty_of_size
   Gen_StdCfg.v (regenerated on every run) supplies the Action/Yield enums,
   actionFrom/yieldFrom and the raw <container> elements of cfg/std.cfg. *)
From CV Require Import Base.Bytes Cont.Gen_StdCfg.
Require Coq.Strings.String Coq.Strings.Ascii.
Delimit Scope string_scope with string.
String Notation String.string String.string_of_list_byte String.list_byte_of_string : string_scope.
Definition lit (x : String.string) : str :=
  List.map Ascii.N_of_ascii (String.list_ascii_of_string x).

(* ------------------------------------------------------------------ *)
(* 1. Library::load, <container> branch                                 *)
(* ------------------------------------------------------------------ *)
Record cont := mkCont {
  c_start : str;                 (* startPattern *)
  c_string : bool;               (* stdStringLike *)
  c_assoc : bool;                (* stdAssociativeLike *)
  c_fns : list (str * (action * yield)) (* std::map<std::string, Function> functions *)
}.
Definition empty_cont : cont := mkCont [] false false [].

(* functions[name] = {action, yield} *)
Fixpoint set_fn (name : str) (ay : action * yield) (fs : list (str * (action * yield))) :=
  match fs with
  | [] => [(name, ay)]
  | (n, x) :: r => if str_eqb n name then (n, ay) :: r else (n, x) :: set_fn name ay r
  end.

Fixpoint find_cont (id : str) (m : list (str * cont)) : option cont :=
  match m with
  | [] => None
  | (i, c) :: r => if str_eqb i id then Some c else find_cont id r
  end.

Fixpoint set_cont (id : str) (c : cont) (m : list (str * cont)) : list (str * cont) :=
  match m with
  | [] => [(id, c)]
  | (i, x) :: r => if str_eqb i id then (i, c) :: r else (i, x) :: set_cont id c r
  end.

Definition is_no_action (a : action) : bool := N.eqb (action_idx a) (action_idx A_NO_ACTION).
Definition is_no_yield (y : yield) : bool := N.eqb (yield_idx y) (yield_idx Y_NO_YIELD).

(* one <function>: an attribute that is present but not recognised is an error *)
Definition add_fn (c : option cont) (f : rawfn) : option cont :=
  match c with
  | None => None
  | Some c =>
    let a := match f_action f with None => Some A_NO_ACTION
             | Some s => if is_no_action (action_from s) then None else Some (action_from s) end in
    let y := match f_yield f with None => Some Y_NO_YIELD
             | Some s => if is_no_yield (yield_from s) then None else Some (yield_from s) end in
    match a, y with
    | Some a, Some y => Some (mkCont (c_start c) (c_string c) (c_assoc c) (set_fn (f_name f) (a, y) (c_fns c)))
    | _, _ => None
    end
  end.

Definition load_one (m : option (list (str * cont))) (rc : rawcont) : option (list (str * cont)) :=
  match m with
  | None => None
  | Some m =>
    let base0 := match find_cont (rc_id rc) m with Some c => c | None => empty_cont end in
    let base := match rc_inherits rc with
                | None => Some base0
                | Some p => find_cont p m     (* unknown parent: BAD_ATTRIBUTE_VALUE *)
                end in
    match base with
    | None => None
    | Some b =>
      let b1 := mkCont (match rc_start rc with Some s => s | None => c_start b end)
                       (match rc_string rc with Some x => x | None => c_string b end)
                       (match rc_assoc rc with Some x => x | None => c_assoc b end)
                       (c_fns b) in
      match fold_left add_fn (rc_fns rc) (Some b1) with
      | Some c => Some (set_cont (rc_id rc) c m)
      | None => None
      end
    end
  end.

Definition load (raw : list rawcont) : option (list (str * cont)) :=
  fold_left load_one raw (Some []).

Fixpoint lookup_fn (name : str) (fs : list (str * (action * yield))) : option (action * yield) :=
  match fs with
  | [] => None
  | (n, x) :: r => if str_eqb n name then Some x else lookup_fn name r
  end.
Definition get_action (c : cont) (name : str) : action :=
  match lookup_fn name (c_fns c) with Some (a, _) => a | None => A_NO_ACTION end.
Definition get_yield (c : cont) (name : str) : yield :=
  match lookup_fn name (c_fns c) with Some (_, y) => y | None => Y_NO_YIELD end.

(* ------------------------------------------------------------------ *)
(* 2. container-size values                                             *)
(* ------------------------------------------------------------------ *)
Local Open Scope Z_scope.
Inductive vkind := Known | Possible | Impossible.
Inductive vbound := Point | Upper | Lower.
Record cval := mkV { v_kind : vkind; v_bound : vbound; v_int : Z }.

(* what a value says about a quantity x (vfvalue.h: Upper = "value is less than or
   equal to intvalue", Lower = "greater or equal"; Impossible negates; Possible claims nothing) *)
Definition in_bound (b : vbound) (x i : Z) : bool :=
  match b with Point => x =? i | Upper => x <=? i | Lower => i <=? x end.
Definition holdsb (x : Z) (v : cval) : bool :=
  match v_kind v with
  | Possible => true
  | Known => in_bound (v_bound v) x (v_int v)
  | Impossible => negb (in_bound (v_bound v) x (v_int v))
  end.
Definition holds (x : Z) (v : cval) : Prop := holdsb x v = true.
(* cppcheck only creates Known values with a Point bound (lower bounds on a size are
   Impossible/Upper, valueflow.cpp forwardMinimumContainerSize) *)
Definition wf_val (v : cval) : bool :=
  match v_kind v, v_bound v with Known, Point => true | Known, _ => false | _, _ => true end.

(* vf_settokenvalue.cpp: Yield::SIZE  ->  same value, as an INT value of `( ` *)
Definition size_of_size (v : cval) : cval := v.
(* vf_settokenvalue.cpp: Yield::EMPTY *)
Definition empty_of_size (v : cval) : cval :=
  match v_kind v with
  | Impossible =>
      if v_int v =? 0 then mkV Known Point 0
      else if match v_bound v with Upper => 0 <? v_int v | Lower => v_int v <? 0 | Point => false end
           then mkV Known Point 0
           else mkV Possible Point (v_int v)
  | k => mkV k Point (if v_int v =? 0 then 1 else 0)    (* value.intvalue = !value.intvalue *)
  end.

(* ------------------------------------------------------------------ *)
(* 3. the analyzer step for  `c . m ( args )`  with c on the left       *)
(* ------------------------------------------------------------------ *)
(* ValueFlow::isContainerSizeChanged, the switch over astContainerAction; for a member
   call the fall-through to isContainerSizeChangedByFunction answers false (c is not an
   argument of a function) *)
Definition size_changed (a : action) (y : yield) : bool :=
  match a with
  | A_RESIZE | A_CLEAR | A_PUSH | A_POP | A_CHANGE | A_INSERT | A_ERASE | A_APPEND => true
  | A_NO_ACTION => is_no_yield y
  | A_FIND | A_FIND_CONST | A_CHANGE_CONTENT | A_CHANGE_INTERNAL => false
  end.

Inductive sstep :=
| SWrite (d : Z)     (* isWritable; writeValue adds d *)
| SAppend1           (* APPEND with exactly one argument: + its length, or lowered to Possible if that is 0 *)
| SWeaken            (* APPEND with another arity: n = 0 -> setPossible *)
| SInvalid           (* isModified -> Action::Invalid *)
| SKeep.             (* Action::Read only *)

(* analyzeMatch: isWritable first, then isModified *)
Definition analyzer_sym (a : action) (y : yield) (nargs : N) (variadic : bool) : sstep :=
  match a with
  | A_PUSH => if (nargs <? 2)%N || variadic then SWrite 1 else SInvalid
  | A_POP => if (nargs <? 2)%N || variadic then SWrite (-1) else SInvalid
  | A_APPEND => if (nargs =? 1)%N then SAppend1 else SWeaken
  | _ => if size_changed a y then SInvalid else SKeep
  end.

Inductive step := Write (d : Z) | Weaken | Invalid | Keep.
Definition concretize (s : sstep) (L : Z) : step :=
  match s with
  | SWrite d => Write d
  | SAppend1 => if L =? 0 then Weaken else Write L
  | SWeaken => Weaken
  | SInvalid => Invalid
  | SKeep => Keep
  end.
Definition analyzer_step (a : action) (y : yield) (nargs : N) (variadic : bool) (L : Z) : step :=
  concretize (analyzer_sym a y nargs variadic) L.

Definition apply_step (s : step) (v : cval) : option cval :=
  match s with
  | Write d => Some (mkV (v_kind v) (v_bound v) (v_int v + d))
  | Weaken => Some (mkV Possible (v_bound v) (v_int v))
  | Invalid => None
  | Keep => Some v
  end.

(* ------------------------------------------------------------------ *)
(* 4. reference semantics: effect of a member call on size()            *)
(* ------------------------------------------------------------------ *)
Inductive ckind := KVector | KDeque | KList | KFwdList | KString | KArray
                 | KSet | KMultiSet | KMap | KMultiMap | KQueue | KStack.
Definition all_kinds := [KVector; KDeque; KList; KFwdList; KString; KArray; KSet; KMultiSet; KMap; KMultiMap; KQueue; KStack].
Definition kind_idx (k : ckind) : N :=
  match k with KVector => 0 | KDeque => 1 | KList => 2 | KFwdList => 3 | KString => 4 | KArray => 5
  | KSet => 6 | KMultiSet => 7 | KMap => 8 | KMultiMap => 9 | KQueue => 10 | KStack => 11 end%N.

Definition sp_vector := Eval compute in lit "std :: vector <"%string.
Definition sp_deque := Eval compute in lit "std :: deque <"%string.
Definition sp_array := Eval compute in lit "std :: array <"%string.
Definition sp_queue := Eval compute in lit "std :: queue <"%string.
Definition sp_stack := Eval compute in lit "std :: stack|priority_queue <"%string.
Definition sp_multiset := Eval compute in lit "std :: multiset|unordered_multiset <"%string.
Definition sp_multimap := Eval compute in lit "std :: multimap|unordered_multimap <"%string.
Definition sp_set := Eval compute in lit "std :: set|unordered_set <"%string.
Definition sp_map := Eval compute in lit "std :: map|unordered_map <"%string.
Definition sp_list := Eval compute in lit "std :: list|forward_list <"%string.
Definition sp_string := Eval compute in lit "std :: string|wstring|u16string|u32string"%string.
Definition sp_bstring := Eval compute in lit "std :: basic_string <"%string.

(* which standard containers a startPattern stands for (unordered_* behave like the ordered
   ones as far as size() is concerned; priority_queue like stack) *)
Definition kinds_of_start (s : str) : list ckind :=
  if str_eqb s sp_vector then [KVector] else
  if str_eqb s sp_deque then [KDeque] else
  if str_eqb s sp_array then [KArray] else
  if str_eqb s sp_queue then [KQueue] else
  if str_eqb s sp_stack then [KStack] else
  if str_eqb s sp_multiset then [KMultiSet] else
  if str_eqb s sp_multimap then [KMultiMap] else
  if str_eqb s sp_set then [KSet] else
  if str_eqb s sp_map then [KMap] else
  if str_eqb s sp_list then [KList; KFwdList] else
  if str_eqb s sp_string then [KString] else
  if str_eqb s sp_bstring then [KString] else [].

Inductive eff :=
| ENoSuch                       (* no such member / arity: no execution *)
| EDelta (need lo hi : Z)       (* UB if size < need; else new size in [size+lo, size+hi] *)
| EAppend                       (* new size = size + length of the argument *)
| EConst (c : Z)                (* new size = c *)
| EAny.                         (* new size depends on the arguments / contents *)

(* a UB-free execution of the call may take size n to n' (L = length of the appended argument) *)
Definition eff_allows (L : Z) (e : eff) (n n' : Z) : Prop :=
  match e with
  | ENoSuch => False
  | EDelta need lo hi => need <= n /\ n + lo <= n' <= n + hi
  | EAppend => n' = n + L
  | EConst c => n' = c
  | EAny => 0 <= n'
  end.
Definition eff_allowsb (L : Z) (e : eff) (n n' : Z) : bool :=
  match e with
  | ENoSuch => false
  | EDelta need lo hi => (need <=? n) && (n + lo <=? n') && (n' <=? n + hi)
  | EAppend => n' =? n + L
  | EConst c => n' =? c
  | EAny => 0 <=? n'
  end.
Inductive meth :=
  | M_resize
  | M_clear
  | M_size
  | M_empty
  | M_erase
  | M_insert
  | M_emplace
  | M_swap
  | M_assign
  | M_begin
  | M_cbegin
  | M_rbegin
  | M_crbegin
  | M_end
  | M_cend
  | M_rend
  | M_crend
  | M_push_back
  | M_emplace_back
  | M_pop_back
  | M_push_front
  | M_emplace_front
  | M_at
  | M_front
  | M_back
  | M_data
  | M_shrink_to_fit
  | M_reserve
  | M_pop_front
  | M_max_size
  | M_fill
  | M_push
  | M_pop
  | M_top
  | M_find
  | M_count
  | M_emplace_hint
  | M_rehash
  | M_lower_bound
  | M_upper_bound
  | M_try_emplace
  | M_insert_or_assign
  | M_emplace_after
  | M_erase_after
  | M_insert_after
  | M_remove
  | M_remove_if
  | M_unique
  | M_merge
  | M_splice
  | M_splice_after
  | M_before_begin
  | M_cbefore_begin
  | M_reverse
  | M_sort
  | M_append
  | M_replace
  | M_length
  | M_c_str
  | M_rfind
  | M_find_last_of
  | M_find_last_not_of
  | M_find_first_of
  | M_find_first_not_of
  | M_remove_prefix
  | M_remove_suffix.
Local Open Scope N_scope.
Definition meth_names : list (str * meth) := [
  ([114;101;115;105;122;101], M_resize);
  ([99;108;101;97;114], M_clear);
  ([115;105;122;101], M_size);
  ([101;109;112;116;121], M_empty);
  ([101;114;97;115;101], M_erase);
  ([105;110;115;101;114;116], M_insert);
  ([101;109;112;108;97;99;101], M_emplace);
  ([115;119;97;112], M_swap);
  ([97;115;115;105;103;110], M_assign);
  ([98;101;103;105;110], M_begin);
  ([99;98;101;103;105;110], M_cbegin);
  ([114;98;101;103;105;110], M_rbegin);
  ([99;114;98;101;103;105;110], M_crbegin);
  ([101;110;100], M_end);
  ([99;101;110;100], M_cend);
  ([114;101;110;100], M_rend);
  ([99;114;101;110;100], M_crend);
  ([112;117;115;104;95;98;97;99;107], M_push_back);
  ([101;109;112;108;97;99;101;95;98;97;99;107], M_emplace_back);
  ([112;111;112;95;98;97;99;107], M_pop_back);
  ([112;117;115;104;95;102;114;111;110;116], M_push_front);
  ([101;109;112;108;97;99;101;95;102;114;111;110;116], M_emplace_front);
  ([97;116], M_at);
  ([102;114;111;110;116], M_front);
  ([98;97;99;107], M_back);
  ([100;97;116;97], M_data);
  ([115;104;114;105;110;107;95;116;111;95;102;105;116], M_shrink_to_fit);
  ([114;101;115;101;114;118;101], M_reserve);
  ([112;111;112;95;102;114;111;110;116], M_pop_front);
  ([109;97;120;95;115;105;122;101], M_max_size);
  ([102;105;108;108], M_fill);
  ([112;117;115;104], M_push);
  ([112;111;112], M_pop);
  ([116;111;112], M_top);
  ([102;105;110;100], M_find);
  ([99;111;117;110;116], M_count);
  ([101;109;112;108;97;99;101;95;104;105;110;116], M_emplace_hint);
  ([114;101;104;97;115;104], M_rehash);
  ([108;111;119;101;114;95;98;111;117;110;100], M_lower_bound);
  ([117;112;112;101;114;95;98;111;117;110;100], M_upper_bound);
  ([116;114;121;95;101;109;112;108;97;99;101], M_try_emplace);
  ([105;110;115;101;114;116;95;111;114;95;97;115;115;105;103;110], M_insert_or_assign);
  ([101;109;112;108;97;99;101;95;97;102;116;101;114], M_emplace_after);
  ([101;114;97;115;101;95;97;102;116;101;114], M_erase_after);
  ([105;110;115;101;114;116;95;97;102;116;101;114], M_insert_after);
  ([114;101;109;111;118;101], M_remove);
  ([114;101;109;111;118;101;95;105;102], M_remove_if);
  ([117;110;105;113;117;101], M_unique);
  ([109;101;114;103;101], M_merge);
  ([115;112;108;105;99;101], M_splice);
  ([115;112;108;105;99;101;95;97;102;116;101;114], M_splice_after);
  ([98;101;102;111;114;101;95;98;101;103;105;110], M_before_begin);
  ([99;98;101;102;111;114;101;95;98;101;103;105;110], M_cbefore_begin);
  ([114;101;118;101;114;115;101], M_reverse);
  ([115;111;114;116], M_sort);
  ([97;112;112;101;110;100], M_append);
  ([114;101;112;108;97;99;101], M_replace);
  ([108;101;110;103;116;104], M_length);
  ([99;95;115;116;114], M_c_str);
  ([114;102;105;110;100], M_rfind);
  ([102;105;110;100;95;108;97;115;116;95;111;102], M_find_last_of);
  ([102;105;110;100;95;108;97;115;116;95;110;111;116;95;111;102], M_find_last_not_of);
  ([102;105;110;100;95;102;105;114;115;116;95;111;102], M_find_first_of);
  ([102;105;110;100;95;102;105;114;115;116;95;110;111;116;95;111;102], M_find_first_not_of);
  ([114;101;109;111;118;101;95;112;114;101;102;105;120], M_remove_prefix);
  ([114;101;109;111;118;101;95;115;117;102;102;105;120], M_remove_suffix)].
Local Close Scope N_scope.
Local Open Scope Z_scope.

Fixpoint meth_of_name (s : str) (l : list (str * meth)) : option meth :=
  match l with
  | [] => None
  | (n, m) :: r => if str_eqb n s then Some m else meth_of_name s r
  end.

Definition unch (need : Z) : eff := EDelta need 0 0.
Definition grow1 : eff := EDelta 0 1 1.
Definition pop1 : eff := EDelta 1 (-1) (-1).
Definition maybe1 : eff := EDelta 0 0 1.
Definition ar (na : N) (l : list N) (e : eff) : eff := if existsb (N.eqb na) l then e else ENoSuch.
Definition ge1 (na : N) (e : eff) : eff := if (1 <=? na)%N then e else ENoSuch.

(* members every modelled kind has with the same meaning *)
Definition eff_common (m : meth) (na : N) : option eff :=
  match m with
  | M_empty | M_begin | M_cbegin | M_end | M_cend => Some (ar na [0%N] (unch 0))
  | M_swap => Some (ar na [1%N] EAny)
  | _ => None
  end.

Definition eff_iter_size (m : meth) (na : N) : option eff :=
  match m with
  | M_size | M_max_size | M_rbegin | M_crbegin | M_rend | M_crend => Some (ar na [0%N] (unch 0))
  | M_clear => Some (ar na [0%N] (EConst 0))
  | _ => None
  end.

Definition first_some (a b : option eff) (d : eff) : eff :=
  match a with Some e => e | None => match b with Some e => e | None => d end end.

(* na is the number of arguments, clamped to 4 *)
Definition std_eff (k : ckind) (m : meth) (na : N) : eff :=
  match k with
  | KVector | KDeque | KList =>
    first_some (eff_common m na) (eff_iter_size m na)
    (let dq := match k with KVector => false | _ => true end in
     let vd := match k with KList => false | _ => true end in
     match m with
     | M_resize => ar na [1;2]%N EAny
     | M_erase => ar na [1;2]%N EAny
     | M_insert => ar na [2;3]%N EAny
     | M_assign => ar na [1;2]%N EAny
     | M_emplace => ge1 na grow1
     | M_push_back => ar na [1%N] grow1
     | M_emplace_back => grow1
     | M_pop_back => ar na [0%N] pop1
     | M_push_front => if dq then ar na [1%N] grow1 else ENoSuch
     | M_emplace_front => if dq then grow1 else ENoSuch
     | M_pop_front => if dq then ar na [0%N] pop1 else ENoSuch
     | M_at => if vd then ar na [1%N] (unch 0) else ENoSuch
     | M_front | M_back => ar na [0%N] (unch 1)
     | M_data | M_reserve => match k with KVector => ar na [match m with M_data => 0 | _ => 1 end%N] (unch 0) | _ => ENoSuch end
     | M_shrink_to_fit => if vd then ar na [0%N] (unch 0) else ENoSuch
     | M_remove | M_remove_if => match k with KList => ar na [1%N] EAny | _ => ENoSuch end
     | M_unique => match k with KList => ar na [0;1]%N EAny | _ => ENoSuch end
     | M_merge => match k with KList => ar na [1;2]%N EAny | _ => ENoSuch end
     | M_splice => match k with KList => ar na [2;3;4]%N EAny | _ => ENoSuch end
     | M_reverse => match k with KList => ar na [0%N] (unch 0) | _ => ENoSuch end
     | M_sort => match k with KList => ar na [0;1]%N (unch 0) | _ => ENoSuch end
     | _ => ENoSuch
     end)
  | KFwdList =>
    first_some (eff_common m na) None
    (match m with
     | M_clear => ar na [0%N] (EConst 0)
     | M_max_size | M_before_begin | M_cbefore_begin => ar na [0%N] (unch 0)
     | M_resize | M_assign => ar na [1;2]%N EAny
     | M_push_front => ar na [1%N] grow1
     | M_emplace_front => grow1
     | M_pop_front => ar na [0%N] pop1
     | M_front => ar na [0%N] (unch 1)
     | M_emplace_after => ge1 na grow1
     | M_insert_after => ar na [2;3]%N EAny
     | M_erase_after => ar na [1;2]%N EAny
     | M_remove | M_remove_if => ar na [1%N] EAny
     | M_unique => ar na [0;1]%N EAny
     | M_merge => ar na [1;2]%N EAny
     | M_splice_after => ar na [2;3;4]%N EAny
     | M_reverse => ar na [0%N] (unch 0)
     | M_sort => ar na [0;1]%N (unch 0)
     | _ => ENoSuch
     end)
  | KString =>
    first_some (eff_common m na) (eff_iter_size m na)
    (match m with
     | M_length => ar na [0%N] (unch 0)
     | M_resize => ar na [1;2]%N EAny
     | M_erase => ar na [0;1;2]%N EAny
     | M_insert => ar na [2;3;4]%N EAny
     | M_assign => ar na [1;2;3]%N EAny
     | M_push_back => ar na [1%N] grow1
     | M_pop_back => ar na [0%N] pop1
     | M_append => if (na =? 1)%N then EAppend else ar na [2;3]%N EAny
     | M_replace => ar na [3;4]%N EAny
     | M_reserve => ar na [0;1]%N (unch 0)
     | M_shrink_to_fit | M_data | M_c_str => ar na [0%N] (unch 0)
     | M_at => ar na [1%N] (unch 0)
     | M_front | M_back => ar na [0%N] (unch 1)
     | M_find | M_rfind | M_find_last_of | M_find_last_not_of | M_find_first_of | M_find_first_not_of => ar na [1;2;3]%N (unch 0)
     | _ => ENoSuch
     end)
  | KArray =>
    match m with
    | M_empty | M_begin | M_cbegin | M_end | M_cend | M_size | M_max_size | M_rbegin | M_crbegin | M_rend | M_crend | M_data =>
        ar na [0%N] (unch 0)
    | M_swap | M_fill | M_at => ar na [1%N] (unch 0)
    | M_front | M_back => ar na [0%N] (unch 1)
    | _ => ENoSuch
    end
  | KSet | KMultiSet | KMap | KMultiMap =>
    first_some (eff_common m na) (eff_iter_size m na)
    (let uniq := match k with KSet | KMap => true | _ => false end in
     let one := if uniq then maybe1 else grow1 in
     match m with
     | M_erase => ar na [1;2]%N EAny
     | M_insert => if (na =? 1)%N then one else ar na [2%N] EAny
     | M_emplace => one
     | M_emplace_hint => ge1 na one
     | M_find | M_count | M_lower_bound | M_upper_bound | M_rehash => ar na [1%N] (unch 0)
     | M_try_emplace => match k with KMap => ge1 na maybe1 | _ => ENoSuch end
     | M_insert_or_assign => match k with KMap => ar na [2;3]%N maybe1 | _ => ENoSuch end
     | M_at => match k with KMap => ar na [1%N] (unch 0) | _ => ENoSuch end
     | _ => ENoSuch
     end)
  | KQueue | KStack =>
    match m with
    | M_empty | M_size => ar na [0%N] (unch 0)
    | M_swap => ar na [1%N] EAny
    | M_push => ar na [1%N] grow1
    | M_emplace => grow1
    | M_pop => ar na [0%N] pop1
    | M_front | M_back => match k with KQueue => ar na [0%N] (unch 1) | _ => ENoSuch end
    | M_top => match k with KStack => ar na [0%N] (unch 1) | _ => ENoSuch end
    | _ => ENoSuch
    end
  end.

Definition clamp4 (na : N) : N := N.min na 4.
Definition std_effect (k : ckind) (name : str) (nargs : N) : eff :=
  match meth_of_name name meth_names with
  | Some m => std_eff k m (clamp4 nargs)
  | None => ENoSuch
  end.

(* ------------------------------------------------------------------ *)
(* 5. decision: is the analyzer's step justified by the effect?         *)
(* ------------------------------------------------------------------ *)
Definition sym_okb (s : sstep) (e : eff) : bool :=
  match e with
  | ENoSuch => true
  | _ =>
    match s with
    | SWrite d => match e with EDelta _ lo hi => (lo =? d) && (hi =? d) | _ => false end
    | SAppend1 => match e with EAppend => true | _ => false end
    | SKeep => match e with EDelta _ lo hi => (lo =? 0) && (hi =? 0) | _ => false end
    | SWeaken | SInvalid => true
    end
  end.

(* the cases of one row that matter: (kind, nargs 0..4, variadic) *)
Record rcase := mkCase { rc_cont : str; rc_meth : str; rc_kind : ckind; rc_nargs : N; rc_var : bool }.
Definition nargs_dom : list N := [0;1;2;3;4]%N.

Definition row_cases (id : str) (c : cont) : list rcase :=
  flat_map (fun fn : str * (action * yield) =>
    flat_map (fun k => flat_map (fun na => [mkCase id (fst fn) k na false; mkCase id (fst fn) k na true]) nargs_dom)
             (kinds_of_start (c_start c))) (c_fns c).

Definition case_step (c : cont) (rc : rcase) : sstep :=
  analyzer_sym (get_action c (rc_meth rc)) (get_yield c (rc_meth rc)) (rc_nargs rc) (rc_var rc).
Definition case_eff (rc : rcase) : eff := std_effect (rc_kind rc) (rc_meth rc) (rc_nargs rc).
Definition case_okb (c : cont) (rc : rcase) : bool := sym_okb (case_step c rc) (case_eff rc).

Definition unsound_cases (tbl : list (str * cont)) : list rcase :=
  flat_map (fun ic : str * cont => filter (fun rc => negb (case_okb (snd ic) rc)) (row_cases (fst ic) (snd ic))) tbl.

(* cases that carry content: the member exists and the analyzer keeps or rewrites the value *)
Definition case_covered (c : cont) (rc : rcase) : bool :=
  match case_eff rc with
  | ENoSuch => false
  | _ => match case_step c rc with SWrite _ | SAppend1 | SKeep => true | _ => false end
  end.
Definition covered_cases (tbl : list (str * cont)) : list rcase :=
  flat_map (fun ic : str * cont => filter (case_covered (snd ic)) (row_cases (fst ic) (snd ic))) tbl.

(* ------------------------------------------------------------------ *)
(* 6. straight-line sequences of member calls on one container          *)
(* ------------------------------------------------------------------ *)
Record call := mkCall { cl_meth : str; cl_nargs : N; cl_var : bool; cl_len : Z }.

Definition call_step (c : cont) (cl : call) : step :=
  analyzer_step (get_action c (cl_meth cl)) (get_yield c (cl_meth cl)) (cl_nargs cl) (cl_var cl) (cl_len cl).

Fixpoint analyze (c : cont) (cs : list call) (v : option cval) : option cval :=
  match cs with
  | [] => v
  | cl :: r => analyze c r (match v with Some v => apply_step (call_step c cl) v | None => None end)
  end.
