(* C02 model, overload dimension: the overload sets of the size-changing members of
   basic_string / vector / deque / list as the standard defines them, with their numeric
   arguments (counts, positions, lengths, size of the source), and what each does to size().
   No proofs here. *)
From CV Require Import Base.Bytes Cont.Gen_StdCfg Cont.Defs.
Local Open Scope Z_scope.

(* leading position arguments *)
Inductive lead :=
| LNone
| LIdx (pos : Z)              (* string: index *)
| LIdxLen (pos len : Z)       (* string: index, length *)
| LIter                       (* one iterator *)
| LIterPair (dist : Z).       (* [first, last) of this container, distance dist *)

(* the source of the characters / elements *)
Inductive src :=
| SNone
| SCount (c : Z)              (* (count)                 resize(count) *)
| SCountCh (c : Z)            (* (count, ch) / (count, value) *)
| SElem                       (* (ch) / (value) *)
| SPtr (l : Z)                (* (const char* s), strlen s = l *)
| SPtrCount (c : Z)           (* (const char* s, count) *)
| SStr (m : Z)                (* (const basic_string& / string_view) of size m *)
| SStrPos (m pos : Z)         (* (str, pos)  - appends str.size() - pos characters *)
| SStrPosLen (m pos len : Z)  (* (str, pos, len) *)
| SRange (m : Z)              (* (first, last) of another sequence, distance m *)
| SInit (m : Z).              (* initializer list of m elements *)

Record ovl := mkOv { o_lead : lead; o_src : src }.

Inductive lshape := HNone | HIdx | HIdxLen | HIter | HIterPair.
Inductive sshape := ZNone | ZCount | ZCountCh | ZElem | ZPtr | ZPtrCount | ZStr | ZStrPos | ZStrPosLen | ZRange | ZInit.
Definition all_lshapes := [HNone; HIdx; HIdxLen; HIter; HIterPair].
Definition all_sshapes := [ZNone; ZCount; ZCountCh; ZElem; ZPtr; ZPtrCount; ZStr; ZStrPos; ZStrPosLen; ZRange; ZInit].

Definition lshape_of (l : lead) : lshape :=
  match l with LNone => HNone | LIdx _ => HIdx | LIdxLen _ _ => HIdxLen | LIter => HIter | LIterPair _ => HIterPair end.
Definition sshape_of (s : src) : sshape :=
  match s with
  | SNone => ZNone | SCount _ => ZCount | SCountCh _ => ZCountCh | SElem => ZElem | SPtr _ => ZPtr | SPtrCount _ => ZPtrCount
  | SStr _ => ZStr | SStrPos _ _ => ZStrPos | SStrPosLen _ _ _ => ZStrPosLen | SRange _ => ZRange | SInit _ => ZInit
  end.

Definition larity (l : lshape) : N := match l with HNone => 0 | HIdx | HIter => 1 | HIdxLen | HIterPair => 2 end%N.
Definition sarity (s : sshape) : N :=
  match s with ZNone => 0 | ZCount | ZElem | ZPtr | ZStr | ZInit => 1 | ZCountCh | ZPtrCount | ZStrPos | ZRange => 2 | ZStrPosLen => 3 end%N.
Definition arity_sh (l : lshape) (s : sshape) : N := (larity l + sarity s)%N.
Definition arity (o : ovl) : N := arity_sh (lshape_of (o_lead o)) (sshape_of (o_src o)).

(* number of characters / elements the source denotes; None = the call throws (pos > size) or is ill-formed *)
Definition src_len (s : src) : option Z :=
  match s with
  | SNone => Some 0
  | SCount c | SCountCh c | SPtrCount c => Some c
  | SElem => Some 1
  | SPtr l => Some l
  | SStr m | SRange m | SInit m => Some m
  | SStrPos m pos => if pos <=? m then Some (m - pos) else None
  | SStrPosLen m pos len => if pos <=? m then Some (Z.min len (m - pos)) else None
  end.

Definition src_wf (s : src) : bool :=
  match s with
  | SNone | SElem => true
  | SCount c | SCountCh c | SPtrCount c => 0 <=? c
  | SPtr l => 0 <=? l
  | SStr m | SRange m | SInit m => 0 <=? m
  | SStrPos m pos => (0 <=? m) && (0 <=? pos)
  | SStrPosLen m pos len => (0 <=? m) && (0 <=? pos) && (0 <=? len)
  end.
Definition lead_wf (l : lead) : bool :=
  match l with
  | LNone | LIter => true
  | LIdx p => 0 <=? p
  | LIdxLen p n => (0 <=? p) && (0 <=? n)
  | LIterPair d => 0 <=? d
  end.
Definition ov_wf (o : ovl) : bool := lead_wf (o_lead o) && src_wf (o_src o).

(* abstract effect of an overload shape *)
Inductive aeff :=
| ANoSuch                (* no such overload *)
| AAppend                (* size + length of the single argument (the analyzer's APPEND case) *)
| AGrowSrc               (* size + src_len, position (if any) must be inside *)
| ASetSrc                (* size := src_len *)
| ADelta (need d : Z)    (* constant delta *)
| ADropRange             (* size - dist, dist <= size *)
| AConst0                (* size := 0 *)
| AAnyE.                 (* depends on size and arguments together (string erase/replace by index) *)

Definition is_seq (k : ckind) : bool := match k with KVector | KDeque | KList => true | _ => false end.

(* which overloads exist (C++17 [string.modifiers], [vector.modifiers], [deque.modifiers], [list.modifiers]) *)
Definition ov_shape_eff (k : ckind) (m : meth) (l : lshape) (s : sshape) : aeff :=
  match k with
  | KString =>
    match m with
    | M_append =>
        match l, s with
        | HNone, (ZPtr | ZStr | ZInit) => AAppend
        | HNone, (ZCountCh | ZPtrCount | ZStrPos | ZStrPosLen | ZRange) => AGrowSrc
        | _, _ => ANoSuch
        end
    | M_assign =>
        match l, s with
        | HNone, (ZPtr | ZStr | ZInit | ZCountCh | ZPtrCount | ZStrPos | ZStrPosLen | ZRange) => ASetSrc
        | _, _ => ANoSuch
        end
    | M_insert =>
        match l, s with
        | HIdx, (ZPtr | ZStr | ZCountCh | ZPtrCount | ZStrPos | ZStrPosLen) => AGrowSrc
        | HIter, (ZElem | ZCountCh | ZRange | ZInit) => AGrowSrc
        | _, _ => ANoSuch
        end
    | M_erase =>
        match l, s with
        | HNone, ZNone => AConst0
        | (HIdx | HIdxLen), ZNone => AAnyE
        | HIter, ZNone => ADelta 1 (-1)
        | HIterPair, ZNone => ADropRange
        | _, _ => ANoSuch
        end
    | M_replace =>
        match l, s with
        | HIdxLen, (ZPtr | ZStr | ZCountCh | ZPtrCount | ZStrPos | ZStrPosLen) => AAnyE
        | HIterPair, (ZPtr | ZStr | ZCountCh | ZPtrCount | ZRange | ZInit) => AAnyE
        | _, _ => ANoSuch
        end
    | M_resize => match l, s with HNone, (ZCount | ZCountCh) => ASetSrc | _, _ => ANoSuch end
    | M_push_back => match l, s with HNone, ZElem => ADelta 0 1 | _, _ => ANoSuch end
    | M_pop_back => match l, s with HNone, ZNone => ADelta 1 (-1) | _, _ => ANoSuch end
    | M_clear => match l, s with HNone, ZNone => AConst0 | _, _ => ANoSuch end
    | _ => ANoSuch
    end
  | KVector | KDeque | KList =>
    match m with
    | M_assign => match l, s with HNone, (ZCountCh | ZRange | ZInit) => ASetSrc | _, _ => ANoSuch end
    | M_insert => match l, s with HIter, (ZElem | ZCountCh | ZRange | ZInit) => AGrowSrc | _, _ => ANoSuch end
    | M_erase =>
        match l, s with
        | HIter, ZNone => ADelta 1 (-1)
        | HIterPair, ZNone => ADropRange
        | _, _ => ANoSuch
        end
    | M_resize => match l, s with HNone, (ZCount | ZCountCh) => ASetSrc | _, _ => ANoSuch end
    | M_push_back => match l, s with HNone, ZElem => ADelta 0 1 | _, _ => ANoSuch end
    | M_pop_back => match l, s with HNone, ZNone => ADelta 1 (-1) | _, _ => ANoSuch end
    | M_push_front => match k, l, s with (KDeque | KList), HNone, ZElem => ADelta 0 1 | _, _, _ => ANoSuch end
    | M_pop_front => match k, l, s with (KDeque | KList), HNone, ZNone => ADelta 1 (-1) | _, _, _ => ANoSuch end
    | M_clear => match l, s with HNone, ZNone => AConst0 | _, _ => ANoSuch end
    | _ => ANoSuch
    end
  | _ => ANoSuch
  end.

Definition lead_need (l : lead) : Z :=
  match l with LIdx p | LIdxLen p _ => p | LIterPair d => d | _ => 0 end.

(* the effect of one concrete call *)
Definition conc (a : aeff) (o : ovl) : eff :=
  match a with
  | ANoSuch => ENoSuch
  | AAppend => EAppend
  | AGrowSrc => match src_len (o_src o) with Some s => EDelta (lead_need (o_lead o)) s s | None => ENoSuch end
  | ASetSrc => match src_len (o_src o) with Some s => EConst s | None => ENoSuch end
  | ADelta need d => EDelta need d d
  | ADropRange => match o_lead o with LIterPair d => EDelta d (- d) (- d) | _ => ENoSuch end
  | AConst0 => EConst 0
  | AAnyE => EAny
  end.

Definition std_eff_ov (k : ckind) (name : str) (o : ovl) : eff :=
  match meth_of_name name meth_names with
  | Some m => conc (ov_shape_eff k m (lshape_of (o_lead o)) (sshape_of (o_src o))) o
  | None => ENoSuch
  end.

(* decision at shape level: must hold for every numeric instance *)
Definition shape_okb (s : sstep) (a : aeff) : bool :=
  match a with
  | ANoSuch => true
  | AAppend => match s with SAppend1 | SWeaken | SInvalid => true | _ => false end
  | ADelta need d => sym_okb s (EDelta need d d)
  | AGrowSrc | ASetSrc | ADropRange | AConst0 | AAnyE => match s with SWeaken | SInvalid => true | _ => false end
  end.

Record ocase := mkOCase { oc_cont : str; oc_meth : str; oc_kind : ckind; oc_l : lshape; oc_s : sshape; oc_var : bool }.

Definition ocase_step (c : cont) (oc : ocase) : sstep :=
  analyzer_sym (get_action c (oc_meth oc)) (get_yield c (oc_meth oc)) (arity_sh (oc_l oc) (oc_s oc)) (oc_var oc).
Definition ocase_aeff (oc : ocase) : aeff :=
  match meth_of_name (oc_meth oc) meth_names with
  | Some m => ov_shape_eff (oc_kind oc) m (oc_l oc) (oc_s oc)
  | None => ANoSuch
  end.
Definition ocase_okb (c : cont) (oc : ocase) : bool := shape_okb (ocase_step c oc) (ocase_aeff oc).

Definition orow_cases (id : str) (c : cont) : list ocase :=
  flat_map (fun fn : str * (action * yield) =>
    flat_map (fun k => flat_map (fun l => flat_map (fun s =>
      [mkOCase id (fst fn) k l s false; mkOCase id (fst fn) k l s true]) all_sshapes) all_lshapes)
      (kinds_of_start (c_start c))) (c_fns c).

Definition unsound_ov_cases (tbl : list (str * cont)) : list ocase :=
  flat_map (fun ic : str * cont => filter (fun oc => negb (ocase_okb (snd ic) oc)) (orow_cases (fst ic) (snd ic))) tbl.

Definition existing_ov_cases (tbl : list (str * cont)) : list ocase :=
  flat_map (fun ic : str * cont =>
    filter (fun oc => match ocase_aeff oc with ANoSuch => false | _ => negb (oc_var oc) end) (orow_cases (fst ic) (snd ic))) tbl.
