(* C02 proofs: the analyzer's size step is sound for every table case the decision
   procedure accepts (all sizes, all values), refuted for every case it rejects;
   sequences of calls; the SIZE/EMPTY yield mapping. *)
From CV Require Import Base.Bytes Cont.Gen_StdCfg Cont.Defs.
Require Import Lia ZifyBool.
Local Open Scope Z_scope.

Definition b2z (b : bool) : Z := if b then 1 else 0.

(* one member call: the value written by the analyzer describes the size after the call
   whenever the value before described the size before, in every execution the reference allows *)
Definition sound_step (L : Z) (st : step) (e : eff) : Prop :=
  forall n n' v v', 0 <= n -> eff_allows L e n n' -> holds n v ->
                    apply_step st v = Some v' -> holds n' v'.

Lemma shift_holds x d k b i : holdsb (x + d) (mkV k b (i + d)) = holdsb x (mkV k b i).
Proof. unfold holdsb, in_bound; cbn [v_kind v_bound v_int]; destruct k, b; lia. Qed.

Lemma sym_okb_sound s e L : sym_okb s e = true -> sound_step L (concretize s L) e.
Proof.
  intros H n n' v v' Hn Ha Hv Hs. unfold holds in *.
  destruct e as [|need lo hi| |c|]; cbn [eff_allows] in Ha; try contradiction.
  - (* EDelta *)
    destruct s; cbn [sym_okb concretize] in *; try discriminate.
    + cbn in Hs. injection Hs as <-. assert (n' = n + d) by lia. subst n'.
      destruct v as [k b i]; cbn [v_kind v_bound v_int]. rewrite shift_holds. exact Hv.
    + cbn in Hs. injection Hs as <-. reflexivity.
    + cbn in Hs. injection Hs as <-. assert (n' = n) by lia. subst; exact Hv.
  - (* EAppend *)
    destruct s; cbn [sym_okb concretize] in *; try discriminate.
    + destruct (L =? 0) eqn:E; cbn in Hs; injection Hs as <-; [reflexivity|].
      subst n'. destruct v as [k b i]; cbn [v_kind v_bound v_int]. rewrite shift_holds. exact Hv.
    + cbn in Hs. injection Hs as <-. reflexivity.
  - destruct s; cbn [sym_okb concretize] in *; try discriminate.
    cbn in Hs. injection Hs as <-. reflexivity.
  - destruct s; cbn [sym_okb concretize] in *; try discriminate.
    cbn in Hs. injection Hs as <-. reflexivity.
Qed.

(* ---- the converse: a rejected case is a genuine counterexample of the model ---- *)
Definition eff_wfb (e : eff) : bool :=
  match e with EDelta _ lo hi => lo <=? hi | EConst c => 0 <=? c | _ => true end.

Definition refuted_step (s : sstep) (e : eff) : Prop :=
  exists L n n' v v', 0 <= L /\ 0 <= n /\ 0 <= n' /\ eff_allows L e n n' /\ wf_val v = true /\ holds n v /\
                      apply_step (concretize s L) v = Some v' /\ ~ holds n' v'.

Lemma refute_by_delta s e L n n' d :
  0 <= L -> 0 <= n -> 0 <= n' -> eff_allows L e n n' ->
  apply_step (concretize s L) (mkV Known Point n) = Some (mkV Known Point (n + d)) -> n' <> n + d ->
  refuted_step s e.
Proof.
  intros HL Hn Hn' Ha Hs Hne. exists L, n, n', (mkV Known Point n), (mkV Known Point (n + d)).
  repeat split; auto.
  - unfold holds, holdsb, in_bound; cbn; lia.
  - unfold holds, holdsb, in_bound; cbn; lia.
Qed.

Lemma sym_okb_complete s e : eff_wfb e = true -> sym_okb s e = false -> refuted_step s e.
Proof.
  intros W H. destruct e as [|need lo hi| |c|]; cbn [eff_wfb] in W; cbn [sym_okb] in H; try discriminate.
  - (* EDelta *)
    set (n := Z.max need 0).
    destruct s; try discriminate.
    + destruct (lo =? d) eqn:E1.
      * apply (refute_by_delta (SWrite d) _ 0 (n + Z.max 0 (-hi)) (n + Z.max 0 (-hi) + hi) d); cbn; try lia; reflexivity.
      * apply (refute_by_delta (SWrite d) _ 0 (n + Z.max 0 (-lo)) (n + Z.max 0 (-lo) + lo) d); cbn; try lia; reflexivity.
    + (* SAppend1 against a delta: choose a length different from lo *)
      apply (refute_by_delta SAppend1 _ (Z.abs lo + 1) (n + Z.max 0 (-lo)) (n + Z.max 0 (-lo) + lo) (Z.abs lo + 1)); try lia.
      * cbn; lia.
      * cbn [concretize]. replace (Z.abs lo + 1 =? 0) with false by lia. reflexivity.
    + destruct (lo =? 0) eqn:E1.
      * apply (refute_by_delta SKeep _ 0 (n + Z.max 0 (-hi)) (n + Z.max 0 (-hi) + hi) 0); cbn; try lia.
        f_equal. f_equal. lia.
      * apply (refute_by_delta SKeep _ 0 (n + Z.max 0 (-lo)) (n + Z.max 0 (-lo) + lo) 0); cbn; try lia.
        f_equal. f_equal. lia.
  - (* EAppend *)
    destruct s; try discriminate.
    + apply (refute_by_delta (SWrite d) _ (Z.abs d + 1) (Z.abs d) (Z.abs d + (Z.abs d + 1)) d); cbn; try lia; reflexivity.
    + apply (refute_by_delta SKeep _ 1 0 1 0); cbn; try lia; reflexivity.
  - (* EConst *)
    destruct s; try discriminate.
    + apply (refute_by_delta (SWrite d) _ 0 (c + Z.abs d + 1) c d); cbn; try lia; reflexivity.
    + apply (refute_by_delta SAppend1 _ 1 c c 1); cbn; try lia; reflexivity.
    + apply (refute_by_delta SKeep _ 0 (c + 1) c 0); cbn; try lia. f_equal. f_equal. lia.
  - (* EAny *)
    destruct s; try discriminate.
    + apply (refute_by_delta (SWrite d) _ 0 (Z.abs d) (Z.abs d + d + 1) d); cbn; try lia; reflexivity.
    + apply (refute_by_delta SAppend1 _ 1 0 0 1); cbn; try lia; reflexivity.
    + apply (refute_by_delta SKeep _ 0 0 1 0); cbn; try lia; reflexivity.
Qed.

(* ---- number of arguments: only "0, 1, 2, 3, >=4" matters ---- *)
Lemma analyzer_sym_clamp a y nargs var : analyzer_sym a y nargs var = analyzer_sym a y (clamp4 nargs) var.
Proof.
  unfold analyzer_sym, clamp4.
  assert ((nargs <? 2)%N = (N.min nargs 4 <? 2)%N) by lia.
  assert ((nargs =? 1)%N = (N.min nargs 4 =? 1)%N) by lia.
  destruct a; cbn; rewrite <- ?H, <- ?H0; reflexivity.
Qed.

Lemma std_effect_clamp k m nargs : std_effect k m nargs = std_effect k m (clamp4 nargs).
Proof.
  unfold std_effect. destruct (meth_of_name m meth_names); auto.
  f_equal. unfold clamp4. lia.
Qed.

Lemma clamp4_dom nargs : In (clamp4 nargs) nargs_dom.
Proof.
  unfold clamp4, nargs_dom.
  destruct (N.eq_dec nargs 0) as [->|]; [cbn; auto|].
  destruct (N.eq_dec nargs 1) as [->|]; [cbn; auto|].
  destruct (N.eq_dec nargs 2) as [->|]; [cbn; auto|].
  destruct (N.eq_dec nargs 3) as [->|]; [cbn; tauto|].
  replace (N.min nargs 4) with 4%N by lia. cbn; tauto.
Qed.

Lemma lookup_fn_In name fs x : lookup_fn name fs = Some x -> exists n, str_eqb n name = true /\ In (n, x) fs.
Proof.
  induction fs as [|[n y] r IH]; cbn; [discriminate|].
  destruct (str_eqb n name) eqn:E.
  - intros [= ->]. exists n; auto.
  - intros H. destruct (IH H) as (n' & ? & ?). exists n'; auto.
Qed.

Lemma case_in_row_cases id c m ay k na var :
  In (m, ay) (c_fns c) -> In k (kinds_of_start (c_start c)) -> In na nargs_dom ->
  In (mkCase id m k na var) (row_cases id c).
Proof.
  intros Hm Hk Hna. unfold row_cases.
  apply in_flat_map. exists (m, ay). split; auto.
  apply in_flat_map. exists k. split; auto.
  apply in_flat_map. exists na. split; auto.
  cbn [fst]. destruct var; cbn; auto.
Qed.

Lemma not_unsound_ok tbl id c rc :
  In (id, c) tbl -> In rc (row_cases id c) -> ~ In rc (unsound_cases tbl) -> case_okb c rc = true.
Proof.
  intros Hc Hr Hn. destruct (case_okb c rc) eqn:E; auto. exfalso. apply Hn.
  unfold unsound_cases. apply in_flat_map. exists (id, c). split; auto.
  cbn [fst snd]. apply filter_In. split; auto. rewrite E; reflexivity.
Qed.

Theorem size_effect_sound :
  forall tbl id c m k nargs var L,
    In (id, c) tbl -> In k (kinds_of_start (c_start c)) ->
    ~ In (mkCase id m k (clamp4 nargs) var) (unsound_cases tbl) ->
    sound_step L (analyzer_step (get_action c m) (get_yield c m) nargs var L) (std_effect k m nargs).
Proof.
  intros tbl id c m k nargs var L Hc Hk Hn.
  unfold analyzer_step. rewrite analyzer_sym_clamp, std_effect_clamp.
  apply sym_okb_sound.
  unfold get_action, get_yield.
  destruct (lookup_fn m (c_fns c)) as [[a y]|] eqn:El.
  - destruct (lookup_fn_In _ _ _ El) as (n & En & Hin).
    apply str_eqb_eq in En. subst n.
    pose proof (not_unsound_ok tbl id c _ Hc
                  (case_in_row_cases id c m (a, y) k (clamp4 nargs) var Hin Hk (clamp4_dom nargs)) Hn) as H.
    unfold case_okb, case_step, case_eff, get_action, get_yield in H. cbn [rc_meth rc_nargs rc_var rc_kind] in H.
    rewrite El in H. exact H.
  - (* a member the library does not know: NO_ACTION / NO_YIELD, the value is dropped *)
    cbn. destruct (std_effect k m _); reflexivity.
Qed.

Theorem unsound_case_refuted :
  forall tbl rc, In rc (unsound_cases tbl) -> eff_wfb (case_eff rc) = true ->
    exists c, In (rc_cont rc, c) tbl /\ refuted_step (case_step c rc) (case_eff rc).
Proof.
  intros tbl rc H W. unfold unsound_cases in H. apply in_flat_map in H. destruct H as ([id c] & Hc & Hf).
  cbn [fst snd] in Hf. apply filter_In in Hf. destruct Hf as [Hr Hk].
  assert (rc_cont rc = id).
  { unfold row_cases in Hr. apply in_flat_map in Hr. destruct Hr as (fn & _ & Hr).
    apply in_flat_map in Hr. destruct Hr as (k & _ & Hr). apply in_flat_map in Hr. destruct Hr as (na & _ & Hr).
    cbn in Hr. destruct Hr as [<-|[<-|[]]]; reflexivity. }
  subst id. exists c. split; auto. apply sym_okb_complete; auto.
  unfold case_okb in Hk. destruct (sym_okb _ _); [discriminate|reflexivity].
Qed.

(* every effect the reference semantics can return is well-formed (finite domain: 12 kinds x
   the listed members x clamped arities) *)
Definition all_meths : list meth := map snd meth_names.
Definition std_eff_wf_all : bool :=
  forallb (fun k => forallb (fun m => forallb (fun na => eff_wfb (std_eff k m na)) nargs_dom) all_meths) all_kinds.
Lemma std_eff_wf_all_true : std_eff_wf_all = true.
Proof. vm_compute. reflexivity. Qed.

Lemma meth_of_name_In s l m : meth_of_name s l = Some m -> In m (map snd l).
Proof.
  induction l as [|[n x] r IH]; cbn; [discriminate|].
  destruct (str_eqb n s); [intros [= ->]; auto|auto].
Qed.

Lemma all_kinds_complete k : In k all_kinds.
Proof. destruct k; cbn; tauto. Qed.

Lemma std_effect_wf k m nargs : eff_wfb (std_effect k m nargs) = true.
Proof.
  unfold std_effect. destruct (meth_of_name m meth_names) as [mm|] eqn:E; [|reflexivity].
  pose proof std_eff_wf_all_true as H. unfold std_eff_wf_all in H.
  rewrite forallb_forall in H. specialize (H k (all_kinds_complete k)).
  rewrite forallb_forall in H. specialize (H mm (meth_of_name_In _ _ _ E)).
  rewrite forallb_forall in H. exact (H _ (clamp4_dom nargs)).
Qed.

(* ---- sequences of member calls on one container ---- *)
Inductive exec (k : ckind) : list call -> Z -> Z -> Prop :=
| ex_nil n : exec k [] n n
| ex_cons cl r n n1 n2 :
    eff_allows (cl_len cl) (std_effect k (cl_meth cl) (cl_nargs cl)) n n1 -> 0 <= n1 ->
    exec k r n1 n2 -> exec k (cl :: r) n n2.

Definition call_okb (c : cont) (k : ckind) (cl : call) : bool :=
  sym_okb (analyzer_sym (get_action c (cl_meth cl)) (get_yield c (cl_meth cl)) (cl_nargs cl) (cl_var cl))
          (std_effect k (cl_meth cl) (cl_nargs cl)).

Theorem call_sequence_sound :
  forall c k cs, forallb (call_okb c k) cs = true ->
  forall n n' v v', 0 <= n -> exec k cs n n' -> holds n v -> analyze c cs (Some v) = Some v' -> holds n' v'.
Proof.
  intros c k cs. induction cs as [|cl r IH]; intros Hok n n' v v' Hn He Hv Ha.
  - inversion He; subst. cbn in Ha. injection Ha as <-. exact Hv.
  - cbn [forallb] in Hok. apply andb_prop in Hok. destruct Hok as [H1 H2].
    inversion He as [|? ? ? n1 ? Hal Hn1 Hr]; subst.
    cbn [analyze] in Ha.
    destruct (apply_step (call_step c cl) v) as [v1|] eqn:Es.
    + apply (IH H2 n1 n' v1 v' Hn1 Hr); auto.
      pose proof (sym_okb_sound _ _ (cl_len cl) H1) as S.
      apply (S n n1 v v1 Hn Hal Hv). exact Es.
    + clear -Ha. exfalso. induction r; cbn in Ha; [discriminate|auto].
Qed.

(* ---- yields ---- *)
Theorem size_of_size_sound : forall n v, holds n v -> holds n (size_of_size v).
Proof. auto. Qed.

Theorem empty_of_size_sound :
  forall n v, 0 <= n -> wf_val v = true -> holds n v -> holds (b2z (n =? 0)) (empty_of_size v).
Proof.
  intros n [k b i] Hn W H. unfold holds, holdsb, empty_of_size, wf_val, in_bound, b2z in *.
  cbn [v_kind v_bound v_int] in *.
  destruct k.
  - destruct b; try discriminate. cbn. destruct (i =? 0) eqn:E, (n =? 0) eqn:E2; lia.
  - reflexivity.
  - destruct (i =? 0) eqn:E.
    + cbn. destruct b, (n =? 0) eqn:E2; lia.
    + destruct b; cbn.
      * reflexivity.
      * destruct (0 <? i) eqn:E3; cbn; [destruct (n =? 0) eqn:E2; lia|reflexivity].
      * destruct (i <? 0) eqn:E3; cbn; [destruct (n =? 0) eqn:E2; lia|reflexivity].
Qed.

(* without the Point-bound premise the mapping is wrong: Known "size >= 0" would give Known "empty" *)
Lemma empty_of_size_needs_wf : exists n v, 0 <= n /\ holds n v /\ ~ holds (b2z (n =? 0)) (empty_of_size v).
Proof. exists 3, (mkV Known Lower 0). unfold holds; cbn. repeat split; try lia; discriminate. Qed.
