(* C32 model of lib/importproject.cpp (compile_commands.json import):
     ImportProject::collectArgs        -> collect_args
     ImportProject::parseArgs          -> parse_args   (getOptArg chain -> chain)
     ImportProject::fsSetDefines       -> fs_set_defines
     ImportProject::fsSetIncludePaths  -> fs_set_includes (+ simplecpp::simplifyPath -> simplify_path)
     ImportProject::importCompileCommands (one entry) -> import_entry
   and of the consumer's reading of (defines, undefs) (simplecpp.cpp preprocess():
   first -D of a name wins, a name in `undefined` is never defined) -> cfg_macros.
   Strings are lists of bytes (N). No proofs here. *)
From CV Require Import Base.Bytes.
Require Coq.Strings.String Coq.Strings.Ascii.
Delimit Scope string_scope with string.
String Notation String.string String.string_of_list_byte String.list_byte_of_string : string_scope.
Local Open Scope N_scope.

Definition lit (x : String.string) : str :=
  List.map Ascii.N_of_ascii (String.list_ascii_of_string x).

(* ------------------------------------------------------------------ *)
(* collectArgs                                                         *)

Inductive qmode := QNone | QDouble | QSingle.

(* std::strchr of the 4-character set backslash, double quote, single quote, space:
   note that c = NUL finds the terminator *)
Definition bs_drop (c : N) : bool :=
  (c =? 92) || (c =? 34) || (c =? 39) || (c =? 32) || (c =? 0).

Definition push_word (w : str) (ws : list str) : list str :=
  match w with [] => ws | _ => w :: ws end.

Definition cons_char (c : N) (r : option (str * list str)) : option (str * list str) :=
  match r with Some (w, ws) => Some (c :: w, ws) | None => None end.

Definition app_chars (p : str) (r : option (str * list str)) : option (str * list str) :=
  match r with Some (w, ws) => Some (p ++ w, ws) | None => None end.

(* result: remainder of the word in progress, and the later words.
   None = the error string Missing closing quote in command string. *)
Fixpoint collect (cmd : str) (q : qmode) : option (str * list str) :=
  match cmd with
  | [] => match q with QNone => Some ([], []) | _ => None end
  | c :: r =>
      match q with
      | QSingle =>
          if c =? 39 then collect r QNone else cons_char c (collect r QSingle)
      | QDouble =>
          if c =? 32 then cons_char c (collect r QDouble)
          else if c =? 34 then collect r QNone
          else if c =? 92 then
            match r with
            | [] => None                      (* push backslash; break; then: missing quote *)
            | c2 :: r2 => app_chars (if bs_drop c2 then [c2] else [92; c2]) (collect r2 QDouble)
            end
          else cons_char c (collect r QDouble)
      | QNone =>
          if c =? 32 then
            match collect r QNone with
            | Some (w, ws) => Some ([], push_word w ws)
            | None => None
            end
          else if c =? 34 then collect r QDouble
          else if c =? 39 then collect r QSingle
          else if c =? 92 then
            match r with
            | [] => Some ([92], [])
            | c2 :: r2 => app_chars (if bs_drop c2 then [c2] else [92; c2]) (collect r2 QNone)
            end
          else cons_char c (collect r QNone)
      end
  end.

Definition collect_args (cmd : str) : option (list str) :=
  match collect cmd QNone with
  | Some (w, ws) => Some (push_word w ws)
  | None => None
  end.

(* ------------------------------------------------------------------ *)
(* parseArgs                                                           *)

Definition o_I := Eval compute in lit "-I"%string.
Definition o_sI := Eval compute in lit "/I"%string.
Definition o_isystem := Eval compute in lit "-isystem"%string.
Definition o_D := Eval compute in lit "-D"%string.
Definition o_sD := Eval compute in lit "/D"%string.
Definition o_U := Eval compute in lit "-U"%string.
Definition o_sU := Eval compute in lit "/U"%string.
Definition o_std := Eval compute in lit "-std="%string.
Definition o_sstd := Eval compute in lit "/std:"%string.
Definition o_f := Eval compute in lit "-f"%string.
Definition o_m := Eval compute in lit "-m"%string.

Inductive act :=
| ANone | AInc (v : str) | ASys (v : str) | ADef (v : str) | AUndef (v : str)
| AStd (v : str) | AFlagF (v : str) | AFlagM (v : str).

Definition steps : list (list str * (str -> act)) :=
  [ ([o_I; o_sI], AInc); ([o_isystem], ASys); ([o_D; o_sD], ADef); ([o_U; o_sU], AUndef);
    ([o_std; o_sstd], AStd); ([o_f], AFlagF); ([o_m], AFlagM) ].

(* one loop iteration of parseArgs: the chain of getOptArg calls on args[i].
   CDone a consumed: action and whether args[i+1] was consumed.
   CUB: a bare option was the last argument and a later getOptArg reads args[size] (out of bounds). *)
Inductive cres := CDone (a : act) (consumed : bool) | CUB.

Fixpoint chain (st : list (list str * (str -> act))) (cur : str) (nxt : option str) : cres :=
  match st with
  | [] => CDone ANone false
  | (names, k) :: more =>
      match find (fun n => starts_with n cur) names with
      | None => chain more cur nxt
      | Some n =>
          if Nat.eqb (length cur) (length n) then
            match nxt with
            | None => match more with [] => CDone ANone false | _ => CUB end
            | Some [] => CDone ANone true       (* returns empty, i now at the empty argument *)
            | Some v => CDone (k v) true
            end
          else CDone (k (skipn (length n) cur)) false
      end
  end.

Fixpoint str_ltb (a b : str) : bool :=
  match a, b with
  | [], [] => false
  | [], _ => true
  | _, [] => false
  | x :: a', y :: b' => if x <? y then true else if y <? x then false else str_ltb a' b'
  end.

(* std::set<std::string>::insert *)
Fixpoint set_insert (x : str) (l : list str) : list str :=
  match l with
  | [] => [x]
  | y :: l' => if str_ltb x y then x :: l else if str_eqb x y then l else y :: set_insert x l'
  end.

Definition mem (x : str) (l : list str) : bool := existsb (str_eqb x) l.

Record pstate := mkP {
  p_incs : list str;      (* fs.includePaths, in order *)
  p_sys : list str;       (* fs.systemIncludePaths *)
  p_defs : str;           (* local `defs` *)
  p_undefs : list str;    (* fs.undefs (sorted, unique) *)
  p_std : str             (* fs.standard *)
}.

Definition p0 : pstate := mkP [] [] [] [] [].

Definition d_pic := Eval compute in lit "__pic__;"%string.
Definition d_PIC := Eval compute in lit "__PIC__;"%string.
Definition d_pie := Eval compute in lit "__pie__;"%string.
Definition d_PIE := Eval compute in lit "__PIE__;"%string.
Definition d_UNICODE := Eval compute in lit "UNICODE;"%string.
Definition v_pic := Eval compute in lit "pic"%string.
Definition v_PIC := Eval compute in lit "PIC"%string.
Definition v_pie := Eval compute in lit "pie"%string.
Definition v_PIE := Eval compute in lit "PIE"%string.
Definition v_unicode := Eval compute in lit "unicode"%string.

Definition apply_act (a : act) (s : pstate) : pstate :=
  match a with
  | ANone => s
  | AInc v => if mem v (p_incs s) then s
              else mkP (p_incs s ++ [v]) (p_sys s) (p_defs s) (p_undefs s) (p_std s)
  | ASys v => mkP (p_incs s) (p_sys s ++ [v]) (p_defs s) (p_undefs s) (p_std s)
  | ADef v => mkP (p_incs s) (p_sys s) (p_defs s ++ v ++ [59]) (p_undefs s) (p_std s)
  | AUndef v => mkP (p_incs s) (p_sys s) (p_defs s) (set_insert v (p_undefs s)) (p_std s)
  | AStd v => mkP (p_incs s) (p_sys s) (p_defs s) (p_undefs s) v
  | AFlagF v =>
      let add := if str_eqb v v_pic then d_pic else if str_eqb v v_PIC then d_PIC
                 else if str_eqb v v_pie then d_pie else if str_eqb v v_PIE then d_PIE else [] in
      mkP (p_incs s) (p_sys s) (p_defs s ++ add) (p_undefs s) (p_std s)
  | AFlagM v =>
      let add := if str_eqb v v_unicode then d_UNICODE else [] in
      mkP (p_incs s) (p_sys s) (p_defs s ++ add) (p_undefs s) (p_std s)
  end.

(* the for loop; None = out-of-bounds read (undefined behaviour) *)
Fixpoint parse_loop (args : list str) (s : pstate) : option pstate :=
  match args with
  | [] => Some s
  | cur :: rest =>
      match rest with
      | [] =>
          match chain steps cur None with
          | CDone a _ => Some (apply_act a s)
          | CUB => None
          end
      | nx :: rest' =>
          match chain steps cur (Some nx) with
          | CDone a true => parse_loop rest' (apply_act a s)
          | CDone a false => parse_loop rest (apply_act a s)
          | CUB => None
          end
      end
  end.

(* ------------------------------------------------------------------ *)
(* fsSetDefines                                                        *)

(* while (find SEMI PERCENT LPAREN) erase from that SEMI up to the next SEMI *)
Fixpoint strip_pct (s : str) (skipping : bool) : str :=
  match s with
  | [] => []
  | c :: r =>
      if c =? 59 then
        if starts_with [37; 40] r then strip_pct r true else c :: strip_pct r false
      else if skipping then strip_pct r true else c :: strip_pct r false
  end.

(* while (find SEMI SEMI) erase one *)
Fixpoint collapse_semi (s : str) (prev_semi : bool) : str :=
  match s with
  | [] => []
  | c :: r =>
      if c =? 59 then (if prev_semi then collapse_semi r true else c :: collapse_semi r true)
      else c :: collapse_semi r false
  end.

Fixpoint drop_lead_semi (s : str) : str :=
  match s with
  | c :: r => if c =? 59 then drop_lead_semi r else s
  | [] => []
  end.

Definition drop_trail_semi (s : str) : str := rev (drop_lead_semi (rev s)).

Definition eq1 : str := [61; 49].

(* the scan that inserts =1; after an insertion the character following the SEMI is stepped over *)
Fixpoint eq_loop (s : str) (eq : bool) : str :=
  match s with
  | [] => if eq then [] else eq1
  | c :: r =>
      if (c =? 40) || (c =? 61) then c :: eq_loop r true
      else if c =? 59 then
        if eq then c :: eq_loop r false
        else eq1 ++ c :: match r with
                         | [] => eq1
                         | c2 :: r2 => c2 :: eq_loop r2 false
                         end
      else c :: eq_loop r eq
  end.

Definition fs_set_defines (defs : str) : str :=
  let d := drop_trail_semi (drop_lead_semi (collapse_semi (strip_pct defs false) false)) in
  match d with [] => [] | _ => eq_loop d false end.

Definition parse_result := (list str * list str * str * list str * str)%type.

Definition parse_args (args : list str) : option pstate :=
  match parse_loop args p0 with
  | Some s => Some (mkP (p_incs s) (p_sys s) (fs_set_defines (p_defs s)) (p_undefs s) (p_std s))
  | None => None
  end.

(* ------------------------------------------------------------------ *)
(* simplecpp::simplifyPath (index based, as the code)                  *)

Definition nth_c (s : str) (i : nat) : N := nth i s 256.   (* 256 = past the end *)

Fixpoint find_from (pat s : str) (skip : nat) (idx : nat) : option nat :=
  match skip with
  | S k => match s with [] => None | _ :: r => find_from pat r k (S idx) end
  | O => if starts_with pat s then Some idx
         else match s with [] => None | _ :: r => find_from pat r O (S idx) end
  end.
Definition find_sub (pat s : str) (pos : nat) : option nat :=
  if Nat.ltb (length s) pos then None else find_from pat s pos O.

(* last index <= pos holding c *)
Fixpoint rfind_acc (c : N) (s : str) (pos idx : nat) (best : option nat) : option nat :=
  match s with
  | [] => best
  | x :: r => if Nat.ltb pos idx then best
              else rfind_acc c r pos (S idx) (if x =? c then Some idx else best)
  end.
Definition rfind_char (c : N) (s : str) (pos : nat) : option nat := rfind_acc c s pos O None.

Definition substr (s : str) (pos len : nat) : str := firstn len (skipn pos s).
Definition erase (s : str) (pos len : nat) : str := firstn pos s ++ skipn (pos + len) s.

Fixpoint collapse_slash (s : str) (prev_slash : bool) : str :=
  match s with
  | [] => []
  | c :: r =>
      if c =? 47 then (if prev_slash then collapse_slash r true else c :: collapse_slash r true)
      else c :: collapse_slash r false
  end.

(* remove DOT SLASH where it starts a component; prev_ok: scan position is 0 or follows a slash *)
Fixpoint remove_dot_slash (s : str) (prev_ok : bool) : str :=
  match s with
  | [] => []
  | c :: r =>
      match r with
      | c2 :: r2 =>
          if (c =? 46) && (c2 =? 47) then
            if prev_ok then remove_dot_slash r2 prev_ok
            else c :: c2 :: remove_dot_slash r2 true
          else c :: remove_dot_slash r (c =? 47)
      | [] => [c]
      end
  end.

Definition dotdot : str := [46; 46].
Definition slash_dotdot : str := [47; 46; 46].

Fixpoint dotdot_loop (fuel : nat) (path : str) (pos : nat) : option str :=
  match fuel with
  | O => None
  | S f =>
      match find_sub slash_dotdot path pos with
      | None => Some path
      | Some p =>
          if Nat.ltb (p + 3) (length path) && negb (nth_c path (p + 3) =? 47) then dotdot_loop f path (S p)
          else
            (* size_t arithmetic: p = 0 makes p - 1 = npos; p < pos1 makes the lengths wrap *)
            let rpos := match p with O => length path | S p' => p' end in
            let pos1 := match rfind_char 47 path rpos with None => O | Some q => S q end in
            let prev := substr path pos1 (if Nat.leb pos1 p then p - pos1 else length path) in
            if str_eqb prev dotdot then dotdot_loop f path (S p)
            else
              let path' := erase path pos1 (if Nat.leb pos1 (p + 4) then p + 4 - pos1 else length path) in
              let path'' := match path' with [] => [46] | _ => path' end in
              dotdot_loop f path'' (match pos1 with O => 1%nat | S q => q end)
      end
  end.

Definition from_native (s : str) : str := map (fun c => if c =? 92 then 47 else c) s.

Definition simplify_path (path0 : str) : option str :=
  match path0 with
  | [] => Some []
  | _ =>
      let p1 := from_native path0 in
      let unc := starts_with [47; 47] p1 in
      let p2 := collapse_slash p1 false in
      let p3 := remove_dot_slash p2 true in
      let p4 := if ends_with [47; 46] p3 then removelast p3 else p3 in
      match dotdot_loop (S (length p4) * S (length p4)) p4 1%nat with
      | None => None
      | Some p5 => Some (if unc then 47 :: p5 else p5)
      end
  end.

(* ------------------------------------------------------------------ *)
(* fsSetIncludePaths                                                   *)

Definition last_is (c : N) (s : str) : bool :=
  match rev s with x :: _ => x =? c | [] => false end.

Definition has_sub (pat s : str) : bool :=
  match find_sub pat s O with Some _ => true | None => false end.

Inductive ires := IOk (l : list str) | IEnv | IFuel.

Fixpoint incs_loop (base : str) (inp : list str) (found : list str) (acc : list str) : ires :=
  match inp with
  | [] => IOk (rev acc)
  | ip :: more =>
      if match ip with [] => true | _ => false end then incs_loop base more found acc
      else if starts_with [37; 40] ip then incs_loop base more found acc
      else
        let s := from_native ip in
        if mem s found then incs_loop base more found acc
        else
          let found' := s :: found in
          if (nth_c s 0 =? 47) || ((nth_c s 1 =? 58) && (nth_c s 2 =? 47)) then
            incs_loop base more found' ((if last_is 47 s then s else s ++ [47]) :: acc)
          else
            let s1 := if last_is 47 s then removelast s else s in
            if has_sub [36; 40] s1 then IEnv
            else match simplify_path (base ++ s1) with
                 | None => IFuel
                 | Some s2 =>
                     match s2 with
                     | [] => incs_loop base more found' acc
                     | _ => incs_loop base more found' ((if last_is 47 s2 then s2 else s2 ++ [47]) :: acc)
                     end
                 end
  end.

Definition fs_set_includes (base : str) (inp : list str) : ires := incs_loop base inp [] [].

(* ------------------------------------------------------------------ *)
(* importCompileCommands: one entry (non-Windows build)                *)

Inductive cmdsrc := Command (c : str) | Arguments (a : list str).

Record entry_out := mkE {
  e_path : str; e_incs : list str; e_sys : list str; e_defs : str; e_undefs : list str; e_std : str }.

Inductive eres := EOk (e : entry_out) | EQuote | EUB | EEnv | EFuel.

Definition import_entry (dir file : str) (src : cmdsrc) : eres :=
  let d0 := from_native dir in
  let directory := if last_is 47 d0 then d0 else d0 ++ [47] in
  match (match src with Arguments a => Some a | Command c => collect_args c end) with
  | None => EQuote
  | Some args =>
      let f := from_native file in
      match simplify_path (if nth_c f 0 =? 47 then f else directory ++ f) with
      | None => EFuel
      | Some path =>
          match parse_args args with
          | None => EUB
          | Some s =>
              match fs_set_includes directory (p_incs s) with
              | IEnv => EEnv
              | IFuel => EFuel
              | IOk incs => EOk (mkE path incs (p_sys s) (p_defs s) (p_undefs s) (p_std s))
              end
          end
      end
  end.

(* ------------------------------------------------------------------ *)
(* How the analysis reads (defines, undefs): simplecpp.cpp preprocess()
   for each N=V / N / N(a)=V of the SEMI list in order: name = up to EQ or LPAREN;
   skipped when name is in undefs; macros.insert does not overwrite (first wins);
   value 1 when there is no EQ. *)

Fixpoint take_until (p : N -> bool) (s : str) : str :=
  match s with [] => [] | c :: r => if p c then [] else c :: take_until p r end.
Fixpoint drop_until (p : N -> bool) (s : str) : option str :=
  match s with [] => None | c :: r => if p c then Some r else drop_until p r end.

Definition macro_name (m : str) : str := take_until (fun c => (c =? 61) || (c =? 40)) m.
Definition macro_lhs (m : str) : str := take_until (fun c => c =? 61) m.
Definition macro_rhs (m : str) : str :=
  match drop_until (fun c => c =? 61) m with Some v => v | None => [49] end.

Definition macro_table := list (str * (str * str)).   (* name -> (lhs, rhs), first binding is the live one *)

Fixpoint tbl_has (n : str) (t : macro_table) : bool :=
  match t with [] => false | (k, _) :: t' => str_eqb n k || tbl_has n t' end.

Fixpoint cfg_fold (ms : list str) (undefs : list str) (t : macro_table) : macro_table :=
  match ms with
  | [] => t
  | m :: ms' =>
      let n := macro_name m in
      if mem n undefs then cfg_fold ms' undefs t
      else if tbl_has n t then cfg_fold ms' undefs t
      else cfg_fold ms' undefs (t ++ [(n, (macro_lhs m, macro_rhs m))])
  end.

Definition split_defs (d : str) : list str :=
  match d with [] => [] | _ => split 59 d end.

Definition cfg_macros (defines : str) (undefs : list str) : macro_table :=
  cfg_fold (split_defs defines) undefs [].
