(* C32 proofs about parseArgs: on an argument vector that the GCC driver accepts and in which
   no word other than the -I/-D/-U/-isystem/-std= options looks like one of cppcheck's recognised
   prefixes, parseArgs collects exactly the options GCC reads. *)
From CV Require Import Base.Bytes Import.Defs Import.Spec.
Require Import Lia.
Local Open Scope N_scope.

Definition apply_tok (t : tok) (s : pstate) : pstate :=
  match t with
  | TInc v => apply_act (AInc v) s
  | TSys v => apply_act (ASys v) s
  | TDef v => apply_act (ADef v) s
  | TUndef v => apply_act (AUndef v) s
  | TStd v => apply_act (AStd v) s
  | TFlag _ | TOperand _ => s
  end.

Definition fold_toks (toks : list tok) (s : pstate) : pstate :=
  fold_left (fun s t => apply_tok t s) toks s.

(* ---------------------------------------------------------------- strings *)

Lemma starts_with_app p a : starts_with p a = true -> a = p ++ skipn (length p) a.
Proof.
  revert a. induction p as [|x p IH]; intros a H; [reflexivity|].
  destruct a as [|y a]; [discriminate|]. simpl in H. apply andb_true_iff in H as [H1 H2].
  apply N.eqb_eq in H1. subst y. simpl. f_equal. now apply IH.
Qed.

Lemma starts_with_len_eq p a : starts_with p a = true -> length a = length p -> a = p.
Proof.
  intros H L. rewrite (starts_with_app p a H). rewrite (starts_with_app p a H) in L.
  rewrite app_length in L. destruct (skipn (length p) a); [now rewrite app_nil_r|simpl in L; lia].
Qed.

(* ---------------------------------------------------------------- the loop, one step *)

Lemma parse_loop_step cur rest s :
  parse_loop (cur :: rest) s =
  match chain steps cur (hd_error rest) with
  | CDone a true => parse_loop (tl rest) (apply_act a s)
  | CDone a false => parse_loop rest (apply_act a s)
  | CUB => None
  end.
Proof.
  destruct rest as [|nx rest']; cbn [parse_loop hd_error tl].
  - destruct (chain steps cur None) as [a [|]|]; reflexivity.
  - destruct (chain steps cur (Some nx)) as [a [|]|]; reflexivity.
Qed.

(* ---------------------------------------------------------------- recognised options *)

Lemma chain_sep_I v : v <> [] -> chain steps o_I (Some v) = CDone (AInc v) true.
Proof. destruct v; [congruence|reflexivity]. Qed.
Lemma chain_sep_D v : v <> [] -> chain steps o_D (Some v) = CDone (ADef v) true.
Proof. destruct v; [congruence|reflexivity]. Qed.
Lemma chain_sep_U v : v <> [] -> chain steps o_U (Some v) = CDone (AUndef v) true.
Proof. destruct v; [congruence|reflexivity]. Qed.
Lemma chain_sep_sys v : v <> [] -> chain steps o_isystem (Some v) = CDone (ASys v) true.
Proof. destruct v; [congruence|reflexivity]. Qed.

Lemma chain_joined_I v nxt : v <> [] -> chain steps (o_I ++ v) nxt = CDone (AInc v) false.
Proof. destruct v; [congruence|reflexivity]. Qed.
Lemma chain_joined_D v nxt : v <> [] -> chain steps (o_D ++ v) nxt = CDone (ADef v) false.
Proof. destruct v; [congruence|reflexivity]. Qed.
Lemma chain_joined_U v nxt : v <> [] -> chain steps (o_U ++ v) nxt = CDone (AUndef v) false.
Proof. destruct v; [congruence|reflexivity]. Qed.
Lemma chain_joined_sys v nxt : v <> [] -> chain steps (o_isystem ++ v) nxt = CDone (ASys v) false.
Proof. destruct v; [congruence|reflexivity]. Qed.
Lemma chain_joined_std v nxt : v <> [] -> chain steps (o_std ++ v) nxt = CDone (AStd v) false.
Proof. destruct v; [congruence|reflexivity]. Qed.

(* ---------------------------------------------------------------- inert words *)

Lemma pstate_eta s : mkP (p_incs s) (p_sys s) (p_defs s ++ []) (p_undefs s) (p_std s) = s.
Proof. destruct s; simpl; now rewrite app_nil_r. Qed.

Lemma chain_inert a nxt : inert a = true ->
  exists act, chain steps a nxt = CDone act false /\ forall s, apply_act act s = s.
Proof.
  unfold inert. intros H. apply andb_true_iff in H as [Hp Hm].
  apply negb_true_iff in Hp, Hm. unfold prefixes in Hp. cbn [existsb] in Hp.
  repeat (apply orb_false_iff in Hp; destruct Hp as [? Hp]). clear Hp.
  unfold steps. cbn [chain find].
  repeat match goal with H : starts_with _ a = false |- _ => rewrite H; clear H end.
  (* -f *)
  destruct (starts_with o_f a) eqn:Hf.
  { destruct (Nat.eqb (length a) (length o_f)) eqn:L.
    - apply Nat.eqb_eq in L. rewrite (starts_with_len_eq _ _ Hf L) in Hm. vm_compute in Hm. discriminate.
    - eexists. split; [reflexivity|]. intros s. unfold apply_act.
      pose proof (starts_with_app _ _ Hf) as Happ. change (length o_f) with 2%nat in *.
      destruct (str_eqb (skipn 2 a) v_pic) eqn:E1.
      { apply str_eqb_eq in E1. rewrite E1 in Happ. subst a. vm_compute in Hm. discriminate. }
      destruct (str_eqb (skipn 2 a) v_PIC) eqn:E2.
      { apply str_eqb_eq in E2. rewrite E2 in Happ. subst a. vm_compute in Hm. discriminate. }
      destruct (str_eqb (skipn 2 a) v_pie) eqn:E3.
      { apply str_eqb_eq in E3. rewrite E3 in Happ. subst a. vm_compute in Hm. discriminate. }
      destruct (str_eqb (skipn 2 a) v_PIE) eqn:E4.
      { apply str_eqb_eq in E4. rewrite E4 in Happ. subst a. vm_compute in Hm. discriminate. }
      apply pstate_eta. }
  (* -m *)
  destruct (starts_with o_m a) eqn:Hmm.
  { destruct (Nat.eqb (length a) (length o_m)) eqn:L.
    - apply Nat.eqb_eq in L. rewrite (starts_with_len_eq _ _ Hmm L) in Hm. vm_compute in Hm. discriminate.
    - eexists. split; [reflexivity|]. intros s. unfold apply_act.
      pose proof (starts_with_app _ _ Hmm) as Happ. change (length o_m) with 2%nat in *.
      destruct (str_eqb (skipn 2 a) v_unicode) eqn:E1.
      { apply str_eqb_eq in E1. rewrite E1 in Happ. subst a. vm_compute in Hm. discriminate. }
      apply pstate_eta. }
  exists ANone. split; reflexivity.
Qed.

Lemma parse_loop_inert a rest s : inert a = true -> parse_loop (a :: rest) s = parse_loop rest s.
Proof.
  intros H. rewrite parse_loop_step.
  destruct (chain_inert a (hd_error rest) H) as (act & Hc & Hs). rewrite Hc. now rewrite Hs.
Qed.

(* ---------------------------------------------------------------- classify, inverted *)

Lemma classify_KSep a k : classify a = KSep k ->
  (a = o_I /\ k = TInc) \/ (a = o_D /\ k = TDef) \/ (a = o_U /\ k = TUndef) \/ (a = o_isystem /\ k = TSys).
Proof.
  unfold classify. intros H.
  destruct (str_eqb a o_I) eqn:E1. { apply str_eqb_eq in E1. inversion H. auto. }
  destruct (str_eqb a o_D) eqn:E2. { apply str_eqb_eq in E2. inversion H. auto. }
  destruct (str_eqb a o_U) eqn:E3. { apply str_eqb_eq in E3. inversion H. auto. }
  destruct (str_eqb a o_isystem) eqn:E4. { apply str_eqb_eq in E4. inversion H. auto 6. }
  destruct (starts_with o_isystem a); [discriminate|].
  destruct (starts_with o_I a); [discriminate|].
  destruct (starts_with o_D a); [discriminate|].
  destruct (starts_with o_U a); [discriminate|].
  destruct (starts_with o_std a). { destruct (skipn 5 a); discriminate. }
  destruct (mem a two_word); [discriminate|].
  destruct (starts_with [45] a && negb (str_eqb a [45])); discriminate.
Qed.

Lemma classify_KOne a t : classify a = KOne t ->
  (exists v, t = TSys v /\ a = o_isystem ++ v) \/ (exists v, t = TInc v /\ a = o_I ++ v) \/
  (exists v, t = TDef v /\ a = o_D ++ v) \/ (exists v, t = TUndef v /\ a = o_U ++ v) \/
  (exists v, t = TStd v /\ a = o_std ++ v) \/ t = TFlag a \/ t = TOperand a.
Proof.
  unfold classify. intros H.
  destruct (str_eqb a o_I); [discriminate|].
  destruct (str_eqb a o_D); [discriminate|].
  destruct (str_eqb a o_U); [discriminate|].
  destruct (str_eqb a o_isystem); [discriminate|].
  destruct (starts_with o_isystem a) eqn:S1.
  { inversion H. left. eexists. split; [reflexivity|]. exact (starts_with_app _ _ S1). }
  destruct (starts_with o_I a) eqn:S2.
  { inversion H. right; left. eexists. split; [reflexivity|]. exact (starts_with_app _ _ S2). }
  destruct (starts_with o_D a) eqn:S3.
  { inversion H. do 2 right; left. eexists. split; [reflexivity|]. exact (starts_with_app _ _ S3). }
  destruct (starts_with o_U a) eqn:S4.
  { inversion H. do 3 right; left. eexists. split; [reflexivity|]. exact (starts_with_app _ _ S4). }
  destruct (starts_with o_std a) eqn:S5.
  { destruct (skipn 5 a) eqn:E; [discriminate|]. inversion H. do 4 right; left.
    eexists. split; [reflexivity|]. rewrite <- E. exact (starts_with_app _ _ S5). }
  destruct (mem a two_word); [discriminate|].
  destruct (starts_with [45] a && negb (str_eqb a [45])); inversion H; auto 8.
Qed.

Lemma nonempty_ne v : nonempty v = true -> v <> [].
Proof. destruct v; [discriminate|congruence]. Qed.

(* ---------------------------------------------------------------- main refinement *)

Lemma parse_walk : forall n args toks s, (length args <= n)%nat ->
  gcc_walk args = Some toks -> forallb tok_ok toks = true ->
  parse_loop args s = Some (fold_toks toks s).
Proof.
  induction n as [|n IH]; intros args toks s Hlen Hw Hok.
  - destruct args; [|simpl in Hlen; lia]. inversion Hw; subst. reflexivity.
  - destruct args as [|a rest]. { inversion Hw; subst. reflexivity. }
    simpl in Hlen. simpl in Hw.
    destruct (classify a) as [k|t| |] eqn:C.
    + (* separate argument *)
      destruct rest as [|v rest']; [discriminate|].
      destruct (gcc_walk rest') as [toks'|] eqn:W; [|discriminate]. inversion Hw; subst toks. clear Hw.
      simpl in Hok. apply andb_true_iff in Hok as [Hk Hok].
      assert (parse_loop rest' (apply_tok (k v) s) = Some (fold_toks toks' (apply_tok (k v) s))) as R
          by (apply IH; [simpl in Hlen; lia|assumption|assumption]).
      rewrite parse_loop_step. simpl hd_error. simpl tl.
      destruct (classify_KSep a k C) as [[-> ->]|[[-> ->]|[[-> ->]|[-> ->]]]]; simpl in Hk; apply nonempty_ne in Hk.
      * rewrite chain_sep_I by assumption. exact R.
      * rewrite chain_sep_D by assumption. exact R.
      * rewrite chain_sep_U by assumption. exact R.
      * rewrite chain_sep_sys by assumption. exact R.
    + (* one word *)
      destruct (gcc_walk rest) as [toks'|] eqn:W; [|discriminate]. inversion Hw; subst toks. clear Hw.
      simpl in Hok. apply andb_true_iff in Hok as [Hk Hok].
      assert (forall s', parse_loop rest s' = Some (fold_toks toks' s')) as R
          by (intros s'; apply IH; [lia|assumption|assumption]).
      destruct (classify_KOne a t C) as [(v & -> & ->)|[(v & -> & ->)|[(v & -> & ->)|[(v & -> & ->)|[(v & -> & ->)|[->| ->]]]]]];
        simpl in Hk; try apply nonempty_ne in Hk.
      * rewrite parse_loop_step, chain_joined_sys by assumption. apply R.
      * rewrite parse_loop_step, chain_joined_I by assumption. apply R.
      * rewrite parse_loop_step, chain_joined_D by assumption. apply R.
      * rewrite parse_loop_step, chain_joined_U by assumption. apply R.
      * rewrite parse_loop_step, chain_joined_std by assumption. apply R.
      * rewrite parse_loop_inert by assumption. apply R.
      * rewrite parse_loop_inert by assumption. apply R.
    + (* option with a separate operand that is none of ours *)
      destruct rest as [|v rest']; [discriminate|].
      destruct (gcc_walk rest') as [toks'|] eqn:W; [|discriminate]. inversion Hw; subst toks. clear Hw.
      cbn [forallb tok_ok] in Hok. apply andb_true_iff in Hok as [Ha Hok]. apply andb_true_iff in Hok as [Hv Hok].
      rewrite (parse_loop_inert a (v :: rest') s Ha). rewrite (parse_loop_inert v rest' s Hv).
      change (fold_toks (TFlag a :: TOperand v :: toks') s) with (fold_toks toks' s).
      apply IH; [simpl in Hlen; lia|assumption|assumption].
    + discriminate.
Qed.

(* ---------------------------------------------------------------- what the folded state contains *)

Lemma fold_left_flat_map {A B C} (f : A -> C -> A) (g : B -> list C) l a :
  fold_left f (flat_map g l) a = fold_left (fun a x => fold_left f (g x) a) l a.
Proof. revert a. induction l as [|x l IH]; intros a; simpl; [reflexivity|]. now rewrite fold_left_app, IH. Qed.

Lemma fold_toks_incs toks s :
  p_incs (fold_toks toks s) = fold_left (fun acc x => if mem x acc then acc else acc ++ [x]) (tok_incs toks) (p_incs s).
Proof.
  revert s. induction toks as [|t toks IH]; intros s; [reflexivity|].
  unfold tok_incs in *. simpl flat_map. rewrite fold_left_app. simpl fold_toks. unfold fold_toks in *. simpl fold_left at 1.
  rewrite IH. destruct t; simpl; try reflexivity. destruct (mem v (p_incs s)); reflexivity.
Qed.

Lemma fold_toks_sys toks s : p_sys (fold_toks toks s) = p_sys s ++ tok_sys toks.
Proof.
  revert s. induction toks as [|t toks IH]; intros s; [simpl; now rewrite app_nil_r|].
  unfold tok_sys in *. unfold fold_toks in *. simpl. rewrite IH.
  destruct t; simpl; try reflexivity.
  - destruct (mem v (p_incs s)); reflexivity.
  - now rewrite <- app_assoc.
Qed.

Definition defs_string (l : list str) : str := concat (map (fun d => d ++ [59]) l).

Lemma fold_toks_defs toks s : p_defs (fold_toks toks s) = p_defs s ++ defs_string (tok_defs toks).
Proof.
  revert s. induction toks as [|t toks IH]; intros s; [simpl; now rewrite app_nil_r|].
  unfold tok_defs, defs_string in *. unfold fold_toks in *. simpl. rewrite IH.
  destruct t; simpl; try reflexivity.
  - destruct (mem v (p_incs s)); reflexivity.
  - now rewrite <- !app_assoc.
Qed.

Lemma fold_toks_undefs toks s :
  p_undefs (fold_toks toks s) = fold_left (fun acc x => set_insert x acc) (tok_undefs toks) (p_undefs s).
Proof.
  revert s. induction toks as [|t toks IH]; intros s; [reflexivity|].
  unfold tok_undefs in *. simpl flat_map. rewrite fold_left_app. unfold fold_toks in *. simpl fold_left at 1.
  rewrite IH. destruct t; simpl; try reflexivity. destruct (mem v (p_incs s)); reflexivity.
Qed.

Lemma fold_toks_std toks s :
  p_std (fold_toks toks s) = fold_left (fun acc t => match t with TStd v => v | _ => acc end) toks (p_std s).
Proof.
  revert s. induction toks as [|t toks IH]; intros s; [reflexivity|].
  unfold fold_toks in *. simpl. rewrite IH. destruct t; simpl; try reflexivity.
  destruct (mem v (p_incs s)); reflexivity.
Qed.

Theorem parse_args_exact argv toks :
  gcc_toks argv = Some toks -> forallb tok_ok toks = true ->
  exists s, parse_args argv = Some s /\
    p_incs s = dedup (tok_incs toks) /\
    p_sys s = tok_sys toks /\
    p_defs s = fs_set_defines (defs_string (tok_defs toks)) /\
    p_undefs s = sort_set (tok_undefs toks) /\
    p_std s = tok_std toks.
Proof.
  unfold gcc_toks. destruct argv as [|cc args]; [discriminate|].
  destruct (gcc_walk args) as [toks'|] eqn:W; [|discriminate]. intros H Hok. inversion H; subst toks. clear H.
  simpl in Hok. apply andb_true_iff in Hok as [Hcc Hok].
  unfold parse_args. rewrite parse_loop_inert by assumption.
  rewrite (parse_walk (length args) args toks' p0 (le_n _) W Hok).
  eexists. split; [reflexivity|]. simpl.
  rewrite fold_toks_incs, fold_toks_sys, fold_toks_defs, fold_toks_undefs, fold_toks_std.
  repeat split.
Qed.

(* the hypothesis is needed: words that GCC reads as operands and cppcheck reads as options *)
Definition misread (argv : list str) : Prop :=
  exists toks s, gcc_toks argv = Some toks /\ parse_args argv = Some s /\
    (p_incs s <> dedup (tok_incs toks) \/ p_defs s <> fs_set_defines (defs_string (tok_defs toks)) \/
     p_undefs s <> sort_set (tok_undefs toks)).

Lemma parse_args_output_operand_refuted : misread [lit "gcc"; lit "-o"; lit "-Dx.o"; lit "a.c"]%string.
Proof. do 2 eexists. split; [vm_compute; reflexivity|split; [vm_compute; reflexivity|]]. right; left. vm_compute. discriminate. Qed.

Lemma parse_args_include_operand_refuted : misread [lit "gcc"; lit "-include"; lit "-Ifoo.h"; lit "a.c"]%string.
Proof. do 2 eexists. split; [vm_compute; reflexivity|split; [vm_compute; reflexivity|]]. left. vm_compute. discriminate. Qed.

(* absolute paths beginning with /D /U /I (e.g. /Data/..., /Users/..., /Include/...) *)
Lemma parse_args_abs_path_refuted : misread [lit "gcc"; lit "-c"; lit "/Data/src/a.c"]%string.
Proof. do 2 eexists. split; [vm_compute; reflexivity|split; [vm_compute; reflexivity|]]. right; left. vm_compute. discriminate. Qed.

Lemma parse_args_abs_path_undef_refuted : misread [lit "/Users/me/bin/cc"; lit "-c"; lit "a.c"]%string.
Proof. do 2 eexists. split; [vm_compute; reflexivity|split; [vm_compute; reflexivity|]]. right; right. vm_compute. discriminate. Qed.
