(* C32 specification side (definitions only, no proofs):
   - sh_words: POSIX shell word splitting + quote removal for the sublanguage without
     expansions/operators (XCU 2.2 Quoting, 2.6.5 Field Splitting with default IFS, 2.6.7 Quote Removal)
   - two producers of command strings: Python shlex.quote/shlex.join (Meson, Bear's command form) and
     CMake's cmOutputConverter::EscapeForShell for Unix shells
   - gcc_toks: the GCC driver's reading of an argument vector (which words are -I/-D/-U/-isystem/-std
     options, which words are operands of other options or input files)
   - gcc_macros: the macro state those options specify (processed in order, last one wins). *)
From CV Require Import Base.Bytes Import.Defs.
Local Open Scope N_scope.

(* ------------------------------------------------------------------ *)
(* POSIX words                                                         *)

Inductive shres := ShOk (ws : list str) | ShUnterminated | ShExpansion.

(* characters that are operators / start expansions / patterns when unquoted *)
Definition sh_special (c : N) : bool :=
  (c =? 36) || (c =? 96) || (c =? 59) || (c =? 38) || (c =? 124) || (c =? 60) || (c =? 62) ||
  (c =? 40) || (c =? 41) || (c =? 35) || (c =? 42) || (c =? 63) || (c =? 91) || (c =? 126) ||
  (c =? 123) || (c =? 125) || (c =? 33) || (c =? 10).   (* an unquoted newline ends the command *)

Definition sh_blank (c : N) : bool := (c =? 32) || (c =? 9).

(* inside double quotes backslash escapes only these *)
Definition dq_escapable (c : N) : bool := (c =? 36) || (c =? 96) || (c =? 34) || (c =? 92).

(* intermediate: Some (started, rest of current word, later words) *)
Inductive shr := SR (started : bool) (w : str) (ws : list str) | SUnterm | SExp.

Definition sr_char (c : N) (r : shr) : shr :=
  match r with SR _ w ws => SR true (c :: w) ws | e => e end.
Definition sr_chars (p : str) (r : shr) : shr :=
  match r with SR _ w ws => SR true (p ++ w) ws | e => e end.
Definition sr_start (r : shr) : shr :=
  match r with SR _ w ws => SR true w ws | e => e end.

Fixpoint shw (cmd : str) (q : qmode) : shr :=
  match cmd with
  | [] => match q with QNone => SR false [] [] | _ => SUnterm end
  | c :: r =>
      match q with
      | QSingle => if c =? 39 then sr_start (shw r QNone) else sr_char c (shw r QSingle)
      | QDouble =>
          if c =? 34 then sr_start (shw r QNone)
          else if c =? 92 then
            match r with
            | [] => SUnterm
            | c2 :: r2 =>
                if c2 =? 10 then sr_start (shw r2 QDouble)
                else if dq_escapable c2 then sr_char c2 (shw r2 QDouble)
                else sr_chars [92; c2] (shw r2 QDouble)
            end
          else if (c =? 36) || (c =? 96) then SExp
          else sr_char c (shw r QDouble)
      | QNone =>
          if sh_blank c then
            match shw r QNone with
            | SR b w ws => SR false [] (if b then w :: ws else ws)
            | e => e
            end
          else if c =? 34 then sr_start (shw r QDouble)
          else if c =? 39 then sr_start (shw r QSingle)
          else if c =? 92 then
            match r with
            | [] => SR true [92] []
            | c2 :: r2 => if c2 =? 10 then shw r2 QNone else sr_char c2 (shw r2 QNone)
            end
          else if sh_special c then SExp
          else sr_char c (shw r QNone)
      end
  end.

Definition sh_words (cmd : str) : shres :=
  match shw cmd QNone with
  | SR b w ws => ShOk (if b then w :: ws else ws)
  | SUnterm => ShUnterminated
  | SExp => ShExpansion
  end.

Definition nonempty (s : str) : bool := match s with [] => false | _ => true end.

(* ------------------------------------------------------------------ *)
(* Producers                                                           *)

(* Python: _find_unsafe = re.compile(r'[^\w@%+=:,./-]', re.ASCII) *)
Definition shlex_safe (c : N) : bool :=
  is_alnum c || (c =? 95) || (c =? 64) || (c =? 37) || (c =? 43) || (c =? 61) ||
  (c =? 58) || (c =? 44) || (c =? 46) || (c =? 47) || (c =? 45).

Definition sq_escape (s : str) : str :=
  flat_map (fun c => if c =? 39 then [39; 34; 39; 34; 39] else [c]) s.

Definition shlex_quote (s : str) : str :=
  match s with
  | [] => [39; 39]
  | _ => if forallb shlex_safe s then s else 39 :: sq_escape s ++ [39]
  end.

Fixpoint join_sp (l : list str) : str :=
  match l with
  | [] => []
  | [x] => x
  | x :: l' => x ++ 32 :: join_sp l'
  end.

Definition shlex_join (args : list str) : str := join_sp (map shlex_quote args).

(* CMake cmOutputConverter::Shell_GetArgument, Unix shell, no make/VS flags:
   needs quotes: empty, or contains space, tab, single quote, backtick or one of ; # & $ ( ) ~ < > | * ^ backslash
   escapes: a backslash before double quote, backtick, backslash, dollar *)
Definition cmake_needs_quote_c (c : N) : bool :=
  (c =? 32) || (c =? 9) || (c =? 39) || (c =? 96) || (c =? 59) || (c =? 35) || (c =? 38) ||
  (c =? 36) || (c =? 40) || (c =? 41) || (c =? 126) || (c =? 60) || (c =? 62) || (c =? 124) ||
  (c =? 42) || (c =? 94) || (c =? 92).

Definition cmake_escape (s : str) : str :=
  flat_map (fun c => if (c =? 34) || (c =? 96) || (c =? 92) || (c =? 36) then [92; c] else [c]) s.

Definition cmake_quote (s : str) : str :=
  match s with
  | [] => [34; 34]
  | _ => if existsb cmake_needs_quote_c s then 34 :: cmake_escape s ++ [34] else cmake_escape s
  end.

Definition cmake_join (args : list str) : str := join_sp (map cmake_quote args).

(* ------------------------------------------------------------------ *)
(* GCC's reading of an argument vector                                 *)

Inductive tok :=
| TInc (v : str) | TSys (v : str) | TDef (v : str) | TUndef (v : str) | TStd (v : str)
| TFlag (a : str)        (* any other one-word option *)
| TOperand (a : str).    (* argv[0], an input file, or the separate argument of another option *)

(* options of the GCC driver whose argument is the next word (gcc.gnu.org Invoking-GCC; Clang adds a few) *)
Definition two_word : list str := Eval compute in
  map lit [ "-o"; "-x"; "-include"; "-imacros"; "-iquote"; "-idirafter"; "-iprefix"; "-iwithprefix";
            "-iwithprefixbefore"; "-isysroot"; "-imultilib"; "-MF"; "-MT"; "-MQ"; "-Xpreprocessor";
            "-Xassembler"; "-Xlinker"; "-Xclang"; "-T"; "-u"; "-z"; "-e"; "-A"; "-G"; "-L"; "-l"; "-B";
            "--param"; "-aux-info"; "-arch"; "-target"; "-dumpbase"; "-dumpdir"; "-wrapper";
            "--sysroot"; "-include-pch"; "-mllvm"; "-framework"; "-iframework"; "--serialize-diagnostics" ]%string.

Inductive skind := KSep (k : str -> tok) | KOne (t : tok) | KTwo | KBad.

Definition classify (a : str) : skind :=
  if str_eqb a o_I then KSep TInc
  else if str_eqb a o_D then KSep TDef
  else if str_eqb a o_U then KSep TUndef
  else if str_eqb a o_isystem then KSep TSys
  else if starts_with o_isystem a then KOne (TSys (skipn 8 a))
  else if starts_with o_I a then KOne (TInc (skipn 2 a))
  else if starts_with o_D a then KOne (TDef (skipn 2 a))
  else if starts_with o_U a then KOne (TUndef (skipn 2 a))
  else if starts_with o_std a then
    match skipn 5 a with [] => KBad | v => KOne (TStd v) end
  else if mem a two_word then KTwo
  else if starts_with [45] a && negb (str_eqb a [45]) then KOne (TFlag a)
  else KOne (TOperand a).

(* words after argv[0]; None = the driver rejects the line (missing argument) *)
Fixpoint gcc_walk (args : list str) : option (list tok) :=
  match args with
  | [] => Some []
  | a :: rest =>
      match classify a with
      | KBad => None
      | KOne t => option_map (cons t) (gcc_walk rest)
      | KSep k => match rest with
                  | [] => None
                  | v :: rest' => option_map (cons (k v)) (gcc_walk rest')
                  end
      | KTwo => match rest with
                | [] => None
                | v :: rest' => option_map (fun l => TFlag a :: TOperand v :: l) (gcc_walk rest')
                end
      end
  end.

Definition gcc_toks (argv : list str) : option (list tok) :=
  match argv with
  | [] => None
  | cc :: args => option_map (cons (TOperand cc)) (gcc_walk args)
  end.

Definition tok_incs (l : list tok) : list str := flat_map (fun t => match t with TInc v => [v] | _ => [] end) l.
Definition tok_sys (l : list tok) : list str := flat_map (fun t => match t with TSys v => [v] | _ => [] end) l.
Definition tok_defs (l : list tok) : list str := flat_map (fun t => match t with TDef v => [v] | _ => [] end) l.
Definition tok_undefs (l : list tok) : list str := flat_map (fun t => match t with TUndef v => [v] | _ => [] end) l.
Definition tok_std (l : list tok) : str :=
  fold_left (fun acc t => match t with TStd v => v | _ => acc end) l [].

(* keep the first occurrence of each element *)
Definition dedup (l : list str) : list str :=
  fold_left (fun acc x => if mem x acc then acc else acc ++ [x]) l [].

Definition sort_set (l : list str) : list str := fold_left (fun acc x => set_insert x acc) l [].

(* the words cppcheck must leave alone: anything GCC does not read as one of the five options *)
Definition prefixes : list str := [o_I; o_sI; o_isystem; o_D; o_sD; o_U; o_sU; o_std; o_sstd].
Definition special_flags : list str := Eval compute in
  [o_f; o_m] ++ map lit ["-fpic"; "-fPIC"; "-fpie"; "-fPIE"; "-municode"]%string.

Definition inert (a : str) : bool :=
  negb (existsb (fun p => starts_with p a) prefixes) && negb (mem a special_flags).

Definition tok_ok (t : tok) : bool :=
  match t with
  | TFlag a | TOperand a => inert a
  | TInc v | TSys v | TDef v | TUndef v | TStd v => nonempty v
  end.

(* ------------------------------------------------------------------ *)
(* Macro state specified by the -D/-U options (cpp: processed in order of appearance) *)

Definition gstate := list (str * option (str * str)).   (* name -> Some (lhs, body) | None = undefined by -U *)

Fixpoint gs_set (n : str) (v : option (str * str)) (g : gstate) : gstate :=
  match g with
  | [] => [(n, v)]
  | (k, x) :: g' => if str_eqb n k then (k, v) :: g' else (k, x) :: gs_set n v g'
  end.

Fixpoint gs_get (n : str) (g : gstate) : option (str * str) :=
  match g with
  | [] => None
  | (k, x) :: g' => if str_eqb n k then x else gs_get n g'
  end.

Definition gcc_macros (l : list tok) : gstate :=
  fold_left (fun g t => match t with
                        | TDef m => gs_set (macro_name m) (Some (macro_lhs m, macro_rhs m)) g
                        | TUndef n => gs_set n None g
                        | _ => g
                        end) l [].

Fixpoint tbl_get (n : str) (t : macro_table) : option (str * str) :=
  match t with
  | [] => None
  | (k, x) :: t' => if str_eqb n k then Some x else tbl_get n t'
  end.
