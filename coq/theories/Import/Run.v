(* Entry point of the extracted executable for C32: decode a case, run model or spec, encode. *)
From CV Require Import Base.Bytes Import.Defs Import.Spec.
Local Open Scope N_scope.

Definition t_collect := Eval compute in lit "collect"%string.
Definition t_parse := Eval compute in lit "parse"%string.
Definition t_defs := Eval compute in lit "defs"%string.
Definition t_incs := Eval compute in lit "incs"%string.
Definition t_simp := Eval compute in lit "simp"%string.
Definition t_entry := Eval compute in lit "entry"%string.
Definition t_shwords := Eval compute in lit "shwords"%string.
Definition t_shlex := Eval compute in lit "shlex"%string.
Definition t_cmake := Eval compute in lit "cmake"%string.
Definition t_gcc := Eval compute in lit "gcc"%string.
Definition t_gccm := Eval compute in lit "gccm"%string.
Definition t_cfgm := Eval compute in lit "cfgm"%string.
Definition t_entrym := Eval compute in lit "entrym"%string.
Definition t_gccrep := Eval compute in lit "gccrep"%string.

Definition OK1 : str := [49].
Definition BAD : list str := [[66]].
Definition FUEL : list str := [[70]].
Definition UB : list str := [[85]].
Definition ENV : list str := [[86]].
Definition QERR : list str := [[81]].

Definition lenc (l : list str) : list str := dec_of_N (N.of_nat (length l)) :: l.

Definition nd (s : str) : N := match N_of_dec s with Some z => z | None => 0 end.

Definition pstate_out (s : pstate) : list str :=
  lenc (p_incs s) ++ lenc (p_sys s) ++ [p_defs s] ++ lenc (p_undefs s) ++ [p_std s].

Definition entry_out_fields (e : entry_out) : list str :=
  [e_path e] ++ lenc (e_incs e) ++ lenc (e_sys e) ++ [e_defs e] ++ lenc (e_undefs e) ++ [e_std e].

Definition src_of (kind : str) (payload : list str) : option cmdsrc :=
  if str_eqb kind [99] then match payload with [c] => Some (Command c) | _ => None end
  else if str_eqb kind [97] then Some (Arguments payload)
  else None.

(* what the probe  #ifdef N / N  shows: U = not defined, otherwise D lhs body *)
Definition probe_g (g : gstate) (n : str) : list str :=
  match gs_get n g with None => [[85]] | Some (l, b) => [[68]; l; b] end.
Definition probe_t (t : macro_table) (n : str) : list str :=
  match tbl_get n t with None => [[85]] | Some (l, b) => [[68]; l; b] end.

Definition split_names (l : list str) : option (list str * list str) :=
  match l with
  | cnt :: r => let n := N.to_nat (nd cnt) in
                if Nat.leb n (length r) then Some (firstn n r, skipn n r) else None
  | [] => None
  end.

Definition run (fields : list str) : list str :=
  match fields with
  | [] => BAD
  | tag :: a =>
      if str_eqb tag t_collect then
        match a with
        | [c] => match collect_args c with Some ws => OK1 :: ws | None => QERR end
        | _ => BAD
        end
      else if str_eqb tag t_parse then
        match parse_args a with Some s => OK1 :: pstate_out s | None => UB end
      else if str_eqb tag t_defs then
        match a with [d] => [fs_set_defines d] | _ => BAD end
      else if str_eqb tag t_incs then
        match a with
        | base :: l => match fs_set_includes base l with
                       | IOk r => OK1 :: r | IEnv => ENV | IFuel => FUEL end
        | _ => BAD
        end
      else if str_eqb tag t_simp then
        match a with
        | [p] => match simplify_path p with Some r => [OK1; r] | None => FUEL end
        | _ => BAD
        end
      else if str_eqb tag t_entry then
        match a with
        | dir :: file :: kind :: payload =>
            match src_of kind payload with
            | None => BAD
            | Some src =>
                match import_entry dir file src with
                | EOk e => OK1 :: entry_out_fields e
                | EQuote => QERR | EUB => UB | EEnv => ENV | EFuel => FUEL
                end
            end
        | _ => BAD
        end
      else if str_eqb tag t_shwords then
        match a with
        | [c] => match sh_words c with
                 | ShOk ws => OK1 :: ws | ShUnterminated => [[84]] | ShExpansion => [[88]] end
        | _ => BAD
        end
      else if str_eqb tag t_shlex then [shlex_join a]
      else if str_eqb tag t_cmake then [cmake_join a]
      else if str_eqb tag t_gcc then
        (* what the options specify, in cppcheck's representation; first field: all words inert/ok *)
        match gcc_toks a with
        | None => [[78]]
        | Some l => str_of_bool (forallb tok_ok l) ::
                    lenc (dedup (tok_incs l)) ++ lenc (tok_sys l) ++ lenc (tok_defs l) ++
                    lenc (sort_set (tok_undefs l)) ++ [tok_std l]
        end
      else if str_eqb tag t_gccm then
        (* n names..., argv...: macro state the options specify, probed at the names *)
        match split_names a with
        | Some (names, argv) =>
            match gcc_toks argv with
            | None => [[78]]
            | Some l => OK1 :: flat_map (probe_g (gcc_macros l)) names
            end
        | None => BAD
        end
      else if str_eqb tag t_cfgm then
        (* n names..., defines, undefs...: how the preprocessor reads cppcheck's representation *)
        match split_names a with
        | Some (names, d :: u) => OK1 :: flat_map (probe_t (cfg_macros d u)) names
        | _ => BAD
        end
      else if str_eqb tag t_entrym then
        (* n names..., dir file kind payload: import + preprocessor reading, probed at the names *)
        match split_names a with
        | Some (names, dir :: file :: kind :: payload) =>
            match src_of kind payload with
            | None => BAD
            | Some src =>
                match import_entry dir file src with
                | EOk e => OK1 :: flat_map (probe_t (cfg_macros (e_defs e) (e_undefs e))) names
                | EQuote => QERR | EUB => UB | EEnv => ENV | EFuel => FUEL
                end
            end
        | _ => BAD
        end
      else if str_eqb tag t_gccrep then
        (* dir argv...: what the options specify, in the representation of an imported entry
           (first field: hypothesis of C32_parse_args_exact holds) *)
        match a with
        | dir :: argv =>
            match gcc_toks argv with
            | None => [[78]]
            | Some l =>
                let d0 := from_native dir in
                let directory := if last_is 47 d0 then d0 else d0 ++ [47] in
                match fs_set_includes directory (dedup (tok_incs l)) with
                | IOk incs => str_of_bool (forallb tok_ok l) :: lenc incs ++ lenc (tok_sys l) ++
                              [fs_set_defines (concat (map (fun d => d ++ [59]) (tok_defs l)))] ++
                              lenc (sort_set (tok_undefs l)) ++ [tok_std l]
                | IEnv => ENV | IFuel => FUEL
                end
            end
        | _ => BAD
        end
      else BAD
  end.
