(* C32 proofs about fsSetDefines: for every list of -D arguments of the ordinary shape, the result is
   the ';'-joined list with "=1" appended to the macros that have neither '=' nor '('. *)
From CV Require Import Base.Bytes Import.Defs Import.Spec Import.ParseProofs Import.CollectProofs.
Require Import Lia.
Local Open Scope N_scope.

Definition has_eq (d : str) : bool := existsb (fun c => (c =? 40) || (c =? 61)) d.
Definition norm_def (d : str) : str := if has_eq d then d else d ++ eq1.

(* ordinary -D argument: non-empty, no ';' inside, first character none of ; = ( % *)
Definition def_ok (d : str) : bool :=
  match d with
  | [] => false
  | c :: _ => negb ((c =? 59) || (c =? 61) || (c =? 40) || (c =? 37)) && forallb (fun x => negb (x =? 59)) d
  end.

Fixpoint join_semi (l : list str) : str :=
  match l with
  | [] => []
  | [x] => x
  | x :: l' => x ++ 59 :: join_semi l'
  end.

Lemma def_ok_inv d : def_ok d = true ->
  exists c r, d = c :: r /\ (c =? 59) = false /\ (c =? 61) = false /\ (c =? 40) = false /\ (c =? 37) = false /\
              forallb (fun x => negb (x =? 59)) r = true.
Proof.
  destruct d as [|c r]; [discriminate|]. simpl. intros H.
  apply andb_true_iff in H as [H1 H2]. apply andb_true_iff in H2 as [H2 H3].
  apply negb_true_iff in H1. repeat (apply orb_false_iff in H1; destruct H1 as [H1 ?]).
  exists c, r. repeat split; auto.
Qed.

Lemma defs_string_cons d l : defs_string (d :: l) = d ++ 59 :: defs_string l.
Proof. unfold defs_string. simpl. now rewrite <- app_assoc. Qed.

(* first character of the rest of the list is not '%' *)
Definition head_not (x : N) (s : str) : Prop := match s with [] => True | c :: _ => (c =? x) = false end.

Lemma defs_string_head l x : Forall (fun d => def_ok d = true) l -> (x = 37 \/ x = 59) ->
  head_not x (defs_string l).
Proof.
  destruct l as [|d l]; intros H Hx; [exact I|]. inversion H; subst.
  destruct (def_ok_inv d H2) as (c & r & -> & A & B & C & D & E). rewrite defs_string_cons. simpl.
  destruct Hx; subst; assumption.
Qed.

(* --- pass 1: nothing to strip *)
Lemma starts_with_pct c rest : (c =? 37) = false -> starts_with [37; 40] (c :: rest) = false.
Proof. intros H. cbn [starts_with]. rewrite (N.eqb_sym 37 c), H. reflexivity. Qed.

Lemma strip_pct_seg r rest : forallb (fun x => negb (x =? 59)) r = true -> head_not 37 rest ->
  strip_pct (r ++ 59 :: rest) false = r ++ 59 :: strip_pct rest false.
Proof.
  induction r as [|c r IH]; intros H Hh.
  - destruct rest as [|c rest]; [reflexivity|]. simpl in Hh. cbn [app strip_pct]. simpl (59 =? 59).
    rewrite (starts_with_pct c rest Hh). reflexivity.
  - simpl in H. apply andb_true_iff in H as [H1 H2]. apply negb_true_iff in H1.
    simpl. rewrite H1. now rewrite IH.
Qed.

Lemma strip_pct_defs l : Forall (fun d => def_ok d = true) l ->
  strip_pct (defs_string l) false = defs_string l.
Proof.
  induction l as [|d l IH]; intros H; [reflexivity|]. inversion H; subst.
  destruct (def_ok_inv d H2) as (c & r & -> & A & B & C & D & E). rewrite defs_string_cons.
  change ((c :: r) ++ 59 :: defs_string l) with (c :: (r ++ 59 :: defs_string l)).
  simpl. rewrite A. rewrite strip_pct_seg; [now rewrite IH|assumption|].
  apply defs_string_head; auto.
Qed.

(* --- pass 2: no double ';' *)
Lemma collapse_seg r rest b : forallb (fun x => negb (x =? 59)) r = true ->
  collapse_semi (r ++ 59 :: rest) (match r with [] => false | _ => b end) = r ++ 59 :: collapse_semi rest true.
Proof.
  revert b. induction r as [|c r IH]; intros b H.
  - reflexivity.
  - simpl in H. apply andb_true_iff in H as [H1 H2]. apply negb_true_iff in H1.
    simpl. rewrite H1. f_equal.
    destruct r as [|c' r']; [reflexivity|]. exact (IH false H2).
Qed.

Lemma collapse_defs l b : Forall (fun d => def_ok d = true) l ->
  collapse_semi (defs_string l) b = defs_string l.
Proof.
  revert b. induction l as [|d l IH]; intros b H; [reflexivity|]. inversion H; subst.
  destruct (def_ok_inv d H2) as (c & r & -> & A & B & C & D & E). rewrite defs_string_cons.
  change ((c :: r) ++ 59 :: defs_string l) with (c :: (r ++ 59 :: defs_string l)).
  simpl. rewrite A. f_equal.
  destruct r as [|c' r'].
  - simpl. now rewrite IH.
  - rewrite (collapse_seg (c' :: r') (defs_string l) false E). now rewrite IH.
Qed.

(* --- pass 3/4: strip leading / trailing ';' *)
Lemma defs_string_join l : l <> [] -> defs_string l = join_semi l ++ [59].
Proof.
  induction l as [|d l IH]; intros H; [congruence|].
  rewrite defs_string_cons. destruct l as [|d' l'].
  - reflexivity.
  - rewrite IH by discriminate. change (join_semi (d :: d' :: l')) with (d ++ 59 :: join_semi (d' :: l')).
    now rewrite <- app_assoc.
Qed.

Lemma join_semi_last l : l <> [] -> Forall (fun d => def_ok d = true) l ->
  exists x c, join_semi l = x ++ [c] /\ (c =? 59) = false.
Proof.
  induction l as [|d l IH]; intros Hne H; [congruence|]. inversion H; subst.
  destruct l as [|d' l'].
  - simpl. destruct (def_ok_inv d H2) as (c & r & -> & A & B & C & D & E).
    destruct (exists_last (l := c :: r) ltac:(discriminate)) as (x & y & Hx). exists x, y. split; [assumption|].
    assert (forallb (fun x => negb (x =? 59)) (c :: r) = true) as F by (simpl; now rewrite A, E).
    rewrite Hx in F. rewrite forallb_app in F. apply andb_true_iff in F as [_ F]. simpl in F.
    rewrite andb_true_r in F. now apply negb_true_iff in F.
  - destruct (IH ltac:(discriminate) H3) as (x & c & Hx & Hc).
    change (join_semi (d :: d' :: l')) with (d ++ 59 :: join_semi (d' :: l')). rewrite Hx.
    exists (d ++ 59 :: x), c. split; [|assumption]. now rewrite <- app_assoc.
Qed.

Lemma drop_trail_join l : l <> [] -> Forall (fun d => def_ok d = true) l ->
  drop_trail_semi (join_semi l ++ [59]) = join_semi l.
Proof.
  intros Hne H. destruct (join_semi_last l Hne H) as (x & c & Hx & Hc). rewrite Hx.
  unfold drop_trail_semi. rewrite !rev_app_distr. simpl. rewrite Hc. simpl. now rewrite rev_involutive.
Qed.

Lemma drop_lead_defs l : Forall (fun d => def_ok d = true) l -> drop_lead_semi (defs_string l) = defs_string l.
Proof.
  destruct l as [|d l]; intros H; [reflexivity|]. inversion H; subst.
  destruct (def_ok_inv d H2) as (c & r & -> & A & _). rewrite defs_string_cons. simpl. now rewrite A.
Qed.

Lemma join_semi_cons x l : join_semi (x :: l) = x ++ match l with [] => [] | _ => 59 :: join_semi l end.
Proof. destruct l; [now rewrite app_nil_r|reflexivity]. Qed.

(* --- pass 5: the =1 scan *)
Lemma eq_loop_seg r rest e : forallb (fun x => negb (x =? 59)) r = true ->
  eq_loop (r ++ rest) e = r ++ eq_loop rest (e || has_eq r).
Proof.
  revert e. induction r as [|c r IH]; intros e H.
  - simpl. now rewrite orb_false_r.
  - simpl in H. apply andb_true_iff in H as [H1 H2]. apply negb_true_iff in H1.
    simpl. unfold has_eq. simpl existsb. destruct ((c =? 40) || (c =? 61)) eqn:E.
    + rewrite IH by assumption. simpl. now rewrite orb_true_r.
    + rewrite H1. rewrite IH by assumption. reflexivity.
Qed.

Lemma eq_loop_join l e0 : Forall (fun d => def_ok d = true) l ->
  forall d0, forallb (fun x => negb (x =? 59)) d0 = true ->
  eq_loop (d0 ++ match l with [] => [] | _ => 59 :: join_semi l end) e0 =
  (if e0 || has_eq d0 then d0 else d0 ++ eq1) ++ match l with [] => [] | _ => 59 :: join_semi (map norm_def l) end.
Proof.
  intros H. revert e0. induction l as [|d l IH]; intros e0 d0 H0.
  - rewrite eq_loop_seg by assumption. destruct (e0 || has_eq d0); simpl; rewrite ?app_nil_r; reflexivity.
  - inversion H; subst. destruct (def_ok_inv d H3) as (c & r & -> & A & B & C & D & E).
    rewrite eq_loop_seg by assumption.
    cbn [map]. rewrite !join_semi_cons.
    assert (eq_loop ((c :: r) ++ match l with [] => [] | _ :: _ => 59 :: join_semi l end) false =
            norm_def (c :: r) ++ match l with [] => [] | _ :: _ => 59 :: join_semi (map norm_def l) end) as R.
    { rewrite (IH H4 false (c :: r)); [|simpl; now rewrite A, E]. reflexivity. }
    assert (match map norm_def l with [] => [] | _ :: _ => 59 :: join_semi (map norm_def l) end =
            match l with [] => [] | _ :: _ => 59 :: join_semi (map norm_def l) end) as M by (destruct l; reflexivity).
    rewrite M.
    destruct (e0 || has_eq d0).
    + change (eq_loop (59 :: ?x) true) with (59 :: eq_loop x false).
      cbn [eq_loop]. simpl (59 =? 40). simpl (59 =? 61). simpl (59 =? 59). cbn [orb].
      rewrite R. reflexivity.
    + cbn [eq_loop]. simpl (59 =? 40). simpl (59 =? 61). simpl (59 =? 59). cbn [orb].
      change ((c :: r) ++ match l with [] => [] | _ :: _ => 59 :: join_semi l end)
        with (c :: (r ++ match l with [] => [] | _ :: _ => 59 :: join_semi l end)).
      change ((c :: r) ++ match l with [] => [] | _ :: _ => 59 :: join_semi l end)
        with (c :: (r ++ match l with [] => [] | _ :: _ => 59 :: join_semi l end)) in R.
      cbn [eq_loop] in R. rewrite B, C in R. cbn [orb] in R. rewrite A in R.
      rewrite <- R. rewrite <- app_assoc. reflexivity.
Qed.

Theorem defines_normal_form l : Forall (fun d => def_ok d = true) l ->
  fs_set_defines (defs_string l) = join_semi (map norm_def l).
Proof.
  intros H. destruct l as [|d l]; [reflexivity|].
  unfold fs_set_defines. rewrite strip_pct_defs, collapse_defs, drop_lead_defs by assumption.
  rewrite defs_string_join by discriminate. rewrite drop_trail_join by (assumption || discriminate).
  inversion H; subst. destruct (def_ok_inv d H2) as (c & r & -> & A & B & C & D & E).
  cbn [map]. rewrite !join_semi_cons.
  assert (match map norm_def l with [] => [] | _ :: _ => 59 :: join_semi (map norm_def l) end =
          match l with [] => [] | _ :: _ => 59 :: join_semi (map norm_def l) end) as M by (destruct l; reflexivity).
  rewrite M.
  assert (forallb (fun x => negb (x =? 59)) (c :: r) = true) as F by (simpl; now rewrite A, E).
  destruct l as [|d' l'].
  - rewrite (eq_loop_join [] false ltac:(constructor) (c :: r) F). reflexivity.
  - rewrite (eq_loop_join (d' :: l') false H3 (c :: r) F). reflexivity.
Qed.

(* a ';' inside a macro body splits the macro *)
Lemma defines_semicolon_refuted :
  exists argv toks s, gcc_toks argv = Some toks /\ forallb tok_ok toks = true /\ parse_args argv = Some s /\
    tbl_get (lit "b"%string) (cfg_macros (p_defs s) (p_undefs s)) <> None /\
    gs_get (lit "b"%string) (gcc_macros toks) = None.
Proof.
  exists [lit "gcc"; lit "-DR=a;b"; lit "a.c"]%string. do 2 eexists.
  split; [vm_compute; reflexivity|]. split; [vm_compute; reflexivity|]. split; [vm_compute; reflexivity|].
  split; [vm_compute; discriminate|vm_compute; reflexivity].
Qed.

(* ---------------------------------------------------------------- macro state: order is lost *)

(* -U before -D: the compiler ends with the macro defined, the imported configuration with it undefined *)
Lemma macro_state_undef_then_define_refuted :
  exists argv toks s, gcc_toks argv = Some toks /\ forallb tok_ok toks = true /\ parse_args argv = Some s /\
    gs_get (lit "X"%string) (gcc_macros toks) = Some (lit "X", lit "1")%string /\
    tbl_get (lit "X"%string) (cfg_macros (p_defs s) (p_undefs s)) = None.
Proof.
  exists [lit "gcc"; lit "-UX"; lit "-DX"; lit "a.c"]%string. do 2 eexists.
  repeat split; vm_compute; reflexivity.
Qed.

(* -D twice: the compiler keeps the last, the preprocessor fed by the import keeps the first *)
Lemma macro_state_redefine_refuted :
  exists argv toks s, gcc_toks argv = Some toks /\ forallb tok_ok toks = true /\ parse_args argv = Some s /\
    gs_get (lit "X"%string) (gcc_macros toks) = Some (lit "X", lit "2")%string /\
    tbl_get (lit "X"%string) (cfg_macros (p_defs s) (p_undefs s)) = Some (lit "X", lit "1")%string.
Proof.
  exists [lit "gcc"; lit "-DX=1"; lit "-DX=2"; lit "a.c"]%string. do 2 eexists.
  repeat split; vm_compute; reflexivity.
Qed.

(* ---------------------------------------------------------------- command string vs argument array *)

Theorem import_command_eq_arguments_shlex dir file args :
  Forall (fun a => a <> []) args ->
  import_entry dir file (Command (shlex_join args)) = import_entry dir file (Arguments args).
Proof. intros H. unfold import_entry. now rewrite collect_shlex_roundtrip. Qed.

Theorem import_command_eq_arguments_cmake dir file args :
  Forall cmake_ok args ->
  import_entry dir file (Command (cmake_join args)) = import_entry dir file (Arguments args).
Proof. intros H. unfold import_entry. now rewrite collect_cmake_roundtrip. Qed.
