(* C32 proofs about collectArgs: it inverts shlex.quote / CMake quoting, and it equals POSIX word
   splitting on the commands where backslashes and blanks are used in the way both read alike. *)
From CV Require Import Base.Bytes Import.Defs Import.Spec.
Require Import Lia.
Local Open Scope N_scope.

(* ---------------------------------------------------------------- helpers *)

Lemma app_chars_nil r : app_chars [] r = r.
Proof. destruct r as [[w ws]|]; reflexivity. Qed.

Lemma app_chars_cons c s r : app_chars (c :: s) r = cons_char c (app_chars s r).
Proof. destruct r as [[w ws]|]; reflexivity. Qed.

Lemma app_chars_app a b r : app_chars (a ++ b) r = app_chars a (app_chars b r).
Proof. destruct r as [[w ws]|]; simpl; [rewrite app_assoc|]; reflexivity. Qed.

Ltac neqb :=
  repeat match goal with
         | H : (_ =? _) = false |- _ => apply N.eqb_neq in H
         | H : (_ =? _) = true |- _ => apply N.eqb_eq in H
         end.

(* an ordinary character outside quotes *)
Lemma collect_plain_none c r :
  (c =? 32) = false -> (c =? 34) = false -> (c =? 39) = false -> (c =? 92) = false ->
  collect (c :: r) QNone = cons_char c (collect r QNone).
Proof. intros H1 H2 H3 H4. simpl. rewrite H1, H2, H3, H4. reflexivity. Qed.

Lemma collect_space r :
  collect (32 :: r) QNone =
  match collect r QNone with Some (w, ws) => Some ([], push_word w ws) | None => None end.
Proof. reflexivity. Qed.

(* ---------------------------------------------------------------- shlex.quote *)

Lemma shlex_safe_plain c : shlex_safe c = true ->
  (c =? 32) = false /\ (c =? 34) = false /\ (c =? 39) = false /\ (c =? 92) = false.
Proof.
  unfold shlex_safe, is_alnum, is_alpha, is_upper, is_lower, is_digit. intros H.
  repeat split; apply N.eqb_neq; intros ->; vm_compute in H; discriminate.
Qed.

Lemma collect_safe s t : forallb shlex_safe s = true ->
  collect (s ++ t) QNone = app_chars s (collect t QNone).
Proof.
  induction s as [|c s IH]; intros H.
  - simpl. now rewrite app_chars_nil.
  - simpl in H. apply andb_true_iff in H as [Hc Hs].
    destruct (shlex_safe_plain c Hc) as (H1 & H2 & H3 & H4).
    change ((c :: s) ++ t) with (c :: (s ++ t)).
    rewrite collect_plain_none by assumption. rewrite IH by assumption.
    now rewrite app_chars_cons.
Qed.

Lemma collect_sq s t :
  collect (sq_escape s ++ 39 :: t) QSingle = app_chars s (collect t QNone).
Proof.
  induction s as [|c s IH].
  - simpl. rewrite app_chars_nil. reflexivity.
  - rewrite app_chars_cons. unfold sq_escape in *. simpl flat_map.
    destruct (c =? 39) eqn:E.
    + apply N.eqb_eq in E. subst c. simpl app.
      change (collect (39 :: 34 :: 39 :: 34 :: 39 :: (flat_map (fun c : N => if c =? 39 then [39; 34; 39; 34; 39] else [c]) s ++ 39 :: t)) QSingle)
        with (cons_char 39 (collect (flat_map (fun c : N => if c =? 39 then [39; 34; 39; 34; 39] else [c]) s ++ 39 :: t) QSingle)).
      now rewrite IH.
    + simpl app. simpl collect. rewrite E. now rewrite IH.
Qed.

Lemma collect_shlex_quote a t : a <> [] ->
  collect (shlex_quote a ++ t) QNone = app_chars a (collect t QNone).
Proof.
  intros Ha. unfold shlex_quote. destruct a as [|c a]; [congruence|].
  destruct (forallb shlex_safe (c :: a)) eqn:E.
  - now apply collect_safe.
  - change ((39 :: sq_escape (c :: a) ++ [39]) ++ t) with (39 :: (sq_escape (c :: a) ++ [39]) ++ t).
    rewrite <- app_assoc. simpl ([39] ++ t).
    change (collect (39 :: sq_escape (c :: a) ++ 39 :: t) QNone) with (collect (sq_escape (c :: a) ++ 39 :: t) QSingle).
    apply collect_sq.
Qed.

(* any quoting function that contributes exactly the characters of the argument to the word in progress *)
Section Join.
  Variable q : str -> str.
  Variable ok : str -> Prop.
  Hypothesis q_ok : forall a t, ok a -> collect (q a ++ t) QNone = app_chars a (collect t QNone).
  Hypothesis ok_nonempty : forall a, ok a -> a <> [].

  Lemma collect_join args : Forall ok args ->
    exists w ws, collect (join_sp (map q args)) QNone = Some (w, ws) /\ push_word w ws = args.
  Proof.
    induction args as [|a l IH]; intros HF.
    - exists [], []. split; reflexivity.
    - inversion HF as [|? ? Ha Hl]; subst. specialize (IH Hl).
      destruct IH as (w & ws & Hc & Hp).
      destruct l as [|b l'].
      + simpl. rewrite <- (app_nil_r (q a)). rewrite q_ok by assumption. simpl.
        exists a, []. rewrite app_nil_r. split; [reflexivity|].
        destruct a; [exfalso; now apply (ok_nonempty [])|reflexivity].
      + change (join_sp (map q (a :: b :: l'))) with (q a ++ 32 :: join_sp (map q (b :: l'))).
        rewrite q_ok by assumption.
        rewrite collect_space. rewrite Hc. rewrite Hp. simpl. rewrite app_nil_r.
        exists a, (b :: l'). split; [reflexivity|].
        destruct a; [exfalso; now apply (ok_nonempty [])|reflexivity].
  Qed.

  Lemma collect_args_join args : Forall ok args -> collect_args (join_sp (map q args)) = Some args.
  Proof.
    intros HF. destruct (collect_join args HF) as (w & ws & Hc & Hp).
    unfold collect_args. rewrite Hc. now rewrite Hp.
  Qed.
End Join.

Theorem collect_shlex_roundtrip args :
  Forall (fun a => a <> []) args -> collect_args (shlex_join args) = Some args.
Proof.
  intros H. unfold shlex_join.
  apply (collect_args_join shlex_quote (fun a => a <> [])); auto.
  intros a t Ha. now apply collect_shlex_quote.
Qed.

(* ---------------------------------------------------------------- CMake *)

Definition cmake_ok (a : str) : Prop := a <> [] /\ forallb (fun c => negb ((c =? 36) || (c =? 96))) a = true.

Lemma collect_cmake_dq s t :
  forallb (fun c => negb ((c =? 36) || (c =? 96))) s = true ->
  collect (cmake_escape s ++ 34 :: t) QDouble = app_chars s (collect t QNone).
Proof.
  induction s as [|c s IH]; intros H.
  - simpl. now rewrite app_chars_nil.
  - simpl in H. apply andb_true_iff in H as [Hc Hs]. specialize (IH Hs).
    apply negb_true_iff in Hc. apply orb_false_iff in Hc as [H36 H96].
    rewrite app_chars_cons. unfold cmake_escape in *. simpl flat_map. rewrite H36, H96.
    destruct (c =? 34) eqn:E34.
    { apply N.eqb_eq in E34; subst c. simpl. now rewrite IH. }
    destruct (c =? 92) eqn:E92.
    { apply N.eqb_eq in E92; subst c. simpl. now rewrite IH. }
    simpl orb. simpl app. simpl collect. rewrite E34, E92.
    destruct (c =? 32); now rewrite IH.
Qed.

Lemma collect_cmake_unq s t :
  existsb cmake_needs_quote_c s = false ->
  collect (cmake_escape s ++ t) QNone = app_chars s (collect t QNone).
Proof.
  induction s as [|c s IH]; intros H.
  - simpl. now rewrite app_chars_nil.
  - simpl in H. apply orb_false_iff in H as [Hc Hs]. specialize (IH Hs).
    rewrite app_chars_cons. unfold cmake_escape in *. simpl flat_map.
    unfold cmake_needs_quote_c in Hc.
    repeat (apply orb_false_iff in Hc; destruct Hc as [Hc ?]).
    destruct (c =? 34) eqn:E34.
    { apply N.eqb_eq in E34; subst c. simpl. now rewrite IH. }
    replace (c =? 96) with false by (symmetry; assumption).
    replace (c =? 92) with false by (symmetry; assumption).
    replace (c =? 36) with false by (symmetry; assumption).
    simpl orb. simpl app. rewrite collect_plain_none by assumption. now rewrite IH.
Qed.

Lemma collect_cmake_quote a t : cmake_ok a ->
  collect (cmake_quote a ++ t) QNone = app_chars a (collect t QNone).
Proof.
  intros [Ha Hd]. unfold cmake_quote. destruct a as [|c a]; [congruence|].
  destruct (existsb cmake_needs_quote_c (c :: a)) eqn:E.
  - change ((34 :: cmake_escape (c :: a) ++ [34]) ++ t) with (34 :: (cmake_escape (c :: a) ++ [34]) ++ t).
    rewrite <- app_assoc. simpl ([34] ++ t).
    change (collect (34 :: cmake_escape (c :: a) ++ 34 :: t) QNone) with (collect (cmake_escape (c :: a) ++ 34 :: t) QDouble).
    now apply collect_cmake_dq.
  - now apply collect_cmake_unq.
Qed.

Theorem collect_cmake_roundtrip args :
  Forall cmake_ok args -> collect_args (cmake_join args) = Some args.
Proof.
  intros H. unfold cmake_join.
  apply (collect_args_join cmake_quote cmake_ok); auto.
  - intros a t Ha. now apply collect_cmake_quote.
  - intros a [Ha _]. exact Ha.
Qed.

(* CMake escapes '$' as backslash-dollar inside double quotes; collectArgs keeps the backslash *)
Lemma collect_cmake_dollar_refuted :
  exists args, Forall (fun a => a <> []) args /\ sh_words (cmake_join args) = ShOk args /\
               collect_args (cmake_join args) <> Some args.
Proof.
  exists [lit "gcc"; lit "-DT=a$b"]%string. split; [|split].
  - repeat constructor; discriminate.
  - vm_compute. reflexivity.
  - vm_compute. discriminate.
Qed.

(* ---------------------------------------------------------------- POSIX words *)

(* spec-level roundtrip: the POSIX reading of shlex.join's output is the argument vector (all vectors) *)
Lemma sr_chars_nil r : (forall w ws, r <> SR false w ws) -> sr_chars [] r = r.
Proof. destruct r as [b w ws| |]; simpl; auto. intros H. destruct b; [reflexivity|]. exfalso. now apply (H w ws). Qed.

Definition sr_app (p : str) (r : shr) : shr :=
  match r with SR _ w ws => SR true (p ++ w) ws | e => e end.

Lemma shw_plain_none c r :
  sh_blank c = false -> (c =? 34) = false -> (c =? 39) = false -> (c =? 92) = false -> sh_special c = false ->
  shw (c :: r) QNone = sr_char c (shw r QNone).
Proof. intros H1 H2 H3 H4 H5. simpl. rewrite H1, H2, H3, H4, H5. reflexivity. Qed.

Lemma shlex_safe_sh c : shlex_safe c = true ->
  sh_blank c = false /\ (c =? 34) = false /\ (c =? 39) = false /\ (c =? 92) = false /\ sh_special c = false.
Proof.
  intros H.
  assert (c < 128) as Hlt.
  { unfold shlex_safe, is_alnum, is_alpha, is_upper, is_lower, is_digit in H.
    repeat (apply orb_true_iff in H; destruct H as [H|H]);
      try (apply andb_true_iff in H; destruct H as [H1 H2]; apply N.leb_le in H1, H2; lia);
      apply N.eqb_eq in H; lia. }
  (* finite check over 0..127 *)
  revert H.
  assert (forallb (fun c => implb (shlex_safe c)
            (negb (sh_blank c) && negb (c =? 34) && negb (c =? 39) && negb (c =? 92) && negb (sh_special c)))
          (map N.of_nat (seq 0 128)) = true) as Hall by (vm_compute; reflexivity).
  rewrite forallb_forall in Hall. intros Hs.
  specialize (Hall c). rewrite Hs in Hall. simpl in Hall.
  assert (In c (map N.of_nat (seq 0 128))) as Hin.
  { apply in_map_iff. exists (N.to_nat c). split; [apply N2Nat.id|]. apply in_seq. lia. }
  specialize (Hall Hin).
  repeat (apply andb_true_iff in Hall; destruct Hall as [Hall ?]).
  repeat split; apply negb_true_iff; assumption.
Qed.

Lemma shw_safe s t : forallb shlex_safe s = true -> s <> [] ->
  shw (s ++ t) QNone = sr_app s (shw t QNone) \/ shw (s ++ t) QNone = shw t QNone /\ (shw t QNone = SUnterm \/ shw t QNone = SExp).
Proof.
  induction s as [|c s IH]; intros H Hne; [congruence|].
  simpl in H. apply andb_true_iff in H as [Hc Hs].
  destruct (shlex_safe_sh c Hc) as (H1 & H2 & H3 & H4 & H5).
  change ((c :: s) ++ t) with (c :: (s ++ t)). rewrite shw_plain_none by assumption.
  destruct s as [|c' s'].
  - simpl app. destruct (shw t QNone) as [b w ws| |]; simpl; auto.
  - destruct (IH Hs ltac:(discriminate)) as [E|[E E']].
    + rewrite E. destruct (shw t QNone) as [b w ws| |]; simpl; auto.
    + rewrite E. destruct E' as [E'|E']; rewrite E'; simpl; auto.
Qed.

Lemma shw_sq s t :
  shw (sq_escape s ++ 39 :: t) QSingle = sr_app s (shw t QNone).
Proof.
  induction s as [|c s IH].
  - simpl. destruct (shw t QNone); reflexivity.
  - unfold sq_escape in *. simpl flat_map. destruct (c =? 39) eqn:E.
    + apply N.eqb_eq in E; subst c. simpl app.
      change (shw (39 :: 34 :: 39 :: 34 :: 39 :: (flat_map (fun c : N => if c =? 39 then [39; 34; 39; 34; 39] else [c]) s ++ 39 :: t)) QSingle)
        with (sr_start (sr_start (sr_char 39 (sr_start (sr_start
               (shw (flat_map (fun c : N => if c =? 39 then [39; 34; 39; 34; 39] else [c]) s ++ 39 :: t) QSingle)))))).
      rewrite IH. destruct (shw t QNone); reflexivity.
    + simpl app. simpl shw. rewrite E. rewrite IH. destruct (shw t QNone); reflexivity.
Qed.

Lemma shw_shlex_quote a t :
  shw (shlex_quote a ++ t) QNone = sr_app a (shw t QNone).
Proof.
  unfold shlex_quote. destruct a as [|c a].
  - simpl. destruct (shw t QNone); reflexivity.
  - destruct (forallb shlex_safe (c :: a)) eqn:E.
    + destruct (shw_safe (c :: a) t E ltac:(discriminate)) as [H|[H [H'|H']]]; [exact H| |];
        rewrite H, H'; reflexivity.
    + change ((39 :: sq_escape (c :: a) ++ [39]) ++ t) with (39 :: (sq_escape (c :: a) ++ [39]) ++ t).
      rewrite <- app_assoc. simpl ([39] ++ t).
      change (shw (39 :: sq_escape (c :: a) ++ 39 :: t) QNone) with (sr_start (shw (sq_escape (c :: a) ++ 39 :: t) QSingle)).
      rewrite shw_sq. destruct (shw t QNone); reflexivity.
Qed.

Lemma shw_space r :
  shw (32 :: r) QNone =
  match shw r QNone with SR b w ws => SR false [] (if b then w :: ws else ws) | e => e end.
Proof. reflexivity. Qed.

Lemma shw_shlex_join args :
  shw (shlex_join args) QNone =
  match args with [] => SR false [] [] | a :: l => SR true a l end.
Proof.
  unfold shlex_join. induction args as [|a l IH]; [reflexivity|].
  destruct l as [|b l'].
  - simpl map. simpl join_sp. rewrite <- (app_nil_r (shlex_quote a)). rewrite shw_shlex_quote. simpl. now rewrite app_nil_r.
  - change (join_sp (map shlex_quote (a :: b :: l'))) with (shlex_quote a ++ 32 :: join_sp (map shlex_quote (b :: l'))).
    rewrite shw_shlex_quote.
    rewrite shw_space. rewrite IH. simpl. now rewrite app_nil_r.
Qed.

Theorem sh_words_shlex_join args : sh_words (shlex_join args) = ShOk args.
Proof. unfold sh_words. rewrite shw_shlex_join. destruct args; reflexivity. Qed.

(* ---------------------------------------------------------------- collectArgs = POSIX under `simple` *)

(* inside double quotes: backslash before c2 is read alike by both *)
Definition dq_bs_ok (c2 : N) : bool :=
  (c2 =? 34) || (c2 =? 92) ||
  negb ((c2 =? 10) || (c2 =? 36) || (c2 =? 96) || (c2 =? 39) || (c2 =? 32) || (c2 =? 0)).

Fixpoint simple (cmd : str) (q : qmode) : bool :=
  match cmd with
  | [] => true
  | c :: r =>
      match q with
      | QSingle => simple r (if c =? 39 then QNone else QSingle)
      | QDouble =>
          if c =? 34 then simple r QNone
          else if c =? 92 then
            match r with [] => true | c2 :: r2 => dq_bs_ok c2 && simple r2 QDouble end
          else simple r QDouble
      | QNone =>
          if (c =? 9) || (c =? 10) then false
          else if c =? 32 then simple r QNone
          else if c =? 34 then simple r QDouble
          else if c =? 39 then simple r QSingle
          else if c =? 92 then
            match r with [] => true | c2 :: r2 => bs_drop c2 && simple r2 QNone end
          else simple r QNone
      end
  end.

Lemma shw_unstarted : forall n cmd q w ws, (length cmd <= n)%nat -> shw cmd q = SR false w ws -> w = [].
Proof.
  induction n as [|n IH]; intros cmd q w ws Hlen H.
  - destruct cmd; [|simpl in Hlen; lia]. destruct q; simpl in H; congruence.
  - destruct cmd as [|c r]; [destruct q; simpl in H; congruence|].
    simpl in Hlen. destruct q; simpl in H.
    + (* QNone *)
      destruct (sh_blank c).
      { destruct (shw r QNone); congruence. }
      destruct (c =? 34). { destruct (shw r QDouble); simpl in H; congruence. }
      destruct (c =? 39). { destruct (shw r QSingle); simpl in H; congruence. }
      destruct (c =? 92).
      { destruct r as [|c2 r2]; [congruence|]. destruct (c2 =? 10).
        - eapply (IH r2 QNone); [simpl in Hlen; lia|exact H].
        - destruct (shw r2 QNone); simpl in H; congruence. }
      destruct (sh_special c); [congruence|]. destruct (shw r QNone); simpl in H; congruence.
    + (* QDouble *)
      destruct (c =? 34). { destruct (shw r QNone); simpl in H; congruence. }
      destruct (c =? 92).
      { destruct r as [|c2 r2]; [congruence|]. destruct (c2 =? 10).
        - destruct (shw r2 QDouble); simpl in H; congruence.
        - destruct (dq_escapable c2); destruct (shw r2 QDouble); simpl in H; congruence. }
      destruct ((c =? 36) || (c =? 96)); [congruence|]. destruct (shw r QDouble); simpl in H; congruence.
    + destruct (c =? 39); [destruct (shw r QNone)|destruct (shw r QSingle)]; simpl in H; congruence.
Qed.

Lemma filter_push b w ws : (b = false -> w = []) ->
  filter nonempty (if b then w :: ws else ws) = push_word w (filter nonempty ws).
Proof.
  intros H. destruct b.
  - simpl. destruct w; reflexivity.
  - rewrite (H eq_refl). reflexivity.
Qed.

Lemma collect_eq_shw : forall n cmd q b w ws, (length cmd <= n)%nat ->
  shw cmd q = SR b w ws -> simple cmd q = true ->
  collect cmd q = Some (w, filter nonempty ws).
Proof.
  induction n as [|n IH]; intros cmd q b w ws Hlen H S.
  - destruct cmd; [|simpl in Hlen; lia]. destruct q; simpl in H; try congruence.
    inversion H; subst. reflexivity.
  - destruct cmd as [|c r].
    { destruct q; simpl in H; try congruence. inversion H; subst. reflexivity. }
    simpl in Hlen. assert (length r <= n)%nat as Hr by lia.
    destruct q; simpl in H, S; simpl collect.
    + (* QNone *)
      destruct ((c =? 9) || (c =? 10)) eqn:E910; [discriminate|].
      apply orb_false_iff in E910 as [E9 E10].
      unfold sh_blank in H. rewrite E9 in H. rewrite !orb_false_r in H.
      destruct (c =? 32) eqn:E32.
      { destruct (shw r QNone) as [b' w' ws'| |] eqn:E; try congruence.
        inversion H; subst.
        rewrite (IH r QNone b' w' ws' Hr E S).
        f_equal. f_equal. symmetry. apply filter_push. intros ->. eapply shw_unstarted; [|exact E]. apply le_n. }
      destruct (c =? 34) eqn:E34.
      { destruct (shw r QDouble) as [b' w' ws'| |] eqn:E; simpl in H; try congruence.
        inversion H; subst. now apply (IH r QDouble b'). }
      destruct (c =? 39) eqn:E39.
      { destruct (shw r QSingle) as [b' w' ws'| |] eqn:E; simpl in H; try congruence.
        inversion H; subst. now apply (IH r QSingle b'). }
      destruct (c =? 92) eqn:E92.
      { destruct r as [|c2 r2]; [inversion H; subst; reflexivity|].
        apply andb_true_iff in S as [Sd S2]. rewrite Sd.
        assert ((c2 =? 10) = false) as E210.
        { unfold bs_drop in Sd. apply N.eqb_neq. intros ->. vm_compute in Sd. discriminate. }
        rewrite E210 in H.
        destruct (shw r2 QNone) as [b' w' ws'| |] eqn:E; simpl in H; try congruence.
        inversion H; subst.
        erewrite IH; [reflexivity| |eassumption|eassumption]; simpl in *; lia. }
      destruct (sh_special c); [congruence|].
      destruct (shw r QNone) as [b' w' ws'| |] eqn:E; simpl in H; try congruence.
      inversion H; subst. erewrite IH; [reflexivity| |eassumption|eassumption]; simpl in *; lia.
    + (* QDouble *)
      destruct (c =? 34) eqn:E34.
      { assert ((c =? 32) = false) as E32 by (apply N.eqb_eq in E34; subst; reflexivity).
        rewrite E32.
        destruct (shw r QNone) as [b' w' ws'| |] eqn:E; simpl in H; try congruence.
        inversion H; subst. now apply (IH r QNone b'). }
      destruct (c =? 92) eqn:E92.
      { assert ((c =? 32) = false) as E32 by (apply N.eqb_eq in E92; subst; reflexivity).
        rewrite E32.
        destruct r as [|c2 r2]; [congruence|].
        apply andb_true_iff in S as [Sd S2].
        assert (length r2 <= n)%nat as Hr2 by (simpl in Hr; lia).
        unfold dq_bs_ok in Sd.
        destruct (c2 =? 34) eqn:F34.
        { apply N.eqb_eq in F34; subst c2. simpl in H. simpl.
          destruct (shw r2 QDouble) as [b' w' ws'| |] eqn:E; simpl in H; try congruence.
          inversion H; subst. erewrite IH; [reflexivity| |eassumption|eassumption]; simpl in *; lia. }
        destruct (c2 =? 92) eqn:F92.
        { apply N.eqb_eq in F92; subst c2. simpl in H. simpl.
          destruct (shw r2 QDouble) as [b' w' ws'| |] eqn:E; simpl in H; try congruence.
          inversion H; subst. erewrite IH; [reflexivity| |eassumption|eassumption]; simpl in *; lia. }
        simpl in Sd. apply negb_true_iff in Sd.
        repeat (apply orb_false_iff in Sd; destruct Sd as [Sd ?]).
        assert (dq_escapable c2 = false) as Fe.
        { unfold dq_escapable. rewrite F34, F92.
          replace (c2 =? 36) with false by (symmetry; assumption).
          replace (c2 =? 96) with false by (symmetry; assumption). reflexivity. }
        assert (bs_drop c2 = false) as Fb.
        { unfold bs_drop. rewrite F34, F92.
          replace (c2 =? 39) with false by (symmetry; assumption).
          replace (c2 =? 32) with false by (symmetry; assumption).
          replace (c2 =? 0) with false by (symmetry; assumption). reflexivity. }
        rewrite Sd, Fe in H. rewrite Fb.
        destruct (shw r2 QDouble) as [b' w' ws'| |] eqn:E; simpl in H; try congruence.
        inversion H; subst. erewrite IH; [reflexivity| |eassumption|eassumption]; simpl in *; lia. }
      destruct ((c =? 36) || (c =? 96)); [congruence|].
      destruct (shw r QDouble) as [b' w' ws'| |] eqn:E; simpl in H; try congruence.
      inversion H; subst. erewrite IH; [|  |eassumption|eassumption]; [|simpl in *; lia].
      destruct (c =? 32); reflexivity.
    + (* QSingle *)
      destruct (c =? 39) eqn:E39.
      { destruct (shw r QNone) as [b' w' ws'| |] eqn:E; simpl in H; try congruence.
        inversion H; subst. now apply (IH r QNone b'). }
      destruct (shw r QSingle) as [b' w' ws'| |] eqn:E; simpl in H; try congruence.
      inversion H; subst. erewrite IH; [reflexivity| |eassumption|eassumption]; simpl in *; lia.
Qed.

Theorem collect_eq_sh_words_under cmd ws :
  sh_words cmd = ShOk ws -> simple cmd QNone = true ->
  collect_args cmd = Some (filter nonempty ws).
Proof.
  unfold sh_words, collect_args. intros H S.
  destruct (shw cmd QNone) as [b w ws'| |] eqn:E; try congruence.
  inversion H; subst.
  rewrite (collect_eq_shw (length cmd) cmd QNone b w ws' (le_n _) E S).
  f_equal. symmetry. apply filter_push. intros ->. eapply shw_unstarted; [|exact E]. apply le_n.
Qed.

(* the excluded shapes do distinguish the two readings *)
Definition differs (cmd : str) : Prop :=
  exists ws, sh_words cmd = ShOk ws /\ collect_args cmd <> Some (filter nonempty ws).

Lemma collect_tab_refuted : differs (lit "gcc" ++ [9] ++ lit "-DX")%string.
Proof. eexists. split; [vm_compute; reflexivity|vm_compute; discriminate]. Qed.

(* backslash before an ordinary character outside quotes: POSIX drops it, collectArgs keeps it *)
Lemma collect_backslash_plain_refuted : differs (lit "gcc -DA=a\nb")%string.
Proof. eexists. split; [vm_compute; reflexivity|vm_compute; discriminate]. Qed.

(* backslash-space inside double quotes: POSIX keeps the backslash, collectArgs drops it *)
Lemma collect_backslash_dq_refuted : differs ([34] ++ lit "-DA=a\ b" ++ [34])%string.
Proof. eexists. split; [vm_compute; reflexivity|vm_compute; discriminate]. Qed.

(* an empty quoted word is an argument for the shell and is dropped by collectArgs *)
Lemma collect_empty_word_refuted :
  exists cmd ws, sh_words cmd = ShOk ws /\ collect_args cmd <> Some ws.
Proof.
  exists (lit "gcc -I '' -DX")%string. eexists. split; [vm_compute; reflexivity|vm_compute; discriminate].
Qed.
