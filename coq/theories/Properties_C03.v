(* C03  Always-true/always-false verdicts are true -- the part decided by proof: the decision
   kernels of checkCompareValueOutOfTypeRange, CheckCondition::comparison and isOppositeCond. *)
From CV Require Import Base.Bytes VF.Defs Verdict.Defs Verdict.Proofs.
Local Open Scope Z_scope.

(* compareValueOutOfTypeRangeError: a verdict holds for every x in the range the checker assumes
   (unbounded in the constant, the width and the platform's int width) ... *)
Theorem C03_out_of_type_range_sound ib bits ts cs cl o kiv b :
  out_of_type_range ib bits ts cs cl o kiv = Some b ->
  forall x, oor_type_min bits ts <= x <= oor_type_max ib bits ts cs ->
  cond_value cl o x kiv = b.
Proof. exact (out_of_type_range_sound ib bits ts cs cl o kiv b). Qed.
Print Assumptions C03_out_of_type_range_sound.

(* ... which contains the value range of the type *)
Theorem C03_out_of_type_range_sound_vrange ib bits ts cs cl o kiv b :
  out_of_type_range ib bits ts cs cl o kiv = Some b ->
  forall x, vrange bits ts x -> cond_value cl o x kiv = b.
Proof. exact (out_of_type_range_sound_vrange ib bits ts cs cl o kiv b). Qed.
Print Assumptions C03_out_of_type_range_sound_vrange.

(* in C: sound whenever the usual arithmetic conversions preserve the variable's value *)
Theorem C03_out_of_type_range_sound_in_C_partial p vt ct cl o c b :
  oor_in_context p vt ct cl o c = Some b ->
  forall x, fits p vt x = true ->
  let t := if cl then usual p ct vt else usual p vt ct in
  convert p t x = x ->
  convert p t c = (if cl then implicit_conv p ct vt c else implicit_conv p vt ct c) ->
  c_compare p vt ct cl o x c = RVal tint (b2z b).
Proof. exact (oor_in_context_sound p vt ct cl o c b). Qed.
Print Assumptions C03_out_of_type_range_sound_in_C_partial.

(* since fix 6eefeb1 a signed operand that is converted to an unsigned type is not judged at all
   (`short x; x < 40000U`, formerly reported always true) *)
Theorem C03_out_of_type_range_signed_to_unsigned_skipped p vt ct cl o c :
  vsign_of vt = VSigned -> t_sign ct = Unsigned ->
  Z.max (int_bit p) (bits_of p (t_base vt)) <= bits_of p (t_base ct) ->
  oor_in_context p vt ct cl o c = None.
Proof. exact (signed_to_unsigned_skipped p vt ct cl o c). Qed.
Print Assumptions C03_out_of_type_range_signed_to_unsigned_skipped.

(* ... the conversion hypothesis is still needed: operands of equal size, different rank and different sign
   (replayed on the real binary: known finding oor-equal-size-different-rank) *)
Theorem C03_out_of_type_range_in_C_refuted :
  exists p vt ct cl o c x b,
    fits p vt x = true /\ fits p ct c = true /\
    oor_in_context p vt ct cl o c = Some b /\
    c_compare p vt ct cl o x c = RVal tint (b2z (negb b)).
Proof. exact oor_in_context_refuted. Qed.
Print Assumptions C03_out_of_type_range_in_C_refuted.

(* comparisonError: the comparison as written, constant on either side (operator mirrored since fix 16eb134),
   has the reported value for every X *)
Theorem C03_mask_compare_sound is_and u1 cl o c1 c2 b :
  mask_compare is_and u1 cl o c1 c2 = Some b ->
  forall x, (is_and = false -> u1 = true -> 0 <= x) ->
  cond_value cl o (bit_value is_and x c1) c2 = b.
Proof. exact (mask_compare_sound is_and u1 cl o c1 c2 b). Qed.
Print Assumptions C03_mask_compare_sound.

(* isOppositeCond, numeric core: "X o1 c1" true => "X o2 c2" false, for every X *)
Theorem C03_opposite_cond_sound o1 c1 o2 c2 :
  opposite_cond false o1 c1 o2 c2 = true ->
  forall x, cmp_eval o1 x c1 = true -> cmp_eval o2 x c2 = false.
Proof. exact (opposite_cond_sound o1 c1 o2 c2). Qed.
Print Assumptions C03_opposite_cond_sound.

Theorem C03_opposite_table_sound is_not o1 o2 :
  opposite_table is_not o1 o2 = true ->
  forall x c, cmp_eval o1 x c = true -> cmp_eval o2 x c = false.
Proof. exact (opposite_table_sound is_not o1 o2). Qed.
Print Assumptions C03_opposite_table_sound.

Theorem C03_opposite_table_not_exact o1 o2 :
  opposite_table true o1 o2 = true ->
  forall x c, cmp_eval o2 x c = negb (cmp_eval o1 x c).
Proof. exact (opposite_table_not_exact o1 o2). Qed.
Print Assumptions C03_opposite_table_not_exact.

(* premises are inhabited *)
Example C03_ex_oor : out_of_type_range 32 8 VSigned true false CEq 200 = Some false.
Proof. reflexivity. Qed.
Example C03_ex_oor_edge : out_of_type_range 32 8 VUnsigned true false CLe 255 = Some true.
Proof. reflexivity. Qed.
Example C03_ex_skip : oor_in_context unix64 (mkT TShort Signed) tuint false CLt 40000 = None.
Proof. reflexivity. Qed.
Example C03_ex_oor_in_C :
  oor_in_context unix64 (mkT TChar Signed) tint false CEq 200 = Some false /\
  convert unix64 (usual unix64 (mkT TChar Signed) tint) (-5) = -5 /\
  convert unix64 (usual unix64 (mkT TChar Signed) tint) 200 = implicit_conv unix64 (mkT TChar Signed) tint 200.
Proof. vm_compute. split; [reflexivity|]. split; reflexivity. Qed.
Example C03_ex_mask : mask_compare true false false CEq 3 4 = Some false /\ mask_compare false true false CGe 7 7 = Some true /\
  mask_compare true false true CGt 3 8 = Some true (* 8 > (x & 3) *).
Proof. split; [reflexivity|split; reflexivity]. Qed.
Example C03_ex_opp : opposite_cond false CLt 5 CGt 10 = true /\ opposite_table true CLt CGe = true.
Proof. split; reflexivity. Qed.

(* the X2 oracle: a truth value that the extracted sweep reports as seen at a condition site was observed at that
   site in a terminating, UB-free execution of the MiniC program (VF/MiniC.v exec) on some input of the swept product *)
From CV Require Import VF.MiniC Verdict.Sweep Verdict.SweepProofs.
Theorem C03_sweep_seen_sound p ptypes doms locals fuel ss site b :
  seen (t_acc (sweep p ptypes doms locals fuel ss)) site b ->
  exists args, In args (product doms) /\ observed p ptypes locals fuel ss args site b.
Proof. exact (sweep_seen_sound p ptypes doms locals fuel ss site b). Qed.
Print Assumptions C03_sweep_seen_sound.
Example C03_ex_sweep :
  seen (t_acc (sweep unix64 [tint] [[0; 5]] [] 100 [SObs 7 (VBin Gt (VVar 0) (VLit tint 3))])) 7 true.
Proof. exists (mkA 7 1 1 [0] [5] 0 1). cbn. split; [left; reflexivity|split; [reflexivity|reflexivity]]. Qed.
