(* C17  A file's findings do not depend on the other files in the run.
   Statements only; every proof is `exact <lemma>`.
   Model: Iso/Defs.v (one CppCheck object reused by SingleExecutor::check; the per-file
   analysis is the abstract record fileA, the suppression list and logger gate are C23's). *)
From CV Require Import Base.Bytes Base.Glob Supp.Defs Supp.Proofs Supp.ListProofs Supp.ExecDefs Supp.Run
     Iso.Defs Iso.Proofs Iso.Gen_Resets Iso.Resets Iso.Witness Iso.Fs Iso.FsProofs.

(* T: the reset points and exits of CppCheck::check / checkInternal extracted from the
   current lib/cppcheck.cpp are, in order, the ones the model was written against *)
Theorem C17_reset_points_as_modelled :
  check_points = modelled_check /\ checkInternal_points = modelled_checkInternal.
Proof. exact reset_points_as_modelled. Qed.
Print Assumptions C17_reset_points_as_modelled.

(* a state in which nothing this file reads was left by other files (`clean`: no stale
   location-macro / remark entry at the places
   its early findings look up, the extra suppressions neither match its findings nor
   collide with its own inline suppressions) gives exactly the findings, recorded
   flags and remarks of a freshly constructed object *)
Theorem C17_check_file_clean pm ug n0 nf0 S f S' o Sa oa :
  clean pm ug n0 S f ->
  check_file pm ug S f = Some (S', o) ->
  check_file pm ug (fresh_state n0 nf0) f = Some (Sa, oa) ->
  o = oa.
Proof. exact (check_file_clean pm ug n0 nf0 S f S' o Sa oa). Qed.
Print Assumptions C17_check_file_clean.

(* INV: after any sequence of files, the state is clean for every file that is
   independent (`indep`, a condition on pairs of files) of each of them *)
Theorem C17_clean_before_every_file pm ug n0 nf0 l1 S os f :
  run_files pm ug (fresh_state n0 nf0) l1 = Some (S, os) ->
  (forall g, In g l1 -> indep pm ug g f) ->
  clean pm ug n0 S f.
Proof. exact (clean_before_every_file pm ug n0 nf0 l1 S os f). Qed.
Print Assumptions C17_clean_before_every_file.

(* the property, for the single executor: in any sequence, at any position, the
   findings of f are those of f analysed alone with the same options *)
Theorem C17_file_isolation pm ug n0 nf0 l1 f l2 Sf os Sa oa :
  run_files pm ug (fresh_state n0 nf0) (l1 ++ f :: l2) = Some (Sf, os) ->
  check_file pm ug (fresh_state n0 nf0) f = Some (Sa, oa) ->
  (forall g, In g l1 -> indep pm ug g f) ->
  nth_error os (length l1) = Some oa.
Proof. exact (file_isolation pm ug n0 nf0 l1 f l2 Sf os Sa oa). Qed.
Print Assumptions C17_file_isolation.

(* which reset the duplicate list needs: R1 empties it at the start of every file (fix 8cb695c),
   so its content - e.g. what a file leaving through an early exit left there - has no influence *)
Theorem C17_duplicate_list_irrelevant pm ug S f X S1 o1 S2 o2 :
  check_file pm ug S f = Some (S1, o1) ->
  check_file pm ug (with_seen S X) f = Some (S2, o2) ->
  o1 = o2.
Proof. exact (duplicate_list_irrelevant pm ug S f X S1 o1 S2 o2). Qed.
Print Assumptions C17_duplicate_list_irrelevant.

(* `in_hide` for ordinary inline suppressions follows from distinct file names *)
Theorem C17_other_file_cannot_hide pm s e g :
  stype_eqb (s_type s) TMacro = false -> is_nil (s_file s) = false ->
  pm (s_file s) (e_file e) = false -> hides pm g e s = false.
Proof. exact (other_file_cannot_hide pm s e g). Qed.
Print Assumptions C17_other_file_cannot_hide.

(* ... but not for macro suppressions: two files with different names, b.c's finding is
   forwarded when b.c is analysed alone and hidden when a.c was analysed before it *)
Theorem C17_macro_suppression_leaks_refuted :
  exists S1 o1 S2 o2 Sa oa,
    check_file pm_plain true (fresh_state [] []) wa = Some (S1, o1)
    /\ check_file pm_plain true S1 wb = Some (S2, o2)
    /\ check_file pm_plain true (fresh_state [] []) wb = Some (Sa, oa)
    /\ map o_fwd oa = [true] /\ map o_fwd o2 = [false]
    /\ (forall w, In w (raws_of wb) -> w_file w = B_C)
    /\ (forall s, In s (inline_of wa) -> s_file s = A_C)
    /\ A_C <> B_C.
Proof. exact macro_suppression_leaks. Qed.
Print Assumptions C17_macro_suppression_leaks_refuted.

(* formerly refuted (known finding duplicate-list-kept-after-cached-file, fixed by 8cb695c): the
   exit for up-to-date analyzer information still leaves a.c's replayed finding in the duplicate
   list, but b.c's identical finding (shared header) is recorded for b.c all the same *)
Theorem C17_cached_return_isolated :
  exists S1 o1 S2 o2 Sa oa,
    check_file pm_plain true (fresh_state [] []) ca = Some (S1, o1)
    /\ check_file pm_plain true S1 cb = Some (S2, o2)
    /\ check_file pm_plain true (fresh_state [] []) cb = Some (Sa, oa)
    /\ l_seen (i_log S1) = [TXT_H]
    /\ map o_rec oa = [true] /\ map o_rec o2 = [true] /\ o2 = oa.
Proof. exact cached_return_isolated. Qed.
Print Assumptions C17_cached_return_isolated.

(* ---- project path: CppCheck::check(const FileSettings&), model Iso/Fs.v ---- *)

(* T: the per-file settings object is a fresh local copy of the run's settings, followed by exactly
   the writes of `apply_onto` (extracted from the current source) *)
Theorem C17_fs_points_as_modelled : fs_points = modelled_fs.
Proof. exact fs_points_as_modelled. Qed.
Print Assumptions C17_fs_points_as_modelled.

(* the settings an entry is analysed with are a function of the base settings and its own entry
   only, for every project and every position *)
Theorem C17_fs_settings_function_of_entry pm ug base analyze fss S S' rs :
  run_project pm ug base analyze S fss = Some (S', rs) ->
  map fst rs = map (apply_onto base) fss.
Proof. exact (fs_settings_function_of_entry pm ug base analyze fss S S' rs). Qed.
Print Assumptions C17_fs_settings_function_of_entry.

(* and its findings are those of the entry analysed alone, provided the suppressions added by the
   other entries do not concern it (own logger per entry: no duplicate list, location macros or
   remarks are inherited) *)
Theorem C17_fs_file_isolated pm ug base analyze n0 nf0 extra S fs S' ts o Sa tsa oa :
  let f := analyze (apply_onto base fs) (fs_file fs) in
  covers extra (l_nomsg (i_log S)) n0 ->
  (forall s e, In s extra -> In e (queries_of f) -> hides pm ug e s = false) ->
  (forall s s', In s extra -> In s' (inline_of f) -> same_params s' s = false) ->
  check_file_fs pm ug base analyze S fs = Some (S', (ts, o)) ->
  check_file_fs pm ug base analyze (fresh_state n0 nf0) fs = Some (Sa, (tsa, oa)) ->
  ts = tsa /\ o = oa.
Proof. exact (fs_file_isolated pm ug base analyze n0 nf0 extra S fs S' ts o Sa tsa oa). Qed.
Print Assumptions C17_fs_file_isolated.

(* why the copy has to be fresh: one reused settings object hands -std (and the platform) of an
   entry on to the next entry that names none *)
Theorem C17_fs_reuse_would_leak :
  nth 1 (reuse_settings ex_base [ex_a; ex_b]) ex_base <> apply_onto ex_base ex_b
  /\ ps_stdcpp (nth 1 (reuse_settings ex_base [ex_a; ex_b]) ex_base) = CPP03
  /\ ps_stdcpp (apply_onto ex_base ex_b) = [].
Proof. exact reuse_would_leak. Qed.
Print Assumptions C17_fs_reuse_would_leak.

(* the premises are inhabited: a file with a remark, an inline suppression, a location
   macro and a finding is independent of ... and precedes wb without changing its findings *)
Example C17_indep_inhabited : indep pm_plain true ga wb.
Proof.
  constructor.
  - intros w m [].
  - intros w [].
  - intros s e [<-|[]] [<-|[]]. vm_compute. reflexivity.
  - intros s s' _ [].
Qed.

Example C17_isolation_applies :
  exists Sf os Sa oa,
    run_files pm_plain true (fresh_state [] []) ([ga] ++ wb :: []) = Some (Sf, os)
    /\ check_file pm_plain true (fresh_state [] []) wb = Some (Sa, oa)
    /\ nth_error os 1 = Some oa /\ map o_fwd oa = [true].
Proof. vm_compute. do 4 eexists. repeat split; reflexivity. Qed.
