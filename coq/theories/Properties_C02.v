(* C02  Container-size facts hold in every UB-free execution (partial: the library's
   action table, the analyzer's size step and the SIZE/EMPTY yield mapping). *)
From CV Require Import Base.Bytes Cont.Gen_StdCfg Cont.Defs Cont.Proofs Cont.Overloads Cont.OvProofs.
Local Open Scope Z_scope.
Definition ex_tbl := match load std_raw with Some t => t | None => [] end.

(* For every container of the regenerated table (any table, in fact), every member name, every
   standard container kind its startPattern stands for, every number of arguments, every length of
   an appended argument: unless the case is listed by the computed `unsound_cases`, the value the
   analyzer writes after `c.m(args)` describes the size after the call whenever the value before
   described the size before - for every size n >= 0, every value (Known / Impossible with any
   bound), in every execution the reference semantics allows. *)
Theorem C02_size_effect_sound :
  forall tbl id c m k nargs var L,
    In (id, c) tbl -> In k (kinds_of_start (c_start c)) ->
    ~ In (mkCase id m k (clamp4 nargs) var) (unsound_cases tbl) ->
    sound_step L (analyzer_step (get_action c m) (get_yield c m) nargs var L) (std_effect k m nargs).
Proof. exact size_effect_sound. Qed.
Print Assumptions C02_size_effect_sound.

(* The overload dimension made explicit: for basic_string / vector / deque / list every overload the standard defines
   for append, assign, insert, erase, replace, resize, push/pop, clear - (count, ch), (ptr), (ptr, count), (str), (str, pos),
   (str, pos, len), iterator ranges, initializer lists, index / iterator positions - with ANY numeric arguments (counts,
   positions, lengths, size of the source), any size n and any value: unless the shape is listed by unsound_ov_cases,
   the analyzer's step is sound. L is the length the analyzer obtained for a single argument (0 = unknown), Ls the real one.
   E.g. append(str, pos) adds size(str) - pos (Example append_str_pos), and the model's step for it is "lower to Possible". *)
Theorem C02_size_effect_sound_overloads :
  forall tbl id c m k o var L Ls,
    In (id, c) tbl -> In k (kinds_of_start (c_start c)) ->
    ~ In (mkOCase id m k (lshape_of (o_lead o)) (sshape_of (o_src o)) var) (unsound_ov_cases tbl) ->
    (L = 0 \/ L = Ls) ->
    sound_step Ls (analyzer_step (get_action c m) (get_yield c m) (arity o) var L) (std_eff_ov k m o).
Proof. exact size_effect_sound_ov. Qed.
Print Assumptions C02_size_effect_sound_overloads.

(* the premise is inhabited: 100+ overload shapes exist on the regenerated table (the check reads unsound_ov_cases from the model) *)
Example C02_ex_overloads : (100 <= length (existing_ov_cases ex_tbl))%nat.
Proof. apply Nat.leb_le; vm_compute; reflexivity. Qed.

(* ... and every listed case is a genuine counterexample in the model: a size, a correct value and
   an allowed execution after which the written value is wrong. *)
Theorem C02_unsound_case_refuted :
  forall tbl rc, In rc (unsound_cases tbl) ->
    exists c, In (rc_cont rc, c) tbl /\ refuted_step (case_step c rc) (case_eff rc).
Proof. intros tbl rc H. apply unsound_case_refuted; auto. apply std_effect_wf. Qed.
Print Assumptions C02_unsound_case_refuted.

(* straight-line sequences of member calls on one container, any length *)
Theorem C02_call_sequence_sound :
  forall c k cs, forallb (call_okb c k) cs = true ->
  forall n n' v v', 0 <= n -> exec k cs n n' -> holds n v -> analyze c cs (Some v) = Some v' -> holds n' v'.
Proof. exact call_sequence_sound. Qed.
Print Assumptions C02_call_sequence_sound.

(* c.empty() from the container-size value of c *)
Theorem C02_empty_of_size_sound :
  forall n v, 0 <= n -> wf_val v = true -> holds n v -> holds (b2z (n =? 0)) (empty_of_size v).
Proof. exact empty_of_size_sound. Qed.
Print Assumptions C02_empty_of_size_sound.

Theorem C02_size_of_size_sound : forall n v, holds n v -> holds n (size_of_size v).
Proof. exact size_of_size_sound. Qed.
Print Assumptions C02_size_of_size_sound.

(* premises are inhabited *)
Example C02_ex_table_loads : exists t, load std_raw = Some t /\ (10 <= length t)%nat.
Proof. exists ex_tbl. vm_compute. split; [reflexivity|]. repeat constructor. Qed.
Example C02_ex_covered : (100 <= length (covered_cases ex_tbl))%nat.
Proof. apply Nat.leb_le. vm_compute. reflexivity. Qed.
Definition s_push_back : str := [112;117;115;104;95;98;97;99;107]%N.
Definition s_pop_back : str := [112;111;112;95;98;97;99;107]%N.
Example C02_ex_sound_step_inhabited :
  eff_allows 0 (std_effect KVector s_push_back 1) 3 4
  /\ holds 3 (mkV Impossible Upper 2) /\ wf_val (mkV Impossible Upper 2) = true.
Proof. vm_compute. repeat split; congruence. Qed.
Example C02_ex_exec : exec KVector [mkCall s_push_back 1 false 0; mkCall s_pop_back 0 false 0] 0 0.
Proof.
  apply ex_cons with (n1 := 1); [vm_compute; repeat split; congruence|lia|].
  apply ex_cons with (n1 := 0); [vm_compute; repeat split; congruence|lia|]. constructor.
Qed.
