(* C11  Preprocessing matches a conforming preprocessor (partial: conditional skeleton and #if evaluator).
   Statements only; every proof is `exact <lemma>`. *)
From CV Require Import Base.Bytes PP.Cond PP.CondProofs PP.Eval PP.EvalProofs.

(* (i) conditional inclusion. `keep` is the tree semantics of C 6.10.1 (a line is kept iff every enclosing
   group is the first group of its chain whose condition is true; conditions are evaluated only where the
   standard evaluates them), `cond_file` the ifstates machine of simplecpp::preprocess on the flattened file. *)
Theorem C11_cond_file_sound G ev f l :
  cond_file G ev (flatten G f) = Ok l -> keep G ev f = Some l.
Proof. exact (cond_file_sound G ev f l). Qed.
Print Assumptions C11_cond_file_sound.

Theorem C11_cond_emit_iff G ev f :
  (forall g, In g (conds G f) -> ev g <> None) ->
  forall l, cond_file G ev (flatten G f) = Ok l <-> keep G ev f = Some l.
Proof. exact (cond_emit_iff G ev f). Qed.
Print Assumptions C11_cond_emit_iff.

(* the hypothesis of cond_emit_iff cannot be dropped: a valid file on which simplecpp stops, because the
   #elif after a taken group is evaluated (`#if 1 / L7 / #elif <division by zero> / L8 / #endif / L9`) *)
Theorem C11_cond_elif_eval_refuted :
  keep N ev_witness f_witness = Some [7%N; 9%N] /\
  cond_file N ev_witness (flatten N f_witness) = ErrEval.
Proof. exact cond_elif_eval_refuted. Qed.
Print Assumptions C11_cond_elif_eval_refuted.

(* ill-nested input: a stray #else/#elif/#endif after any well-nested prefix is an error ... *)
Theorem C11_cond_stray_err G ev f d rest :
  (forall g, In g (conds G f) -> ev g <> None) ->
  (d = DElse \/ d = DEndif \/ exists g, d = DElif g) ->
  cond_file G ev (flatten G f ++ d :: rest) = ErrNesting.
Proof. exact (cond_stray_err G ev f d rest). Qed.
Print Assumptions C11_cond_stray_err.

(* ... but an unterminated group is accepted silently (not the flattening of any tree, still Ok) *)
Theorem C11_cond_unterminated_accepted G ev g c :
  ev g = Some c ->
  (forall f, flatten G f <> [DIf g]) /\ cond_file G ev [DIf g] = Ok [].
Proof. exact (cond_unterminated_accepted G ev g c). Qed.
Print Assumptions C11_cond_unterminated_accepted.

(* (ii) the #if evaluator: `ppeval` = simplecpp's constFold passes on the token list, `ceval` = C 6.6 in
   intmax_t/uintmax_t on the syntax tree, `print` = the tree's tokens with the parentheses the grammar needs. *)
Theorem C11_ppeval_spec_refuted :
  exists e z, ceval e = CVal z false /\ z <> 0%Z /\ ppeval (print 0 e) = Val 0%Z.
Proof. exact ppeval_spec_refuted. Qed.
Print Assumptions C11_ppeval_spec_refuted.

Theorem C11_ppeval_deviations :
  deviates (EUn ONot (EUn ONot (L 1))) (CVal 1 false) (Val 0%Z) /\                         (* !!1 *)
  deviates (EUn OMinus (EUn OMinus (L 1))) (CVal 1 false) (Val 0%Z) /\                     (* - - 1 *)
  deviates (EUn OCompl (EUn OCompl (L 1))) (CVal 1 false) (Val 0%Z) /\                     (* ~~1 *)
  deviates (EBin OLOr (L 1) (EBin OLAnd (L 0) (L 0))) (CVal 1 false) (Val 0%Z) /\          (* 1 || 0 && 0 *)
  deviates (EBin ONe (L 0) (EBin OGt (L 2) (L 1))) (CVal 1 false) (Val 0%Z) /\             (* 0 != 2 > 1 *)
  deviates (ECond (L 1) (L 2) (ECond (L 0) (L 0) (L 0))) (CVal 2 false) (Val 0%Z) /\       (* 1 ? 2 : 0 ? 0 : 0 *)
  deviates (EBin OLt (EBin OMinus (L 0) (L 1)) (U 0)) (CVal 0 false) (Val 1%Z) /\          (* 0 - 1 < 0u *)
  deviates (EUn ONot (U 0)) (CVal 1 false) (Val 0%Z) /\                                   (* !0u *)
  deviates (EBin OLAnd (L 0) (EBin ODiv (L 1) (L 0))) (CVal 0 false) Exc.                  (* 0 && 1/0 *)
Proof.
  exact (conj dev_not_not (conj dev_neg_neg (conj dev_compl_compl (conj dev_lor_land (conj dev_ne_gt
        (conj dev_cond_nested (conj dev_unsigned_lt (conj dev_not_0u dev_unevaluated_div)))))))).
Qed.
Print Assumptions C11_ppeval_deviations.

(* what does agree: one binary operator on two non-negative plain literals, all operators, all values *)
Theorem C11_ppeval_single_binop_partial o a b :
  is_binop o = true -> (0 <= a)%Z -> (0 <= b)%Z ->
  match cbin o (a, false) (b, false) with
  | CVal r _ => ppeval [TNum a true; TOp o; TNum b true] = Val r
  | CDiv0 => ppeval [TNum a true; TOp o; TNum b true] = Exc
  | CUndef => ppeval [TNum a true; TOp o; TNum b true] = Range
  end.
Proof. exact (ppeval_single_binop o a b). Qed.
Print Assumptions C11_ppeval_single_binop_partial.

Example C11_total_ev_example : forall g, In g (conds N f_witness) -> (fun _ : N => Some true) g <> None.
Proof. intros; discriminate. Qed.
Example C11_binop_example : is_binop OMul = true /\ (0 <= 3)%Z.
Proof. split; [reflexivity|discriminate]. Qed.

(* (iii) macro expansion, #/##-free closed fragment (PP/Macro.v): every expansion terminates, with an explicit
   linear fuel bound: size of the sequence + (macros not yet in the hide set) * (1 + largest body). *)
From CV Require Import PP.Macro PP.MacroProofs.
Theorem C11_expand_terminates tb hs env t fuel :
  (enough tb hs (tsize t) < fuel)%nat -> exists o, exp tb fuel hs env t = Some o.
Proof. exact (expand_terminates tb hs env t fuel). Qed.
Print Assumptions C11_expand_terminates.

(* on a closed sequence over a NON-RECURSIVE table (a rank function decreases along "body of m mentions k") the
   model's result is the call-by-name result `CBN` (substitute the unexpanded arguments, rescan, no hide sets):
   pre-expanding the arguments, not rescanning them and the hide set make no difference there.
   partial: recursive tables are outside (there simplecpp and gcc differ, see the mx stream); #, ## excluded. *)
Theorem C11_expand_eq_call_by_name_partial tb rank fuel bound t o :
  nonrec tb rank -> okt tb rank bound t -> exp tb fuel [] [] t = Some o -> CBN tb (subst ANil t) o.
Proof. intros NR. exact (expand_eq_call_by_name tb rank NR fuel bound t o). Qed.
Print Assumptions C11_expand_eq_call_by_name_partial.

Theorem C11_expand_total_call_by_name_partial tb rank bound t :
  nonrec tb rank -> okt tb rank bound t ->
  exists o, exp tb (S (enough tb [] (tsize t))) [] [] t = Some o /\ CBN tb (subst ANil t) o.
Proof. intros NR. exact (expand_total_call_by_name tb rank NR bound t). Qed.
Print Assumptions C11_expand_total_call_by_name_partial.

(* for a sequence of the file (no parameter references) `subst ANil t` is t itself *)
Theorem C11_expand_total_cbn_file_partial tb rank bound t :
  nonrec tb rank -> okt tb rank bound t -> pfree t ->
  exists o, exp tb (S (enough tb [] (tsize t))) [] [] t = Some o /\ CBN tb t o.
Proof. exact (expand_total_cbn_file tb rank bound t). Qed.
Print Assumptions C11_expand_total_cbn_file_partial.

Example C11_expand_premises : nonrec tb_ex rank_ex /\ okt tb_ex rank_ex 2 use_ex.
Proof. exact (conj nonrec_ex okt_ex). Qed.

(* stringizing (6.10.3.2p2) *)
From CV Require Import PP.Stringize PP.StringizeProofs.
(* the standard's # yields a well-formed string literal that denotes the spelling of the argument *)
Theorem C11_stringize_c_denotes ts : plain_ok ts -> unquote (stringize_c ts) = Some (spelling true ts).
Proof. exact (stringize_c_denotes ts). Qed.
Print Assumptions C11_stringize_c_denotes.
(* simplecpp's expandHash/escapeString (escape \ dquote and apostrophe in the whole text) also always yields a
   well-formed literal denoting the text it assembled ... *)
Theorem C11_stringize_s_denotes text : unquote (stringize_s text) = Some text.
Proof. exact (stringize_s_denotes text). Qed.
Print Assumptions C11_stringize_s_denotes.
Theorem C11_stringize_same_denotation ts :
  plain_ok ts -> unquote (stringize_s (spelling true ts)) = unquote (stringize_c ts).
Proof. exact (stringize_same_denotation ts). Qed.
Print Assumptions C11_stringize_same_denotation.
(* ... but not the standard's spelling *)
Theorem C11_stringize_spelling_refuted : stringize_s [39; 97; 39]%N <> stringize_c [(false, [39; 97; 39]%N)].
Proof. exact stringize_spelling_differs. Qed.
Print Assumptions C11_stringize_spelling_refuted.
Example C11_plain_ok_example : plain_ok [(false, [76; 34; 97; 34]%N); (true, [120]%N)].
Proof. intros ws t [H|[H|[]]] L; inversion H; subst; [discriminate L|split; reflexivity]. Qed.
