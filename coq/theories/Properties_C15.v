(* C15  Parallel execution reports exactly what a single job reports.
   Statements only; every proof is `exact <lemma>`.
   Part 1: the process executor's message codec (ErrorMessage::serialize/deserialize).
   Part 2: the shared filter Executor::hasToLog under every arrival order. *)
From CV Require Import Base.Bytes Base.Glob Supp.Defs Par.Gen_Severity Par.Defs Par.DecProofs
                       Par.CodecProofs Par.MergeProofs.
From CV Require Import Par.SupprWire Par.SupprWireProofs.
From CV Require Supp.ListProofs Supp.ExecDefs Supp.ExecProofs Supp.ThreadProofs Par.EqSingle Par.EqProcess Par.EqWitness Par.EqSchedule Par.EqMultiset.
Require Import Permutation.

(* the receiving side holds the sender's message with fixInvalidChars applied to
   remark/short/verbose, for every message without a tab in a frame file name
   whose numbers fit their C++ types (wire_ok); simp = Path::simplifyPath *)
Theorem C15_deserialize_serialize simp m :
  wire_ok simp m = true -> deserialize simp (serialize m) = Ok (normalise m).
Proof. exact (deserialize_serialize simp m). Qed.
Print Assumptions C15_deserialize_serialize.

(* ... hence exactly the sender's message when those three strings are printable *)
Theorem C15_roundtrip_exact simp m :
  wire_ok simp m = true -> printable_msg m = true -> deserialize simp (serialize m) = Ok m.
Proof. exact (roundtrip_exact simp m). Qed.
Print Assumptions C15_roundtrip_exact.

Theorem C15_serialize_injective simp m1 m2 :
  wire_ok simp m1 = true -> wire_ok simp m2 = true -> printable_msg m1 = true -> printable_msg m2 = true ->
  serialize m1 = serialize m2 -> m1 = m2.
Proof. exact (serialize_injective simp m1 m2). Qed.
Print Assumptions C15_serialize_injective.

Theorem C15_serialize_injective_mod_fix_partial simp m1 m2 :
  wire_ok simp m1 = true -> wire_ok simp m2 = true ->
  serialize m1 = serialize m2 -> normalise m1 = normalise m2.
Proof. exact (serialize_injective_mod_fix simp m1 m2). Qed.
Print Assumptions C15_serialize_injective_mod_fix_partial.

(* both hypotheses are necessary: the faithful model changes the message *)
Theorem C15_roundtrip_nonprintable_refuted :
  exists m, wire_ok idf m = true /\ exists m', deserialize idf (serialize m) = Ok m' /\ m' <> m
            /\ m_short m' = [99;97;102;92;51;48;51;92;50;53;49]%N.
Proof. exact roundtrip_nonprintable_refuted. Qed.
Print Assumptions C15_roundtrip_nonprintable_refuted.

Theorem C15_roundtrip_tab_in_filename_refuted :
  exists m, printable_msg m = true /\ exists m', deserialize idf (serialize m) = Ok m' /\ m' <> m
            /\ map l_file (m_stack m') = [[97]]%N /\ map l_orig (m_stack m') = [[98;46;99]]%N.
Proof. exact roundtrip_tab_in_filename_refuted. Qed.
Print Assumptions C15_roundtrip_tab_in_filename_refuted.

Theorem C15_serialize_injective_refuted :
  exists m1 m2, wire_ok idf m1 = true /\ wire_ok idf m2 = true /\ m1 <> m2 /\ serialize m1 = serialize m2.
Proof. exact serialize_injective_refuted. Qed.
Print Assumptions C15_serialize_injective_refuted.

(* regenerated severity tables: severityFromString inverts severityToString on the enum *)
Theorem C15_severity_roundtrip s : (s < sev_count)%N -> sev_from_string (sev_to_string s) = s.
Proof. exact (sev_roundtrip s). Qed.
Print Assumptions C15_severity_roundtrip.

(* every two interleavings of the same worker streams: the same multiset of
   observations is forwarded, the shared suppression list ends in the same state *)
Theorem C15_merge_order_independent pm ed (Obs : Type) (obs : pmsg -> Obs) :
  (forall a b, p_internal a = false -> p_internal b = false -> p_text a = p_text b -> obs a = obs b) ->
  forall (streams : list (list pmsg)) r1 r2 st s1 out1,
    interleave streams r1 -> interleave streams r2 ->
    log_run pm ed st r1 = Some (s1, out1) ->
    exists s2 out2, log_run pm ed st r2 = Some (s2, out2)
                    /\ h_nomsg s1 = h_nomsg s2
                    /\ (forall t, mem_str t (h_seen s1) = mem_str t (h_seen s2))
                    /\ Permutation (map obs out1) (map obs out2).
Proof. intros H. exact (merge_order_independent pm ed Obs obs H). Qed.
Print Assumptions C15_merge_order_independent.

(* text output: the observation is the rendered text itself, no side condition *)
Theorem C15_merge_texts pm ed (streams : list (list pmsg)) r1 r2 st s1 out1 :
  interleave streams r1 -> interleave streams r2 ->
  log_run pm ed st r1 = Some (s1, out1) ->
  exists s2 out2, log_run pm ed st r2 = Some (s2, out2) /\ h_nomsg s1 = h_nomsg s2
                  /\ Permutation (map (fun m => (p_internal m, p_text m)) (filter (fun m => negb (p_internal m)) out1))
                                 (map (fun m => (p_internal m, p_text m)) (filter (fun m => negb (p_internal m)) out2)).
Proof. exact (merge_texts pm ed streams r1 r2 st s1 out1). Qed.
Print Assumptions C15_merge_texts.

(* streams of full messages: the duplicate key is the whole rendered text - head line of the
   last frame plus one note line per frame (location template) - as hasToLog builds it *)
Theorem C15_merge_msgs_texts pm ed vb (streams : list (list msg)) r1 r2 st s1 out1 :
  interleave streams r1 -> interleave streams r2 ->
  log_run pm ed st (map (pmsg_of_msg vb) r1) = Some (s1, out1) ->
  exists s2 out2, log_run pm ed st (map (pmsg_of_msg vb) r2) = Some (s2, out2) /\ h_nomsg s1 = h_nomsg s2
                  /\ Permutation (map (fun m => (p_internal m, p_text m)) (filter (fun m => negb (p_internal m)) out1))
                                 (map (fun m => (p_internal m, p_text m)) (filter (fun m => negb (p_internal m)) out2)).
Proof. exact (merge_msgs_texts pm ed vb streams r1 r2 st s1 out1). Qed.
Print Assumptions C15_merge_msgs_texts.

(* non-vacuity: same id, message and primary location, different note trails -> both forwarded *)
Example C15_trails_both_forwarded :
  exists s o, log_run (fun a b => str_eqb a b) false (mkH [] []) (map (pmsg_of_msg false) [trail_a; trail_b]) = Some (s, o)
              /\ length o = 2%nat
              /\ firstn 10 (render false trail_a) = firstn 10 (render false trail_b)
              /\ render false trail_a <> render false trail_b.
Proof. exact trails_both_forwarded. Qed.

Theorem C15_merge2_order_independent pm ed (Obs : Type) (obs : pmsg -> Obs) :
  (forall a b, p_internal a = false -> p_internal b = false -> p_text a = p_text b -> obs a = obs b) ->
  forall (l1 l2 r1 r2 : list pmsg) st s1 out1,
    merge2 l1 l2 r1 -> merge2 l1 l2 r2 ->
    log_run pm ed st r1 = Some (s1, out1) ->
    exists s2 out2, log_run pm ed st r2 = Some (s2, out2)
                    /\ h_nomsg s1 = h_nomsg s2 /\ Permutation (map obs out1) (map obs out2).
Proof. intros H. exact (merge2_order_independent pm ed Obs obs H). Qed.
Print Assumptions C15_merge2_order_independent.

(* an observation finer than the rendered text does depend on the arrival order *)
Theorem C15_merge_full_message_refuted :
  exists l1 l2 r1 r2 o1 o2 s1 s2,
    merge2 l1 l2 r1 /\ merge2 l1 l2 r2 /\
    log_run pm_eq false (mkH [] []) r1 = Some (s1, o1) /\
    log_run pm_eq false (mkH [] []) r2 = Some (s2, o2) /\ o1 <> o2 /\ length o1 = 1%nat /\ length o2 = 1%nat.
Proof. exact merge_full_message_refuted. Qed.
Print Assumptions C15_merge_full_message_refuted.

(* the children's suppression states can be merged in any completion order *)
Theorem C15_update_state_order_independent us us' :
  Permutation us us' -> forall l, fold_left update_state us l = fold_left update_state us' l.
Proof. exact (update_state_order_independent us us'). Qed.
Print Assumptions C15_update_state_order_independent.

(* the suppression-state records worker -> parent (REPORT_SUPPR / REPORT_SUPPR_INLINE):
   toString();column;checked;matched;comment read back by splitString / parseLine *)
Theorem C15_suppr_wire_roundtrip simp w : ws_ok simp w = true -> suppr_of_wire simp (suppr_to_wire w) = Ok w.
Proof. exact (suppr_wire_roundtrip simp w). Qed.
Print Assumptions C15_suppr_wire_roundtrip.

(* the record does not carry hash / thisAndNextLine (nor type, block range, macro name): two
   entries that the list keeps apart have the same record *)
Theorem C15_suppr_wire_loses_fields_refuted :
  exists a b, suppr_to_wire (ws_of_supp a) = suppr_to_wire (ws_of_supp b)
              /\ Par.Defs.same_params a b = false /\ ws_ok (fun x => x) (ws_of_supp a) = true.
Proof. exact suppr_wire_loses_fields_refuted. Qed.
Print Assumptions C15_suppr_wire_loses_fields_refuted.

(* ws_ok's colon/dot condition is necessary: file "dir:1" without a line comes back as file "dir", line 1 *)
Theorem C15_suppr_wire_colon_refuted :
  exists w w', ws_ok (fun x => x) w = false /\ suppr_of_wire (fun x => x) (suppr_to_wire w) = Ok w' /\ w' <> w
               /\ ws_file w' = [100;105;114]%N /\ ws_line w' = 1%Z.
Proof. exact suppr_wire_colon_refuted. Qed.
Print Assumptions C15_suppr_wire_colon_refuted.

Example C15_ws_ok_inhabited :
  ws_ok (fun x => x) (mkWS [120] [97;46;99] 3 [102] true 7 true false [97;59;98])%N = true.
Proof. exact ws_ok_inhabited. Qed.

(* ------------------------------------------------------------------ *)
(* parallel_eq_single, on C24's whole-run model (Supp/ExecDefs.v whole_run: per-file
   logger, hasToLog, state transfer, whole-program findings through the main logger,
   unmatched-suppression reports, final status) *)
Module EQ.
Import Supp.ListProofs Supp.ExecDefs Supp.ExecProofs Supp.ThreadProofs Par.EqSingle Par.EqProcess Par.EqWitness Par.EqSchedule Par.EqMultiset.

(* the same set of texts reaches the output (StdLogger prints each text once), thread and process *)
Theorem C15_parallel_reported_eq_single pm k cfg n f fs wp o1 o2 :
  whole_run pm None cfg n f fs wp = Some o1 -> whole_run pm (Some k) cfg n f fs wp = Some o2 ->
  Forall (inline_present n) fs -> Forall macro_local n ->
  forall t, In t (map snd (o_reported o1)) <-> In t (map snd (o_reported o2)).
Proof. exact (parallel_reported_eq_single pm k cfg n f fs wp o1 o2). Qed.
Print Assumptions C15_parallel_reported_eq_single.

(* ... hence the same multiset of printed findings (StdLogger prints each rendered text once) *)
Theorem C15_parallel_printed_eq_single pm k cfg n f fs wp o1 o2 :
  whole_run pm None cfg n f fs wp = Some o1 -> whole_run pm (Some k) cfg n f fs wp = Some o2 ->
  Forall (inline_present n) fs -> Forall macro_local n ->
  Permutation (printed o1) (printed o2).
Proof. intros H1 H2 Hi Hm. exact (printed_perm o1 o2 (parallel_reported_eq_single pm k cfg n f fs wp o1 o2 H1 H2 Hi Hm)). Qed.
Print Assumptions C15_parallel_printed_eq_single.

Theorem C15_parallel_status_eq_single pm k cfg n f fs wp o1 o2 :
  whole_run pm None cfg n f fs wp = Some o1 -> whole_run pm (Some k) cfg n f fs wp = Some o2 ->
  Forall (inline_present n) fs -> o_unmatched o2 = o_unmatched o1 -> o_status o2 = o_status o1.
Proof. exact (parallel_status_eq_single pm k cfg n f fs wp o1 o2). Qed.
Print Assumptions C15_parallel_status_eq_single.

(* all three observables, under: pairwise different suppressions, inline suppressions known
   to the list, every finding has a rendered text (texts_nonempty; the stronger texts_ok was
   needed before fix 243c78e), macro suppressions are file-local *)
Theorem C15_parallel_eq_single_thread pm cfg n f fs wp o1 o2 :
  whole_run pm None cfg n f fs wp = Some o1 -> whole_run pm (Some EThread) cfg n f fs wp = Some o2 ->
  uniq n = true -> Forall (inline_present n) fs ->
  Forall (fun x => texts_nonempty (f_msgs x)) fs -> Forall macro_local n ->
  (forall t, In t (map snd (o_reported o1)) <-> In t (map snd (o_reported o2)))
  /\ o_unmatched o2 = o_unmatched o1 /\ o_status o2 = o_status o1 /\ o_nomsg o2 = o_nomsg o1.
Proof. exact (thread_eq_single pm cfg n f fs wp o1 o2). Qed.
Print Assumptions C15_parallel_eq_single_thread.

Theorem C15_parallel_eq_single_process pm cfg n f fs wp o1 o2 :
  whole_run pm None cfg n f fs wp = Some o1 -> whole_run pm (Some EProcess) cfg n f fs wp = Some o2 ->
  uniq n = true -> Forall (inline_present n) fs ->
  Forall (fun x => texts_nonempty (f_msgs x)) fs -> Forall macro_local n ->
  (forall t, In t (map snd (o_reported o1)) <-> In t (map snd (o_reported o2)))
  /\ o_unmatched o2 = o_unmatched o1 /\ o_status o2 = o_status o1 /\ o_nomsg o2 = o_nomsg o1.
Proof. exact (process_eq_single pm cfg n f fs wp o1 o2). Qed.
Print Assumptions C15_parallel_eq_single_process.

(* every schedule: whatever interleaving of the workers' forwarded streams reaches the parent's
   filter (Par.Defs.log_run = Executor::hasToLog over an arrival order), the texts it lets through
   are exactly those the single executor reports for the files *)
Theorem C15_any_schedule_reported_eq_single pm n fs r s out :
  Par.MergeProofs.interleave (worker_streams pm n fs) r ->
  Par.Defs.log_run pm false (Par.Defs.mkH n []) r = Some (s, out) ->
  Forall macro_local n ->
  forall t, In t (map Par.Defs.p_text out) <->
            In t (map snd (flat_map (fun x => pick (spec_forward pm true n [] (f_msgs x)) (f_msgs x)) fs)).
Proof. exact (any_schedule_reported_eq_single pm n fs r s out). Qed.
Print Assumptions C15_any_schedule_reported_eq_single.

(* the former counterexample (two findings of one file with the same rendered text, a global
   suppression of the second; fixed in /repo by 243c78e): the three executors agree *)
Theorem C15_former_texts_witness_agrees :
  exists o1 o2 o3,
    whole_run pm_eq None wq_cfg [wq_supp] [] [wq_file] [] = Some o1
    /\ whole_run pm_eq (Some EThread) wq_cfg [wq_supp] [] [wq_file] [] = Some o2
    /\ whole_run pm_eq (Some EProcess) wq_cfg [wq_supp] [] [wq_file] [] = Some o3
    /\ o_unmatched o1 = [] /\ o_unmatched o2 = [] /\ o_unmatched o3 = []
    /\ map snd (o_reported o1) = map snd (o_reported o2) /\ map snd (o_reported o1) = map snd (o_reported o3)
    /\ o_status o1 = o_status o2 /\ o_status o1 = o_status o3.
Proof. exact former_texts_witness_agrees. Qed.
Print Assumptions C15_former_texts_witness_agrees.

(* the remaining hypothesis on texts (every finding has a rendered text) is necessary in the model;
   not producible on the binary: the output templates are never empty *)
Theorem C15_texts_nonempty_necessary_refuted :
  exists o1 o2,
    whole_run pm_eq None wq_cfg [wq_supp] [] [we_file] [] = Some o1
    /\ whole_run pm_eq (Some EProcess) wq_cfg [wq_supp] [] [we_file] [] = Some o2
    /\ o_unmatched o1 = [] /\ length (o_unmatched o2) = 1%nat.
Proof. exact texts_nonempty_necessary_refuted. Qed.
Print Assumptions C15_texts_nonempty_necessary_refuted.

(* macro_local is necessary for the reported findings (model only: the front ends cannot
   produce a macro suppression without a file) *)
Theorem C15_macro_local_necessary_refuted :
  exists o1 o2,
    whole_run pm_eq None wq_cfg [wm_supp] [] [wm_file] [] = Some o1
    /\ whole_run pm_eq (Some EProcess) wq_cfg [wm_supp] [] [wm_file] [] = Some o2
    /\ o_reported o1 = [] /\ map snd (o_reported o2) = [T_SAME].
Proof. exact macro_local_necessary_refuted. Qed.
Print Assumptions C15_macro_local_necessary_refuted.

Example C15_eq_single_premises_inhabited :
  (exists o1 o2 o3, whole_run pm_eq None wq_cfg [wq_supp] [] [wi_file] [] = Some o1
                    /\ whole_run pm_eq (Some EThread) wq_cfg [wq_supp] [] [wi_file] [] = Some o2
                    /\ whole_run pm_eq (Some EProcess) wq_cfg [wq_supp] [] [wi_file] [] = Some o3)
  /\ uniq [wq_supp] = true /\ Forall (inline_present [wq_supp]) [wi_file]
  /\ Forall (fun x => texts_nonempty (f_msgs x)) [wi_file] /\ Forall macro_local [wq_supp].
Proof. exact eq_single_premises_inhabited. Qed.
End EQ.

(* premises are inhabited *)
Example C15_wire_ok_inhabited : wire_ok idf m_base = true /\ printable_msg m_base = true.
Proof. exact wire_ok_inhabited. Qed.

Example C15_interleave_inhabited :
  interleave [[dup_a]; [dup_b]] [dup_b; dup_a] /\
  exists s o, log_run pm_eq false (mkH [] []) [dup_b; dup_a] = Some (s, o).
Proof.
  split.
  - apply (il_cons [[dup_a]] dup_b [] [] [dup_a]). apply (il_cons [] dup_a [] [[]] []).
    constructor. repeat constructor.
  - do 2 eexists. vm_compute. reflexivity.
Qed.
