(* C12  Configuration selection honours -D/-U and covers guarded code.
   Statements only; every proof is `exact <lemma>`. *)
From CV Require Import Base.Bytes PP.Cond PP.CondProofs Cfg.Defs Cfg.Proofs Cfg.Fixed Cfg.FixedProofs.

(* The coverage promise is FALSE for the property's family (nested #ifdef/#else on
   distinct macros, 3 macros, default --max-configs): line 3 of
     #ifdef X / #ifdef A / #else / #endif / #ifdef B / <3> / #endif / #endif
   is reachable (X and B defined) but kept under none of the analysed configurations
   "", "A=A;X=X", "B=B", "X=X". Replayed on the real binary by tools/props/c12.py. *)
Theorem C12_configs_cover_refuted :
  in_family refute1 /\ NoDup (macros refute1) /\ In 3%N (ids guard refute1) /\
  (length (get_configs [] [] (flatten guard refute1)) <= 12)%nat /\
  In 3%N (keepS [mX; mB] refute1) /\
  ~ In 3%N (covered_ids false None [] [] (flatten guard refute1)) /\
  map render_cfg (get_configs [] [] (flatten guard refute1)) =
    [[]; [65;61;65;59;88;61;88]; [66;61;66]; [88;61;88]]%N.
Proof. exact configs_cover_refuted. Qed.
Print Assumptions C12_configs_cover_refuted.

(* second, independent cause: `#if !defined(A)` puts "A" on configs_if, so nested guards
   are only explored with A defined:  #if !defined(A) / #ifdef C / <3> / #endif / #endif *)
Theorem C12_configs_cover_refuted_notdefined :
  in_family refute2 /\ NoDup (macros refute2) /\ In 3%N (ids guard refute2) /\
  In 3%N (keepS [mC] refute2) /\
  ~ In 3%N (covered_ids false None [] [] (flatten guard refute2)) /\
  map render_cfg (get_configs [] [] (flatten guard refute2)) = [[]; [65]; [65;59;67;61;67]]%N.
Proof. exact configs_cover_refuted_notdefined. Qed.
Print Assumptions C12_configs_cover_refuted_notdefined.

(* What does hold, for trees of any depth and sibling order in the sub-family `okf 0`
   (#ifdef / #if defined(m) / #ifndef groups on distinct macros; an #ifdef/#if defined
   group carries an #else only outside the bodies of other groups): every line is kept
   by the nested-conditional semantics under one of getConfigs' configurations. *)
Theorem C12_configs_cover_partial f :
  okf O f -> NoDup (macros f) ->
  forall id, In id (ids guard f) ->
  exists c l, In c (get_configs [] [] (flatten guard f)) /\
              keep guard (ev_guard (dui_defs [] [] c)) f = Some l /\ In id l.
Proof. exact (configs_cover_partial f). Qed.
Print Assumptions C12_configs_cover_partial.

(* ... and end to end through the cut at --max-configs (default 12) and the ifstates machine *)
Theorem C12_configs_cover_e2e_partial f :
  okf O f -> NoDup (macros f) ->
  (length (get_configs [] [] (flatten guard f)) <= 12)%nat ->
  forall id, In id (ids guard f) -> In id (covered_ids false None [] [] (flatten guard f)).
Proof. exact (configs_cover_e2e_partial f). Qed.
Print Assumptions C12_configs_cover_e2e_partial.

(* The two repairs are sufficient for the WHOLE family of the property: with `#else` of an #ifdef group keeping
   configs_if in step (A) and `#if !defined(m)` stacked like `#ifndef m` (B), every line of every tree
   (#ifdef / #ifndef / #if defined() / #if !defined(), #else anywhere, any depth and sibling order, distinct macros)
   is kept under one of the configurations.  `get_configs_f` is Cfg/Fixed.v; with both switches off it is the model
   of the code (C12_fixed_off_is_code). *)
Theorem C12_fixed_configs_cover f :
  in_family f -> NoDup (macros f) ->
  forall id, In id (ids guard f) ->
  exists c l, In c (get_configs_f true true [] [] (flatten guard f)) /\
              keep guard (ev_guard (dui_defs [] [] c)) f = Some l /\ In id l.
Proof. exact (fixed_configs_cover f). Qed.
Print Assumptions C12_fixed_configs_cover.

Theorem C12_fixed_off_is_code uD uU ds : get_configs_f false false uD uU ds = get_configs uD uU ds.
Proof. exact (get_configs_f_off uD uU ds). Qed.
Print Assumptions C12_fixed_off_is_code.

(* hence the attribution made by the check is exhaustive: a line of a family tree that the real configuration
   set leaves uncovered is covered by the repaired one (and the two sets differ) *)
Theorem C12_uncovered_explained f id :
  in_family f -> NoDup (macros f) -> In id (ids guard f) ->
  ~ covered_by (get_configs [] [] (flatten guard f)) f id ->
  covered_by (get_configs_f true true [] [] (flatten guard f)) f id /\
  get_configs_f true true [] [] (flatten guard f) <> get_configs [] [] (flatten guard f).
Proof. exact (uncovered_explained f id). Qed.
Print Assumptions C12_uncovered_explained.

Theorem C12_select_all_when_fits mx cs :
  match mx with Some k => (length cs <= N.to_nat k)%nat | None => True end -> select mx cs = cs.
Proof. exact (select_all_when_fits mx cs). Qed.
Print Assumptions C12_select_all_when_fits.

(* -D X: X is defined while preprocessing every configuration (any c, so in particular the analysed ones) *)
Theorem C12_userD_in_every_cfg X userD userU c :
  In X userD -> ~ In X userU -> In X (dui_defs userD userU c).
Proof. exact (userD_in_every_cfg X userD userU c). Qed.
Print Assumptions C12_userD_in_every_cfg.

(* -U X: X is defined in none *)
Theorem C12_userU_in_no_cfg X userD userU c :
  In X userU -> ~ In X (dui_defs userD userU c).
Proof. exact (userU_in_no_cfg X userD userU c). Qed.
Print Assumptions C12_userU_in_no_cfg.

Theorem C12_userD_guard X userD userU c kd :
  In X userD -> ~ In X userU -> guard_holds (dui_defs userD userU c) (kd, X) = positive_kind kd.
Proof. exact (userD_guard X userD userU c kd). Qed.
Print Assumptions C12_userD_guard.

Theorem C12_userU_guard X userD userU c kd :
  In X userU -> guard_holds (dui_defs userD userU c) (kd, X) = negb (positive_kind kd).
Proof. exact (userU_guard X userD userU c kd). Qed.
Print Assumptions C12_userU_guard.

Theorem C12_userD_default_single d userD userU ds :
  analysed false None (d :: userD) userU ds = [[]].
Proof. exact (userD_default_single d userD userU ds). Qed.
Print Assumptions C12_userD_default_single.

(* premises are inhabited: a depth-3 tree with #else branches in the sub-family *)
Example C12_ok_example : okf O ok_example /\ NoDup (macros ok_example).
Proof. exact ok_example_ok. Qed.
Example C12_ok_example_fits : (length (get_configs [] [] (flatten guard ok_example)) <= 12)%nat.
Proof. vm_compute. repeat constructor. Qed.
Example C12_family_example : in_family refute1 /\ NoDup (macros refute1) /\ In 3%N (ids guard refute1).
Proof. exact (conj (proj1 configs_cover_refuted) (conj (proj1 (proj2 configs_cover_refuted)) (proj1 (proj2 (proj2 configs_cover_refuted))))). Qed.
Example C12_userDU_example : In [88]%N [[88]]%N /\ ~ In [88]%N [[89]]%N.
Proof. split; [now left|]. intros [H|[]]; discriminate. Qed.
